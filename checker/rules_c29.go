package main

import (
	"fmt"
	"go/token"
	"go/types"

	"golang.org/x/tools/go/ssa"
)

func init() {
	register(&Property{
		ID:          "C29",
		Roots:       []string{"overlord/configstate/config"},
		Technique:   "ordering / value-provenance rules (SSA) on config.Transaction.Commit (fresh re-read of the committed configuration, what is applied, what is written back), reachability (static call graph) from the read-only transaction methods to State.Set, who-may-write of the \"config\" state key, key agreement of the revision-config helpers",
		Explanation: "Structural necessary conditions for 'a configuration transaction commits exactly its own writes on top of the latest committed configuration': (R1) Transaction.Commit re-reads the \"config\" state key into a FRESH map (the decode target is reset first, so nothing of the transaction's old observation survives), applies only the transaction's changes, per snap, to the entry of that snap in the re-read map, and writes that same map back; with no changes nothing is written; (R2) Set/Get/GetMaybe/GetPristine/Changes never write the state, and the \"config\" key is written only in this package (Commit and the per-snap helpers); (R3) the per-revision helpers agree: SaveRevisionConfig, RestoreRevisionConfig and DiscardRevisionConfig use the same state key and index it by (snap name, rev.String()); Restore writes the saved copy to config[snap] only when a copy of that revision exists.",
		NotDecided:  "read-your-writes and merge semantics over nested dotted paths (PatchConfig / commitChange); external (virtual) configuration; concurrent transactions on the same option.",
		Run:         func(c *Ctx) { runC29(c); runC29x(c); runC29z(c) },
	})
}

func runC29(c *Ctx) {
	P := c.P
	pkg := "overlord/configstate/config"
	commit := P.Func(pkg + ".(*Transaction).Commit")
	stGet := P.FuncObj("overlord/state.(*State).Get")
	stSet := P.FuncObj("overlord/state.(*State).Set")
	fPristine := P.Field(pkg + ".Transaction.pristine")
	fChanges := P.Field(pkg + ".Transaction.changes")
	keyIs := func(ci ssa.CallInstruction, k string) bool {
		s, ok := ConstString(CallArgs(ci)[0])
		return ok && s == k
	}

	c.Rule("C29-R1", "O+C", "Commit: fresh re-read of \"config\", own changes applied per snap to the re-read entries, that map written back; nothing written without changes", 6)
	var get, set ssa.CallInstruction
	// (the re-read may sit in a private helper of Commit; path queries follow the call into it)
	gets, _ := P.CallSitesDeep(commit, stGet)
	for _, cc := range gets {
		if keyIs(cc, "config") {
			get = cc
		}
	}
	sets, _ := P.CallSitesDeep(commit, stSet)
	for _, cc := range sets {
		if keyIs(cc, "config") {
			set = cc
		}
	}
	if get == nil || set == nil {
		c.Undecided(pkg+".(*Transaction).Commit#get-set", commit.Pos(), "state.Get(\"config\")/state.Set(\"config\") not found in Commit")
	} else {
		c.Before(pkg+".(*Transaction).Commit#reread-before-write", commit, SinkIs(get), "t.state.Get(\"config\", ...)", set, nil)
		// the decode target
		tgt := CallArgs(get)[1]
		if mi, ok := tgt.(*ssa.MakeInterface); ok {
			tgt = mi.X
		}
		// fresh: either a local variable declared in Commit (an Alloc nobody stored into before), or a
		// field/variable that is reset (nil or a new map stored) on every path to the Get
		fresh := false
		why := ""
		switch x := tgt.(type) {
		case *ssa.Alloc:
			fresh = true
			for _, r := range *x.Referrers() {
				if st, ok := r.(*ssa.Store); ok && st.Addr == ssa.Value(x) {
					if (ReachQ{Fn: commit, From: LocOf(st), Sink: SinkIs(get)}).Run().Found {
						if _, isNew := st.Val.(*ssa.MakeMap); !isNew && !IsNilConst(st.Val) {
							fresh = false
							why = "the local decode target is pre-filled"
						}
					}
				}
			}
		case *ssa.FieldAddr:
			f := fieldOfAddr(x)
			isReset := func(in ssa.Instruction) bool {
				st, ok := in.(*ssa.Store)
				if !ok {
					return false
				}
				fa, ok := st.Addr.(*ssa.FieldAddr)
				if !ok || fieldOfAddr(fa) != f {
					return false
				}
				_, isNew := st.Val.(*ssa.MakeMap)
				return isNew || IsNilConst(st.Val)
			}
			r := ReachQ{Fn: commit, CutInstr: isReset, Sink: SinkIs(get)}.Run()
			fresh = !r.Found
			why = "state.Get decodes into t." + f.Name() + ", which still holds what the transaction observed when it was created: encoding/json keeps map entries that are absent from the input, so configuration deleted (or options unset) by someone else in the meantime is written back by this commit"
		default:
			why = "decode target not recognised"
		}
		c.Check(fresh, pkg+".(*Transaction).Commit#reread-into-fresh-map", get.Pos(), "the committed configuration is decoded into a fresh map", why)
		// what is written back is the re-read map (same variable)
		wv := CallArgs(set)[1]
		if mi, ok := wv.(*ssa.MakeInterface); ok {
			wv = mi.X
		}
		same := false
		switch x := tgt.(type) {
		case *ssa.Alloc:
			same = IsLoadOfCell(wv, x)
		case *ssa.FieldAddr:
			same = IsFieldLoad(wv, fieldOfAddr(x))
		}
		c.Check(same, pkg+".(*Transaction).Commit#writes-back-reread-map", set.Pos(), "the map written is the one just re-read (plus the changes)", "Commit writes back a map other than the one it just re-read from the state: configuration committed by others since the transaction was created is overwritten")
		// the per-snap entry patched is the re-read map's entry for the same snap, patched with this snap's changes
		applyObj := P.FuncObj(pkg + ".applyChanges")
		okApply := false
		for _, ac := range CallSites(commit, applyObj) {
			a := ac.Common().Args
			// a[0]: phi(lookup in re-read map [instanceName], fresh map); a[1]: element of range t.changes
			var leaves []FlowPoint
			phiLeaves(a[0], ac, &leaves, map[*ssa.Phi]bool{})
			fromReread := false
			for _, lf := range leaves {
				if lk, ok := Strip(lf.Val).(*ssa.Lookup); ok {
					switch x := tgt.(type) {
					case *ssa.Alloc:
						fromReread = fromReread || IsLoadOfCell(lk.X, x)
					case *ssa.FieldAddr:
						fromReread = fromReread || IsFieldLoad(lk.X, fieldOfAddr(x))
					}
				}
			}
			var chLoop *RangeLoop
			for _, rl := range RangeLoops(commit) {
				if rl.Coll != nil && IsFieldLoad(rl.Coll, fChanges) {
					chLoop = rl
				}
			}
			okApply = fromReread && chLoop != nil && chLoop.Elem != nil && VIs(chLoop.Elem)(a[1])
		}
		c.Check(okApply, pkg+".(*Transaction).Commit#applies-own-changes-to-reread-entry", commit.Pos(), "applyChanges(rereadConfig[snap], t.changes[snap])", "Commit does not apply exactly this transaction's changes of a snap onto that snap's entry in the re-read configuration")
		// nothing written when there are no changes
		noChanges := Cmp("len(t.changes)==0", VLen(VField(fChanges)), token.EQL, VConstInt(0))
		c.Guarded(pkg+".(*Transaction).Commit#no-write-without-changes", commit, set, []Clause{{Not(noChanges)}}, nil)
		// the write cache is reset after the write
		resetAfter := false
		for _, st := range StoresToField(commit, fChanges) {
			if (ReachQ{Fn: commit, From: LocOf(set), Sink: SinkIs(st)}).Run().Found {
				resetAfter = true
			}
		}
		c.Check(resetAfter, pkg+".(*Transaction).Commit#cache-reset", set.Pos(), "the write cache is emptied after the commit", "the write cache is not reset after Commit: the same changes are applied again by a later Commit")
		_ = fPristine
	}

	c.Rule("C29-R2", "W", "read-only transaction methods never reach State.Set; \"config\" is written only in package config", 6)
	for _, m := range []string{"Set", "Get", "GetMaybe", "GetPristine", "GetPristineMaybe", "Changes"} {
		fn := P.Func(pkg + ".(*Transaction)." + m)
		reached := reachesCall(fn, stSet, 4)
		c.touch(fn)
		c.Check(reached == "", pkg+".(*Transaction)."+m+"#no-state-write", fn.Pos(), "does not reach State.Set", "Transaction."+m+" reaches State.Set through "+reached+": uncommitted changes become visible outside the transaction")
	}
	nW := 0
	for _, fn := range P.AllFuncs() {
		for _, sc := range CallSites(fn, stSet) {
			if k, ok := ConstString(CallArgs(sc)[0]); ok && k == "config" {
				nW++
				c.Check(fn.Pkg != nil && short(fn.Pkg.Pkg.Path()) == pkg, "state-key:config#writer:"+SSAFuncName(fn), sc.Pos(), "written inside package config", "the \"config\" state key is written by "+SSAFuncName(fn)+", outside package config")
			}
		}
	}
	if nW == 0 {
		c.Undecided("state-key:config#writers", token.NoPos, "no writer found")
	}

	c.Rule("C29-R3", "P-a", "revision-config helpers use one state key, indexed by (snap, rev.String()); Restore writes config[snap] only from an existing copy", 4)
	revString := P.FuncObj("snap.Revision.String")
	for _, h := range []string{"SaveRevisionConfig", "RestoreRevisionConfig", "DiscardRevisionConfig"} {
		fn := P.Func(pkg + "." + h)
		c.touch(fn)
		usesKey := false
		for _, cc := range append(CallSites(fn, stGet), CallSites(fn, stSet)...) {
			if keyIs(cc, "revision-config") {
				usesKey = true
			}
		}
		// indexed by the snapName parameter and rev.String()
		bySnap, byRev := false, false
		for _, b := range fn.Blocks {
			for _, in := range b.Instrs {
				var idx ssa.Value
				switch x := in.(type) {
				case *ssa.Lookup:
					idx = x.Index
				case *ssa.MapUpdate:
					idx = x.Key
				case *ssa.Call:
					if bi, ok := x.Call.Value.(*ssa.Builtin); ok && bi.Name() == "delete" {
						idx = x.Call.Args[1]
					}
				}
				if idx == nil {
					continue
				}
				if IsParam(idx, fn, 1) {
					bySnap = true
				}
				if VRes(0, CallWhere(ToFn(revString), 0, VParam(fn, 2)))(idx) {
					byRev = true
				}
			}
		}
		c.Check(usesKey && bySnap && byRev, pkg+"."+h+"#key", fn.Pos(), "\"revision-config\"[snapName][rev.String()]", fmt.Sprintf("%s does not address \"revision-config\"[snapName][rev.String()] (key=%v bySnap=%v byRev=%v): save, restore and discard would miss each other's entries", h, usesKey, bySnap, byRev))
	}
	rr := P.Func(pkg + ".RestoreRevisionConfig")
	for _, sc := range CallSites(rr, stSet) {
		if !keyIs(sc, "config") {
			continue
		}
		hasCopy := Atom{Name: "revision copy present", Match: func(cd Cond) Pol {
			return cd.BoolIs(func(v ssa.Value) bool {
				ex, ok := v.(*ssa.Extract)
				if !ok || ex.Index != 1 {
					return false
				}
				lk, ok := ex.Tuple.(*ssa.Lookup)
				return ok && VRes(0, CallWhere(ToFn(revString), 0, VParam(rr, 2)))(lk.Index)
			})
		}}
		c.Guarded(pkg+".RestoreRevisionConfig#write<=copy-present", rr, sc, []Clause{{hasCopy}}, nil)
	}
	_ = types.Typ
}

// reachesCall reports (as a chain of function names) whether fn reaches a call of obj through
// static calls within its own package, up to the given depth; "" when it does not.
func reachesCall(fn *ssa.Function, obj *types.Func, depth int) string {
	seen := map[*ssa.Function]bool{}
	var rec func(f *ssa.Function, d int) string
	rec = func(f *ssa.Function, d int) string {
		if f == nil || seen[f] || f.Blocks == nil || d > depth {
			return ""
		}
		seen[f] = true
		if len(CallSites(f, obj)) > 0 {
			return SSAFuncName(f)
		}
		for _, a := range f.AnonFuncs {
			if r := rec(a, d); r != "" {
				return r
			}
		}
		for _, b := range f.Blocks {
			for _, in := range b.Instrs {
				if ci, ok := in.(ssa.CallInstruction); ok {
					if sf := ci.Common().StaticCallee(); sf != nil && sf.Pkg == fn.Pkg {
						if r := rec(sf, d+1); r != "" {
							return SSAFuncName(f) + " -> " + r
						}
					}
				}
			}
		}
		return ""
	}
	return rec(fn, 0)
}
