package main

import (
	"fmt"
	"go/ast"
	"go/constant"
	"go/token"
	"go/types"

	"golang.org/x/tools/go/ssa"
)

func init() {
	register(&Property{
		ID:          "C33",
		Roots:       []string{"strutil", "overlord/snapstate"},
		Technique:   "constant-table check of the character order (go/constant over the 256 entries); guarded-sink / value-provenance rules (SSA) on VersionCompare, compareSubversion, cmpNumeric; consumers' use of the result",
		Explanation: "Structural necessary conditions for 'version comparison follows the Debian rules and is only applied to valid versions' (the ordering axioms themselves are value-level and not decided): (R1) VersionCompare compares only after versionIsValid accepted both operands, versionIsValid being exactly !matchEpoch; the revision is split off at the LAST hyphen (strings.LastIndexByte), with \"0\" standing for a missing revision, and the revisions are compared only when the upstream parts are equal; (R2) the character order table has 256 entries in which '~' sorts before the end of string, the end of string before everything else, digits are neutral, letters keep their ASCII order and every other character sorts after all letters, in ASCII order; (R3) compareSubversion takes its verdict from cmpNumeric exactly when both fragments are numeric and from cmpString otherwise (no shortcut verdicts), and cmpNumeric compares digit strings by length and bytes after trimming zeroes - it never converts to a fixed-width integer; (R4) the consumers (doInstall's snapd-downgrade test, changeIsSnapdDowngrade) treat exactly res==1 of VersionCompare(current, new) as a downgrade and propagate its error.",
		NotDecided:  "reflexivity, antisymmetry and transitivity of the resulting order; equivalence with dpkg --compare-versions (value-level; the existing table tests sample it).",
		Run:         runC33,
	})
}

func runC33(c *Ctx) {
	P := c.P
	pkg := "strutil"
	vc := P.Func(pkg + ".VersionCompare")
	valid := P.FuncObj(pkg + ".versionIsValid")
	sub := P.FuncObj(pkg + ".compareSubversion")
	lastIdx := P.FuncObj("strings.LastIndexByte")

	c.Rule("C33-R1", "G", "VersionCompare: compare <= both valid; revision split at the last '-'; revisions compared only on equal upstream parts", 6)
	okA := TrueRes("versionIsValid(va)", true, 0, CallWhere(ToFn(valid), 0, VParam(vc, 0)))
	okB := TrueRes("versionIsValid(vb)", true, 0, CallWhere(ToFn(valid), 0, VParam(vc, 1)))
	subs := CallSites(vc, sub)
	for i, sc := range subs {
		c.Guarded(fmt.Sprintf("%s.VersionCompare#compare<=valid#%d", pkg, i+1), vc, sc, []Clause{{okA}, {okB}}, nil)
	}
	nOK := 0
	for _, r := range ReturnsOf(vc) {
		if IsSuccessReturn(r) {
			nOK++
			c.Guarded(fmt.Sprintf("%s.VersionCompare#verdict<=valid#%d", pkg, nOK), vc, r, []Clause{{okA}, {okB}}, nil)
		}
	}
	c.Check(len(subs) == 2, pkg+".VersionCompare#two-comparisons", vc.Pos(), "upstream part, then revision", fmt.Sprintf("expected two compareSubversion calls (upstream, revision), found %d", len(subs)))
	vv := P.Func(pkg + ".versionIsValid")
	okNeg := false
	for _, lf := range ReturnLeaves(vv, 0) {
		if u, ok := lf.Val.(*ssa.UnOp); ok && u.Op == token.NOT && VRes(0, ToFn(P.FuncObj(pkg+".matchEpoch")))(u.X) {
			okNeg = true
		}
	}
	c.Check(okNeg, pkg+".versionIsValid#is-not-epoch", vv.Pos(), "!matchEpoch(a)", "versionIsValid is no longer exactly !matchEpoch(a)")
	// every slice of va/vb is bounded by a LastIndexByte(v, '-') result
	nSl := 0
	// the split may be done by a private helper called once per operand (splitRevision(v))
	type scanFn struct {
		fn    *ssa.Function
		times int
	}
	scan := []scanFn{{vc, 1}}
	for _, h := range P.HelpersOf(vc) {
		if obj, ok := h.Object().(*types.Func); ok {
			if k := len(CallSites(vc, obj)); k > 0 {
				scan = append(scan, scanFn{h, k})
			}
		}
	}
	for _, sf := range scan {
		for _, b := range sf.fn.Blocks {
			for _, in := range b.Instrs {
				sl, ok := in.(*ssa.Slice)
				if !ok {
					continue
				}
				if bt, isB := sl.X.Type().Underlying().(*types.Basic); !isB || bt.Info()&types.IsString == 0 {
					continue // the []any of fmt.Errorf
				}
				nSl += sf.times
				okSrc := func(v ssa.Value) bool {
					return v == nil || DependsOn(v, func(x ssa.Value) bool {
						cc, _, ok := CallResult(x)
						if !ok || !ToFn(lastIdx)(cc) {
							return false
						}
						k, isC := ConstInt(cc.Common().Args[1])
						return isC && k == '-'
					})
				}
				c.touch(sf.fn)
				c.Check(okSrc(sl.Low) && okSrc(sl.High), fmt.Sprintf("%s.VersionCompare#split-at-last-hyphen#%d", pkg, nSl), sl.Pos(), "split at strings.LastIndexByte(v, '-')", "the version is not split at the LAST hyphen (strings.LastIndexByte(v, '-')): with several hyphens the revision is taken from the wrong place and e.g. 2.60-1-1 sorts before 2.60-2")
			}
		}
	}
	c.Check(nSl == 4 && len(CallSites(vc, P.FuncObj("strings.Cut"))) == 0, pkg+".VersionCompare#split-shape", vc.Pos(), "va[:i], va[i+1:], vb[:i], vb[i+1:]", fmt.Sprintf("expected the four slices of the two operands at their last hyphen, found %d (or a strings.Cut, which splits at the first hyphen)", nSl))
	// the second comparison only when the first is 0
	if len(subs) == 2 {
		first, second := subs[0], subs[1]
		if (ReachQ{Fn: vc, From: LocOf(second), Sink: SinkIs(first)}).Run().Found {
			first, second = second, first
		}
		c.Guarded(pkg+".VersionCompare#revision-only-on-tie", vc, second, []Clause{{Cmp("res==0", VRes(0, func(ci ssa.CallInstruction) bool { return ci == first }), token.EQL, VConstInt(0))}}, nil)
		// missing revision is "0"
		zero := 0
		for _, a := range second.Common().Args {
			var leaves []FlowPoint
			phiLeaves(a, second, &leaves, map[*ssa.Phi]bool{})
			for _, lf := range leaves {
				if s, ok := ConstString(lf.Val); ok && s == "0" {
					zero++
				}
				// the revision handed back by a split helper: its own default
				if hc, hi, isCall := CallResult(lf.Val); isCall {
					if h := hc.Common().StaticCallee(); h != nil && h.Pkg == vc.Pkg && len(h.Blocks) > 0 {
						for _, hl := range ReturnLeaves(h, hi) {
							if s, ok := ConstString(hl.Val); ok && s == "0" {
								zero++
								break
							}
						}
					}
				}
			}
		}
		c.Check(zero == 2, pkg+".VersionCompare#missing-revision-is-0", second.Pos(), "a missing revision compares as \"0\"", "a version without a revision is no longer compared as revision \"0\"")
	}

	c.Rule("C33-R2", "K", "chOrder: 256 entries; '~' < end-of-string < 0 == digits < letters (ASCII order) < every other character (ASCII order)", 1)
	var tbl []int64
	if cl, ok := P.AstVarInit(pkg, "chOrder").(*ast.CompositeLit); ok {
		for _, e := range cl.Elts {
			tv, ok := P.Pkgs[pkg].TypesInfo.Types[e]
			if ok && tv.Value != nil {
				v, _ := constant.Int64Val(tv.Value)
				tbl = append(tbl, v)
			}
		}
	}
	bad := ""
	if len(tbl) != 256 {
		bad = fmt.Sprintf("table has %d constant entries, expected 256", len(tbl))
	} else {
		isLetter := func(i int) bool { return (i >= 'A' && i <= 'Z') || (i >= 'a' && i <= 'z') }
		isDigit := func(i int) bool { return i >= '0' && i <= '9' }
		if !(tbl['~'] < tbl[0] && tbl[0] < 0) {
			bad = "'~' must sort before the end of string, and the end of string before everything else"
		}
		maxLetter, minOther := int64(-1<<62), int64(1<<62)
		prevLetter, prevOther := int64(-1<<62), int64(-1<<62)
		for i := 1; i < 256 && bad == ""; i++ {
			switch {
			case i == '~':
			case isDigit(i):
				if tbl[i] != 0 {
					bad = fmt.Sprintf("digit %q has order %d, expected 0", rune(i), tbl[i])
				}
			case isLetter(i):
				if tbl[i] <= 0 || tbl[i] <= prevLetter {
					bad = fmt.Sprintf("letter %q is not in ASCII order above the digits", rune(i))
				}
				prevLetter = tbl[i]
				if tbl[i] > maxLetter {
					maxLetter = tbl[i]
				}
			default:
				if tbl[i] <= prevOther {
					bad = fmt.Sprintf("character %d is not in ASCII order among the non-letters", i)
				}
				prevOther = tbl[i]
				if tbl[i] < minOther {
					minOther = tbl[i]
				}
			}
		}
		if bad == "" && !(maxLetter < minOther) {
			bad = "some non-letter sorts before a letter"
		}
	}
	c.Check(bad == "", pkg+".chOrder#table", P.Global(pkg+".chOrder").Pos(), "Debian character order", "chOrder does not encode the Debian order: "+bad)

	c.Rule("C33-R3", "G+W", "compareSubversion: verdict from cmpNumeric iff both fragments numeric, else cmpString; cmpNumeric never converts to an integer", 3)
	cs := P.Func(pkg + ".compareSubversion")
	nextFrag := P.FuncObj(pkg + ".nextFrag")
	cmpNum := P.FuncObj(pkg + ".cmpNumeric")
	cmpStr := P.FuncObj(pkg + ".cmpString")
	numFlag := func(param int) Atom {
		return Atom{Name: fmt.Sprintf("fragment of operand %d is numeric", param), Match: func(cd Cond) Pol {
			return cd.BoolIs(func(v ssa.Value) bool {
				cc, idx, ok := CallResult(Strip(v))
				if !ok || idx != 2 || !ToFn(nextFrag)(cc) {
					return false
				}
				// va/vb are loop-carried: the argument is a phi of the parameter and nextFrag's own rest
				return DependsOn(cc.Common().Args[0], VParam(cs, param)) && !DependsOn(cc.Common().Args[0], VParam(cs, 1-param))
			})
		}}
	}
	nLeaf := 0
	var leaves []FlowPoint
	for _, r := range ReturnsOf(cs) {
		phiLeaves(r.Results[0], r, &leaves, map[*ssa.Phi]bool{})
	}
	for _, lf := range leaves {
		switch {
		case VRes(0, ToFn(cmpNum))(lf.Val):
			nLeaf++
			cc, _, _ := CallResult(lf.Val)
			// both flags true on the way: two establishing edges of the flag atom (anum && bnum)
			c.Guarded(fmt.Sprintf("%s.compareSubversion#numeric-compare<=both-numeric#%d", pkg, nLeaf), cs, cc, []Clause{{numFlag(0)}, {numFlag(1)}}, nil)
		case VRes(0, ToFn(cmpStr))(lf.Val):
			nLeaf++
			c.Holds(fmt.Sprintf("%s.compareSubversion#string-compare#%d", pkg, nLeaf), lf.Pos(), "cmpString verdict")
		default:
			if k, ok := ConstInt(lf.Val); ok && k == 0 {
				continue // initial value / both fragments exhausted
			}
			nLeaf++
			c.Violated(fmt.Sprintf("%s.compareSubversion#verdict-source#%d", pkg, nLeaf), lf.Pos(), "compareSubversion yields a verdict that is neither cmpNumeric's nor cmpString's (a shortcut such as 'digits sort before non-digits' ignores that '~' sorts before everything)")
		}
	}
	if nLeaf < 2 {
		c.Undecided(pkg+".compareSubversion#verdicts", cs.Pos(), "expected the cmpNumeric and cmpString verdicts")
	}
	cn := P.Func(pkg + ".cmpNumeric")
	c.touch(cn)
	var foreign []string
	for _, b := range cn.Blocks {
		for _, in := range b.Instrs {
			if ci, ok := in.(ssa.CallInstruction); ok {
				if co := CalleeOf(ci); co != nil && co.Pkg() != nil && co.Pkg().Path() != modPath+"/"+pkg {
					if co.Pkg().Path() == "strings" && (co.Name() == "Compare" || co.Name() == "TrimLeft" || co.Name() == "TrimLeftFunc") {
						continue // still a comparison of strings, of any length
					}
					foreign = append(foreign, FuncName(co))
				}
			}
		}
	}
	c.Check(len(foreign) == 0, pkg+".cmpNumeric#no-integer-conversion", cn.Pos(), "digit strings are compared as strings (length, then bytes)", fmt.Sprintf("cmpNumeric calls %v: converting version numbers to fixed-width integers saturates or wraps for long digit runs, making different numbers compare equal", foreign))

	c.Rule("C33-R4", "G", "consumers: downgrade <=> VersionCompare(current, new) == 1; error propagated", 2)
	spkg := "overlord/snapstate"
	vcObj := P.FuncObj(pkg + ".VersionCompare")
	for _, fnName := range []string{spkg + ".doInstall", spkg + ".changeIsSnapdDowngrade"} {
		fn := P.Func(fnName)
		for i, cc := range CallSites(fn, vcObj) {
			cc := cc
			isRes := VRes(0, func(ci ssa.CallInstruction) bool { return ci == cc })
			// the result is only ever compared with 1
			okUse := true
			uses := 0
			if ex := resultExtract(cc, 0); ex != nil && ex.Referrers() != nil {
				for _, r := range *ex.Referrers() {
					bo, ok := r.(*ssa.BinOp)
					if !ok {
						if _, dbg := r.(*ssa.DebugRef); dbg {
							continue
						}
						okUse = false
						continue
					}
					uses++
					k, isC := ConstInt(bo.Y)
					if !(bo.Op == token.EQL && isC && k == 1 && isRes(bo.X)) {
						okUse = false
					}
				}
			}
			c.touch(fn)
			c.Check(okUse && uses == 1, fmt.Sprintf("%s#downgrade-is-res==1#%d", fnName, i+1), cc.Pos(), "res == 1 means the new version is older", "the result of VersionCompare(current, new) is not used exactly as `res == 1` to detect a downgrade")
			// error propagated: on err != nil no success path continues with res
			failed := Not(NilRes("VersionCompare ok", 1, func(ci ssa.CallInstruction) bool { return ci == cc }))
			n := 0
			for _, b := range fn.Blocks {
				for si := range b.Succs {
					if AtomEdges(failed)(b, si) {
						n++
						r := ReachQ{Fn: fn, From: &Loc{b.Succs[si], -1}, Sink: IsSuccessReturn}.Run()
						c.Check(!r.Found, fmt.Sprintf("%s#compare-error-propagated#%d", fnName, i+1), cc.Pos(), "an invalid version aborts", "a VersionCompare error can be ignored: "+P.PathString(r.Path))
					}
				}
			}
			if n == 0 {
				c.Violated(fmt.Sprintf("%s#compare-error-tested#%d", fnName, i+1), cc.Pos(), "the error of VersionCompare is not tested")
			}
		}
	}
}

// resultExtract returns the Extract #idx of a multi-result call (nil when unused).
func resultExtract(ci ssa.CallInstruction, idx int) *ssa.Extract {
	v := ci.Value()
	if v == nil || v.Referrers() == nil {
		return nil
	}
	for _, r := range *v.Referrers() {
		if ex, ok := r.(*ssa.Extract); ok && ex.Index == idx {
			return ex
		}
	}
	return nil
}
