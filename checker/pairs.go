package main

import (
	"go/token"
	"go/types"
	"sort"

	"golang.org/x/tools/go/ssa"
)

// Engine P: do/undo handler pairs registered with TaskRunner.AddHandler.

type HandlerPair struct {
	Kind     string
	Do, Undo *ssa.Function
	Site     ssa.CallInstruction
}

// funcValue resolves a function-typed operand (method value, closure, function) to its body.
func funcValue(v ssa.Value) *ssa.Function {
	for i := 0; i < 4; i++ {
		switch x := v.(type) {
		case *ssa.ChangeType:
			v = x.X
			continue
		case *ssa.MakeClosure:
			f := x.Fn.(*ssa.Function)
			if f.Synthetic != "" {
				if t := boundTarget(f); t != nil {
					return t
				}
			}
			return f
		case *ssa.Function:
			if x.Synthetic != "" {
				if t := boundTarget(x); t != nil {
					return t
				}
			}
			return x
		}
		break
	}
	return nil
}

// HandlerPairs lists the (kind, do, undo) registrations made in fn (and its closures).
func (p *Prog) HandlerPairs(fn *ssa.Function) []HandlerPair {
	addHandler := p.FuncObj("overlord/state.(*TaskRunner).AddHandler")
	var out []HandlerPair
	var scan func(f *ssa.Function)
	scan = func(f *ssa.Function) {
		for _, cs := range CallSites(f, addHandler) {
			a := CallArgs(cs)
			if len(a) != 3 {
				continue
			}
			k, _ := ConstString(a[0])
			hp := HandlerPair{Kind: k, Do: funcValue(a[1]), Site: cs}
			if !IsNilConst(a[2]) {
				hp.Undo = funcValue(a[2])
			}
			out = append(out, hp)
		}
		// registrations through a local wrapper closure: addHandler := func(kind, do, undo) { runner.AddHandler(kind, do, undo); ... }
		for _, b := range f.Blocks {
			for _, in := range b.Instrs {
				ci, ok := in.(ssa.CallInstruction)
				if !ok {
					continue
				}
				w := StaticFn(ci)
				if w == nil || w.Parent() != f || len(w.Params) != 3 {
					continue
				}
				forwards := false
				for _, ac := range CallSites(w, addHandler) {
					a := CallArgs(ac)
					if len(a) == 3 && a[0] == ssa.Value(w.Params[0]) && a[1] == ssa.Value(w.Params[1]) && a[2] == ssa.Value(w.Params[2]) {
						forwards = true
					}
				}
				if !forwards {
					continue
				}
				a := ci.Common().Args
				k, _ := ConstString(a[0])
				hp := HandlerPair{Kind: k, Do: funcValue(a[1]), Site: ci}
				if !IsNilConst(a[2]) {
					hp.Undo = funcValue(a[2])
				}
				out = append(out, hp)
			}
		}
		for _, a := range f.AnonFuncs {
			scan(a)
		}
	}
	scan(fn)
	return out
}

// TaskDataKeys lists the constant keys used with (*Task).<method> on the task parameter of a
// handler (and on nothing else); method is "Set", "Get", "Has" or "Clear".
type keyUse struct {
	Key  string
	Call ssa.CallInstruction
}

func (p *Prog) TaskKeyUses(fn *ssa.Function, method string, onTask func(ssa.Value) bool) []keyUse {
	obj := p.FuncObj("overlord/state.(*Task)." + method)
	var out []keyUse
	var scan func(f *ssa.Function)
	scan = func(f *ssa.Function) {
		for _, cs := range CallSites(f, obj) {
			if onTask != nil && !onTask(CallRecv(cs)) {
				continue
			}
			if k, ok := ConstString(CallArgs(cs)[0]); ok {
				out = append(out, keyUse{k, cs})
			}
		}
		for _, a := range f.AnonFuncs {
			scan(a)
		}
	}
	scan(fn)
	return out
}

func keySet(us []keyUse) map[string]bool {
	m := map[string]bool{}
	for _, u := range us {
		m[u.Key] = true
	}
	return m
}

func sortedKeys(m map[string]bool) []string {
	var out []string
	for k := range m {
		out = append(out, k)
	}
	sort.Strings(out)
	return out
}

// GetCell: for a call t.Get(key, &cell) returns the local cell whose address is passed.
func GetCell(cs ssa.CallInstruction) *ssa.Alloc {
	a := CallArgs(cs)
	if len(a) < 2 {
		return nil
	}
	v := a[1]
	if mi, ok := v.(*ssa.MakeInterface); ok {
		v = mi.X
	}
	al, _ := v.(*ssa.Alloc)
	return al
}

// IsLoadOfCell: v is a load of the given local cell.
func IsLoadOfCell(v ssa.Value, cell *ssa.Alloc) bool {
	for i := 0; i < 4; i++ {
		switch x := v.(type) {
		case *ssa.ChangeType:
			v = x.X
			continue
		case *ssa.Convert:
			v = x.X
			continue
		case *ssa.MakeInterface:
			v = x.X
			continue
		}
		break
	}
	u, ok := v.(*ssa.UnOp)
	return ok && u.Op == token.MUL && u.X == ssa.Value(cell)
}

// FieldMutations lists the instructions of fn that change field f of a struct reached
// through a value satisfying base: direct stores, and for map-typed fields map updates
// and delete() on a load of the field.
func FieldMutations(fn *ssa.Function, f *types.Var, base func(ssa.Value) bool) []ssa.Instruction {
	var out []ssa.Instruction
	isFieldOfBase := func(v ssa.Value) bool {
		b, g, ok := FieldLoad(v)
		return ok && g == f && (base == nil || base(b))
	}
	for _, b := range fn.Blocks {
		for _, in := range b.Instrs {
			switch x := in.(type) {
			case *ssa.Store:
				if fa, ok := x.Addr.(*ssa.FieldAddr); ok && fieldOfAddr(fa) == f && (base == nil || base(fa.X)) {
					out = append(out, in)
				}
			case *ssa.MapUpdate:
				if isFieldOfBase(x.Map) {
					out = append(out, in)
				}
			case *ssa.Call:
				if bi, ok := x.Call.Value.(*ssa.Builtin); ok && bi.Name() == "delete" && len(x.Call.Args) == 2 && isFieldOfBase(x.Call.Args[0]) {
					out = append(out, in)
				}
			}
		}
	}
	return out
}
