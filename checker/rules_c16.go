package main

import (
	"fmt"
	"go/token"
	"time"

	"golang.org/x/tools/go/ssa"
)

func init() {
	register(&Property{
		ID:          "C16",
		Roots:       []string{"timeutil", "overlord/snapstate"},
		Technique:   "guarded-sink / value-provenance rules (SSA) on timeutil.Next (min-clamp idiom against last+maxDuration) and on autoRefresh.Ensure (bound and anchor handed to Next, invalidation of the cached next-refresh time on a timer change); who-may-write of autoRefresh.lastRefreshSchedule",
		Explanation: "Structural necessary conditions for 'auto-refresh happens inside the timer windows and never later than the limit' (that Schedule.Next lands inside a window is calendar arithmetic and is not decided): (R1) timeutil.Next starts from the fallback window beginning at last+maxDuration (the `last` argument, not the clock) and replaces it only by a schedule window proven to start earlier - so no chosen window starts after the limit; every schedule is consulted, each with the same `last`; (R2) Next answers 0 (refresh now) when the chosen window already started, adds the random spread only for spread windows, and otherwise answers window.Start - now; (R3) autoRefresh.Ensure hands Next the constant maxPostponement (95 days) as the bound and the last refresh time / the expired hold time as the anchor, and stores now+delta as the next refresh; (R4) a changed refresh.timer invalidates the cached next-refresh time: nextRefresh is cleared across lastRefreshSchedule != current string, and lastRefreshSchedule is written only by Ensure (and the managed-schedule fallback), from the string just compared; (R5) ParseSchedule returns a schedule only when every fragment parsed.",
		NotDecided:  "that Schedule.Next/ClockSpan.Window land inside a window (week, month and midnight arithmetic); parse/format round trips; the random spread; metered-connection postponement.",
		Run:         func(c *Ctx) { runC16(c); runC16x(c) },
	})
}

func runC16(c *Ctx) {
	P := c.P
	next := P.Func("timeutil.Next")
	add := P.FuncObj("time.Time.Add")
	before := P.FuncObj("time.Time.Before")
	sub := P.FuncObj("time.Time.Sub")
	schedNext := P.FuncObj("timeutil.(*Schedule).Next")
	fStart := P.Field("timeutil.ScheduleWindow.Start")
	fSpread := P.Field("timeutil.ScheduleWindow.Spread")
	gNow := P.Global("timeutil.timeNow")

	c.Rule("C16-R1", "G", "timeutil.Next: window starts as last+maxDuration and is replaced only by a schedule window starting earlier; every schedule consulted with `last`", 5)
	limit := VRes(0, CallWhere(CallWhere(ToFn(add), 0, VParam(next, 1)), 1, VParam(next, 2)))
	// the window variable: a local ScheduleWindow cell (Alloc) or phi; find stores to its Start field / whole-struct stores
	var winCell *ssa.Alloc
	for _, b := range next.Blocks {
		for _, in := range b.Instrs {
			if al, ok := in.(*ssa.Alloc); ok {
				if n, ok := al.Type().Underlying().(interface{ Elem() interface{} }); ok {
					_ = n
				}
				if al.Comment == "window" {
					winCell = al
				}
			}
		}
	}
	if winCell == nil {
		c.Undecided("timeutil.Next#window", next.Pos(), "the local `window` was not found as a memory cell (the rule follows its initialisation and replacement)")
	} else {
		// initialisation of Start
		okInit := false
		var replace []*ssa.Store
		for _, r := range *winCell.Referrers() {
			switch x := r.(type) {
			case *ssa.FieldAddr:
				if fieldOfAddr(x) == fStart {
					for _, r2 := range *x.Referrers() {
						if st, ok := r2.(*ssa.Store); ok {
							if limit(st.Val) {
								okInit = true
							} else {
								c.Violated("timeutil.Next#window-start-store", st.Pos(), "window.Start is set to something other than last.Add(maxDuration)")
							}
						}
					}
				}
			case *ssa.Store:
				if x.Addr == ssa.Value(winCell) {
					replace = append(replace, x)
				}
			}
		}
		c.Check(okInit, "timeutil.Next#fallback-window", winCell.Pos(), "the fallback window starts at last.Add(maxDuration)", "the fallback window does not start at last.Add(maxDuration) (e.g. it is anchored at the clock instead of the last refresh): the postponement limit no longer bounds the next refresh")
		for i, st := range replace {
			// the stored value is the result of sched.Next(last); it replaces the window only across next.Start.Before(window.Start)
			isNextRes := VRes(0, CallWhere(ToFn(schedNext), 1, VParam(next, 1)))
			c.Check(isNextRes(st.Val), fmt.Sprintf("timeutil.Next#replacement-source#%d", i+1), st.Pos(), "the replacement is sched.Next(last)", "the window is replaced by something other than sched.Next(last)")
			earlier := TrueRes("next.Start.Before(window.Start)", true, 0, CallWhere(CallWhere(ToFn(before), 0, func(v ssa.Value) bool {
				// field Start of the sched.Next result (held in a cell)
				_, f, ok := FieldLoad(v)
				return ok && f == fStart
			}), 1, func(v ssa.Value) bool {
				bs, f, ok := FieldLoad(v)
				return ok && f == fStart && bs == ssa.Value(winCell)
			}))
			c.Guarded(fmt.Sprintf("timeutil.Next#replace-only-if-earlier#%d", i+1), next, st, []Clause{{earlier}}, nil)
		}
		if len(replace) == 0 {
			c.Violated("timeutil.Next#replacement", next.Pos(), "Next never adopts a schedule window: the timer is ignored")
		}
	}
	// every schedule is consulted
	loops := LoopsOver(next, VParam(next, 0))
	if len(loops) != 1 {
		c.Undecided("timeutil.Next#schedule-loop", next.Pos(), fmt.Sprintf("expected one loop over the schedules, found %d", len(loops)))
	} else {
		rl := loops[0]
		q := ReachQ{Fn: next, From: &Loc{rl.Body, -1}, CutEdge: func(b *ssa.BasicBlock, s int) bool { return b == rl.Header },
			SinkEdge: func(b *ssa.BasicBlock, s int) bool { return b != rl.Header && b.Succs[s] == rl.Done },
			Sink:     func(in ssa.Instruction) bool { _, ok := in.(*ssa.Return); return ok }}
		r := q.Run()
		c.Check(!r.Found, "timeutil.Next#all-schedules", rl.Body.Instrs[0].Pos(), "the loop over the schedules has no early exit", "the loop over the schedules can stop early: a later schedule with an earlier window is ignored: "+P.PathString(r.Path))
		for _, nc := range CallSites(next, schedNext) {
			c.Check(VIs(rl.Elem)(nc.Common().Args[0]) && IsParam(nc.Common().Args[1], next, 1), "timeutil.Next#sched.Next(last)", nc.Pos(), "each schedule is asked for its next window after `last`", "sched.Next is not asked about the loop's schedule with the `last` argument")
		}
	}

	c.Rule("C16-R2", "G", "timeutil.Next: 0 <= window.Start.Before(now); spread only for spread windows; otherwise window.Start.Sub(now)", 3)
	now := VRes(0, ViaGlobal(gNow))
	started := TrueRes("window.Start.Before(now)", true, 0, CallWhere(CallWhere(ToFn(before), 0, VField(fStart)), 1, now))
	nz := 0
	for i, lf := range ReturnLeaves(next, 0) {
		if k, ok := ConstInt(lf.Val); ok && k == 0 {
			nz++
			c.GuardedFlow(fmt.Sprintf("timeutil.Next#zero-only-when-started#%d", i+1), next, lf, []Clause{{started}}, nil)
			continue
		}
		// window.Start.Sub(now) [+ randDur]
		okVal := DependsOn(lf.Val, VRes(0, CallWhere(CallWhere(ToFn(sub), 0, VField(fStart)), 1, now)))
		c.Check(okVal, fmt.Sprintf("timeutil.Next#delay-value#%d", i+1), lf.Pos(), "window.Start.Sub(now) (+ spread)", "the delay returned is not computed from window.Start.Sub(now)")
		c.GuardedFlow(fmt.Sprintf("timeutil.Next#delay-only-when-not-started#%d", i+1), next, lf, []Clause{{Not(started)}}, nil)
	}
	c.Check(nz > 0, "timeutil.Next#overdue-is-immediate", next.Pos(), "an overdue window yields 0", "Next no longer answers 0 for a window that already started: an overdue refresh waits for a later window")
	spread := Atom{Name: "window.Spread", Match: func(cd Cond) Pol { return cd.BoolIs(VField(fSpread)) }}
	for i, rc := range CallSites(next, P.FuncObj("timeutil.randDur")) {
		c.Guarded(fmt.Sprintf("timeutil.Next#spread-only-if-spread#%d", i+1), next, rc, []Clause{{spread}}, nil)
	}

	c.Rule("C16-R3", "K+W", "autoRefresh.Ensure: timeutil.Next(schedule, lastRefresh | holdTime, maxPostponement==95d); nextRefresh = now.Add(delta)", 4)
	pkg := "overlord/snapstate"
	ens := P.Func(pkg + ".(*autoRefresh).Ensure")
	nextObj := P.FuncObj("timeutil.Next")
	fNextRefresh := P.Field(pkg + ".autoRefresh.nextRefresh")
	lastRefreshObj := P.FuncObj(pkg + ".(*autoRefresh).LastRefresh")
	effHold := P.TryObj(pkg + ".(*autoRefresh).EffectiveRefreshHold")
	schedObj := P.FuncObj(pkg + ".(*autoRefresh).refreshScheduleWithDefaultsFallback")
	ncs := CallSites(ens, nextObj)
	for i, nc := range ncs {
		a := nc.Common().Args
		k, isC := ConstInt(a[2])
		c.Check(isC && k == int64(95*24*time.Hour), fmt.Sprintf("%s.(*autoRefresh).Ensure#bound#%d", pkg, i+1), nc.Pos(), "bounded by maxPostponement (95 days)", "timeutil.Next is not given the constant maxPostponement (95 days) as the bound")
		okAnchor := VRes(0, ToFn(lastRefreshObj))(a[1])
		if !okAnchor {
			okAnchor = VRes(1, ToFn(P.FuncObj(pkg+".(*autoRefresh).isRefreshHeld")))(a[1])
		}
		_ = effHold
		c.Check(okAnchor, fmt.Sprintf("%s.(*autoRefresh).Ensure#anchor#%d", pkg, i+1), nc.Pos(), "anchored at the last refresh / the expired hold time", "timeutil.Next is anchored at something other than m.LastRefresh() or the effective hold time")
		c.Check(VRes(0, ToFn(schedObj))(a[0]), fmt.Sprintf("%s.(*autoRefresh).Ensure#schedule#%d", pkg, i+1), nc.Pos(), "the schedule just read from the configuration", "timeutil.Next is not given the schedule returned by refreshScheduleWithDefaultsFallback in this pass")
		// the delta is what gets stored (now.Add(delta))
		okStore := false
		for _, st := range StoresToField(ens, fNextRefresh) {
			if VRes(0, CallWhere(ToFn(add), 1, VIs(nc.Value())))(st.Val) {
				okStore = true
			}
		}
		c.Check(okStore, fmt.Sprintf("%s.(*autoRefresh).Ensure#stored#%d", pkg, i+1), nc.Pos(), "nextRefresh = now.Add(delta)", "the delay computed by timeutil.Next is not what is stored as the next refresh time")
	}
	if len(ncs) < 2 {
		c.Undecided(pkg+".(*autoRefresh).Ensure#next-calls", ens.Pos(), fmt.Sprintf("expected the two timeutil.Next calls (after last refresh, after an expired hold), found %d", len(ncs)))
	}

	c.Rule("C16-R4", "G+W", "a changed refresh.timer clears the cached nextRefresh; lastRefreshSchedule is written only from the string just compared, in Ensure", 3)
	fLastSched := P.Field(pkg + ".autoRefresh.lastRefreshSchedule")
	curStr := VRes(1, ToFn(schedObj))
	changed := Cmp("m.lastRefreshSchedule!=refreshScheduleStr", VField(fLastSched), token.NEQ, curStr)
	// from the `changed` edge, the zero time is stored into nextRefresh before anything else happens
	nCh := 0
	for _, b := range ens.Blocks {
		for si := range b.Succs {
			if !AtomEdges(changed)(b, si) {
				continue
			}
			nCh++
			isClear := func(in ssa.Instruction) bool {
				st, ok := in.(*ssa.Store)
				if !ok {
					return false
				}
				fa, ok := st.Addr.(*ssa.FieldAddr)
				if !ok || fieldOfAddr(fa) != fNextRefresh {
					return false
				}
				_, isZero := Strip(st.Val).(*ssa.Const)
				if !isZero {
					if u, ok := st.Val.(*ssa.UnOp); ok {
						if al, ok := u.X.(*ssa.Alloc); ok && al.Comment == "complit" {
							isZero = true
						}
					}
				}
				return isZero
			}
			q := ReachQ{Fn: ens, From: &Loc{b.Succs[si], -1}, CutInstr: isClear, Sink: SinkCall(nextObj, P.FuncObj(pkg+".autoRefreshInFlight"))}
			r := q.Run()
			c.Check(!r.Found, fmt.Sprintf("%s.(*autoRefresh).Ensure#timer-change-invalidates#%d", pkg, nCh), b.Instrs[len(b.Instrs)-1].Pos(), "a changed timer clears nextRefresh", "after a timer change the cached next refresh time can survive: "+P.PathString(r.Path))
		}
	}
	if nCh == 0 {
		c.Violated(pkg+".(*autoRefresh).Ensure#timer-change-detected", ens.Pos(), "Ensure no longer compares m.lastRefreshSchedule with the schedule string it just read (field load against result 1 of refreshScheduleWithDefaultsFallback of this pass): a timer change that something else already recorded goes unnoticed and the stale next-refresh time is kept")
	}
	// writers of lastRefreshSchedule
	for i, st := range P.FieldStores(fLastSched) {
		top := st.Parent()
		for top.Parent() != nil {
			top = top.Parent()
		}
		fnName := SSAFuncName(top)
		switch fnName {
		case pkg + ".(*autoRefresh).Ensure":
			c.Check(curStr(st.Val), fmt.Sprintf("%s.autoRefresh.lastRefreshSchedule#store#%d", pkg, i+1), st.Pos(), "remembers the string compared in this pass", "Ensure stores into lastRefreshSchedule something other than the schedule string it just compared")
			// ... and after the comparison
			for _, b := range ens.Blocks {
				if len(b.Instrs) == 0 {
					continue
				}
				if iff, ok := b.Instrs[len(b.Instrs)-1].(*ssa.If); ok && changed.Match(Decompose(iff.Cond)) != PolNone {
					rq := ReachQ{Fn: ens, From: LocOf(st), Sink: SinkIs(iff)}
					c.Check(!rq.Run().Found, fmt.Sprintf("%s.autoRefresh.lastRefreshSchedule#store-after-compare#%d", pkg, i+1), st.Pos(), "stored after the comparison", "lastRefreshSchedule is overwritten before it is compared with the current schedule")
				}
			}
		default:
			// the managed-schedule fallback records "managed" bookkeeping; a getter used by read-only
			// API calls must not record the schedule as seen
			isGetter := fnName == pkg+".(*autoRefresh).refreshScheduleWithDefaultsFallback" || fnName == pkg+".(*autoRefresh).RefreshSchedule"
			v, isConst := ConstString(st.Val)
			c.Check(!isGetter || (isConst && v == "managed"), fmt.Sprintf("%s.autoRefresh.lastRefreshSchedule#store#%d", pkg, i+1), st.Pos(), "not a schedule read by a getter", "lastRefreshSchedule is recorded in "+fnName+", which read-only callers (RefreshSchedule, system-info) also run: a timer change is then marked as seen before Ensure compared it, and the stale next-refresh time is kept")
		}
	}

	c.Rule("C16-R5", "G", "ParseSchedule: a schedule is returned only when every fragment parsed", 1)
	ps := P.Func("timeutil.ParseSchedule")
	okParse := true
	path := ""
	for _, lf := range nilLeaves(ps, 1) {
		// a nil error return must not be reachable from a failed fragment parse
		for _, b := range ps.Blocks {
			if len(b.Instrs) == 0 {
				continue
			}
			iff, ok := b.Instrs[len(b.Instrs)-1].(*ssa.If)
			if !ok {
				continue
			}
			cd := Decompose(iff.Cond)
			if cd.Bin == nil || !(cd.Bin.Op == token.NEQ || cd.Bin.Op == token.EQL) {
				continue
			}
			isErrTest := (isErrorType(cd.Bin.X.Type()) && IsNilConst(cd.Bin.Y)) || (isErrorType(cd.Bin.Y.Type()) && IsNilConst(cd.Bin.X))
			if !isErrTest {
				continue
			}
			failSucc := 0
			if (cd.Bin.Op == token.EQL) != cd.Neg {
				failSucc = 1
			}
			q := ReachQ{Fn: ps, From: &Loc{b.Succs[failSucc], -1}}
			if lf.Instr != nil {
				q.Sink = SinkIs(lf.Instr)
			} else {
				q.SinkEdge = func(bb *ssa.BasicBlock, s int) bool { return bb == lf.EdgeFrom && s == lf.EdgeSucc }
			}
			if r := q.Run(); r.Found {
				okParse = false
				path = P.PathString(r.Path)
			}
		}
	}
	c.touch(ps)
	c.Check(okParse, "timeutil.ParseSchedule#errors-propagate", ps.Pos(), "no success return after a failed fragment parse", "ParseSchedule can return a (partial) schedule after a fragment failed to parse: "+path)
}
