package main

import (
	"fmt"
	"go/token"
	"go/types"
	"os"
	"sort"
	"strings"

	"golang.org/x/tools/go/packages"
	"golang.org/x/tools/go/ssa"
)

const modPath = "github.com/snapcore/snapd"

// excludedPkgs cannot be type-checked in this sandbox (cgo headers missing).
var excludedPkgs = map[string]string{
	"cmd/snap-seccomp": "needs <seccomp.h> (libseccomp-dev not installed)",
}

// cmd/snap-update-ns needs <sys/capability.h> for its cgo bootstrap; a stand-in header under
// checker/cstub (types only) is put on cgo's include path so that the Go side type-checks.

// Prog is the resolved program the rules are evaluated on.
type Prog struct {
	RepoDir  string
	Tier     string
	Fset     *token.FileSet
	Pkgs     map[string]*packages.Package // keyed by path relative to the module
	SSA      *ssa.Program
	SrcPkgs  []*ssa.Package  // packages that have syntax (bodies)
	srcFuncs []*ssa.Function // every function with a body in SrcPkgs, anon funcs included
	Tags     string
	GOARCH   string
	LoadNote string
}

func short(path string) string {
	if path == modPath {
		return "."
	}
	return strings.TrimPrefix(path, modPath+"/")
}

// Load loads the given module-relative package paths (or "./..." for everything).
func Load(repo, tier string, roots []string, tags, goarch string) (*Prog, error) {
	os.Unsetenv("GOWORK")
	mode := packages.NeedName | packages.NeedFiles | packages.NeedCompiledGoFiles | packages.NeedImports |
		packages.NeedTypes | packages.NeedTypesSizes | packages.NeedSyntax | packages.NeedTypesInfo
	whole := len(roots) == 1 && roots[0] == "./..."
	if whole {
		mode |= packages.NeedDeps
	}
	env := append(os.Environ(), "GOFLAGS=-mod=mod", "GOPROXY=off", "GOSUMDB=off", "GOTOOLCHAIN=local", "GOWORK=off", "CGO_CFLAGS=-I"+cstubDir()+" -w")
	if goarch != "" {
		env = append(env, "GOARCH="+goarch)
	}
	cfg := &packages.Config{Mode: mode, Dir: repo, Tests: false, Env: env, Fset: token.NewFileSet()}
	if len(overlayFlag) > 0 {
		cfg.Overlay = map[string][]byte{}
		for _, ov := range overlayFlag {
			i := strings.Index(ov, "=")
			if i < 0 {
				return nil, fmt.Errorf("bad -overlay %q", ov)
			}
			data, err := os.ReadFile(ov[i+1:])
			if err != nil {
				return nil, err
			}
			cfg.Overlay[repo+"/"+ov[:i]] = data
		}
	}
	if tags != "" {
		cfg.BuildFlags = []string{"-tags=" + tags}
	}
	var pats []string
	if whole {
		pats = []string{"./..."}
	} else {
		for _, r := range roots {
			pats = append(pats, "./"+r)
		}
	}
	pkgs, err := packages.Load(cfg, pats...)
	if err != nil {
		return nil, fmt.Errorf("packages.Load: %v", err)
	}
	if len(pkgs) == 0 {
		return nil, fmt.Errorf("no packages loaded from %s", repo)
	}
	p := &Prog{RepoDir: repo, Tier: tier, Fset: cfg.Fset, Pkgs: map[string]*packages.Package{}, Tags: tags, GOARCH: goarch}
	var initial []*packages.Package
	var errs []string
	for _, pk := range pkgs {
		sp := short(pk.PkgPath)
		if _, bad := excludedPkgs[sp]; bad {
			continue
		}
		if len(pk.Errors) > 0 {
			for _, e := range pk.Errors {
				errs = append(errs, fmt.Sprintf("%s: %v", sp, e))
			}
			continue
		}
		if pk.Types == nil || pk.IllTyped {
			errs = append(errs, fmt.Sprintf("%s: ill-typed", sp))
			continue
		}
		p.Pkgs[sp] = pk
		initial = append(initial, pk)
	}
	if len(errs) > 0 {
		sort.Strings(errs)
		if len(errs) > 10 {
			errs = errs[:10]
		}
		return nil, fmt.Errorf("type-check/load errors in root packages:\n  %s", strings.Join(errs, "\n  "))
	}
	if len(initial) == 0 {
		return nil, fmt.Errorf("zero analysable packages")
	}
	// In whole-program mode dependencies have syntax as well.
	if whole {
		packages.Visit(initial, nil, func(pk *packages.Package) {
			sp := short(pk.PkgPath)
			if _, ok := p.Pkgs[sp]; !ok && pk.Types != nil && !pk.IllTyped && strings.HasPrefix(pk.PkgPath, modPath) {
				if _, bad := excludedPkgs[sp]; !bad {
					p.Pkgs[sp] = pk
				}
			}
		})
	}
	// Build SSA: bodies for the packages we analyse, signatures only for the rest
	// (go/packages may hand back syntax without type info for dependencies when
	// an overlay is present; ssautil.AllPackages would choke on those).
	prog := ssa.NewProgram(cfg.Fset, ssa.InstantiateGenerics)
	isSrc := map[*packages.Package]bool{}
	for _, pk := range p.Pkgs {
		isSrc[pk] = true
	}
	packages.Visit(initial, nil, func(pk *packages.Package) {
		if pk.Types == nil {
			return
		}
		if isSrc[pk] && pk.TypesInfo != nil && len(pk.Syntax) > 0 && !pk.IllTyped {
			prog.CreatePackage(pk.Types, pk.Syntax, pk.TypesInfo, true)
		} else {
			delete(p.Pkgs, short(pk.PkgPath))
			prog.CreatePackage(pk.Types, nil, nil, true)
		}
	})
	prog.Build()
	p.SSA = prog
	seen := map[*ssa.Function]bool{}
	var addFn func(f *ssa.Function)
	addFn = func(f *ssa.Function) {
		if f == nil || seen[f] || f.Blocks == nil {
			return
		}
		seen[f] = true
		p.srcFuncs = append(p.srcFuncs, f)
		for _, a := range f.AnonFuncs {
			addFn(a)
		}
	}
	var keys []string
	for k := range p.Pkgs {
		keys = append(keys, k)
	}
	sort.Strings(keys)
	for _, k := range keys {
		pk := p.Pkgs[k]
		sp := prog.Package(pk.Types)
		if sp == nil || len(pk.Syntax) == 0 {
			continue
		}
		p.SrcPkgs = append(p.SrcPkgs, sp)
		var mnames []string
		for n := range sp.Members {
			mnames = append(mnames, n)
		}
		sort.Strings(mnames)
		for _, n := range mnames {
			switch m := sp.Members[n].(type) {
			case *ssa.Function:
				addFn(m)
			case *ssa.Type:
				for _, T := range []types.Type{m.Type(), types.NewPointer(m.Type())} {
					ms := prog.MethodSets.MethodSet(T)
					for i := 0; i < ms.Len(); i++ {
						fn := prog.MethodValue(ms.At(i))
						if fn != nil && fn.Pkg == sp && fn.Synthetic == "" {
							addFn(fn)
						}
					}
				}
			}
		}
	}
	return p, nil
}

// AllFuncs returns every function with a body in the loaded source packages.
func (p *Prog) AllFuncs() []*ssa.Function { return p.srcFuncs }

// FuncsIn returns the source functions (with anon funcs) of one package.
func (p *Prog) FuncsIn(pkg string) []*ssa.Function {
	var out []*ssa.Function
	for _, f := range p.srcFuncs {
		if f.Pkg != nil && short(f.Pkg.Pkg.Path()) == pkg {
			out = append(out, f)
		}
	}
	return out
}

func (p *Prog) Pos(pos token.Pos) string {
	if !pos.IsValid() {
		return "?"
	}
	pp := p.Fset.Position(pos)
	f := strings.TrimPrefix(pp.Filename, p.RepoDir+"/")
	return fmt.Sprintf("%s:%d", f, pp.Line)
}
