package main

import (
	"fmt"
	"go/ast"
	"go/token"
	"go/types"
	"regexp/syntax"
	"strings"

	"golang.org/x/tools/go/ssa"
)

func init() {
	register(&Property{
		ID:          "C26",
		Roots:       []string{"daemon", "overlord/auth"},
		Technique:   "guarded-sink reachability on the SSA CFG of ServeHTTP and every access checker + who-may-read/write of the handler fields + composite-literal table check",
		Explanation: "Structural necessary conditions for 'REST requests are served only to allowed callers': (R1) in Command.ServeHTTP the dynamic call of the ResponseFunc is cut from the entry by CheckAccess(...)==nil and by a usable ucrednetGet result, the user checked is userFromRequest(state, r) of the very request, and the handler/access phi pairs GET with ReadAccess and PUT/POST with WriteAccess; (R2) the handler fields are read nowhere else and written only by package initialisation; (R3) every Command literal sets the access checker its methods need; (R4) each access checker returns nil only across its declared gates (socket, uid, user, polkit, active interface connection); (R5) the peer-credential parser only succeeds with both pid and uid parsed, and the address regexp and the formatter share one literal skeleton with separator-free classes.",
		NotDecided:  "polkit itself; cgroup-based identification of the calling snap; the net/http routing layer.",
		Assumptions: []string{"function variables used for mocking (ucrednetGet, checkPolkitAction, requireInterfaceApiAccess, error responders) are only reassigned by test code; R4 verifies there is no non-test store"},
		Run:         func(c *Ctx) { runC26(c); runC26x(c); runC26z(c) },
	})
}

// retSpec describes what a function returning a nil-able verdict may return.
type delegateSpec struct {
	Name  string
	M     CallM
	Gates []Clause
}

type retSpec struct {
	Fn        *ssa.Function
	NilGates  []Clause // nil = returning the nil constant is forbidden
	NilOK     bool
	Delegates []delegateSpec
	Deny      CallM
}

func (c *Ctx) checkRetSpec(s retSpec) {
	name := SSAFuncName(s.Fn)
	c.touch(s.Fn)
	leaves := ReturnLeaves(s.Fn, -1)
	nNil, nDel, nDeny := 0, 0, 0
	// the tail of a checker may be shared with another one through a private helper
	// (return requireAuthenticated(r, ucred, user, action)): the helper's returns are classified like
	// the checker's own, gates being looked for on the whole path from the checker's entry
	var opt *GOpt
	for qi := 0; qi < len(leaves); qi++ {
		lf := leaves[qi]
		if hc, hi, ok := CallResult(lf.Val); ok && opt == nil {
			h := hc.Common().StaticCallee()
			known := false
			for _, d := range s.Delegates {
				known = known || d.M(hc)
			}
			if s.Deny != nil && s.Deny(hc) {
				known = true
			}
			if !known && h != nil && h.Pkg == s.Fn.Pkg && len(h.Blocks) > 0 && descendable(s.Fn, hc.(ssa.Instruction), nil) == h && hi == h.Signature.Results().Len()-1 {
				c.touch(h)
				liftCtx = append(liftCtx, liftFrame{h, hc})
				defer func() { liftCtx = liftCtx[:len(liftCtx)-1] }()
				leaves = append(append(append([]FlowPoint{}, leaves[:qi]...), ReturnLeaves(h, -1)...), leaves[qi+1:]...)
				opt = &GOpt{Deep: true}
				qi--
				continue
			}
		}
	}
	for i, lf := range leaves {
		construct := fmt.Sprintf("%s#return-leaf", name)
		switch {
		case IsNilConst(lf.Val):
			nNil++
			construct = fmt.Sprintf("%s#nil-return#%d", name, nNil)
			if !s.NilOK {
				c.Violated(construct, lf.Pos(), "this checker must never return nil by itself (it delegates), but a nil constant is returned")
				continue
			}
			c.GuardedFlow(construct, s.Fn, lf, s.NilGates, opt)
		default:
			done := false
			if ci, _, ok := CallResult(lf.Val); ok {
				for _, d := range s.Delegates {
					if d.M(ci) {
						nDel++
						construct = fmt.Sprintf("%s#delegate-%s#%d", name, d.Name, nDel)
						if len(d.Gates) == 0 {
							c.Holds(construct, lf.Pos(), "verdict delegated to "+d.Name+" (decided by its own rule)")
						} else {
							c.GuardedFlow(construct, s.Fn, lf, d.Gates, opt)
						}
						done = true
						break
					}
				}
				if !done && s.Deny != nil && s.Deny(ci) {
					nDeny++
					done = true
				}
			}
			if !done {
				c.Undecided(fmt.Sprintf("%s#return-leaf#%d", name, i), lf.Pos(), fmt.Sprintf("returned value %s is neither nil, a declared delegate nor an error responder: the rule cannot classify it", lf.Val))
			}
		}
	}
	if nDeny == 0 && s.NilOK {
		c.Undecided(name+"#deny", s.Fn.Pos(), "checker has no denying return at all")
	}
}

func runC26(c *Ctx) {
	P := c.P
	serve := P.Func("daemon.(*Command).ServeHTTP")
	checkAccess := P.FuncObj("daemon.accessChecker.CheckAccess")
	respFuncT := P.NamedType("daemon.ResponseFunc")
	gUcrednetGet := P.Global("daemon.ucrednetGet")
	gErrNoID := P.Global("daemon.errNoID")
	fGET, fPUT, fPOST := P.Field("daemon.Command.GET"), P.Field("daemon.Command.PUT"), P.Field("daemon.Command.POST")
	fRead, fWrite := P.Field("daemon.Command.ReadAccess"), P.Field("daemon.Command.WriteAccess")

	// ---- R1
	c.Rule("C26-R1", "G", "Command.ServeHTTP: the dynamic ResponseFunc call <= CheckAccess(...)==nil and (ucrednetGet err==nil or err==errNoID); handler/access pairing GET->ReadAccess, PUT/POST->WriteAccess", 4)
	var dyn []ssa.CallInstruction
	for _, b := range serve.Blocks {
		for _, in := range b.Instrs {
			if ci, ok := in.(ssa.CallInstruction); ok && !ci.Common().IsInvoke() && ci.Common().StaticCallee() == nil {
				if types.Identical(ci.Common().Value.Type(), respFuncT) {
					dyn = append(dyn, ci)
				}
			}
		}
	}
	accessOK := NilRes("CheckAccess(...)==nil", 0, ToFn(checkAccess))
	credOK := NilRes("ucrednetGet err==nil", 1, ViaGlobal(gUcrednetGet))
	credNoID := Cmp("err==errNoID", VRes(1, ViaGlobal(gUcrednetGet)), token.EQL, VGlobal(gErrNoID))
	for i, d := range dyn {
		c.Guarded(fmt.Sprintf("daemon.(*Command).ServeHTTP#handler-call#%d", i+1), serve, d, []Clause{{accessOK}, {credOK, credNoID}}, nil)
	}
	if len(dyn) != 1 {
		c.Undecided("daemon.(*Command).ServeHTTP#handler-call-count", serve.Pos(), fmt.Sprintf("expected exactly one dynamic ResponseFunc call, found %d", len(dyn)))
	} else {
		// pairing
		caCalls := CallSites(serve, checkAccess)
		if len(caCalls) != 1 {
			c.Undecided("daemon.(*Command).ServeHTTP#checkaccess-count", serve.Pos(), fmt.Sprintf("expected one CheckAccess call, found %d", len(caCalls)))
		} else {
			ca := caCalls[0]
			rphi, ok1 := stripNoCell(dyn[0].Common().Value).(*ssa.Phi)
			aphi, ok2 := stripNoCell(ca.Common().Value).(*ssa.Phi)
			construct := "daemon.(*Command).ServeHTTP#method-access-pairing"
			// handler and checker picked together by a private method: rspf, access := c.handlerForMethod(r.Method)
			hcR, hiR, okR := CallResult(dyn[0].Common().Value)
			hcA, hiA, okA := CallResult(ca.Common().Value)
			if okR && okA && hcR == hcA && hiR != hiA && hcR.Common().StaticCallee() != nil && hcR.Common().StaticCallee().Pkg == serve.Pkg && P.PrivateHelperOf(hcR.Common().StaticCallee(), map[string]bool{SSAFuncName(serve): true}) {
				h := hcR.Common().StaticCallee()
				c.touch(h)
				want := map[*types.Var]*types.Var{fGET: fRead, fPUT: fWrite, fPOST: fWrite}
				bad := ""
				pairs := 0
				type pr struct{ re, ae ssa.Value }
				for _, hr := range ReturnsOf(h) {
					re0, ae0 := stripNoCell(hr.Results[hiR]), stripNoCell(hr.Results[hiA])
					cand := []pr{{re0, ae0}}
					if rp, ok := re0.(*ssa.Phi); ok {
						if ap, ok := ae0.(*ssa.Phi); ok && rp.Block() == ap.Block() {
							cand = nil
							for i := range rp.Edges {
								cand = append(cand, pr{stripNoCell(rp.Edges[i]), stripNoCell(ap.Edges[i])})
							}
						}
					}
					for _, x := range cand {
						if IsNilConst(x.re) {
							continue
						}
						_, hf, ok := FieldLoad(x.re)
						_, af, ok2 := FieldLoad(x.ae)
						if !ok || !ok2 || want[hf] == nil || want[hf] != af {
							bad += fmt.Sprintf(" %s returns %v with %v;", P.Pos(hr.Pos()), x.re, x.ae)
							continue
						}
						pairs++
					}
				}
				c.Check(bad == "" && pairs == 3, construct, ca.Pos(), fmt.Sprintf("%d handler fields paired with the right access field", pairs), "handler/access pairing broken:"+bad)
			} else if !ok1 || !ok2 || rphi.Block() != aphi.Block() {
				c.Undecided(construct, ca.Pos(), "handler and access checker are not selected by phis of one block; pairing cannot be read off the SSA")
			} else {
				want := map[*types.Var]*types.Var{fGET: fRead, fPUT: fWrite, fPOST: fWrite}
				bad := ""
				pairs := 0
				for i := range rphi.Edges {
					re, ae := stripNoCell(rphi.Edges[i]), stripNoCell(aphi.Edges[i])
					if IsNilConst(re) {
						continue // no handler: method not allowed
					}
					_, hf, ok := FieldLoad(re)
					_, af, ok2 := FieldLoad(ae)
					if !ok || !ok2 || want[hf] == nil || want[hf] != af {
						bad += fmt.Sprintf(" edge %d pairs %v with %v;", i, re, ae)
						continue
					}
					pairs++
				}
				c.Check(bad == "" && pairs == 3, construct, ca.Pos(), fmt.Sprintf("%d handler fields paired with the right access field", pairs), "handler/access pairing broken:"+bad)
			}
			// the credentials checked are the ones obtained from the connection
			args := CallArgs(ca)
			construct = "daemon.(*Command).ServeHTTP#checked-credentials"
			c.Check(len(args) == 4 && VRes(0, ViaGlobal(gUcrednetGet))(args[2]), construct, ca.Pos(), "CheckAccess receives result 0 of ucrednetGet(r.RemoteAddr)", "CheckAccess does not receive the credentials returned by ucrednetGet")
			// the user checked is looked up in the state for THIS request (no cached identity)
			ufr := P.FuncObj("daemon.userFromRequest")
			c.Check(len(args) == 4 && VRes(0, CallWhere(ToFn(ufr), 1, VParam(serve, 2)))(args[3]), "daemon.(*Command).ServeHTTP#checked-user", ca.Pos(), "CheckAccess receives userFromRequest(state, r) of this request", "the user handed to CheckAccess is not the result of userFromRequest(st, r) for this request (a remembered identity outlives logout / user removal)")
			// ucrednetGet argument is r.RemoteAddr
			ug := CallsMatching(serve, ViaGlobal(gUcrednetGet))
			okArg := len(ug) == 1
			if okArg {
				_, f, ok := FieldLoad(ug[0].Common().Args[0])
				okArg = ok && f.Name() == "RemoteAddr"
			}
			c.Check(okArg, "daemon.(*Command).ServeHTTP#credential-source", serve.Pos(), "ucrednetGet is applied to r.RemoteAddr", "ucrednetGet is not applied to the request's RemoteAddr")
		}
	}

	// ---- R2
	c.Rule("C26-R2", "W", "Command.GET/PUT/POST are loaded only in ServeHTTP and stored only by package initialisation", 3)
	for _, f := range []*types.Var{fGET, fPUT, fPOST} {
		loads, stores, bad := 0, 0, ""
		for _, fa := range P.FieldAddrsOf(f) {
			fn := fa.Parent()
			for _, r := range *fa.Referrers() {
				switch x := r.(type) {
				case *ssa.UnOp:
					if fn != serve && !P.PrivateHelperOf(fn, map[string]bool{SSAFuncName(serve): true}) {
						bad += fmt.Sprintf(" read in %s at %s;", SSAFuncName(fn), P.Pos(x.Pos()))
					}
					loads++
				case *ssa.Store:
					if fn.Name() != "init" {
						bad += fmt.Sprintf(" written in %s at %s;", SSAFuncName(fn), P.Pos(x.Pos()))
					}
					stores++
				case *ssa.DebugRef:
				default:
					bad += fmt.Sprintf(" address used by %T in %s at %s;", r, SSAFuncName(fn), P.Pos(r.Pos()))
				}
			}
		}
		c.Check(bad == "" && loads >= 1, "daemon.Command."+f.Name()+"#uses", f.Pos(), fmt.Sprintf("%d load(s) all in ServeHTTP, %d initialisation store(s)", loads, stores), "handler field used outside ServeHTTP/initialisation:"+bad)
	}

	// ---- R3
	c.Rule("C26-R3", "K", "every Command composite literal: GET set => ReadAccess set; PUT/POST set => WriteAccess set; access values are literals of the known checker types; every element of `api` is such a literal", 48)
	pk := P.Pkgs["daemon"]
	cmdT := P.NamedType("daemon.Command")
	known := map[string]bool{"openAccess": true, "authenticatedAccess": true, "rootAccess": true, "snapAccess": true, "interfaceOpenAccess": true, "interfaceAuthenticatedAccess": true}
	litVars := map[string]bool{}
	for _, file := range pk.Syntax {
		ast.Inspect(file, func(n ast.Node) bool {
			// record var name = &Command{...}
			if vs, ok := n.(*ast.ValueSpec); ok {
				for i, v := range vs.Values {
					if u, ok := v.(*ast.UnaryExpr); ok && u.Op == token.AND {
						if cl, ok := u.X.(*ast.CompositeLit); ok && types.Identical(pk.TypesInfo.TypeOf(cl), cmdT) && i < len(vs.Names) {
							litVars[vs.Names[i].Name] = true
						}
					}
				}
			}
			cl, ok := n.(*ast.CompositeLit)
			if !ok || !types.Identical(pk.TypesInfo.TypeOf(cl), cmdT) {
				return true
			}
			set := map[string]ast.Expr{}
			for _, e := range cl.Elts {
				if kv, ok := e.(*ast.KeyValueExpr); ok {
					if id, ok := kv.Key.(*ast.Ident); ok {
						set[id.Name] = kv.Value
					}
				} else {
					set["<positional>"] = e
				}
			}
			path := "?"
			if pv, ok := set["Path"]; ok {
				if tv := pk.TypesInfo.Types[pv]; tv.Value != nil {
					path = strings.Trim(tv.Value.ExactString(), "\"")
				}
			} else if pv, ok := set["PathPrefix"]; ok {
				if tv := pk.TypesInfo.Types[pv]; tv.Value != nil {
					path = strings.Trim(tv.Value.ExactString(), "\"") + "*"
				}
			}
			construct := "daemon.Command{" + path + "}"
			var bad []string
			if _, pos := set["<positional>"]; pos {
				bad = append(bad, "positional literal cannot be checked")
			}
			if set["GET"] != nil && set["ReadAccess"] == nil {
				bad = append(bad, "GET handler without ReadAccess")
			}
			if (set["PUT"] != nil || set["POST"] != nil) && set["WriteAccess"] == nil {
				bad = append(bad, "PUT/POST handler without WriteAccess")
			}
			for _, k := range []string{"ReadAccess", "WriteAccess"} {
				if v := set[k]; v != nil {
					t := pk.TypesInfo.TypeOf(v)
					n, ok := t.(*types.Named)
					if _, isLit := v.(*ast.CompositeLit); !ok || !isLit || !known[n.Obj().Name()] || n.Obj().Pkg() != pk.Types {
						bad = append(bad, fmt.Sprintf("%s is not a literal of a known access checker type (%v)", k, t))
					}
				}
			}
			c.Check(len(bad) == 0, construct, cl.Pos(), "handlers and access checkers agree", strings.Join(bad, "; "))
			return true
		})
	}
	// api elements
	apiObj := P.Obj("daemon.api")
	for _, file := range pk.Syntax {
		ast.Inspect(file, func(n ast.Node) bool {
			vs, ok := n.(*ast.ValueSpec)
			if !ok || len(vs.Names) != 1 || pk.TypesInfo.Defs[vs.Names[0]] != apiObj || len(vs.Values) != 1 {
				return true
			}
			cl, ok := vs.Values[0].(*ast.CompositeLit)
			if !ok {
				c.Undecided("daemon.api#literal", vs.Pos(), "api is not initialised by a composite literal")
				return false
			}
			var bad []string
			for _, e := range cl.Elts {
				id, ok := e.(*ast.Ident)
				if !ok || !litVars[id.Name] {
					bad = append(bad, types.ExprString(e))
				}
			}
			c.Check(len(bad) == 0 && len(cl.Elts) > 0, "daemon.api#elements", cl.Pos(), fmt.Sprintf("all %d elements are package-level &Command{...} literals covered above", len(cl.Elts)), "api elements not initialised by a checked Command literal: "+strings.Join(bad, ", "))
			return false
		})
	}

	// ---- R4
	c.Rule("C26-R4", "G", "access checker bodies: nil (access granted) only across the declared gates; every other return is a delegate verdict or an error responder", 14)
	fSocket, fUid := P.Field("daemon.ucrednet.Socket"), P.Field("daemon.ucrednet.Uid")
	gSnapdSocket, gSnapSocket := P.Global("dirs.SnapdSocket"), P.Global("dirs.SnapSocket")
	var responders []*ssa.Global
	for _, n := range []string{"Unauthorized", "NotFound", "BadRequest", "MethodNotAllowed", "InternalError", "NotImplemented", "Forbidden", "Conflict"} {
		g := P.Global("daemon." + n)
		responders = append(responders, g)
		// each bound once to makeErrorResponder(...)
		st := P.GlobalStores(g)
		ok := len(st) == 1 && st[0].Parent().Name() == "init" && VRes(0, ToFn(P.FuncObj("daemon.makeErrorResponder")))(st[0].Val)
		c.Check(ok, "global:daemon."+n, g.Pos(), "bound once to makeErrorResponder(status)", "error responder variable is reassigned or not built by makeErrorResponder")
	}
	// makeErrorResponder's closure always returns a fresh (non-nil) *apiError
	mer := P.Func("daemon.makeErrorResponder")
	okMer := len(mer.AnonFuncs) == 1
	if okMer {
		for _, lf := range ReturnLeaves(mer.AnonFuncs[0], -1) {
			if _, isAlloc := lf.Val.(*ssa.Alloc); !isAlloc {
				okMer = false
			}
		}
	}
	c.Check(okMer, "daemon.makeErrorResponder#non-nil", mer.Pos(), "the responder closure returns a freshly allocated *apiError on every path", "an error responder may return nil (which would read as 'access granted')")
	authCancelled := P.FuncObj("daemon.AuthCancelled")
	deny := AnyCall(ViaGlobal(responders...), ToFn(authCancelled))

	gCheckPolkit := P.Global("daemon.checkPolkitAction")
	gReqIface := P.Global("daemon.requireInterfaceApiAccess")
	gPolkitAuth := P.Global("daemon.polkitCheckAuthorization")
	gCgroupName := P.Global("daemon.cgroupSnapNameFromPid")
	polkitImpl := c.FuncVarTarget(gCheckPolkit)
	reqIfaceImpl := c.FuncVarTarget(gReqIface)
	c.FuncVarTarget(gUcrednetGet)
	c.FuncVarTarget(P.Global("daemon.ucrednetGetWithInterfaces"))
	if polkitImpl != nil {
		c.Check(polkitImpl == P.Func("daemon.checkPolkitActionImpl"), "global:daemon.checkPolkitAction#target", polkitImpl.Pos(), "bound to checkPolkitActionImpl", "checkPolkitAction is not bound to checkPolkitActionImpl")
	}
	if reqIfaceImpl != nil {
		c.Check(reqIfaceImpl == P.Func("daemon.requireInterfaceApiAccessImpl"), "global:daemon.requireInterfaceApiAccess#target", reqIfaceImpl.Pos(), "bound to requireInterfaceApiAccessImpl", "requireInterfaceApiAccess is not bound to requireInterfaceApiAccessImpl")
	}

	reqSock := P.Func("daemon.requireSnapdSocket")
	reqSockM := ToFn(P.FuncObj("daemon.requireSnapdSocket"))
	// requireSnapdSocket
	c.checkRetSpec(retSpec{Fn: reqSock, NilOK: true, Deny: deny, NilGates: []Clause{
		{Cmp("ucred!=nil", VParam(reqSock, 0), token.NEQ, isNilVal)},
		{Cmp("ucred.Socket==dirs.SnapdSocket", VFieldOf(fSocket, VParam(reqSock, 0)), token.EQL, VGlobal(gSnapdSocket))},
	}})
	// openAccess
	open := P.Func("daemon.openAccess.CheckAccess")
	c.checkRetSpec(retSpec{Fn: open, Deny: deny, Delegates: []delegateSpec{{Name: "requireSnapdSocket", M: reqSockM}}})
	c.argIsParam(open, reqSockM, 0, 3, "ucred")
	// rootAccess
	root := P.Func("daemon.rootAccess.CheckAccess")
	sockOK := NilRes("requireSnapdSocket(ucred)==nil", 0, reqSockM)
	c.checkRetSpec(retSpec{Fn: root, NilOK: true, Deny: deny, Delegates: []delegateSpec{{Name: "requireSnapdSocket", M: reqSockM}}, NilGates: []Clause{
		{sockOK},
		{Cmp("ucred.Uid==0", VFieldOf(fUid, VParam(root, 3)), token.EQL, VConstInt(0))},
	}})
	c.argIsParam(root, reqSockM, 0, 3, "ucred")
	// authenticatedAccess
	authd := P.Func("daemon.authenticatedAccess.CheckAccess")
	fPolkitA := P.Field("daemon.authenticatedAccess.Polkit")
	c.checkRetSpec(retSpec{Fn: authd, NilOK: true, Deny: deny,
		Delegates: []delegateSpec{
			{Name: "requireSnapdSocket", M: reqSockM},
			{Name: "checkPolkitAction", M: ViaGlobal(gCheckPolkit), Gates: []Clause{{sockOK}, {Cmp("ac.Polkit!=\"\"", VField(fPolkitA), token.NEQ, VConstStr(""))}}},
		},
		NilGates: []Clause{
			{sockOK},
			{Cmp("user!=nil", VParam(authd, 4), token.NEQ, isNilVal), Cmp("ucred.Uid==0", VFieldOf(fUid, VParam(authd, 3)), token.EQL, VConstInt(0))},
		}})
	c.argIsParam(authd, reqSockM, 0, 3, "ucred")
	c.argIsParam(authd, ViaGlobal(gCheckPolkit), 1, 3, "ucred")
	// interfaceOpenAccess
	iopen := P.Func("daemon.interfaceOpenAccess.CheckAccess")
	c.checkRetSpec(retSpec{Fn: iopen, Deny: deny, Delegates: []delegateSpec{{Name: "requireInterfaceApiAccess", M: ViaGlobal(gReqIface)}}})
	c.argIsParam(iopen, ViaGlobal(gReqIface), 2, 3, "ucred")
	// interfaceAuthenticatedAccess
	iauth := P.Func("daemon.interfaceAuthenticatedAccess.CheckAccess")
	fPolkitI := P.Field("daemon.interfaceAuthenticatedAccess.Polkit")
	ifaceOK := NilRes("requireInterfaceApiAccess(...)==nil", 0, ViaGlobal(gReqIface))
	c.checkRetSpec(retSpec{Fn: iauth, NilOK: true, Deny: deny,
		Delegates: []delegateSpec{
			{Name: "requireInterfaceApiAccess", M: ViaGlobal(gReqIface)},
			{Name: "checkPolkitAction", M: ViaGlobal(gCheckPolkit), Gates: []Clause{{ifaceOK}, {Cmp("ac.Polkit!=\"\"", VField(fPolkitI), token.NEQ, VConstStr(""))}}},
		},
		NilGates: []Clause{
			{ifaceOK},
			{Cmp("user!=nil", VParam(iauth, 4), token.NEQ, isNilVal), Cmp("ucred.Uid==0", VFieldOf(fUid, VParam(iauth, 3)), token.EQL, VConstInt(0))},
		}})
	c.argIsParam(iauth, ViaGlobal(gReqIface), 2, 3, "ucred")
	c.argIsParam(iauth, ViaGlobal(gCheckPolkit), 1, 3, "ucred")
	// snapAccess
	snapA := P.Func("daemon.snapAccess.CheckAccess")
	c.checkRetSpec(retSpec{Fn: snapA, NilOK: true, Deny: deny, NilGates: []Clause{
		{Cmp("ucred!=nil", VParam(snapA, 3), token.NEQ, isNilVal)},
		{Cmp("ucred.Socket==dirs.SnapSocket", VFieldOf(fSocket, VParam(snapA, 3)), token.EQL, VGlobal(gSnapSocket))},
	}})
	// requireInterfaceApiAccessImpl
	ria := P.Func("daemon.requireInterfaceApiAccessImpl")
	foundPhis, foundSrc := boolPhiWeb(ria)
	foundTrue := Atom{Name: "foundMatchingInterface", Match: func(cd Cond) Pol {
		return cd.BoolIs(func(v ssa.Value) bool { p, ok := v.(*ssa.Phi); return ok && foundPhis[p] })
	}}
	sockSnapd := Cmp("ucred.Socket==dirs.SnapdSocket", VFieldOf(fSocket, VParam(ria, 2)), token.EQL, VGlobal(gSnapdSocket))
	sockSnap := Cmp("ucred.Socket==dirs.SnapSocket", VFieldOf(fSocket, VParam(ria, 2)), token.EQL, VGlobal(gSnapSocket))
	c.checkRetSpec(retSpec{Fn: ria, NilOK: true, Deny: deny, NilGates: []Clause{
		{Cmp("ucred!=nil", VParam(ria, 2), token.NEQ, isNilVal)},
		{sockSnapd, foundTrue},
	}})
	// sources of foundMatchingInterface=true
	connActive := P.FuncObj("overlord/ifacestate.ConnectionState.Active")
	listContains := P.FuncObj("strutil.ListContains")
	fPlugSnap := P.Field("interfaces.PlugRef.Snap")
	c.Check(len(foundSrc) >= 1, "daemon.requireInterfaceApiAccessImpl#found-sources", ria.Pos(), fmt.Sprintf("%d place(s) set the match flag", len(foundSrc)), "no place sets the match flag: rule shape not recognised")
	for i, src := range foundSrc {
		c.GuardedFlow(fmt.Sprintf("daemon.requireInterfaceApiAccessImpl#found=true#%d", i+1), ria, src, []Clause{
			{sockSnap},
			{NilRes("cgroupSnapNameFromPid err==nil", 1, ViaGlobal(gCgroupName))},
			{TrueRes("connState.Active()", true, 0, ToFn(connActive))},
			{TrueRes("ListContains(interfaceNames, connState.Interface)", true, 0, ToFn(listContains))},
			{Cmp("connRef.PlugRef.Snap==snapName", VField(fPlugSnap), token.EQL, VRes(0, ViaGlobal(gCgroupName)))},
		}, nil)
	}
	// the pid asked about is the peer's
	cg := CallsMatching(ria, ViaGlobal(gCgroupName))
	okPid := len(cg) == 1
	if okPid {
		_, f, ok := FieldLoad(cg[0].Common().Args[0])
		okPid = ok && f.Name() == "Pid"
	}
	c.Check(okPid, "daemon.requireInterfaceApiAccessImpl#pid-source", ria.Pos(), "snap name is derived from ucred.Pid", "snap name is not derived from the peer's pid")
	// checkPolkitActionImpl
	cpa := P.Func("daemon.checkPolkitActionImpl")
	c.checkRetSpec(retSpec{Fn: cpa, NilOK: true, Deny: deny, NilGates: []Clause{
		{NilRes("polkit err==nil", 1, ViaGlobal(gPolkitAuth))},
		{TrueRes("authorized", true, 0, ViaGlobal(gPolkitAuth))},
	}})
	// every implementation of accessChecker in the daemon package is one of the checked ones
	iface := P.NamedType("daemon.accessChecker").Underlying().(*types.Interface)
	scope := pk.Types.Scope()
	for _, n := range scope.Names() {
		tn, ok := scope.Lookup(n).(*types.TypeName)
		if !ok || tn.IsAlias() {
			continue
		}
		if _, isIface := tn.Type().Underlying().(*types.Interface); isIface {
			continue
		}
		if types.Implements(tn.Type(), iface) || types.Implements(types.NewPointer(tn.Type()), iface) {
			c.Check(known[n], "daemon."+n+"#access-checker", tn.Pos(), "implementation covered by R4", "access checker type "+n+" has no rule: its CheckAccess body is not verified")
		}
	}

	// ---- R5
	c.Rule("C26-R5", "G+K", "peer credential codec: parser succeeds only with pid and uid parsed; regexp anchored with separator-free classes; formatter skeleton equals the regexp's", 5)
	ugi := P.Func("daemon.ucrednetGetWithInterfacesImpl")
	fPid := P.Field("daemon.ucrednet.Pid")
	cNoProc, cNobody := P.Const("daemon.ucrednetNoProcess"), P.Const("daemon.ucrednetNobody")
	n := 0
	for _, lf := range ReturnLeaves(ugi, -1) {
		if IsNilConst(lf.Val) {
			n++
			c.GuardedFlow(fmt.Sprintf("daemon.ucrednetGetWithInterfacesImpl#success-return#%d", n), ugi, lf, []Clause{
				{Cmp("u.Pid!=ucrednetNoProcess", VField(fPid), token.NEQ, VConstObj(cNoProc))},
				{Cmp("u.Uid!=ucrednetNobody", VField(fUid), token.NEQ, VConstObj(cNobody))},
			}, nil)
		}
	}
	// initialised to sentinels: the composite literal stores
	initOK := 0
	for _, f := range []struct {
		fv *types.Var
		k  *types.Const
	}{{fPid, cNoProc}, {fUid, cNobody}} {
		for _, s := range StoresToField(ugi, f.fv) {
			if s.Block().Index == 0 && VConstObj(f.k)(s.Val) {
				initOK++
			}
		}
	}
	c.Check(initOK == 2, "daemon.ucrednetGetWithInterfacesImpl#sentinel-init", ugi.Pos(), "Pid and Uid start as the 'no process'/'nobody' sentinels", "Pid/Uid are not initialised to the sentinels the success gate tests for")
	// regexp
	gRe := P.Global("daemon.raddrRegexp")
	reStores := P.GlobalStores(gRe)
	var pattern string
	if len(reStores) == 1 {
		if ci, _, ok := CallResult(reStores[0].Val); ok {
			pattern, _ = ConstString(ci.Common().Args[0])
		}
	}
	if pattern == "" {
		c.Undecided("daemon.raddrRegexp#pattern", gRe.Pos(), "cannot read the constant pattern of raddrRegexp")
	} else {
		re, err := syntax.Parse(pattern, syntax.Perl)
		if err != nil {
			c.Violated("daemon.raddrRegexp#pattern", gRe.Pos(), "pattern does not parse: "+err.Error())
		} else {
			anch := re.Op == syntax.OpConcat && len(re.Sub) >= 2 && re.Sub[0].Op == syntax.OpBeginText && re.Sub[len(re.Sub)-1].Op == syntax.OpEndText
			c.Check(anch, "daemon.raddrRegexp#anchored", gRe.Pos(), "pattern is anchored at both ends", "pattern "+pattern+" is not anchored at both ends: trailing or leading attacker-controlled text would be ignored")
			// classes exclude ';'
			badClass := ""
			var lits []string
			var walk func(r *syntax.Regexp, top bool)
			walk = func(r *syntax.Regexp, top bool) {
				switch r.Op {
				case syntax.OpCharClass:
					for i := 0; i+1 < len(r.Rune); i += 2 {
						if r.Rune[i] <= ';' && ';' <= r.Rune[i+1] {
							badClass += " " + r.String()
						}
					}
				case syntax.OpAnyChar, syntax.OpAnyCharNotNL:
					badClass += " " + r.String()
				case syntax.OpLiteral:
					if top {
						lits = append(lits, string(r.Rune))
					}
				}
				for _, s := range r.Sub {
					walk(s, top && r.Op == syntax.OpConcat)
				}
			}
			walk(re, true)
			c.Check(badClass == "", "daemon.raddrRegexp#separator-free", gRe.Pos(), "no character class of the pattern admits the field separator ';'", "class(es) admit ';':"+badClass)
			// formatter skeleton
			strFn := P.Func("daemon.(*ucrednet).String")
			var format string
			for _, ci := range CallSites(strFn, P.FuncObj("fmt.Sprintf")) {
				format, _ = ConstString(ci.Common().Args[0])
			}
			var fl []string
			for _, part := range strings.FieldsFunc(strings.NewReplacer("%d", "\x00", "%s", "\x00").Replace(format), func(r rune) bool { return r == 0 }) {
				fl = append(fl, part)
			}
			c.Check(format != "" && strings.Join(fl, "|") == strings.Join(lits, "|"), "daemon.(*ucrednet).String#skeleton", strFn.Pos(),
				"formatter literals "+strings.Join(fl, "|")+" equal the regexp's top-level literals", fmt.Sprintf("formatter %q and regexp %q disagree on the literal skeleton (%v vs %v)", format, pattern, fl, lits))
		}
	}
}

// argIsParam checks that argument argIdx of the (single) call matched by m in fn is parameter paramIdx.
func (c *Ctx) argIsParam(fn *ssa.Function, m CallM, argIdx, paramIdx int, what string) {
	calls := CallsMatching(fn, m)
	construct := SSAFuncName(fn) + "#passes-" + what
	if len(calls) == 0 {
		// the delegate may be called from a private helper that fn hands its own arguments to
		for _, hc := range localCalls(fn) {
			if hcs := CallsMatching(hc.h, m); len(hcs) > 0 {
				liftCtx = append(liftCtx, liftFrame{hc.h, hc.cc})
				defer func() { liftCtx = liftCtx[:len(liftCtx)-1] }()
				calls = hcs
				break
			}
		}
	}
	if len(calls) == 0 {
		c.Undecided(construct, fn.Pos(), "delegate call not found")
		return
	}
	for _, ci := range calls {
		args := ci.Common().Args
		if argIdx >= len(args) || !IsParam(args[argIdx], fn, paramIdx) {
			c.Violated(construct, ci.Pos(), "the delegate is not given the caller's own "+what)
			return
		}
	}
	c.Holds(construct, calls[0].Pos(), "the delegate receives the caller's "+what)
}

// boolPhiWeb finds the phi web of a local boolean flag that is only ever
// assigned constants, and the flow points where `true` enters it.
func boolPhiWeb(fn *ssa.Function) (map[*ssa.Phi]bool, []FlowPoint) {
	web := map[*ssa.Phi]bool{}
	var src []FlowPoint
	for _, b := range fn.Blocks {
		for _, in := range b.Instrs {
			phi, ok := in.(*ssa.Phi)
			if !ok {
				break
			}
			if bt, ok := phi.Type().Underlying().(*types.Basic); !ok || bt.Kind() != types.Bool {
				continue
			}
			pure := true
			for _, e := range phi.Edges {
				if _, isC := ConstBool(e); isC {
					continue
				}
				if _, isP := e.(*ssa.Phi); isP {
					continue
				}
				pure = false
			}
			if pure {
				web[phi] = true
			}
		}
	}
	for phi := range web {
		blk := phi.Block()
		dup := map[*ssa.BasicBlock]int{}
		for i, e := range phi.Edges {
			pred := blk.Preds[i]
			nth := dup[pred]
			dup[pred]++
			if v, ok := ConstBool(e); ok && v {
				src = append(src, FlowPoint{Val: e, EdgeFrom: pred, EdgeSucc: succIndex(pred, blk, nth)})
			}
		}
	}
	// deterministic order
	for i := 0; i < len(src); i++ {
		for j := i + 1; j < len(src); j++ {
			if src[j].EdgeFrom.Index < src[i].EdgeFrom.Index {
				src[i], src[j] = src[j], src[i]
			}
		}
	}
	return web, src
}
