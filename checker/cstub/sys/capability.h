/* stand-in: libcap-dev is not installed in the sandbox; the checker only reads the name
 * validators of bootstrap.c, which do not use capabilities */
#include <linux/capability.h>
typedef struct _cap_struct *cap_t;
typedef int cap_value_t;
typedef int cap_flag_t;
typedef int cap_flag_value_t;
extern int capset(cap_user_header_t hdrp, const cap_user_data_t datap);
