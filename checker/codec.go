package main

import (
	"fmt"
	"go/types"
	"sort"
	"strings"

	"golang.org/x/tools/go/ssa"
)

// Engine C: codec agreement.  For a (writer, reader, wire struct) triple, extract
// by backward value provenance which object fields each wire field is computed
// from (writer) and which wire fields each object field is restored from
// (reader); the two relations must agree.

type CodecSpec struct {
	Obj       string   // "overlord/state.Task"
	Wire      string   // "overlord/state.marshalledTask"
	Marshal   string   // function name
	Unmarshal string   // function name
	Required  []string // object fields that must round-trip
	// WireOnly: wire fields that deliberately carry no object state (reason given)
	WireOnly map[string]string
}

type fieldSet map[*types.Var]bool

func (fs fieldSet) names() []string {
	var out []string
	for f := range fs {
		out = append(out, f.Name())
	}
	sort.Strings(out)
	return out
}

type slicer struct {
	P       *Prog
	objT    types.Type // named struct type of the object
	wireT   types.Type
	visited map[ssa.Value]bool
	depth   int
}

func ptrOrSelf(t types.Type, target types.Type) bool {
	if types.Identical(t, target) {
		return true
	}
	if p, ok := t.Underlying().(*types.Pointer); ok {
		return types.Identical(p.Elem(), target)
	}
	return false
}

// fieldsOf collects, by backward slicing from v, the fields of struct type T that v depends on.
func (s *slicer) fieldsOf(v ssa.Value, T types.Type, out fieldSet, params map[int]bool, fn *ssa.Function) {
	if v == nil || s.visited[v] || len(s.visited) > 4000 {
		return
	}
	s.visited[v] = true
	switch x := v.(type) {
	case *ssa.FieldAddr:
		if ptrOrSelf(x.X.Type(), T) {
			out[fieldOfAddr(x)] = true
			return
		}
		s.fieldsOf(x.X, T, out, params, fn)
	case *ssa.Field:
		if ptrOrSelf(x.X.Type(), T) {
			out[x.X.Type().Underlying().(*types.Struct).Field(x.Field)] = true
			return
		}
		s.fieldsOf(x.X, T, out, params, fn)
	case *ssa.Parameter:
		if params != nil && fn != nil {
			for i, p := range fn.Params {
				if p == x {
					params[i] = true
				}
			}
		}
	case *ssa.Alloc:
		if x.Referrers() != nil {
			for _, r := range *x.Referrers() {
				if st, ok := r.(*ssa.Store); ok && st.Addr == ssa.Value(x) {
					s.fieldsOf(st.Val, T, out, params, fn)
				}
			}
		}
	case *ssa.Call:
		cc := x.Common()
		for _, a := range cc.Args {
			s.fieldsOf(a, T, out, params, fn)
		}
		if cc.IsInvoke() {
			s.fieldsOf(cc.Value, T, out, params, fn)
		}
		// callee reading fields of T through an argument that IS the object
		if sf := cc.StaticCallee(); sf != nil && sf.Blocks != nil && s.depth < 2 {
			for i, a := range cc.Args {
				if ptrOrSelf(a.Type(), T) && i < len(sf.Params) {
					s.depth++
					for _, b := range sf.Blocks {
						for _, in := range b.Instrs {
							switch y := in.(type) {
							case *ssa.FieldAddr:
								if y.X == ssa.Value(sf.Params[i]) {
									out[fieldOfAddr(y)] = true
								}
							}
						}
					}
					s.depth--
				}
			}
		}
	case *ssa.Phi:
		for _, e := range x.Edges {
			s.fieldsOf(e, T, out, params, fn)
		}
	case *ssa.Extract:
		s.fieldsOf(x.Tuple, T, out, params, fn)
	case *ssa.Const, *ssa.Global, *ssa.Function, *ssa.Builtin, *ssa.FreeVar:
	default:
		if in, ok := v.(ssa.Instruction); ok {
			for _, op := range in.Operands(nil) {
				if *op != nil {
					s.fieldsOf(*op, T, out, params, fn)
				}
			}
		}
	}
}

func (c *Ctx) CheckCodec(rule string, spec CodecSpec) {
	P := c.P
	objT := P.NamedType(spec.Obj)
	wireT := P.NamedType(spec.Wire)
	mfn, ufn := P.Func(spec.Marshal), P.Func(spec.Unmarshal)
	c.touch(mfn)
	c.touch(ufn)
	objName := spec.Obj[strings.LastIndex(spec.Obj, ".")+1:]
	// ---- writer: wire field -> object fields
	W := map[*types.Var]fieldSet{}
	for _, b := range mfn.Blocks {
		for _, in := range b.Instrs {
			st, ok := in.(*ssa.Store)
			if !ok {
				continue
			}
			fa, ok := st.Addr.(*ssa.FieldAddr)
			if !ok || !ptrOrSelf(fa.X.Type(), wireT) {
				continue
			}
			wf := fieldOfAddr(fa)
			if W[wf] == nil {
				W[wf] = fieldSet{}
			}
			sl := &slicer{P: P, visited: map[ssa.Value]bool{}}
			sl.fieldsOf(st.Val, objT, W[wf], nil, nil)
		}
	}
	// ---- reader: object field -> wire fields
	R := map[*types.Var]fieldSet{}
	addR := func(g *types.Var, val ssa.Value, fn *ssa.Function) {
		if R[g] == nil {
			R[g] = fieldSet{}
		}
		sl := &slicer{P: P, visited: map[ssa.Value]bool{}}
		sl.fieldsOf(val, wireT, R[g], nil, nil)
	}
	var scan func(fn *ssa.Function, recv ssa.Value, bind map[*ssa.Parameter]ssa.Value, depth int)
	scan = func(fn *ssa.Function, recv ssa.Value, bind map[*ssa.Parameter]ssa.Value, depth int) {
		// resolve a value of the callee to wire deps: slice in callee for params, then map params to caller args
		resolve := func(g *types.Var, val ssa.Value) {
			if bind == nil {
				addR(g, val, fn)
				return
			}
			ps := map[int]bool{}
			tmp := fieldSet{}
			sl := &slicer{P: P, visited: map[ssa.Value]bool{}}
			sl.fieldsOf(val, wireT, tmp, ps, fn)
			if R[g] == nil {
				R[g] = fieldSet{}
			}
			for f := range tmp {
				R[g][f] = true
			}
			for i := range ps {
				if a, ok := bind[fn.Params[i]]; ok {
					addR(g, a, nil)
				}
			}
		}
		for _, b := range fn.Blocks {
			for _, in := range b.Instrs {
				switch x := in.(type) {
				case *ssa.Store:
					if fa, ok := x.Addr.(*ssa.FieldAddr); ok && fa.X == recv && ptrOrSelf(fa.X.Type(), objT) {
						resolve(fieldOfAddr(fa), x.Val)
					}
				case *ssa.MapUpdate:
					if base, g, ok := FieldLoad(x.Map); ok && base == recv {
						resolve(g, x.Value)
						resolve(g, x.Key)
					}
				case *ssa.Call:
					if depth >= 1 {
						continue
					}
					sf := x.Call.StaticCallee()
					if sf == nil || sf.Blocks == nil || sf.Pkg != fn.Pkg {
						continue
					}
					for i, a := range x.Call.Args {
						if a == recv && i < len(sf.Params) {
							nb := map[*ssa.Parameter]ssa.Value{}
							for j, aa := range x.Call.Args {
								if j < len(sf.Params) {
									nb[sf.Params[j]] = aa
								}
							}
							scan(sf, sf.Params[i], nb, depth+1)
						}
					}
				}
			}
		}
	}
	if len(ufn.Params) > 0 {
		scan(ufn, ufn.Params[0], nil, 0)
	}
	// ---- compare
	ws := wireT.Underlying().(*types.Struct)
	for i := 0; i < ws.NumFields(); i++ {
		wf := ws.Field(i)
		construct := fmt.Sprintf("%s<->%s.%s", objName, wireT.Obj().Name(), wf.Name())
		if why, ok := spec.WireOnly[wf.Name()]; ok {
			c.Holds(construct, wf.Pos(), "exempt: "+why)
			continue
		}
		src := W[wf]
		if len(src) == 0 {
			c.Violated(construct, wf.Pos(), fmt.Sprintf("wire field %s is not written from any %s field by %s (state lost on save)", wf.Name(), objName, spec.Marshal))
			continue
		}
		var problems []string
		for g := range src {
			if !R[g][wf] {
				problems = append(problems, fmt.Sprintf("%s.%s is saved into %s but not restored from it (restored from %v)", objName, g.Name(), wf.Name(), R[g].names()))
			}
		}
		// reverse: object fields restored from wf must be among the ones saved into it
		for g, fs := range R {
			if fs[wf] && !src[g] {
				problems = append(problems, fmt.Sprintf("%s.%s is restored from %s, which is written from %v", objName, g.Name(), wf.Name(), src.names()))
			}
		}
		sort.Strings(problems)
		c.Check(len(problems) == 0, construct, wf.Pos(), fmt.Sprintf("written from %v and restored into the same field(s)", src.names()), strings.Join(problems, "; "))
	}
	// required object fields
	saved := fieldSet{}
	for _, fs := range W {
		for g := range fs {
			saved[g] = true
		}
	}
	os := objT.Underlying().(*types.Struct)
	for _, name := range spec.Required {
		var g *types.Var
		for i := 0; i < os.NumFields(); i++ {
			if os.Field(i).Name() == name {
				g = os.Field(i)
			}
		}
		construct := fmt.Sprintf("%s.%s#persisted", objName, name)
		if g == nil {
			c.Undecided(construct, objT.Obj().Pos(), "required field no longer exists under that name")
			continue
		}
		c.Check(saved[g] && len(R[g]) > 0, construct, g.Pos(), "saved and restored", fmt.Sprintf("%s.%s must survive a restart but is not both saved and restored (saved=%v restored-from=%v)", objName, name, saved[g], R[g].names()))
	}
}

// persistedFields returns the object fields saved by the writer of spec.
func (c *Ctx) persistedFields(spec CodecSpec) fieldSet {
	P := c.P
	objT := P.NamedType(spec.Obj)
	wireT := P.NamedType(spec.Wire)
	mfn := P.Func(spec.Marshal)
	out := fieldSet{}
	for _, b := range mfn.Blocks {
		for _, in := range b.Instrs {
			st, ok := in.(*ssa.Store)
			if !ok {
				continue
			}
			fa, ok := st.Addr.(*ssa.FieldAddr)
			if !ok || !ptrOrSelf(fa.X.Type(), wireT) {
				continue
			}
			sl := &slicer{P: P, visited: map[ssa.Value]bool{}}
			sl.fieldsOf(st.Val, objT, out, nil, nil)
		}
	}
	return out
}

// controllingIfs lists the If-terminated blocks B of fn such that exactly one of
// B's successors can reach target (without passing through B again): the branch
// decides whether target executes.
func controllingIfs(fn *ssa.Function, target *ssa.BasicBlock) []*ssa.BasicBlock {
	var out []*ssa.BasicBlock
	for _, b := range fn.Blocks {
		if len(b.Instrs) == 0 || len(b.Succs) != 2 || b == target {
			continue
		}
		if _, ok := b.Instrs[len(b.Instrs)-1].(*ssa.If); !ok {
			continue
		}
		n := 0
		for _, s := range b.Succs {
			if blockReaches(s, target, b) {
				n++
			}
		}
		if n == 1 {
			out = append(out, b)
		}
	}
	return out
}

func blockReaches(from, to, avoid *ssa.BasicBlock) bool {
	seen := map[*ssa.BasicBlock]bool{}
	st := []*ssa.BasicBlock{from}
	for len(st) > 0 {
		b := st[len(st)-1]
		st = st[:len(st)-1]
		if b == to {
			return true
		}
		if seen[b] || b == avoid {
			continue
		}
		seen[b] = true
		st = append(st, b.Succs...)
	}
	return false
}

// controlFields: the fields of T read by the branch conditions that decide which
// value a store writes (conditions controlling the store itself and, when the
// stored value is a phi, the conditions selecting its edges).
func (c *Ctx) controlFields(fn *ssa.Function, st *ssa.Store, T types.Type) fieldSet {
	out := fieldSet{}
	addCond := func(b *ssa.BasicBlock) {
		iff := b.Instrs[len(b.Instrs)-1].(*ssa.If)
		sl := &slicer{P: c.P, visited: map[ssa.Value]bool{}}
		sl.fieldsOf(iff.Cond, T, out, nil, nil)
	}
	for _, b := range controllingIfs(fn, st.Block()) {
		addCond(b)
	}
	seen := map[*ssa.Phi]bool{}
	var phis func(v ssa.Value)
	phis = func(v ssa.Value) {
		v = stripNoCell(v)
		phi, ok := v.(*ssa.Phi)
		if !ok || seen[phi] {
			return
		}
		seen[phi] = true
		for i, p := range phi.Block().Preds {
			if len(p.Succs) == 2 {
				if _, isIf := p.Instrs[len(p.Instrs)-1].(*ssa.If); isIf {
					addCond(p)
				}
			}
			for _, b := range controllingIfs(fn, p) {
				if b != phi.Block() {
					addCond(b)
				}
			}
			phis(phi.Edges[i])
		}
	}
	phis(st.Val)
	return out
}

// CheckCodecControl: (writer) whether/what a wire field is written may depend only
// on the object fields it carries; (reader) every store into a persisted object
// field takes its value from the wire struct (no invented defaults), except the
// listed adapters.
func (c *Ctx) CheckCodecControl(spec CodecSpec, readerDefaults map[string]string) {
	P := c.P
	objT := P.NamedType(spec.Obj)
	wireT := P.NamedType(spec.Wire)
	mfn, ufn := P.Func(spec.Marshal), P.Func(spec.Unmarshal)
	c.touch(mfn)
	c.touch(ufn)
	objName := objT.Obj().Name()
	persisted := c.persistedFields(spec)
	n := 0
	for _, b := range mfn.Blocks {
		for _, in := range b.Instrs {
			st, ok := in.(*ssa.Store)
			if !ok {
				continue
			}
			fa, ok := st.Addr.(*ssa.FieldAddr)
			if !ok || !ptrOrSelf(fa.X.Type(), wireT) {
				continue
			}
			wf := fieldOfAddr(fa)
			data := fieldSet{}
			sl := &slicer{P: P, visited: map[ssa.Value]bool{}}
			sl.fieldsOf(st.Val, objT, data, nil, nil)
			ctl := c.controlFields(mfn, st, objT)
			var extra []string
			for g := range ctl {
				if !data[g] && persisted[g] {
					extra = append(extra, g.Name())
				}
			}
			sort.Strings(extra)
			n++
			c.Check(len(extra) == 0, fmt.Sprintf("%s.MarshalJSON#%s-presence#%d", objName, wf.Name(), n), st.Pos(),
				fmt.Sprintf("what is written to %s depends only on %v", wf.Name(), data.names()),
				fmt.Sprintf("whether/what %s writes to wire field %s is decided by %s.%v, which that wire field does not carry (it carries %v): for some values of those fields the state is silently dropped on save", spec.Marshal, wf.Name(), objName, extra, data.names()))
		}
	}
	// reader
	k := 0
	var scan func(fn *ssa.Function, recv ssa.Value, depth int)
	scan = func(fn *ssa.Function, recv ssa.Value, depth int) {
		for _, b := range fn.Blocks {
			for _, in := range b.Instrs {
				switch x := in.(type) {
				case *ssa.Store:
					fa, ok := x.Addr.(*ssa.FieldAddr)
					if !ok || fa.X != recv || !ptrOrSelf(fa.X.Type(), objT) {
						continue
					}
					g := fieldOfAddr(fa)
					if !persisted[g] {
						continue
					}
					deps := fieldSet{}
					ps := map[int]bool{}
					sl := &slicer{P: P, visited: map[ssa.Value]bool{}}
					sl.fieldsOf(x.Val, wireT, deps, ps, fn)
					k++
					construct := fmt.Sprintf("%s.UnmarshalJSON#%s-source#%d", objName, g.Name(), k)
					if len(deps) > 0 || (depth > 0 && len(ps) > 0) {
						c.Holds(construct, x.Pos(), fmt.Sprintf("restored from %v", deps.names()))
						continue
					}
					switch stripNoCell(x.Val).(type) {
					case *ssa.MakeMap, *ssa.MakeSlice:
						c.Holds(construct, x.Pos(), "fresh empty container (its filling is covered by the field relation of R1)")
						continue
					}
					if why, ok := readerDefaults[g.Name()]; ok {
						c.Holds(construct, x.Pos(), "reviewed adapter: "+why)
						continue
					}
					c.Violated(construct, x.Pos(), fmt.Sprintf("%s stores into persisted field %s.%s a value that does not come from the wire struct: the reloaded state differs from the saved one whenever the field held anything else", SSAFuncName(fn), objName, g.Name()))
				case *ssa.Call:
					if depth >= 1 {
						continue
					}
					sf := x.Call.StaticCallee()
					if sf == nil || sf.Blocks == nil || sf.Pkg != fn.Pkg {
						continue
					}
					for i, a := range x.Call.Args {
						if a == recv && i < len(sf.Params) {
							scan(sf, sf.Params[i], depth+1)
						}
					}
				}
			}
		}
	}
	if len(ufn.Params) > 0 {
		scan(ufn, ufn.Params[0], 0)
	}
}
