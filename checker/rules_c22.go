package main

import (
	"fmt"
	"go/token"
	"strings"

	"golang.org/x/tools/go/ssa"
)

func init() {
	register(&Property{
		ID:          "C22",
		Roots:       []string{"overlord/ifacestate", "interfaces"},
		Technique:   "do/undo pairing (task-data keys) of the interface manager's handler pairs; ordering and guarded-sink rules on the SSA CFG of doConnect, undoConnect, doDisconnect, undoDisconnect (repository effect, profile regeneration, persisted \"conns\" write); who-may-write of the \"conns\" state key",
		Explanation: "Structural necessary conditions for 'interface connections are transactional: the in-memory repository, the persisted connection state and the security profiles move together': (R1) key agreement of the interface manager's (do, undo) pairs (old-conn etc.); (R2) doConnect persists the connection only after the repository connect and (unless delayed) both profile set-ups succeeded - so a failure leaves nothing persisted - and after the repository connect every failing return runs the deferred repository disconnect; doDisconnect saves old-conn before it mutates or removes anything and before the repository disconnect, and persists only after the repository disconnect and the profile regeneration succeeded; (R3) undoDisconnect reconnects the repository before regenerating the profiles (so they are generated from the restored connection), regenerates both sides, and restores exactly the saved old-conn before persisting; undoConnect restores the saved old-conn or deletes the entry, disconnects the repository, and regenerates both sides' profiles unless the set-up was delayed; (R4) reloadConnections connects only connections that are neither undesired nor hotplug-gone; (R5) the \"conns\" state key is written only through setConns.",
		NotDecided:  "equality of \"conns\" and the repository after arbitrary histories; the backends' reaction to a setup call; hotplug sequencing.",
		Run:         func(c *Ctx) { runC22(c); runC22x(c); runC22z(c) },
	})
}

func runC22(c *Ctx) {
	P := c.P
	pkg := "overlord/ifacestate"
	mgrT := pkg + ".(*InterfaceManager)."
	repoConnect := ToFn(P.FuncObj("interfaces.(*Repository).Connect"))
	repoDisconnect := ToFn(P.FuncObj("interfaces.(*Repository).Disconnect"))
	setupSec := ToFn(P.FuncObj(mgrT[:len(mgrT)-1] + ".setupSnapSecurity"))
	setConnsObj := P.FuncObj(pkg + ".setConns")
	taskSet := P.FuncObj("overlord/state.(*Task).Set")
	taskGet := P.FuncObj("overlord/state.(*Task).Get")

	c.Rule("C22-R1", "P-a", "task-data key agreement of the interface manager's (do, undo) pairs", 2)
	mgr := P.Func(pkg + ".Manager")
	pairs := P.HandlerPairs(mgr)
	n := 0
	for _, hp := range pairs {
		if hp.Do == nil || hp.Undo == nil || (hp.Kind != "connect" && hp.Kind != "disconnect") {
			continue // other kinds carry old-*/new-* keys set when the task is created, not saved by the do handler
		}
		doSets := keySet(P.TaskKeyUses(hp.Do, "Set", nil))
		undoGets := keySet(P.TaskKeyUses(hp.Undo, "Get", nil))
		var orphans []string
		for k := range undoGets {
			if len(k) > 4 && k[:4] == "old-" && !doSets[k] {
				orphans = append(orphans, k)
			}
		}
		for k := range doSets {
			if len(k) > 4 && k[:4] == "old-" && !undoGets[k] {
				orphans = append(orphans, k+"(saved, never read)")
			}
		}
		if len(onlyOld(doSets))+len(onlyOld(undoGets)) == 0 {
			continue
		}
		n++
		c.touch(hp.Do)
		c.touch(hp.Undo)
		c.Check(len(orphans) == 0, "pair:"+hp.Kind+"#keys", hp.Site.Pos(), fmt.Sprintf("do saves %v, undo reads %v", onlyOld(doSets), onlyOld(undoGets)), fmt.Sprintf("task kind %q: undo/do disagree on saved keys: %v", hp.Kind, orphans))
	}
	if n < 2 {
		c.Undecided(pkg+".Manager#pairs-with-old-keys", mgr.Pos(), fmt.Sprintf("expected the connect and disconnect pairs to save/read old-conn, found %d such pairs", n))
	}

	isSaveOld := func(in ssa.Instruction) bool {
		ci, ok := IsCallTo(in, taskSet)
		if !ok {
			return false
		}
		k, _ := ConstString(CallArgs(ci)[0])
		return k == "old-conn"
	}
	isConnsMutation := func(in ssa.Instruction) bool {
		switch x := in.(type) {
		case *ssa.MapUpdate:
			return VRes(0, ToFn(P.FuncObj(pkg+".getConns")))(x.Map)
		case *ssa.Call:
			if bi, ok := x.Call.Value.(*ssa.Builtin); ok && bi.Name() == "delete" {
				return VRes(0, ToFn(P.FuncObj(pkg+".getConns")))(x.Call.Args[0])
			}
		}
		return false
	}

	c.Rule("C22-R2", "G+O", "doConnect / doDisconnect: persist only after the repository effect and profile set-up succeeded; old-conn saved first; failing returns after repo.Connect run the deferred disconnect", 10)
	doC := P.Func(mgrT + "doConnect")
	fnDelayed := func(fn *ssa.Function) Atom {
		// the local filled by task.Get("delayed-setup-profiles", &x)
		var cell *ssa.Alloc
		for _, gc := range CallSites(fn, taskGet) {
			if k, _ := ConstString(CallArgs(gc)[0]); k == "delayed-setup-profiles" {
				cell = GetCell(gc)
			}
		}
		return Atom{Name: "delayedSetupProfiles", Match: func(cd Cond) Pol {
			return cd.BoolIs(func(v ssa.Value) bool { return cell != nil && IsLoadOfCell(v, cell) })
		}}
	}
	okConnect := NilRes("repo.Connect ok", 1, repoConnect)
	delayed := fnDelayed(doC)
	for i, sc := range CallSites(doC, setConnsObj) {
		c.Guarded(fmt.Sprintf("doConnect#persist<=repo-connected#%d", i+1), doC, sc, []Clause{{okConnect}}, nil)
		// both profile set-ups succeeded (or delayed)
		setups := CallsMatching(doC, setupSec)
		c.Check(len(setups) == 2, fmt.Sprintf("doConnect#two-setups#%d", i+1), sc.Pos(), "slot-side and plug-side set-up", fmt.Sprintf("expected 2 setupSnapSecurity calls in doConnect, found %d", len(setups)))
		for j, su := range setups {
			su := su
			c.Guarded(fmt.Sprintf("doConnect#persist<=profiles-ok#%d.%d", i+1, j+1), doC, sc, []Clause{{delayed, NilRes("setupSnapSecurity ok", 0, func(ci ssa.CallInstruction) bool { return ci == su })}}, nil)
		}
	}
	for i, m := range instrsMatching(doC, isConnsMutation) {
		for j, su := range CallsMatching(doC, setupSec) {
			su := su
			c.Guarded(fmt.Sprintf("doConnect#conns-entry<=profiles-ok#%d.%d", i+1, j+1), doC, m, []Clause{{delayed, NilRes("setupSnapSecurity ok", 0, func(ci ssa.CallInstruction) bool { return ci == su })}}, nil)
		}
	}
	// deferred disconnect registered right after a successful repo.Connect
	var deferIn ssa.Instruction
	var cleanup *ssa.Function
	for _, b := range doC.Blocks {
		for _, in := range b.Instrs {
			if d, ok := in.(*ssa.Defer); ok {
				if fn := StaticFn(d); fn != nil && len(CallsMatching(fn, repoDisconnect)) > 0 {
					deferIn, cleanup = in, fn
				}
			}
		}
	}
	rcs := CallsMatching(doC, repoConnect)
	if deferIn == nil || len(rcs) != 1 {
		c.Violated("doConnect#rollback-deferred", doC.Pos(), "doConnect no longer defers a repository disconnect after repo.Connect: a later failure leaves the connection in memory only")
	} else {
		// from the ok edge of Connect, every return passes the defer registration
		n := 0
		for _, b := range doC.Blocks {
			for si := range b.Succs {
				if !AtomEdges(okConnect)(b, si) {
					continue
				}
				n++
				q := ReachQ{Fn: doC, From: &Loc{b.Succs[si], -1}, CutInstr: SinkIs(deferIn), CutEdge: AtomEdges(Cmp("conn==nil", VRes(0, repoConnect), token.EQL, isNilVal)),
					Sink: func(in ssa.Instruction) bool { _, ok := in.(*ssa.Return); return ok }}
				r := q.Run()
				c.Check(!r.Found, fmt.Sprintf("doConnect#rollback-deferred#%d", n), deferIn.Pos(), "registered before any return that follows a successful connect", "doConnect can return after a successful repo.Connect without having deferred the rollback: "+P.PathString(r.Path))
			}
		}
		// the closure disconnects whenever the error result is set
		resCell := ResultCell(doC, 0)
		errSet := Not(ErrNil("err==nil", func(v ssa.Value) bool {
			u, ok := v.(*ssa.UnOp)
			if !ok {
				return false
			}
			fv, ok := u.X.(*ssa.FreeVar)
			if !ok {
				return false
			}
			mc := deferIn.(*ssa.Defer).Call.Value.(*ssa.MakeClosure)
			for bi, f := range cleanup.FreeVars {
				if f == fv && mc.Bindings[bi] == ssa.Value(resCell) {
					return true
				}
			}
			return false
		}))
		q := ReachQ{Fn: cleanup, CutEdge: AtomEdges(Not(errSet)), CutInstr: SinkCallM(repoDisconnect), Sink: func(in ssa.Instruction) bool { _, ok := in.(*ssa.Return); return ok }}
		r := q.Run()
		c.Check(!r.Found && resCell != nil, "doConnect$rollback#always-on-error", cleanup.Pos(), "with the handler's error set the rollback always disconnects", "the deferred rollback can return without repo.Disconnect although doConnect failed: "+P.PathString(r.Path))
	}
	// doDisconnect
	doD := P.Func(mgrT + "doDisconnect")
	saves := instrsMatching(doD, isSaveOld)
	if len(saves) == 0 {
		c.Violated("doDisconnect#old-conn-saved", doD.Pos(), "doDisconnect no longer saves old-conn")
	}
	for i, m := range instrsMatching(doD, isConnsMutation) {
		c.Before(fmt.Sprintf("doDisconnect#old-conn-saved-before-conns-change#%d", i+1), doD, isSaveOld, "task.Set(\"old-conn\", conn)", m, nil)
	}
	// the saved value is serialised at Set time: it must precede any mutation of the ConnState it points to
	connStateT := P.NamedType(pkg + "/schema.ConnState")
	for i, st := range instrsMatching(doD, func(in ssa.Instruction) bool {
		s, ok := in.(*ssa.Store)
		if !ok {
			return false
		}
		fa, ok := s.Addr.(*ssa.FieldAddr)
		return ok && ptrOrSelf(fa.X.Type(), connStateT)
	}) {
		c.Before(fmt.Sprintf("doDisconnect#old-conn-saved-before-connstate-mutation#%d", i+1), doD, isSaveOld, "task.Set(\"old-conn\", conn)", st, nil)
	}
	for i, dc := range CallsMatching(doD, repoDisconnect) {
		c.Before(fmt.Sprintf("doDisconnect#old-conn-saved-before-repo-disconnect#%d", i+1), doD, isSaveOld, "task.Set(\"old-conn\", conn)", dc, nil)
	}
	okDisc := NilRes("repo.Disconnect ok", 0, repoDisconnect)
	forget := fnFlag(doD, taskGet, "forget")
	for i, sc := range CallSites(doD, setConnsObj) {
		c.Guarded(fmt.Sprintf("doDisconnect#persist<=repo-disconnected-or-forget#%d", i+1), doD, sc, []Clause{{okDisc, forget}}, nil)
	}

	c.Rule("C22-R3", "O+G", "undoDisconnect: reconnect before regenerating profiles, both sides regenerated, old-conn restored before persisting; undoConnect: conns restored/deleted, repository disconnected, profiles regenerated unless delayed", 10)
	uD := P.Func(mgrT + "undoDisconnect")
	ucs := CallsMatching(uD, repoConnect)
	if len(ucs) != 1 {
		c.Undecided("undoDisconnect#reconnect", uD.Pos(), fmt.Sprintf("expected one repo.Connect, found %d", len(ucs)))
	} else {
		setups := P.CallsMatchingDeep(uD, setupSec)
		c.Check(len(setups) == 2, "undoDisconnect#two-setups", uD.Pos(), "both sides regenerated", fmt.Sprintf("expected 2 setupSnapSecurity calls in undoDisconnect, found %d", len(setups)))
		for i, su := range setups {
			c.Before(fmt.Sprintf("undoDisconnect#reconnect-before-profiles#%d", i+1), uD, SinkIs(ucs[0]), "repo.Connect(...)", su, nil)
			c.Guarded(fmt.Sprintf("undoDisconnect#profiles<=reconnected#%d", i+1), uD, su, []Clause{{NilRes("repo.Connect ok", 1, repoConnect)}}, nil)
		}
		// persisted entry = &oldconn read from old-conn, after the profiles (or on the forget shortcut)
		var oldCell *ssa.Alloc
		for _, gc := range CallSites(uD, taskGet) {
			if k, _ := ConstString(CallArgs(gc)[0]); k == "old-conn" {
				oldCell = GetCell(gc)
			}
		}
		nRest := 0
		for _, m := range instrsMatching(uD, isConnsMutation) {
			mu, ok := m.(*ssa.MapUpdate)
			nRest++
			c.Check(ok && oldCell != nil && mu.Value == ssa.Value(oldCell), fmt.Sprintf("undoDisconnect#restores-old-conn#%d", nRest), m.Pos(), "conns[id] = &oldconn", "undoDisconnect writes something other than the saved old-conn back into conns")
		}
		if nRest == 0 {
			c.Violated("undoDisconnect#restores-old-conn", uD.Pos(), "undoDisconnect no longer restores the saved connection state")
		}
		forgetU := fnFlag(uD, taskGet, "forget")
		for i, sc := range CallSites(uD, setConnsObj) {
			for j, su := range setups {
				su := su
				c.Guarded(fmt.Sprintf("undoDisconnect#persist<=profiles-ok-or-forget#%d.%d", i+1, j+1), uD, sc, []Clause{{forgetU, NilRes("setupSnapSecurity ok", 0, func(ci ssa.CallInstruction) bool { return ci == su })}}, nil)
			}
		}
	}
	uC := P.Func(mgrT + "undoConnect")
	delayedU := fnDelayed(uC)
	setupsU := CallsMatching(uC, setupSec)
	c.Check(len(setupsU) == 2, "undoConnect#two-setups", uC.Pos(), "both sides regenerated", fmt.Sprintf("expected 2 setupSnapSecurity calls in undoConnect, found %d", len(setupsU)))
	for i, su := range setupsU {
		c.Guarded(fmt.Sprintf("undoConnect#profiles<=repo-disconnected#%d", i+1), uC, su, []Clause{{NilRes("repo.Disconnect ok", 0, repoDisconnect)}}, nil)
	}
	// success returns: disconnect done; profiles done unless delayed
	for i, lf := range nilLeaves(uC, 0) {
		c.GuardedFlow(fmt.Sprintf("undoConnect#success<=repo-disconnected#%d", i+1), uC, lf, []Clause{{NilRes("repo.Disconnect ok", 0, repoDisconnect)}}, nil)
		for j, su := range setupsU {
			su := su
			c.GuardedFlow(fmt.Sprintf("undoConnect#success<=profiles-or-delayed#%d.%d", i+1, j+1), uC, lf, []Clause{{delayedU, NilRes("setupSnapSecurity ok", 0, func(ci ssa.CallInstruction) bool { return ci == su })}}, nil)
		}
	}
	nM := len(instrsMatching(uC, isConnsMutation))
	c.Check(nM == 2 && len(CallSites(uC, setConnsObj)) >= 1, "undoConnect#conns-restored-or-deleted", uC.Pos(), "conns[id] = &old | delete(conns, id), then setConns", fmt.Sprintf("undoConnect must either restore the saved old-conn or delete the entry and persist (found %d conns mutations)", nM))

	c.Rule("C22-R4", "G", "reloadConnections: repo.Connect <= !Undesired ∧ !HotplugGone", 1)
	rl := P.Func(mgrT + "reloadConnections")
	fUnd := P.Field(pkg + "/schema.ConnState.Undesired")
	fGone := P.Field(pkg + "/schema.ConnState.HotplugGone")
	notUnd := Atom{Name: "!conn.Undesired", Match: func(cd Cond) Pol { return cd.BoolIs(VField(fUnd)).Flip() }}
	notGone := Atom{Name: "!conn.HotplugGone", Match: func(cd Cond) Pol { return cd.BoolIs(VField(fGone)).Flip() }}
	for i, cc := range CallsMatching(rl, repoConnect) {
		c.Guarded(fmt.Sprintf("reloadConnections#connect#%d", i+1), rl, cc, []Clause{{notUnd}, {notGone}}, nil)
	}

	c.Rule("C22-R5", "W", "the \"conns\" state key is written only by setConns", 1)
	stSet := P.FuncObj("overlord/state.(*State).Set")
	nW := 0
	for _, fn := range P.AllFuncs() {
		for _, sc := range CallSites(fn, stSet) {
			if k, ok := ConstString(CallArgs(sc)[0]); ok && k == "conns" {
				nW++
				if fn.Pkg != nil && strings.HasSuffix(fn.Pkg.Pkg.Path(), "/overlord/patch") {
					// state-format migration run by patch.Apply at start-up, before the managers exist
					c.Holds("state-key:conns#writer:"+SSAFuncName(fn), sc.Pos(), "state-format migration run by patch.Apply before the managers start")
					continue
				}
				c.Check(SSAFuncName(fn) == pkg+".setConns", "state-key:conns#writer:"+SSAFuncName(fn), sc.Pos(), "written by setConns", "\"conns\" is written by "+SSAFuncName(fn)+", bypassing setConns")
			}
		}
	}
	if nW == 0 {
		c.Undecided("state-key:conns#writer", token.NoPos, "no writer found")
	}
}

func instrsMatching(fn *ssa.Function, pred func(ssa.Instruction) bool) []ssa.Instruction {
	var out []ssa.Instruction
	for _, b := range fn.Blocks {
		for _, in := range b.Instrs {
			if pred(in) {
				out = append(out, in)
			}
		}
	}
	return out
}

// fnFlag: the atom "<local filled by task.Get(key, &x)> is true".
func fnFlag(fn *ssa.Function, taskGet interface{ Name() string }, key string) Atom {
	var cell *ssa.Alloc
	for _, b := range fn.Blocks {
		for _, in := range b.Instrs {
			ci, ok := in.(ssa.CallInstruction)
			if !ok {
				continue
			}
			co := CalleeOf(ci)
			if co == nil || co.Name() != "Get" || len(CallArgs(ci)) < 2 {
				continue
			}
			if k, _ := ConstString(CallArgs(ci)[0]); k == key {
				cell = GetCell(ci)
			}
		}
	}
	return Atom{Name: key, Match: func(cd Cond) Pol {
		return cd.BoolIs(func(v ssa.Value) bool { return cell != nil && IsLoadOfCell(v, cell) })
	}}
}
