package main

import (
	"fmt"
	"go/token"
	"go/types"
	"sort"
	"strings"

	"golang.org/x/tools/go/ssa"
)

func init() {
	register(&Property{
		ID:          "C21",
		Roots:       []string{"interfaces/policy", "asserts"},
		Technique:   "ordering / guarded-sink rules on the SSA CFG of the policy checkers (rule precedence, deny-then-allow gates, OR-loop over alternatives), sibling agreement between the four rule checkers, struct field coverage of the four constraint checkers, constant shape of the name-matcher regexp",
		Explanation: "Structural necessary conditions for 'interface connection/installation decisions follow the declared policy rules': (R1) precedence: ConnectCandidate.check consults the plug snap's declaration, then the slot snap's, then the base declaration's plug rule, then its slot rule, and the first rule found decides (its verdict is returned, later rules unreachable); InstallCandidate.checkSlot/checkPlug consult the snap declaration before the base declaration; mismatched interface names are refused before any rule; (R2) the four rule checkers answer nil only when the deny alternatives did NOT match and the allow alternatives did, with deny/allow taken from the same kind (connection, auto-connection or installation) of the rule; (R3) each alternatives checker returns success only from inside its loop on a successful single-alternative check of the loop element, continues only after a failed one, and otherwise returns the remembered first error; (R4) each single-alternative checker reads every field of its constraints type (all but the arity fields) and hands it to a check whose failure is returned; checkID skips unknown special ids instead of failing on them; (R5) the name matcher compiled for plug-names/slot-names anchors the whole alternation: ^( ... )$.",
		NotDecided:  "attribute matcher semantics and $-specials in asserts/ifacedecls.go beyond the anchoring; the contents of the base declaration; arity handling of auto-connections; InstallCandidateMinimalCheck (documented reduced check).",
		Run:         func(c *Ctx) { runC21(c); runC21x(c); runC21z(c) },
	})
}

func runC21(c *Ctx) {
	P := c.P
	pkg := "interfaces/policy"

	// ---------- R1
	c.Rule("C21-R1", "O", "rule precedence: first rule found decides; snap declarations before the base declaration; interface mismatch refused first", 8)
	precedence := func(fnName string, order []struct{ recvField, method string }, checker map[string]string) {
		fn := P.Func(fnName)
		c.touch(fn)
		var lookups []ssa.CallInstruction
		for _, o := range order {
			var found ssa.CallInstruction
			for _, b := range fn.Blocks {
				for _, in := range b.Instrs {
					ci, ok := in.(ssa.CallInstruction)
					if !ok {
						continue
					}
					co := CalleeOf(ci)
					if co == nil || co.Name() != o.method {
						continue
					}
					_, f, isF := FieldLoad(CallRecv(ci))
					if isF && f.Name() == o.recvField {
						found = ci
					}
				}
			}
			if found == nil {
				c.Violated(fmt.Sprintf("%s#lookup:%s.%s", fnName, o.recvField, o.method), fn.Pos(), fmt.Sprintf("%s no longer consults %s.%s(iface)", fnName, o.recvField, o.method))
				return
			}
			lookups = append(lookups, found)
		}
		for i, lk := range lookups {
			// the rule found, or a variable that is nil unless it holds the rule found
			// (var rule *R; if decl != nil { rule = decl.Rule(iface) }; if rule != nil { … })
			lkv := lk.Value()
			isRuleVal := func(v ssa.Value) bool {
				if VIs(lkv)(v) {
					return true
				}
				ph, ok := stripNoCell(v).(*ssa.Phi)
				if !ok {
					return false
				}
				n := 0
				for _, e := range ph.Edges {
					if IsNilConst(e) {
						continue
					}
					if !VIs(lkv)(e) {
						return false
					}
					n++
				}
				return n > 0
			}
			nonNil := Cmp("rule!=nil", isRuleVal, token.NEQ, isNilVal)
			// order: lookup i+1 is not before lookup i
			if i+1 < len(lookups) {
				r := ReachQ{Fn: fn, From: LocOf(lookups[i+1]), Sink: SinkIs(lk)}.Run()
				c.Check(!r.Found, fmt.Sprintf("%s#order:%d-before-%d", fnName, i+1, i+2), lk.Pos(), fmt.Sprintf("%s.%s is consulted before %s.%s", order[i].recvField, order[i].method, order[i+1].recvField, order[i+1].method), "rule precedence changed: "+order[i+1].recvField+"."+order[i+1].method+" is consulted before "+order[i].recvField+"."+order[i].method)
			}
			// decides: from the non-nil edge no other lookup is reachable and the function returns the verdict of the matching checker on that rule
			n := 0
			for _, b := range fn.Blocks {
				for si := range b.Succs {
					if !AtomEdges(nonNil)(b, si) {
						continue
					}
					n++
					for j, other := range lookups {
						if j == i {
							continue
						}
						r := ReachQ{Fn: fn, From: &Loc{b.Succs[si], -1}, Sink: SinkIs(other)}.Run()
						c.Check(!r.Found, fmt.Sprintf("%s#decides:%d-over-%d", fnName, i+1, j+1), lk.Pos(), "a rule found here decides", fmt.Sprintf("after %s.%s returned a rule, %s.%s can still be consulted: the first rule no longer decides", order[i].recvField, order[i].method, order[j].recvField, order[j].method))
					}
					// the verdict returned is that of the right checker applied to this rule
					okVerdict := false
					want := checker[order[i].method]
					for _, cc := range CallsMatching(fn, func(ci ssa.CallInstruction) bool {
						co := CalleeOf(ci)
						return co != nil && co.Name() == want
					}) {
						for _, a := range cc.Common().Args {
							if Strip(a) == Strip(lk.Value()) || isRuleVal(a) {
								okVerdict = true
							}
						}
					}
					c.Check(okVerdict, fmt.Sprintf("%s#verdict:%d", fnName, i+1), lk.Pos(), "decided by "+want+" on the rule found", fmt.Sprintf("the rule returned by %s.%s is not handed to %s", order[i].recvField, order[i].method, want))
				}
			}
			if n == 0 {
				c.Undecided(fmt.Sprintf("%s#rule-test:%d", fnName, i+1), lk.Pos(), "the nil test of the rule was not recognised")
			}
		}
	}
	precedence(pkg+".(*ConnectCandidate).check", []struct{ recvField, method string }{
		{"PlugSnapDeclaration", "PlugRule"}, {"SlotSnapDeclaration", "SlotRule"}, {"BaseDeclaration", "PlugRule"}, {"BaseDeclaration", "SlotRule"},
	}, map[string]string{"PlugRule": "checkPlugRule", "SlotRule": "checkSlotRule"})
	precedence(pkg+".(*InstallCandidate).checkSlot", []struct{ recvField, method string }{
		{"SnapDeclaration", "SlotRule"}, {"BaseDeclaration", "SlotRule"},
	}, map[string]string{"SlotRule": "checkSlotRule"})
	precedence(pkg+".(*InstallCandidate).checkPlug", []struct{ recvField, method string }{
		{"SnapDeclaration", "PlugRule"}, {"BaseDeclaration", "PlugRule"},
	}, map[string]string{"PlugRule": "checkPlugRule"})
	// interface mismatch refused before any rule
	chk := P.Func(pkg + ".(*ConnectCandidate).check")
	ifaceP := P.FuncObj("interfaces.(*ConnectedPlug).Interface")
	ifaceS := P.FuncObj("interfaces.(*ConnectedSlot).Interface")
	same := Not(Cmp("slot.Interface()!=plug.Interface()", VRes(0, ToFn(ifaceS)), token.NEQ, VRes(0, ToFn(ifaceP))))
	nl := 0
	for _, b := range chk.Blocks {
		for _, in := range b.Instrs {
			ci, ok := in.(ssa.CallInstruction)
			if !ok {
				continue
			}
			if co := CalleeOf(ci); co != nil && (co.Name() == "PlugRule" || co.Name() == "SlotRule") {
				nl++
				c.Guarded(fmt.Sprintf("%s.(*ConnectCandidate).check#same-interface#%d", pkg, nl), chk, in, []Clause{{same}}, nil)
			}
		}
	}

	// ---------- R2
	c.Rule("C21-R2", "G", "rule checkers: nil <= deny alternatives did not match ∧ allow alternatives matched; deny/allow of the same kind", 8)
	type rc struct {
		fn, alt string
		connect bool
	}
	for _, r := range []rc{
		{pkg + ".(*ConnectCandidate).checkPlugRule", "checkPlugConnectionAltConstraints", true},
		{pkg + ".(*ConnectCandidate).checkSlotRule", "checkSlotConnectionAltConstraints", true},
		{pkg + ".(*InstallCandidate).checkPlugRule", "checkPlugInstallationAltConstraints", false},
		{pkg + ".(*InstallCandidate).checkSlotRule", "checkSlotInstallationAltConstraints", false},
	} {
		fn := P.Func(r.fn)
		altObj := P.FuncObj(pkg + "." + r.alt)
		calls := CallSites(fn, altObj)
		if len(calls) != 2 {
			c.Undecided(r.fn+"#alt-calls", fn.Pos(), fmt.Sprintf("expected the deny and the allow call of %s, found %d", r.alt, len(calls)))
			continue
		}
		// which is deny: the one whose argument reads Deny* fields
		kindOf := func(ci ssa.CallInstruction) (string, []string) {
			a := ci.Common().Args[len(ci.Common().Args)-1]
			var names []string
			var leaves []FlowPoint
			phiLeaves(a, ci, &leaves, map[*ssa.Phi]bool{})
			leaves = ThroughHelpers(leaves, fn.Pkg)
			for _, lf := range leaves {
				if _, f, ok := FieldLoad(lf.Val); ok {
					names = append(names, f.Name())
				} else {
					names = append(names, "?")
				}
			}
			sort.Strings(names)
			k := "?"
			allDeny, allAllow := len(names) > 0, len(names) > 0
			for _, n := range names {
				if !strings.HasPrefix(n, "Deny") {
					allDeny = false
				}
				if !strings.HasPrefix(n, "Allow") {
					allAllow = false
				}
			}
			if allDeny {
				k = "deny"
			}
			if allAllow {
				k = "allow"
			}
			return k, names
		}
		var deny, allow ssa.CallInstruction
		var dn, an []string
		for _, ci := range calls {
			k, names := kindOf(ci)
			if k == "deny" {
				deny, dn = ci, names
			}
			if k == "allow" {
				allow, an = ci, names
			}
		}
		if deny == nil || allow == nil {
			c.Violated(r.fn+"#deny-and-allow", fn.Pos(), fmt.Sprintf("%s does not evaluate one Deny* and one Allow* list of the rule (found %v / %v)", r.fn, dn, an))
			continue
		}
		// same kinds on both sides
		strip := func(ns []string, p string) []string {
			var o []string
			for _, n := range ns {
				o = append(o, strings.TrimPrefix(n, p))
			}
			return o
		}
		wantKinds := []string{"Installation"}
		if r.connect {
			wantKinds = []string{"AutoConnection", "Connection"}
		}
		c.Check(fmt.Sprint(strip(dn, "Deny")) == fmt.Sprint(wantKinds) && fmt.Sprint(strip(an, "Allow")) == fmt.Sprint(wantKinds), r.fn+"#kinds", deny.Pos(), fmt.Sprintf("deny %v / allow %v", dn, an), fmt.Sprintf("the rule checker evaluates deny lists %v and allow lists %v; expected the %v lists on both sides", dn, an, wantKinds))
		if r.connect {
			// the two phis are selected by the same kind test: same block, and edge i pairs DenyX with AllowX
			dphi, ok1 := stripNoCell(deny.Common().Args[1]).(*ssa.Phi)
			aphi, ok2 := stripNoCell(allow.Common().Args[1]).(*ssa.Phi)
			okPair := ok1 && ok2 && dphi.Block() == aphi.Block()
			if okPair {
				for i := range dphi.Edges {
					_, df, _ := FieldLoad(dphi.Edges[i])
					_, af, _ := FieldLoad(aphi.Edges[i])
					if df == nil || af == nil || strings.TrimPrefix(df.Name(), "Deny") != strings.TrimPrefix(af.Name(), "Allow") {
						okPair = false
					}
				}
				// and the selecting test is kind == "auto-connection"
				sel := false
				for _, pb := range dphi.Block().Preds {
					for _, b := range append([]*ssa.BasicBlock{pb}, pb.Preds...) {
						if len(b.Instrs) == 0 {
							continue
						}
						if iff, ok := b.Instrs[len(b.Instrs)-1].(*ssa.If); ok {
							if Cmp("", VParam(fn, 1), token.EQL, VConstStr("auto-connection")).Match(Decompose(iff.Cond)) != PolNone {
								sel = true
							}
						}
					}
				}
				okPair = okPair && sel
			}
			if !okPair {
				// both lists handed back together by one helper call: pick(kind, rule)
				dc, di, okd := CallResult(deny.Common().Args[1])
				ac, ai, oka := CallResult(allow.Common().Args[1])
				if okd && oka && dc == ac && di != ai {
					if h := dc.Common().StaticCallee(); h != nil && h.Pkg == fn.Pkg && len(h.Blocks) > 0 {
						ki := -1
						for j, a := range dc.Common().Args {
							if VParam(fn, 1)(a) {
								ki = j
							}
						}
						okPair = ki >= 0
						nr := 0
						for _, hr := range ReturnsOf(h) {
							nr++
							_, df, _ := FieldLoad(hr.Results[di])
							_, af, _ := FieldLoad(hr.Results[ai])
							if df == nil || af == nil || strings.TrimPrefix(df.Name(), "Deny") != strings.TrimPrefix(af.Name(), "Allow") {
								okPair = false
								continue
							}
							if ki < 0 {
								continue
							}
							isAuto := Cmp("kind==\"auto-connection\"", VParam(h, ki), token.EQL, VConstStr("auto-connection"))
							gate := isAuto
							if !strings.HasSuffix(df.Name(), "AutoConnection") {
								gate = Not(isAuto)
							}
							if CountAtomEdges(h, gate) == 0 || (ReachQ{Fn: h, CutEdge: AtomEdges(gate), Sink: SinkIs(hr)}).Run().Found {
								okPair = false
							}
						}
						okPair = okPair && nr >= 2
						c.touch(h)
					}
				}
			}
			c.Check(okPair, r.fn+"#kind-pairing", deny.Pos(), "kind==\"auto-connection\" selects DenyAutoConnection with AllowAutoConnection, otherwise DenyConnection with AllowConnection", "the deny and allow lists are not selected together by kind == \"auto-connection\" (a connection could be judged by the deny list of one kind and the allow list of the other)")
		}
		errIdx := 0
		if r.connect {
			errIdx = 1
		}
		denyMatched := NilRes("deny alternatives matched", errIdx, func(ci ssa.CallInstruction) bool { return ci == deny })
		allowMatched := NilRes("allow alternatives matched", errIdx, func(ci ssa.CallInstruction) bool { return ci == allow })
		k := 0
		for _, lf := range nilLeaves(fn, -1) {
			k++
			c.GuardedFlow(fmt.Sprintf("%s#allowed<=not-denied#%d", r.fn, k), fn, lf, []Clause{{Not(denyMatched)}}, nil)
			c.GuardedFlow(fmt.Sprintf("%s#allowed<=allow-matched#%d", r.fn, k), fn, lf, []Clause{{allowMatched}}, nil)
		}
		if k == 0 {
			c.Undecided(r.fn+"#nil-return", fn.Pos(), "no nil-error return found")
		}
	}

	// ---------- R3
	c.Rule("C21-R3", "L", "alternatives checkers: success only from inside the loop on ok(single-alternative check of the element); continue only after a failed one; otherwise firstErr", 8)
	alts := []struct{ alt, one string }{
		{"checkPlugConnectionAltConstraints", "checkPlugConnectionConstraints1"},
		{"checkSlotConnectionAltConstraints", "checkSlotConnectionConstraints1"},
		{"checkPlugInstallationAltConstraints", "checkPlugInstallationConstraints1"},
		{"checkSlotInstallationAltConstraints", "checkSlotInstallationConstraints1"},
	}
	for _, a := range alts {
		fn := P.Func(pkg + "." + a.alt)
		oneObj := P.FuncObj(pkg + "." + a.one)
		loops := RangeLoops(fn)
		if len(loops) != 1 {
			c.Undecided(pkg+"."+a.alt+"#loop", fn.Pos(), fmt.Sprintf("expected one loop over the alternatives, found %d", len(loops)))
			continue
		}
		rl := loops[0]
		okOne := NilRes("ok("+a.one+"(elem))", 0, CallWhere(ToFn(oneObj), len(fn.Params)-1, VIs(rl.Elem)))
		c.LatchGated(pkg+"."+a.alt+"#continue-only-after-failure", rl, []Clause{{Not(okOne)}})
		// success returns: inside the loop across okOne; the return after the loop yields the remembered error (a phi), never a literal nil
		for i, r := range ReturnsOf(fn) {
			last := r.Results[len(r.Results)-1]
			if rl.Body.Dominates(r.Block()) {
				if IsNilConst(last) {
					c.Guarded(fmt.Sprintf("%s.%s#success-in-loop#%d", pkg, a.alt, i+1), fn, r, []Clause{{okOne}}, nil)
				}
				continue
			}
			_, isPhi := stripNoCell(last).(*ssa.Phi)
			c.Check(isPhi && !IsNilConst(last), fmt.Sprintf("%s.%s#after-loop-returns-first-error#%d", pkg, a.alt, i+1), r.Pos(), "after the loop the remembered first error is returned", "after trying every alternative "+a.alt+" returns something other than the remembered first error (e.g. nil: a rule none of whose alternatives matched would count as matched)")
		}
		// the loop runs over the list handed in
		c.Check(IsParam(rl.Coll, fn, len(fn.Params)-1), pkg+"."+a.alt+"#list", fn.Pos(), "iterates the alternatives handed in", "the loop does not iterate the alternatives parameter")
	}

	// ---------- R4
	c.Rule("C21-R4", "F", "single-alternative checkers: every constraint field (but the arity fields) is read and handed to a check whose failure is returned; checkID skips unknown specials", 30)
	for _, a := range alts {
		fn := P.Func(pkg + "." + a.one)
		cparam := fn.Params[len(fn.Params)-1]
		st := cparam.Type().(*types.Pointer).Elem().Underlying().(*types.Struct)
		// calls (in fn or a same-package helper receiving the constraints) whose error result, when non-nil, makes fn fail
		for i := 0; i < st.NumFields(); i++ {
			f := st.Field(i)
			if f.Name() == "SlotsPerPlug" || f.Name() == "PlugsPerSlot" {
				continue
			}
			construct := fmt.Sprintf("%s.%s#field:%s", pkg, a.one, f.Name())
			ok, why := fieldChecked(fn, cparam, f, 0)
			c.touch(fn)
			c.Check(ok, construct, fn.Pos(), "read and checked", fmt.Sprintf("%s does not enforce constraint field %s (%s): an alternative carrying it matches regardless of it", a.one, f.Name(), why))
		}
	}
	// checkID: the `continue` on an unknown special, no failing return inside the loop
	cid := P.Func(pkg + ".checkID")
	c.touch(cid)
	for _, rl := range RangeLoops(cid) {
		q := ReachQ{Fn: cid, From: &Loc{rl.Body, -1}, CutEdge: func(b *ssa.BasicBlock, s int) bool { return b == rl.Header },
			Sink: func(in ssa.Instruction) bool {
				r, ok := in.(*ssa.Return)
				return ok && !IsNilConst(r.Results[0])
			}}
		r := q.Run()
		c.Check(!r.Found, pkg+".checkID#no-failure-inside-loop", rl.Body.Instrs[0].Pos(), "the scan over the listed ids only ends early on a match", "checkID can fail from inside the loop (e.g. on an unresolvable $SPECIAL) without looking at the ids listed after it: "+P.PathString(r.Path))
	}

	// ---------- R5
	c.Rule("C21-R5", "K", "asserts.compileNameMatcher anchors the whole pattern: \"^(\" + s + \")$\"", 1)
	cnm := P.Func("asserts.compileNameMatcher")
	c.touch(cnm)
	okRx := false
	for _, cc := range CallSites(cnm, P.FuncObj("regexp.Compile")) {
		// ("^(" + s) + ")$"
		if b2, ok := cc.Common().Args[0].(*ssa.BinOp); ok && b2.Op == token.ADD {
			if s2, ok := ConstString(b2.Y); ok && s2 == ")$" {
				if b1, ok := b2.X.(*ssa.BinOp); ok && b1.Op == token.ADD {
					if s1, ok := ConstString(b1.X); ok && s1 == "^(" {
						okRx = true
					}
				}
			}
		}
	}
	c.Check(okRx, "asserts.compileNameMatcher#anchored-group", cnm.Pos(), "^( s )$", "the names regexp is not compiled as \"^(\" + s + \")$\": with a top-level alternation the anchors bind only to the first and last alternative, so names that merely start or end like a listed one match")
}

// fieldChecked: field f of the struct pointed to by param is read in fn and the value flows
// into a call (argument or receiver) whose error result, when non-nil, makes fn return a
// non-nil error; or the struct is handed to a same-package helper for which that holds.
func fieldChecked(fn *ssa.Function, param ssa.Value, f *types.Var, depth int) (bool, string) {
	read := false
	for _, b := range fn.Blocks {
		for _, in := range b.Instrs {
			fa, ok := in.(*ssa.FieldAddr)
			if !ok || fa.X != param || fieldOfAddr(fa) != f {
				continue
			}
			read = true
			for _, r := range *fa.Referrers() {
				ld, ok := r.(*ssa.UnOp)
				if !ok {
					continue
				}
				for _, u := range *ld.Referrers() {
					ci, ok := u.(*ssa.Call)
					if !ok {
						continue
					}
					if callFailureFailsFn(fn, ci) {
						return true, ""
					}
				}
			}
		}
	}
	if depth < 1 {
		for _, b := range fn.Blocks {
			for _, in := range b.Instrs {
				ci, ok := in.(*ssa.Call)
				if !ok {
					continue
				}
				sf := ci.Call.StaticCallee()
				if sf == nil || sf.Blocks == nil || sf.Pkg != fn.Pkg {
					continue
				}
				for i, a := range ci.Call.Args {
					if a == param && i < len(sf.Params) {
						if ok, _ := fieldChecked(sf, sf.Params[i], f, depth+1); ok && callFailureFailsFn(fn, ci) {
							return true, ""
						}
					}
				}
			}
		}
	}
	if read {
		return false, "read, but not handed to a check whose failure is returned"
	}
	return false, "never read"
}

// callFailureFailsFn: the call has an error result and from its non-nil edge no success return of fn is reachable.
func callFailureFailsFn(fn *ssa.Function, ci *ssa.Call) bool {
	res := ci.Call.Signature().Results()
	errIdx := -1
	for i := 0; i < res.Len(); i++ {
		if isErrorType(res.At(i).Type()) {
			errIdx = i
		}
	}
	if errIdx < 0 {
		return false
	}
	failed := Not(NilRes("ok", errIdx, func(c2 ssa.CallInstruction) bool { return c2 == ssa.CallInstruction(ci) }))
	n := 0
	for _, b := range fn.Blocks {
		for si := range b.Succs {
			if !AtomEdges(failed)(b, si) {
				continue
			}
			n++
			if (ReachQ{Fn: fn, From: &Loc{b.Succs[si], -1}, Sink: IsSuccessReturn}).Run().Found {
				return false
			}
		}
	}
	if n == 0 {
		// the error is returned directly: return f(...)
		for _, r := range ReturnsOf(fn) {
			if cc, _, ok := CallResult(r.Results[len(r.Results)-1]); ok && cc == ssa.CallInstruction(ci) {
				return true
			}
		}
		return false
	}
	return true
}
