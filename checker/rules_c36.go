package main

import (
	"fmt"
	"go/token"
	"go/types"

	"golang.org/x/tools/go/ssa"
)

func init() {
	register(&Property{
		ID:          "C36",
		Roots:       []string{"snap/quota"},
		Technique:   "validate-before-mutate ordering (CFG must-pass gates on every store to the group's limit fields); value provenance of the reservation arithmetic in getQuotaAllocations and validate*ResourceFit (SSA); must-call / error-propagation in validateQuotasFit",
		Explanation: "Structural necessary conditions of 'accepted quota groups always fit inside their parents' (the arithmetic invariant over all request sequences is not decided): (R1) UpdateQuotaLimits writes a limit field of the group only after ValidateChange and validateQuotasFit both succeeded, so a refused request leaves the group unchanged and the fit is computed against the limits in force; NewSubGroup attaches the sub-group only after its limits and the group itself validated; NewGroup likewise; (R2) getQuotaAllocations charges a parent, per sub-group and per resource, max(own limit, reserved by its children) - or an equivalent choice that takes 'reserved by children' only where the sub-group's allocation of that very resource is 0 - and recurses into every sub-group; (R3) validateMemory/CPU/ThreadResourceFit compute the room in the nearest limited ancestor as limit - (reservedByChildren - held) where 'held' is the group's own allocation or max(own, reserved by its children), refuse when the request exceeds it or when the children's reservation exceeds the request; (R4) validateQuotasFit gathers the allocations from the top-most ancestor, runs the fit check of every resource present in the request and returns their errors; (R5) validateCPUsAllowedResourceFit refuses a cpu-set that does not contain the children's sets or is not contained in the nearest ancestor set.",
		NotDecided:  "the numeric invariant itself (sum of children's effective reservations <= limit after every accepted sequence); Resources.Validate/ValidateChange value rules; cpu percentage semantics of GetLocalCPUQuota.",
		Run:         func(c *Ctx) { runC36(c) },
	})
}

func runC36(c *Ctx) {
	P := c.P
	pkg := "snap/quota"
	G := func(f string) *types.Var { return P.Field(pkg + ".Group." + f) }
	A := func(f string) *types.Var { return P.Field(pkg + ".groupQuotaAllocations." + f) }
	fitObj := P.FuncObj(pkg + ".(*Group).validateQuotasFit")
	vchg := P.FuncObj(pkg + ".Resources.ValidateChange")
	upd := P.Func(pkg + ".(*Group).UpdateQuotaLimits")
	updObj := P.FuncObj(pkg + ".(*Group).UpdateQuotaLimits")
	validateObj := P.FuncObj(pkg + ".(*Group).validate")
	maxI := P.FuncObj(pkg + ".max")
	maxQ := P.FuncObj(pkg + ".maxq")

	// ---- R1
	c.Rule("C36-R1", "G", "limit fields written / sub-group attached only after validation succeeded", 8)
	limitFields := []*types.Var{G("MemoryLimit"), G("CPULimit"), G("ThreadLimit"), G("JournalLimit")}
	n := 0
	for _, f := range limitFields {
		for _, st := range StoresToField(upd, f) {
			fa, _ := st.Addr.(*ssa.FieldAddr)
			if fa == nil || !VParam(upd, 0)(fa.X) {
				continue
			}
			n++
			c.Guarded(fmt.Sprintf("%s.Group.UpdateQuotaLimits#%s-written<=validated#%d", pkg, f.Name(), n), upd, st,
				[]Clause{{OkCall("ValidateChange ok", vchg)}, {OkCall("validateQuotasFit ok", fitObj)}}, nil)
		}
	}
	// writes through grp.CPULimit.* (the cpu-set) as well
	for _, b := range upd.Blocks {
		for _, in := range b.Instrs {
			st, ok := in.(*ssa.Store)
			if !ok {
				continue
			}
			fa, ok := st.Addr.(*ssa.FieldAddr)
			if !ok {
				continue
			}
			if base, f, ok := FieldLoad(fa.X); ok && (f == G("CPULimit") || f == G("JournalLimit")) && VParam(upd, 0)(base) {
				n++
				c.Guarded(fmt.Sprintf("%s.Group.UpdateQuotaLimits#%s.%s-written<=validated#%d", pkg, f.Name(), fieldOfAddr(fa).Name(), n), upd, st,
					[]Clause{{OkCall("ValidateChange ok", vchg)}, {OkCall("validateQuotasFit ok", fitObj)}}, nil)
			}
		}
	}
	// the fit check sees the request, on the receiver
	for i, cc := range CallSites(upd, fitObj) {
		c.Check(VParam(upd, 0)(cc.Common().Args[0]) && ResolvesToParam(cc.Common().Args[1], upd, 1), fmt.Sprintf("%s.Group.UpdateQuotaLimits#fit-of-the-request#%d", pkg, i+1), cc.Pos(), "grp.validateQuotasFit(resourceLimits)", "validateQuotasFit is not run on the receiver with the requested limits")
	}
	nsg := P.Func(pkg + ".(*Group).NewSubGroup")
	for _, f := range []*types.Var{G("subGroups"), G("SubGroups")} {
		for i, st := range StoresToField(nsg, f) {
			c.Guarded(fmt.Sprintf("%s.Group.NewSubGroup#%s-attached<=validated#%d", pkg, f.Name(), i+1), nsg, st,
				[]Clause{{OkCall("UpdateQuotaLimits ok", updObj)}, {OkCall("validate ok", validateObj)}}, nil)
		}
	}
	// the new sub-group knows its parent before its limits are checked
	pgStores := StoresToField(nsg, G("parentGroup"))
	updCalls := CallSites(nsg, updObj)
	if len(pgStores) == 0 || len(updCalls) != 1 {
		c.Undecided(pkg+".Group.NewSubGroup#parent-set-before-fit", nsg.Pos(), "expected a parentGroup store and one UpdateQuotaLimits call")
	} else {
		c.Before(pkg+".Group.NewSubGroup#parent-set-before-fit", nsg, SinkIs(pgStores[0]), "subGrp.parentGroup = grp", updCalls[0], nil)
		c.Check(VParam(nsg, 0)(pgStores[0].Val), pkg+".Group.NewSubGroup#parent-is-receiver", pgStores[0].Pos(), "parent is the receiver", "the new sub-group's parent is not the group it is created under")
	}
	ng := P.Func(pkg + ".NewGroup")
	for i, r := range ReturnsOf(ng) {
		if IsSuccessReturn(r) {
			c.Guarded(fmt.Sprintf("%s.NewGroup#returned<=validated#%d", pkg, i+1), ng, r, []Clause{{OkCall("UpdateQuotaLimits ok", updObj)}, {OkCall("validate ok", validateObj)}}, nil)
		}
	}

	// ---- R2
	c.Rule("C36-R2", "W", "getQuotaAllocations: reserved += max(sub.limit, sub.reservedByChildren) for memory, cpu, threads; every sub-group visited", 4)
	gqa := P.Func(pkg + ".(*Group).getQuotaAllocations")
	gqaObj := P.FuncObj(pkg + ".(*Group).getQuotaAllocations")
	type res struct{ lim, resv *types.Var }
	resources := []res{{A("MemoryLimit"), A("MemoryReservedByChildren")}, {A("CPULimit"), A("CPUReservedByChildren")}, {A("ThreadsLimit"), A("ThreadsReservedByChildren")}}
	subAlloc := VRes(0, ToFn(gqaObj)) // the sub-group's allocations
	isMax := AnyCall(ToFn(maxI), ToFn(maxQ))
	groupTwin := map[*types.Var]*types.Var{A("MemoryLimit"): G("MemoryLimit"), A("ThreadsLimit"): G("ThreadLimit")}
	for _, r := range resources {
		sts := StoresToField(gqa, r.resv)
		if len(sts) == 0 {
			c.Undecided(fmt.Sprintf("%s.Group.getQuotaAllocations#%s", pkg, r.resv.Name()), gqa.Pos(), "no accumulation found")
			continue
		}
		sawMax, sawLim, sawRes, okAll := false, false, false, true
		for i, st := range sts {
			key := fmt.Sprintf("%s.Group.getQuotaAllocations#%s#%d", pkg, r.resv.Name(), i+1)
			add, ok := Strip(st.Val).(*ssa.BinOp)
			if !ok || add.Op != token.ADD {
				c.Violated(key, st.Pos(), "the children's reservation is not accumulated by addition")
				okAll = false
				continue
			}
			addend := add.Y
			if VField(r.resv)(add.Y) && !VFieldOf(r.resv, subAlloc)(add.Y) {
				addend = add.X
			}
			subLim := VFieldOf(r.lim, subAlloc)
			subRes := VFieldOf(r.resv, subAlloc)
			var leaves []FlowPoint
			phiLeaves(addend, st, &leaves, map[*ssa.Phi]bool{})
			for li, lf := range leaves {
				cc, _, isCall := CallResult(lf.Val)
				switch {
				case isCall && isMax(cc):
					a0, a1 := cc.Common().Args[0], cc.Common().Args[1]
					okArgs := (subLim(a0) && subRes(a1)) || (subLim(a1) && subRes(a0))
					sawMax = sawMax || okArgs
					c.Check(okArgs, fmt.Sprintf("%s-max#%d", key, li+1), st.Pos(), "reserved += max(sub.limit, sub.reservedByChildren)", "the amount charged to the parent is not max(sub-group limit, reserved by the sub-group's children)")
				case subLim(lf.Val):
					sawLim = true
				case subRes(lf.Val):
					sawRes = true
					// reservedByChildren only where this resource's allocation of the sub-group is 0
					isZero := VOr(subLim)
					if tw := groupTwin[r.lim]; tw != nil {
						isZero = VOr(subLim, VField(tw))
					}
					if !c.GuardedFlow(fmt.Sprintf("%s-fallback-only-when-unlimited#%d", key, li+1), gqa, lf, []Clause{{Cmp("sub-group allocation of this resource == 0", isZero, token.EQL, VConstInt(0))}}, nil) {
						okAll = false
					}
				default:
					okAll = false
					c.Violated(fmt.Sprintf("%s-addend#%d", key, li+1), lf.Pos(), "the amount charged to the parent is neither the sub-group's limit, what its children reserve, nor the max of both")
				}
			}
		}
		c.Check(okAll && (sawMax || (sawLim && sawRes)), fmt.Sprintf("%s.Group.getQuotaAllocations#%s-effective-reservation", pkg, r.resv.Name()), sts[0].Pos(), "limit where set, else reserved by children", "the amount charged to the parent for a sub-group is neither max(limit, reservedByChildren) nor a choice keyed on that resource's own allocation being 0: an intermediate group without this limit would hide what its children reserve")
	}
	// recursion over every sub-group
	rec := CallSites(gqa, gqaObj)
	okRec := false
	for _, rl := range LoopsOver(gqa, VFieldOf(G("subGroups"), VParam(gqa, 0))) {
		for _, cc := range rec {
			if rl.Body != nil && rl.Body.Dominates(cc.Block()) {
				okRec = true
				c.SkipsOnlyAcross(pkg+".Group.getQuotaAllocations#every-sub-group", rl, SinkIs(cc), "sub-group allocations gathered", Clause{}, false)
			}
		}
	}
	if !okRec {
		c.Violated(pkg+".Group.getQuotaAllocations#every-sub-group", gqa.Pos(), "getQuotaAllocations does not recurse into every sub-group")
	}

	// ---- R3
	c.Rule("C36-R3", "W+G", "validate{Memory,CPU,Thread}ResourceFit: room = limit - (reservedByChildren - held); held = own | max(own, children)", 15)
	type fit struct {
		fn       string
		lim, rsv *types.Var
		own      func(fn *ssa.Function) func(ssa.Value) bool
	}
	fits := []fit{
		{"validateMemoryResourceFit", A("MemoryLimit"), A("MemoryReservedByChildren"), func(fn *ssa.Function) func(ssa.Value) bool { return VFieldOf(G("MemoryLimit"), VParam(fn, 0)) }},
		{"validateThreadResourceFit", A("ThreadsLimit"), A("ThreadsReservedByChildren"), func(fn *ssa.Function) func(ssa.Value) bool { return VFieldOf(G("ThreadLimit"), VParam(fn, 0)) }},
		{"validateCPUResourceFit", A("CPULimit"), A("CPUReservedByChildren"), func(fn *ssa.Function) func(ssa.Value) bool {
			return VOr(VField(A("CPULimit")), VConstInt(0))
		}},
	}
	for _, ft := range fits {
		fn := P.Func(pkg + ".(*Group)." + ft.fn)
		c.touch(fn)
		own := ft.own(fn)
		// room computation
		var room *ssa.BinOp
		for _, b := range fn.Blocks {
			for _, in := range b.Instrs {
				bo, ok := in.(*ssa.BinOp)
				if !ok || bo.Op != token.SUB || !VField(ft.lim)(bo.X) {
					continue
				}
				if inner, ok := Strip(bo.Y).(*ssa.BinOp); ok && inner.Op == token.SUB && VField(ft.rsv)(inner.X) {
					room = bo
				}
			}
		}
		key := fmt.Sprintf("%s.Group.%s", pkg, ft.fn)
		if room == nil {
			c.Undecided(key+"#room", fn.Pos(), "the computation limit - (reservedByChildren - held) was not found")
			continue
		}
		held := Strip(room.Y).(*ssa.BinOp).Y
		var leaves []FlowPoint
		phiLeaves(held, room, &leaves, map[*ssa.Phi]bool{})
		okHeld := len(leaves) > 0
		why := ""
		// the ancestor whose room is computed: nothing read from its allocations may count as held by this group
		// (only allQuotas[grp.Name] describes this group)
		ownAlloc := func(b ssa.Value) bool {
			b = Strip(b)
			if ex, ok := b.(*ssa.Extract); ok {
				b = ex.Tuple
			}
			lk, ok := b.(*ssa.Lookup)
			return ok && VParam(fn, 1)(lk.X) && VFieldOf(G("Name"), VParam(fn, 0))(lk.Index)
		}
		ofAncestor := func(x ssa.Value) bool {
			b, _, ok := FieldLoad(x)
			if !ok {
				return false
			}
			pt, isPtr := b.Type().Underlying().(*types.Pointer)
			if !isPtr {
				return false
			}
			nt, isNamed := pt.Elem().(*types.Named)
			return isNamed && nt.Obj().Name() == "groupQuotaAllocations" && !ownAlloc(b)
		}
		for _, lf := range leaves {
			v := Strip(lf.Val)
			fromAnc := DependsOn(v, ofAncestor)
			if cc, _, isCall := CallResult(v); isCall && isMax(cc) {
				for _, a := range cc.Common().Args {
					fromAnc = fromAnc || DependsOn(a, ofAncestor)
				}
			}
			if fromAnc {
				okHeld = false
				why = c.P.Pos(lf.Pos()) + " (read from the allocations of another group)"
				continue
			}
			if own(v) {
				continue
			}
			if cc, _, isCall := CallResult(v); isCall && isMax(cc) {
				a0, a1 := cc.Common().Args[0], cc.Common().Args[1]
				ownOrPhi := func(x ssa.Value) bool {
					return own(x) || DependsOn(x, own)
				}
				if (ownOrPhi(a0) && VField(ft.rsv)(a1)) || (ownOrPhi(a1) && VField(ft.rsv)(a0)) {
					continue
				}
			}
			if VField(ft.rsv)(v) && lf.EdgeFrom != nil {
				// inline max: the children's reservation replaces own only where it is larger
				larger := Cmp("children > own", VField(ft.rsv), token.GTR, func(x ssa.Value) bool { return own(x) || DependsOn(x, own) })
				if tryFlowGate(fn, lf, larger) {
					continue
				}
			}
			okHeld = false
			why = c.P.Pos(lf.Pos())
		}
		c.Check(okHeld, key+"#held-is-own-or-max", room.Pos(), "held = own allocation | max(own, reserved by children)", "the share of the ancestor's reservation attributed to this group is not its own allocation or max(own, reserved by its children) (see "+why+"): the ancestor only counts max(limit, children), anything larger over-estimates the room left")
		// request > room refuses
		var refuse []*ssa.BinOp
		for _, b := range fn.Blocks {
			for _, in := range b.Instrs {
				if bo, ok := in.(*ssa.BinOp); ok && (bo.Op == token.GTR || bo.Op == token.LSS) && (Strip(bo.Y) == ssa.Value(room) || Strip(bo.X) == ssa.Value(room)) {
					refuse = append(refuse, bo)
				}
			}
		}
		if len(refuse) != 1 {
			c.Undecided(key+"#refuses-when-over", room.Pos(), fmt.Sprintf("expected one comparison of the request with the room left, found %d", len(refuse)))
		} else {
			cmp := refuse[0]
			over := Atom{Name: "request > room", Match: func(cd Cond) Pol {
				if cd.Bin != cmp {
					return PolNone
				}
				p := PolTrue
				if (cmp.Op == token.LSS) != (Strip(cmp.X) == ssa.Value(room)) {
					// request < room or room > request: not the refusing polarity
					p = PolFalse
				}
				if cd.Neg {
					p = p.Flip()
				}
				return p
			}}
			okR := true
			found := 0
			for _, b := range fn.Blocks {
				for si := range b.Succs {
					if AtomEdges(over)(b, si) {
						found++
						if (ReachQ{Fn: fn, From: &Loc{b.Succs[si], -1}, Sink: IsSuccessReturn}).Run().Found {
							okR = false
						}
					}
				}
			}
			c.Check(okR && found > 0, key+"#refuses-when-over", cmp.Pos(), "request > room => error", "a request larger than the room left in the ancestor is not refused")
		}
		// the amount compared with the room is the REQUEST: computed from the requested limits (and, for a
		// count-less cpu quota, the size of the allowed cpu-set or of the machine), never from the group's
		// current quota
		if len(refuse) == 1 {
			reqV := refuse[0].X
			if Strip(refuse[0].X) == ssa.Value(room) {
				reqV = refuse[0].Y
			}
			getSet := P.FuncObj(pkg + ".(*Group).GetCPUSetQuota")
			numCPU := P.Global(pkg + ".runtimeNumCPU")
			foreign := ""
			DependsOn(reqV, func(v ssa.Value) bool {
				cc, _, isCall := CallResult(v)
				if !isCall {
					if _, f, ok := FieldLoad(Strip(v)); ok && f.Pkg() != nil && (f == G("CPULimit") || f == G("MemoryLimit") || f == G("ThreadLimit")) {
						foreign = "the group's current " + f.Name()
					}
					return false
				}
				if VLen(VRes(0, ToFn(getSet)))(v) || ViaGlobal(numCPU)(cc) {
					return false
				}
				if b, ok := cc.Common().Value.(*ssa.Builtin); ok && b.Name() == "len" {
					return false
				}
				foreign = "a call of " + func() string {
					if co := CalleeOf(cc); co != nil {
						return FuncName(co)
					}
					return "an unknown function"
				}()
				return false
			})
			fromParam := DependsOn(reqV, func(v ssa.Value) bool {
				r := accessRoot(v)
				for i := 1; i < len(fn.Params); i++ {
					if r == ssa.Value(fn.Params[i]) || ResolvesToParam(r, fn, i) {
						return true
					}
				}
				return false
			})
			c.Check(foreign == "" && fromParam, key+"#request-from-requested-limits", refuse[0].Pos(), "the amount checked is computed from the requested limits", "the amount checked against the ancestor's room is not computed from the requested limits alone ("+foreign+"): what is validated differs from what is stored")
		}
		// the walk up the ancestors ends early (break) only once an ancestor with a limit of this very
		// resource has been checked; an ancestor that merely carries another limit must not end it
		if lp := LoopContaining(fn, room); lp != nil {
			limited := Atom{Name: "ancestor has a " + ft.lim.Name(), Match: func(cd Cond) Pol {
				return cd.CmpIs(token.NEQ, VField(ft.lim), VConstInt(0))
			}}
			inLoop := func(b *ssa.BasicBlock) bool {
				return b == lp.Header || (lp.Body != nil && lp.Body.Dominates(b) && blockReaches(b, lp.Header, nil))
			}
			r := ReachQ{Fn: fn, From: &Loc{lp.Header, -1}, CutEdge: func(b *ssa.BasicBlock, s int) bool {
				if AtomEdges(limited)(b, s) {
					return true
				}
				// stay inside one walk: do not follow the back edge, nor paths that have left the loop
				return b.Succs[s] == lp.Header || !inLoop(b)
			}, SinkEdge: func(b *ssa.BasicBlock, s int) bool {
				if b == lp.Header || !inLoop(b) || inLoop(b.Succs[s]) {
					return false
				}
				// leaving the loop from its body towards a success return
				return (ReachQ{Fn: fn, From: &Loc{b.Succs[s], -1}, Sink: IsSuccessReturn}).Run().Found
			}}.Run()
			c.Check(!r.Found, key+"#walk-ends-only-at-limited-ancestor", room.Pos(), "break only after an ancestor with this limit was checked", "the walk up the ancestors can end with success at an ancestor that has no "+ft.lim.Name()+" (e.g. one that only has a cpu-set): a limit set further up is never checked: "+P.PathString(r.Path))
		} else {
			c.Undecided(key+"#walk-ends-only-at-limited-ancestor", room.Pos(), "the loop over the ancestors was not found")
		}
		// children's reservation > request refuses
		okC := false
		for _, b := range fn.Blocks {
			for _, in := range b.Instrs {
				bo, ok := in.(*ssa.BinOp)
				if !ok || bo.Op != token.GTR || !VField(ft.rsv)(bo.X) {
					continue
				}
				at := Atom{Name: "children > request", Match: func(cd Cond) Pol {
					if cd.Bin != bo {
						return PolNone
					}
					if cd.Neg {
						return PolFalse
					}
					return PolTrue
				}}
				for _, b2 := range fn.Blocks {
					for si := range b2.Succs {
						if AtomEdges(at)(b2, si) && !(ReachQ{Fn: fn, From: &Loc{b2.Succs[si], -1}, Sink: IsSuccessReturn}).Run().Found {
							okC = true
						}
					}
				}
			}
		}
		c.Check(okC, key+"#refuses-below-children", fn.Pos(), "reserved by children > request => error", "a limit smaller than what the sub-groups already reserve is not refused")
	}

	// ---- R4
	c.Rule("C36-R4", "G", "validateQuotasFit: allocations from the top-most ancestor; every requested resource checked; errors returned", 9)
	vqf := P.Func(pkg + ".(*Group).validateQuotasFit")
	fRes := func(f string) *types.Var { return P.Field(pkg + ".Resources." + f) }
	checks := []struct {
		fn   string
		skip []Atom
	}{
		{"validateMemoryResourceFit", []Atom{Cmp("Memory==nil", VField(fRes("Memory")), token.EQL, isNilVal)}},
		{"validateCPUResourceFit", []Atom{Cmp("CPU==nil", VField(fRes("CPU")), token.EQL, isNilVal), Cmp("CPU.Percentage==0", VField(P.Field(pkg+".ResourceCPU.Percentage")), token.EQL, VConstInt(0))}},
		{"validateCPUsAllowedResourceFit", []Atom{Cmp("CPUSet==nil", VField(fRes("CPUSet")), token.EQL, isNilVal), Cmp("len(CPUSet.CPUs)==0", VLen(VField(P.Field(pkg+".ResourceCPUSet.CPUs"))), token.EQL, VConstInt(0))}},
		{"validateThreadResourceFit", []Atom{Cmp("Threads==nil", VField(fRes("Threads")), token.EQL, isNilVal)}},
	}
	for _, ck := range checks {
		obj := P.FuncObj(pkg + ".(*Group)." + ck.fn)
		calls := CallSites(vqf, obj)
		key := fmt.Sprintf("%s.Group.validateQuotasFit#%s", pkg, ck.fn)
		if len(calls) != 1 {
			c.Violated(key+"-called", vqf.Pos(), fmt.Sprintf("expected one call of %s, found %d", ck.fn, len(calls)))
			continue
		}
		cc := calls[0]
		c.Check(VParam(vqf, 0)(cc.Common().Args[0]), key+"-on-receiver", cc.Pos(), "checked for the receiver", ck.fn+" is not run on the group being changed")
		r := ReachQ{Fn: vqf, CutEdge: AtomEdges(ck.skip...), CutInstr: func(in ssa.Instruction) bool { return in == cc.(ssa.Instruction) }, Sink: IsSuccessReturn}.Run()
		c.Check(!r.Found, key+"-not-skipped", cc.Pos(), "skipped only when the resource is absent from the request", "validateQuotasFit can accept without running "+ck.fn+" although the resource is requested: "+P.PathString(r.Path))
		failed := Not(OkCall(ck.fn+" ok", obj))
		okProp, found := true, 0
		for _, b := range vqf.Blocks {
			for si := range b.Succs {
				if AtomEdges(failed)(b, si) {
					found++
					if (ReachQ{Fn: vqf, From: &Loc{b.Succs[si], -1}, Sink: IsSuccessReturn}).Run().Found {
						okProp = false
					}
				}
			}
		}
		c.Check(okProp && found > 0, key+"-error-returned", cc.Pos(), "its refusal is returned", "a refusal by "+ck.fn+" does not make validateQuotasFit fail")
	}
	// top-most ancestor
	if calls := CallSites(vqf, gqaObj); len(calls) == 1 {
		cc := calls[0]
		recv := cc.Common().Args[0]
		fParent := G("parentGroup")
		// the walk up may be a helper method: grp.upperMostParent().getQuotaAllocations(...)
		viaHelperTop := false
		var topMost Atom
		if hc, _, isCall := CallResult(recv); isCall {
			if h := hc.Common().StaticCallee(); h != nil && h.Pkg == vqf.Pkg && len(h.Blocks) > 0 && len(hc.Common().Args) == 1 && VParam(vqf, 0)(hc.Common().Args[0]) {
				c.touch(h)
				okTop, okStart, nl := true, true, 0
				for _, hr := range ReturnsOf(h) {
					nl++
					rv := hr.Results[0]
					top := Cmp("upperParent.parentGroup==nil", VFieldOf(fParent, func(v ssa.Value) bool { return v == rv || Strip(v) == Strip(rv) }), token.EQL, isNilVal)
					q := ReachQ{Fn: h, CutEdge: AtomEdges(top), Sink: SinkIs(hr)}
					if CountAtomEdges(h, top) == 0 || q.Run().Found {
						okTop = false
					}
					startsAt := DependsOn(rv, VParam(h, 0)) || ResolvesToParam(rv, h, 0)
					if ph, ok := Strip(rv).(*ssa.Phi); ok && !startsAt {
						for _, e := range ph.Edges {
							if VParam(h, 0)(e) {
								startsAt = true
							}
						}
					}
					okStart = okStart && startsAt
				}
				c.Check(okTop && nl > 0, pkg+".Group.validateQuotasFit#allocations-from-top-most", cc.Pos(), "the helper returns only a group without a parent", "the helper that finds the top-most group can return a group that still has a parent: sibling sub-trees are then left out of the allocations")
				c.Check(okStart && nl > 0, pkg+".Group.validateQuotasFit#walk-starts-at-receiver", cc.Pos(), "the walk up starts at the receiver", "the allocations are not gathered from the receiver's own tree")
				viaHelperTop = true
			}
		}
		if viaHelperTop {
			goto topDone
		}
		topMost = Cmp("upperParent.parentGroup==nil", VFieldOf(fParent, func(v ssa.Value) bool { return v == recv || Strip(v) == Strip(recv) }), token.EQL, isNilVal)
		c.Guarded(pkg+".Group.validateQuotasFit#allocations-from-top-most", vqf, cc, []Clause{{topMost}}, nil)
		c.Check(DependsOn(recv, VParam(vqf, 0)) || ResolvesToParam(recv, vqf, 0) || func() bool {
			ph, ok := Strip(recv).(*ssa.Phi)
			if !ok {
				return false
			}
			for _, e := range ph.Edges {
				if VParam(vqf, 0)(e) {
					return true
				}
			}
			return false
		}(), pkg+".Group.validateQuotasFit#walk-starts-at-receiver", cc.Pos(), "the walk up starts at the receiver", "the allocations are not gathered from the receiver's own tree")
	topDone:
	} else {
		c.Undecided(pkg+".Group.validateQuotasFit#allocations-from-top-most", vqf.Pos(), "expected one getQuotaAllocations call")
	}

	// ---- R5
	c.Rule("C36-R5", "G", "validateCPUsAllowedResourceFit: superset of the children's sets, subset of the nearest ancestor set; the ancestor walk is skipped only when the request narrows the current set", 3)
	vcs := P.Func(pkg + ".(*Group).validateCPUsAllowedResourceFit")
	containsObj := P.FuncObj(pkg + ".contains")
	// subsetParam: for a two-slice predicate h that ranges over one parameter and asks contains(other, elem),
	// the index of the parameter that must be the SUBSET (-1: not such a predicate)
	subsetParam := func(h *ssa.Function) int {
		if h == nil || len(h.Blocks) == 0 {
			return -1
		}
		// closures have no receiver; parameters are the two slices
		if len(h.Params) != 2 {
			return -1
		}
		for k := 0; k < 2; k++ {
			for _, rl := range LoopsOver(h, VParam(h, k)) {
				for _, cc := range CallSites(h, containsObj) {
					if rl.Body != nil && rl.Body.Dominates(cc.Block()) && VParam(h, 1-k)(cc.Common().Args[0]) {
						// it must answer false for a missing element
						for _, lf := range ReturnLeaves(h, 0) {
							if bv, ok := ConstBool(lf.Val); ok && !bv && lf.Instr != nil && rl.Body.Dominates(lf.Instr.Block()) {
								return k
							}
						}
					}
				}
			}
		}
		return -1
	}
	calleeFn := func(ci ssa.CallInstruction) *ssa.Function {
		if ci.Common().IsInvoke() {
			return nil
		}
		if f := StaticFn(ci); f != nil {
			return f
		}
		if mc, ok := Strip(ci.Common().Value).(*ssa.MakeClosure); ok {
			f, _ := mc.Fn.(*ssa.Function)
			return f
		}
		f, _ := Strip(ci.Common().Value).(*ssa.Function)
		return f
	}
	nSubsetPreds := 0
	// subsetCall: a call asking "sub ⊆ sup", whatever the helper's parameter order
	subsetCall := func(sub, sup func(ssa.Value) bool) CallM {
		return func(ci ssa.CallInstruction) bool {
			h := calleeFn(ci)
			if h == nil || len(ci.Common().Args) != 2 {
				return false
			}
			k := subsetParam(h)
			if k < 0 {
				return false
			}
			return sub(ci.Common().Args[k]) && sup(ci.Common().Args[1-k])
		}
	}
	for _, b := range vcs.Blocks {
		for _, in := range b.Instrs {
			if ci, ok := in.(ssa.CallInstruction); ok {
				if h := calleeFn(ci); h != nil && subsetParam(h) >= 0 {
					nSubsetPreds++
				}
			}
		}
	}
	if nSubsetPreds < 3 {
		c.Undecided(pkg+".Group.validateCPUsAllowedResourceFit#containment-tests", vcs.Pos(), fmt.Sprintf("expected three set-containment tests (children, shortcut, ancestor), recognised %d", nSubsetPreds))
		return
	}
	req := VParam(vcs, 2)
	refusesWhenNot := func(name string, m CallM) {
		notSub := TrueRes("!("+name+")", false, 0, m)
		okR, found := true, 0
		for _, b := range vcs.Blocks {
			for si := range b.Succs {
				if AtomEdges(notSub)(b, si) {
					found++
					if (ReachQ{Fn: vcs, From: &Loc{b.Succs[si], -1}, Sink: IsSuccessReturn}).Run().Found {
						okR = false
					}
				}
			}
		}
		c.Check(okR && found > 0, pkg+".Group.validateCPUsAllowedResourceFit#"+name, vcs.Pos(), "containment fails => error", "the cpu-set containment check ("+name+") is missing, has its operands the wrong way round, or does not refuse")
	}
	withinAncestor := subsetCall(req, VField(A("CPUSetLimit")))
	refusesWhenNot("children-within-request", subsetCall(VField(A("CPUSetReservedByChildren")), req))
	refusesWhenNot("request-within-ancestor", withinAncestor)
	// accepting without having looked at the ancestors: only when the request narrows the group's own current set
	localSet := VRes(0, ToFn(P.FuncObj(pkg+".(*Group).GetLocalCPUSetQuota")))
	narrows := TrueRes("request within the group's current set", true, 0, subsetCall(req, localSet))
	noMoreParents := Atom{Name: "no (more) ancestors", Match: func(cd Cond) Pol {
		return cd.CmpIs(token.EQL, func(v ssa.Value) bool {
			_, isPhi := Strip(v).(*ssa.Phi)
			return isPhi && isGroupPtr(v.Type())
		}, isNilVal)
	}}
	checkedAncestor := TrueRes("request within the nearest ancestor set", true, 0, withinAncestor)
	n = 0
	for _, r := range ReturnsOf(vcs) {
		if !IsSuccessReturn(r) {
			continue
		}
		n++
		c.Guarded(fmt.Sprintf("%s.Group.validateCPUsAllowedResourceFit#accepts#%d", pkg, n), vcs, r, []Clause{{narrows, noMoreParents, checkedAncestor}}, nil)
	}
}

func isGroupPtr(t types.Type) bool {
	p, ok := t.(*types.Pointer)
	if !ok {
		return false
	}
	n, ok := p.Elem().(*types.Named)
	return ok && n.Obj().Name() == "Group"
}

// tryFlowGate: every path to the flow point (an edge into a phi) passes an edge establishing a.
func tryFlowGate(fn *ssa.Function, fp FlowPoint, a Atom) bool {
	if fp.EdgeFrom == nil || CountAtomEdges(fn, a) == 0 {
		return false
	}
	cut := AtomEdges(a)
	if cut(fp.EdgeFrom, fp.EdgeSucc) {
		return true
	}
	r := ReachQ{Fn: fn, CutEdge: cut, SinkEdge: func(b *ssa.BasicBlock, s int) bool { return b == fp.EdgeFrom && s == fp.EdgeSucc }}.Run()
	return !r.Found
}

// accessRoot walks a field/element access chain (x.f.g[i], *p) back to the value it starts from.
func accessRoot(v ssa.Value) ssa.Value {
	for i := 0; i < 16 && v != nil; i++ {
		switch x := v.(type) {
		case *ssa.UnOp:
			if x.Op != token.MUL {
				return v
			}
			if al, ok := x.X.(*ssa.Alloc); ok {
				if sv := singleStore(al); sv != nil {
					v = sv
					continue
				}
				return v
			}
			v = x.X
		case *ssa.Alloc:
			// a parameter spilled into a local because its address is taken
			sv := singleStoreIgnoringReaders(x)
			if sv == nil {
				return v
			}
			v = sv
		case *ssa.FieldAddr:
			v = x.X
		case *ssa.Field:
			v = x.X
		case *ssa.IndexAddr:
			v = x.X
		case *ssa.Index:
			v = x.X
		case *ssa.ChangeType:
			v = x.X
		case *ssa.Convert:
			v = x.X
		default:
			return v
		}
	}
	return v
}
