package main

import (
	"go/constant"
	"go/token"
	"go/types"

	"golang.org/x/tools/go/ssa"
)

// ---------- callee resolution ----------

// CalleeOf returns the called function object of a call instruction: the static
// callee, or the interface method for invoke-mode calls; nil for dynamic calls
// through function values.
func CalleeOf(c ssa.CallInstruction) *types.Func {
	cc := c.Common()
	if cc.IsInvoke() {
		return cc.Method
	}
	if sc := cc.StaticCallee(); sc != nil {
		if o, ok := sc.Object().(*types.Func); ok {
			return o.Origin()
		}
		// bound method closure or thunk: $bound / $thunk wrappers
		if sc.Synthetic != "" && len(sc.Blocks) > 0 {
			return nil
		}
	}
	return nil
}

// StaticFn returns the *ssa.Function called (closures made in place included).
func StaticFn(c ssa.CallInstruction) *ssa.Function {
	cc := c.Common()
	if cc.IsInvoke() {
		return nil
	}
	if sc := cc.StaticCallee(); sc != nil {
		return sc
	}
	if mc, ok := cc.Value.(*ssa.MakeClosure); ok {
		return mc.Fn.(*ssa.Function)
	}
	return nil
}

// IsCallTo reports whether instr is a call (or go/defer) of obj.
func IsCallTo(instr ssa.Instruction, objs ...*types.Func) (ssa.CallInstruction, bool) {
	c, ok := instr.(ssa.CallInstruction)
	if !ok {
		return nil, false
	}
	co := CalleeOf(c)
	if co == nil {
		return nil, false
	}
	for _, o := range objs {
		if co == o.Origin() {
			return c, true
		}
	}
	return nil, false
}

// CallArgs returns the arguments excluding the receiver.
func CallArgs(c ssa.CallInstruction) []ssa.Value {
	cc := c.Common()
	if cc.IsInvoke() {
		return cc.Args
	}
	if sc := cc.StaticCallee(); sc != nil && sc.Signature.Recv() != nil && len(cc.Args) > 0 {
		return cc.Args[1:]
	}
	return cc.Args
}

// CallRecv returns the receiver value of a method call (nil for functions).
func CallRecv(c ssa.CallInstruction) ssa.Value {
	cc := c.Common()
	if cc.IsInvoke() {
		return cc.Value
	}
	if sc := cc.StaticCallee(); sc != nil && sc.Signature.Recv() != nil && len(cc.Args) > 0 {
		return cc.Args[0]
	}
	return nil
}

// ---------- look-through ----------

// Strip looks through value-preserving wrappers: conversions, interface boxing,
// single-store local cells, phis whose inputs are all the same value.
func Strip(v ssa.Value) ssa.Value {
	for i := 0; i < 32 && v != nil; i++ {
		switch x := v.(type) {
		case *ssa.Parameter:
			// while a helper is analysed on behalf of one of its calls (liftCtx), its parameters
			// stand for the arguments of that call
			if a := liftArg(x); a != nil {
				v = a
				continue
			}
			return v
		case *ssa.ChangeType:
			v = x.X
		case *ssa.Convert:
			v = x.X
		case *ssa.MakeInterface:
			v = x.X
		case *ssa.ChangeInterface:
			v = x.X
		case *ssa.UnOp:
			if x.Op == token.MUL {
				if s := singleStore(x.X); s != nil {
					v = s
					continue
				}
				// a variable captured by a local closure: the cell is the enclosing function's
				if fv, ok := x.X.(*ssa.FreeVar); ok {
					if b := freeVarBinding(fv); b != nil {
						if s := singleStore(b); s != nil {
							v = s
							continue
						}
					}
				}
				if s := reachingStore(x); s != nil {
					v = s
					continue
				}
			}
			return v
		case *ssa.Phi:
			var only ssa.Value
			same := true
			for _, e := range x.Edges {
				if e == x {
					continue
				}
				if only == nil {
					only = e
				} else if only != e {
					same = false
				}
			}
			if same && only != nil {
				v = only
				continue
			}
			return v
		default:
			return v
		}
	}
	return v
}

// singleStore returns the unique value stored into a local Alloc cell (or nil).
func singleStore(addr ssa.Value) ssa.Value {
	al, ok := addr.(*ssa.Alloc)
	if !ok {
		return nil
	}
	refs := al.Referrers()
	if refs == nil {
		return nil
	}
	var val ssa.Value
	n := 0
	for _, r := range *refs {
		switch s := r.(type) {
		case *ssa.Store:
			if s.Addr == al {
				val = s.Val
				n++
			}
		case *ssa.UnOp, *ssa.DebugRef:
		case *ssa.MakeClosure:
			// captured by a closure: the closure may write it.
			if closureWrites(s, al) {
				return nil
			}
		case *ssa.FieldAddr:
			// &cell.f used only to read the field
			if frefs := s.Referrers(); frefs != nil {
				for _, fr := range *frefs {
					switch fr.(type) {
					case *ssa.UnOp, *ssa.DebugRef:
					default:
						return nil
					}
				}
			}
		default:
			// address escapes (call argument, ...): give up
			return nil
		}
	}
	if n == 1 {
		return val
	}
	return nil
}

func closureWrites(mc *ssa.MakeClosure, al *ssa.Alloc) bool {
	fn := mc.Fn.(*ssa.Function)
	for i, b := range mc.Bindings {
		if b != al {
			continue
		}
		fv := fn.FreeVars[i]
		if refs := fv.Referrers(); refs != nil {
			for _, r := range *refs {
				switch s := r.(type) {
				case *ssa.Store:
					if s.Addr == fv {
						return true
					}
				case *ssa.UnOp, *ssa.DebugRef:
				default:
					return true
				}
			}
		}
	}
	return false
}

// FieldLoad: if v is a load (or direct Field extraction) of a struct field,
// return the base value and the field object.
func FieldLoad(v ssa.Value) (base ssa.Value, f *types.Var, ok bool) {
	v = Strip(v)
	switch x := v.(type) {
	case *ssa.UnOp:
		if x.Op == token.MUL {
			if fa, ok := x.X.(*ssa.FieldAddr); ok {
				return fa.X, fieldOfAddr(fa), true
			}
		}
	case *ssa.Field:
		st := x.X.Type().Underlying().(*types.Struct)
		return x.X, st.Field(x.Field), true
	}
	return nil, nil, false
}

func fieldOfAddr(fa *ssa.FieldAddr) *types.Var {
	pt := fa.X.Type().Underlying().(*types.Pointer)
	st := pt.Elem().Underlying().(*types.Struct)
	return st.Field(fa.Field)
}

// IsFieldLoad reports whether v is a load of field f (any base).
func IsFieldLoad(v ssa.Value, f *types.Var) bool {
	_, g, ok := FieldLoad(v)
	return ok && g == f
}

// IsParam reports whether v is (a look-through of) parameter i of fn (receiver = 0 for methods).
func IsParam(v ssa.Value, fn *ssa.Function, i int) bool {
	v = Strip(v)
	return i < len(fn.Params) && v == ssa.Value(fn.Params[i])
}

// ConstString returns the constant string value of v.
func ConstString(v ssa.Value) (string, bool) {
	v = Strip(v)
	if c, ok := v.(*ssa.Const); ok && c.Value != nil && c.Value.Kind() == constant.String {
		return constant.StringVal(c.Value), true
	}
	return "", false
}

func ConstInt(v ssa.Value) (int64, bool) {
	v = Strip(v)
	if c, ok := v.(*ssa.Const); ok && c.Value != nil && c.Value.Kind() == constant.Int {
		i, ok := constant.Int64Val(c.Value)
		return i, ok
	}
	return 0, false
}

func IsNilConst(v ssa.Value) bool {
	c, ok := v.(*ssa.Const)
	return ok && c.Value == nil
}

func ConstBool(v ssa.Value) (bool, bool) {
	if c, ok := v.(*ssa.Const); ok && c.Value != nil && c.Value.Kind() == constant.Bool {
		return constant.BoolVal(c.Value), true
	}
	return false, false
}

// CallResult: if v is result i of a call (directly for single results or via
// Extract), return the call and the index.
func CallResult(v ssa.Value) (ssa.CallInstruction, int, bool) {
	v = Strip(v)
	switch x := v.(type) {
	case *ssa.Call:
		return x, 0, true
	case *ssa.Extract:
		if c, ok := x.Tuple.(*ssa.Call); ok {
			return c, x.Index, true
		}
	}
	return nil, 0, false
}

// IsResultOf reports whether v is (any / the idx-th, idx<0 = any) result of a call to one of objs.
func IsResultOf(v ssa.Value, idx int, objs ...*types.Func) bool {
	c, i, ok := CallResult(v)
	if !ok {
		return false
	}
	if idx >= 0 && i != idx {
		return false
	}
	_, is := IsCallTo(c, objs...)
	return is
}

// ---------- conditions and atoms ----------

type Pol int

const (
	PolNone  Pol = 0
	PolTrue  Pol = 1  // the atom holds on the true edge
	PolFalse Pol = -1 // the atom holds on the false edge
)

func (p Pol) Flip() Pol { return -p }

// Cond is a branch condition in normal form: negations stripped into Neg.
type Cond struct {
	Neg  bool
	Bin  *ssa.BinOp // comparison, or nil
	Val  ssa.Value  // the (stripped) boolean value when not a comparison
	Orig ssa.Value
}

func Decompose(v ssa.Value) Cond {
	c := Cond{Orig: v}
	for {
		if u, ok := v.(*ssa.UnOp); ok && u.Op == token.NOT {
			c.Neg = !c.Neg
			v = u.X
			continue
		}
		break
	}
	if b, ok := v.(*ssa.BinOp); ok {
		switch b.Op {
		case token.EQL, token.NEQ, token.LSS, token.LEQ, token.GTR, token.GEQ:
			c.Bin = b
			return c
		}
	}
	c.Val = v
	return c
}

var negOp = map[token.Token]token.Token{token.EQL: token.NEQ, token.NEQ: token.EQL, token.LSS: token.GEQ, token.GEQ: token.LSS, token.GTR: token.LEQ, token.LEQ: token.GTR}
var swapOp = map[token.Token]token.Token{token.EQL: token.EQL, token.NEQ: token.NEQ, token.LSS: token.GTR, token.GTR: token.LSS, token.LEQ: token.GEQ, token.GEQ: token.LEQ}

// CmpIs decides whether the condition is equivalent to (L op R) [PolTrue] or to
// its negation [PolFalse], for value predicates L and R, whichever way round the
// source wrote it.
func (c Cond) CmpIs(op token.Token, L, R func(ssa.Value) bool) Pol {
	if c.Bin == nil {
		return PolNone
	}
	try := func(x, y ssa.Value, o token.Token) Pol {
		if !L(x) || !R(y) {
			return PolNone
		}
		// a length is never negative: len(x) > 0 is len(x) != 0, len(x) <= 0 is len(x) == 0
		op := op
		if k, isC := ConstInt(y); isC && k == 0 && VLen(func(ssa.Value) bool { return true })(x) {
			norm := func(t token.Token) token.Token {
				switch t {
				case token.GTR:
					return token.NEQ
				case token.LEQ:
					return token.EQL
				}
				return t
			}
			o, op = norm(o), norm(op)
		}
		if o == op {
			return PolTrue
		}
		if negOp[o] == op {
			return PolFalse
		}
		return PolNone
	}
	p := try(c.Bin.X, c.Bin.Y, c.Bin.Op)
	if p == PolNone {
		p = try(c.Bin.Y, c.Bin.X, swapOp[c.Bin.Op])
	}
	if c.Neg {
		p = p.Flip()
	}
	return p
}

// BoolIs decides whether the condition is the boolean value matched by M
// [PolTrue when the value being true is the true edge].
func (c Cond) BoolIs(M func(ssa.Value) bool) Pol {
	if c.Val == nil || !M(c.Val) {
		// also accept `v == true/false` comparisons
		if c.Bin != nil && (c.Bin.Op == token.EQL || c.Bin.Op == token.NEQ) {
			for _, pr := range [][2]ssa.Value{{c.Bin.X, c.Bin.Y}, {c.Bin.Y, c.Bin.X}} {
				if b, ok := ConstBool(pr[1]); ok && M(pr[0]) {
					p := PolTrue
					if !b {
						p = p.Flip()
					}
					if c.Bin.Op == token.NEQ {
						p = p.Flip()
					}
					if c.Neg {
						p = p.Flip()
					}
					return p
				}
			}
		}
		return PolNone
	}
	if c.Neg {
		return PolFalse
	}
	return PolTrue
}

// Atom names a fact established by a branch outcome.
type Atom struct {
	Name  string
	Match func(c Cond) Pol // polarity on which the atom HOLDS
}

// Not returns the complementary atom.
func Not(a Atom) Atom {
	return Atom{Name: "!(" + a.Name + ")", Match: func(c Cond) Pol { return a.Match(c).Flip() }}
}

func anyVal(ssa.Value) bool     { return true }
func isNilVal(v ssa.Value) bool { return IsNilConst(v) }

// ErrNil: "the error value matched by M is nil".
func ErrNil(name string, M func(ssa.Value) bool) Atom {
	return Atom{Name: name, Match: func(c Cond) Pol { return c.CmpIs(token.EQL, M, isNilVal) }}
}

// OkCall: "the error result of a call to one of objs is nil".
func OkCall(name string, objs ...*types.Func) Atom {
	return ErrNil(name, func(v ssa.Value) bool { return isErrResultOf(v, objs...) })
}

func isErrResultOf(v ssa.Value, objs ...*types.Func) bool {
	c, i, ok := CallResult(v)
	if !ok {
		return false
	}
	if _, is := IsCallTo(c, objs...); !is {
		return false
	}
	res := c.Common().Signature().Results()
	if i >= res.Len() {
		return false
	}
	return isErrorType(res.At(i).Type())
}

func isErrorType(t types.Type) bool {
	if n, ok := t.(*types.Named); ok && n.Obj().Pkg() == nil && n.Obj().Name() == "error" {
		return true
	}
	return false
}

// BoolCall: "a call to one of objs returned want".
func BoolCall(name string, want bool, objs ...*types.Func) Atom {
	return Atom{Name: name, Match: func(c Cond) Pol {
		p := c.BoolIs(func(v ssa.Value) bool { return IsResultOf(v, -1, objs...) })
		if !want {
			p = p.Flip()
		}
		return p
	}}
}

// Cmp: "(L op R)".
func Cmp(name string, L func(ssa.Value) bool, op token.Token, R func(ssa.Value) bool) Atom {
	return Atom{Name: name, Match: func(c Cond) Pol { return c.CmpIs(op, L, R) }}
}

// value predicate helpers
func VConstInt(n int64) func(ssa.Value) bool {
	return func(v ssa.Value) bool { i, ok := ConstInt(v); return ok && i == n }
}
func VConstStr(s string) func(ssa.Value) bool {
	return func(v ssa.Value) bool { x, ok := ConstString(v); return ok && x == s }
}
func VField(f *types.Var) func(ssa.Value) bool {
	return func(v ssa.Value) bool { return IsFieldLoad(v, f) }
}
func VResult(idx int, objs ...*types.Func) func(ssa.Value) bool {
	return func(v ssa.Value) bool { return IsResultOf(v, idx, objs...) }
}
func VGlobal(g *ssa.Global) func(ssa.Value) bool {
	return func(v ssa.Value) bool {
		v = Strip(v)
		if u, ok := v.(*ssa.UnOp); ok && u.Op == token.MUL {
			return u.X == ssa.Value(g)
		}
		return false
	}
}
func VConstObj(c *types.Const) func(ssa.Value) bool {
	return func(v ssa.Value) bool {
		v = Strip(v)
		k, ok := v.(*ssa.Const)
		return ok && k.Value != nil && k.Value.Kind() == c.Val().Kind() && constant.Compare(k.Value, token.EQL, c.Val())
	}
}
func VLen(M func(ssa.Value) bool) func(ssa.Value) bool {
	return func(v ssa.Value) bool {
		v = Strip(v)
		if c, ok := v.(*ssa.Call); ok {
			if b, ok := c.Call.Value.(*ssa.Builtin); ok && b.Name() == "len" {
				return M(c.Call.Args[0])
			}
		}
		return false
	}
}
func VOr(ms ...func(ssa.Value) bool) func(ssa.Value) bool {
	return func(v ssa.Value) bool {
		for _, m := range ms {
			if m(v) {
				return true
			}
		}
		return false
	}
}

// ---------- call matchers ----------

// CallM matches call instructions.
type CallM func(ssa.CallInstruction) bool

func ToFn(objs ...*types.Func) CallM {
	return func(c ssa.CallInstruction) bool { _, ok := IsCallTo(c, objs...); return ok }
}

// ViaGlobal matches calls through a package-level function variable (the repo's
// mockable indirection `var f = fImpl`).
func ViaGlobal(gs ...*ssa.Global) CallM {
	return func(c ssa.CallInstruction) bool {
		cc := c.Common()
		if cc.IsInvoke() {
			return false
		}
		for _, g := range gs {
			if VGlobal(g)(cc.Value) {
				return true
			}
		}
		return false
	}
}

func AnyCall(ms ...CallM) CallM {
	return func(c ssa.CallInstruction) bool {
		for _, m := range ms {
			if m(c) {
				return true
			}
		}
		return false
	}
}

// VRes: value is result idx (any when <0) of a call matched by m.
func VRes(idx int, m CallM) func(ssa.Value) bool {
	return func(v ssa.Value) bool {
		c, i, ok := CallResult(v)
		return ok && (idx < 0 || i == idx) && m(c)
	}
}

// NilRes: "result idx of the call matched by m is nil".
func NilRes(name string, idx int, m CallM) Atom {
	return Atom{Name: name, Match: func(c Cond) Pol { return c.CmpIs(token.EQL, VRes(idx, m), isNilVal) }}
}

// TrueRes: "the boolean result idx of the call matched by m is `want`".
func TrueRes(name string, want bool, idx int, m CallM) Atom {
	return Atom{Name: name, Match: func(c Cond) Pol {
		p := c.BoolIs(VRes(idx, m))
		if !want {
			p = p.Flip()
		}
		return p
	}}
}

func SinkCallM(m CallM) func(ssa.Instruction) bool {
	return func(in ssa.Instruction) bool {
		c, ok := in.(ssa.CallInstruction)
		return ok && m(c)
	}
}

// CallsMatching lists the call instructions of fn matched by m.
func CallsMatching(fn *ssa.Function, m CallM) []ssa.CallInstruction {
	var out []ssa.CallInstruction
	for _, b := range fn.Blocks {
		for _, in := range b.Instrs {
			if c, ok := in.(ssa.CallInstruction); ok && m(c) {
				out = append(out, c)
			}
		}
	}
	return out
}

// VParam: value is parameter i of fn.
func VParam(fn *ssa.Function, i int) func(ssa.Value) bool {
	return func(v ssa.Value) bool { return IsParam(v, fn, i) }
}

// VFieldOf: load of field f whose base satisfies B.
func VFieldOf(f *types.Var, B func(ssa.Value) bool) func(ssa.Value) bool {
	return func(v ssa.Value) bool {
		base, g, ok := FieldLoad(v)
		return ok && g == f && B(base)
	}
}

// CallWhere refines a call matcher with predicates on its (full) argument list
// positions (receiver included for static method calls) .
func CallWhere(m CallM, argIdx int, pred func(ssa.Value) bool) CallM {
	return func(c ssa.CallInstruction) bool {
		if !m(c) {
			return false
		}
		a := c.Common().Args
		return argIdx < len(a) && pred(a[argIdx])
	}
}

// RecvWhere refines an invoke-mode (or static method) call matcher with a receiver predicate.
func RecvWhere(m CallM, pred func(ssa.Value) bool) CallM {
	return func(c ssa.CallInstruction) bool {
		if !m(c) {
			return false
		}
		r := CallRecv(c)
		return r != nil && pred(r)
	}
}

// DynCallOf matches dynamic calls whose callee value satisfies pred.
func DynCallOf(pred func(ssa.Value) bool) CallM {
	return func(c ssa.CallInstruction) bool {
		cc := c.Common()
		if cc.IsInvoke() || cc.StaticCallee() != nil {
			return false
		}
		return pred(cc.Value)
	}
}

func VIs(x ssa.Value) func(ssa.Value) bool {
	return func(v ssa.Value) bool { return x != nil && Strip(v) == Strip(x) }
}

// VSelfOrEmbedded: the value satisfies pred, or is the address of an embedded
// field of a value satisfying pred (receivers of promoted methods).
func VSelfOrEmbedded(pred func(ssa.Value) bool) func(ssa.Value) bool {
	return func(v ssa.Value) bool {
		for i := 0; i < 4; i++ {
			if pred(v) {
				return true
			}
			switch x := Strip(v).(type) {
			case *ssa.FieldAddr:
				if !fieldOfAddr(x).Embedded() {
					return false
				}
				v = x.X
			case *ssa.Field:
				v = x.X
			default:
				return false
			}
		}
		return false
	}
}

// reachingStore resolves a load from a multi-store local cell (typically a named
// result such as `err` that lives in memory because of a defer) to the value of
// the store that reaches it, when that store is found by walking straight back
// through the load's block and its unique-predecessor chain with no intervening
// call that could run a closure writing the cell.
func reachingStore(ld *ssa.UnOp) ssa.Value {
	al, ok := ld.X.(*ssa.Alloc)
	if !ok {
		return nil
	}
	if _, ok := cellStores(al); !ok {
		// a closure writes the cell or its address escapes: only resolve when no call intervenes
		if !onlyClosureWriters(al) {
			return nil
		}
	}
	captured := false
	if refs := al.Referrers(); refs != nil {
		for _, r := range *refs {
			if mc, ok := r.(*ssa.MakeClosure); ok && closureWrites(mc, al) {
				captured = true
			}
		}
	}
	b := ld.Block()
	idx := -1
	for i, in := range b.Instrs {
		if in == ssa.Instruction(ld) {
			idx = i
			break
		}
	}
	for depth := 0; depth < 8 && b != nil; depth++ {
		for i := idx - 1; i >= 0; i-- {
			switch x := b.Instrs[i].(type) {
			case *ssa.Store:
				if x.Addr == ssa.Value(al) {
					return x.Val
				}
			case *ssa.Call:
				if captured {
					// a call might invoke the writing closure only if it is handed to it; deferred
					// closures run at function exit.  Be conservative for direct closure calls.
					if _, isMC := x.Call.Value.(*ssa.MakeClosure); isMC {
						return nil
					}
				}
			}
		}
		if len(b.Preds) != 1 {
			return nil
		}
		b = b.Preds[0]
		idx = len(b.Instrs)
	}
	return nil
}

func onlyClosureWriters(al *ssa.Alloc) bool {
	if al.Referrers() == nil {
		return false
	}
	for _, r := range *al.Referrers() {
		switch s := r.(type) {
		case *ssa.Store:
			if s.Addr != ssa.Value(al) {
				return false
			}
		case *ssa.UnOp, *ssa.DebugRef, *ssa.MakeClosure:
		default:
			return false
		}
	}
	return true
}

// ResolvesToParam reports whether v (possibly inside a closure of fn, reading a
// captured variable) is parameter idx of the enclosing function fn.
func ResolvesToParam(v ssa.Value, fn *ssa.Function, idx int) bool {
	if IsParam(v, fn, idx) {
		return true
	}
	v = Strip(v)
	u, ok := v.(*ssa.UnOp)
	if !ok || u.Op != token.MUL {
		return false
	}
	fv, ok := u.X.(*ssa.FreeVar)
	if !ok {
		return false
	}
	cl := fv.Parent()
	par := cl.Parent()
	if par == nil {
		return false
	}
	fvIdx := -1
	for i, f := range cl.FreeVars {
		if f == fv {
			fvIdx = i
		}
	}
	for _, b := range par.Blocks {
		for _, in := range b.Instrs {
			mc, ok := in.(*ssa.MakeClosure)
			if !ok || mc.Fn != ssa.Value(cl) || fvIdx < 0 {
				continue
			}
			bind := mc.Bindings[fvIdx]
			if al, ok := bind.(*ssa.Alloc); ok {
				if sv := singleStoreIgnoringReaders(al); sv != nil {
					if par == fn {
						return IsParam(sv, fn, idx)
					}
				}
			}
			if par != fn {
				// nested closure: the binding is itself a free variable of the parent
				if pfv, ok := bind.(*ssa.FreeVar); ok {
					_ = pfv
				}
			}
		}
	}
	return false
}

// singleStoreIgnoringReaders: the unique value stored into a cell that closures only read.
func singleStoreIgnoringReaders(al *ssa.Alloc) ssa.Value {
	if al.Referrers() == nil {
		return nil
	}
	var val ssa.Value
	n := 0
	for _, r := range *al.Referrers() {
		switch s := r.(type) {
		case *ssa.Store:
			if s.Addr == ssa.Value(al) {
				val = s.Val
				n++
			}
		case *ssa.MakeClosure:
			if closureWrites(s, al) {
				return nil
			}
		}
	}
	if n == 1 {
		return val
	}
	return nil
}

// TypeIs: "the dynamic type of the interface value matched by X is T" (comma-ok type
// assertion or type-switch arm).
func TypeIs(name string, X func(ssa.Value) bool, T types.Type) Atom {
	return Atom{Name: name, Match: func(c Cond) Pol {
		return c.BoolIs(func(v ssa.Value) bool {
			ex, ok := v.(*ssa.Extract)
			if !ok || ex.Index != 1 {
				return false
			}
			ta, ok := ex.Tuple.(*ssa.TypeAssert)
			return ok && ta.CommaOk && types.Identical(ta.AssertedType, T) && X(ta.X)
		})
	}}
}

// freeVarBinding returns the value bound to the free variable where its closure is created (the
// address of the captured variable), when the closure is created at exactly one place.
func freeVarBinding(fv *ssa.FreeVar) ssa.Value {
	cl := fv.Parent()
	if cl == nil || cl.Parent() == nil {
		return nil
	}
	idx := -1
	for i, f := range cl.FreeVars {
		if f == fv {
			idx = i
		}
	}
	if idx < 0 {
		return nil
	}
	var bound ssa.Value
	n := 0
	for _, b := range cl.Parent().Blocks {
		for _, in := range b.Instrs {
			if mc, ok := in.(*ssa.MakeClosure); ok && mc.Fn == ssa.Value(cl) && idx < len(mc.Bindings) {
				bound = mc.Bindings[idx]
				n++
			}
		}
	}
	if n != 1 {
		return nil
	}
	return bound
}
