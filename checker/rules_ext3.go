package main

// Rules added after the third round of seeded changes (DESIGN.md section 12.3).

import (
	"fmt"
	"go/token"
	"go/types"
	"strings"

	"golang.org/x/tools/go/ssa"
)

func runC02z(c *Ctx) {
	P := c.P
	c.Rule("C02-R8", "W", "the dependency getters of a task (WaitTasks, HaltTasks, NumHaltTasks) resolve the edges afresh on every call: they store nothing on the task, so edges added to a running change (task injection) are seen at once", 3)
	for _, name := range []string{"WaitTasks", "HaltTasks", "NumHaltTasks"} {
		fn := P.Func("overlord/state.(*Task)." + name)
		c.touch(fn)
		var stores []string
		for _, b := range fn.Blocks {
			for _, in := range b.Instrs {
				if st, ok := in.(*ssa.Store); ok {
					if fa, ok := st.Addr.(*ssa.FieldAddr); ok && VParam(fn, 0)(fa.X) {
						stores = append(stores, fieldOfAddr(fa).Name())
					}
				}
			}
		}
		c.Check(len(stores) == 0, "overlord/state.(*Task)."+name+"#no-caching", fn.Pos(), "reads only", fmt.Sprintf("Task.%s writes task fields %v: a cached answer goes stale when tasks are injected into a running change, and mustWait lets an undo start while a dependant is still running", name, stores))
	}
}

func runC03z(c *Ctx) {
	P := c.P
	c.Rule("C03-R10", "L", "Change.Err reports every task in Error status: the loop over the tasks passes over a task only when its status is not Error, and every ERROR log line of a failed task is appended", 2)
	fn := P.Func("overlord/state.(*Change).Err")
	fIDs := P.Field("overlord/state.Change.taskIDs")
	loops := LoopsOver(fn, VField(fIDs))
	if len(loops) != 1 {
		c.Undecided("overlord/state.(*Change).Err#task-loop", fn.Pos(), fmt.Sprintf("expected one loop over c.taskIDs, found %d", len(loops)))
		return
	}
	statusObj := P.FuncObj("overlord/state.(*Task).Status")
	logObj := P.FuncObj("overlord/state.(*Task).Log")
	notErr := Cmp("task.Status()!=ErrorStatus", VRes(0, ToFn(statusObj)), token.NEQ, VConstObj(P.Const("overlord/state.ErrorStatus")))
	// the outer loop advances only across a non-Error status or after having walked the task's log
	outer := loops[0]
	logLoops := LoopsOver(fn, VRes(0, ToFn(logObj)))
	if len(logLoops) != 1 {
		c.Undecided("overlord/state.(*Change).Err#log-loop", fn.Pos(), "expected one loop over task.Log()")
		return
	}
	inner := logLoops[0]
	r := ReachQ{Fn: fn, From: &Loc{outer.Body, -1}, CutEdge: AtomEdges(notErr),
		CutInstr: func(in ssa.Instruction) bool { return in.Block() == inner.Header },
		SinkEdge: func(b *ssa.BasicBlock, s int) bool { return b.Succs[s] == outer.Header }}.Run()
	c.Check(!r.Found, "overlord/state.(*Change).Err#every-failed-task-examined", outer.Body.Instrs[0].Pos(), "a task in Error always has its log walked", "Change.Err can pass over a task in Error status without looking at its log: "+P.PathString(r.Path))
	// inside the log loop an ERROR line is dropped only when stripErrorMsg says it is not one
	strip := P.FuncObj("overlord/state.stripErrorMsg")
	isErrLine := TrueRes("stripErrorMsg ok", true, 1, ToFn(strip))
	var app ssa.Instruction
	for _, b := range fn.Blocks {
		if inner.Body == nil || !inner.Body.Dominates(b) {
			continue
		}
		for _, in := range b.Instrs {
			if cc, ok := in.(*ssa.Call); ok {
				if bi, ok := cc.Call.Value.(*ssa.Builtin); ok && bi.Name() == "append" {
					app = cc
				}
			}
		}
	}
	if app == nil {
		c.Violated("overlord/state.(*Change).Err#error-lines-kept", fn.Pos(), "the ERROR lines of failed tasks are no longer collected")
		return
	}
	r2 := ReachQ{Fn: fn, From: &Loc{inner.Body, -1}, CutEdge: AtomEdges(Not(isErrLine)),
		CutInstr: func(in ssa.Instruction) bool { return in == app },
		SinkEdge: func(b *ssa.BasicBlock, s int) bool { return b.Succs[s] == inner.Header }}.Run()
	c.Check(!r2.Found, "overlord/state.(*Change).Err#error-lines-kept", app.Pos(), "every ERROR line is appended", "an ERROR log line of a failed task can be left out of the change's error (e.g. because another task logged the same text): "+P.PathString(r2.Path))
}

func runC06z(c *Ctx) {
	P := c.P
	pkg := "osutil"
	c.Rule("C06-R8", "K+G", "what is written to an AtomicFile goes straight to the temporary file (its Write is os.File's own, nothing is buffered past the fsync in commit); AtomicWriteChown succeeds only if Commit did (no fallback that writes the destination in place)", 2)
	at := P.NamedType(pkg + ".AtomicFile")
	ms := types.NewMethodSet(types.NewPointer(at))
	var bad []string
	for _, name := range []string{"Write", "WriteString", "ReadFrom", "WriteAt"} {
		sel := ms.Lookup(nil, name)
		if sel == nil {
			sel = ms.Lookup(at.Obj().Pkg(), name)
		}
		if sel == nil {
			continue
		}
		if f, ok := sel.Obj().(*types.Func); ok && (f.Pkg() == nil || f.Pkg().Path() != "os") {
			bad = append(bad, name)
		}
	}
	c.Check(len(bad) == 0, pkg+".AtomicFile#writes-unbuffered", at.Obj().Pos(), "Write/WriteString/ReadFrom are os.File's", fmt.Sprintf("AtomicFile declares its own %v: data can sit in a buffer when commit() calls Sync, reaching the temporary file only after the fsync and just before the rename", bad))
	awc := P.Func(pkg + ".AtomicWriteChown")
	commit := P.FuncObj(pkg + ".(*AtomicFile).Commit")
	n := 0
	for _, lf := range ReturnLeaves(awc, 0) {
		// `return aw.Commit()` is its own verdict
		if cc, _, ok := CallResult(lf.Val); ok {
			if _, is := IsCallTo(cc, commit); is {
				n++
				c.Holds(fmt.Sprintf("%s.AtomicWriteChown#success<=Commit#%d", pkg, n), lf.Pos(), "returns Commit's verdict")
			}
		}
	}
	for _, r := range ReturnsOf(awc) {
		if !IsSuccessReturn(r) {
			continue
		}
		if cc, _, ok := CallResult(Strip(r.Results[0])); ok {
			if _, is := IsCallTo(cc, commit); is {
				continue
			}
		}
		leavesOK := true
		for _, lf := range ReturnLeaves(awc, 0) {
			if lf.Instr == ssa.Instruction(r) && !IsNilConst(lf.Val) {
				leavesOK = false
			}
		}
		if !leavesOK {
			continue
		}
		n++
		c.Guarded(fmt.Sprintf("%s.AtomicWriteChown#success<=Commit#%d", pkg, n), awc, r, []Clause{{OkCall("Commit ok", commit)}}, nil)
	}
	if n == 0 {
		c.Undecided(pkg+".AtomicWriteChown#success", awc.Pos(), "no accepting return found")
	}
	// every verdict is that of creating the temporary file, copying into it, or committing it
	newAF := P.FuncObj(pkg + ".NewAtomicFile")
	ioCopy := P.FuncObj("io.Copy")
	var foreign []string
	for _, lf := range ReturnLeaves(awc, 0) {
		if IsNilConst(lf.Val) {
			continue
		}
		cc, _, ok := CallResult(lf.Val)
		if !ok {
			// a phi of such results resolved by ReturnLeaves, or the err cell: accept values depending on them
			if DependsOn(lf.Val, func(v ssa.Value) bool {
				c2, _, k := CallResult(v)
				_, is := IsCallTo(c2, newAF, ioCopy, commit)
				return k && is
			}) {
				continue
			}
			foreign = append(foreign, "a computed value at "+P.Pos(lf.Pos()))
			continue
		}
		if _, is := IsCallTo(cc, newAF, ioCopy, commit); !is {
			name := "?"
			if co := CalleeOf(cc); co != nil {
				name = FuncName(co)
			}
			foreign = append(foreign, name)
		}
	}
	c.Check(len(foreign) == 0, pkg+".AtomicWriteChown#verdict-is-commit's", awc.Pos(), "the result is NewAtomicFile's, io.Copy's or Commit's", fmt.Sprintf("AtomicWriteChown can return the verdict of %v: a path that puts the content in place other than by Commit (temporary file, fsync, rename) writes the destination in place", foreign))
}

func runC10z(c *Ctx) {
	P := c.P
	pkg := "overlord/snapstate"
	c.Rule("C10-R10", "O", "undoLinkSnap puts the configuration of the previously current revision back on every path that writes the snap state (doLinkSnap replaces the configuration for refreshes and for reverts alike)", 1)
	ul := P.Func(pkg + ".(*SnapManager).undoLinkSnap")
	restore := P.FuncObj("overlord/configstate/config.RestoreRevisionConfig")
	deleteCfg := P.FuncObj("overlord/configstate/config.DeleteSnapConfig")
	setObj := P.FuncObj(pkg + ".Set")
	sets := CallSites(ul, setObj)
	if len(sets) == 0 || len(CallSites(ul, restore)) == 0 {
		c.Undecided(pkg+".(*SnapManager).undoLinkSnap#config-restored", ul.Pos(), "RestoreRevisionConfig or Set not found")
		return
	}
	for i, s := range sets {
		c.Before(fmt.Sprintf("%s.(*SnapManager).undoLinkSnap#config-restored-before-state-write#%d", pkg, i+1), ul, SinkCall(restore, deleteCfg), "config.RestoreRevisionConfig(st, name, oldCurrent) (or DeleteSnapConfig for a first install)", s, nil)
	}
}

func runC14z(c *Ctx) {
	P := c.P
	pkg := "overlord/snapstate"
	c.Rule("C14-R10", "L", "applyAutoAliasesDelta checks each snap for conflicts on its own (inside its loop over the snaps): a check of all names at once reports only the first busy snap", 1)
	fn := P.Func(pkg + ".applyAutoAliasesDelta")
	many := P.FuncObj(pkg + ".CheckChangeConflictMany")
	one := P.FuncObj(pkg + ".checkChangeConflictIgnoringOneChange")
	one2 := P.FuncObj(pkg + ".CheckChangeConflict")
	var loops []*RangeLoop
	loops = append(loops, LoopsOver(fn, VParam(fn, 1))...)
	if len(loops) == 0 {
		c.Undecided(pkg+".applyAutoAliasesDelta#per-snap-check", fn.Pos(), "the loop over the snaps was not found")
		return
	}
	ok := false
	for _, cc := range CallSites(fn, one, one2) {
		for _, rl := range loops {
			if rl.Body != nil && rl.Body.Dominates(cc.Block()) {
				ok = true
			}
		}
	}
	c.Check(ok && len(CallSites(fn, many)) == 0, pkg+".applyAutoAliasesDelta#per-snap-check", fn.Pos(), "one conflict check per snap", "applyAutoAliasesDelta no longer checks every snap for conflicts by itself: in a refresh of everything only the first busy snap is skipped, the others get alias tasks although another change is operating on them")
	_ = strings.TrimSpace
}

// runC18z: the rule behind finding F17.
func runC18z(c *Ctx) {
	P := c.P
	pkg := "asserts"
	c.Rule("C18-R8", "G", "signature verification asks whether the digest algorithm named by the signature packet is available before instantiating it (crypto.Hash.New panics otherwise): a signature with an exotic digest id is refused with an error", 1)
	vf := P.Func(pkg + ".(*openpgpPubKey).verify")
	hashNew := P.FuncObj("crypto.Hash.New")
	avail := P.FuncObj("crypto.Hash.Available")
	calls := CallSites(vf, hashNew)
	if len(calls) == 0 {
		c.Undecided(pkg+".(*openpgpPubKey).verify#digest-available", vf.Pos(), "sig.Hash.New() not found")
		return
	}
	for i, cc := range calls {
		c.Guarded(fmt.Sprintf("%s.(*openpgpPubKey).verify#digest-available-before-use#%d", pkg, i+1), vf, cc, []Clause{{TrueRes("sig.Hash.Available()", true, 0, ToFn(avail))}}, &GOpt{NoVacuity: true})
	}
}

// runC05z: the rule behind known finding F16.
func runC05z(c *Ctx) {
	P := c.P
	c.Rule("C05-R7", "G", "customData.set keeps no entry whose JSON form is null (a typed nil pointer): such an entry is there until the state is saved and gone once it is loaded again, so Has/Get answer differently before and after a restart", 1)
	set := P.Func("overlord/state.customData.set")
	marshal := P.FuncObj("encoding/json.Marshal")
	isSerialized := func(v ssa.Value) bool {
		return DependsOnCall(v, marshal, func([]ssa.Value) bool { return true }) && !isErrorType(v.Type())
	}
	looksAtBytes := func(pol Pol) Atom {
		return Atom{Name: "the serialized form was inspected (null?)", Match: func(cd Cond) Pol {
			hit := false
			if cd.Bin != nil && (isSerialized(cd.Bin.X) || isSerialized(cd.Bin.Y)) {
				hit = true
			}
			if cd.Val != nil {
				if cc, _, ok := CallResult(cd.Val); ok {
					for _, a := range cc.Common().Args {
						if isSerialized(a) {
							hit = true
						}
					}
				}
			}
			if !hit {
				return PolNone
			}
			return pol
		}}
	}
	n := 0
	for _, b := range set.Blocks {
		for _, in := range b.Instrs {
			mu, ok := in.(*ssa.MapUpdate)
			if !ok {
				continue
			}
			n++
			c.Guarded(fmt.Sprintf("overlord/state.customData.set#null-entry-not-stored#%d", n), set, mu, []Clause{{looksAtBytes(PolTrue), looksAtBytes(PolFalse)}}, &GOpt{NoVacuity: true})
		}
	}
	if n == 0 {
		c.Undecided("overlord/state.customData.set#store", set.Pos(), "the map update was not found")
	}
}

func runC08z(c *Ctx) {
	P := c.P
	c.Rule("C08-R7", "W", "a notice expires counted from its LAST occurrence", 1)
	ex := P.Func("overlord/state.(*Notice).expired")
	fLast := P.Field("overlord/state.Notice.lastOccurred")
	fFirst := P.Field("overlord/state.Notice.firstOccurred")
	usesLast, usesFirst := false, false
	for _, b := range ex.Blocks {
		for _, in := range b.Instrs {
			if fa, ok := in.(*ssa.FieldAddr); ok {
				switch fieldOfAddr(fa) {
				case fLast:
					usesLast = true
				case fFirst:
					usesFirst = true
				}
			}
		}
	}
	c.touch(ex)
	c.Check(usesLast && !usesFirst, "overlord/state.(*Notice).expired#from-last-occurrence", ex.Pos(), "lastOccurred + expireAfter", "Notice.expired is not computed from lastOccurred alone: a long-lived notice that keeps re-occurring is dropped (and no longer delivered) once its first occurrence is older than the expiry time")
}

func runC12z(c *Ctx) {
	P := c.P
	c.Rule("C12-R7", "G", "boot.InUse reports a revision as needed for booting only for the snap whose name EQUALS the name in the boot variables (and the same revision)", 1)
	iu := P.Func("boot.InUse")
	snapName := P.TryObj("snap.PlaceInfo.SnapName")
	n := 0
	for _, af := range iu.AnonFuncs {
		if af.Signature.Params().Len() != 2 {
			continue
		}
		isCandName := func(v ssa.Value) bool {
			cc, _, ok := CallResult(v)
			if !ok {
				return false
			}
			if cc.Common().IsInvoke() {
				return cc.Common().Method.Name() == "SnapName" && (snapName == nil || cc.Common().Method == snapName)
			}
			co := CalleeOf(cc)
			return co != nil && co.Name() == "SnapName"
		}
		sameName := Cmp("cand.SnapName()==name", isCandName, token.EQL, func(v ssa.Value) bool { return v == ssa.Value(af.Params[0]) || ResolvesToParam(v, af, 0) })
		for _, lf := range ReturnLeaves(af, 0) {
			if b, ok := ConstBool(lf.Val); ok && b {
				n++
				c.GuardedFlow(fmt.Sprintf("boot.InUse#in-use<=same-name#%d", n), af, lf, []Clause{{sameName}}, nil)
			}
		}
	}
	if n == 0 {
		c.Undecided("boot.InUse#in-use", iu.Pos(), "the checker returned by boot.InUse (or its `return true`) was not found")
	}
}

func runC17z(c *Ctx) {
	P := c.P
	c.Rule("C17-R8", "G", "piboot asks the firmware for a tryboot reboot only while kernel_status is exactly \"try\" (not once the trial boot is under way)", 1)
	fn := P.Func("bootloader.(*piboot).GetRebootArguments")
	isTry := Cmp("kernel_status==\"try\"", anyVal, token.EQL, VConstStr("try"))
	n := 0
	for _, lf := range ReturnLeaves(fn, 0) {
		if s, ok := ConstString(lf.Val); ok && strings.Contains(s, "tryboot") {
			n++
			c.GuardedFlow(fmt.Sprintf("bootloader.(*piboot).GetRebootArguments#tryboot<=status-try#%d", n), fn, lf, []Clause{{isTry}}, nil)
		}
	}
	if n == 0 {
		c.Undecided("bootloader.(*piboot).GetRebootArguments#tryboot", fn.Pos(), "the tryboot reboot argument was not found")
	}
}

func runC20z(c *Ctx) {
	P := c.P
	c.Rule("C20-R7", "W", "assembleAndSign leaves a zero revision / format out of the signed content AND out of the headers of the assertion it returns (what is decoded back has no such header either)", 2)
	fn := P.Func("asserts.assembleAndSign")
	have := map[string]bool{}
	for _, b := range fn.Blocks {
		for _, in := range b.Instrs {
			cc, ok := in.(*ssa.Call)
			if !ok {
				continue
			}
			if bi, ok := cc.Call.Value.(*ssa.Builtin); ok && bi.Name() == "delete" {
				if k, ok := ConstString(cc.Call.Args[1]); ok {
					have[k] = true
				}
			}
		}
	}
	c.touch(fn)
	for _, k := range []string{"revision", "format"} {
		c.Check(have[k], "asserts.assembleAndSign#zero-"+k+"-dropped-from-headers", fn.Pos(), "delete(finalHeaders, \""+k+"\") for the zero value", "assembleAndSign no longer removes a zero \""+k+"\" from the headers of the returned assertion while still omitting it from the encoded content: the assertion does not decode back to identical headers")
	}
}

func runC22z(c *Ctx) {
	P := c.P
	pkg := "interfaces"
	c.Rule("C22-R7", "W", "the repository tells snaps apart by instance: no decision compares the bare SnapName() of two snaps", 1)
	snapName := P.FuncObj("snap.(*Info).SnapName")
	n := 0
	var bad []string
	for _, fn := range P.FuncsIn(pkg) {
		if !strings.HasSuffix(P.Fset.Position(fn.Pos()).Filename, "/repo.go") {
			continue
		}
		n++
		for _, b := range fn.Blocks {
			for _, in := range b.Instrs {
				if bo, ok := in.(*ssa.BinOp); ok && (bo.Op == token.EQL || bo.Op == token.NEQ) && VRes(0, ToFn(snapName))(bo.X) && VRes(0, ToFn(snapName))(bo.Y) {
					bad = append(bad, SSAFuncName(fn)+" at "+P.Pos(bo.Pos()))
				}
			}
		}
	}
	c.Check(len(bad) == 0 && n > 0, pkg+".Repository#instance-aware-comparisons", token.NoPos, fmt.Sprintf("%d functions of repo.go, no SnapName()==SnapName() test", n), fmt.Sprintf("two snaps are compared by SnapName() (%v): parallel instances of one snap are then taken for the same snap, e.g. a connection between them is dropped from Connections() and never disconnected in the state", bad))
}

func runC26z(c *Ctx) {
	P := c.P
	c.Rule("C26-R7", "W", "a new user's ID comes from the ever-increasing AuthState.LastID counter (IDs are never handed out again: the local macaroon is derived from the ID)", 1)
	nu := P.Func("overlord/auth.NewUser")
	fLast := P.Field("overlord/auth.AuthState.LastID")
	fID := P.Field("overlord/auth.UserState.ID")
	sts := StoresToField(nu, fID)
	if len(sts) == 0 {
		c.Undecided("overlord/auth.NewUser#id", nu.Pos(), "the store of the new user's ID was not found")
		return
	}
	incremented := false
	for _, st := range StoresToField(nu, fLast) {
		if bo, ok := Strip(st.Val).(*ssa.BinOp); ok && bo.Op == token.ADD && VField(fLast)(bo.X) {
			incremented = true
		}
	}
	for i, st := range sts {
		c.Check(incremented && VField(fLast)(st.Val), fmt.Sprintf("overlord/auth.NewUser#id-from-counter#%d", i+1), st.Pos(), "ID = ++LastID", "the ID of a new user is not taken from the incremented LastID counter: an ID can be reused after a user was removed, and with it the removed user's macaroon becomes valid for the new user")
	}
}

// runC17y: the rule behind finding F18.
func runC17y(c *Ctx) {
	P := c.P
	pkg := "bootloader"
	c.Rule("C17-R9", "S", "piboot: every boot variable that the generated config.txt / tryboot.txt depends on (read by loadAndApplyConfig) makes SetBootVars regenerate it when it changes", 3)
	apply := P.Func(pkg + ".(*piboot).loadAndApplyConfig")
	setv := P.Func(pkg + ".(*piboot).SetBootVars")
	envGet := P.FuncObj("bootloader/ubootenv.(*Env).Get")
	// the run-mode branch (C17 is about kernel updates of a running system; the recovery branch reads
	// snapd_recovery_system, which is set together with the mode)
	var runBlk *ssa.BasicBlock
	for _, b := range apply.Blocks {
		if len(b.Instrs) == 0 {
			continue
		}
		ifi, ok := b.Instrs[len(b.Instrs)-1].(*ssa.If)
		if !ok {
			continue
		}
		cd := Decompose(ifi.Cond)
		if cd.Bin != nil && cd.Bin.Op == token.EQL {
			if k, ok := ConstString(cd.Bin.Y); ok && k == "run" {
				runBlk = b.Succs[0]
				if cd.Neg {
					runBlk = b.Succs[1]
				}
			}
		}
	}
	if runBlk == nil {
		c.Undecided(pkg+".(*piboot).loadAndApplyConfig#run-mode-branch", apply.Pos(), "the run-mode branch was not found")
		return
	}
	read := map[string]bool{"snapd_recovery_mode": true}
	for _, cc := range CallSites(apply, envGet) {
		if k, ok := ConstString(cc.Common().Args[1]); ok && (cc.Block() == runBlk || runBlk.Dominates(cc.Block())) {
			read[k] = true
		}
	}
	// constants the range key is compared with in SetBootVars
	trig := map[string]bool{}
	for _, b := range setv.Blocks {
		for _, in := range b.Instrs {
			bo, ok := in.(*ssa.BinOp)
			if !ok || bo.Op != token.EQL {
				continue
			}
			if k, ok := ConstString(bo.Y); ok {
				trig[k] = true
			}
			if k, ok := ConstString(bo.X); ok {
				trig[k] = true
			}
		}
	}
	if len(read) == 0 {
		c.Undecided(pkg+".(*piboot).loadAndApplyConfig#variables", apply.Pos(), "no env.Get(<constant>) found")
		return
	}
	c.touch(apply)
	c.touch(setv)
	for _, k := range sortedKeys(read) {
		c.Check(trig[k], pkg+".(*piboot).SetBootVars#reconfigures-on:"+k, setv.Pos(), "a change of "+k+" is looked at", "the piboot configuration is generated from "+k+" but SetBootVars does not look at changes of it: config.txt / tryboot.txt can keep pointing at a kernel other than the one the boot variables name")
	}
}
