package main

import (
	"fmt"
	"go/token"
	"go/types"
	"sort"

	"golang.org/x/tools/go/ssa"
)

func init() {
	register(&Property{
		ID:          "C34",
		Roots:       []string{"snap/channel", "overlord/snapstate"},
		Technique:   "return-value provenance with guarded flow points (SSA phi leaves + CFG must-pass gates) on channel.ParseVerbatim/Clean/Full/Resolve/ResolvePinned and snapstate.resolveChannel; sibling agreement on the component that classifies a name",
		Explanation: "Structural necessary conditions of 'channel names normalise consistently and a pinned track cannot be switched' (the algebraic laws themselves - idempotence of Parse/String, Full naming track and risk - are value-level and not decided): (R1) ResolvePinned returns the request verbatim only when there is no pinned track, or the request equals the track, or starts with track+\"/\"; otherwise it returns the track, track+\"/\"+request, or an error; (R2) ParseVerbatim assigns the components to (track, risk, branch) by the fixed table 3:(0,1,2) 2:risk-first?(-,0,1):(0,1,-) 1:risk?(-,0,-):(0,-,-), and every place in the package that classifies a name as risk-first looks at component 0 (Full, ParseVerbatim, Resolve, ResolvePinned agree); (R3) Clean never yields track \"latest\" nor an empty risk and builds Name from the very track/risk it returns; (R4) Full adds \"latest/\" exactly to risk-first names and \"/stable\" exactly to single non-risk components; (R5) Resolve returns the request without the current track only when the request is not risk-first or there is no current track; (R6) snapstate.resolveChannel returns the old channel only for an empty request, resolves through channel.Resolve only when no track is pinned for this snap (kernel track for the model's kernel, gadget track for its gadget) and otherwise returns ResolvePinned's verdict, translating ErrPinnedTrackSwitch into an error.",
		NotDecided:  "idempotence Parse(Parse(s).String()) == Parse(s) and Full's output format for every input string (value-level); other callers of ResolvePinned (seed writer).",
		Run:         runC34,
	})
}

func runC34(c *Ctx) {
	P := c.P
	pkg := "snap/channel"
	listContains := P.FuncObj("strutil.ListContains")
	risksG := P.Global(pkg + ".channelRisks")
	fTrack := P.Field(pkg + ".Channel.Track")
	fRisk := P.Field(pkg + ".Channel.Risk")
	fBranch := P.Field(pkg + ".Channel.Branch")
	fName := P.Field(pkg + ".Channel.Name")
	hasPrefix := P.FuncObj("strings.HasPrefix")
	parseVerb := P.FuncObj(pkg + ".ParseVerbatim")

	// elemK: v is x[k] (load of &x[k]) for a constant k
	elemIdx := func(v ssa.Value) (ssa.Value, int64, bool) {
		v = Strip(v)
		if u, ok := v.(*ssa.UnOp); ok && u.Op == token.MUL {
			if ia, ok := u.X.(*ssa.IndexAddr); ok {
				if k, ok := ConstInt(ia.Index); ok {
					return ia.X, k, true
				}
			}
		}
		return nil, 0, false
	}
	isElem0 := func(v ssa.Value) bool { _, k, ok := elemIdx(v); return ok && k == 0 }
	isRisks := func(v ssa.Value) bool { return VGlobal(risksG)(v) }
	riskFirst := TrueRes("first component is a risk", true, 0, CallWhere(CallWhere(ToFn(listContains), 0, isRisks), 1, isElem0))
	// track + "/"
	isTrackSlash := func(fn *ssa.Function) func(ssa.Value) bool {
		return func(v ssa.Value) bool {
			b, ok := Strip(v).(*ssa.BinOp)
			if !ok || b.Op != token.ADD {
				return false
			}
			s, isC := ConstString(b.Y)
			return isC && s == "/" && (VField(fTrack)(b.X) || VParam(fn, 0)(b.X))
		}
	}

	// ---- R1
	c.Rule("C34-R1", "W+G", "ResolvePinned: verbatim request <= no pinned track | request == track | HasPrefix(request, track+\"/\"); else track, track/request or error", 3)
	rp := P.Func(pkg + ".ResolvePinned")
	noTrack := Cmp("track==\"\"", VParam(rp, 0), token.EQL, VConstStr(""))
	sameTrack := Cmp("newChannel==track", VParam(rp, 1), token.EQL, VParam(rp, 0))
	inTrack := TrueRes("HasPrefix(newChannel, track+\"/\")", true, 0, CallWhere(CallWhere(ToFn(hasPrefix), 0, VParam(rp, 1)), 1, isTrackSlash(rp)))
	n := 0
	for _, lf := range ReturnLeaves(rp, 0) {
		n++
		key := fmt.Sprintf("%s.ResolvePinned#result#%d", pkg, n)
		v := Strip(lf.Val)
		switch {
		case VConstStr("")(v):
			n--
		case VParam(rp, 1)(v):
			c.GuardedFlow(key+"-verbatim", rp, lf, []Clause{{noTrack, sameTrack, inTrack}}, nil)
		case VParam(rp, 0)(v):
			c.Holds(key+"-track", lf.Pos(), "the pinned track itself")
		default:
			b, ok := v.(*ssa.BinOp)
			if ok && b.Op == token.ADD && isTrackSlash(rp)(b.X) {
				c.Holds(key+"-prefixed", lf.Pos(), "track + \"/\" + request")
			} else {
				c.Violated(key+"-other", lf.Pos(), "ResolvePinned returns a channel that is neither the pinned track, nor track+\"/\"+request, nor a request checked to lie inside the track")
			}
		}
	}
	// the pinned track must be a bare track
	pv := CallSites(rp, parseVerb)
	if len(pv) != 1 {
		c.Undecided(pkg+".ResolvePinned#track-parsed", rp.Pos(), "expected one ParseVerbatim(track) call")
	}

	// ---- R2
	c.Rule("C34-R2", "G+S", "ParseVerbatim: component table; risk-first classification always looks at component 0", 9)
	pvf := P.Func(pkg + ".ParseVerbatim")
	split := VRes(0, ToFn(P.FuncObj("strings.Split")))
	lenIs := func(k int64) Atom {
		return Cmp(fmt.Sprintf("len(p)==%d", k), VLen(split), token.EQL, VConstInt(k))
	}
	ptrPhi := func(f *types.Var) *ssa.Phi {
		for _, st := range StoresToField(pvf, f) {
			if u, ok := Strip(st.Val).(*ssa.UnOp); ok && u.Op == token.MUL {
				if ph, ok := u.X.(*ssa.Phi); ok {
					return ph
				}
			}
		}
		return nil
	}
	phT, phR, phB := ptrPhi(fTrack), ptrPhi(fRisk), ptrPhi(fBranch)
	if phT == nil || phR == nil || phB == nil || phT.Block() != phR.Block() || phT.Block() != phB.Block() {
		c.Undecided(pkg+".ParseVerbatim#component-table", pvf.Pos(), "the track/risk/branch component selection is no longer three pointer phis at one join; the table cannot be read")
	} else {
		idxOf := func(v ssa.Value) int64 {
			if IsNilConst(v) {
				return -1
			}
			if ia, ok := v.(*ssa.IndexAddr); ok && split(ia.X) {
				if k, ok := ConstInt(ia.Index); ok {
					return k
				}
			}
			return -99
		}
		blk := phT.Block()
		type want struct {
			clauses []Clause
			name    string
		}
		table := map[[3]int64]want{
			{0, 1, 2}:   {[]Clause{{lenIs(3)}}, "track/risk/branch"},
			{-1, 0, 1}:  {[]Clause{{lenIs(2)}, {riskFirst}}, "risk/branch"},
			{0, 1, -1}:  {[]Clause{{lenIs(2)}, {Not(riskFirst)}}, "track/risk"},
			{-1, 0, -1}: {[]Clause{{lenIs(1)}, {riskFirst}}, "risk"},
			{0, -1, -1}: {[]Clause{{lenIs(1)}, {Not(riskFirst)}}, "track"},
		}
		seen := map[[3]int64]bool{}
		dup := map[*ssa.BasicBlock]int{}
		for i, pred := range blk.Preds {
			tr := [3]int64{idxOf(phT.Edges[i]), idxOf(phR.Edges[i]), idxOf(phB.Edges[i])}
			nth := dup[pred]
			dup[pred]++
			fp := FlowPoint{Val: phT.Edges[i], EdgeFrom: pred, EdgeSucc: succIndex(pred, blk, nth)}
			w, ok := table[tr]
			if !ok {
				c.Violated(fmt.Sprintf("%s.ParseVerbatim#component-table#%v", pkg, tr), fp.Pos(), fmt.Sprintf("components are assigned (track,risk,branch)=%v, which is not one of the five forms track/risk/branch, risk/branch, track/risk, risk, track", tr))
				continue
			}
			seen[tr] = true
			c.GuardedFlow(fmt.Sprintf("%s.ParseVerbatim#component-table#%s", pkg, w.name), pvf, fp, w.clauses, nil)
		}
		var missing []string
		for tr, w := range table {
			if !seen[tr] {
				missing = append(missing, w.name)
			}
		}
		sort.Strings(missing)
		c.Check(len(missing) == 0, pkg+".ParseVerbatim#component-table#complete", pvf.Pos(), "all five forms present", fmt.Sprintf("forms no longer parsed: %v", missing))
	}
	// sibling agreement: every ListContains(channelRisks, x[k]) has k == 0
	for _, fn := range P.FuncsIn(pkg) {
		k := 0
		for _, cc := range CallsMatching(fn, CallWhere(ToFn(listContains), 0, isRisks)) {
			_, idx, ok := elemIdx(cc.Common().Args[1])
			if !ok {
				// the test wrapped in a helper (isRisk(s)): the classification happens at the helper's call sites
				if prm, isP := Strip(cc.Common().Args[1]).(*ssa.Parameter); isP && prm.Parent() == fn {
					if obj, isF := fn.Object().(*types.Func); isF {
						pi := -1
						for j, fp := range fn.Params {
							if fp == prm {
								pi = j
							}
						}
						for _, u := range P.UsesOf(obj) {
							hc, isCall := u.Instr.(ssa.CallInstruction)
							if !u.AsCall || !isCall || pi < 0 || pi >= len(hc.Common().Args) {
								continue
							}
							_, hidx, hok := elemIdx(hc.Common().Args[pi])
							if !hok {
								continue
							}
							k++
							c.touch(u.Fn)
							c.Check(hidx == 0, fmt.Sprintf("%s#classifies-by-first-component#h%d", SSAFuncName(u.Fn), k), hc.Pos(), "risk-first test on component 0", fmt.Sprintf("a name is classified by testing component %d against the risk names; Full, ParseVerbatim, Resolve and ResolvePinned must all look at component 0", hidx))
						}
					}
				}
				continue // validation of *risk, not a classification
			}
			k++
			c.touch(fn)
			c.Check(idx == 0, fmt.Sprintf("%s#classifies-by-first-component#%d", SSAFuncName(fn), k), cc.Pos(), "risk-first test on component 0", fmt.Sprintf("a name is classified by testing component %d against the risk names; Full, ParseVerbatim, Resolve and ResolvePinned must all look at component 0, or '<risk>/<branch>' names with a risk-like branch parse differently from how they print", idx))
		}
	}

	// ---- R3
	c.Rule("C34-R3", "W+G", "Clean: track never \"latest\", risk never empty, Name built from the returned track and risk", 4)
	clean := P.Func(pkg + ".Channel.Clean")
	var trackVal, riskVal ssa.Value
	for _, spec := range []struct {
		f     *types.Var
		bad   string
		keep  **ssa.Value
		label string
	}{{fTrack, "latest", nil, "track"}, {fRisk, "", nil, "risk"}} {
		sts := StoresToField(clean, spec.f)
		if len(sts) != 1 {
			c.Undecided(fmt.Sprintf("%s.Channel.Clean#%s", pkg, spec.label), clean.Pos(), fmt.Sprintf("expected one store to the returned %s, found %d", spec.label, len(sts)))
			continue
		}
		if spec.label == "track" {
			trackVal = sts[0].Val
		} else {
			riskVal = sts[0].Val
		}
		isBad := Cmp(spec.label+"=="+fmt.Sprintf("%q", spec.bad), VField(spec.f), token.EQL, VConstStr(spec.bad))
		var leaves []FlowPoint
		phiLeaves(sts[0].Val, sts[0], &leaves, map[*ssa.Phi]bool{})
		for i, lf := range leaves {
			key := fmt.Sprintf("%s.Channel.Clean#%s-normalised#%d", pkg, spec.label, i+1)
			if s, ok := ConstString(lf.Val); ok {
				c.Check(s != spec.bad, key, lf.Pos(), fmt.Sprintf("constant %q", s), fmt.Sprintf("Clean returns the un-normalised %s %q", spec.label, s))
				continue
			}
			if VField(spec.f)(lf.Val) {
				c.GuardedFlow(key, clean, lf, []Clause{{Not(isBad)}}, nil)
				continue
			}
			c.Violated(key, lf.Pos(), fmt.Sprintf("Clean's %s comes from neither the receiver's %s nor a constant", spec.label, spec.label))
		}
	}
	if sts := StoresToField(clean, fName); len(sts) == 1 && trackVal != nil && riskVal != nil {
		okN := DependsOn(sts[0].Val, VIs(trackVal)) && DependsOn(sts[0].Val, VIs(riskVal))
		if jc, _, isCall := CallResult(sts[0].Val); !okN && isCall && ToFn(P.FuncObj("strings.Join"))(jc) && VConstStr("/")(jc.Common().Args[1]) {
			// strings.Join(parts, "/") with the returned track and risk appended to parts
			hasT, hasR := false, false
			for _, b := range clean.Blocks {
				for _, in := range b.Instrs {
					if ap, ok := isBuiltinCall(in, "append"); ok && len(ap.Call.Args) == 2 {
						for _, e := range VarargElems(ap.Call.Args[1]) {
							if e == nil {
								continue
							}
							hasT = hasT || VIs(trackVal)(e) || DependsOn(e, VIs(trackVal))
							hasR = hasR || VIs(riskVal)(e) || DependsOn(e, VIs(riskVal))
						}
					}
				}
			}
			okN = hasT && hasR
		}
		c.Check(okN, pkg+".Channel.Clean#name-from-normalised-parts", sts[0].Pos(), "Name is built from the returned Track and Risk", "Clean's Name is not built from the very track and risk values it returns (String() and the fields would disagree, so printing and re-parsing is not stable)")
	} else {
		c.Undecided(pkg+".Channel.Clean#name-from-normalised-parts", clean.Pos(), "expected one store each to Name, Track, Risk")
	}

	// ---- R4
	c.Rule("C34-R4", "W+G", "Full: \"latest/\" is added exactly to risk-first names, \"/stable\" exactly to a single non-risk component", 3)
	full := P.Func(pkg + ".Full")
	comps := VRes(0, ToFn(P.FuncObj("strings.FieldsFunc")))
	clen := func(k int64) Atom {
		return Cmp(fmt.Sprintf("len(components)==%d", k), VLen(comps), token.EQL, VConstInt(k))
	}
	join := P.FuncObj("strings.Join")
	n = 0
	for _, lf := range ReturnLeaves(full, 0) {
		v := Strip(lf.Val)
		if VConstStr("")(v) {
			continue
		}
		n++
		key := fmt.Sprintf("%s.Full#result#%d", pkg, n)
		if b, ok := v.(*ssa.BinOp); ok && b.Op == token.ADD {
			if s, isC := ConstString(b.X); isC && s == "latest/" {
				c.GuardedFlow(key+"-latest", full, lf, []Clause{{riskFirst}, {clen(1), clen(2)}}, nil)
				continue
			}
			if s, isC := ConstString(b.Y); isC && s == "/stable" && isElem0(b.X) {
				c.GuardedFlow(key+"-stable", full, lf, []Clause{{Not(riskFirst)}, {clen(1)}}, nil)
				continue
			}
		}
		if VRes(0, ToFn(join))(v) {
			// (len != 2 stands for "three components" once the lengths 0, 1 and >3 have returned: the
			// single-component forms are separate obligations of this rule)
			c.GuardedFlow(key+"-verbatim", full, lf, []Clause{{Not(riskFirst), clen(3), Not(clen(2))}}, nil)
			continue
		}
		c.Violated(key+"-other", lf.Pos(), "Full returns something other than \"latest/\"+name, track+\"/stable\" or the joined components")
	}

	// ---- R5
	c.Rule("C34-R5", "W+G", "Resolve: the request loses the current track only if it is not risk-first or there is no current track", 2)
	rs := P.Func(pkg + ".Resolve")
	n = 0
	for _, lf := range ReturnLeaves(rs, 0) {
		v := Strip(lf.Val)
		if VConstStr("")(v) {
			continue
		}
		n++
		key := fmt.Sprintf("%s.Resolve#result#%d", pkg, n)
		switch {
		case VParam(rs, 1)(v):
			noCur := Cmp("channel==\"\"", VParam(rs, 0), token.EQL, VConstStr(""))
			noCurTrack := Cmp("ch.Track==\"\"", VField(fTrack), token.EQL, VConstStr(""))
			c.GuardedFlow(key+"-verbatim", rs, lf, []Clause{{Not(riskFirst), noCur, noCurTrack}}, nil)
		case VParam(rs, 0)(v):
			c.GuardedFlow(key+"-current", rs, lf, []Clause{{Cmp("newChannel==\"\"", VParam(rs, 1), token.EQL, VConstStr(""))}}, nil)
		default:
			b, ok := v.(*ssa.BinOp)
			if ok && b.Op == token.ADD && VParam(rs, 1)(b.Y) && isTrackSlash(rs)(b.X) && !VParam(rs, 0)(Strip(b.X).(*ssa.BinOp).X) {
				c.Holds(key+"-keeps-track", lf.Pos(), "current track + \"/\" + request")
			} else {
				c.Violated(key+"-other", lf.Pos(), "Resolve returns a channel that is neither the request, the current channel nor currentTrack+\"/\"+request")
			}
		}
	}

	// ---- R6
	c.Rule("C34-R6", "W+G", "snapstate.resolveChannel: old channel only for an empty request; channel.Resolve only when no track is pinned; otherwise ResolvePinned's verdict", 5)
	spkg := "overlord/snapstate"
	rc := P.Func(spkg + ".resolveChannel")
	resolve := P.FuncObj(pkg + ".Resolve")
	resolvePinned := P.FuncObj(pkg + ".ResolvePinned")
	kTrack := P.FuncObj("asserts.(*Model).KernelTrack")
	gTrack := P.FuncObj("asserts.(*Model).GadgetTrack")
	mKernel := P.FuncObj("asserts.(*Model).Kernel")
	mGadget := P.FuncObj("asserts.(*Model).Gadget")
	rpCalls := CallSites(rc, resolvePinned)
	if len(rpCalls) != 1 {
		c.Undecided(spkg+".resolveChannel#pinned-call", rc.Pos(), fmt.Sprintf("expected one ResolvePinned call, found %d", len(rpCalls)))
		return
	}
	pinned := rpCalls[0].Common().Args[0]
	// the pinned track value: "" | KernelTrack() under snapName==Kernel() | GadgetTrack() under snapName==Gadget()
	var pl []FlowPoint
	phiLeaves(pinned, rpCalls[0], &pl, map[*ssa.Phi]bool{})
	sawK, sawG := false, false
	for i, lf := range pl {
		key := fmt.Sprintf("%s.resolveChannel#pinned-track-source#%d", spkg, i+1)
		switch {
		case VConstStr("")(lf.Val):
		case VRes(0, ToFn(kTrack))(lf.Val):
			sawK = true
			c.GuardedFlow(key+"-kernel", rc, lf, []Clause{{Cmp("snapName==model.Kernel()", VParam(rc, 0), token.EQL, VRes(0, ToFn(mKernel)))}}, nil)
		case VRes(0, ToFn(gTrack))(lf.Val):
			sawG = true
			c.GuardedFlow(key+"-gadget", rc, lf, []Clause{{Cmp("snapName==model.Gadget()", VParam(rc, 0), token.EQL, VRes(0, ToFn(mGadget)))}}, nil)
		default:
			c.Violated(key, lf.Pos(), "the pinned track passed to ResolvePinned is neither the model's kernel track nor its gadget track")
		}
	}
	c.Check(sawK && sawG, spkg+".resolveChannel#pinned-track-both", rpCalls[0].Pos(), "kernel and gadget tracks are both honoured", "the kernel track or the gadget track of the model is no longer consulted")
	// the model's kernel (gadget) with a pinned track always gets it: no path from a
	// true `snapName == model.Kernel()` edge with KernelTrack() != "" to the unpinned Resolve
	isPinnedVal := func(v ssa.Value) bool { return v == pinned || Strip(v) == Strip(pinned) }
	noPin := Cmp("pinnedTrack==\"\"", isPinnedVal, token.EQL, VConstStr(""))
	n = 0
	for _, lf := range ReturnLeaves(rc, 0) {
		v := Strip(lf.Val)
		if VConstStr("")(v) {
			continue
		}
		n++
		key := fmt.Sprintf("%s.resolveChannel#result#%d", spkg, n)
		switch {
		case VParam(rc, 1)(v):
			c.GuardedFlow(key+"-old", rc, lf, []Clause{{Cmp("newChannel==\"\"", VParam(rc, 2), token.EQL, VConstStr(""))}}, &GOpt{NoVacuity: false})
		case VRes(0, ToFn(resolve))(v):
			c.GuardedFlow(key+"-unpinned", rc, lf, []Clause{{noPin}}, nil)
		case VRes(0, ToFn(resolvePinned))(v):
			failed := Not(NilRes("ResolvePinned ok", 1, ToFn(resolvePinned)))
			c.GuardedFlow(key+"-pinned", rc, lf, []Clause{{NilRes("ResolvePinned ok", 1, ToFn(resolvePinned))}}, nil)
			_ = failed
		default:
			c.Violated(key+"-other", lf.Pos(), "resolveChannel returns a channel that is neither the old channel (empty request), channel.Resolve's nor channel.ResolvePinned's result")
		}
	}
	// ---- R7
	c.Rule("C34-R7", "G", "every caller of resolveChannel / RevisionOptions.resolveChannel fails when the request is refused; RevisionOptions.resolveChannel skips resolution only for a revision without a channel", 6)
	rcObj := P.FuncObj(spkg + ".resolveChannel")
	roObj := P.FuncObj(spkg + ".(*RevisionOptions).resolveChannel")
	for _, obj := range []*types.Func{rcObj, roObj} {
		idx := obj.Type().(*types.Signature).Results().Len() - 1
		for _, u := range P.UsesOf(obj) {
			cc, ok := u.Instr.(ssa.CallInstruction)
			if !ok || u.Fn == nil {
				c.Undecided(spkg+"."+obj.Name()+"#used-as-value", obj.Pos(), obj.Name()+" is used other than by a direct call")
				continue
			}
			c.CheckErrPropagated(fmt.Sprintf("%s#%s-refusal-propagated@%s", SSAFuncName(u.Fn), obj.Name(), calleeOrd(u.Fn, cc, obj)), u.Fn, cc, idx, obj.Name())
		}
	}
	ro := P.Func(spkg + ".(*RevisionOptions).resolveChannel")
	fROChan := P.Field(spkg + ".RevisionOptions.Channel")
	n = 0
	for _, r := range ReturnsOf(ro) {
		if !IsSuccessReturn(r) {
			continue
		}
		n++
		c.Guarded(fmt.Sprintf("%s.RevisionOptions.resolveChannel#accepts#%d", spkg, n), ro, r,
			[]Clause{{OkCall("resolveChannel ok", rcObj), Cmp("r.Channel==\"\"", VField(fROChan), token.EQL, VConstStr(""))}}, nil)
	}
	okStore := false
	for _, st := range StoresToField(ro, fROChan) {
		if VRes(0, ToFn(rcObj))(st.Val) {
			okStore = true
		}
	}
	c.Check(okStore, spkg+".RevisionOptions.resolveChannel#resolved-channel-stored", ro.Pos(), "r.Channel = resolved", "the resolved channel is not stored back into the revision options")
	for i, cc := range CallSites(ro, rcObj) {
		c.Check(VField(fROChan)(cc.Common().Args[2]), fmt.Sprintf("%s.RevisionOptions.resolveChannel#resolves-the-request#%d", spkg, i+1), cc.Pos(), "resolveChannel(..., r.Channel, ...)", "the channel resolved is not the requested one")
	}
}

// calleeOrd: ordinal of call cc among fn's calls of obj (stable key without line numbers)
func calleeOrd(fn *ssa.Function, cc ssa.CallInstruction, obj *types.Func) string {
	for i, x := range CallSites(fn, obj) {
		if x == cc {
			return fmt.Sprintf("%d", i+1)
		}
	}
	return "?"
}
