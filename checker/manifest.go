package main

import (
	"encoding/json"
	"fmt"
	"os"
	"sort"
)

// notClaimed gives, for properties without a registered check, the reason that
// goes under not_applicable in MANIFEST.json.
var notClaimed = map[string]string{}

const pendingReason = "no check built yet in this round: the planned structural rules are in DESIGN.md section 5; until they are implemented and shown silent on the unchanged tree the property is not claimed"

func writeManifest() {
	goenv := "GOFLAGS=-mod=mod GOPROXY=off GOSUMDB=off GOTOOLCHAIN=local GOWORK=off"
	m := map[string]interface{}{
		"version":   1,
		"setup_cmd": "cd /verif/checker && " + goenv + " go build -o ../bin/snapverif .",
		"hooks": map[string]interface{}{
			"guard":            "verif",
			"enable":           "none needed: static analysis reads /repo's working tree (go/packages + go/ssa) on every run; no instrumentation is compiled into snapd",
			"baseline_off_cmd": "cd /repo && go test -vet=off -count=1 -timeout 25m ./...",
			"source_commits":   []string{},
			"add_only":         true,
		},
		"engines": []map[string]interface{}{{
			"name":              "snapverif",
			"path":              "/verif/checker",
			"serves_properties": sortedIDs(),
			"kind_free_text":    "repository-specific static analyser over go/packages + go/ssa (x/tools v0.29.0): guarded-sink/cut-set reachability on the SSA CFG, loop-latch gating, ordering, who-may-call/write, codec agreement, do/undo pairing, typestate extraction, constant/table agreement",
		}},
		"notes": "All claims are level 'other': structural necessary conditions of each property decided on every CFG path / every call site of the named functions; the behaviour itself is not decided (see DESIGN.md). `tools/selftest.py` replays the mutant corpus in memory (overlay), it is not part of any verdict.",
	}
	var checks []map[string]interface{}
	for _, id := range sortedIDs() {
		p := properties[id]
		checks = append(checks, map[string]interface{}{
			"property_id":         id,
			"quick_cmd":           "./bin/snapverif check -p " + id + " -tier quick",
			"thorough_cmd":        "./bin/snapverif check -p " + id + " -tier thorough",
			"evidence_file":       "/verif/evidence/" + id + ".json",
			"replay_cmd_template": "./bin/snapverif replay {path}",
			"engine":              "snapverif",
			"technique":           p.Technique,
			"level_claimed": map[string]interface{}{
				"category":   "other",
				"text":       p.Explanation + " NOT decided: " + p.NotDecided,
				"design_ref": "DESIGN.md section 5, " + id,
			},
			"level_note": "Trusted base: go/types + go/ssa lowering (x/tools v0.29.0), the rule tables in /verif/checker/rules_" + lower(id) + ".go. CFG paths over-approximate executions; rules are necessary, not sufficient, conditions. Quick tier analyses the anchor packages from source (who-may-call rules scoped to them); thorough tier the whole module.",
		})
	}
	m["checks"] = checks
	var na []map[string]string
	f, err := os.Open(verifDir() + "/properties.jsonl")
	if err == nil {
		dec := json.NewDecoder(f)
		for dec.More() {
			var rec struct {
				ID string `json:"id"`
			}
			if dec.Decode(&rec) != nil {
				break
			}
			if _, ok := properties[rec.ID]; ok {
				continue
			}
			r := notClaimed[rec.ID]
			if r == "" {
				r = pendingReason
			}
			na = append(na, map[string]string{"property_id": rec.ID, "reason": r})
		}
		f.Close()
	}
	if na == nil {
		na = []map[string]string{}
	}
	m["not_applicable"] = na
	data, _ := json.MarshalIndent(m, "", " ")
	fmt.Println(string(data))
}

func sortedIDs() []string {
	var ids []string
	for id := range properties {
		ids = append(ids, id)
	}
	sort.Strings(ids)
	return ids
}

func lower(s string) string {
	b := []byte(s)
	for i := range b {
		if b[i] >= 'A' && b[i] <= 'Z' {
			b[i] += 'a' - 'A'
		}
	}
	return string(b)
}
