package main

import (
	"fmt"
	"go/ast"
	"go/constant"
	"go/token"
	"regexp/syntax"
	"strings"

	"golang.org/x/tools/go/ssa"
)

func init() {
	register(&Property{
		ID:          "C24",
		Roots:       []string{"snap/naming"},
		Technique:   "constant and table agreement between Go (go/constant, regexp/syntax, SSA gates of the validators) and C (clang -E -dM macros, clang AST of the named validator functions: folded comparison constants, the whitelist regexp literal, the shape of the hand-written scanners)",
		Explanation: "Structural necessary conditions for 'all components agree on valid names' (equivalence of the hand-written C scanners with the Go rules as languages is not decided): (R1) limits agree: Go ValidateSnap refuses len<2 and len>40, the instance-key regexp allows 1..10, C has SNAP_NAME_LEN==40, SNAP_INSTANCE_KEY_LEN==10, SNAP_INSTANCE_LEN==40+1+10, and both C validators (snap-confine, snap-update-ns) compare their counters with exactly these bounds as inclusive maxima (n<2, n>40, i==0, i>10) and size their buffers accordingly; (R2) the security-tag regexp of snap-confine uses, for the instance key, the app name and the hook name, the same sub-expressions as the Go validInstanceKey, ValidApp and validHook regexps (compared after removing capture groups), and compares captured names with the expected ones by length AND content; (R3) the Go validators answer nil only across their documented gates: ValidateInstance across ValidateSnap(store name) and validInstanceKey.MatchString(key) (the ASCII-only regexp, not a Unicode-aware hand test), ValidateSnap across the two length tests and isValidName, isValidName across almostValidName and the dash rules; (R4) both C name scanners add every consumed run (letters, digits, single dash) to the length they bound.",
		NotDecided:  "that the hand-written C scanners accept exactly the language of the Go regexp-plus-dash rules; security-tag composition for components; socket and alias names.",
		Run:         func(c *Ctx) { runC24(c); runC24x(c) },
	})
}

func normRe(re *syntax.Regexp) string {
	var strip func(r *syntax.Regexp) *syntax.Regexp
	strip = func(r *syntax.Regexp) *syntax.Regexp {
		if r.Op == syntax.OpCapture {
			return strip(r.Sub[0])
		}
		c := *r
		c.Sub = nil
		for _, s := range r.Sub {
			c.Sub = append(c.Sub, strip(s))
		}
		return &c
	}
	return strip(re).Simplify().String()
}

// body strips ^ and $ of an anchored Go regexp and returns the normal form of what is between.
func anchoredBody(expr string) (string, error) {
	re, err := syntax.Parse(expr, syntax.Perl)
	if err != nil {
		return "", err
	}
	if re.Op != syntax.OpConcat || len(re.Sub) < 3 || re.Sub[0].Op != syntax.OpBeginText || re.Sub[len(re.Sub)-1].Op != syntax.OpEndText {
		return "", fmt.Errorf("regexp %q is not anchored at both ends", expr)
	}
	mid := &syntax.Regexp{Op: syntax.OpConcat, Sub: re.Sub[1 : len(re.Sub)-1]}
	if len(mid.Sub) == 1 {
		mid = mid.Sub[0]
	}
	return normRe(mid), nil
}

func runC24(c *Ctx) {
	P := c.P
	repo := P.RepoDir
	pkg := "snap/naming"

	// ---------------- Go constants
	goRe := func(name string) string {
		e := P.AstVarInit(pkg, name)
		call, ok := e.(*ast.CallExpr)
		if !ok || len(call.Args) != 1 {
			anchorFail(pkg+"."+name, "not a regexp.MustCompile(<constant>) variable")
		}
		tv, ok := P.Pkgs[pkg].TypesInfo.Types[call.Args[0]]
		if !ok || tv.Value == nil || tv.Value.Kind() != constant.String {
			anchorFail(pkg+"."+name, "regexp argument is not a constant string")
		}
		return constant.StringVal(tv.Value)
	}

	c.Rule("C24-R1", "K", "length limits agree between Go, snap-confine and snap-update-ns", 12)
	vs := P.Func(pkg + ".ValidateSnap")
	lenName := VLen(VParam(vs, 0))
	tooShort := Cmp("len(name)<2", lenName, token.LSS, VConstInt(2))
	tooLong := Cmp("len(name)>40", lenName, token.GTR, VConstInt(40))
	c.Check(CountAtomEdges(vs, tooShort) > 0, pkg+".ValidateSnap#min-2", vs.Pos(), "len(name) < 2 refused", "ValidateSnap no longer tests len(name) < 2")
	c.Check(CountAtomEdges(vs, tooLong) > 0, pkg+".ValidateSnap#max-40", vs.Pos(), "len(name) > 40 refused", "ValidateSnap no longer tests len(name) > 40 (the bound snap-confine and snap-update-ns enforce)")
	// instance key repeat bounds
	keyExpr := goRe("validInstanceKey")
	kre, err := syntax.Parse(keyExpr, syntax.Perl)
	okKey := false
	if err == nil {
		kre.Simplify()
		var rep *syntax.Regexp
		var walk func(r *syntax.Regexp)
		walk = func(r *syntax.Regexp) {
			if r.Op == syntax.OpRepeat {
				rep = r
			}
			for _, s := range r.Sub {
				walk(s)
			}
		}
		walk(kre)
		okKey = rep != nil && rep.Min == 1 && rep.Max == 10
	}
	c.Check(okKey, pkg+".validInstanceKey#1..10", token.NoPos, "instance key is 1..10 characters", fmt.Sprintf("validInstanceKey %q does not bound the key to {1,10}", keyExpr))
	macros, err := CMacros(repo, "cmd/libsnap-confine-private/snap.h")
	if err != nil {
		c.Undecided("snap.h#macros", token.NoPos, err.Error())
	} else {
		for _, m := range []struct {
			name string
			want int64
		}{{"SNAP_NAME_LEN", 40}, {"SNAP_INSTANCE_KEY_LEN", 10}, {"SNAP_INSTANCE_LEN", 51}} {
			v, ok := macros[m.name]
			c.Check(ok && v == m.want, "snap.h#"+m.name, token.NoPos, fmt.Sprintf("%s == %d", m.name, m.want), fmt.Sprintf("%s is %d (defined: %v); the Go validators and snap-update-ns use %d", m.name, v, ok, m.want))
		}
	}
	type cmpWant struct {
		file, fn, v, op string
		val             int64
	}
	for _, w := range []cmpWant{
		{"cmd/libsnap-confine-private/snap.c", "validate_as_snap_or_component_name", "n", "<", 2},
		{"cmd/libsnap-confine-private/snap.c", "validate_as_snap_or_component_name", "n", ">", 40},
		{"cmd/libsnap-confine-private/snap.c", "sc_instance_key_validate", "i", "==", 0},
		{"cmd/libsnap-confine-private/snap.c", "sc_instance_key_validate", "i", ">", 10},
		{"cmd/libsnap-confine-private/snap.c", "sc_instance_name_validate", "strlen()", ">", 51},
		{"cmd/snap-update-ns/bootstrap.c", "validate_snap_name", "n", "<", 2},
		{"cmd/snap-update-ns/bootstrap.c", "validate_snap_name", "n", ">", 40},
		{"cmd/snap-update-ns/bootstrap.c", "instance_key_validate", "i", "==", 0},
		{"cmd/snap-update-ns/bootstrap.c", "instance_key_validate", "i", ">", 10},
	} {
		fn, err := CFunc(repo, w.file, w.fn)
		construct := fmt.Sprintf("%s:%s#%s%s%d", w.file[strings.LastIndex(w.file, "/")+1:], w.fn, w.v, w.op, w.val)
		if err != nil {
			c.Undecided(construct, token.NoPos, err.Error())
			continue
		}
		found := false
		var seen []string
		for _, cm := range fn.Comparisons() {
			if cm.Var == w.v {
				seen = append(seen, fmt.Sprintf("%s%s%d", cm.Var, cm.Op, cm.Val))
				if cm.Op == w.op && cm.Val == w.val {
					found = true
				}
			}
		}
		c.Check(found, construct, token.NoPos, "bound present", fmt.Sprintf("%s in %s does not compare %s %s %d (found %v): the C validator and the Go validator disagree on the limit", w.fn, w.file, w.v, w.op, w.val, seen))
	}
	// bootstrap.c buffer: 40 + 1 + 10 + 2
	if fn, err := CFunc(repo, "cmd/snap-update-ns/bootstrap.c", "validate_instance_name"); err != nil {
		c.Undecided("bootstrap.c:validate_instance_name#buffer", token.NoPos, err.Error())
	} else {
		okBuf := false
		fn.Walk(func(x *CNode) bool {
			if x.Kind == "VarDecl" && x.Type != nil && x.Type.QualType == "char[53]" {
				okBuf = true
			}
			return true
		})
		c.Check(okBuf, "bootstrap.c:validate_instance_name#buffer", token.NoPos, "char[53] = 40+1+10+2", "the copy buffer of validate_instance_name is no longer 53 bytes (40 + '_' + 10 + overflow + NUL): longer valid names are truncated before validation or over-long ones slip through")
	}

	c.Rule("C24-R2", "K", "snap-confine's security-tag regexp uses the Go sub-expressions for instance key, app and hook names; captured names are compared by length and content", 6)
	if fn, err := CFunc(repo, "cmd/libsnap-confine-private/snap.c", "sc_security_tag_validate"); err != nil {
		c.Undecided("snap.c:sc_security_tag_validate", token.NoPos, err.Error())
	} else {
		var cre string
		for _, s := range fn.StringLiterals() {
			if strings.HasPrefix(s, "^snap\\.") {
				cre = s
			}
		}
		if cre == "" {
			c.Undecided("snap.c:sc_security_tag_validate#regexp", token.NoPos, "whitelist regexp literal not found")
		} else {
			tre, err := syntax.Parse(cre, syntax.Perl)
			if err != nil {
				c.Undecided("snap.c:sc_security_tag_validate#regexp", token.NoPos, "cannot parse "+cre+": "+err.Error())
			} else {
				whole := normRe(tre)
				for _, g := range []struct{ goVar, what string }{
					{"validInstanceKey", "instance key"}, {"ValidApp", "app name"}, {"validHook", "hook name"},
				} {
					body, err := anchoredBody(goRe(g.goVar))
					if err != nil {
						c.Undecided("regexp:"+g.goVar, token.NoPos, err.Error())
						continue
					}
					c.Check(strings.Contains(whole, body), "snap.c:sc_security_tag_validate#"+g.what, token.NoPos, "contains the Go sub-expression "+body, fmt.Sprintf("the %s part of snap-confine's security-tag regexp (%s) no longer contains the Go %s expression %s: the two sides accept different %ss", g.what, whole, g.goVar, body, g.what))
				}
				// component names have the restrictions of snap names: the snap-name expression occurs twice
				if sn, err := syntax.Parse("[a-z0-9](-?[a-z0-9])*", syntax.Perl); err == nil {
					body := normRe(sn)
					c.Check(strings.Count(whole, body) >= 2, "snap.c:sc_security_tag_validate#component-like-snap-name", token.NoPos, "the component part uses the snap-name expression "+body, fmt.Sprintf("snap-confine's security-tag regexp (%s) does not use the snap-name expression %s for both the snap and the component part: hook tags of components that the daemon (and sc_snap_component_validate) accept are refused", whole, body))
				}
				c.Check(tre.Op == syntax.OpConcat && tre.Sub[0].Op == syntax.OpBeginText && tre.Sub[len(tre.Sub)-1].Op == syntax.OpEndText, "snap.c:sc_security_tag_validate#anchored", token.NoPos, "anchored at both ends", "the security-tag regexp is not anchored at both ends")
			}
		}
		// strncmp(captured, expected, len) is accompanied by a length comparison on the same len
		nCmp := 0
		fn.Walk(func(x *CNode) bool {
			if x.Kind != "BinaryOperator" || (x.Opcode != "||" && x.Opcode != "&&") {
				return true
			}
			var strncmpLen string
			hasLenCmp := map[string]bool{}
			for _, side := range x.Inner {
				side.Walk(func(y *CNode) bool {
					if y.Kind == "CallExpr" && len(y.Inner) == 4 && y.Inner[0].RefName() == "strncmp" {
						strncmpLen = y.Inner[3].RefName()
					}
					if y.Kind == "BinaryOperator" && (y.Opcode == "!=" || y.Opcode == "==") && len(y.Inner) == 2 {
						for _, o := range y.Inner {
							if n := o.RefName(); n != "" {
								hasLenCmp[n] = true
							}
						}
					}
					return true
				})
			}
			if strncmpLen != "" {
				nCmp++
				c.Check(hasLenCmp[strncmpLen], fmt.Sprintf("snap.c:sc_security_tag_validate#name-compare#%d", nCmp), token.NoPos, "length and content compared", "a captured name is compared with strncmp over `"+strncmpLen+"` without also comparing the lengths: a name that is only a prefix of the captured one (or the reverse) is accepted")
				return false
			}
			return true
		})
		// strncmp calls outside such a conjunction
		total := 0
		fn.Walk(func(y *CNode) bool {
			if y.Kind == "CallExpr" && len(y.Inner) == 4 && y.Inner[0].RefName() == "strncmp" {
				total++
			}
			return true
		})
		c.Check(total == nCmp && total >= 2, "snap.c:sc_security_tag_validate#all-name-compares-checked", token.NoPos, fmt.Sprintf("%d strncmp comparisons, all with a length test", total), fmt.Sprintf("%d strncmp calls but only %d are combined with a length comparison", total, nCmp))
	}

	c.Rule("C24-R3", "G", "Go validators: nil only across their documented gates", 6)
	vi := P.Func(pkg + ".ValidateInstance")
	matchStr := P.FuncObj("regexp.(*Regexp).MatchString")
	gKey := P.Global(pkg + ".validInstanceKey")
	keyOK := TrueRes("validInstanceKey.MatchString(key)", true, 0, CallWhere(ToFn(matchStr), 0, VGlobal(gKey)))
	vsObj := P.FuncObj(pkg + ".ValidateSnap")
	hasSep := Cmp("IndexByte(name,'_')==-1", VRes(0, ToFn(P.FuncObj("strings.IndexByte"))), token.EQL, VConstInt(-1))
	noSepCut := Atom{Name: "strings.Cut(name,\"_\") found nothing", Match: func(cd Cond) Pol {
		return cd.BoolIs(VRes(2, CallWhere(ToFn(P.FuncObj("strings.Cut")), 1, VConstStr("_")))).Flip()
	}}
	for i, lf := range nilLeaves(vi, 0) {
		c.GuardedFlow(fmt.Sprintf("%s.ValidateInstance#nil<=store-name-valid#%d", pkg, i+1), vi, lf, []Clause{{OkCall("ok(ValidateSnap(store name))", vsObj)}}, nil)
		c.GuardedFlow(fmt.Sprintf("%s.ValidateInstance#nil<=key-valid#%d", pkg, i+1), vi, lf, []Clause{{keyOK}}, nil)
	}
	// without separator the verdict is ValidateSnap's
	okDeleg := false
	for _, lf := range ReturnLeaves(vi, 0) {
		if VRes(0, CallWhere(ToFn(vsObj), 0, VParam(vi, 0)))(lf.Val) && c.tryFlow(vi, lf, Clause{hasSep, noSepCut}) {
			okDeleg = true
		}
	}
	c.Check(okDeleg, pkg+".ValidateInstance#plain-name-delegates", vi.Pos(), "a name without '_' gets ValidateSnap's verdict", "ValidateInstance no longer returns ValidateSnap's verdict for names without an instance key")
	isValidName := P.FuncObj(pkg + ".isValidName")
	for i, lf := range nilLeaves(vs, 0) {
		c.GuardedFlow(fmt.Sprintf("%s.ValidateSnap#nil<=gates#%d", pkg, i+1), vs, lf, []Clause{{Not(tooShort)}, {Not(tooLong)}, {TrueRes("isValidName(name)", true, 0, ToFn(isValidName))}}, nil)
	}
	ivn := P.Func(pkg + ".isValidName")
	gAlmost := P.Global(pkg + ".almostValidName")
	for i, lf := range ReturnLeaves(ivn, 0) {
		if v, ok := ConstBool(lf.Val); ok && !v {
			continue
		}
		c.GuardedFlow(fmt.Sprintf("%s.isValidName#true<=gates#%d", pkg, i+1), ivn, lf, []Clause{
			{TrueRes("almostValidName.MatchString(name)", true, 0, CallWhere(ToFn(matchStr), 0, VGlobal(gAlmost)))},
			{TrueRes(`!strings.Contains(name,"--")`, false, 0, CallWhere(ToFn(P.FuncObj("strings.Contains")), 1, VConstStr("--")))},
			{Not(Cmp("name[0]=='-'", anyVal, token.EQL, VConstInt('-')))},
		}, nil)
	}
	almost := goRe("almostValidName")
	body, err := anchoredBody(almost)
	c.Check(err == nil && body == "[\\-0-9a-z]*[a-z][\\-0-9a-z]*", pkg+".almostValidName#language", token.NoPos, "lower-case ASCII letters, digits and dashes with at least one letter", fmt.Sprintf("almostValidName is %q (normal form %q): snap names must be ASCII [a-z0-9-] with at least one letter, as the C scanners assume", almost, body))

	c.Rule("C24-R4", "K(C AST)", "both C name scanners count every consumed run into the bounded length", 6)
	for _, w := range []struct{ file, fn string }{
		{"cmd/libsnap-confine-private/snap.c", "validate_as_snap_or_component_name"},
		{"cmd/snap-update-ns/bootstrap.c", "validate_snap_name"},
	} {
		fn, err := CFunc(repo, w.file, w.fn)
		base := w.file[strings.LastIndex(w.file, "/")+1:] + ":" + w.fn
		if err != nil {
			c.Undecided(base+"#scanner", token.NoPos, err.Error())
			continue
		}
		// the scanning loop: a ForStmt; its body's direct IfStmts whose condition calls skip_*
		counted := map[string]bool{}
		seenSkip := map[string]bool{}
		fn.Walk(func(x *CNode) bool {
			if x.Kind != "ForStmt" && x.Kind != "WhileStmt" {
				return true
			}
			var body *CNode
			for _, ch := range x.Inner {
				if ch != nil && ch.Kind == "CompoundStmt" {
					body = ch
				}
			}
			if body == nil {
				return true
			}
			for _, st := range body.Inner {
				if st.Kind != "IfStmt" || len(st.Inner) < 2 {
					continue
				}
				callee := ""
				st.Inner[0].Walk(func(y *CNode) bool {
					if y.Kind == "CallExpr" && len(y.Inner) > 0 && strings.HasPrefix(y.Inner[0].RefName(), "skip_") {
						callee = y.Inner[0].RefName()
					}
					return true
				})
				if callee == "" {
					continue
				}
				seenSkip[callee] = true
				// direct statements of the then-branch that add to n
				then := st.Inner[1]
				for _, t := range then.Inner {
					tt := t.Core()
					if (tt.Kind == "CompoundAssignOperator" && tt.Opcode == "+=" && len(tt.Inner) == 2 && tt.Inner[0].RefName() == "n") ||
						(tt.Kind == "UnaryOperator" && tt.Opcode == "++" && len(tt.Inner) == 1 && tt.Inner[0].RefName() == "n") {
						counted[callee] = true
					}
				}
			}
			return false
		})
		for _, sk := range []string{"skip_lowercase_letters", "skip_digits", "skip_one_char"} {
			c.Check(seenSkip[sk] && counted[sk], base+"#counts:"+sk, token.NoPos, "consumed characters are added to n", fmt.Sprintf("%s in %s consumes characters with %s without adding them to n (seen=%v): names longer than 40 bytes pass the `n > 40` bound", w.fn, w.file, sk, seenSkip[sk]))
		}
	}
	_ = ssa.Value(nil)
}
