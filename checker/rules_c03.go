package main

import (
	"fmt"
	"go/ast"
	"go/token"
	"go/types"
	"sort"
	"strings"

	"golang.org/x/tools/go/ssa"
)

func init() {
	register(&Property{
		ID:          "C03",
		Roots:       []string{"overlord/state", "daemon"},
		Technique:   "constant/table agreement (statusOrder permutation, Ready() set by constant-folding its switch), who-may-write of the ready markers, guarded-sink / loop-latch / ordering reachability on Change.detectChangeReady, Change.Err, daemon.abortChange and the TaskRunner lock order",
		Explanation: "Structural necessary conditions for 'every change settles; status consistent and monotone': (R1) statusOrder is a duplicate-free permutation of every Status constant except Default and Status.Ready() accepts exactly {Done, Undone, Hold, Error}; (R2) Change.readyTime and the ready channel are written only by markReady (first time only) and by unmarshalling, and detectChangeReady reaches markReady only after its loop advanced solely across the excluded task or tasks whose status is Ready(); (R3) daemon.abortChange aborts only a change that is not ready, and the only other caller of Change.Abort is State.Prune on a change with zero ready time; (R4) Change.Err reports nil only when the status is not Error, has no early exit from its task loop, skips a task only when its status is not Error, and examines every line of a failed task's log (no first-match exit); (R5) wherever TaskRunner code takes both locks, r.mu is taken before the state lock, and the functions documented to run with the state lock held take neither; (R6) no reviewed transition leaves a ready status except Done->Undo (abort of finished work); (R7) in the wait aggregation (Change.isTaskWaiting) the dependency statuses that leave the verdict untouched are exactly the ready statuses, Wait forces it true, and Do/Undo recurse over WaitTasks/HaltTasks.",
		NotDecided:  "liveness proper (that handlers return); that the aggregate equals the documented function for every multiset of task statuses (isChangeWaiting / priority scan are value-level).",
		Run:         func(c *Ctx) { runC03(c); runC03x(c); runC03y(c); runC03z(c) },
	})
}

// evalOnConstParam follows fn's CFG for a concrete value of an integer parameter,
// deciding only `param ==/!= const` tests; returns the value returned.
func evalOnConstParam(fn *ssa.Function, param int, val int64) (ssa.Value, bool) {
	b := fn.Blocks[0]
	var prev *ssa.BasicBlock
	for steps := 0; steps < 200; steps++ {
		last := b.Instrs[len(b.Instrs)-1]
		switch x := last.(type) {
		case *ssa.Return:
			if len(x.Results) == 0 {
				return nil, false
			}
			v := x.Results[0]
			if phi, ok := v.(*ssa.Phi); ok && phi.Block() == b {
				for i, p := range b.Preds {
					if p == prev {
						return phi.Edges[i], true
					}
				}
				return nil, false
			}
			return v, true
		case *ssa.Jump:
			prev, b = b, b.Succs[0]
		case *ssa.If:
			c := Decompose(x.Cond)
			if c.Bin == nil {
				return nil, false
			}
			var k int64
			var ok bool
			if IsParam(c.Bin.X, fn, param) {
				k, ok = ConstInt(c.Bin.Y)
			} else if IsParam(c.Bin.Y, fn, param) {
				k, ok = ConstInt(c.Bin.X)
			}
			if !ok {
				return nil, false
			}
			var res bool
			switch c.Bin.Op {
			case token.EQL:
				res = val == k
			case token.NEQ:
				res = val != k
			default:
				return nil, false
			}
			if c.Neg {
				res = !res
			}
			prev = b
			if res {
				b = b.Succs[0]
			} else {
				b = b.Succs[1]
			}
		default:
			return nil, false
		}
	}
	return nil, false
}

func runC03(c *Ctx) {
	P := c.P
	ts := NewTS(P)

	c.Rule("C03-R1", "K", "statusOrder is a permutation of all Status constants except Default; Status.Ready() == {Done, Undone, Hold, Error}", 2)
	pk := P.Pkgs["overlord/state"]
	gOrder := P.Global("overlord/state.statusOrder")
	if cl, ok := P.AstVarInit("overlord/state", "statusOrder").(*ast.CompositeLit); !ok {
		c.Undecided("overlord/state.statusOrder#table", gOrder.Pos(), "not a composite literal")
	} else {
		seen := map[string]int{}
		for _, e := range cl.Elts {
			if id, ok := e.(*ast.Ident); ok {
				if k, ok := pk.TypesInfo.Uses[id].(*types.Const); ok {
					seen[k.Name()]++
				}
			}
		}
		var problems []string
		for v, n := range ts.Names {
			full := n + "Status"
			if v == 0 {
				if seen[full] > 0 {
					problems = append(problems, "DefaultStatus listed")
				}
				continue
			}
			switch seen[full] {
			case 0:
				problems = append(problems, full+" missing (a change whose tasks are only in that status would panic / have no status)")
			case 1:
			default:
				problems = append(problems, full+" listed twice")
			}
		}
		sort.Strings(problems)
		c.Check(len(problems) == 0, "overlord/state.statusOrder#permutation", cl.Pos(), fmt.Sprintf("%d entries: every non-default status exactly once", len(cl.Elts)), strings.Join(problems, "; "))
	}
	readyFn := P.Func("overlord/state.Status.Ready")
	var got uint32
	okEval := true
	for v := range ts.Names {
		r, ok := evalOnConstParam(readyFn, 0, v)
		if !ok {
			okEval = false
			break
		}
		bv, isC := ConstBool(r)
		if !isC {
			okEval = false
			break
		}
		if bv {
			got |= 1 << uint(v)
		}
	}
	if !okEval {
		c.Undecided("overlord/state.Status.Ready#set", readyFn.Pos(), "Ready() is no longer a constant switch on the status; its accepted set cannot be folded")
	} else {
		c.Check(got == ts.Ready, "overlord/state.Status.Ready#set", readyFn.Pos(), "Ready() accepts exactly "+ts.SetString(got), "Ready() accepts "+ts.SetString(got)+" instead of "+ts.SetString(ts.Ready))
	}

	// ---- R2
	c.Rule("C03-R2", "W+G+L", "Change.readyTime / close(c.ready) written only in markReady (first time) and unmarshalling; detectChangeReady -> markReady only after all tasks but the excluded one are Ready()", 5)
	fReadyTime := P.Field("overlord/state.Change.readyTime")
	fReady := P.Field("overlord/state.Change.ready")
	markReady := P.Func("overlord/state.(*Change).markReady")
	markReadyObj := P.FuncObj("overlord/state.(*Change).markReady")
	allowedRT := map[string]bool{"overlord/state.(*Change).markReady": true, "overlord/state.(*Change).UnmarshalJSON": true}
	bad := ""
	n := 0
	for _, st := range P.FieldStores(fReadyTime) {
		n++
		if !allowedRT[SSAFuncName(st.Parent())] {
			bad += " " + SSAFuncName(st.Parent()) + "@" + P.Pos(st.Pos())
		}
	}
	c.Check(bad == "" && n >= 2, "overlord/state.Change.readyTime#writers", fReadyTime.Pos(), fmt.Sprintf("%d stores, in markReady/UnmarshalJSON only", n), "ready time written in"+bad)
	isZero := P.FuncObj("time.Time.IsZero")
	for i, st := range StoresToField(markReady, fReadyTime) {
		c.Guarded(fmt.Sprintf("overlord/state.(*Change).markReady#readyTime-once#%d", i+1), markReady, st, []Clause{{TrueRes("c.readyTime.IsZero()", true, 0, CallWhere(ToFn(isZero), 0, VField(fReadyTime)))}}, nil)
	}
	// close(c.ready)
	allowedClose := map[string]bool{"overlord/state.(*Change).markReady": true, "overlord/state.(*Change).finishUnmarshal": true}
	bad = ""
	n = 0
	for _, fn := range P.FuncsIn("overlord/state") {
		for _, b := range fn.Blocks {
			for _, in := range b.Instrs {
				ci, ok := in.(*ssa.Call)
				if !ok {
					continue
				}
				if bi, ok := ci.Call.Value.(*ssa.Builtin); ok && bi.Name() == "close" && IsFieldLoad(ci.Call.Args[0], fReady) {
					n++
					if !allowedClose[SSAFuncName(fn)] {
						bad += " " + SSAFuncName(fn) + "@" + P.Pos(ci.Pos())
					}
				}
			}
		}
	}
	c.Check(bad == "" && n >= 2, "overlord/state.Change.ready#closers", fReady.Pos(), fmt.Sprintf("%d close sites, in markReady/finishUnmarshal only", n), "ready channel closed in"+bad)
	// the ready channel is never replaced after construction
	bad = ""
	for _, st := range P.FieldStores(fReady) {
		nm := SSAFuncName(st.Parent())
		if nm != "overlord/state.newChange" && nm != "overlord/state.(*Change).UnmarshalJSON" {
			bad += " " + nm
		}
	}
	c.Check(bad == "", "overlord/state.Change.ready#writers", fReady.Pos(), "the ready channel is created only by newChange/UnmarshalJSON", "ready channel replaced in"+bad+" (a change reported ready could be reported in progress again)")
	// callers of markReady
	for _, u := range P.UsesOf(markReadyObj) {
		nm := SSAFuncName(u.Fn)
		ok := nm == "overlord/state.(*Change).SetStatus" || nm == "overlord/state.(*Change).detectChangeReady"
		c.Check(ok && u.AsCall, "markReady-caller:"+nm, u.Instr.Pos(), "reviewed caller", "markReady called from "+nm)
	}
	// Change.SetStatus: markReady <= s.Ready()
	css := P.Func("overlord/state.(*Change).SetStatus")
	readyObj := P.FuncObj("overlord/state.Status.Ready")
	for i, mc := range CallSites(css, markReadyObj) {
		c.Guarded(fmt.Sprintf("overlord/state.(*Change).SetStatus#markReady#%d", i+1), css, mc, []Clause{{TrueRes("s.Ready()", true, 0, CallWhere(ToFn(readyObj), 0, VParam(css, 1)))}}, nil)
	}
	dcr := P.Func("overlord/state.(*Change).detectChangeReady")
	fTaskIDs := P.Field("overlord/state.Change.taskIDs")
	fTStatus := P.Field("overlord/state.Task.status")
	dl := LoopsOver(dcr, VField(fTaskIDs))
	if len(dl) == 0 {
		// the scan as a boolean helper: if !c.allTasksReadyExcept(excludeTask) { return }
		for _, hc := range localCalls(dcr) {
			hl := LoopsOver(hc.h, VField(fTaskIDs))
			obj, isF := hc.h.Object().(*types.Func)
			if len(hl) != 1 || !isF || hc.cc.Parent() != dcr || hc.h.Signature.Results().Len() != 1 {
				continue
			}
			c.touch(hc.h)
			ei := -1
			for j, a := range hc.cc.Common().Args {
				if VParam(dcr, 1)(a) {
					ei = j
				}
			}
			if ei < 0 {
				continue
			}
			c.LatchGated("overlord/state.(*Change).detectChangeReady#loop", hl[0], []Clause{{
				Cmp("task==excludeTask", anyVal, token.EQL, VParam(hc.h, ei)),
				TrueRes("task.status.Ready()", true, 0, CallWhere(ToFn(readyObj), 0, VField(fTStatus))),
			}})
			nt := 0
			for _, lf := range ReturnLeaves(hc.h, 0) {
				if bv, isC := ConstBool(lf.Val); isC && bv {
					nt++
					c.ThroughLoop(fmt.Sprintf("overlord/state.(*Change).detectChangeReady#all-ready-only-after-loop#%d", nt), hl[0], lf)
				} else if !isC {
					c.Undecided("overlord/state.(*Change).detectChangeReady#helper-verdict", lf.Pos(), "the helper returns a computed value")
				}
			}
			allReady := TrueRes(hc.h.Name()+"(excludeTask)", true, 0, ToFn(obj))
			for i, mc := range CallSites(dcr, markReadyObj) {
				c.Guarded(fmt.Sprintf("overlord/state.(*Change).detectChangeReady#markReady-after-loop#%d", i+1), dcr, mc, []Clause{{allReady}}, nil)
			}
			dl = append(dl, hl[0])
			goto dcrDone
		}
	}
	if len(dl) != 1 {
		c.Undecided("overlord/state.(*Change).detectChangeReady#loop", dcr.Pos(), fmt.Sprintf("expected one loop over c.taskIDs, found %d", len(dl)))
	} else {
		rl := dl[0]
		c.LatchGated("overlord/state.(*Change).detectChangeReady#loop", rl, []Clause{{
			Cmp("task==excludeTask", anyVal, token.EQL, VParam(dcr, 1)),
			TrueRes("task.status.Ready()", true, 0, CallWhere(ToFn(readyObj), 0, VField(fTStatus))),
		}})
		for i, mc := range CallSites(dcr, markReadyObj) {
			c.ThroughLoop(fmt.Sprintf("overlord/state.(*Change).detectChangeReady#markReady-after-loop#%d", i+1), rl, FlowPoint{Instr: mc})
		}
	}
dcrDone:

	// ---- R3
	c.Rule("C03-R3", "G+W", "daemon.abortChange: chg.Abort() <= !chg.IsReady(); the only other caller of Change.Abort is State.Prune under readyTime.IsZero()", 2)
	abortObj := P.FuncObj("overlord/state.(*Change).Abort")
	isReadyObj := P.FuncObj("overlord/state.(*Change).IsReady")
	for _, u := range P.UsesOf(abortObj) {
		nm := SSAFuncName(u.Fn)
		ci, _ := u.Instr.(ssa.CallInstruction)
		switch {
		case nm == "daemon.abortChange" && u.AsCall:
			recv := CallRecv(ci)
			c.Guarded("daemon.abortChange#abort", u.Fn, u.Instr, []Clause{{TrueRes("!chg.IsReady()", false, 0, RecvWhere(ToFn(isReadyObj), VIs(recv)))}}, nil)
		case nm == "overlord/state.(*State).Prune" && u.AsCall:
			readyTimeFn := P.FuncObj("overlord/state.(*Change).ReadyTime")
			recv := CallRecv(ci)
			c.Guarded("overlord/state.(*State).Prune#abort", u.Fn, u.Instr, []Clause{{TrueRes("chg.ReadyTime().IsZero()", true, 0, CallWhere(ToFn(isZero), 0, VRes(0, RecvWhere(ToFn(readyTimeFn), VIs(recv)))))}}, nil)
		default:
			c.Violated("abort-caller:"+nm, u.Instr.Pos(), "Change.Abort used in "+nm+": a ready change could be aborted (and reported in progress again)")
		}
	}

	// ---- R4
	c.Rule("C03-R4", "G+L", "Change.Err: nil only when Status()!=Error; no early exit from the task loop; a task is skipped only when its status is not Error; every line of a failed task's log is examined", 3)
	errFn := P.Func("overlord/state.(*Change).Err")
	chStatus := P.FuncObj("overlord/state.(*Change).Status")
	tStatus := P.FuncObj("overlord/state.(*Task).Status")
	cErr := P.Const("overlord/state.ErrorStatus")
	for i, lf := range nilLeaves(errFn, 0) {
		c.GuardedFlow(fmt.Sprintf("overlord/state.(*Change).Err#nil#%d", i+1), errFn, lf, []Clause{{Cmp("c.Status()!=Error", VRes(0, ToFn(chStatus)), token.NEQ, VConstObj(cErr))}}, nil)
	}
	el := LoopsOver(errFn, VField(fTaskIDs))
	if len(el) != 1 {
		c.Undecided("overlord/state.(*Change).Err#loop", errFn.Pos(), fmt.Sprintf("expected one loop over c.taskIDs, found %d", len(el)))
	} else {
		rl := el[0]
		q := ReachQ{Fn: errFn, From: &Loc{rl.Body, -1}, CutEdge: func(b *ssa.BasicBlock, s int) bool { return b == rl.Header && b.Succs[s] == rl.Done },
			Sink: func(in ssa.Instruction) bool { _, ok := in.(*ssa.Return); return ok }}
		r := q.Run()
		c.Check(!r.Found, "overlord/state.(*Change).Err#no-early-exit", rl.Body.Instrs[0].Pos(), "the loop over the change's tasks has no early exit", "Change.Err can stop before visiting every task: "+P.PathString(r.Path))
		// skipping: next iteration without entering the log loop only across Status()!=Error
		var inner *RangeLoop
		logObj := P.FuncObj("overlord/state.(*Task).Log")
		for _, x := range LoopsOver(errFn, VRes(0, ToFn(logObj))) {
			if x.Header != rl.Header && rl.Body.Dominates(x.Header) {
				inner = x
			}
		}
		// every logged error line is reported: the loop over task.Log() (here or in a same-package
		// helper given the task) runs to exhaustion
		exhaust := func(fn *ssa.Function, x *RangeLoop, where string) {
			q := ReachQ{Fn: fn, From: &Loc{x.Body, -1},
				CutEdge:  func(b *ssa.BasicBlock, s int) bool { return b == x.Header && b.Succs[s] == x.Done },
				Sink:     func(in ssa.Instruction) bool { _, ok := in.(*ssa.Return); return ok },
				SinkEdge: func(b *ssa.BasicBlock, s int) bool { return b != x.Header && b.Succs[s] == x.Done }}
			r := q.Run()
			c.touch(fn)
			c.Check(!r.Found, "overlord/state.(*Change).Err#log-loop-exhausted", x.Body.Instrs[0].Pos(), "every line of a failed task's log is examined ("+where+")", "the scan of a failed task's log in "+where+" can stop early (first ERROR line wins): the error the task finally failed with is dropped from the change error when an earlier non-fatal error was logged; path: "+P.PathString(r.Path))
		}
		if inner != nil {
			exhaust(errFn, inner, "Change.Err")
		} else {
			found := false
			for _, b := range errFn.Blocks {
				for _, in := range b.Instrs {
					ci, ok := in.(*ssa.Call)
					if !ok || !rl.Body.Dominates(b) {
						continue
					}
					sf := ci.Call.StaticCallee()
					if sf == nil || sf.Blocks == nil || sf.Pkg != errFn.Pkg {
						continue
					}
					for _, x := range LoopsOver(sf, VRes(0, ToFn(logObj))) {
						found = true
						exhaust(sf, x, SSAFuncName(sf))
					}
				}
			}
			if !found {
				c.Undecided("overlord/state.(*Change).Err#log-loop", errFn.Pos(), "loop over the failed task's log not found in Err or a helper it calls")
			}
		}
		if inner != nil {
			notErr := Cmp("task.Status()!=Error", VRes(0, ToFn(tStatus)), token.NEQ, VConstObj(cErr))
			q := ReachQ{Fn: errFn, From: &Loc{rl.Body, -1},
				CutEdge: func(b *ssa.BasicBlock, s int) bool {
					return AtomEdges(notErr)(b, s) || b.Succs[s] == inner.Header || b.Succs[s] == rl.Done
				},
				SinkEdge: func(b *ssa.BasicBlock, s int) bool { return b.Succs[s] == rl.Header }}
			r := q.Run()
			c.Check(!r.Found, "overlord/state.(*Change).Err#skip-only-non-error", rl.Body.Instrs[0].Pos(), "a task's log is skipped only when its status is not Error", "a failed task can be skipped without reading its log: "+P.PathString(r.Path))
		}
	}

	// ---- R5
	c.Rule("C03-R5", "O", "TaskRunner lock order: r.mu before r.state wherever both are taken; run/clean/abortLanes/tryUndo take neither", 4)
	fMu := P.Field("overlord/state.TaskRunner.mu")
	stateLock := P.FuncObj("overlord/state.(*State).Lock")
	muLockM := func(ci ssa.CallInstruction) bool {
		co := CalleeOf(ci)
		if co == nil || co.Name() != "Lock" || co.Pkg() == nil || co.Pkg().Path() != "sync" {
			return false
		}
		r := CallRecv(ci)
		fa, ok := r.(*ssa.FieldAddr)
		return ok && fieldOfAddr(fa) == fMu
	}
	held := map[string]bool{"overlord/state.(*TaskRunner).run": true, "overlord/state.(*TaskRunner).clean": true, "overlord/state.(*TaskRunner).abortLanes": true, "overlord/state.(*TaskRunner).tryUndo": true}
	for _, fn := range P.FuncsIn("overlord/state") {
		nm := SSAFuncName(fn)
		if !strings.HasPrefix(nm, "overlord/state.(*TaskRunner).") {
			continue
		}
		var mus, sts []ssa.CallInstruction
		for _, b := range fn.Blocks {
			for _, in := range b.Instrs {
				ci, ok := in.(ssa.CallInstruction)
				if !ok {
					continue
				}
				if _, isDefer := in.(*ssa.Defer); isDefer {
					continue
				}
				if muLockM(ci) {
					mus = append(mus, ci)
				}
				if ToFn(stateLock)(ci) {
					sts = append(sts, ci)
				}
			}
		}
		if held[nm] {
			c.Check(len(mus) == 0 && len(sts) == 0, nm+"#takes-no-lock", fn.Pos(), "runs with the state lock held and takes no lock itself", nm+" is documented to run under the state lock but takes a lock itself (self-deadlock or order inversion)")
			continue
		}
		for i, sl := range sts {
			if len(mus) == 0 {
				// taking only the state lock is fine unless a caller holds r.mu — out of scope
				continue
			}
			c.Before(fmt.Sprintf("%s#mu-before-state#%d", nm, i+1), fn, func(in ssa.Instruction) bool {
				ci, ok := in.(ssa.CallInstruction)
				if _, isDefer := in.(*ssa.Defer); isDefer {
					return false
				}
				return ok && muLockM(ci)
			}, "r.mu.Lock()", sl, nil)
		}
	}

	// ---- R6
	c.Rule("C03-R6", "T", "no reviewed transition leaves a ready status, except Done->Undo (abort of finished work)", 10)
	trans := extractTransitions(c, ts)
	var fnames []string
	for f := range trans {
		fnames = append(fnames, f)
	}
	sort.Strings(fnames)
	for _, f := range fnames {
		for i, s := range trans[f] {
			to := "?"
			if s.To >= 0 {
				to = ts.Names[s.To]
			}
			if s.From == ts.All || (to == "Wait" && s.From == ts.All&^ts.Bit("Abort")) {
				continue // status not re-observed at this site (handler-error / wait branch): not decidable here
			}
			leaves := s.From & ts.Ready
			ok := leaves == 0 || (leaves == ts.Bit("Done") && to == "Undo")
			c.Check(ok, fmt.Sprintf("%s#set-%s#%d", f, to, i+1), s.Call.Pos(), "transition "+ts.SiteString(s)+" does not leave a ready status (or is Done->Undo)", "transition "+ts.SiteString(s)+" leaves a ready status: a settled task (and change) becomes pending again")
		}
	}

	// ---- R7
	c.Rule("C03-R7", "T", "wait aggregation: in Change.isTaskWaiting the dependency statuses that leave the verdict untouched are exactly the ready statuses; a dependency in Wait makes the verdict true; Do/Undo recurse over WaitTasks/HaltTasks respectively", 3)
	itw := P.Func("overlord/state.(*Change).isTaskWaiting")
	c.touch(itw)
	var depLoop *RangeLoop
	for _, rl := range RangeLoops(itw) {
		if rl.Coll != nil && IsParam(rl.Coll, itw, 3) {
			depLoop = rl
		}
	}
	if depLoop == nil || depLoop.Elem == nil {
		c.Undecided("overlord/state.(*Change).isTaskWaiting#deps-loop", itw.Pos(), "loop over the deps parameter not recognised")
	} else {
		key := TaskKey(depLoop.Elem)
		edges := ts.EdgeStates(itw, key, ts.All)
		// the loop-carried verdict: a boolean phi in the loop header
		var verdict *ssa.Phi
		for _, in := range depLoop.Header.Instrs {
			if phi, ok := in.(*ssa.Phi); ok && isBoolType(phi.Type()) {
				verdict = phi
			}
		}
		if verdict == nil {
			c.Undecided("overlord/state.(*Change).isTaskWaiting#verdict", itw.Pos(), "loop-carried boolean verdict not found in the loop header")
		} else {
			var keep, setTrue uint32
			recur := map[string]uint32{}
			for i, pb := range depLoop.Header.Preds {
				st := edges[[2]*ssa.BasicBlock{pb, depLoop.Header}]
				if !depLoop.Header.Dominates(pb) {
					continue // entry edge
				}
				e := verdict.Edges[i]
				switch {
				case e == ssa.Value(verdict):
					keep |= st
				case func() bool { v, ok := ConstBool(e); return ok && v }():
					setTrue |= st
				default:
					if cc, _, ok := CallResult(e); ok && ToFn(P.FuncObj("overlord/state.(*Change).isTaskWaiting"))(cc) {
						a := cc.Common().Args
						which := "?"
						if len(a) == 4 {
							if VRes(0, ToFn(P.FuncObj("overlord/state.(*Task).WaitTasks")))(a[3]) {
								which = "WaitTasks"
							} else if VRes(0, ToFn(P.FuncObj("overlord/state.(*Task).HaltTasks")))(a[3]) {
								which = "HaltTasks"
							}
						}
						recur[which] |= st
					}
				}
			}
			c.Check(keep == ts.Ready, "overlord/state.(*Change).isTaskWaiting#settled-deps", verdict.Pos(), "dependencies that do not affect the verdict: "+ts.SetString(keep), fmt.Sprintf("dependencies in %s leave the wait verdict untouched; it must be exactly the ready statuses %s (a Hold/Error/Done/Undone sibling must not turn a waiting change into a running one)", ts.SetString(keep), ts.SetString(ts.Ready)))
			c.Check(setTrue == ts.Bit("Wait"), "overlord/state.(*Change).isTaskWaiting#wait-dep", verdict.Pos(), "a dependency in Wait makes the verdict true", fmt.Sprintf("the verdict is forced true for dependencies in %s, expected {Wait}", ts.SetString(setTrue)))
			c.Check(recur["WaitTasks"] == ts.Bit("Do") && recur["HaltTasks"] == ts.Bit("Undo") && len(recur) == 2, "overlord/state.(*Change).isTaskWaiting#recursion", verdict.Pos(), "Do recurses over WaitTasks, Undo over HaltTasks", fmt.Sprintf("recursion table is WaitTasks:%s HaltTasks:%s other:%s; expected Do over WaitTasks and Undo over HaltTasks", ts.SetString(recur["WaitTasks"]), ts.SetString(recur["HaltTasks"]), ts.SetString(recur["?"])))
		}
	}
}
