package main

import (
	"fmt"
	"go/token"
	"strings"

	"golang.org/x/tools/go/ssa"
)

func init() {
	register(&Property{
		ID:          "C25",
		Roots:       []string{"overlord/hookstate/ctlcmd"},
		Technique:   "guarded-sink reachability on the SSA CFG of ctlcmd.Run and isAllowedToRun + constant-table check of nonRootAllowed + who-may-use of the command registry",
		Explanation: "Structural necessary conditions for 'non-root callers can only run read-only snapctl commands': (R1) in ctlcmd.Run the go-flags ParseArgs call (the only place commands execute) is cut from the entry by isAllowedToRun(uid,args)==true on the caller's own uid and argument vector; (R2) every `return true` of isAllowedToRun is cut by uid==0, or (idx==0 and membership in nonRootAllowed), or arg being -h/--help, and nothing returns true after the `--` terminator; (R3) nonRootAllowed is a constant table within the six names of the property and is only ever read as the haystack of ListContains; (R4) command generators are invoked only in Run and the registry is written only by addCommand.",
		NotDecided:  "how the go-flags parser interprets the same argument vector (scan/parse mismatch is a runtime question); what each allowed command does.",
		Run:         func(c *Ctx) { runC25(c); runC25x(c) },
	})
}

func runC25(c *Ctx) {
	P := c.P
	run := P.Func("overlord/hookstate/ctlcmd.Run")
	allowedFn := P.Func("overlord/hookstate/ctlcmd.isAllowedToRun")
	allowed := P.FuncObj("overlord/hookstate/ctlcmd.isAllowedToRun")
	gNonRoot := P.Global("overlord/hookstate/ctlcmd.nonRootAllowed")
	gCommands := P.Global("overlord/hookstate/ctlcmd.commands")
	listContains := P.FuncObj("strutil.ListContains")

	c.Rule("C25-R1", "G", "ctlcmd.Run: parser.ParseArgs(args) <= isAllowedToRun(uid, args) == true, applied to Run's own uid and args", 3)
	var parse []ssa.CallInstruction
	for _, b := range run.Blocks {
		for _, in := range b.Instrs {
			if ci, ok := in.(ssa.CallInstruction); ok {
				if co := CalleeOf(ci); co != nil && co.Name() == "ParseArgs" && co.Pkg() != nil && strings.HasSuffix(co.Pkg().Path(), "go-flags") {
					parse = append(parse, ci)
				}
			}
		}
	}
	okAtom := TrueRes("isAllowedToRun(uid,args)", true, 0, ToFn(allowed))
	for i, ci := range parse {
		c.Guarded(fmt.Sprintf("ctlcmd.Run#ParseArgs#%d", i+1), run, ci, []Clause{{okAtom}}, nil)
		a := CallArgs(ci)
		c.Check(len(a) == 1 && IsParam(a[0], run, 1), fmt.Sprintf("ctlcmd.Run#ParseArgs-vector#%d", i+1), ci.Pos(), "the vector parsed is the vector that was checked (Run's args)", "ParseArgs is given something other than the checked args")
	}
	if len(parse) == 0 {
		c.Undecided("ctlcmd.Run#ParseArgs", run.Pos(), "no go-flags ParseArgs call found in Run")
	}
	for _, ci := range CallSites(run, allowed) {
		a := CallArgs(ci)
		c.Check(len(a) == 2 && IsParam(a[0], run, 2) && IsParam(a[1], run, 1), "ctlcmd.Run#check-arguments", ci.Pos(), "isAllowedToRun receives Run's uid and args", "isAllowedToRun is not applied to the caller's uid and argument vector")
	}
	// Execute is never called directly in this package outside go-flags
	c.Rule("C25-R2", "G", "isAllowedToRun: `return true` <= uid==0 | (idx==0 & ListContains(nonRootAllowed,arg)) | arg==-h | arg==--help; no `true` after `--`", 4)
	arg := VElemOf(VParam(allowedFn, 1))
	uid0 := Cmp("uid==0", VParam(allowedFn, 0), token.EQL, VConstInt(0))
	inList := Atom{Name: "ListContains(nonRootAllowed,arg)", Match: func(cd Cond) Pol {
		return cd.BoolIs(func(v ssa.Value) bool {
			ci, _, ok := CallResult(v)
			if !ok || !ToFn(listContains)(ci) {
				return false
			}
			a := ci.Common().Args
			return VGlobal(gNonRoot)(a[0]) && arg(a[1])
		})
	}}
	idx0 := Cmp("idx==0", anyVal, token.EQL, VConstInt(0))
	// the same test written on args[0] directly
	inListAt0 := Atom{Name: "ListContains(nonRootAllowed,args[0])", Match: func(cd Cond) Pol {
		return cd.BoolIs(func(v ssa.Value) bool {
			ci, _, ok := CallResult(v)
			if !ok || !ToFn(listContains)(ci) {
				return false
			}
			a := ci.Common().Args
			if !VGlobal(gNonRoot)(a[0]) {
				return false
			}
			ld, ok := Strip(a[1]).(*ssa.UnOp)
			if !ok || ld.Op != token.MUL {
				return false
			}
			ia, ok := ld.X.(*ssa.IndexAddr)
			return ok && VParam(allowedFn, 1)(ia.X) && VConstInt(0)(ia.Index)
		})
	}}
	isH := Cmp(`arg=="-h"`, arg, token.EQL, VConstStr("-h"))
	isHelp := Cmp(`arg=="--help"`, arg, token.EQL, VConstStr("--help"))
	n := 0
	for _, lf := range ReturnLeaves(allowedFn, 0) {
		if b, ok := ConstBool(lf.Val); ok && !b {
			continue
		}
		n++
		if _, ok := ConstBool(lf.Val); !ok {
			c.Undecided(fmt.Sprintf("ctlcmd.isAllowedToRun#return#%d", n), lf.Pos(), "verdict is not a constant; the rule cannot classify it")
			continue
		}
		c.GuardedFlow(fmt.Sprintf("ctlcmd.isAllowedToRun#return-true#%d", n), allowedFn, lf, []Clause{
			{uid0, inList, inListAt0, isH, isHelp},
			{uid0, idx0, inListAt0, isH, isHelp},
		}, nil)
	}
	// terminator
	dd := Cmp(`arg=="--"`, arg, token.EQL, VConstStr("--"))
	nt := 0
	for _, b := range allowedFn.Blocks {
		for si := range b.Succs {
			if !AtomEdges(dd)(b, si) {
				continue
			}
			nt++
			q := ReachQ{Fn: allowedFn, From: &Loc{b.Succs[si], -1}, Sink: func(in ssa.Instruction) bool {
				r, ok := in.(*ssa.Return)
				if !ok {
					return false
				}
				v, isC := ConstBool(r.Results[0])
				return !isC || v
			}}
			r := q.Run()
			c.Check(!r.Found, fmt.Sprintf("ctlcmd.isAllowedToRun#after-terminator#%d", nt), b.Instrs[len(b.Instrs)-1].Pos(), "after the `--` terminator only `false` can be returned", "a true verdict is reachable after the `--` terminator: "+P.PathString(r.Path))
		}
	}
	if nt == 0 {
		c.Violated("ctlcmd.isAllowedToRun#terminator", allowedFn.Pos(), "the scan no longer stops at `--`: arguments after the terminator (plain operands for the parser) can make a forbidden command look like a help request")
	}

	c.Rule("C25-R3", "K+W", "nonRootAllowed is a constant table within {get, services, set-health, is-connected, system-mode, model} and is only read as ListContains' haystack", 2)
	want := map[string]bool{"get": true, "services": true, "set-health": true, "is-connected": true, "system-mode": true, "model": true}
	elts, ok := P.ConstStringsOf("overlord/hookstate/ctlcmd", P.AstVarInit("overlord/hookstate/ctlcmd", "nonRootAllowed"))
	if !ok {
		c.Undecided("ctlcmd.nonRootAllowed#table", gNonRoot.Pos(), "initialiser is not a literal of string constants")
	} else {
		var extra []string
		for _, e := range elts {
			if !want[e] {
				extra = append(extra, e)
			}
		}
		c.Check(len(extra) == 0 && len(elts) > 0, "ctlcmd.nonRootAllowed#table", gNonRoot.Pos(), fmt.Sprintf("%d entries, all within the six read-only commands", len(elts)), "commands outside the property's list are allowed to non-root: "+strings.Join(extra, ", "))
	}
	bad := ""
	uses := 0
	for _, in := range P.GlobalUses(gNonRoot) {
		uses++
		switch x := in.(type) {
		case *ssa.Store:
			if x.Parent().Name() != "init" {
				bad += " stored in " + SSAFuncName(x.Parent()) + " at " + P.Pos(x.Pos()) + ";"
			}
		case *ssa.UnOp:
			for _, r := range *x.Referrers() {
				ci, isCall := r.(ssa.CallInstruction)
				if _, dbg := r.(*ssa.DebugRef); dbg {
					continue
				}
				if !isCall || !ToFn(listContains)(ci) || ci.Common().Args[0] != ssa.Value(x) {
					bad += " used other than as ListContains haystack in " + SSAFuncName(x.Parent()) + " at " + P.Pos(r.Pos()) + ";"
				}
			}
		case *ssa.DebugRef:
		default:
			bad += fmt.Sprintf(" %T in %s at %s;", in, SSAFuncName(in.Parent()), P.Pos(in.Pos()))
		}
	}
	c.Check(bad == "" && uses >= 2, "ctlcmd.nonRootAllowed#uses", gNonRoot.Pos(), fmt.Sprintf("%d uses: the initialiser and ListContains haystack reads", uses), "table can be modified or is used otherwise:"+bad)

	c.Rule("C25-R4", "W", "commandInfo.generator is loaded only in Run; the commands registry is written only by addCommand", 2)
	fGen := P.Field("overlord/hookstate/ctlcmd.commandInfo.generator")
	bad = ""
	loads := 0
	for _, fa := range P.FieldAddrsOf(fGen) {
		for _, r := range *fa.Referrers() {
			if _, ok := r.(*ssa.UnOp); ok {
				loads++
				if fa.Parent() != run && !P.PrivateHelperOf(fa.Parent(), map[string]bool{SSAFuncName(run): true}) {
					bad += " loaded in " + SSAFuncName(fa.Parent()) + " at " + P.Pos(r.Pos()) + ";"
				}
			}
		}
	}
	c.Check(bad == "" && loads >= 1, "ctlcmd.commandInfo.generator#loads", fGen.Pos(), fmt.Sprintf("%d load(s), all in Run (behind the R1 gate? no: before it, but commands only execute inside ParseArgs)", loads), "command generators are invoked outside Run:"+bad)
	bad = ""
	writes := 0
	addCmd := P.Func("overlord/hookstate/ctlcmd.addCommand")
	for _, in := range P.GlobalUses(gCommands) {
		ld, ok := in.(*ssa.UnOp)
		if !ok {
			if st, ok := in.(*ssa.Store); ok && st.Parent().Name() != "init" {
				bad += " registry replaced in " + SSAFuncName(st.Parent()) + ";"
			}
			continue
		}
		for _, r := range *ld.Referrers() {
			if mu, ok := r.(*ssa.MapUpdate); ok && mu.Map == ssa.Value(ld) {
				writes++
				if mu.Parent() != addCmd {
					bad += " written in " + SSAFuncName(mu.Parent()) + " at " + P.Pos(mu.Pos()) + ";"
				}
			}
			if ci, ok := r.(ssa.CallInstruction); ok {
				if bi, ok := ci.Common().Value.(*ssa.Builtin); ok && bi.Name() == "delete" {
					bad += " delete in " + SSAFuncName(ci.Parent()) + ";"
				}
			}
		}
	}
	c.Check(bad == "" && writes == 1, "ctlcmd.commands#writers", gCommands.Pos(), "written only in addCommand", "registry written outside addCommand:"+bad)
}
