package main

import (
	"fmt"
	"go/token"
	"go/types"

	"golang.org/x/tools/go/ssa"
)

var stateCodecs = []CodecSpec{
	{Obj: "overlord/state.State", Wire: "overlord/state.marshalledState", Marshal: "overlord/state.(*State).MarshalJSON", Unmarshal: "overlord/state.(*State).UnmarshalJSON",
		Required: []string{"data", "changes", "tasks", "warnings", "notices", "lastTaskId", "lastChangeId", "lastLaneId", "lastNoticeId", "lastNoticeTimestamp"}},
	{Obj: "overlord/state.Task", Wire: "overlord/state.marshalledTask", Marshal: "overlord/state.(*Task).MarshalJSON", Unmarshal: "overlord/state.(*Task).UnmarshalJSON",
		Required: []string{"id", "kind", "status", "waitedStatus", "waitTasks", "haltTasks", "lanes", "data", "log", "atTime", "change", "clean"}},
	{Obj: "overlord/state.Change", Wire: "overlord/state.marshalledChange", Marshal: "overlord/state.(*Change).MarshalJSON", Unmarshal: "overlord/state.(*Change).UnmarshalJSON",
		Required: []string{"id", "kind", "summary", "status", "taskIDs", "data", "readyTime", "spawnTime", "clean"}},
	{Obj: "overlord/state.Notice", Wire: "overlord/state.jsonNotice", Marshal: "overlord/state.(*Notice).MarshalJSON", Unmarshal: "overlord/state.(*Notice).UnmarshalJSON",
		Required: []string{"id", "userID", "noticeType", "key", "firstOccurred", "lastOccurred", "lastRepeated", "occurrences", "repeatAfter", "expireAfter"}},
	{Obj: "overlord/state.Warning", Wire: "overlord/state.jsonWarning", Marshal: "overlord/state.(*Warning).MarshalJSON", Unmarshal: "overlord/state.(*Warning).UnmarshalJSON",
		Required: []string{"message", "firstAdded", "lastAdded", "lastShown", "expireAfter", "repeatAfter"}},
}

func init() {
	register(&Property{
		ID:          "C05",
		Roots:       []string{"overlord/state"},
		Technique:   "codec agreement by backward value provenance over SSA (writer relation wire-field <- object-fields vs reader relation object-field <- wire-fields) for the five state codecs; who-may-write + increment-shape check of the id counters",
		Explanation: "Structural necessary conditions for 'persisted state reloads to the same state; IDs never reused': (R1) for State, Task, Change, Notice and Warning the relation {(object field, wire field)} extracted from MarshalJSON equals the one extracted from UnmarshalJSON (through the flatten/unflatten, String/ParseDuration and pointer adapters): nothing is saved that is not restored into the same field, and vice versa; (R2) every field the property lists (statuses, waited status, wait/halt edges, lanes, data, log, at-time, change link, task ids, ready/spawn times, notice repeat/expire/last-repeated, the id counters and the last notice timestamp) is in that relation; (R3) the four id counters are written only as `x = x + 1` in their allocator and from the wire struct on load, and the id handed out is formatted from the just-incremented counter; (R4) the only non-identity adapter on load, waitedStatus Default -> Done, is present exactly in that form.",
		NotDecided:  "the JSON library's value-level round trip (time zones, number precision); contents of custom data.",
		Run:         func(c *Ctx) { runC05(c); runC05x(c); runC05z(c) },
	})
}

func runC05(c *Ctx) {
	P := c.P
	c.Rule("C05-R1", "C", "writer/reader field relations of the five state codecs agree", 50)
	for _, spec := range stateCodecs {
		sp := spec
		sp.Required = nil
		c.CheckCodec("C05-R1", sp)
	}
	c.Rule("C05-R2", "C", "fields the property requires to survive a restart are saved and restored", 40)
	for _, spec := range stateCodecs {
		objT := P.NamedType(spec.Obj)
		saved := c.persistedFields(spec)
		os := objT.Underlying().(*types.Struct)
		for _, name := range spec.Required {
			var g *types.Var
			for i := 0; i < os.NumFields(); i++ {
				if os.Field(i).Name() == name {
					g = os.Field(i)
				}
			}
			construct := fmt.Sprintf("%s.%s#persisted", objT.Obj().Name(), name)
			if g == nil {
				c.Undecided(construct, objT.Obj().Pos(), "required field no longer exists under that name")
				continue
			}
			c.Check(saved[g], construct, g.Pos(), "saved by MarshalJSON (and restored, by R1)", fmt.Sprintf("%s.%s must survive a restart but MarshalJSON does not save it", objT.Obj().Name(), name))
		}
	}

	c.Rule("C05-R5", "C", "writer: whether/what a wire field is written depends only on the object fields it carries; reader: persisted fields are restored from the wire struct only (no invented defaults)", 60)
	for _, spec := range stateCodecs {
		c.CheckCodecControl(spec, map[string]string{
			"waitedStatus": "documented back-compat default Default -> Done (R4 checks its exact form)",
		})
	}

	c.Rule("C05-R3", "W+G", "id counters: stored only as x = x + 1 in their allocator and from the wire struct in UnmarshalJSON; the id handed out is Itoa of the incremented counter", 8)
	itoa := P.FuncObj("strconv.Itoa")
	for _, cn := range []struct{ field, alloc string }{
		{"lastTaskId", "overlord/state.(*State).NewTask"},
		{"lastChangeId", "overlord/state.(*State).NewChange"},
		{"lastLaneId", "overlord/state.(*State).NewLane"},
		{"lastNoticeId", "overlord/state.(*State).AddNotice"},
	} {
		f := P.Field("overlord/state.State." + cn.field)
		bad := ""
		n := 0
		for _, st := range P.FieldStores(f) {
			n++
			nm := SSAFuncName(st.Parent())
			switch nm {
			case cn.alloc:
				add, ok := st.Val.(*ssa.BinOp)
				if !(ok && add.Op == token.ADD && IsFieldLoad(add.X, f) && VConstInt(1)(add.Y)) {
					bad += fmt.Sprintf(" %s stores something other than %s+1 at %s;", nm, cn.field, P.Pos(st.Pos()))
				}
			case "overlord/state.(*State).UnmarshalJSON":
			default:
				// a reload helper: unexported, and called only from State.UnmarshalJSON
				helperOK := false
				if fo, ok := st.Parent().Object().(*types.Func); ok && !fo.Exported() {
					uses := P.UsesOf(fo)
					helperOK = len(uses) > 0
					for _, u := range uses {
						if u.Fn == nil || SSAFuncName(u.Fn) != "overlord/state.(*State).UnmarshalJSON" || !u.AsCall {
							helperOK = false
						}
					}
				}
				if !helperOK {
					bad += fmt.Sprintf(" written in %s at %s;", nm, P.Pos(st.Pos()))
				}
			}
		}
		// every successful reload restores the counter
		su := P.Func("overlord/state.(*State).UnmarshalJSON")
		var mustStore func(fn *ssa.Function, recv ssa.Value, depth int) (bool, []*ssa.BasicBlock)
		mustStore = func(fn *ssa.Function, recv ssa.Value, depth int) (bool, []*ssa.BasicBlock) {
			cut := func(in ssa.Instruction) bool {
				switch x := in.(type) {
				case *ssa.Store:
					if fa, ok := x.Addr.(*ssa.FieldAddr); ok && fieldOfAddr(fa) == f && fa.X == recv {
						return true
					}
				case *ssa.Call:
					sf := x.Call.StaticCallee()
					if sf == nil || sf.Blocks == nil || sf.Pkg != fn.Pkg || depth >= 2 {
						return false
					}
					for i, a := range x.Call.Args {
						if a == recv && i < len(sf.Params) {
							if ok, _ := mustStore(sf, sf.Params[i], depth+1); ok {
								return true
							}
						}
					}
				}
				return false
			}
			sink := func(in ssa.Instruction) bool {
				r, ok := in.(*ssa.Return)
				if !ok {
					return false
				}
				if len(r.Results) == 0 {
					return true
				}
				last := r.Results[len(r.Results)-1]
				return !isErrorType(last.Type()) || IsNilConst(last)
			}
			r := ReachQ{Fn: fn, CutInstr: cut, Sink: sink}.Run()
			return !r.Found, r.Path
		}
		okRestore, path := mustStore(su, su.Params[0], 0)
		c.Check(okRestore, "overlord/state.State."+cn.field+"#restored-on-every-reload", su.Pos(), "every successful State.UnmarshalJSON path stores the counter", fmt.Sprintf("State.UnmarshalJSON can succeed without restoring %s (path %s): ids handed out before the restart are handed out again", cn.field, P.PathString(path)))
		c.Check(bad == "" && n >= 2, "overlord/state.State."+cn.field+"#writers", f.Pos(), fmt.Sprintf("%d stores: increment in %s, reload in UnmarshalJSON", n, cn.alloc), "id counter discipline broken:"+bad)
		// the id handed out
		afn := P.Func(cn.alloc)
		if cn.field == "lastLaneId" {
			okRet := false
			for _, lf := range ReturnLeaves(afn, 0) {
				if IsFieldLoad(lf.Val, f) {
					okRet = true
				}
				if add, ok := lf.Val.(*ssa.BinOp); ok && add.Op == token.ADD && IsFieldLoad(add.X, f) {
					okRet = true
				}
			}
			c.Check(okRet, cn.alloc+"#id-from-counter", afn.Pos(), "the lane handed out is the incremented counter", "the lane id is not derived from the incremented counter")
			continue
		}
		okID := false
		for _, ic := range CallSites(afn, itoa) {
			a := ic.Common().Args[0]
			if IsFieldLoad(a, f) {
				// the load must come after the increment store
				for _, st := range StoresToField(afn, f) {
					q := ReachQ{Fn: afn, From: LocOf(st), Sink: SinkIs(ic)}
					if q.Run().Found {
						okID = true
					}
				}
			}
			if add, ok := Strip(a).(*ssa.BinOp); ok && add.Op == token.ADD && IsFieldLoad(add.X, f) {
				okID = true
			}
		}
		c.Check(okID, cn.alloc+"#id-from-counter", afn.Pos(), "the id handed out is strconv.Itoa of the just-incremented counter", "the id handed out is not formatted from the incremented counter")
	}

	c.Rule("C05-R4", "G", "Task.UnmarshalJSON: waitedStatus Default -> Done back-compat default", 1)
	tu := P.Func("overlord/state.(*Task).UnmarshalJSON")
	fWaited := P.Field("overlord/state.Task.waitedStatus")
	okDef := false
	for _, st := range StoresToField(tu, fWaited) {
		if VConstObj(P.Const("overlord/state.DoneStatus"))(st.Val) {
			okDef = c.Guarded("overlord/state.(*Task).UnmarshalJSON#waited-default", tu, st, []Clause{{Cmp("t.waitedStatus==Default", VOr(VField(fWaited), VField(P.Field("overlord/state.marshalledTask.WaitedStatus"))), token.EQL, VConstObj(P.Const("overlord/state.DefaultStatus")))}}, nil)
		}
	}
	if !okDef {
		c.Violated("overlord/state.(*Task).UnmarshalJSON#waited-default-present", tu.Pos(), "tasks saved by older snapd (no waited-status) no longer default to Done: a task in Wait would resume into Default status")
	}
}
