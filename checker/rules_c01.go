package main

import (
	"fmt"
	"go/token"
	"go/types"
	"sort"
	"strings"

	"golang.org/x/tools/go/ssa"
)

func init() {
	register(&Property{
		ID:          "C01",
		Roots:       []string{"overlord/state"},
		Technique:   "typestate extraction (status dataflow over the SSA CFG giving a from-set for every SetStatus/SetToWait site) compared with the allowed transition table; loop-latch gating of mustWait; guarded-sink / ordering on taskrunner.run, Ensure and abortTasks",
		Explanation: "Structural necessary conditions for 'a failed change undoes exactly the work it had done, in reverse order': (R1) every status-setting site of package overlord/state has exactly the (from-set -> to) transition of the reviewed table (Do->Doing, Undo->Undoing, Doing->Done, Undoing->Undone, Abort->Undo|Hold, Do->Hold, Doing->Abort, Done->Undo, Undo->Done only without undo handler, ->Error only on the handler-error branch) and every table entry exists; (R2) mustWait in Undo status advances over the tasks halted by t only across Ready() statuses and answers false only after the whole loop; (R3) abortTasks pushes every halted task of every visited task onto its work list; (R4) on the handler-error branch abortLanes(t.Change(), t.Lanes()) precedes SetStatus(Error); (R5) Ensure turns an Undo task without undo handler into Done only after mustWait(t) returned false; (R6) every transition that can unblock other tasks (to Done, Hold, Undone, Undo) in the completion closure and tryUndo is followed by EnsureBefore unless the list of tasks it can unblock is empty; (R7) the healthy-lane exemption of Change.abortLanes: a task is live exactly in effective status Do/Doing/Done, live tasks mark hasLive and every other task marks hasDead for lanes outside the kill list, and a lane task is spared only across hasLive[lane] && !hasDead[lane].",
		NotDecided:  "multi-lane recursion in Change.abortLanes/abortTasks terminating with the right set; interaction of concurrent completions; that the change then settles (C03).",
		Run:         runC01,
	})
}

// tsExpect is the reviewed transition table: function -> to -> exact from-set.
type tsExpect struct {
	fn   string
	to   string
	from []string // nil = ANY
	eff  bool
	why  string
}

var c01Table = []tsExpect{
	{"overlord/state.(*TaskRunner).run", "Doing", []string{"Do"}, false, "a task starts doing only from Do"},
	{"overlord/state.(*TaskRunner).run", "Undoing", []string{"Undo"}, false, "a task starts undoing only from Undo"},
	{"overlord/state.(*TaskRunner).run$1", "Wait", nil, false, "handler asked to wait (any status but Abort: Abort is diverted to tryUndo)"},
	{"overlord/state.(*TaskRunner).run$1", "Done", []string{"Doing"}, false, "handler returned nil while Doing"},
	{"overlord/state.(*TaskRunner).run$1", "Undo", []string{"Abort"}, false, "handler returned nil after the task was aborted in flight: it was actually done, undo it"},
	{"overlord/state.(*TaskRunner).run$1", "Undone", []string{"Undoing"}, false, "undo handler returned nil"},
	{"overlord/state.(*TaskRunner).run$1", "Error", nil, false, "handler error (after abortLanes, whatever that left)"},
	{"overlord/state.(*TaskRunner).tryUndo", "Hold", []string{"Abort"}, false, "aborted in flight, cannot be undone"},
	{"overlord/state.(*TaskRunner).tryUndo", "Undo", []string{"Abort"}, false, "aborted in flight (callers only pass Abort tasks)"},
	{"overlord/state.(*TaskRunner).Ensure", "Done", []string{"Undo"}, false, "Undo without undo handler"},
	{"overlord/state.(*Change).abortTasks", "Hold", []string{"Do"}, true, "not started: never start"},
	{"overlord/state.(*Change).abortTasks", "Abort", []string{"Doing"}, true, "in flight: stop and undo"},
	{"overlord/state.(*Change).abortTasks", "Undo", []string{"Done"}, true, "finished: undo"},
}

func (ts *TS) mask(names []string) uint32 {
	if names == nil {
		return ts.All
	}
	var m uint32
	for _, n := range names {
		m |= ts.Bit(n)
	}
	return m
}

// extractTransitions runs engine T over every function of overlord/state that sets a task status.
func extractTransitions(c *Ctx, ts *TS) map[string][]TSite {
	P := c.P
	out := map[string][]TSite{}
	tryUndo := P.Func("overlord/state.(*TaskRunner).tryUndo")
	entryTryUndo := uint32(0)
	var later []*ssa.Function
	for _, fn := range P.FuncsIn("overlord/state") {
		name := SSAFuncName(fn)
		if name == "overlord/state.(*Task).SetStatus" || name == "overlord/state.(*Task).SetToWait" || name == "overlord/state.(*Task).changeStatus" {
			continue
		}
		keys := ts.TaskKeysSet(fn)
		if fn == tryUndo {
			later = append(later, fn)
			continue
		}
		// callers of tryUndo contribute its entry set
		var allKeys []ssa.Value
		allKeys = append(allKeys, keys...)
		for _, ci := range CallSites(fn, P.FuncObj("overlord/state.(*TaskRunner).tryUndo")) {
			k := TaskKey(CallArgs(ci)[0])
			dup := false
			for _, x := range allKeys {
				if x == k {
					dup = true
				}
			}
			if !dup {
				allKeys = append(allKeys, k)
			}
		}
		for _, k := range allKeys {
			c.touch(fn)
			sites, at := ts.Analyze(fn, k, ts.All)
			out[name] = append(out[name], sites...)
			for in, m := range at {
				if ci, ok := in.(ssa.CallInstruction); ok && ToFn(P.FuncObj("overlord/state.(*TaskRunner).tryUndo"))(ci) {
					entryTryUndo |= m
				}
			}
		}
	}
	for _, fn := range later {
		c.touch(fn)
		for _, k := range ts.TaskKeysSet(fn) {
			if entryTryUndo == 0 {
				entryTryUndo = ts.All
			}
			sites, _ := ts.Analyze(fn, k, entryTryUndo)
			out[SSAFuncName(fn)] = append(out[SSAFuncName(fn)], sites...)
		}
	}
	// a status change moved into a private helper that has one call site and is handed the task
	// (r.taskFailed(t, err), r.startRunning(t)) belongs to the function calling it: analysed with
	// the status set the caller has at the call, and attributed to the caller
	reviewed := map[string]bool{}
	for _, e := range c01Table {
		reviewed[e.fn] = true
	}
	var names []string
	for n := range out {
		names = append(names, n)
	}
	sort.Strings(names)
	for _, n := range names {
		if reviewed[n] || len(out[n]) == 0 {
			continue
		}
		h := out[n][0].Fn
		obj, isF := h.Object().(*types.Func)
		if !isF || obj.Exported() || h.Parent() != nil {
			continue
		}
		uses := P.UsesOf(obj)
		if len(uses) != 1 || !uses[0].AsCall || uses[0].Fn == nil || !reviewed[SSAFuncName(uses[0].Fn)] {
			continue
		}
		caller := uses[0].Fn
		call := uses[0].Instr.(ssa.CallInstruction)
		var moved []TSite
		okAll := true
		for _, hk := range ts.TaskKeysSet(h) {
			// which argument is that task
			ai := -1
			for j, hp := range h.Params {
				if TaskKey(hp) == hk {
					ai = j
				}
			}
			if ai < 0 || ai >= len(call.Common().Args) {
				okAll = false
				continue
			}
			_, at := ts.Analyze(caller, TaskKey(call.Common().Args[ai]), ts.All)
			entry := at[call.(ssa.Instruction)]
			if entry == 0 {
				entry = ts.All
			}
			sites, _ := ts.Analyze(h, hk, entry)
			moved = append(moved, sites...)
		}
		if okAll && len(moved) > 0 {
			c.touch(h)
			delete(out, n)
			out[SSAFuncName(caller)] = append(out[SSAFuncName(caller)], moved...)
		}
	}
	return out
}

func checkTransitionTable(c *Ctx, ts *TS, trans map[string][]TSite, table []tsExpect, onlyTo map[string]bool) {
	used := map[int]bool{}
	var fnames []string
	for f := range trans {
		fnames = append(fnames, f)
	}
	sort.Strings(fnames)
	for _, f := range fnames {
		for i, s := range trans[f] {
			to := "?"
			if s.To >= 0 {
				to = ts.Names[s.To]
			}
			if onlyTo != nil && !onlyTo[to] {
				continue
			}
			construct := fmt.Sprintf("%s#set-%s#%d", f, to, i+1)
			matched := false
			for ti, e := range table {
				if e.fn != f || e.to != to {
					continue
				}
				matched = true
				used[ti] = true
				want := ts.mask(e.from)
				if e.to == "Wait" {
					want = ts.All &^ ts.Bit("Abort")
				}
				ok := s.From&^want == 0 && s.From != 0
				c.Check(ok, construct, s.Call.Pos(), fmt.Sprintf("transition %s within the reviewed %s -> %s (%s)", ts.SiteString(s), ts.SetString(want), to, e.why),
					fmt.Sprintf("status set to %s from %s, but the reviewed transition only admits %s (%s)", to, ts.SetString(s.From), ts.SetString(want), e.why))
				break
			}
			if !matched {
				c.Violated(construct, s.Call.Pos(), fmt.Sprintf("unreviewed status transition %s in %s", ts.SiteString(s), f))
			}
		}
	}
	for ti, e := range table {
		if onlyTo != nil && !onlyTo[e.to] {
			continue
		}
		if !used[ti] {
			c.Violated(fmt.Sprintf("%s#missing-%s", e.fn, e.to), token.NoPos, fmt.Sprintf("the transition to %s in %s (%s) no longer exists", e.to, e.fn, e.why))
		}
	}
}

func runC01(c *Ctx) {
	P := c.P
	ts := NewTS(P)
	c.Rule("C01-R1", "T", "every Task.SetStatus/SetToWait site in overlord/state has the reviewed (from-set -> to) transition, and every reviewed transition exists", 13)
	trans := extractTransitions(c, ts)
	checkTransitionTable(c, ts, trans, c01Table, nil)

	// ---- R2
	c.Rule("C01-R2", "L", "mustWait, Undo status: loop over t.HaltTasks() advances only across Status().Ready(); false only after the loop", 2)
	mw := P.Func("overlord/state.mustWait")
	haltTasks := P.FuncObj("overlord/state.(*Task).HaltTasks")
	statusObj := P.FuncObj("overlord/state.(*Task).Status")
	readyObj := P.FuncObj("overlord/state.Status.Ready")
	loops := LoopsOver(mw, VRes(0, RecvWhere(ToFn(haltTasks), VParam(mw, 0))))
	if len(loops) == 0 && mustWaitHelperForm(c, mw, haltTasks,
		Cmp("t.Status()==Undo", VRes(0, RecvWhere(ToFn(statusObj), VParam(mw, 0))), token.EQL, VConstObj(P.Const("overlord/state.UndoStatus"))),
		func(elem ssa.Value) Atom {
			return TrueRes("ht.Status().Ready()", true, 0, CallWhere(ToFn(readyObj), 0, VRes(0, RecvWhere(ToFn(statusObj), VIs(elem)))))
		}, "overlord/state.mustWait#halt-loop", "overlord/state.mustWait#false-after-halt-loop", "for an Undo task mustWait can answer false without having inspected all tasks waiting on it") {
		// decided in the helper form
	} else if len(loops) != 1 {
		c.Undecided("overlord/state.mustWait#halt-loop", mw.Pos(), fmt.Sprintf("expected one loop over t.HaltTasks(), found %d", len(loops)))
	} else {
		rl := loops[0]
		elemReady := TrueRes("ht.Status().Ready()", true, 0, CallWhere(ToFn(readyObj), 0, VRes(0, RecvWhere(ToFn(statusObj), VIs(rl.Elem)))))
		c.LatchGated("overlord/state.mustWait#halt-loop", rl, []Clause{{elemReady}})
		// the loop is entered exactly under Status()==Undo
		undoArm := Cmp("t.Status()==Undo", VRes(0, RecvWhere(ToFn(statusObj), VParam(mw, 0))), token.EQL, VConstObj(P.Const("overlord/state.UndoStatus")))
		c.Guarded("overlord/state.mustWait#halt-loop-arm", mw, rl.Header.Instrs[len(rl.Header.Instrs)-1], []Clause{{undoArm}}, nil)
		// `false` under Undo only through the loop
		c01FalseOnlyAfterLoop(c, mw, rl, undoArm, "overlord/state.mustWait#false-after-halt-loop", "for an Undo task mustWait can answer false without having inspected all tasks waiting on it")
	}

	// ---- R3
	c.Rule("C01-R3", "G", "abortTasks: every element of t.HaltTasks() not yet seen is appended to the work list being iterated", 2)
	at := P.Func("overlord/state.(*Change).abortTasks")
	hl := LoopsOver(at, VRes(0, ToFn(haltTasks)))
	if len(hl) != 1 {
		c.Undecided("overlord/state.(*Change).abortTasks#halt-loop", at.Pos(), fmt.Sprintf("expected one loop over t.HaltTasks(), found %d", len(hl)))
	} else {
		rl := hl[0]
		// gate: the loop advances only across `seenTasks[halted.id]` true or across the append
		seen := Atom{Name: "seenTasks[halted.id]", Match: func(cd Cond) Pol {
			return cd.BoolIs(func(v ssa.Value) bool {
				lk, ok := Strip(v).(*ssa.Lookup)
				return ok && IsParam(lk.X, at, 3)
			})
		}}
		isAppendOfElem := func(in ssa.Instruction) bool {
			ci, ok := in.(*ssa.Call)
			if !ok {
				return false
			}
			bi, ok := ci.Call.Value.(*ssa.Builtin)
			if !ok || bi.Name() != "append" {
				return false
			}
			for _, e := range VarargElems(ci.Call.Args[1]) {
				if e != nil && Strip(e) == Strip(rl.Elem) {
					return true
				}
			}
			return false
		}
		q := ReachQ{Fn: at, From: &Loc{rl.Body, -1}, CutInstr: isAppendOfElem,
			CutEdge:  func(b *ssa.BasicBlock, s int) bool { return AtomEdges(seen)(b, s) || b.Succs[s] == rl.Done },
			SinkEdge: func(b *ssa.BasicBlock, s int) bool { return b.Succs[s] == rl.Header }}
		r := q.Run()
		c.Check(!r.Found, "overlord/state.(*Change).abortTasks#halted-enqueued", rl.Body.Instrs[0].Pos(), "each halted task is appended to the work list unless already seen", "a task waiting on an aborted task can be skipped without being enqueued for abort: "+P.PathString(r.Path))
		// the appended slice is the one the outer index loop ranges over (param tasks web)
		okWeb := false
		for _, b := range at.Blocks {
			for _, in := range b.Instrs {
				if isAppendOfElem(in) {
					ci := in.(*ssa.Call)
					for _, l := range phiLeavesOf(ci.Call.Args[0]) {
						if IsParam(l, at, 1) {
							okWeb = true
						}
					}
				}
			}
		}
		c.Check(okWeb, "overlord/state.(*Change).abortTasks#same-worklist", at.Pos(), "the slice appended to is the `tasks` work list", "halted tasks are appended to something other than the work list being iterated")
	}

	// R3, continued: every task taken from the work list that was not seen before has its lanes
	// collected and its halted tasks enqueued, whatever its status (no early `continue`)
	if len(hl) == 1 {
		inner := hl[0]
		var outer *RangeLoop
		for _, fl := range ForLoops(at) {
			if fl.Header != inner.Header && fl.Body != nil && fl.Body.Dominates(inner.Header) {
				outer = fl
			}
		}
		if outer == nil {
			c.Undecided("overlord/state.(*Change).abortTasks#work-list-loop", at.Pos(), "the loop over the work list was not found")
		} else {
			seenT := Atom{Name: "seenTasks[t.id]", Match: func(cd Cond) Pol {
				return cd.BoolIs(func(v ssa.Value) bool {
					lk, ok := Strip(v).(*ssa.Lookup)
					return ok && IsParam(lk.X, at, 3)
				})
			}}
			targets := []struct {
				name string
				hdr  *ssa.BasicBlock
			}{{"halted-tasks", inner.Header}}
			for _, ll := range LoopsOver(at, VRes(0, ToFn(P.FuncObj("overlord/state.(*Task).Lanes")))) {
				if outer.Body.Dominates(ll.Header) {
					targets = append(targets, struct {
						name string
						hdr  *ssa.BasicBlock
					}{"lanes", ll.Header})
					break
				}
			}
			for _, tg := range targets {
				hdr := tg.hdr
				q := ReachQ{Fn: at, From: &Loc{outer.Body, -1},
					CutInstr: func(in ssa.Instruction) bool { return in.Block() == hdr },
					CutEdge: func(b *ssa.BasicBlock, s int) bool {
						return AtomEdges(seenT)(b, s) && !inner.Body.Dominates(b)
					},
					SinkEdge: func(b *ssa.BasicBlock, s int) bool { return b.Succs[s] == outer.Header }}
				r := q.Run()
				c.Check(!r.Found, "overlord/state.(*Change).abortTasks#every-visited-task-propagates-"+tg.name, outer.Body.Instrs[0].Pos(), "a task not seen before always reaches the "+tg.name+" loop", "a task taken from the work list can be skipped (whatever its status) without its "+tg.name+" being followed: the abort no longer travels through it: "+P.PathString(r.Path))
			}
		}
	}

	// ---- R8
	c.Rule("C01-R8", "G+W", "a task's tomb is killed on abort only for tasks in Abort status (TaskRunner.abortLanes); the task status field is stored only by SetStatus/SetToWait and the JSON reader", 3)
	ral := P.Func("overlord/state.(*TaskRunner).abortLanes")
	kill := P.FuncObj("gopkg.in/tomb.v2.(*Tomb).Kill")
	statusM := P.FuncObj("overlord/state.(*Task).Status")
	abortConst := P.Const("overlord/state.AbortStatus")
	kc := CallSites(ral, kill)
	if len(kc) == 0 {
		c.Undecided("overlord/state.(*TaskRunner).abortLanes#kill", ral.Pos(), "no tomb.Kill call found")
	}
	for i, cc := range kc {
		c.Guarded(fmt.Sprintf("overlord/state.(*TaskRunner).abortLanes#kill<=Abort#%d", i+1), ral, cc,
			[]Clause{{Cmp("t.Status()==AbortStatus", VRes(0, ToFn(statusM)), token.EQL, VConstObj(abortConst))}}, nil)
	}
	fStatusField := P.Field("overlord/state.Task.status")
	allowedWriters := map[string]string{
		"overlord/state.(*Task).SetStatus":     "the setter",
		"overlord/state.(*Task).SetToWait":     "the setter for Wait",
		"overlord/state.(*Task).changeStatus":  "shared tail of the setters",
		"overlord/state.(*Task).UnmarshalJSON": "reads the persisted status",
		"overlord/state.newTask":               "initial status",
	}
	nW := 0
	for _, st := range P.FieldStores(fStatusField) {
		fn := st.Parent()
		name := SSAFuncName(fn)
		nW++
		_, ok := allowedWriters[name]
		c.touch(fn)
		c.Check(ok, "field:Task.status#writer:"+name, st.Pos(), "status stored by "+allowedWriters[name], "the task status is stored directly by "+name+", outside SetStatus/SetToWait: the transition table (R1), the change's ready/abort bookkeeping and the notices are bypassed")
	}
	if nW == 0 {
		c.Undecided("field:Task.status#writers", token.NoPos, "no store to Task.status found")
	}

	// ---- R4
	c.Rule("C01-R4", "O", "run's completion closure: abortLanes(t.Change(), t.Lanes()) precedes SetStatus(ErrorStatus) on every path", 1)
	run := P.Func("overlord/state.(*TaskRunner).run")
	abortLanes := P.FuncObj("overlord/state.(*TaskRunner).abortLanes")
	setStatus := P.FuncObj("overlord/state.(*Task).SetStatus")
	cErr := P.Const("overlord/state.ErrorStatus")
	n := 0
	for _, cl := range run.AnonFuncs {
		for _, sc := range CallSites(cl, setStatus) {
			if !VConstObj(cErr)(CallArgs(sc)[0]) {
				continue
			}
			n++
			c.Before(fmt.Sprintf("overlord/state.(*TaskRunner).run$1#abort-before-error#%d", n), cl, SinkCall(abortLanes), "r.abortLanes(t.Change(), t.Lanes())", sc, nil)
			// arguments: the task's own change and lanes
			for _, ac := range CallSites(cl, abortLanes) {
				a := CallArgs(ac)
				okA := len(a) == 2 && VRes(0, ToFn(P.FuncObj("overlord/state.(*Task).Change")))(a[0]) && VRes(0, ToFn(P.FuncObj("overlord/state.(*Task).Lanes")))(a[1]) &&
					TaskKey(CallRecv(mustCall(a[0]))) == TaskKey(CallRecv(sc)) && TaskKey(CallRecv(mustCall(a[1]))) == TaskKey(CallRecv(sc))
				c.Check(okA, fmt.Sprintf("overlord/state.(*TaskRunner).run$1#abort-args#%d", n), ac.Pos(), "the lanes aborted are the failed task's own lanes in its own change", "abortLanes is not applied to the failed task's change and lanes")
			}
		}
	}
	if n == 0 {
		c.Undecided("overlord/state.(*TaskRunner).run$1#error-site", run.Pos(), "no SetStatus(ErrorStatus) found in run's closures")
	}

	// ---- R5
	c.Rule("C01-R5", "G", "Ensure: SetStatus(Done) for an Undo task without undo handler <= mustWait(t)==false", 1)
	ens := P.Func("overlord/state.(*TaskRunner).Ensure")
	mustWaitObj := P.FuncObj("overlord/state.mustWait")
	k := 0
	for _, sc := range CallSites(ens, setStatus) {
		k++
		recv := CallRecv(sc)
		c.Guarded(fmt.Sprintf("overlord/state.(*TaskRunner).Ensure#set-done#%d", k), ens, sc, []Clause{
			{TrueRes("!mustWait(t)", false, 0, CallWhere(ToFn(mustWaitObj), 0, func(v ssa.Value) bool { return TaskKey(v) == TaskKey(recv) }))},
		}, nil)
	}
	_ = strings.Join

	// ---- R6
	c.Rule("C01-R6", "G", "re-arm after unblocking: in run's completion closure and tryUndo, a transition to Done is followed by EnsureBefore unless len(t.HaltTasks())==0, to Hold/Undone unless len(t.WaitTasks())==0, to Undo always (otherwise the tasks it unblocks are never reconsidered and the change does not settle)", 5)
	ensureBefore := P.FuncObj("overlord/state.(*State).EnsureBefore")
	waitTasks := P.FuncObj("overlord/state.(*Task).WaitTasks")
	haltTasks = P.FuncObj("overlord/state.(*Task).HaltTasks")
	isEnsureBefore := func(in ssa.Instruction) bool { _, ok := IsCallTo(in, ensureBefore); return ok }
	wake := func(fn *ssa.Function) {
		k := 0
		for _, sc := range CallSites(fn, setStatus) {
			to, ok := ConstInt(CallArgs(sc)[0])
			if !ok {
				continue
			}
			name := ts.Names[to]
			var lister *types.Func
			switch name {
			case "Done":
				lister = haltTasks
			case "Hold", "Undone":
				lister = waitTasks
			case "Undo":
			default:
				continue
			}
			k++
			construct := fmt.Sprintf("%s#rearm-after-%s#%d", SSAFuncName(fn), name, k)
			recv := CallRecv(sc)
			// a len(...)==0 test on the right list of the same task exempts the path; the list may
			// reach the test through a phi (`next`), in which case the phi edge taken from this
			// site must be the right list.
			var cutEdge func(b *ssa.BasicBlock, s int) bool
			if lister != nil {
				isList := func(v ssa.Value) bool {
					return VRes(0, RecvWhere(ToFn(lister), func(r ssa.Value) bool { return TaskKey(r) == TaskKey(recv) }))(v)
				}
				listOrPhi := func(v ssa.Value) bool {
					if isList(v) {
						return true
					}
					phi, ok := stripNoCell(v).(*ssa.Phi)
					if !ok {
						return false
					}
					// every phi edge whose predecessor is reachable from the site (without passing
					// through the phi's block) must carry the right list
					found := false
					for i, pb := range phi.Block().Preds {
						if pb == sc.Block() || blockReaches(sc.Block(), pb, phi.Block()) {
							if !isList(phi.Edges[i]) {
								return false
							}
							found = true
						}
					}
					return found
				}
				empty := Clause{
					Cmp("len(list)==0", VLen(listOrPhi), token.EQL, VConstInt(0)),
					Cmp("len(list)<=0", VLen(listOrPhi), token.LEQ, VConstInt(0)),
					Cmp("list==nil", listOrPhi, token.EQL, isNilVal),
				}
				cutEdge = AtomEdges(empty...)
			}
			q := ReachQ{Fn: fn, From: LocOf(sc), CutInstr: isEnsureBefore, CutEdge: cutEdge, Sink: func(in ssa.Instruction) bool {
				switch in.(type) {
				case *ssa.Return:
					return true
				}
				return false
			}}
			r := q.Run()
			c.cur.Blocks += r.Blocks
			c.cur.Edges += r.Edges
			c.touch(fn)
			what := "unconditionally"
			if lister != nil {
				what = "unless " + lister.Name() + "() is empty"
			}
			c.Check(!r.Found, construct, sc.Pos(), "EnsureBefore follows "+what, fmt.Sprintf("after SetStatus(%s) in %s the function can return without EnsureBefore (%s): tasks unblocked by this transition are not reconsidered until some unrelated wake-up; path: %s", name, SSAFuncName(fn), what, P.PathString(r.Path)))
		}
	}
	for _, cl := range run.AnonFuncs {
		wake(cl)
	}
	wake(P.Func("overlord/state.(*TaskRunner).tryUndo"))

	// ---- R7
	c.Rule("C01-R7", "T+G", "Change.abortLanes, healthy-lane exemption: a task counts as live exactly in effective status Do/Doing/Done; lanes outside the kill list get hasLive from live tasks and hasDead from every other task; a lane task is exempted only when a lane of it has live and no dead tasks", 6)
	al := P.Func("overlord/state.(*Change).abortLanes")
	c.touch(al)
	// the `live` flag: a boolean phi of constants
	var livePhi *ssa.Phi
	for _, b := range al.Blocks {
		for _, in := range b.Instrs {
			phi, ok := in.(*ssa.Phi)
			if !ok || !isBoolType(phi.Type()) {
				continue
			}
			allConst := true
			for _, e := range phi.Edges {
				if _, isC := ConstBool(e); !isC {
					allConst = false
				}
			}
			if allConst && livePhi == nil {
				livePhi = phi
			}
		}
	}
	// the flag may be computed by a predicate of its own: live := taskIsLive(t)
	var liveVal ssa.Value
	if livePhi != nil {
		liveVal = livePhi
	}
	helperSets := false
	var hLive, hDead uint32
	if livePhi == nil {
		for _, b := range al.Blocks {
			for _, in := range b.Instrs {
				cc, ok := in.(*ssa.Call)
				if !ok || liveVal != nil {
					continue
				}
				h := cc.Call.StaticCallee()
				if h == nil || h.Pkg != al.Pkg || len(h.Blocks) == 0 || len(h.Params) != 1 || !isBoolType(cc.Type()) || len(CallSites(h, ts.eff)) == 0 {
					continue
				}
				c.touch(h)
				edges := ts.EdgeStates(h, TaskKey(h.Params[0]), ts.All)
				okShape := true
				for _, r := range ReturnsOf(h) {
					v, isC := ConstBool(r.Results[0])
					if !isC {
						okShape = false
						continue
					}
					var st uint32
					for _, pb := range r.Block().Preds {
						st |= edges[[2]*ssa.BasicBlock{pb, r.Block()}]
					}
					if v {
						hLive |= st
					} else {
						hDead |= st
					}
				}
				if okShape {
					liveVal, helperSets = cc, true
				}
			}
		}
	}
	if liveVal == nil {
		c.Undecided("overlord/state.(*Change).abortLanes#live-flag", al.Pos(), "the live flag (boolean phi of constants) was not recognised")
	} else {
		// status sets on the incoming edges
		var tkey ssa.Value
		for _, ec := range CallSites(al, ts.eff) {
			tkey = TaskKey(ec.Common().Args[0])
		}
		if helperSets {
			want := ts.Bit("Do") | ts.Bit("Doing") | ts.Bit("Done")
			c.Check(hLive == want, "overlord/state.(*Change).abortLanes#live-statuses", liveVal.Pos(), "live = effective status in "+ts.SetString(hLive), fmt.Sprintf("a task is considered live in effective statuses %s; the healthy-lane exemption is defined for exactly %s", ts.SetString(hLive), ts.SetString(want)))
			c.Check(hDead == ts.All&^want, "overlord/state.(*Change).abortLanes#dead-statuses", liveVal.Pos(), "not live = every other status "+ts.SetString(hDead), fmt.Sprintf("a task is considered not live in %s; it must be every status but %s", ts.SetString(hDead), ts.SetString(want)))
		} else if tkey == nil {
			c.Undecided("overlord/state.(*Change).abortLanes#status-observer", al.Pos(), "no taskEffectiveStatus(t) call found")
		} else {
			edges := ts.EdgeStates(al, tkey, ts.All)
			var liveSet, deadSet uint32
			for i, pb := range livePhi.Block().Preds {
				v, _ := ConstBool(livePhi.Edges[i])
				st := edges[[2]*ssa.BasicBlock{pb, livePhi.Block()}]
				if v {
					liveSet |= st
				} else {
					deadSet |= st
				}
			}
			want := ts.Bit("Do") | ts.Bit("Doing") | ts.Bit("Done")
			c.Check(liveSet == want, "overlord/state.(*Change).abortLanes#live-statuses", livePhi.Pos(), "live = effective status in "+ts.SetString(liveSet), fmt.Sprintf("a task is considered live in effective statuses %s; the healthy-lane exemption is defined for exactly %s", ts.SetString(liveSet), ts.SetString(want)))
			c.Check(deadSet == ts.All&^want, "overlord/state.(*Change).abortLanes#dead-statuses", livePhi.Pos(), "not live = every other status "+ts.SetString(deadSet), fmt.Sprintf("a task is considered not live in %s; it must be every status but %s", ts.SetString(deadSet), ts.SetString(want)))
		}
		// the two opinion maps: updated on the live / not-live edge of the test of the flag
		liveAtom := Atom{Name: "live", Match: func(cd Cond) Pol { return cd.BoolIs(VIs(liveVal)) }}
		var mapL, mapD ssa.Value
		var updL, updD *ssa.MapUpdate
		for _, b := range al.Blocks {
			for _, in := range b.Instrs {
				mu, ok := in.(*ssa.MapUpdate)
				if !ok {
					continue
				}
				if v, isC := ConstBool(mu.Value); !isC || !v {
					continue
				}
				if c.Try(al, mu, []Clause{{liveAtom}}, nil) {
					mapL, updL = Strip(mu.Map), mu
				} else if c.Try(al, mu, []Clause{{Not(liveAtom)}}, nil) {
					mapD, updD = Strip(mu.Map), mu
				}
			}
		}
		if updL == nil || updD == nil || mapL == mapD {
			c.Violated("overlord/state.(*Change).abortLanes#opinion-maps", al.Pos(), "the hasLive / hasDead updates (a map set to true under live, another under !live) were not both found: lanes outside the kill list no longer get both opinions recorded")
		} else {
			// from the test of the flag, each outcome must perform its update before the next lane/task
			for _, b := range al.Blocks {
				for si := range b.Succs {
					for _, side := range []struct {
						at  Atom
						upd *ssa.MapUpdate
						nm  string
					}{{liveAtom, updL, "live"}, {Not(liveAtom), updD, "not-live"}} {
						if !AtomEdges(side.at)(b, si) {
							continue
						}
						q := ReachQ{Fn: al, From: &Loc{b.Succs[si], -1}, CutInstr: SinkIs(side.upd), SinkEdge: func(bb *ssa.BasicBlock, s int) bool {
							// any loop header edge (next lane / next task) or leaving the loops
							return bb.Succs[s].Comment == "rangeindex.loop" || bb.Succs[s].Comment == "rangeindex.done"
						}}
						r := q.Run()
						c.Check(!r.Found, "overlord/state.(*Change).abortLanes#"+side.nm+"-opinion-recorded", side.upd.Pos(), "a "+side.nm+" task always records its opinion about a lane outside the kill list", "a "+side.nm+" task can move on without recording its opinion about the lane (extra condition on the update): a lane with failed or held tasks may then look healthy; path: "+P.PathString(r.Path))
					}
				}
			}
			// exemption: skip (continue NextLaneTask) only across hasLive[lane] && !hasDead[lane]
			isLookup := func(m ssa.Value) func(ssa.Value) bool {
				return func(v ssa.Value) bool {
					lk, ok := Strip(v).(*ssa.Lookup)
					return ok && Strip(lk.X) == m
				}
			}
			hasL := Atom{Name: "hasLive[lane]", Match: func(cd Cond) Pol { return cd.BoolIs(isLookup(mapL)) }}
			noD := Atom{Name: "!hasDead[lane]", Match: func(cd Cond) Pol { return cd.BoolIs(isLookup(mapD)).Flip() }}
			// the append to the abort list is skipped only across both atoms: find the loop over laneTasks
			nEx := 0
			var lkBlock *ssa.BasicBlock
			for _, b := range al.Blocks {
				for _, in := range b.Instrs {
					if lk, ok := in.(*ssa.Lookup); ok && Strip(lk.X) == mapL {
						lkBlock = b
					}
				}
			}
			var cands []*RangeLoop
			for _, rl := range RangeLoops(al) {
				if lkBlock != nil && rl.Body.Dominates(lkBlock) {
					cands = append(cands, rl)
				}
			}
			for _, rl := range cands {
				outer := true
				for _, o := range cands {
					if o != rl && o.Body.Dominates(rl.Header) {
						outer = false
					}
				}
				if !outer {
					continue
				}
				nEx++
				// advancing to the next lane task WITHOUT appending must pass both atoms
				isAppend := func(in ssa.Instruction) bool {
					ci, ok := in.(*ssa.Call)
					if !ok {
						return false
					}
					bi, ok := ci.Call.Value.(*ssa.Builtin)
					return ok && bi.Name() == "append"
				}
				for _, at := range []Atom{hasL, noD} {
					gate := AtomEdges(at)
					q := ReachQ{Fn: al, From: &Loc{rl.Body, -1}, CutInstr: isAppend,
						CutEdge:  func(b *ssa.BasicBlock, s int) bool { return gate(b, s) || b.Succs[s] == rl.Done },
						SinkEdge: func(b *ssa.BasicBlock, s int) bool { return b.Succs[s] == rl.Header }}
					r := q.Run()
					c.Check(!r.Found, "overlord/state.(*Change).abortLanes#exempt<="+at.Name, rl.Header.Instrs[0].Pos(), "a lane task is spared only across "+at.Name, "a lane task can be spared from the abort without "+at.Name+"; path: "+P.PathString(r.Path))
				}
			}
			if nEx == 0 {
				c.Undecided("overlord/state.(*Change).abortLanes#exemption-loop", al.Pos(), "the loop consulting hasLive/hasDead was not recognised")
			}
		}
	}
}

func isBoolType(t types.Type) bool {
	b, ok := t.Underlying().(*types.Basic)
	return ok && b.Kind() == types.Bool
}

func mustCall(v ssa.Value) ssa.CallInstruction {
	ci, _, _ := CallResult(v)
	return ci
}

// c01FalseOnlyAfterLoop: from every edge establishing `arm`, a `false` verdict is
// reachable only through the loop's exhaustion exit.
func c01FalseOnlyAfterLoop(c *Ctx, fn *ssa.Function, rl *RangeLoop, arm Atom, construct, msg string) {
	n := 0
	for _, b := range fn.Blocks {
		for si := range b.Succs {
			if !AtomEdges(arm)(b, si) {
				continue
			}
			n++
			q := ReachQ{Fn: fn, From: &Loc{b.Succs[si], -1},
				CutEdge: func(bb *ssa.BasicBlock, s int) bool { return bb == rl.Header && bb.Succs[s] == rl.Done },
				Sink: func(in ssa.Instruction) bool {
					r, ok := in.(*ssa.Return)
					if !ok {
						return false
					}
					for _, l := range phiLeavesOf(r.Results[0]) {
						if v, isC := ConstBool(l); !isC || !v {
							return true
						}
					}
					return false
				}}
			r := q.Run()
			c.Check(!r.Found, fmt.Sprintf("%s#%d", construct, n), b.Instrs[len(b.Instrs)-1].Pos(), "under ["+arm.Name+"] a non-true verdict is only reachable by exhausting the loop", msg+": "+c.P.PathString(r.Path))
		}
	}
	if n == 0 {
		c.Undecided(construct, fn.Pos(), "arm ["+arm.Name+"] not recognised")
	}
}

// mustWaitHelperForm decides the loop rules of mustWait when the scan over lister(t) was moved
// into a predicate of its own (`return !allReady(t.HaltTasks())`): the helper walks its argument
// in one loop that advances only across elemOK, answers true only after the loop, is called under
// the arm, and mustWait returns its negation.
func mustWaitHelperForm(c *Ctx, mw *ssa.Function, lister *types.Func, arm Atom, elemOK func(elem ssa.Value) Atom, loopKey, falseKey, msg string) bool {
	for _, b := range mw.Blocks {
		for _, in := range b.Instrs {
			cc, ok := in.(ssa.CallInstruction)
			if !ok {
				continue
			}
			h := cc.Common().StaticCallee()
			if h == nil || h.Pkg != mw.Pkg || len(h.Blocks) == 0 || len(cc.Common().Args) != 1 || !VRes(0, RecvWhere(ToFn(lister), VParam(mw, 0)))(cc.Common().Args[0]) {
				continue
			}
			hl := LoopsOver(h, VParam(h, 0))
			if len(hl) != 1 {
				continue
			}
			c.touch(h)
			rl := hl[0]
			c.LatchGated(loopKey, rl, []Clause{{elemOK(rl.Elem)}})
			nt := 0
			for _, lf := range ReturnLeaves(h, 0) {
				if bv, isC := ConstBool(lf.Val); isC && bv {
					nt++
					c.ThroughLoop(fmt.Sprintf("%s-true-only-after-loop#%d", loopKey, nt), rl, lf)
				} else if !isC {
					c.Undecided(loopKey+"-helper-verdict", lf.Pos(), "the helper returns a computed value")
				}
			}
			c.Guarded(loopKey+"-arm", mw, cc.(ssa.Instruction), []Clause{{arm}}, nil)
			okNeg := false
			for _, lf := range ReturnLeaves(mw, 0) {
				if u, ok := lf.Val.(*ssa.UnOp); ok && u.Op == token.NOT {
					if c2, _, isCall := CallResult(u.X); isCall && c2 == cc {
						okNeg = true
					}
				}
			}
			c.Check(okNeg, falseKey, cc.Pos(), "mustWait answers !"+h.Name()+"(…) under ["+arm.Name+"]", msg)
			return true
		}
	}
	return false
}
