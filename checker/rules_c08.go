package main

import (
	"fmt"
	"go/ast"
	"go/token"
	"go/types"

	"golang.org/x/tools/go/ssa"
)

func init() {
	register(&Property{
		ID:          "C08",
		Roots:       []string{"overlord/state", "daemon"},
		Technique:   "who-may-write of the notice ordering fields; guarded-sink / ordering reachability on State.AddNotice, NoticeFilter.matches, State.WaitNotices, daemon.getNotices/getNotice and noticeViewableByUser",
		Explanation: "Structural necessary conditions for 'notices are delivered exactly once, in order, only to their owner': (R1) Notice.lastRepeated and State.lastNoticeTimestamp are written only by AddNotice and by unmarshalling; (R2) in AddNotice the timestamp taken from the clock is either strictly after the last one or replaced by last+1ns, and every path that inserts a notice or moves lastRepeated broadcasts on the condition variable; (R3) NoticeFilter.matches answers true only across the user, type, key and strictly-after tests, and Notices sorts by lastRepeated with Before on the two indexed elements; (R4) daemon.getNotices filters by the requester's own uid unless it was reassigned under requestUID==0, never touches the state when the uid is unknown, and getNotice returns the notice only across noticeViewableByUser (public | root | same uid); (R5) WaitNotices checks ctx.Err() and re-evaluates the filter after every wake-up, and the cancel hook broadcasts under the condition's lock; (R6) an additional occurrence moves lastRepeated only across the repeat-after window given with THAT occurrence (options.RepeatAfter zero or elapsed since lastRepeated), and every noticeKey literal sets all identifying fields, so notices of different owners never share a map entry.",
		NotDecided:  "exactly-once over histories; same-tick additions across a reload; repeat-after arithmetic; client-side use of the `after` cursor.",
		Run:         func(c *Ctx) { runC08(c); runC08z(c) },
	})
}

func runC08(c *Ctx) {
	P := c.P
	add := P.Func("overlord/state.(*State).AddNotice")
	fLastRep := P.Field("overlord/state.Notice.lastRepeated")
	fLastTS := P.Field("overlord/state.State.lastNoticeTimestamp")

	c.Rule("C08-R1", "W", "Notice.lastRepeated / State.lastNoticeTimestamp are written only by AddNotice and unmarshalling", 2)
	for _, w := range []struct {
		f     string
		allow map[string]bool
	}{
		{"overlord/state.Notice.lastRepeated", map[string]bool{"overlord/state.(*State).AddNotice": true, "overlord/state.(*Notice).UnmarshalJSON": true}},
		{"overlord/state.State.lastNoticeTimestamp", map[string]bool{"overlord/state.(*State).AddNotice": true, "overlord/state.(*State).UnmarshalJSON": true}},
	} {
		f := P.Field(w.f)
		bad := ""
		n := 0
		for _, st := range P.FieldStores(f) {
			n++
			if nm := SSAFuncName(st.Parent()); !w.allow[nm] && !P.PrivateHelperOf(st.Parent(), w.allow) {
				bad += " " + nm + "@" + P.Pos(st.Pos())
			}
		}
		c.Check(bad == "" && n >= 2, w.f+"#writers", f.Pos(), fmt.Sprintf("%d stores, in AddNotice / UnmarshalJSON only", n), "ordering field written in"+bad)
	}

	c.Rule("C08-R2", "G+O", "AddNotice: clock timestamps are made strictly increasing; insert / lastRepeated update => Broadcast before returning", 4)
	timeNow := P.Global("overlord/state.timeNow")
	after := P.FuncObj("time.Time.After")
	timeAdd := P.FuncObj("time.Time.Add")
	strictlyAfter := TrueRes("now.After(s.lastNoticeTimestamp)", true, 0, CallWhere(CallWhere(ToFn(after), 0, VRes(0, ViaGlobal(timeNow))), 1, VField(fLastTS)))
	nts := 0
	// the "next timestamp" computation may be a private helper of AddNotice
	tsFn := add
	if len(StoresToField(add, fLastTS)) == 0 {
		for _, h := range P.HelpersOf(add) {
			if len(StoresToField(h, fLastTS)) > 0 {
				tsFn = h
				c.touch(h)
			}
		}
	}
	for _, st := range StoresToField(tsFn, fLastTS) {
		var fps []FlowPoint
		phiLeaves(st.Val, st, &fps, map[*ssa.Phi]bool{})
		for _, fp := range fps {
			nts++
			construct := fmt.Sprintf("overlord/state.(*State).AddNotice#timestamp-source#%d", nts)
			switch {
			case VRes(0, ViaGlobal(timeNow))(fp.Val):
				c.GuardedFlow(construct, tsFn, fp, []Clause{{strictlyAfter}}, nil)
			case VRes(0, CallWhere(CallWhere(ToFn(timeAdd), 0, VField(fLastTS)), 1, func(v ssa.Value) bool { k, ok := ConstInt(v); return ok && k > 0 }))(fp.Val):
				c.Holds(construct, fp.Pos(), "last timestamp + a positive constant")
			default:
				c.Violated(construct, fp.Pos(), "lastNoticeTimestamp is set from a value that is neither a clock reading proven later than the last one nor last+1ns: two notices could share a timestamp and one be skipped by `after`")
			}
		}
	}
	if nts < 2 {
		c.Undecided("overlord/state.(*State).AddNotice#timestamp-sources", add.Pos(), "expected the clock reading and the bumped value")
	}
	// the notice's times come from that same `now` (UTC of it)
	// Broadcast after insert / lastRepeated update
	fNotices := P.Field("overlord/state.State.notices")
	fCond := P.Field("overlord/state.State.noticeCond")
	isBroadcast := func(in ssa.Instruction) bool {
		ci, ok := in.(ssa.CallInstruction)
		if !ok {
			return false
		}
		co := CalleeOf(ci)
		return co != nil && co.Name() == "Broadcast" && IsFieldLoad(CallRecv(ci), fCond)
	}
	nb := 0
	for _, b := range add.Blocks {
		for _, in := range b.Instrs {
			trigger := false
			what := ""
			switch x := in.(type) {
			case *ssa.MapUpdate:
				if IsFieldLoad(x.Map, fNotices) {
					trigger, what = true, "notice inserted"
				}
			case *ssa.Store:
				if fa, ok := x.Addr.(*ssa.FieldAddr); ok && fieldOfAddr(fa) == fLastRep {
					if _, fresh := fa.X.(*ssa.Alloc); !fresh {
						trigger, what = true, "lastRepeated moved"
					}
				}
			}
			if !trigger {
				continue
			}
			nb++
			q := ReachQ{Fn: add, From: LocOf(in), CutInstr: isBroadcast, Sink: func(i ssa.Instruction) bool { _, ok := i.(*ssa.Return); return ok }}
			r := q.Run()
			c.Check(!r.Found, fmt.Sprintf("overlord/state.(*State).AddNotice#broadcast-after#%d", nb), in.Pos(), what+": every path to the return broadcasts on noticeCond", what+" but AddNotice can return without waking waiting clients: "+P.PathString(r.Path))
		}
	}
	if nb < 2 {
		c.Undecided("overlord/state.(*State).AddNotice#broadcast-triggers", add.Pos(), "insert / lastRepeated update sites not found")
	}

	c.Rule("C08-R6", "G+F", "AddNotice: an additional occurrence moves lastRepeated only across options.RepeatAfter==0 | now.After(lastRepeated.Add(options.RepeatAfter)) - the window of THIS occurrence; every noticeKey literal sets all identifying fields (user presence, user id, type, key)", 2)
	fOptRepeat := P.Field("overlord/state.AddNoticeOptions.RepeatAfter")
	optRepeat := VField(fOptRepeat)
	repeatZero := Cmp("options.RepeatAfter==0", optRepeat, token.EQL, VConstInt(0))
	elapsed := TrueRes("now.After(lastRepeated.Add(options.RepeatAfter))", true, 0,
		CallWhere(ToFn(after), 1, VRes(0, CallWhere(CallWhere(ToFn(timeAdd), 0, VField(fLastRep)), 1, optRepeat))))
	nrep := 0
	for _, st := range StoresToField(add, fLastRep) {
		fa := st.Addr.(*ssa.FieldAddr)
		if _, fresh := fa.X.(*ssa.Alloc); fresh {
			continue // the composite literal of a first occurrence
		}
		nrep++
		c.Guarded(fmt.Sprintf("overlord/state.(*State).AddNotice#repeat-window#%d", nrep), add, st, []Clause{{repeatZero, elapsed}}, nil)
	}
	if nrep == 0 {
		c.Undecided("overlord/state.(*State).AddNotice#repeat-window", add.Pos(), "no lastRepeated update of an existing notice found")
	}
	keyT := P.NamedType("overlord/state.noticeKey")
	keyS := keyT.Underlying().(*types.Struct)
	nk := 0
	spkg := P.Pkgs["overlord/state"]
	for _, file := range spkg.Syntax {
		ast.Inspect(file, func(n ast.Node) bool {
			cl, ok := n.(*ast.CompositeLit)
			if !ok {
				return true
			}
			tv, ok := spkg.TypesInfo.Types[cl]
			if !ok || !types.Identical(tv.Type, keyT) {
				return true
			}
			nk++
			set := map[string]bool{}
			for i, el := range cl.Elts {
				if kv, ok := el.(*ast.KeyValueExpr); ok {
					if id, ok := kv.Key.(*ast.Ident); ok {
						set[id.Name] = true
					}
				} else if i < keyS.NumFields() {
					set[keyS.Field(i).Name()] = true
				}
			}
			var missing []string
			for i := 0; i < keyS.NumFields(); i++ {
				if !set[keyS.Field(i).Name()] {
					missing = append(missing, keyS.Field(i).Name())
				}
			}
			c.Check(len(missing) == 0, fmt.Sprintf("overlord/state#noticeKey-literal#%d", nk), cl.Pos(), "all identifying fields set", fmt.Sprintf("noticeKey literal leaves %v unset: notices of different owners/types/keys collapse into one map entry (a private notice can be folded into a public one and delivered to everybody, or the reverse)", missing))
			return true
		})
	}
	if nk < 1 {
		c.Undecided("overlord/state#noticeKey-literals", add.Pos(), fmt.Sprintf("expected at least one noticeKey literal, found %d", nk))
	}

	c.Rule("C08-R3", "G", "NoticeFilter.matches: true <= user ∧ type ∧ key ∧ strictly-after tests; Notices sorts by lastRepeated.Before", 3)
	m := P.Func("overlord/state.(*NoticeFilter).matches")
	fUID, fTypes, fKeys, fAfter := P.Field("overlord/state.NoticeFilter.UserID"), P.Field("overlord/state.NoticeFilter.Types"), P.Field("overlord/state.NoticeFilter.Keys"), P.Field("overlord/state.NoticeFilter.After")
	fNUser, fNType, fNKey := P.Field("overlord/state.Notice.userID"), P.Field("overlord/state.Notice.noticeType"), P.Field("overlord/state.Notice.key")
	isZero := P.FuncObj("time.Time.IsZero")
	fNil := Cmp("f==nil", VParam(m, 0), token.EQL, isNilVal)
	deref := func(inner func(ssa.Value) bool) func(ssa.Value) bool {
		return func(v ssa.Value) bool {
			u, ok := v.(*ssa.UnOp)
			return ok && u.Op == token.MUL && inner(u.X)
		}
	}
	isSliceContains := func(hay, needle func(ssa.Value) bool) Atom {
		return Atom{Name: "sliceContains(...)", Match: func(cd Cond) Pol {
			return cd.BoolIs(func(v ssa.Value) bool {
				ci, _, ok := CallResult(v)
				if !ok {
					return false
				}
				sf := StaticFn(ci)
				if sf == nil || sf.Origin() == nil || sf.Origin().Name() != "sliceContains" {
					if sf == nil || sf.Name() != "sliceContains" && (sf.Origin() == nil) {
						return false
					}
				}
				a := ci.Common().Args
				return len(a) == 2 && hay(a[0]) && needle(a[1])
			})
		}}
	}
	k := 0
	for _, lf := range ReturnLeaves(m, 0) {
		if bv, ok := ConstBool(lf.Val); ok && !bv {
			continue
		}
		k++
		if _, ok := ConstBool(lf.Val); !ok {
			c.Undecided(fmt.Sprintf("overlord/state.(*NoticeFilter).matches#verdict#%d", k), lf.Pos(), "verdict is not a constant")
			continue
		}
		c.GuardedFlow(fmt.Sprintf("overlord/state.(*NoticeFilter).matches#true#%d", k), m, lf, []Clause{
			{fNil, Cmp("f.UserID==nil", VField(fUID), token.EQL, isNilVal), Cmp("n.userID==nil", VField(fNUser), token.EQL, isNilVal), Cmp("*f.UserID==*n.userID", deref(VField(fUID)), token.EQL, deref(VField(fNUser)))},
			{fNil, Cmp("len(f.Types)<=0", VLen(VField(fTypes)), token.LEQ, VConstInt(0)), isSliceContains(VField(fTypes), VField(fNType))},
			{fNil, Cmp("len(f.Keys)<=0", VLen(VField(fKeys)), token.LEQ, VConstInt(0)), isSliceContains(VField(fKeys), VField(fNKey))},
			{fNil, TrueRes("f.After.IsZero()", true, 0, CallWhere(ToFn(isZero), 0, VField(fAfter))), TrueRes("n.lastRepeated.After(f.After)", true, 0, CallWhere(CallWhere(ToFn(after), 0, VField(fLastRep)), 1, VField(fAfter)))},
		}, nil)
	}
	if k == 0 {
		c.Undecided("overlord/state.(*NoticeFilter).matches#true", m.Pos(), "no true verdict found")
	}
	// flattenNotices: append <= !expired ∧ filter.matches(n)
	fl := P.Func("overlord/state.(*State).flattenNotices")
	matchesObj := P.FuncObj("overlord/state.(*NoticeFilter).matches")
	expired := P.FuncObj("overlord/state.(*Notice).expired")
	na := 0
	for _, b := range fl.Blocks {
		for _, in := range b.Instrs {
			if ci, ok := in.(*ssa.Call); ok {
				if bi, ok := ci.Call.Value.(*ssa.Builtin); ok && bi.Name() == "append" {
					na++
					c.Guarded(fmt.Sprintf("overlord/state.(*State).flattenNotices#append#%d", na), fl, ci, []Clause{
						{TrueRes("filter.matches(n)", true, 0, CallWhere(ToFn(matchesObj), 0, VParam(fl, 1)))},
						{TrueRes("!n.expired(now)", false, 0, ToFn(expired))},
					}, nil)
				}
			}
		}
	}
	// sort comparator
	nt := P.Func("overlord/state.(*State).Notices")
	before := P.FuncObj("time.Time.Before")
	okSort := false
	for _, cl := range nt.AnonFuncs {
		for _, lf := range ReturnLeaves(cl, 0) {
			ci, _, ok := CallResult(lf.Val)
			if !ok || !ToFn(before)(ci) {
				continue
			}
			a := ci.Common().Args
			idxOf := func(v ssa.Value) int {
				base, f, ok := FieldLoad(v)
				if !ok || f != fLastRep {
					return -1
				}
				// base is *Notice loaded from &notices[idx]
				if u, ok := Strip(base).(*ssa.UnOp); ok {
					if ia, ok := u.X.(*ssa.IndexAddr); ok {
						for i, p := range cl.Params {
							if ia.Index == ssa.Value(p) {
								return i
							}
						}
					}
				}
				return -1
			}
			okSort = idxOf(a[0]) == 0 && idxOf(a[1]) == 1
		}
	}
	c.Check(okSort, "overlord/state.(*State).Notices#sort-order", nt.Pos(), "sorted by notices[i].lastRepeated.Before(notices[j].lastRepeated)", "Notices is no longer sorted ascending by lastRepeated: a client using the last element as its `after` cursor would skip notices")

	c.Rule("C08-R4", "G", "daemon.getNotices: filter.UserID is the requester's uid unless reassigned under requestUID==0; no state access without a uid; getNotice <= noticeViewableByUser; noticeViewableByUser true <= public | root | same uid", 6)
	gn := P.Func("daemon.getNotices")
	uidFrom := P.FuncObj("daemon.uidFromRequest")
	uidOK := NilRes("uidFromRequest err==nil", 1, ToFn(uidFrom))
	stLock := P.FuncObj("overlord/state.(*State).Lock")
	for i, lc := range CallSites(gn, stLock) {
		c.Guarded(fmt.Sprintf("daemon.getNotices#state-access#%d", i+1), gn, lc, []Clause{{uidOK}}, nil)
	}
	fFilterUID := P.Field("overlord/state.NoticeFilter.UserID")
	isReqUIDCell := func(v ssa.Value) bool {
		al, ok := v.(*ssa.Alloc)
		if !ok {
			return false
		}
		sv := singleStoreIgnoringReaders(al)
		return sv != nil && VRes(0, ToFn(uidFrom))(sv)
	}
	reqUID0 := Cmp("requestUID==0", func(v ssa.Value) bool {
		if VRes(0, ToFn(uidFrom))(v) {
			return true
		}
		u, ok := v.(*ssa.UnOp)
		return ok && u.Op == token.MUL && isReqUIDCell(u.X)
	}, token.EQL, VConstInt(0))
	nuid := 0
	for _, st := range StoresToField(gn, fFilterUID) {
		var fps []FlowPoint
		phiLeaves(st.Val, st, &fps, map[*ssa.Phi]bool{})
		for _, fp := range fps {
			nuid++
			construct := fmt.Sprintf("daemon.getNotices#filter-uid-source#%d", nuid)
			if isReqUIDCell(fp.Val) {
				c.Holds(construct, fp.Pos(), "&requestUID: the requester's own uid")
				continue
			}
			c.GuardedFlow(construct, gn, fp, []Clause{{reqUID0}}, nil)
		}
	}
	if nuid < 2 {
		c.Undecided("daemon.getNotices#filter-uid", gn.Pos(), "the UserID of the filter could not be traced")
	}
	// the filter built is the one used
	for _, name := range []string{"overlord/state.(*State).Notices", "overlord/state.(*State).WaitNotices"} {
		for _, ci := range CallSites(gn, P.FuncObj(name)) {
			a := CallArgs(ci)
			fv := a[len(a)-1]
			al, ok := stripNoCell(fv).(*ssa.Alloc)
			okF := ok
			if ok {
				okF = false
				for _, st := range StoresToField(gn, fFilterUID) {
					if fa, ok := st.Addr.(*ssa.FieldAddr); ok && fa.X == ssa.Value(al) {
						okF = true
					}
				}
			}
			c.Check(okF, "daemon.getNotices#uses-built-filter:"+name, ci.Pos(), "queried with the filter whose UserID was checked", "the state is queried with a different filter than the one whose UserID was derived from the requester")
		}
	}
	g1 := P.Func("daemon.getNotice")
	viewable := P.FuncObj("daemon.noticeViewableByUser")
	syncResp := P.FuncObj("daemon.SyncResponse")
	for i, sc := range CallSites(g1, syncResp) {
		c.Guarded(fmt.Sprintf("daemon.getNotice#respond#%d", i+1), g1, sc, []Clause{
			{TrueRes("noticeViewableByUser(notice, requestUID)", true, 0, CallWhere(ToFn(viewable), 1, VRes(0, ToFn(uidFrom))))},
			{uidOK},
		}, nil)
	}
	nv := P.Func("daemon.noticeViewableByUser")
	userIDm := P.FuncObj("overlord/state.(*Notice).UserID")
	kv := 0
	for _, lf := range ReturnLeaves(nv, 0) {
		if bv, ok := ConstBool(lf.Val); ok && !bv {
			continue
		}
		kv++
		construct := fmt.Sprintf("daemon.noticeViewableByUser#true#%d", kv)
		if _, isC := ConstBool(lf.Val); isC {
			c.GuardedFlow(construct, nv, lf, []Clause{{
				TrueRes("!isSet", false, 1, ToFn(userIDm)),
				Cmp("requestUID==0", VParam(nv, 1), token.EQL, VConstInt(0)),
			}}, nil)
			continue
		}
		bo, ok := lf.Val.(*ssa.BinOp)
		okCmp := ok && bo.Op == token.EQL && ((IsParam(bo.X, nv, 1) && VRes(0, ToFn(userIDm))(bo.Y)) || (IsParam(bo.Y, nv, 1) && VRes(0, ToFn(userIDm))(bo.X)))
		c.Check(okCmp, construct, lf.Pos(), "requestUID == notice's user id", "a non-constant verdict that is not `requestUID == userID`")
	}

	c.Rule("C08-R5", "O", "WaitNotices: after every Wait() ctx.Err() is checked first and Notices(filter) re-evaluated; the cancel hook broadcasts under the condition's lock", 3)
	wn := P.Func("overlord/state.(*State).WaitNotices")
	noticesObj := P.FuncObj("overlord/state.(*State).Notices")
	isWait := func(in ssa.Instruction) bool {
		ci, ok := in.(ssa.CallInstruction)
		if !ok {
			return false
		}
		co := CalleeOf(ci)
		return co != nil && co.Name() == "Wait" && IsFieldLoad(CallRecv(ci), fCond)
	}
	isCtxErr := func(in ssa.Instruction) bool {
		ci, ok := in.(ssa.CallInstruction)
		if !ok {
			return false
		}
		co := CalleeOf(ci)
		return co != nil && co.Name() == "Err" && IsParam(CallRecv(ci), wn, 1)
	}
	nw := 0
	for _, b := range wn.Blocks {
		for _, in := range b.Instrs {
			if !isWait(in) {
				continue
			}
			nw++
			q := ReachQ{Fn: wn, From: LocOf(in), CutInstr: isCtxErr, Sink: func(i ssa.Instruction) bool {
				if _, ok := i.(*ssa.Return); ok {
					return true
				}
				_, isN := IsCallTo(i, noticesObj)
				return isN
			}}
			r := q.Run()
			c.Check(!r.Found, fmt.Sprintf("overlord/state.(*State).WaitNotices#ctx-checked-first#%d", nw), in.Pos(), "after waking, cancellation is checked before anything else", "after a wake-up WaitNotices proceeds without checking ctx.Err()")
			q = ReachQ{Fn: wn, From: LocOf(in), CutInstr: SinkCall(noticesObj), Sink: isWait}
			r = q.Run()
			c.Check(!r.Found, fmt.Sprintf("overlord/state.(*State).WaitNotices#re-evaluates#%d", nw), in.Pos(), "the filter is re-evaluated after every wake-up before waiting again", "WaitNotices can go back to waiting without re-evaluating the filter (lost wake-up)")
		}
	}
	if nw == 0 {
		c.Undecided("overlord/state.(*State).WaitNotices#wait", wn.Pos(), "noticeCond.Wait() not found")
	}
	okHook := false
	// the hook: a function literal, or a method value (s.wake) handed to contextAfterFunc
	hookFns := append([]*ssa.Function(nil), wn.AnonFuncs...)
	for _, b := range wn.Blocks {
		for _, in := range b.Instrs {
			if mc, ok := in.(*ssa.MakeClosure); ok {
				if f, ok := mc.Fn.(*ssa.Function); ok && f.Synthetic != "" {
					if bt := boundTarget(f); bt != nil && bt.Pkg == wn.Pkg {
						hookFns = append(hookFns, bt)
					}
				}
			}
		}
	}
	for _, cl := range hookFns {
		for _, b := range cl.Blocks {
			for _, in := range b.Instrs {
				ci, ok := in.(ssa.CallInstruction)
				if !ok {
					continue
				}
				if co := CalleeOf(ci); co != nil && co.Name() == "Broadcast" {
					q := ReachQ{Fn: cl, Sink: SinkIs(in), CutInstr: func(i ssa.Instruction) bool {
						cc, ok := i.(ssa.CallInstruction)
						if !ok {
							return false
						}
						if _, isDefer := i.(*ssa.Defer); isDefer {
							return false
						}
						co := CalleeOf(cc)
						return co != nil && co.Name() == "Lock"
					}}
					okHook = !q.Run().Found
				}
			}
		}
	}
	c.Check(okHook, "overlord/state.(*State).WaitNotices$1#broadcast-under-lock", wn.Pos(), "the cancellation hook takes the condition's lock before broadcasting", "the cancellation hook broadcasts without the lock: the waiter can miss it and hang")
}
