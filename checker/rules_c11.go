package main

import (
	"fmt"
	"go/token"
	"strings"

	"golang.org/x/tools/go/ssa"
)

func init() {
	register(&Property{
		ID:          "C11",
		Roots:       []string{"overlord/snapstate"},
		Technique:   "guarded-sink / ordering rules on the SSA CFG of the link, unlink and discard handlers (recorded Active flag versus backend effect), of snapstate.Set and of the removal task generator",
		Explanation: "Structural necessary conditions for 'the recorded snap state matches the system': (R1) every handler that links or unlinks records the matching Active value (true after LinkSnap, false after UnlinkSnap) before its state write, and writes the state only after the backend effect succeeded (shared with C10-R5); (R2) doDiscardSnap never discards the active current revision, removes from the recorded sequence exactly the task's revision, writes the state only after the files were removed, and when the last revision goes also removes mount units, configuration and the snap directory before that write; (R3) snapstate.Set deletes a snap's entry exactly when given nil or an empty sequence, and otherwise stores the marshalled state under the snap's name; (R4) discard-snap tasks are created only by removeInactiveRevision, and snap removal orders the unlink before the discards.",
		NotDecided:  "a cross-check of the recorded state against a model of the file system over arbitrary histories; what the backend actually does; component state.",
		Run:         func(c *Ctx) { runC11(c); runC11x(c) },
	})
}

func runC11(c *Ctx) {
	P := c.P
	pkg := "overlord/snapstate"
	setObj := P.FuncObj(pkg + ".Set")
	susObj := P.FuncObj(pkg + ".snapSetupAndState")
	snapstBase := VSelfOrEmbedded(VRes(1, ToFn(susObj)))
	fActive := P.Field(pkg + ".SnapState.Active")
	be := func(n string) CallM { return ToFn(P.FuncObj(pkg + ".managerBackend." + n)) }

	c.Rule("C11-R1", "G+O", "link/unlink handlers: Active matches the backend effect and is recorded before the state write", 6)
	for _, h := range []struct {
		fn     string
		active bool
	}{
		{"doLinkSnap", true}, {"undoLinkSnap", false},
		{"doUnlinkSnap", false}, {"undoUnlinkSnap", true},
		{"doUnlinkCurrentSnap", false}, {"undoUnlinkCurrentSnap", true},
	} {
		fn := P.Func(pkg + ".(*SnapManager)." + h.fn)
		var st *ssa.Store
		bad := false
		for _, m := range FieldMutations(fn, fActive, snapstBase) {
			if s, ok := m.(*ssa.Store); ok {
				if v, isC := ConstBool(s.Val); isC && v == h.active {
					st = s
				} else {
					bad = true
				}
			}
		}
		if st == nil || bad {
			c.Violated(h.fn+"#active-value", fn.Pos(), fmt.Sprintf("%s must record snapst.Active = %v (and nothing else) to match its backend effect", h.fn, h.active))
			continue
		}
		for i, ss := range CallSites(fn, setObj) {
			c.Before(fmt.Sprintf("%s#active=%v-before-write#%d", h.fn, h.active, i+1), fn, SinkIs(st), fmt.Sprintf("snapst.Active = %v", h.active), ss, nil)
		}
	}

	c.Rule("C11-R2", "G+O", "doDiscardSnap: not the active current revision; state write <= ok(RemoveSnapFiles); last revision => units, config and directory removed first", 6)
	dd := P.Func(pkg + ".(*SnapManager).doDiscardSnap")
	fCurrent := P.Field(pkg + ".SnapState.Current")
	revObj := P.FuncObj(pkg + ".(*SnapSetup).Revision")
	active := Atom{Name: "snapst.Active", Match: func(cd Cond) Pol { return cd.BoolIs(VField(fActive)) }}
	isCur := Cmp("snapst.Current==snapsup.Revision()", VField(fCurrent), token.EQL, VRes(0, ToFn(revObj)))
	rmFiles := be("RemoveSnapFiles")
	okRm := NilRes("backend.RemoveSnapFiles ok", 0, rmFiles)
	for i, rc := range CallsMatching(dd, rmFiles) {
		c.Guarded(fmt.Sprintf("doDiscardSnap#not-active-current#%d", i+1), dd, rc, []Clause{{Not(isCur), Not(active)}}, nil)
	}
	sets := CallSites(dd, setObj)
	for i, ss := range sets {
		c.Guarded(fmt.Sprintf("doDiscardSnap#state-write<=files-removed#%d", i+1), dd, ss, []Clause{{okRm}}, nil)
	}
	if len(sets) == 0 || len(CallsMatching(dd, rmFiles)) == 0 {
		c.Undecided("doDiscardSnap#shape", dd.Pos(), "RemoveSnapFiles / snapstate.Set not found in doDiscardSnap")
	}
	// last revision: extra removals precede the write, selected by len(Revisions)==0 after the removal
	fRevisions := P.Field(pkg + "/sequence.SnapSequence.Revisions")
	empty := Cmp("len(snapst.Sequence.Revisions)==0", VLen(VField(fRevisions)), token.EQL, VConstInt(0))
	for _, step := range []struct {
		name string
		m    CallM
	}{
		{"RemoveContainerMountUnits", be("RemoveContainerMountUnits")},
		{"config.DeleteSnapConfig", ToFn(P.FuncObj("overlord/configstate/config.DeleteSnapConfig"))},
		{"RemoveSnapDir", be("RemoveSnapDir")},
		{"pruneSnapsHold", ToFn(P.FuncObj(pkg + ".pruneSnapsHold"))},
	} {
		calls := CallsMatching(dd, step.m)
		if len(calls) == 0 {
			c.Violated("doDiscardSnap#last-revision:"+step.name, dd.Pos(), "doDiscardSnap no longer calls "+step.name+" when the last revision of a snap is discarded")
			continue
		}
		// from the `empty` edge (after RemoveSnapFiles), every path to the state write passes the call
		n := 0
		for _, b := range dd.Blocks {
			for si := range b.Succs {
				if !AtomEdges(empty)(b, si) {
					continue
				}
				// only the test that follows the file removal
				if !(ReachQ{Fn: dd, From: LocOf(CallsMatching(dd, rmFiles)[0]), Sink: SinkIs(b.Instrs[len(b.Instrs)-1])}).Run().Found {
					continue
				}
				n++
				q := ReachQ{Fn: dd, From: &Loc{b.Succs[si], -1}, CutInstr: SinkCallM(step.m), Sink: SinkCall(setObj)}
				r := q.Run()
				c.Check(!r.Found, fmt.Sprintf("doDiscardSnap#last-revision:%s#%d", step.name, n), calls[0].Pos(), step.name+" precedes the state write when the last revision goes", "when the last revision is discarded the snap's entry can be dropped from the state without "+step.name+": "+P.PathString(r.Path))
			}
		}
		if n == 0 {
			c.Undecided("doDiscardSnap#last-revision:"+step.name, dd.Pos(), "the len(Revisions)==0 test after RemoveSnapFiles was not recognised")
		}
	}
	// the revision left out of the new sequence is the task's revision
	fRevision := P.Field("snap.SideInfo.Revision")
	okLeave := false
	for _, rl := range RangeLoops(dd) {
		if rl.Coll == nil || !IsFieldLoad(rl.Coll, fRevisions) {
			continue
		}
		isAppend := func(in ssa.Instruction) bool {
			ci, ok := in.(*ssa.Call)
			if !ok {
				return false
			}
			bi, ok := ci.Call.Value.(*ssa.Builtin)
			return ok && bi.Name() == "append"
		}
		same := Cmp("si.Snap.Revision==snapsup.Revision()", VField(fRevision), token.EQL, VRes(0, ToFn(revObj)))
		okLeave = c.SkipsOnlyAcross("doDiscardSnap#sequence-filter", rl, isAppend, "append(newSeq, si)", Clause{same}, false)
	}
	if !okLeave {
		// the same loop behind a helper: h(snapst.Sequence.Revisions, snapsup.Revision())
		for _, b := range dd.Blocks {
			for _, in := range b.Instrs {
				cc, ok := in.(ssa.CallInstruction)
				if !ok {
					continue
				}
				h := cc.Common().StaticCallee()
				if h == nil || h.Pkg != dd.Pkg || len(h.Blocks) == 0 || h.Signature.Recv() != nil {
					continue
				}
				si, ri := -1, -1
				for i, a := range cc.Common().Args {
					if IsFieldLoad(a, fRevisions) {
						si = i
					}
					if VRes(0, ToFn(revObj))(a) {
						ri = i
					}
				}
				if si < 0 || ri < 0 {
					continue
				}
				for _, rl := range RangeLoops(h) {
					if rl.Coll == nil || !VParam(h, si)(rl.Coll) {
						continue
					}
					isAppend := func(in ssa.Instruction) bool { _, ok := isBuiltinCall(in, "append"); return ok }
					same := Cmp("si.Snap.Revision==revision", VField(fRevision), token.EQL, VParam(h, ri))
					okLeave = c.SkipsOnlyAcross("doDiscardSnap#sequence-filter", rl, isAppend, "append(newSeq, si)", Clause{same}, false)
				}
			}
		}
	}
	if !okLeave {
		c.Check(false, "doDiscardSnap#sequence-filter-present", dd.Pos(), "", "the loop that drops exactly the discarded revision from the recorded sequence was not found or is not exact")
	}

	c.Rule("C11-R3", "G", "snapstate.Set: delete(snaps, name) <=> snapst==nil | len(Revisions)==0; otherwise snaps[name] = marshalled snapst; then st.Set(\"snaps\")", 3)
	setFn := P.Func(pkg + ".Set")
	isNil := Cmp("snapst==nil", VParam(setFn, 2), token.EQL, isNilVal)
	var delCall, upd ssa.Instruction
	for _, b := range setFn.Blocks {
		for _, in := range b.Instrs {
			switch x := in.(type) {
			case *ssa.Call:
				if bi, ok := x.Call.Value.(*ssa.Builtin); ok && bi.Name() == "delete" {
					delCall = in
				}
			case *ssa.MapUpdate:
				if IsParam(x.Key, setFn, 1) {
					upd = in
				}
			}
		}
	}
	if delCall == nil || upd == nil {
		c.Undecided(pkg+".Set#shape", setFn.Pos(), "delete(snaps, name) / snaps[name] = ... not found")
	} else {
		c.Guarded(pkg+".Set#delete<=nil-or-empty", setFn, delCall, []Clause{{isNil, empty}}, nil)
		c.Guarded(pkg+".Set#store<=non-nil", setFn, upd, []Clause{{Not(isNil)}}, nil)
		c.Guarded(pkg+".Set#store<=non-empty", setFn, upd, []Clause{{Not(empty)}}, nil)
		// what is stored is json.Marshal(snapst)
		mu := upd.(*ssa.MapUpdate)
		okVal := DependsOnCall(mu.Value, P.FuncObj("encoding/json.Marshal"), func(a []ssa.Value) bool {
			return len(a) == 1 && IsParam(a[0], setFn, 2)
		})
		c.Check(okVal, pkg+".Set#stored-value", upd.Pos(), "the value stored is json.Marshal(snapst)", "snapstate.Set stores something other than the marshalled snapst")
		stSet := P.FuncObj("overlord/state.(*State).Set")
		for _, r := range ReturnsOf(setFn) {
			c.Before(pkg+".Set#written-back", setFn, func(in ssa.Instruction) bool {
				ci, ok := IsCallTo(in, stSet)
				if !ok {
					return false
				}
				k, _ := ConstString(CallArgs(ci)[0])
				return k == "snaps"
			}, "st.Set(\"snaps\", snaps)", r, nil)
		}
	}

	c.Rule("C11-R4", "W+O", "discard-snap tasks come only from removeInactiveRevision; removeTasks orders unlink-snap before the discards", 2)
	newTask := P.FuncObj("overlord/state.(*State).NewTask")
	n := 0
	for _, fn := range P.FuncsIn(pkg) {
		for _, nt := range CallSites(fn, newTask) {
			if k, _ := ConstString(CallArgs(nt)[0]); k == "discard-snap" {
				n++
				c.Check(strings.HasSuffix(SSAFuncName(fn), ".removeInactiveRevision"), fmt.Sprintf("new-task:discard-snap#%s", SSAFuncName(fn)), nt.Pos(), "created by removeInactiveRevision", "discard-snap task created outside removeInactiveRevision (in "+SSAFuncName(fn)+"): it bypasses the clear-snap/discard pairing and the in-use checks of its callers")
			}
		}
	}
	if n == 0 {
		c.Undecided("new-task:discard-snap", token.NoPos, "no creator of discard-snap tasks found")
	}
	rt := P.Func(pkg + ".removeTasks")
	rir := P.FuncObj(pkg + ".removeInactiveRevision")
	// in removeTasks: NewTask("unlink-snap") precedes every removeInactiveRevision call on paths where the snap is active
	var unlinkNT ssa.CallInstruction
	for _, nt := range CallSites(rt, newTask) {
		if k, _ := ConstString(CallArgs(nt)[0]); k == "unlink-snap" {
			unlinkNT = nt
		}
	}
	if unlinkNT == nil {
		c.Violated(pkg+".removeTasks#unlink-task", rt.Pos(), "removeTasks no longer creates an unlink-snap task for the active revision")
	} else {
		okOrder := true
		for _, rc := range CallSites(rt, rir) {
			if (ReachQ{Fn: rt, From: LocOf(rc), Sink: SinkIs(unlinkNT)}).Run().Found {
				okOrder = false
			}
		}
		c.Check(okOrder, pkg+".removeTasks#unlink-before-discard", unlinkNT.Pos(), "the unlink task is created before any discard task", "a discard task can be created before the unlink task in removeTasks")
	}
}

// DependsOnCall: v is computed (through extracts, conversions, address-of of a local holding it)
// from a call to obj whose arguments satisfy args.
func DependsOnCall(v ssa.Value, obj interface{ Name() string }, args func([]ssa.Value) bool) bool {
	seen := map[ssa.Value]bool{}
	var rec func(v ssa.Value, d int) bool
	rec = func(v ssa.Value, d int) bool {
		if v == nil || d > 12 || seen[v] {
			return false
		}
		seen[v] = true
		switch x := v.(type) {
		case *ssa.Call:
			if co := CalleeOf(x); co != nil && co.Name() == obj.Name() {
				return args(x.Call.Args)
			}
			// a value computed by another call from the result (bytes.Replace(line, ...), []byte(line), ...)
			for _, a := range x.Call.Args {
				if rec(a, d+1) {
					return true
				}
			}
			return false
		case *ssa.BinOp:
			return rec(x.X, d+1) || rec(x.Y, d+1)
		case *ssa.Slice:
			return rec(x.X, d+1)
		case *ssa.Extract:
			return rec(x.Tuple, d+1)
		case *ssa.Convert:
			return rec(x.X, d+1)
		case *ssa.ChangeType:
			return rec(x.X, d+1)
		case *ssa.MakeInterface:
			return rec(x.X, d+1)
		case *ssa.UnOp:
			return rec(x.X, d+1)
		case *ssa.Alloc:
			if x.Referrers() != nil {
				for _, r := range *x.Referrers() {
					if st, ok := r.(*ssa.Store); ok && st.Addr == ssa.Value(x) && rec(st.Val, d+1) {
						return true
					}
				}
			}
		case *ssa.Phi:
			for _, e := range x.Edges {
				if rec(e, d+1) {
					return true
				}
			}
		}
		return false
	}
	return rec(v, 0)
}
