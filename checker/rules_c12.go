package main

import (
	"fmt"
	"go/token"

	"golang.org/x/tools/go/ssa"
)

func init() {
	register(&Property{
		ID:          "C12",
		Roots:       []string{"overlord/snapstate", "boot"},
		Technique:   "guarded-sink and loop skip-discipline rules on the SSA CFG of snapstate.doInstall's revision garbage collection; constant/phi provenance of the refresh.retain default; exhaustiveness of boot.InUse over the revisions a boot state reports",
		Explanation: "Structural necessary conditions for 'a refresh keeps at most refresh.retain revisions and never discards one in use': (R1) in doInstall the garbage-collection loop discards (removeInactiveRevision) a revision only across inUse(name, thatRevision)==false, inUse coming from the caller-supplied inUseCheck, which a refresh must supply; the loop passes over a revision without discarding it only when it is in use, and is never left early; (R2) the loop over the revisions kept after the current one discards every one of them except the target revision, and is never left early; the target is never handed to removeInactiveRevision there; (R3) the whole discard block runs only for an installed snap that is not being reverted, and the retain count is decremented for the revision being added exactly when the target is not already in the sequence; (R4) refreshRetain falls back to 2 on classic and 3 otherwise exactly when no valid value is configured; (R5) boot.InUse answers from every revision the boot state reports (current and try snap), for kernel and base/core alike.",
		NotDecided:  "the count bound itself (`i <= currentIndex-retain` arithmetic and the sequence rewriting that removes the target from the candidates); snaps whose type has no boot participant.",
		Run:         func(c *Ctx) { runC12(c); runC12x(c); runC12z(c) },
	})
}

func runC12(c *Ctx) {
	P := c.P
	pkg := "overlord/snapstate"
	di := P.Func(pkg + ".doInstall")
	rir := P.FuncObj(pkg + ".removeInactiveRevision")
	isInstalled := P.FuncObj(pkg + ".(*SnapState).IsInstalled")
	lastIndex := P.FuncObj(pkg + ".(*SnapState).LastIndex")
	revObj := P.FuncObj(pkg + ".(*SnapSetup).Revision")
	fRevert := P.Field(pkg + ".Flags.Revert")
	fRevision := P.Field("snap.SideInfo.Revision")
	sites := CallSites(di, rir)
	// the two discards may go through one local closure (discardRevision(si)): its call sites
	// stand for them, the revision discarded being that of the closure's argument
	wrapArg := -1
	if len(sites) == 0 {
		for _, cl := range di.AnonFuncs {
			rs := CallSites(cl, rir)
			if len(rs) != 1 {
				continue
			}
			ra := CallArgs(rs[0])
			if len(ra) < 5 {
				continue
			}
			b, f, ok := FieldLoad(ra[4])
			if !ok || f != fRevision {
				continue
			}
			for j, hp := range cl.Params {
				if Strip(b) == ssa.Value(hp) || b == ssa.Value(hp) {
					wrapArg = j
				}
			}
			if wrapArg < 0 {
				continue
			}
			for _, bb := range di.Blocks {
				for _, in := range bb.Instrs {
					if cc, ok := in.(ssa.CallInstruction); ok && cc.Common().StaticCallee() == cl {
						sites = append(sites, cc)
					}
				}
			}
			c.touch(cl)
		}
	}
	if len(sites) != 2 {
		c.Rule("C12-R1", "G+L", "doInstall GC", 1)
		c.Undecided(pkg+".doInstall#discard-sites", di.Pos(), fmt.Sprintf("expected two removeInactiveRevision call sites in doInstall (after-current loop, garbage collection), found %d", len(sites)))
		return
	}
	// inUse: a dynamic call through the value returned by the inUseCheck parameter
	isInUseFn := func(v ssa.Value) bool {
		// the phi `inUse` (nil | result of inUseCheck(typ)) or the call result itself
		return VPhiAll(func(x ssa.Value) bool {
			cc, idx, ok := CallResult(x)
			if !ok || idx != 0 {
				return false
			}
			return !cc.Common().IsInvoke() && cc.Common().StaticCallee() == nil && IsParam(cc.Common().Value, di, 6)
		})(v)
	}
	inUseCall := DynCallOf(isInUseFn)
	notInUse := TrueRes("!inUse(name, rev)", false, 0, inUseCall)
	target := VRes(0, ToFn(revObj))
	isRevOfSeq := func(v ssa.Value) bool { return IsFieldLoad(v, fRevision) }
	isTarget := Cmp("si.Snap.Revision==targetRevision", isRevOfSeq, token.EQL, target)

	var gcSite, afterSite ssa.CallInstruction
	for _, s := range sites {
		if c.Try(di, s, []Clause{{notInUse}}, nil) {
			gcSite = s
		} else {
			afterSite = s
		}
	}

	c.Rule("C12-R1", "G+L", "doInstall garbage collection: discard <= !inUse(name, sameRevision); skipped only when in use; no early exit; a refresh must supply inUseCheck", 4)
	if gcSite == nil {
		c.Violated(pkg+".doInstall#gc-discard<=not-in-use", di.Pos(), "no removeInactiveRevision call in doInstall is gated by inUse(...)==false: revisions the boot still needs (fallback kernel/base) can be discarded")
	} else {
		c.Guarded(pkg+".doInstall#gc-discard<=not-in-use", di, gcSite, []Clause{{notInUse}}, nil)
		// same revision asked about and discarded
		okSame := false
		for _, ic := range CallsMatching(di, inUseCall) {
			a := ic.Common().Args
			ra := CallArgs(gcSite)
			if wrapArg >= 0 {
				// discardRevision(si.Snap): the closure discards the Revision of its argument
				if b1, f1, ok1 := FieldLoad(a[1]); len(a) == 2 && ok1 && f1 == fRevision && wrapArg < len(gcSite.Common().Args) && sameSeqElem(b1, gcSite.Common().Args[wrapArg]) {
					okSame = true
				}
				continue
			}
			if len(a) == 2 && len(ra) >= 5 {
				b1, f1, ok1 := FieldLoad(a[1])
				b2, f2, ok2 := FieldLoad(ra[4])
				if ok1 && ok2 && f1 == fRevision && f2 == fRevision && sameSeqElem(b1, b2) {
					okSame = true
				}
			}
		}
		c.Check(okSame, pkg+".doInstall#gc-same-revision", gcSite.Pos(), "the revision discarded is the one inUse was asked about", "the revision handed to removeInactiveRevision is not the one inUse() was asked about")
		if rl := LoopContaining(di, gcSite); rl == nil {
			c.Undecided(pkg+".doInstall#gc-loop", gcSite.Pos(), "enclosing loop not found")
		} else {
			c.SkipsOnlyAcross(pkg+".doInstall#gc-loop", rl, SinkIs(gcSite), "removeInactiveRevision", Clause{Not(notInUse)}, false)
		}
		// inUse comes from inUseCheck(snapsup.Type); a refresh without inUseCheck is refused up front
		isNilCheck := Cmp("inUseCheck==nil", VParam(di, 6), token.EQL, isNilVal)
		nNil := 0
		for _, b := range di.Blocks {
			for si := range b.Succs {
				if !AtomEdges(isNilCheck)(b, si) {
					continue
				}
				nNil++
				q := ReachQ{Fn: di, From: &Loc{b.Succs[si], -1}, Sink: SinkCall(rir, P.FuncObj("overlord/state.(*State).NewTask"))}
				r := q.Run()
				c.Check(!r.Found, fmt.Sprintf("%s.doInstall#refresh-without-inUseCheck-refused#%d", pkg, nNil), b.Instrs[len(b.Instrs)-1].Pos(), "a refresh without inUseCheck creates no task", "a refresh without an inUseCheck can go on to create tasks: "+P.PathString(r.Path))
			}
		}
		if nNil == 0 {
			c.Violated(pkg+".doInstall#refresh-without-inUseCheck-refused", di.Pos(), "doInstall no longer refuses a refresh that comes without an inUseCheck")
		}
	}

	c.Rule("C12-R2", "G+L", "doInstall: every revision after the current one is discarded except the target; no early exit", 2)
	if afterSite == nil {
		c.Violated(pkg+".doInstall#after-current-discard", di.Pos(), "the discard of revisions kept after the current one (left by an earlier revert) is gone or now depends on inUse")
	} else {
		c.Guarded(pkg+".doInstall#after-current<=not-target", di, afterSite, []Clause{{Not(isTarget)}}, nil)
		if rl := LoopContaining(di, afterSite); rl == nil {
			c.Undecided(pkg+".doInstall#after-current-loop", afterSite.Pos(), "enclosing loop not found")
		} else {
			c.SkipsOnlyAcross(pkg+".doInstall#after-current-loop", rl, SinkIs(afterSite), "removeInactiveRevision", Clause{isTarget}, false)
			// runs up to the end of the sequence
			iff := rl.Header.Instrs[len(rl.Header.Instrs)-1].(*ssa.If)
			okBound := false
			if cmp, ok := iff.Cond.(*ssa.BinOp); ok && cmp.Op == token.LSS {
				okBound = VLen(anyVal)(cmp.Y)
			}
			c.Check(okBound, pkg+".doInstall#after-current-bound", iff.Pos(), "the loop runs to len(seq)", "the loop over the revisions after the current one no longer runs to the end of the sequence")
		}
	}

	c.Rule("C12-R3", "G", "the discard block <= snapst.IsInstalled() ∧ !snapsup.Flags.Revert; retain-- <= LastIndex(target)==-1", 4)
	installed := TrueRes("snapst.IsInstalled()", true, 0, ToFn(isInstalled))
	notRevert := Atom{Name: "!snapsup.Flags.Revert", Match: func(cd Cond) Pol { return cd.BoolIs(VField(fRevert)).Flip() }}
	for i, s := range sites {
		c.Guarded(fmt.Sprintf("%s.doInstall#discard<=installed-not-revert#%d", pkg, i+1), di, s, []Clause{{installed}, {notRevert}}, nil)
	}
	retainObj := P.FuncObj(pkg + ".refreshRetain")
	nDec := 0
	for _, b := range di.Blocks {
		for _, in := range b.Instrs {
			bo, ok := in.(*ssa.BinOp)
			if !ok || bo.Op != token.SUB || !VRes(0, ToFn(retainObj))(bo.X) || !VConstInt(1)(bo.Y) {
				continue
			}
			nDec++
			c.Guarded(fmt.Sprintf("%s.doInstall#retain-decrement#%d", pkg, nDec), di, bo, []Clause{{Cmp("snapst.LastIndex(target)==-1", VRes(0, CallWhere(ToFn(lastIndex), 1, target)), token.EQL, VConstInt(-1))}}, nil)
		}
	}
	if nDec == 0 {
		c.Violated(pkg+".doInstall#retain-decrement", di.Pos(), "the retain count is no longer decremented for the revision being added: one revision too many is kept")
	}
	// and the decremented/undecremented value bounds the GC loop
	if gcSite != nil {
		if rl := LoopContaining(di, gcSite); rl != nil {
			iff := rl.Header.Instrs[len(rl.Header.Instrs)-1].(*ssa.If)
			okB := false
			if cmp, ok := iff.Cond.(*ssa.BinOp); ok {
				okB = DependsOn(cmp.Y, VRes(0, ToFn(retainObj))) || DependsOn(cmp.X, VRes(0, ToFn(retainObj)))
			}
			c.Check(okB, pkg+".doInstall#gc-bound-uses-retain", iff.Pos(), "the GC loop bound is computed from refreshRetain()", "the garbage-collection loop bound does not depend on refreshRetain()")
		}
	}

	c.Rule("C12-R4", "G", "refreshRetain: the default 2 (classic) / 3 is returned exactly on retain==0", 2)
	rr := P.Func(pkg + ".refreshRetain")
	gOnClassic := P.Global("release.OnClassic")
	onClassic := Atom{Name: "release.OnClassic", Match: func(cd Cond) Pol { return cd.BoolIs(VGlobal(gOnClassic)) }}
	isZero := Cmp("retain==0", anyVal, token.EQL, VConstInt(0))
	seen := map[int64]bool{}
	for i, lf := range ReturnLeaves(rr, 0) {
		k, isC := ConstInt(lf.Val)
		if !isC {
			continue
		}
		switch k {
		case 2:
			seen[2] = true
			c.GuardedFlow(fmt.Sprintf("%s.refreshRetain#default-classic#%d", pkg, i+1), rr, lf, []Clause{{isZero}, {onClassic}}, nil)
		case 3:
			seen[3] = true
			c.GuardedFlow(fmt.Sprintf("%s.refreshRetain#default-core#%d", pkg, i+1), rr, lf, []Clause{{isZero}, {Not(onClassic)}}, nil)
		case 0:
			// the zero initial value is re-tested by `retain == 0` below (see #zero-tested)
		default:
			c.Violated(fmt.Sprintf("%s.refreshRetain#default-%d", pkg, k), lf.Pos(), fmt.Sprintf("refreshRetain returns the unreviewed constant %d", k))
		}
	}
	// every return passes the `retain == 0` test
	isZeroTest := func(in ssa.Instruction) bool {
		iff, ok := in.(*ssa.If)
		return ok && isZero.Match(Decompose(iff.Cond)) != PolNone
	}
	rz := ReachQ{Fn: rr, CutInstr: isZeroTest, Sink: func(in ssa.Instruction) bool { _, ok := in.(*ssa.Return); return ok }}.Run()
	c.Check(!rz.Found, pkg+".refreshRetain#zero-tested", rr.Pos(), "every return passes the retain==0 test", "refreshRetain can return without testing for the unset (0) value: "+P.PathString(rz.Path))
	// the defaults may come from a private helper: `return defaultRefreshRetain()` under retain==0
	for i, lf := range ReturnLeaves(rr, 0) {
		cc, _, isCall := CallResult(lf.Val)
		if !isCall {
			continue
		}
		h := cc.Common().StaticCallee()
		if h == nil || h.Pkg != rr.Pkg || len(cc.Common().Args) != 0 || len(h.Blocks) == 0 {
			continue
		}
		okOnly := true
		for j, hl := range ReturnLeaves(h, 0) {
			k, isC := ConstInt(hl.Val)
			switch {
			case isC && k == 2:
				seen[2] = true
				c.GuardedFlow(fmt.Sprintf("%s.refreshRetain#default-classic#h%d", pkg, j+1), h, hl, []Clause{{onClassic}}, nil)
			case isC && k == 3:
				seen[3] = true
				c.GuardedFlow(fmt.Sprintf("%s.refreshRetain#default-core#h%d", pkg, j+1), h, hl, []Clause{{Not(onClassic)}}, nil)
			default:
				okOnly = false
			}
		}
		c.Check(okOnly, fmt.Sprintf("%s.refreshRetain#default-helper#%d", pkg, i+1), cc.Pos(), "the helper returns only the reviewed defaults", "the helper that supplies refreshRetain's default returns something other than 2 or 3")
		c.GuardedFlow(fmt.Sprintf("%s.refreshRetain#default-only-when-unset#%d", pkg, i+1), rr, lf, []Clause{{isZero}}, nil)
	}
	c.Check(seen[2] && seen[3], pkg+".refreshRetain#defaults-present", rr.Pos(), "defaults 2 and 3 present", "the documented defaults (2 on classic, 3 otherwise) are no longer both present")

	c.Rule("C12-R5", "L", "boot.InUse: the answer considers every revision the boot state reports (current and try snap)", 2)
	inUse := P.Func("boot.InUse")
	c.touch(inUse)
	// the returned closure: loops over a slice built from both revisions() results
	for _, cl := range inUse.AnonFuncs {
		loops := RangeLoops(cl)
		if len(loops) == 0 {
			continue
		}
		for i, rl := range loops {
			// the only ways past an element: it does not match (name/revision differ); no break before a match
			q := ReachQ{Fn: cl, From: &Loc{rl.Body, -1}, CutEdge: func(b *ssa.BasicBlock, s int) bool { return b == rl.Header },
				SinkEdge: func(b *ssa.BasicBlock, s int) bool { return b != rl.Header && b.Succs[s] == rl.Done }}
			r := q.Run()
			c.Check(!r.Found, fmt.Sprintf("boot.InUse$closure#exhaustive#%d", i+1), rl.Body.Instrs[0].Pos(), "the scan over the boot revisions has no early exit other than a match", "the scan over the revisions the boot state reports can stop early: "+P.PathString(r.Path))
		}
	}
	// both the current and the try revision are collected
	revsObj := P.TryObj("boot.bootState.revisions")
	if revsObj == nil {
		c.Undecided("boot.InUse#revisions", inUse.Pos(), "bootState.revisions not found")
	} else {
		n := len(callsDeep(inUse, P.FuncObj("boot.bootState.revisions")))
		c.Check(n > 0, "boot.InUse#asks-boot-state", inUse.Pos(), "InUse asks the boot state for its revisions", "InUse no longer asks the boot state for the revisions it uses")
		// every snap returned by revisions() is put into the set consulted, on every path
		revsCalls := CallSites(inUse, P.FuncObj("boot.bootState.revisions"))
		for i, rc := range revsCalls {
			isRes := func(idx int) func(ssa.Value) bool {
				return func(v ssa.Value) bool {
					cc, k, ok := CallResult(v)
					return ok && cc == rc && k == idx
				}
			}
			appendsOf := func(pred func(ssa.Value) bool) func(ssa.Instruction) bool {
				return func(in ssa.Instruction) bool {
					ci, ok := in.(*ssa.Call)
					if !ok {
						return false
					}
					bi, ok := ci.Call.Value.(*ssa.Builtin)
					if !ok || bi.Name() != "append" || len(ci.Call.Args) < 2 {
						return false
					}
					for _, e := range VarargElems(ci.Call.Args[1]) {
						if pred(e) {
							return true
						}
					}
					return false
				}
			}
			okRet := func(in ssa.Instruction) bool {
				r, ok := in.(*ssa.Return)
				return ok && len(r.Results) == 2 && (IsNilConst(r.Results[1]) || IsNilConst(Strip(r.Results[1])))
			}
			q1 := ReachQ{Fn: inUse, From: LocOf(rc), CutInstr: appendsOf(isRes(0)), Sink: okRet}
			r1 := q1.Run()
			c.Check(!r1.Found, fmt.Sprintf("boot.InUse#current-collected#%d", i+1), rc.Pos(), "the current (fallback) snap is always among the revisions in use", "InUse can answer without the current/fallback revision the boot state reports (it is then free to be garbage collected while still needed to fall back to): "+P.PathString(r1.Path))
			tryNil := Cmp("tryCand==nil", isRes(1), token.EQL, isNilVal)
			q2 := ReachQ{Fn: inUse, From: LocOf(rc), CutInstr: appendsOf(isRes(1)), CutEdge: AtomEdges(tryNil), Sink: okRet}
			r2 := q2.Run()
			c.Check(!r2.Found, fmt.Sprintf("boot.InUse#try-collected#%d", i+1), rc.Pos(), "a try snap, when there is one, is always among the revisions in use", "InUse can answer without the try revision although there is one: "+P.PathString(r2.Path))
		}
		if len(revsCalls) == 0 {
			c.Undecided("boot.InUse#revisions-call", inUse.Pos(), "no direct call of bootState.revisions in InUse")
		}
	}
}

// sameSeqElem: two values denote the same sequence element (same load of seq[i], or field
// chains off the same element).
func sameSeqElem(a, b ssa.Value) bool {
	root := func(v ssa.Value) ssa.Value {
		for i := 0; i < 8; i++ {
			switch x := Strip(v).(type) {
			case *ssa.FieldAddr:
				v = x.X
			case *ssa.Field:
				v = x.X
			case *ssa.UnOp:
				if fa, ok := x.X.(*ssa.FieldAddr); ok && x.Op == token.MUL {
					v = fa.X
				} else {
					return Strip(v)
				}
			default:
				return Strip(v)
			}
		}
		return Strip(v)
	}
	return root(a) == root(b)
}
