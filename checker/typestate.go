package main

import (
	"fmt"
	"go/constant"
	"go/token"
	"go/types"
	"sort"
	"strings"

	"golang.org/x/tools/go/ssa"
)

// TS is engine T: it extracts, for every status-setting call on a task value,
// the set of statuses the task can be in at that point (as implied by the
// status tests on the paths leading to it) — the (from-set -> to) relation.
type TS struct {
	P        *Prog
	Names    map[int64]string
	All      uint32
	Ready    uint32
	status   *types.Func
	setSt    *types.Func
	setWait  *types.Func
	eff      *types.Func
	readyFn  *types.Func
	mutators map[*ssa.Function]bool
	wait     int64
	// PureDyn marks dynamic calls assumed not to change task statuses (documented predicates).
	PureDyn func(ci ssa.CallInstruction) bool
}

type TSite struct {
	Fn        *ssa.Function
	Call      ssa.CallInstruction
	From      uint32
	To        int64 // -1: not a constant
	Effective bool  // from-set is about the effective (waited) status
}

func NewTS(P *Prog) *TS {
	ts := &TS{P: P, Names: map[int64]string{}, mutators: map[*ssa.Function]bool{}}
	st := P.NamedType("overlord/state.Status")
	sc := P.Pkgs["overlord/state"].Types.Scope()
	for _, n := range sc.Names() {
		if k, ok := sc.Lookup(n).(*types.Const); ok && types.Identical(k.Type(), st) {
			v, _ := constant.Int64Val(k.Val())
			ts.Names[v] = strings.TrimSuffix(n, "Status")
			ts.All |= 1 << uint(v)
			if n == "WaitStatus" {
				ts.wait = v
			}
		}
	}
	for _, n := range []string{"DoneStatus", "UndoneStatus", "HoldStatus", "ErrorStatus"} {
		v, _ := constant.Int64Val(P.Const("overlord/state." + n).Val())
		ts.Ready |= 1 << uint(v)
	}
	ts.status = P.FuncObj("overlord/state.(*Task).Status")
	ts.setSt = P.FuncObj("overlord/state.(*Task).SetStatus")
	ts.setWait = P.FuncObj("overlord/state.(*Task).SetToWait")
	ts.eff = P.FuncObj("overlord/state.taskEffectiveStatus")
	ts.readyFn = P.FuncObj("overlord/state.Status.Ready")
	// mutators: functions of package state that may (transitively, by static calls) change a task status
	change := P.Func("overlord/state.(*Task).changeStatus")
	ts.mutators[change] = true
	fns := P.FuncsIn("overlord/state")
	for changed := true; changed; {
		changed = false
		for _, fn := range fns {
			if ts.mutators[fn] {
				continue
			}
			for _, b := range fn.Blocks {
				for _, in := range b.Instrs {
					if ci, ok := in.(ssa.CallInstruction); ok {
						if sf := StaticFn(ci); sf != nil && ts.mutators[sf] {
							ts.mutators[fn] = true
							changed = true
						}
					}
				}
			}
		}
	}
	return ts
}

func (ts *TS) Bit(name string) uint32 {
	v, _ := constant.Int64Val(ts.P.Const("overlord/state." + name + "Status").Val())
	return 1 << uint(v)
}

func (ts *TS) SetString(m uint32) string {
	if m == ts.All {
		return "ANY"
	}
	var ks []int
	for v := range ts.Names {
		if m&(1<<uint(v)) != 0 {
			ks = append(ks, int(v))
		}
	}
	sort.Ints(ks)
	var out []string
	for _, k := range ks {
		out = append(out, ts.Names[int64(k)])
	}
	if len(out) == 0 {
		return "{}"
	}
	return "{" + strings.Join(out, ",") + "}"
}

// TaskKey canonicalises a task-valued expression so that different loads of the
// same variable compare equal.
func TaskKey(v ssa.Value) ssa.Value {
	v = Strip(v)
	if u, ok := v.(*ssa.UnOp); ok && u.Op == token.MUL {
		if fv, ok := u.X.(*ssa.FreeVar); ok {
			return fv
		}
		if al, ok := u.X.(*ssa.Alloc); ok {
			return al
		}
	}
	return v
}

type tsState struct {
	cur   uint32
	fresh map[ssa.Value]bool // value -> isEffective (only presence matters; value = effective flag)
	set   bool
}

func (s tsState) clone() tsState {
	n := tsState{cur: s.cur, fresh: map[ssa.Value]bool{}, set: s.set}
	for k, v := range s.fresh {
		n.fresh[k] = v
	}
	return n
}

// Analyze runs the status dataflow for the task identified by key in fn.
func (ts *TS) Analyze(fn *ssa.Function, key ssa.Value, entry uint32) (sites []TSite, atCall map[ssa.Instruction]uint32) {
	sites, atCall, _ = ts.analyze(fn, key, entry)
	return
}

// EdgeStates returns, for every CFG edge, the set of statuses the task can be in when the edge is taken.
func (ts *TS) EdgeStates(fn *ssa.Function, key ssa.Value, entry uint32) map[[2]*ssa.BasicBlock]uint32 {
	_, _, e := ts.analyze(fn, key, entry)
	return e
}

func (ts *TS) analyze(fn *ssa.Function, key ssa.Value, entry uint32) (sites []TSite, atCall map[ssa.Instruction]uint32, edgeSt map[[2]*ssa.BasicBlock]uint32) {
	atCall = map[ssa.Instruction]uint32{}
	edgeSt = map[[2]*ssa.BasicBlock]uint32{}
	in := map[*ssa.BasicBlock]tsState{}
	in[fn.Blocks[0]] = tsState{cur: entry, fresh: map[ssa.Value]bool{}, set: true}
	readyObs := map[ssa.Value]ssa.Value{} // bool value -> status observation it tests
	work := []*ssa.BasicBlock{fn.Blocks[0]}
	siteAt := map[ssa.Instruction]*TSite{}
	isKey := func(v ssa.Value) bool { return v != nil && TaskKey(v) == key }
	merge := func(b *ssa.BasicBlock, s tsState) {
		old, ok := in[b]
		if !ok || !old.set {
			in[b] = s.clone()
			work = append(work, b)
			return
		}
		changed := false
		if old.cur|s.cur != old.cur {
			old.cur |= s.cur
			changed = true
		}
		for k := range old.fresh {
			if _, ok := s.fresh[k]; !ok {
				delete(old.fresh, k)
				changed = true
			}
		}
		in[b] = old
		if changed {
			work = append(work, b)
		}
	}
	for len(work) > 0 {
		b := work[0]
		work = work[1:]
		s := in[b].clone()
		for _, instr := range b.Instrs {
			ci, ok := instr.(ssa.CallInstruction)
			if !ok {
				continue
			}
			if _, isDefer := instr.(*ssa.Defer); isDefer {
				continue
			}
			switch {
			case ToFn(ts.status)(ci) && isKey(CallRecv(ci)):
				if v := ci.Value(); v != nil {
					s.fresh[v] = false
				}
			case ToFn(ts.eff)(ci) && isKey(ci.Common().Args[0]):
				if v := ci.Value(); v != nil {
					s.fresh[v] = true
				}
			case ToFn(ts.readyFn)(ci):
				if v := ci.Value(); v != nil {
					readyObs[v] = ci.Common().Args[0]
				}
			case (ToFn(ts.setSt)(ci) || ToFn(ts.setWait)(ci)) && isKey(CallRecv(ci)):
				to := int64(-1)
				if ToFn(ts.setWait)(ci) {
					to = ts.wait
				} else if k, ok := ConstInt(CallArgs(ci)[0]); ok {
					to = k
				}
				eff := false
				for _, e := range s.fresh {
					if e {
						eff = true
					}
				}
				if site, ok := siteAt[instr]; ok {
					site.From |= s.cur
				} else {
					siteAt[instr] = &TSite{Fn: fn, Call: ci, From: s.cur, To: to, Effective: eff}
				}
				if to >= 0 {
					s.cur = 1 << uint(to)
				} else {
					s.cur = ts.All
				}
				s.fresh = map[ssa.Value]bool{}
			default:
				// calls that may change statuses
				mut := false
				cc := ci.Common()
				if cc.IsInvoke() {
					m := cc.Method
					if !(m.Pkg() != nil && short(m.Pkg().Path()) == "overlord/state" && (m.Name() == "EnsureBefore" || m.Name() == "Checkpoint")) {
						if _, isErr := cc.Value.Type().Underlying().(*types.Interface); isErr && m.Name() == "Error" {
							// error.Error()
						} else {
							mut = true
						}
					}
				} else if sf := StaticFn(ci); sf != nil {
					mut = ts.mutators[sf]
					if _, isClosure := cc.Value.(*ssa.MakeClosure); isClosure {
						// a local closure changes statuses if its body can (one level; anything it
						// cannot see through counts as a change)
						mut = ts.closureMayMutate(sf)
					}
				} else if _, isBuiltin := cc.Value.(*ssa.Builtin); !isBuiltin {
					mut = true // dynamic call through a function value
					if ts.PureDyn != nil && ts.PureDyn(ci) {
						mut = false
					}
				}
				takesKey := isKey(CallRecv(ci))
				for _, a := range cc.Args {
					if isKey(a) {
						takesKey = true
					}
				}
				if takesKey {
					atCall[instr] |= s.cur
				}
				if mut {
					s.cur = ts.All
					s.fresh = map[ssa.Value]bool{}
				}
			}
		}
		// successors
		if len(b.Instrs) > 0 {
			if iff, ok := b.Instrs[len(b.Instrs)-1].(*ssa.If); ok {
				c := Decompose(iff.Cond)
				for si, succ := range b.Succs {
					ns := s.clone()
					onTrue := si == 0
					// v == K
					if c.Bin != nil && (c.Bin.Op == token.EQL || c.Bin.Op == token.NEQ) {
						for _, pr := range [][2]ssa.Value{{c.Bin.X, c.Bin.Y}, {c.Bin.Y, c.Bin.X}} {
							if _, fresh := s.fresh[pr[0]]; fresh {
								if k, ok := ConstInt(pr[1]); ok {
									eq := (c.Bin.Op == token.EQL) == onTrue
									if c.Neg {
										eq = !eq
									}
									if eq {
										ns.cur &= 1 << uint(k)
									} else {
										ns.cur &^= 1 << uint(k)
									}
								}
							}
						}
					}
					if c.Val != nil {
						if obs, ok := readyObs[c.Val]; ok {
							if _, fresh := s.fresh[obs]; fresh {
								isReady := onTrue != c.Neg
								if isReady {
									ns.cur &= ts.Ready
								} else {
									ns.cur &^= ts.Ready
								}
							}
						}
					}
					edgeSt[[2]*ssa.BasicBlock{b, succ}] |= ns.cur
					merge(succ, ns)
				}
				continue
			}
		}
		for _, succ := range b.Succs {
			edgeSt[[2]*ssa.BasicBlock{b, succ}] |= s.cur
			merge(succ, s)
		}
	}
	var keys []ssa.Instruction
	for k := range siteAt {
		keys = append(keys, k)
	}
	sort.Slice(keys, func(i, j int) bool { return keys[i].Pos() < keys[j].Pos() })
	for _, k := range keys {
		sites = append(sites, *siteAt[k])
	}
	return sites, atCall, edgeSt
}

// TaskKeysSet lists the distinct task keys that have their status set in fn.
func (ts *TS) TaskKeysSet(fn *ssa.Function) []ssa.Value {
	var out []ssa.Value
	seen := map[ssa.Value]bool{}
	for _, b := range fn.Blocks {
		for _, in := range b.Instrs {
			ci, ok := in.(ssa.CallInstruction)
			if !ok {
				continue
			}
			if ToFn(ts.setSt)(ci) || ToFn(ts.setWait)(ci) {
				k := TaskKey(CallRecv(ci))
				if !seen[k] {
					seen[k] = true
					out = append(out, k)
				}
			}
		}
	}
	return out
}

func (ts *TS) SiteString(s TSite) string {
	to := "?"
	if s.To >= 0 {
		to = ts.Names[s.To]
	}
	eff := ""
	if s.Effective {
		eff = "(effective)"
	}
	return fmt.Sprintf("%s%s -> %s", ts.SetString(s.From), eff, to)
}

// closureMayMutate: the body of the local closure contains a call that may change a task status:
// a known mutator, a call through a function value or an interface, or another closure.
func (ts *TS) closureMayMutate(cl *ssa.Function) bool {
	if ts.mutators[cl] {
		return true
	}
	for _, b := range cl.Blocks {
		for _, in := range b.Instrs {
			ci, ok := in.(ssa.CallInstruction)
			if !ok {
				continue
			}
			cc := ci.Common()
			switch {
			case cc.IsInvoke():
				if _, isErr := cc.Value.Type().Underlying().(*types.Interface); isErr && cc.Method.Name() == "Error" {
					continue
				}
				return true
			case StaticFn(ci) != nil:
				sf := StaticFn(ci)
				if ts.mutators[sf] {
					return true
				}
				if _, isClosure := cc.Value.(*ssa.MakeClosure); isClosure {
					return true
				}
			default:
				if _, isBuiltin := cc.Value.(*ssa.Builtin); !isBuiltin {
					if ts.PureDyn != nil && ts.PureDyn(ci) {
						continue
					}
					return true
				}
			}
		}
	}
	return false
}
