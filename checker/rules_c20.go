package main

import (
	"fmt"
	"go/token"
	"go/types"
	"strings"

	"golang.org/x/tools/go/ssa"
)

func init() {
	register(&Property{
		ID:          "C20",
		Roots:       []string{"asserts"},
		Technique:   "taint-to-size-use enumeration over package asserts with guarded-sink reachability (two-sided bound) on the SSA CFG; guarded-sink on the stream decoder's size limits; who-may-write of the limit fields",
		Explanation: "Structural necessary conditions for 'malformed input is rejected with an error and never crashes' (the round-trip clause is not decided): (R1) in the stream decoder every read is size-limited: Decoder.Decode reaches its body allocation and readExact(length) only across length <= the per-type or default maximum, calls readUntil only with the decoder's maxHeadersSize/maxSigSize, readUntil cannot grow its window again without passing size <= maxSize, and the three limit fields are written only by the two constructors, from the Max*Size constants; (R2) every integer parsed from input in package asserts (checkInt*/atoi/strconv) that reaches an allocation size, a slice bound, an index or a read size is bounded from below and from above on every path to that use; (R3) in Decode (non-stream) every slice of the input whose bound comes from bytes.Index/LastIndex is reached only across index != -1; (R4) Encode writes content, the same separator Decode splits on, then the signature; (R5) in the input parsers (headers.go, asserts.go) a constant-index access of a string or slice is reached only across a test that it is long enough, and a buffer returned by the stream decoder's readUntil/readExact (valid only until the next read) is never used after a later read.",
		NotDecided:  "round-trip equality (value-level); absence of every panic or hang inside parseHeaders and the per-type assemblers (no sound static argument in reach: the Go compiler's list of unproven bounds checks for the package is the honest measure of what R1-R3 leave open); nesting depth of header values.",
		Run:         func(c *Ctx) { runC20(c); runC20x(c); runC20z(c) },
	})
}

func runC20(c *Ctx) {
	P := c.P
	dec := P.Func("asserts.(*Decoder).Decode")
	readUntil := P.Func("asserts.(*Decoder).readUntil")
	readExactObj := P.FuncObj("asserts.(*Decoder).readExact")
	peekObj := P.FuncObj("asserts.(*Decoder).peek")
	readUntilObj := P.FuncObj("asserts.(*Decoder).readUntil")
	checkIntDef := P.FuncObj("asserts.checkIntWithDefault")
	fMaxHdr := P.Field("asserts.Decoder.maxHeadersSize")
	fMaxSig := P.Field("asserts.Decoder.maxSigSize")
	fDefBody := P.Field("asserts.Decoder.defaultMaxBodySize")
	fTypeMax := P.Field("asserts.Decoder.typeMaxBodySize")

	c.Rule("C20-R1", "G+W", "stream decoder: allocation and reads are limited by the decoder's maxima; limits come only from the Max*Size constants", 9)
	isLength := func(v ssa.Value) bool {
		cc, idx, ok := CallResult(v)
		if !ok || idx != 0 {
			return false
		}
		if _, is := IsCallTo(cc, checkIntDef); !is {
			return false
		}
		a := cc.Common().Args
		s, isC := ConstString(a[1])
		return isC && s == "body-length"
	}
	isTypeMax := func(v ssa.Value) bool {
		// d.typeMaxBodySize[typ]
		v = Strip(v)
		if lk, ok := v.(*ssa.Lookup); ok {
			return IsFieldLoad(lk.X, fTypeMax)
		}
		if ex, ok := v.(*ssa.Extract); ok {
			if lk, ok := ex.Tuple.(*ssa.Lookup); ok {
				return IsFieldLoad(lk.X, fTypeMax)
			}
		}
		return false
	}
	leDefault := Cmp("length<=d.defaultMaxBodySize", isLength, token.LEQ, VField(fDefBody))
	leType := Cmp("length<=d.typeMaxBodySize[typ]", isLength, token.LEQ, isTypeMax)
	sizeCalls := map[*types.Func]int{readExactObj: 1, peekObj: 1}
	n := 0
	for _, su := range SizeUses(dec, sizeCalls) {
		if !DependsOn(su.Val, isLength) {
			continue
		}
		n++
		viaHelper := OkHelper("length<=maximum", dec, func(h *ssa.Function, cc ssa.CallInstruction) []Atom {
			L := LiftPred(isLength, h, cc)
			return []Atom{Cmp("length<=d.defaultMaxBodySize", L, token.LEQ, VField(fDefBody)), Cmp("length<=d.typeMaxBodySize[typ]", L, token.LEQ, isTypeMax)}
		})
		if CountAtomEdges(dec, viaHelper) > 0 && CountAtomEdges(dec, leDefault) == 0 && CountAtomEdges(dec, leType) == 0 {
			c.Guarded(fmt.Sprintf("asserts.(*Decoder).Decode#body-length-upper-bound#%s", su.Role), dec, su.Instr, []Clause{{viaHelper}}, nil)
			continue
		}
		c.Guarded(fmt.Sprintf("asserts.(*Decoder).Decode#body-length-upper-bound#%s", su.Role), dec, su.Instr, []Clause{{leDefault, leType}}, nil)
	}
	if n == 0 {
		c.Undecided("asserts.(*Decoder).Decode#body-length-uses", dec.Pos(), "no size use of the declared body length found")
	}
	for i, rc := range CallSites(dec, readUntilObj) {
		a := rc.Common().Args
		ok := len(a) == 3 && (VFieldOf(fMaxHdr, VParam(dec, 0))(a[2]) || VFieldOf(fMaxSig, VParam(dec, 0))(a[2]))
		c.Check(ok, fmt.Sprintf("asserts.(*Decoder).Decode#readUntil-limit#%d", i+1), rc.Pos(), "limited by d.maxHeadersSize / d.maxSigSize", "readUntil is called with a limit that is not the decoder's maxHeadersSize/maxSigSize")
	}
	// readUntil: growing the window again requires size <= maxSize
	var grow *ssa.BinOp
	for _, b := range readUntil.Blocks {
		for _, in := range b.Instrs {
			if bo, ok := in.(*ssa.BinOp); ok && (bo.Op == token.MUL || bo.Op == token.ADD || bo.Op == token.SHL) {
				if _, isPhi := bo.X.(*ssa.Phi); isPhi && isIntType(bo.Type()) {
					// the phi feeding peek's size
					for _, pc := range CallSites(readUntil, peekObj) {
						if pc.Common().Args[1] == bo.X {
							grow = bo
						}
					}
				}
			}
		}
	}
	if grow == nil {
		c.Undecided("asserts.(*Decoder).readUntil#window-growth", readUntil.Pos(), "the window growth (size *= 2 feeding peek) was not recognised")
	} else {
		for i, pc := range CallSites(readUntil, peekObj) {
			c.Guarded(fmt.Sprintf("asserts.(*Decoder).readUntil#regrow-bounded#%d", i+1), readUntil, pc,
				[]Clause{{Cmp("size<=maxSize", VIs(grow), token.LEQ, VParam(readUntil, 2))}}, &GOpt{From: LocOf(grow)})
		}
		// the over-limit edge returns an error
		for i, lf := range nilLeaves(readUntil, 1) {
			c.GuardedFlow(fmt.Sprintf("asserts.(*Decoder).readUntil#nil-error#%d", i+1), readUntil, lf, []Clause{{
				Cmp("bytes.Index>=0", VRes(0, ToFn(P.FuncObj("bytes.Index"))), token.GEQ, VConstInt(0)),
			}}, nil)
		}
	}
	// limit fields: written only in the constructors, from the constants
	limits := []struct {
		f *types.Var
		k *types.Const
	}{
		{fMaxHdr, P.Const("asserts.MaxHeadersSize")},
		{fMaxSig, P.Const("asserts.MaxSignatureSize")},
		{fDefBody, P.Const("asserts.MaxBodySize")},
	}
	ctors := map[*ssa.Function]bool{P.Func("asserts.NewDecoder"): true, P.Func("asserts.NewDecoderWithTypeMaxBodySize"): true}
	for _, l := range limits {
		sts := P.FieldStores(l.f)
		seenCtor := map[*ssa.Function]bool{}
		for i, st := range sts {
			fn := st.Parent()
			ok := ctors[fn] && VConstObj(l.k)(st.Val)
			seenCtor[fn] = true
			c.Check(ok, fmt.Sprintf("asserts.Decoder.%s#store#%d", l.f.Name(), i+1), st.Pos(), "set by a constructor from "+l.k.Name(), fmt.Sprintf("Decoder.%s is written in %s with a value that is not the constant %s", l.f.Name(), SSAFuncName(fn), l.k.Name()))
		}
		for fn := range ctors {
			if !seenCtor[fn] {
				c.Violated(fmt.Sprintf("asserts.Decoder.%s#unset-in#%s", l.f.Name(), fn.Name()), fn.Pos(), fmt.Sprintf("%s does not initialise Decoder.%s: the zero limit would disable the size check or reject everything", fn.Name(), l.f.Name()))
			}
		}
	}

	c.Rule("C20-R2", "G(taint)", "every input-derived integer in package asserts reaching an allocation size, slice bound, index or read size is gated by a lower and an upper bound", 3)
	var srcFns []*types.Func
	for _, n := range []string{"asserts.checkIntWithDefault", "asserts.checkInt", "asserts.checkIntWhat", "asserts.atoi", "strconv.Atoi", "strconv.ParseInt", "strconv.ParseUint"} {
		if o := P.TryObj(n); o != nil {
			srcFns = append(srcFns, o.(*types.Func))
		} else if n[:7] == "asserts" {
			anchorFail(n, "input-integer parser not found")
		}
	}
	isSrc := func(v ssa.Value) bool {
		cc, idx, ok := CallResult(v)
		if !ok || idx != 0 {
			return false
		}
		_, is := IsCallTo(cc, srcFns...)
		return is
	}
	nSrc, nUse := 0, 0
	for _, fn := range P.FuncsIn("asserts") {
		hasSrc := false
		for _, b := range fn.Blocks {
			for _, in := range b.Instrs {
				if v, ok := in.(ssa.Value); ok && isSrc(v) {
					hasSrc = true
					nSrc++
				}
			}
		}
		if !hasSrc {
			continue
		}
		c.touch(fn)
		perRole := map[string]int{}
		for _, su := range SizeUses(fn, sizeCalls) {
			var srcVal ssa.Value
			if !DependsOn(su.Val, func(v ssa.Value) bool {
				if isSrc(v) {
					srcVal = Strip(v)
					return true
				}
				return false
			}) {
				continue
			}
			nUse++
			perRole[su.Role]++
			name := fmt.Sprintf("%s#input-int-%s#%d", SSAFuncName(fn), su.Role, perRole[su.Role])
			X := VIs(srcVal)
			c.Guarded(name+"#lower", fn, su.Instr, []Clause{LowerBoundAtoms("n", X)}, &GOpt{NoVacuity: true})
			fnHere := fn
			upper := append(Clause{}, UpperBoundAtoms("n", X)...)
			upper = append(upper, OkHelper("n<=v", fnHere, func(h *ssa.Function, cc ssa.CallInstruction) []Atom {
				return UpperBoundAtoms("n", LiftPred(X, h, cc))
			}))
			c.Guarded(name+"#upper", fn, su.Instr, []Clause{upper}, &GOpt{NoVacuity: true})
		}
	}
	c.Holds("asserts#input-int-sources", token.NoPos, fmt.Sprintf("%d parse sites examined, %d size uses of their results", nSrc, nUse))

	c.Rule("C20-R3", "G", "Decode: slices of the input bounded by a bytes.Index/LastIndex result are reached only across index != -1", 3)
	decode := P.Func("asserts.Decode")
	idxFns := []*types.Func{P.FuncObj("bytes.Index"), P.FuncObj("bytes.LastIndex")}
	k := 0
	for _, su := range SizeUses(decode, nil) {
		var src ssa.Value
		if !DependsOn(su.Val, func(v ssa.Value) bool {
			if IsResultOf(v, 0, idxFns...) {
				src = Strip(v)
				return true
			}
			return false
		}) {
			continue
		}
		k++
		c.Guarded(fmt.Sprintf("asserts.Decode#%s#%d", su.Role, k), decode, su.Instr, []Clause{{
			Not(Cmp("idx==-1", VIs(src), token.EQL, VConstInt(-1))),
			Cmp("idx>=0", VIs(src), token.GEQ, VConstInt(0)),
		}}, nil)
	}

	c.Rule("C20-R5", "G", "input parsing (headers.go, asserts.go): a constant-index access x[K] of a string or slice is reached only across a test that x is long enough (len(x) > K, len(x) != 0, x != \"\", HasPrefix(x, ...)); a buffer returned by readUntil/readExact is not used after a later read", 2)
	nIdx := 0
	for _, fn := range P.FuncsIn("asserts") {
		file := P.Fset.Position(fn.Pos()).Filename
		nm := SSAFuncName(fn)
		if !strings.HasSuffix(file, "/asserts/headers.go") && nm != "asserts.Decode" && nm != "asserts.(*Decoder).Decode" && nm != "asserts.assemble" {
			continue
		}
		for _, b := range fn.Blocks {
			for _, in := range b.Instrs {
				var base, idx ssa.Value
				switch x := in.(type) {
				case *ssa.Index:
					base, idx = x.X, x.Index
				case *ssa.IndexAddr:
					base, idx = x.X, x.Index
				case *ssa.Lookup:
					if _, isMap := x.X.Type().Underlying().(*types.Map); !isMap {
						base, idx = x.X, x.Index
					}
				}
				if base == nil {
					continue
				}
				k, isC := ConstInt(idx)
				if !isC {
					continue
				}
				switch t := base.Type().Underlying().(type) {
				case *types.Pointer:
					if _, isArr := t.Elem().Underlying().(*types.Array); isArr {
						continue // fixed-size array (varargs backing store, ...)
					}
				case *types.Array:
					continue
				}
				if _, isGlobalLoad := Strip(base).(*ssa.Global); isGlobalLoad {
					continue
				}
				if u, ok := Strip(base).(*ssa.UnOp); ok {
					if _, isG := u.X.(*ssa.Global); isG {
						continue // package-level constant tables (nl, nlnl, listChar)
					}
				}
				if _, isConst := Strip(base).(*ssa.Const); isConst {
					continue
				}
				nIdx++
				c.touch(fn)
				X := VIs(base)
				lenX := VLen(X)
				longEnough := Clause{
					Cmp(fmt.Sprintf("len(x)>%d", k), lenX, token.GTR, func(v ssa.Value) bool { n, ok := ConstInt(v); return ok && n >= k }),
					Cmp(fmt.Sprintf("len(x)>=%d", k+1), lenX, token.GEQ, func(v ssa.Value) bool { n, ok := ConstInt(v); return ok && n >= k+1 }),
					Cmp(fmt.Sprintf("len(x)==n>%d", k), lenX, token.EQL, func(v ssa.Value) bool { n, ok := ConstInt(v); return ok && n >= k+1 }),
					TrueRes("strings.HasPrefix(x, ...)", true, 0, CallWhere(ToFn(P.FuncObj("strings.HasPrefix")), 0, X)),
					TrueRes("bytes.HasPrefix(x, ...)", true, 0, CallWhere(ToFn(P.FuncObj("bytes.HasPrefix")), 0, X)),
				}
				if k == 0 {
					longEnough = append(longEnough,
						Not(Cmp("len(x)==0", lenX, token.EQL, VConstInt(0))),
						Not(Cmp("x==\"\"", X, token.EQL, VConstStr(""))))
				}
				c.Guarded(fmt.Sprintf("%s#const-index[%d]#%d", SSAFuncName(fn), k, nIdx), fn, in, []Clause{longEnough}, &GOpt{NoVacuity: true})
			}
		}
	}
	// read buffers are not used after a later read
	readObjs := []*types.Func{readUntilObj, readExactObj, peekObj}
	reads := CallSites(dec, readObjs...)
	for i, r1 := range reads {
		alias := map[ssa.Value]bool{}
		var addAlias func(v ssa.Value)
		addAlias = func(v ssa.Value) {
			if v == nil || alias[v] {
				return
			}
			alias[v] = true
			if refs := v.Referrers(); refs != nil {
				for _, r := range *refs {
					switch x := r.(type) {
					case *ssa.Slice:
						if x.X == v {
							addAlias(x)
						}
					case *ssa.ChangeType:
						addAlias(x)
					}
				}
			}
		}
		if cv := r1.Value(); cv != nil && cv.Referrers() != nil {
			for _, r := range *cv.Referrers() {
				if ex, ok := r.(*ssa.Extract); ok && ex.Index == 0 {
					addAlias(ex)
				}
			}
		}
		bad := ""
		for v := range alias {
			if v.Referrers() == nil {
				continue
			}
			for _, use := range *v.Referrers() {
				if ci, ok := use.(*ssa.Call); ok {
					if bi, ok := ci.Call.Value.(*ssa.Builtin); ok && (bi.Name() == "len" || bi.Name() == "cap") {
						continue
					}
				}
				if _, isAlias := use.(ssa.Value); isAlias && alias[use.(ssa.Value)] {
					continue
				}
				if _, isDbg := use.(*ssa.DebugRef); isDbg {
					continue
				}
				// a phi consumes the value on the incoming edge: the use is at the end of that predecessor
				useAt := []ssa.Instruction{use}
				if phi, ok := use.(*ssa.Phi); ok {
					useAt = nil
					for ei, e := range phi.Edges {
						if e == v {
							pb := phi.Block().Preds[ei]
							useAt = append(useAt, pb.Instrs[len(pb.Instrs)-1])
						}
					}
				}
				for _, r2 := range reads {
					if r2 == r1 {
						continue
					}
					hit := false
					for _, u := range useAt {
						if (ReachQ{Fn: dec, From: LocOf(r2), Sink: SinkIs(u)}).Run().Found {
							hit = true
						}
					}
					if (ReachQ{Fn: dec, From: LocOf(r1), Sink: SinkIs(r2)}).Run().Found && hit {
						bad = fmt.Sprintf("the buffer returned by the read at %s is used at %s after the read at %s", P.Pos(r1.Pos()), P.Pos(use.Pos()), P.Pos(r2.Pos()))
					}
				}
			}
		}
		c.Check(bad == "", fmt.Sprintf("asserts.(*Decoder).Decode#read-buffer-lifetime#%d", i+1), r1.Pos(), "not used after a later read (the returned slice aliases the bufio buffer)", bad+": readUntil/readExact results are only valid until the next reading call; the bytes may have been overwritten, so the decoded content differs from what was sent")
	}

	c.Rule("C20-R4", "K", "Encode writes content, nlnl, signature - the separator Decode splits on", 1)
	enc := P.Func("asserts.Encode")
	gNlnl := P.Global("asserts.nlnl")
	sigObj := P.FuncObj("asserts.Assertion.Signature")
	writeObj := P.FuncObj("bytes.(*Buffer).Write")
	var seq []string
	for _, b := range enc.Blocks {
		for _, in := range b.Instrs {
			if wc, ok := IsCallTo(in, writeObj); ok {
				a := wc.Common().Args[1]
				switch {
				case VRes(0, ToFn(sigObj))(a):
					seq = append(seq, "content")
				case VRes(1, ToFn(sigObj))(a):
					seq = append(seq, "signature")
				case VGlobal(gNlnl)(a):
					seq = append(seq, "nlnl")
				default:
					seq = append(seq, "?")
				}
			}
		}
	}
	okSeq := len(seq) == 3 && seq[0] == "content" && seq[1] == "nlnl" && seq[2] == "signature" && len(enc.Blocks) == 1
	c.Check(okSeq, "asserts.Encode#layout", enc.Pos(), "content nlnl signature", fmt.Sprintf("Encode writes %v, not [content nlnl signature]", seq))
	usesNlnl := false
	for _, cc := range CallSites(decode, idxFns...) {
		if VGlobal(gNlnl)(cc.Common().Args[1]) {
			usesNlnl = true
		}
	}
	c.Check(usesNlnl, "asserts.Decode#separator", decode.Pos(), "Decode splits on nlnl", "Decode does not split on the nlnl separator Encode writes")
}

func isIntType(t types.Type) bool {
	b, ok := t.Underlying().(*types.Basic)
	return ok && b.Info()&types.IsInteger != 0
}
