package main

import (
	"fmt"
	"go/token"
	"go/types"
	"sort"
	"strings"

	"golang.org/x/tools/go/ssa"
)

func init() {
	register(&Property{
		ID:          "C14",
		Roots:       []string{"overlord/snapstate", "overlord/ifacestate", "overlord/devicestate", "daemon"},
		Technique:   "interprocedural guarded-task-creation analysis: every NewTask site of a snap-mutating kind must be cut (SSA CFG) from its function's entry by a successful conflict check, or every call chain leading to it must be, up to the exported entry points; guarded-sink and loop-latch rules on the conflict checker itself",
		Explanation: "Structural necessary conditions for 'no two in-progress changes operate on the same snap': (R1) every creation of a task that links, unlinks, mounts, discards, copies data of, or otherwise mutates a snap (constant kind registered by the snap manager with a link/unlink/mount/discard/data/alias/component effect) is preceded on every path - in its own function or in every caller chain up to an exported entry point - by a successful CheckChangeConflict*/checkChangeConflictIgnoringOneChange call (ifacestate: checkAutoconnect/Disconnect/HotplugDisconnectConflicts; also accepted: a first loop that checks every element of a collection and a second loop over the same collection that creates the tasks); entry points that create such tasks without a check are reported unless listed with a reason (download-only, running inside an already exclusive change); (R2) checkChangeConflictExclusiveKinds rejects, for each exclusive change kind found in progress, unless it is the ignored change, and the creators of exclusive changes call the exclusive check; (R3) isIrrelevantChange says true only for nil, ready, ignored or the two reviewed harmless kinds; (R4) CheckChangeConflictMany advances over the tasks of the state only across irrelevant changes or tasks whose affected snaps do not intersect the requested ones, and reports a conflict otherwise; (R5) checkChangeConflictIgnoringOneChange answers nil for a caller-supplied snapshot only across reflect.DeepEqual(snapst, current); (R6) the affected-snaps registry keeps its registrations (hook-setup, service-action, snapshot-setup, quota-control, connect, disconnect, ...); (R7) the snap names handed to the conflict checks are instance names, never SnapName() results.",
		NotDecided:  "that SnapsAffectedByTask names every snap a task really touches; conflicts between changes created in the same state lock window by different managers; remodel's internal sequencing.",
		Run:         func(c *Ctx) { runC14(c); runC14x(c); runC14y(c); runC14z(c) },
	})
}

// c14MutatingKinds: task kinds that change a snap's installed/linked state; creating one
// for a snap another change is operating on is what the property forbids.
var c14MutatingKinds = map[string]bool{
	"mount-snap": true, "unlink-current-snap": true, "copy-snap-data": true, "link-snap": true,
	"unlink-snap": true, "clear-snap": true, "discard-snap": true, "switch-snap-channel": true,
	"toggle-snap-flags": true, "switch-snap": true, "migrate-snap-home": true,
	"setup-aliases": true, "remove-aliases": true, "alias": true, "unalias": true, "disable-aliases": true, "prefer-aliases": true, "refresh-aliases": true, "set-auto-aliases": true, "prune-auto-aliases": true,
	"connect": true, "disconnect": true,
	"mount-component": true, "unlink-current-component": true, "link-component": true, "unlink-component": true, "discard-component": true,
}

// c14Exempt: functions that may create such tasks without a conflict check of their own or of their callers.
var c14Exempt = map[string]string{
	"overlord/snapstate.AddLinkNewBaseOrKernel":                "only extends, for devicestate's remodel, the task set a checked Install/Update/Path produced; the remodel change itself is exclusive (R2)",
	"overlord/ifacestate.(*InterfaceManager).doAutoConnect":    "connect tasks are created (batchConnectTasks) only for the `newconns` map, which autoConnectChecker.addAutoConnections fills after checkAutoconnectConflicts succeeded for each candidate (data dependency; helpers.go); a conflict returns Retry",
	"overlord/ifacestate.(*InterfaceManager).doHotplugConnect": "the connections it recreates are collected only after checkAutoconnectConflicts succeeded for each of them (data dependency through `recreate`), new ones come from addAutoConnections which runs the same check; a conflict returns Retry",
}

func runC14(c *Ctx) {
	P := c.P
	newTask := P.FuncObj("overlord/state.(*State).NewTask")
	var checks []*types.Func
	for _, n := range []string{"CheckChangeConflictMany", "CheckChangeConflict", "checkChangeConflictIgnoringOneChange"} {
		checks = append(checks, P.FuncObj("overlord/snapstate."+n))
	}
	for _, n := range []string{"checkAutoconnectConflicts", "checkDisconnectConflicts", "checkHotplugDisconnectConflicts"} {
		checks = append(checks, P.FuncObj("overlord/ifacestate."+n))
	}
	okCheck := OkCall("ok(CheckChangeConflict*)", checks...)

	c.Rule("C14-R1", "G+W", "every creation of a snap-mutating task is preceded by a successful conflict check in its function or in every caller chain up to the entry points", 20)
	type site struct {
		fn   *ssa.Function
		in   ssa.Instruction
		what string
	}
	// unguarded[f] = reasons f needs its callers to have checked
	unguarded := map[*ssa.Function][]site{}
	var funcs []*ssa.Function
	for _, pk := range []string{"overlord/snapstate", "overlord/ifacestate", "overlord/devicestate", "daemon"} {
		funcs = append(funcs, P.FuncsIn(pk)...)
	}
	top := func(fn *ssa.Function) *ssa.Function {
		for fn.Parent() != nil {
			fn = fn.Parent()
		}
		return fn
	}
	nSites := 0
	for _, fn := range funcs {
		for _, cs := range CallSites(fn, newTask) {
			k, ok := ConstString(CallArgs(cs)[0])
			if !ok || !c14MutatingKinds[k] {
				continue
			}
			nSites++
			if fn.Parent() == nil && c.Try(fn, cs, []Clause{{okCheck}}, nil) {
				c.touch(fn)
				c.Holds(fmt.Sprintf("%s#new-task:%s", SSAFuncName(fn), k), cs.Pos(), "cut from the entry by a successful conflict check in the same function")
				continue
			}
			// closures: the creation inside a closure counts for the enclosing function at the MakeClosure site
			unguarded[top(fn)] = append(unguarded[top(fn)], site{fn, cs, "NewTask(" + k + ")"})
		}
	}
	// propagate to callers
	callersOf := func(target *ssa.Function) []site {
		var out []site
		obj, _ := target.Object().(*types.Func)
		if obj == nil {
			return nil
		}
		for _, u := range P.UsesOf(obj) {
			out = append(out, site{u.Fn, u.Instr, "call/use of " + SSAFuncName(target)})
		}
		return out
	}
	type need struct {
		fn    *ssa.Function
		chain string
	}
	roots := map[*ssa.Function]string{}
	visited := map[*ssa.Function]bool{}
	var work []need
	var fkeys []*ssa.Function
	for f := range unguarded {
		fkeys = append(fkeys, f)
	}
	sort.Slice(fkeys, func(i, j int) bool { return SSAFuncName(fkeys[i]) < SSAFuncName(fkeys[j]) })
	for _, f := range fkeys {
		work = append(work, need{f, unguarded[f][0].what + " in " + SSAFuncName(unguarded[f][0].fn)})
	}
	for len(work) > 0 {
		n := work[0]
		work = work[1:]
		if visited[n.fn] {
			continue
		}
		visited[n.fn] = true
		c.touch(n.fn)
		callers := callersOf(n.fn)
		if len(callers) == 0 {
			roots[n.fn] = n.chain
			continue
		}
		// a function whose value is taken (task handlers registered with AddHandler, callbacks)
		// is run by the task runner: it is its own entry point
		valueTaken := false
		for _, cs := range callers {
			if _, isCall := cs.in.(ssa.CallInstruction); !isCall {
				valueTaken = true
			}
		}
		if valueTaken {
			roots[n.fn] = n.chain
			continue
		}
		// the exported functions of the manager packages are the API other packages (daemon,
		// devicestate, ...) build changes from: they are the entry points, the analysis stops there
		if o, ok := n.fn.Object().(*types.Func); ok && o.Exported() && n.fn.Signature.Recv() == nil {
			roots[n.fn] = n.chain
			continue
		}
		for _, cs := range callers {
			cfn := cs.fn
			guarded := false
			if ci, ok := cs.in.(ssa.CallInstruction); ok && cfn.Parent() == nil {
				guarded = c.Try(cfn, ci, []Clause{{okCheck}}, nil)
			}
			if !guarded {
				if ci, ok := cs.in.(ssa.CallInstruction); ok && cfn.Parent() == nil && guardedByPriorLoop(cfn, ci, okCheck) {
					guarded = true
				}
			}
			if !guarded && cfn.Parent() != nil && cfn.Parent().Parent() == nil {
				// the call sits in a local closure that its function only calls (never hands out):
				// it is as guarded as every call of the closure is
				par := cfn.Parent()
				sites, escapes := 0, false
				allGuarded := true
				for _, b := range par.Blocks {
					for _, in := range b.Instrs {
						if cc, ok := in.(ssa.CallInstruction); ok && cc.Common().StaticCallee() == cfn {
							if _, isDefer := in.(*ssa.Defer); isDefer {
								escapes = true
							}
							if _, isGo := in.(*ssa.Go); isGo {
								escapes = true
							}
							sites++
							if !c.Try(par, cc, []Clause{{okCheck}}, nil) && !guardedByPriorLoop(par, cc, okCheck) {
								allGuarded = false
							}
							continue
						}
						if mc, ok := in.(*ssa.MakeClosure); ok && mc.Fn == ssa.Value(cfn) && mc.Referrers() != nil {
							for _, r := range *mc.Referrers() {
								if rc, isCall := r.(ssa.CallInstruction); !isCall || rc.Common().Value != ssa.Value(mc) {
									if _, dbg := r.(*ssa.DebugRef); !dbg {
										escapes = true
									}
								}
							}
						}
					}
				}
				if sites > 0 && !escapes && allGuarded {
					guarded = true
				}
			}
			if !guarded {
				work = append(work, need{top(cfn), n.chain + " <- " + SSAFuncName(n.fn)})
			}
		}
	}
	var rkeys []*ssa.Function
	for f := range roots {
		rkeys = append(rkeys, f)
	}
	sort.Slice(rkeys, func(i, j int) bool { return SSAFuncName(rkeys[i]) < SSAFuncName(rkeys[j]) })
	usedEx := map[string]bool{}
	for _, f := range rkeys {
		name := SSAFuncName(f)
		if why, ok := c14Exempt[name]; ok {
			usedEx[name] = true
			c.Holds(name+"#entry-unchecked", f.Pos(), "reviewed exemption: "+why)
			continue
		}
		c.Violated(name+"#entry-unchecked", f.Pos(), fmt.Sprintf("entry point %s can create %s without any successful conflict check on the way: a second change can start operating on a snap that an in-progress change is modifying", name, roots[f]))
	}
	for name := range c14Exempt {
		if !usedEx[name] {
			c.Violated(name+"#stale-exemption", token.NoPos, "exemption matches no unchecked entry point any more (stale)")
		}
	}
	c.Holds("snap-mutating-task-sites", token.NoPos, fmt.Sprintf("%d NewTask sites of mutating kinds examined", nSites))
	_ = strings.Join

	// ---- R2
	c.Rule("C14-R2", "G+W", "exclusive change kinds: checkChangeConflictExclusiveKinds returns a conflict for each exclusive kind in progress unless it is the ignored change; every creator of an exclusive change runs the exclusive check first", 8)
	excl := P.Func("overlord/snapstate.checkChangeConflictExclusiveKinds")
	kindObj := P.FuncObj("overlord/state.(*Change).Kind")
	idObj := P.FuncObj("overlord/state.(*Change).ID")
	kindIs := func(k string) Atom { return Cmp("chg.Kind()=="+k, VRes(0, ToFn(kindObj)), token.EQL, VConstStr(k)) }
	ignored := Cmp("chg.ID()==ignoreChangeID", VRes(0, ToFn(idObj)), token.EQL, VParam(excl, 2))
	var chLoop *RangeLoop
	for _, rl := range RangeLoops(excl) {
		if rl.Coll != nil && VRes(0, ToFn(P.FuncObj("overlord/state.(*State).Changes")))(rl.Coll) {
			chLoop = rl
		}
	}
	if chLoop == nil {
		c.Undecided("overlord/snapstate.checkChangeConflictExclusiveKinds#loop", excl.Pos(), "loop over st.Changes() not found")
	} else {
		for _, k := range []struct {
			kind      string
			ignorable bool
		}{{"transition-ubuntu-core", false}, {"transition-to-snapd-snap", false}, {"remodel", true}, {"create-recovery-system", true}, {"remove-recovery-system", true}} {
			// from the edge establishing Kind()==k, the loop cannot advance (or finish) unless ignored
			n := 0
			for _, b := range excl.Blocks {
				for si := range b.Succs {
					if !AtomEdges(kindIs(k.kind))(b, si) {
						continue
					}
					n++
					var cut func(*ssa.BasicBlock, int) bool
					if k.ignorable {
						cut = AtomEdges(ignored)
					}
					q := ReachQ{Fn: excl, From: &Loc{b.Succs[si], -1}, CutEdge: cut, SinkEdge: func(bb *ssa.BasicBlock, s int) bool { return bb.Succs[s] == chLoop.Header }}
					r := q.Run()
					c.cur.Blocks += r.Blocks
					c.cur.Edges += r.Edges
					msg := "an unready " + k.kind + " change always yields a conflict"
					if k.ignorable {
						msg += " unless it is the ignored change"
					}
					c.Check(!r.Found, "overlord/snapstate.checkChangeConflictExclusiveKinds#"+k.kind, b.Instrs[len(b.Instrs)-1].Pos(), msg, "with an unready "+k.kind+" change the exclusive check can move on to the next change without reporting a conflict: "+P.PathString(r.Path))
				}
			}
			if n == 0 {
				c.Violated("overlord/snapstate.checkChangeConflictExclusiveKinds#"+k.kind, excl.Pos(), "exclusive kind "+k.kind+" is no longer recognised by the exclusive-kinds check")
			}
		}
		// ready changes are the only ones skipped up front
		c.LatchGated("overlord/snapstate.checkChangeConflictExclusiveKinds#skip-only-ready", chLoop, []Clause{{
			TrueRes("chg.Status().Ready()", true, 0, ToFn(P.FuncObj("overlord/state.Status.Ready"))),
			ignored,
			TrueRes("!downgrading", false, 0, ToFn(P.FuncObj("overlord/snapstate.changeIsSnapdDowngrade"))),
			Cmp("newExclusiveChangeKind==\"\"", VParam(excl, 1), token.EQL, VConstStr("")),
		}})
	}
	// CheckChangeConflictMany consults it
	many := P.Func("overlord/snapstate.CheckChangeConflictMany")
	exclObj := P.FuncObj("overlord/snapstate.checkChangeConflictExclusiveKinds")
	for i, lf := range nilLeaves(many, 0) {
		c.GuardedFlow(fmt.Sprintf("overlord/snapstate.CheckChangeConflictMany#nil<=exclusive-check#%d", i+1), many, lf, []Clause{{OkCall("ok(checkChangeConflictExclusiveKinds)", exclObj)}}, nil)
	}
	// creators of exclusive changes
	newChange := P.FuncObj("overlord/state.(*State).NewChange")
	runExcl := P.FuncObj("overlord/snapstate.CheckChangeConflictRunExclusively")
	exclusiveKinds := map[string]bool{"remodel": true, "create-recovery-system": true, "remove-recovery-system": true}
	nCreators := 0
	for _, fn := range funcs {
		for _, nc := range CallSites(fn, newChange) {
			k, ok := ConstString(CallArgs(nc)[0])
			if !ok || !exclusiveKinds[k] {
				continue
			}
			nCreators++
			c.Guarded(fmt.Sprintf("%s#new-change:%s", SSAFuncName(fn), k), fn, nc, []Clause{{OkCall("ok(CheckChangeConflictRunExclusively)", runExcl)}}, nil)
		}
	}
	c.Holds("exclusive-change-creators", token.NoPos, fmt.Sprintf("%d NewChange sites of exclusive kinds in the loaded packages", nCreators))

	// ---- R3
	c.Rule("C14-R3", "G", "isIrrelevantChange: true only for nil, ready, the ignored change, or the kinds pre-download / become-operational", 1)
	irr := P.Func("overlord/snapstate.isIrrelevantChange")
	isReadyObj := P.FuncObj("overlord/state.(*Change).IsReady")
	irrClause := Clause{
		Cmp("chg==nil", VParam(irr, 0), token.EQL, isNilVal),
		TrueRes("chg.IsReady()", true, 0, ToFn(isReadyObj)),
		Cmp("chg.ID()==ignoreChangeID", VRes(0, ToFn(idObj)), token.EQL, VParam(irr, 1)),
		kindIs("pre-download"), kindIs("become-operational"),
	}
	nTrue := 0
	for _, lf := range ReturnLeaves(irr, 0) {
		if v, ok := ConstBool(lf.Val); ok && !v {
			continue
		}
		nTrue++
		if _, isC := ConstBool(lf.Val); !isC {
			// `return kind == "pre-download" || kind == "become-operational"`: the value returned is one of the admitted tests itself
			cd := Decompose(lf.Val)
			isOne := false
			for _, a := range irrClause {
				if a.Match(cd) == PolTrue {
					isOne = true
				}
			}
			if isOne {
				c.Holds(fmt.Sprintf("overlord/snapstate.isIrrelevantChange#true#%d", nTrue), lf.Pos(), "returns the truth of an admitted test")
				continue
			}
		}
		c.GuardedFlow(fmt.Sprintf("overlord/snapstate.isIrrelevantChange#true#%d", nTrue), irr, lf, []Clause{irrClause}, nil)
	}
	// no other kind comparison than the two reviewed ones
	for _, b := range irr.Blocks {
		if len(b.Instrs) == 0 {
			continue
		}
		if iff, ok := b.Instrs[len(b.Instrs)-1].(*ssa.If); ok {
			cd := Decompose(iff.Cond)
			if cd.Bin != nil {
				for _, pr := range [][2]ssa.Value{{cd.Bin.X, cd.Bin.Y}, {cd.Bin.Y, cd.Bin.X}} {
					if VRes(0, ToFn(kindObj))(pr[0]) {
						k, _ := ConstString(pr[1])
						c.Check(k == "pre-download" || k == "become-operational", "overlord/snapstate.isIrrelevantChange#kind:"+k, iff.Pos(), "reviewed harmless kind", "change kind "+k+" is now exempt from conflict checks; only pre-download and become-operational were reviewed as harmless")
					}
				}
			}
		}
	}

	// ---- R4
	c.Rule("C14-R4", "L", "CheckChangeConflictMany: the loop over st.Tasks() advances only across an irrelevant change or no affected snap in the requested set; nil only after the loop", 3)
	var taskLoop, snapLoop *RangeLoop
	affected := P.FuncObj("overlord/snapstate.SnapsAffectedByTask")
	for _, rl := range RangeLoops(many) {
		if rl.Coll != nil && VRes(0, ToFn(P.FuncObj("overlord/state.(*State).Tasks")))(rl.Coll) {
			taskLoop = rl
		}
		if rl.Coll != nil && VRes(0, ToFn(affected))(rl.Coll) {
			snapLoop = rl
		}
	}
	if taskLoop != nil && snapLoop == nil {
		// the comparison of the affected snaps with the requested set as a helper:
		// if snap, found := firstSnapIn(snaps, snapMap); found { return conflict }
		for _, b := range many.Blocks {
			for _, in := range b.Instrs {
				cc, ok := in.(ssa.CallInstruction)
				if !ok {
					continue
				}
				h := cc.Common().StaticCallee()
				if h == nil || h.Pkg != many.Pkg || len(h.Blocks) == 0 {
					continue
				}
				ai := -1
				for j, a := range cc.Common().Args {
					if VRes(0, ToFn(affected))(a) {
						ai = j
					}
				}
				bi := h.Signature.Results().Len() - 1
				if ai < 0 || bi < 0 {
					continue
				}
				hl := LoopsOver(h, VParam(h, ai))
				if len(hl) != 1 {
					continue
				}
				c.touch(h)
				hloop := hl[0]
				c.LatchGated("overlord/snapstate.CheckChangeConflictMany#snap-compare", hloop, []Clause{{Atom{Name: "!snapMap[snap]", Match: func(cd Cond) Pol {
					return cd.BoolIs(func(v ssa.Value) bool {
						lk, ok := Strip(v).(*ssa.Lookup)
						return ok && VIs(hloop.Elem)(lk.Index)
					}).Flip()
				}}}})
				nf := 0
				for _, lf := range ReturnLeaves(h, bi) {
					if bv, isC := ConstBool(lf.Val); isC && !bv {
						nf++
						c.ThroughLoop(fmt.Sprintf("overlord/snapstate.CheckChangeConflictMany#none-found-only-after-all-compared#%d", nf), hloop, lf)
					} else if !isC {
						c.Undecided("overlord/snapstate.CheckChangeConflictMany#helper-verdict", lf.Pos(), "the helper returns a computed value")
					}
				}
				irrelevant := TrueRes("isIrrelevantChange(chg)", true, 0, ToFn(P.FuncObj("overlord/snapstate.isIrrelevantChange")))
				only := func(ci ssa.CallInstruction) bool { return ci == cc }
				noneFound := TrueRes("!found", false, bi, only)
				gate := AtomEdges(irrelevant, noneFound)
				q := ReachQ{Fn: many, From: &Loc{taskLoop.Body, -1},
					CutEdge:  func(b *ssa.BasicBlock, s int) bool { return gate(b, s) || b.Succs[s] == taskLoop.Done },
					SinkEdge: func(b *ssa.BasicBlock, s int) bool { return b.Succs[s] == taskLoop.Header }}
				r := q.Run()
				c.Check(!r.Found && nf > 0, "overlord/snapstate.CheckChangeConflictMany#advance", taskLoop.Body.Instrs[0].Pos(), "a task is passed over only if its change is irrelevant or every affected snap was compared", "a task of a relevant change can be passed over without comparing its affected snaps: "+P.PathString(r.Path))
				for i, lf := range nilLeaves(many, 0) {
					c.ThroughLoop(fmt.Sprintf("overlord/snapstate.CheckChangeConflictMany#nil-after-loop#%d", i+1), taskLoop, lf)
				}
				for _, ac := range CallSites(many, affected) {
					c.Check(VIs(taskLoop.Elem)(ac.Common().Args[0]), "overlord/snapstate.CheckChangeConflictMany#affected-of-task", ac.Pos(), "SnapsAffectedByTask(task) of the loop's task", "SnapsAffectedByTask is not asked about the task being examined")
				}
				snapLoop = hloop
				goto manyDone
			}
		}
	}
	if taskLoop == nil || snapLoop == nil {
		c.Undecided("overlord/snapstate.CheckChangeConflictMany#loops", many.Pos(), "loops over st.Tasks() / SnapsAffectedByTask(task) not found")
	} else {
		irrelevant := TrueRes("isIrrelevantChange(chg)", true, 0, ToFn(P.FuncObj("overlord/snapstate.isIrrelevantChange")))
		// advance either across irrelevance or by exhausting the affected-snaps loop
		gate := AtomEdges(irrelevant)
		q := ReachQ{Fn: many, From: &Loc{taskLoop.Body, -1},
			CutEdge: func(b *ssa.BasicBlock, s int) bool {
				return gate(b, s) || (b == snapLoop.Header && b.Succs[s] == snapLoop.Done) || b.Succs[s] == taskLoop.Done
			},
			SinkEdge: func(b *ssa.BasicBlock, s int) bool { return b.Succs[s] == taskLoop.Header }}
		r := q.Run()
		c.Check(!r.Found, "overlord/snapstate.CheckChangeConflictMany#advance", taskLoop.Body.Instrs[0].Pos(), "a task is passed over only if its change is irrelevant or every affected snap was compared", "a task of a relevant change can be passed over without comparing its affected snaps: "+P.PathString(r.Path))
		// inner loop: advances only across !snapMap[snap]
		c.LatchGated("overlord/snapstate.CheckChangeConflictMany#snap-compare", snapLoop, []Clause{{Atom{Name: "!snapMap[snap]", Match: func(cd Cond) Pol {
			return cd.BoolIs(func(v ssa.Value) bool {
				lk, ok := Strip(v).(*ssa.Lookup)
				return ok && VIs(snapLoop.Elem)(lk.Index)
			}).Flip()
		}}}})
		for i, lf := range nilLeaves(many, 0) {
			c.ThroughLoop(fmt.Sprintf("overlord/snapstate.CheckChangeConflictMany#nil-after-loop#%d", i+1), taskLoop, lf)
		}
		// the task examined is the loop element; the map is built from every requested name
		for _, ac := range CallSites(many, affected) {
			c.Check(VIs(taskLoop.Elem)(ac.Common().Args[0]), "overlord/snapstate.CheckChangeConflictMany#affected-of-task", ac.Pos(), "SnapsAffectedByTask(task) of the loop's task", "SnapsAffectedByTask is not asked about the task being examined")
		}
	}

manyDone:
	// ---- R5
	c.Rule("C14-R5", "G", "checkChangeConflictIgnoringOneChange: nil <= ok(CheckChangeConflictMany) ∧ (snapst==nil | reflect.DeepEqual(snapst, &current))", 2)
	ign := P.Func("overlord/snapstate.checkChangeConflictIgnoringOneChange")
	deepEq := P.FuncObj("reflect.DeepEqual")
	for i, lf := range nilLeaves(ign, 0) {
		c.GuardedFlow(fmt.Sprintf("overlord/snapstate.checkChangeConflictIgnoringOneChange#nil#%d", i+1), ign, lf, []Clause{
			{OkCall("ok(CheckChangeConflictMany)", P.FuncObj("overlord/snapstate.CheckChangeConflictMany"))},
			{Cmp("snapst==nil", VParam(ign, 2), token.EQL, isNilVal), TrueRes("reflect.DeepEqual(snapst,&cur)", true, 0, CallWhere(ToFn(deepEq), 0, VParam(ign, 2)))},
		}, nil)
	}
	for _, mc := range CallSites(ign, P.FuncObj("overlord/snapstate.CheckChangeConflictMany")) {
		a := mc.Common().Args
		okA := len(a) == 3 && IsParam(a[2], ign, 3)
		if okA {
			els := VarargElems(a[1])
			okA = len(els) == 1 && IsParam(els[0], ign, 1)
		}
		c.Check(okA, "overlord/snapstate.checkChangeConflictIgnoringOneChange#args", mc.Pos(), "checks the named snap, ignoring only the given change", "CheckChangeConflictMany is not given exactly the instance name and the ignore id of the caller")
	}
	// the state compared is the current one of the same snap
	for _, dc := range CallSites(ign, deepEq) {
		a := dc.Common().Args
		okD := false
		if mi, ok := a[1].(*ssa.MakeInterface); ok {
			if al, ok := mi.X.(*ssa.Alloc); ok {
				for _, gc := range CallSites(ign, P.FuncObj("overlord/snapstate.Get")) {
					ga := gc.Common().Args
					if ga[2] == ssa.Value(al) && IsParam(ga[1], ign, 1) {
						okD = true
					}
				}
			}
		}
		c.Check(okD, "overlord/snapstate.checkChangeConflictIgnoringOneChange#compared-with-current", dc.Pos(), "compared with Get(st, instanceName)", "the snapshot is not compared with the state's current SnapState of the same snap")
	}

	// ---- R7
	c.Rule("C14-R7", "W", "conflict checks are keyed by instance names: no snap name handed to CheckChangeConflict*/check*Conflicts comes from SnapName() (which drops the instance key of a parallel install)", 10)
	snapNameObjs := map[string]bool{"SnapName": true}
	nNames := 0
	for _, fn := range funcs {
		for _, cc := range CallSites(fn, checks...) {
			var names []ssa.Value
			for _, a := range cc.Common().Args {
				if b, ok := a.Type().Underlying().(*types.Basic); ok && b.Kind() == types.String {
					names = append(names, a)
				}
				if _, ok := a.Type().Underlying().(*types.Slice); ok {
					names = append(names, VarargElems(a)...)
				}
			}
			for _, nv := range names {
				nNames++
				bad := false
				seen := map[ssa.Value]bool{}
				var rec func(v ssa.Value, d int)
				rec = func(v ssa.Value, d int) {
					if v == nil || d > 8 || seen[v] {
						return
					}
					seen[v] = true
					v = Strip(v)
					switch x := v.(type) {
					case *ssa.Call:
						if co := CalleeOf(x); co != nil && snapNameObjs[co.Name()] {
							bad = true
						}
					case *ssa.Phi:
						for _, e := range x.Edges {
							rec(e, d+1)
						}
					case *ssa.Extract:
						rec(x.Tuple, d+1)
					}
				}
				rec(nv, 0)
				c.touch(fn)
				c.Check(!bad, fmt.Sprintf("%s#conflict-check-name#%d", SSAFuncName(fn), nNames), cc.Pos(), "instance name", "the snap name handed to the conflict check in "+SSAFuncName(fn)+" comes from SnapName(): for a parallel-installed instance (name_key) the check looks at the wrong snap and misses the change in progress on the instance")
			}
		}
	}

	// ---- R6
	c.Rule("C14-R6", "W", "affected-snaps registry: the reviewed registrations exist", 3)
	regAttr := P.FuncObj("overlord/snapstate.RegisterAffectedSnapsByAttr")
	regKind := P.FuncObj("overlord/snapstate.RegisterAffectedSnapsByKind")
	regs := map[string]bool{}
	for _, fn := range P.AllFuncs() {
		for _, rc := range CallSites(fn, regAttr, regKind) {
			if k, ok := ConstString(rc.Common().Args[0]); ok {
				regs[k] = true
			}
		}
	}
	want := []string{"connect", "disconnect"}
	if P.Tier == "thorough" {
		want = append(want, "hook-setup", "service-action", "snapshot-setup", "quota-control", "conditional-auto-refresh")
	}
	for _, k := range want {
		c.Check(regs[k], "affected-snaps-registration:"+k, token.NoPos, "registered", "no RegisterAffectedSnapsBy{Attr,Kind}(\""+k+"\", ...) found: tasks of that kind are invisible to conflict checks")
	}
	// SnapsAffectedByTask: snap-setup first, then the registries
	sab := P.Func("overlord/snapstate.SnapsAffectedByTask")
	c.touch(sab)
	setupCalls, _ := P.CallSitesDeep(sab, P.FuncObj("overlord/snapstate.TaskSnapSetup"))
	hasSetup := len(setupCalls) > 0
	c.Check(hasSetup, "overlord/snapstate.SnapsAffectedByTask#snap-setup", sab.Pos(), "tasks carrying a snap-setup name their snap", "SnapsAffectedByTask no longer consults the task's snap-setup")
}

// guardedByPriorLoop: the call sits in a range loop over a collection that an earlier range
// loop over the very same collection value has already walked completely, advancing only
// across the gate (check every element first, then act on every element).
func guardedByPriorLoop(fn *ssa.Function, site ssa.Instruction, gate Atom) bool {
	loops := RangeLoops(fn)
	for _, l2 := range loops {
		if l2.Coll == nil || !l2.Body.Dominates(site.Block()) {
			continue
		}
		for _, l1 := range loops {
			if l1.Header == l2.Header || l1.Coll == nil || Strip(l1.Coll) != Strip(l2.Coll) {
				continue
			}
			// l1 advances only across the gate
			g := AtomEdges(gate)
			q1 := ReachQ{Fn: fn, From: &Loc{l1.Body, -1},
				CutEdge: func(b *ssa.BasicBlock, s int) bool {
					return g(b, s) || b.Succs[s] == l1.Done || !l1.Header.Dominates(b.Succs[s])
				},
				SinkEdge: func(b *ssa.BasicBlock, s int) bool { return b.Succs[s] == l1.Header }}
			if q1.Run().Found {
				continue
			}
			// the site is reachable only through l1's exhaustion
			q2 := ReachQ{Fn: fn, Sink: SinkIs(site), CutEdge: func(b *ssa.BasicBlock, s int) bool { return b == l1.Header && b.Succs[s] == l1.Done }}
			if q2.Run().Found {
				continue
			}
			return true
		}
	}
	return false
}
