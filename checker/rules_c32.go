package main

import (
	"fmt"
	"go/token"

	"golang.org/x/tools/go/ssa"
)

func init() {
	register(&Property{
		ID:          "C32",
		Roots:       []string{"overlord/snapshotstate/backend"},
		Technique:   "guarded-sink / ordering reachability on the SSA CFG of unpackVerifySnapshotImport, Import, Reader.Restore and moveFile; argument provenance of the created path; who-may-create-files check",
		Explanation: "Structural necessary conditions for 'snapshot import and restore cannot escape or corrupt snap data': (R1) unpackVerifySnapshotImport creates files only through writeOneSnapshotFile, reached only for non-directory entries whose name does not contain '../', at a path that is path.Join(dirs.SnapshotsDir, Sprintf(\"%d_%s\", realSetID, <name suffix>)); (R2) Reader.Restore reaches moveFile only across tar success, size equality and digest equality, with size and digest taken from the tee that feeds tar, and tar extracting into the fresh MkdirTemp directory; (R3) the deferred undo is registered before any move, runs RestoreState.Revert whenever the named error is non-nil, and a failed move never returns a nil error; (R4) Import commits the import transaction only after unpack/verify succeeded and registers Cancel before unpacking; (R5) moveFile records every directory it moves aside or creates exactly when the rename succeeded (the data Revert works from). (R6) every temporary unpack directory of Reader.Restore has its removal deferred (on that very directory) before the archive member is unpacked into it.",
		NotDecided:  "what the external tar does with hostile archives inside the temporary directory; RestoreState.Revert's own correctness; path.Join's cleaning of the attacker-controlled suffix beyond the '../' test.",
		Run:         func(c *Ctx) { runC32(c); runC32x(c); runC32z(c) },
	})
}

func runC32(c *Ctx) {
	P := c.P
	pkg := "overlord/snapshotstate/backend"
	unpack := P.Func(pkg + ".unpackVerifySnapshotImport")
	writeOne := P.FuncObj(pkg + ".writeOneSnapshotFile")
	next := P.FuncObj("archive/tar.(*Reader).Next")
	fName := P.Field("archive/tar.Header.Name")
	fType := P.Field("archive/tar.Header.Typeflag")
	contains := P.FuncObj("strings.Contains")
	header := VRes(0, ToFn(next))
	hdrName := VFieldOf(fName, header)

	c.Rule("C32-R1", "G+W", "unpackVerifySnapshotImport: writeOneSnapshotFile(path.Join(dirs.SnapshotsDir, Sprintf(\"%d_%s\", realSetID, …)), tr) <= tarErr==nil ∧ header!=nil ∧ not a directory ∧ !Contains(header.Name, \"../\"); no other file-creating call", 4)
	noDotDot := TrueRes(`!strings.Contains(header.Name,"../")`, false, 0, CallWhere(CallWhere(ToFn(contains), 0, hdrName), 1, VConstStr("../")))
	notDir := Cmp("header.Typeflag!=tar.TypeDir", VFieldOf(fType, header), token.NEQ, VConstObj(P.Const("archive/tar.TypeDir")))
	tarOK := Cmp("tarErr==nil", VRes(1, ToFn(next)), token.EQL, isNilVal)
	hdrOK := Cmp("header!=nil", header, token.NEQ, isNilVal)
	ws := CallSites(unpack, writeOne)
	pathJoin := P.FuncObj("path.Join")
	sprintf := P.FuncObj("fmt.Sprintf")
	gSnapshotsDir := P.Global("dirs.SnapshotsDir")
	for i, w := range ws {
		c.Guarded(fmt.Sprintf("backend.unpackVerifySnapshotImport#write#%d", i+1), unpack, w, []Clause{{noDotDot}, {notDir}, {tarOK}, {hdrOK}}, nil)
		a := CallArgs(w)
		ok := false
		why := "path is not built by path.Join"
		checkPath := func(v ssa.Value) bool {
			jc, _, isCall := CallResult(v)
			if !isCall || !ToFn(pathJoin)(jc) {
				return false
			}
			el := VarargElems(jc.Common().Args[0])
			why = "path.Join arguments are not (dirs.SnapshotsDir, Sprintf(\"%d_%s\", realSetID, …))"
			if len(el) == 2 && VGlobal(gSnapshotsDir)(el[0]) {
				if sc, _, isS := CallResult(el[1]); isS && ToFn(sprintf)(sc) {
					f, _ := ConstString(sc.Common().Args[0])
					vel := VarargElems(sc.Common().Args[1])
					return f == "%d_%s" && len(vel) == 2 && IsParam(vel[0], unpack, 2)
				}
			}
			return false
		}
		ok = checkPath(a[0])
		if hc, hi, isCall := CallResult(a[0]); !ok && isCall && hi == 0 {
			// the path computed by a private helper: every path it returns is built that way
			if h := hc.Common().StaticCallee(); h != nil && h.Pkg == unpack.Pkg && len(h.Blocks) > 0 {
				liftCtx = append(liftCtx, liftFrame{h, hc})
				n := 0
				ok = true
				for _, lf := range ReturnLeaves(h, 0) {
					if s, isC := ConstString(lf.Val); isC && s == "" {
						continue // returned next to an error
					}
					n++
					if !checkPath(lf.Val) {
						ok = false
					}
				}
				ok = ok && n > 0
				liftCtx = liftCtx[:len(liftCtx)-1]
			}
		}
		c.Check(ok, fmt.Sprintf("backend.unpackVerifySnapshotImport#write-path#%d", i+1), w.Pos(), "the created path is path.Join(dirs.SnapshotsDir, \"<realSetID>_<suffix>\")", why)
	}
	if len(ws) == 0 {
		c.Undecided("backend.unpackVerifySnapshotImport#write", unpack.Pos(), "no writeOneSnapshotFile call found")
	}
	creators := []string{"os.OpenFile", "os.Create", "os.WriteFile", "os.Mkdir", "os.MkdirAll", "os.Rename", "os.Symlink", "os.Link", "os.MkdirTemp", "os.CreateTemp",
		"osutil.AtomicWriteFile", "osutil.AtomicWrite", "osutil.AtomicWriteChown", "osutil.AtomicWriteFileChown", "osutil.CopyFile", "osutil.MkdirAllChown", "osutil.AtomicSymlink", "osutil.AtomicRename"}
	bad := ""
	for _, n := range creators {
		if o := P.TryObj(n); o != nil {
			for _, ci := range CallSites(unpack, P.FuncObj(n)) {
				bad += " " + n + "@" + P.Pos(ci.Pos())
			}
		}
	}
	c.Check(bad == "", "backend.unpackVerifySnapshotImport#no-other-creator", unpack.Pos(), "no direct file-creating call besides writeOneSnapshotFile", "file-creating calls outside the guarded writer:"+bad)
	// writeOneSnapshotFile opens exactly its argument
	wof := P.Func(pkg + ".writeOneSnapshotFile")
	okOpen := false
	for _, oc := range CallSites(wof, P.FuncObj("os.OpenFile")) {
		okOpen = IsParam(CallArgs(oc)[0], wof, 0)
	}
	c.Check(okOpen, "backend.writeOneSnapshotFile#opens-argument", wof.Pos(), "opens exactly the path it was given", "writeOneSnapshotFile opens something other than its targetPath argument")

	// ---- R2
	c.Rule("C32-R2", "G", "Reader.Restore: moveFile <= RunWithContext(tar)==nil ∧ sz.Size()==expectedSize ∧ actualHash==expectedHash; size/digest come from the tee feeding tar; tar extracts into the MkdirTemp directory", 4)
	restore := P.Func(pkg + ".(*Reader).Restore")
	moveFile := P.FuncObj(pkg + ".moveFile")
	runCtx := P.FuncObj("osutil.RunWithContext")
	sizeFn := P.FuncObj("osutil.(*Sizer).Size")
	zipMember := P.FuncObj(pkg + ".zipMember")
	fSHA := P.Field(pkg + ".Reader.SHA3_384")
	tarOKr := NilRes("RunWithContext(ctx, tar)==nil", 0, ToFn(runCtx))
	sizeEq := Cmp("sz.Size()==expectedSize", VRes(0, ToFn(sizeFn)), token.EQL, VRes(1, ToFn(zipMember)))
	hashEq := Cmp("actualHash==expectedHash", VRes(0, ToFn(sprintf)), token.EQL, VElemOf(VFieldOf(fSHA, VSelfOrEmbedded(VParam(restore, 0)))))
	mvs := CallSites(restore, moveFile)
	for i, mc := range mvs {
		c.Guarded(fmt.Sprintf("backend.(*Reader).Restore#moveFile#%d", i+1), restore, mc, []Clause{{tarOKr}, {sizeEq}, {hashEq}}, nil)
	}
	if len(mvs) == 0 {
		c.Undecided("backend.(*Reader).Restore#moveFile", restore.Pos(), "no moveFile call found")
	}
	// tee provenance
	tee := P.FuncObj("io.TeeReader")
	multi := P.FuncObj("io.MultiWriter")
	sumObj := P.FuncObj("hash.Hash.Sum")
	var hasher, sizer ssa.Value
	for _, sc := range CallSites(restore, sumObj) {
		hasher = CallRecv(sc)
	}
	for _, sc := range CallSites(restore, sizeFn) {
		sizer = CallRecv(sc)
	}
	okTee := false
	for _, tc := range CallSites(restore, tee) {
		a := tc.Common().Args
		if !VRes(0, ToFn(zipMember))(a[0]) {
			continue
		}
		if mc, _, ok := CallResult(a[1]); ok && ToFn(multi)(mc) {
			hasH, hasS := false, false
			for _, e := range VarargElems(mc.Common().Args[0]) {
				if e == nil {
					continue
				}
				if hasher != nil && stripNoCell(e) == stripNoCell(hasher) {
					hasH = true
				}
				if sizer != nil && stripNoCell(e) == stripNoCell(sizer) {
					hasS = true
				}
			}
			okTee = hasH && hasS
		}
	}
	c.Check(okTee, "backend.(*Reader).Restore#tee", restore.Pos(), "the bytes tar reads are teed into the hasher and the sizer whose values are compared", "the size/digest compared are not computed over the stream handed to tar")
	// cmd.Stdin = tee; --directory tempdir
	fStdin := P.Field("os/exec.Cmd.Stdin")
	okStdin := false
	for _, st := range StoresToField(restore, fStdin) {
		if VRes(0, ToFn(tee))(st.Val) {
			okStdin = true
		}
	}
	c.Check(okStdin, "backend.(*Reader).Restore#tar-stdin", restore.Pos(), "tar's stdin is the tee reader", "tar does not read from the tee reader: what is verified is not what is extracted")
	mkTemp := P.FuncObj("os.MkdirTemp")
	gTar := P.Global(pkg + ".tarAsUser")
	okDir := false
	for _, tc := range CallsMatching(restore, ViaGlobal(gTar)) {
		el := VarargElems(tc.Common().Args[1])
		for i, e := range el {
			if e != nil && VConstStr("--directory")(e) && i+1 < len(el) && VRes(0, ToFn(mkTemp))(el[i+1]) {
				okDir = true
			}
		}
	}
	c.Check(okDir, "backend.(*Reader).Restore#extract-dir", restore.Pos(), "tar extracts into the directory returned by os.MkdirTemp", "tar no longer extracts into the fresh temporary directory (it could overwrite live data before verification)")
	// moveFile sources from that tempdir
	for i, mc := range mvs {
		a := CallArgs(mc)
		c.Check(len(a) == 4 && VRes(0, ToFn(mkTemp))(a[2]), fmt.Sprintf("backend.(*Reader).Restore#move-source#%d", i+1), mc.Pos(), "moves out of the verified temporary directory", "moveFile does not move out of the verified temporary directory")
	}

	// ---- R3
	c.Rule("C32-R3", "P-d", "Restore: undo closure deferred before any move; closure calls rs.Revert() whenever e != nil; a failed moveFile never yields a nil error", 3)
	var firstDefer *ssa.Defer
	for _, b := range restore.Blocks {
		for _, in := range b.Instrs {
			if d, ok := in.(*ssa.Defer); ok && firstDefer == nil {
				firstDefer = d
			}
		}
	}
	revert := P.FuncObj(pkg + ".(*RestoreState).Revert")
	var undo *ssa.Function
	if firstDefer != nil {
		if mc, ok := firstDefer.Call.Value.(*ssa.MakeClosure); ok {
			undo = mc.Fn.(*ssa.Function)
		}
	}
	if undo == nil || len(CallSites(undo, revert)) == 0 {
		c.Violated("backend.(*Reader).Restore#undo-closure", restore.Pos(), "the first deferred call of Restore is not a closure calling RestoreState.Revert")
	} else {
		for i, mc := range mvs {
			c.Before(fmt.Sprintf("backend.(*Reader).Restore#undo-registered-before-move#%d", i+1), restore, SinkIs(firstDefer), "defer <undo closure>", mc, nil)
		}
		// in the closure: e != nil => Revert
		resCell := ResultCell(restore, 1)
		isE := func(v ssa.Value) bool {
			u, ok := v.(*ssa.UnOp)
			if !ok || u.Op != token.MUL {
				return false
			}
			fv, ok := u.X.(*ssa.FreeVar)
			if !ok || resCell == nil {
				return false
			}
			// binding of this free var is the result cell
			for i, f := range undo.FreeVars {
				if f == fv {
					mc := firstDefer.Call.Value.(*ssa.MakeClosure)
					return mc.Bindings[i] == ssa.Value(resCell)
				}
			}
			return false
		}
		eNonNil := Cmp("e!=nil", isE, token.NEQ, isNilVal)
		n := 0
		for _, b := range undo.Blocks {
			for si := range b.Succs {
				if !AtomEdges(eNonNil)(b, si) {
					continue
				}
				n++
				q := ReachQ{Fn: undo, From: &Loc{b.Succs[si], -1}, CutInstr: SinkCall(revert), Sink: func(in ssa.Instruction) bool { _, ok := in.(*ssa.Return); return ok }}
				r := q.Run()
				c.Check(!r.Found, fmt.Sprintf("backend.(*Reader).Restore$undo#revert-on-error#%d", n), undo.Pos(), "with e != nil the closure always calls rs.Revert()", "the undo closure can return without Revert although the named error is set")
			}
		}
		if n == 0 {
			c.Violated("backend.(*Reader).Restore$undo#revert-on-error", undo.Pos(), "the undo closure does not test the named error result e")
		}
		// failed moveFile never returns nil
		if resCell != nil {
			failEdge := AtomEdges(Not(NilRes("moveFile==nil", 0, ToFn(moveFile))))
			k := 0
			for _, b := range restore.Blocks {
				for si := range b.Succs {
					if !failEdge(b, si) {
						continue
					}
					k++
					q := ReachQ{Fn: restore, From: &Loc{b.Succs[si], -1}, Sink: func(in ssa.Instruction) bool {
						st, ok := in.(*ssa.Store)
						return ok && st.Addr == ssa.Value(resCell) && IsNilConst(st.Val)
					}, CutInstr: func(in ssa.Instruction) bool { _, ok := in.(*ssa.Return); return ok }}
					r := q.Run()
					c.Check(!r.Found, fmt.Sprintf("backend.(*Reader).Restore#failed-move-reports-error#%d", k), b.Instrs[len(b.Instrs)-1].Pos(), "after a failed move no nil error can be returned (so the undo runs)", "after a failed moveFile, Restore can return a nil error: the half-moved data would not be reverted")
				}
			}
			if k == 0 {
				c.Undecided("backend.(*Reader).Restore#failed-move-edge", restore.Pos(), "moveFile's error is not tested")
			}
		}
	}

	// ---- R4
	c.Rule("C32-R6", "O", "Reader.Restore: every temporary unpack directory has os.RemoveAll(thatDirectory) deferred right after it was created", 1)
	mkTemp = P.FuncObj("os.MkdirTemp")
	rmAll2 := P.FuncObj("os.RemoveAll")
	restoreFn := P.Func("overlord/snapshotstate/backend.(*Reader).Restore")
	nTmp := 0
	for _, mc := range CallSites(restoreFn, mkTemp) {
		nTmp++
		isTemp := func(v ssa.Value, in *ssa.Function) bool {
			// the MkdirTemp result itself, or a load of the variable holding it (captured by the closure)
			if VRes(0, func(ci ssa.CallInstruction) bool { return ci == mc })(v) {
				return true
			}
			if u, ok := v.(*ssa.UnOp); ok {
				var cell *ssa.Alloc
				switch x := u.X.(type) {
				case *ssa.Alloc:
					cell = x
				case *ssa.FreeVar:
					cell = freeVarCell(v, in, restoreFn)
				}
				if cell != nil {
					n, ok := 0, false
					for _, r := range *cell.Referrers() {
						if st, isSt := r.(*ssa.Store); isSt && st.Addr == ssa.Value(cell) {
							n++
							ok = VRes(0, func(ci ssa.CallInstruction) bool { return ci == mc })(st.Val)
						}
					}
					return n == 1 && ok
				}
			}
			return false
		}
		var def ssa.Instruction
		for _, b := range restoreFn.Blocks {
			for _, in := range b.Instrs {
				d, ok := in.(*ssa.Defer)
				if !ok {
					continue
				}
				if _, is := IsCallTo(d, rmAll2); is && isTemp(d.Call.Args[0], restoreFn) {
					def = in
				}
				if cl := StaticFn(d); cl != nil && cl.Parent() == restoreFn {
					for _, rc := range CallSites(cl, rmAll2) {
						if isTemp(rc.Common().Args[0], cl) {
							def = in
						}
					}
				}
			}
		}
		if def == nil {
			c.Violated(fmt.Sprintf("backend.(*Reader).Restore#tempdir-cleanup#%d", nTmp), mc.Pos(), "no deferred os.RemoveAll on the directory returned by os.MkdirTemp (e.g. the deferred call sees a different, shadowed variable): after a failed restore the unverified unpacked data stays inside the snap's data directory")
			continue
		}
		// registered before the archive member is opened / unpacked into it
		zip := P.FuncObj("overlord/snapshotstate/backend.zipMember")
		for i, zc := range CallSites(restoreFn, zip) {
			c.Before(fmt.Sprintf("backend.(*Reader).Restore#tempdir-cleanup-before-unpack#%d.%d", nTmp, i+1), restoreFn, SinkIs(def), "defer os.RemoveAll(tempdir)", zc, &GOpt{From: LocOf(mc)})
		}
	}
	if nTmp == 0 {
		c.Undecided("backend.(*Reader).Restore#tempdir", restoreFn.Pos(), "os.MkdirTemp not found in Restore")
	}

	c.Rule("C32-R4", "G+O", "Import: tr.Commit() <= unpackVerifySnapshotImport err==nil; tr.Cancel() deferred before unpacking", 2)
	imp := P.Func(pkg + ".Import")
	commit := P.FuncObj(pkg + ".(*importTransaction).Commit")
	cancel := P.FuncObj(pkg + ".(*importTransaction).Cancel")
	unpackObj := P.FuncObj(pkg + ".unpackVerifySnapshotImport")
	for i, cc := range CallSites(imp, commit) {
		c.Guarded(fmt.Sprintf("backend.Import#commit#%d", i+1), imp, cc, []Clause{{NilRes("unpackVerifySnapshotImport err==nil", 1, ToFn(unpackObj))}}, nil)
	}
	for i, uc := range CallSites(imp, unpackObj) {
		c.Before(fmt.Sprintf("backend.Import#cancel-deferred#%d", i+1), imp, func(in ssa.Instruction) bool {
			d, ok := in.(*ssa.Defer)
			return ok && ToFn(cancel)(d)
		}, "defer tr.Cancel()", uc, nil)
		a := CallArgs(uc)
		c.Check(len(a) == 4 && IsParam(a[2], imp, 1), fmt.Sprintf("backend.Import#set-id#%d", i+1), uc.Pos(), "files are unpacked under the set id of the transaction", "unpack is not given Import's set id")
	}

	// ---- R5
	c.Rule("C32-R5", "G", "moveFile: rs.Moved/rs.Created are appended exactly on the success edge of the corresponding rename, before anything else can fail", 2)
	mf := P.Func(pkg + ".moveFile")
	osRename := P.FuncObj("os.Rename")
	fMoved, fCreated := P.Field(pkg+".RestoreState.Moved"), P.Field(pkg+".RestoreState.Created")
	rn := CallSites(mf, osRename)
	if len(rn) != 2 {
		c.Undecided("backend.moveFile#renames", mf.Pos(), fmt.Sprintf("expected two os.Rename calls, found %d", len(rn)))
		return
	}
	for i, spec := range []struct {
		name  string
		field interface{}
	}{{"Moved", fMoved}, {"Created", fCreated}} {
		fv := fMoved
		if i == 1 {
			fv = fCreated
		}
		call := rn[i]
		okAtom := NilRes(fmt.Sprintf("os.Rename#%d==nil", i+1), 0, func(ci ssa.CallInstruction) bool { return ci == call })
		sts := StoresToField(mf, fv)
		for k, st := range sts {
			c.Guarded(fmt.Sprintf("backend.moveFile#record-%s#%d", spec.name, k+1), mf, st, []Clause{{okAtom}}, nil)
		}
		// after the successful rename the record is made before any return
		okE := AtomEdges(okAtom)
		n := 0
		for _, b := range mf.Blocks {
			for si := range b.Succs {
				if !okE(b, si) {
					continue
				}
				n++
				q := ReachQ{Fn: mf, From: &Loc{b.Succs[si], -1}, CutInstr: func(in ssa.Instruction) bool {
					st, ok := in.(*ssa.Store)
					if !ok {
						return false
					}
					fa, ok := st.Addr.(*ssa.FieldAddr)
					return ok && fieldOfAddr(fa) == fv
				}, Sink: func(in ssa.Instruction) bool {
					if _, ok := in.(*ssa.Return); ok {
						return true
					}
					_, isCall := IsCallTo(in, osRename)
					return isCall
				}}
				r := q.Run()
				c.Check(!r.Found, fmt.Sprintf("backend.moveFile#%s-recorded-after-rename#%d", spec.name, n), call.Pos(), "the rename is recorded in RestoreState."+spec.name+" before the next effect or return", "a successful rename is not recorded in RestoreState."+spec.name+" on some path: Revert could not undo it")
			}
		}
		if len(sts) == 0 || n == 0 {
			c.Undecided("backend.moveFile#record-"+spec.name, mf.Pos(), "bookkeeping store or rename test not found")
		}
	}
}
