package main

import (
	"bufio"
	"encoding/json"
	"fmt"
	"go/token"
	"os"
	"path/filepath"
	"sort"
	"strconv"
	"strings"
	"time"

	"golang.org/x/tools/go/ssa"
)

type Obligation struct {
	Rule      string `json:"rule"`
	Construct string `json:"construct"`
	Pos       string `json:"pos,omitempty"`
	Verdict   string `json:"verdict"` // holds | violated | undecided | known-finding
	Detail    string `json:"detail,omitempty"`
	Variant   string `json:"build_variant,omitempty"` // set for obligations evaluated under a non-default build configuration (thorough tier)
}

type RuleInfo struct {
	ID        string          `json:"id"`
	Engine    string          `json:"engine"`
	Text      string          `json:"text"`
	Floor     int             `json:"floor"`
	Instances int             `json:"instances"`
	Blocks    int             `json:"ssa_blocks_traversed"`
	Edges     int             `json:"ssa_edges_traversed"`
	Funcs     map[string]bool `json:"-"`
	FuncList  []string        `json:"functions"`
}

type Property struct {
	ID          string
	Roots       []string // module-relative package paths for the quick tier
	Explanation string
	Technique   string // a few words naming the deciding method
	NotDecided  string
	Assumptions []string
	Run         func(c *Ctx)
	// VariantSkip names build variants of the thorough tier that cannot be loaded for this
	// property in the sandbox, with the reason (recorded in the evidence).
	VariantSkip map[string]string
}

var properties = map[string]*Property{}

func register(p *Property) { properties[p.ID] = p }

type Ctx struct {
	P     *Prog
	Prop  *Property
	Obls  []*Obligation
	Rules map[string]*RuleInfo
	order []string
	cur   *RuleInfo
}

// Rule declares (or switches to) a rule; floor = number of instances confirmed by hand.
func (c *Ctx) Rule(id, engine, text string, floor int) {
	r, ok := c.Rules[id]
	if !ok {
		r = &RuleInfo{ID: id, Engine: engine, Text: text, Floor: floor, Funcs: map[string]bool{}}
		c.Rules[id] = r
		c.order = append(c.order, id)
	}
	c.cur = r
}

func (c *Ctx) touch(fn *ssa.Function) {
	if fn != nil && c.cur != nil {
		c.cur.Funcs[SSAFuncName(fn)] = true
	}
}

func (c *Ctx) add(verdict, construct string, pos token.Pos, detail string) {
	if c.cur == nil {
		panic("obligation outside a rule")
	}
	c.cur.Instances++
	c.Obls = append(c.Obls, &Obligation{Rule: c.cur.ID, Construct: construct, Pos: c.P.Pos(pos), Verdict: verdict, Detail: detail})
}

func (c *Ctx) Holds(construct string, pos token.Pos, detail string) {
	c.add("holds", construct, pos, detail)
}
func (c *Ctx) Violated(construct string, pos token.Pos, detail string) {
	c.add("violated", construct, pos, detail)
}
func (c *Ctx) Undecided(construct string, pos token.Pos, detail string) {
	c.add("undecided", construct, pos, detail)
}

// Check records holds/violated according to ok.
func (c *Ctx) Check(ok bool, construct string, pos token.Pos, holdsDetail, violDetail string) bool {
	if ok {
		c.Holds(construct, pos, holdsDetail)
	} else {
		c.Violated(construct, pos, violDetail)
	}
	return ok
}

// Guarded is engine G: every path of fn from its entry (or from `from`) to sink
// must traverse, for every clause, an edge establishing one of the clause's atoms.
// extraCut lets a rule prune edges (named package-level booleans) or add event cuts.
type GOpt struct {
	From     *Loc
	CutEdge  func(b *ssa.BasicBlock, succ int) bool
	CutInstr func(ssa.Instruction) bool
	// NoVacuity: do not demand that each clause has at least one establishing edge.
	NoVacuity bool
	// Deep: the sink may be the return instruction of a helper the traversal descends into.
	Deep bool
	// Descend: follow local helpers although a CutEdge is given (the caller vouches that it only
	// compares blocks by identity or tests branch conditions).
	Descend bool
}

func (c *Ctx) Guarded(construct string, fn *ssa.Function, sink ssa.Instruction, clauses []Clause, opt *GOpt) bool {
	if opt == nil {
		opt = &GOpt{}
	}
	c.touch(fn)
	var gates []string
	for _, cl := range clauses {
		if !opt.NoVacuity {
			n := 0
			for _, a := range cl {
				n += CountAtomEdges(fn, a)
			}
			if n == 0 {
				// the alternatives of the clause established together behind a helper
				n = CountClauseEdges(fn, cl)
			}
			if n == 0 {
				c.Undecided(construct, sink.Pos(), fmt.Sprintf("gate [%s] not recognised anywhere in %s (refactored behind a call? the rule cannot see it)", cl, SSAFuncName(fn)))
				return false
			}
		}
		q := ReachQ{Fn: fn, From: opt.From, Sink: SinkIs(sink), CutEdge: OrCutEdges(AtomEdges(cl...), opt.CutEdge), CutInstr: opt.CutInstr, SinkDeep: opt.Deep, Descend: opt.CutEdge == nil || opt.Descend}
		r := q.Run()
		c.cur.Blocks += r.Blocks
		c.cur.Edges += r.Edges
		if r.Found {
			c.Violated(construct, sink.Pos(), fmt.Sprintf("in %s the sink at %s is reachable without passing gate [%s]; path: %s", SSAFuncName(fn), c.P.Pos(sink.Pos()), cl, c.P.PathString(r.Path)))
			return false
		}
		gates = append(gates, cl.String())
	}
	c.Holds(construct, sink.Pos(), "every path to the sink passes: "+strings.Join(gates, " ; "))
	return true
}

// GuardedAll applies Guarded to every sink instruction satisfying pred in fn; returns count.
func (c *Ctx) GuardedAll(constructPrefix string, fn *ssa.Function, pred func(ssa.Instruction) bool, clauses []Clause, opt *GOpt) int {
	n := 0
	for _, b := range fn.Blocks {
		for _, in := range b.Instrs {
			if pred(in) {
				n++
				c.Guarded(fmt.Sprintf("%s#%d", constructPrefix, n), fn, in, clauses, opt)
			}
		}
	}
	return n
}

// Before is engine O: on every path from entry (or From) to `b`, an instruction
// satisfying `a` is executed first.
func (c *Ctx) Before(construct string, fn *ssa.Function, a func(ssa.Instruction) bool, aName string, b ssa.Instruction, opt *GOpt) bool {
	if opt == nil {
		opt = &GOpt{}
	}
	c.touch(fn)
	q := ReachQ{Fn: fn, From: opt.From, Sink: SinkIs(b), CutInstr: a, CutEdge: opt.CutEdge, Descend: opt.CutEdge == nil || opt.Descend}
	r := q.Run()
	c.cur.Blocks += r.Blocks
	c.cur.Edges += r.Edges
	if r.Found {
		c.Violated(construct, b.Pos(), fmt.Sprintf("in %s, %s is reachable without first executing %s; path: %s", SSAFuncName(fn), c.P.Pos(b.Pos()), aName, c.P.PathString(r.Path)))
		return false
	}
	c.Holds(construct, b.Pos(), aName+" precedes the sink on every path")
	return true
}

// ---------- known findings ----------

type knownFinding struct {
	Prop, Rule, Construct, Text string
	used                        bool
}

func loadKnownFindings(path string) ([]*knownFinding, error) {
	f, err := os.Open(path)
	if err != nil {
		if os.IsNotExist(err) {
			return nil, nil
		}
		return nil, err
	}
	defer f.Close()
	var out []*knownFinding
	sc := bufio.NewScanner(f)
	for sc.Scan() {
		line := strings.TrimSpace(sc.Text())
		if line == "" || strings.HasPrefix(line, "#") || strings.HasPrefix(line, "fixed:") {
			continue
		}
		if !strings.HasPrefix(line, "finding:") {
			continue
		}
		kf := &knownFinding{}
		rest := strings.TrimSpace(strings.TrimPrefix(line, "finding:"))
		fields := strings.Fields(rest)
		var text []string
		for _, fl := range fields {
			switch {
			case strings.HasPrefix(fl, "property=") && kf.Prop == "":
				kf.Prop = strings.TrimPrefix(fl, "property=")
			case strings.HasPrefix(fl, "rule=") && kf.Rule == "":
				kf.Rule = strings.TrimPrefix(fl, "rule=")
			case strings.HasPrefix(fl, "construct=") && kf.Construct == "":
				kf.Construct = strings.TrimPrefix(fl, "construct=")
			default:
				text = append(text, fl)
			}
		}
		kf.Text = strings.Join(text, " ")
		out = append(out, kf)
	}
	return out, sc.Err()
}

// ---------- running a property ----------

type runResult struct {
	violations int
	known      int
}

func verifDir() string {
	if d := os.Getenv("VERIF_DIR"); d != "" {
		return d
	}
	exe, err := os.Executable()
	if err == nil {
		d := filepath.Dir(filepath.Dir(exe))
		if _, err := os.Stat(filepath.Join(d, "properties.jsonl")); err == nil {
			return d
		}
	}
	return "/verif"
}

func runProperty(prop *Property, repo, tier string, onlyConstruct string) (int, error) {
	start := time.Now()
	roots := prop.Roots
	if tier == "thorough" {
		roots = []string{"./..."}
	}
	c, p, err := evalOnce(prop, repo, tier, roots, variantTags, variantArch)
	if err != nil {
		return 2, err
	}
	// thorough: the anchor packages once more under the build configurations that select
	// other files (build-tagged siblings of the anchored code), one after the other
	type variantInfo struct {
		Name        string `json:"name"`
		Packages    int    `json:"packages"`
		Functions   int    `json:"functions"`
		Obligations int    `json:"obligations"`
		Failed      int    `json:"not_discharged"`
	}
	var variants []variantInfo
	if tier == "thorough" && variantTags == "" && variantArch == "" && os.Getenv("VERIF_NO_VARIANTS") == "" {
		for _, v := range []struct{ name, tags, arch string }{
			{"tags=nosecboot", "nosecboot", ""},
			{"tags=withtestkeys", "withtestkeys", ""},
			{"GOARCH=arm64", "", "arm64"},
		} {
			if why, skip := prop.VariantSkip[v.name]; skip {
				variants = append(variants, variantInfo{Name: v.name + " (skipped: " + why + ")"})
				continue
			}
			// the variants load the anchor packages only, so the rules see them in quick scope
			cv, pv, err := evalOnce(prop, repo, "quick", prop.Roots, v.tags, v.arch)
			if err != nil {
				return 2, fmt.Errorf("variant %s: %v", v.name, err)
			}
			vi := variantInfo{Name: v.name, Packages: len(pv.Pkgs), Functions: len(pv.AllFuncs()), Obligations: len(cv.Obls)}
			for _, o := range cv.Obls {
				if o.Verdict != "holds" {
					vi.Failed++
				}
				o.Variant = v.name
				c.Obls = append(c.Obls, o)
			}
			variants = append(variants, vi)
		}
	}
	vdir := verifDir()
	kfs, err := loadKnownFindings(filepath.Join(vdir, "known_findings.txt"))
	if err != nil {
		return 2, err
	}
	nviol, nknown, discharged := 0, 0, 0
	violDir := filepath.Join(vdir, "evidence", "violations")
	var samples []interface{}
	var violSamples []interface{}
	sort.SliceStable(c.Obls, func(i, j int) bool {
		if c.Obls[i].Rule != c.Obls[j].Rule {
			return ruleLess(c.Obls[i].Rule, c.Obls[j].Rule)
		}
		return c.Obls[i].Construct < c.Obls[j].Construct
	})
	perRuleSample := map[string]int{}
	for _, o := range c.Obls {
		if onlyConstruct != "" && o.Rule+"|"+o.Construct != onlyConstruct {
			continue
		}
		switch o.Verdict {
		case "holds":
			discharged++
			if perRuleSample[o.Rule] < 2 {
				perRuleSample[o.Rule]++
				samples = append(samples, o)
			}
		default:
			matched := false
			for _, kf := range kfs {
				if kf.Prop == prop.ID && kf.Rule == o.Rule && kf.Construct == o.Construct && o.Verdict == "violated" {
					matched = true
					kf.used = true
					fmt.Printf("KNOWN-FINDING: property=%s rule=%s construct=%s %s (%s)\n", prop.ID, o.Rule, o.Construct, kf.Text, o.Pos)
					o.Verdict = "known-finding"
					nknown++
				}
			}
			if matched {
				violSamples = append(violSamples, o)
				continue
			}
			nviol++
			if noEvidence {
				violDir = filepath.Join(os.TempDir(), "snapverif-selftest")
			}
			os.MkdirAll(violDir, 0o755)
			path := filepath.Join(violDir, fmt.Sprintf("%s-%d.json", prop.ID, nviol))
			data, _ := json.MarshalIndent(map[string]interface{}{"property_id": prop.ID, "tier": tier, "obligation": o, "repo": repo}, "", " ")
			os.WriteFile(path, data, 0o644)
			vtxt := ""
			if o.Variant != "" {
				vtxt = " (" + o.Variant + ")"
			}
			fmt.Printf("%s: %s [%s %s]%s %s\n", o.Pos, strings.ToUpper(o.Verdict), o.Rule, o.Construct, vtxt, o.Detail)
			fmt.Printf("VIOLATION property=%s replay=%s\n", prop.ID, path)
			violSamples = append(violSamples, o)
		}
	}
	var rules []*RuleInfo
	for _, id := range c.order {
		r := c.Rules[id]
		for f := range r.Funcs {
			r.FuncList = append(r.FuncList, f)
		}
		sort.Strings(r.FuncList)
		rules = append(rules, r)
	}
	seed := 0
	if s := os.Getenv("VERIF_SEED"); s != "" {
		seed, _ = strconv.Atoi(s)
	}
	if onlyConstruct == "" && !noEvidence {
		ev := map[string]interface{}{
			"property_id": prop.ID,
			"tier":        tier,
			"seed":        seed,
			"level":       "other",
			"coverage": map[string]interface{}{
				"explanation":        prop.Explanation,
				"not_decided":        prop.NotDecided,
				"obligations":        len(c.Obls),
				"discharged":         discharged,
				"known_findings":     nknown,
				"rules":              rules,
				"samples":            append(violSamples, samples...),
				"packages_loaded":    len(p.Pkgs),
				"functions_analysed": len(p.AllFuncs()),
				"scope":              map[string]string{"quick": "the property's anchor packages from source, dependencies from export data", "thorough": "the whole module from source (minus cmd/snap-seccomp, which cannot be type-checked here), then the anchor packages again under -tags nosecboot, -tags withtestkeys and GOARCH=arm64"}[tier],
				"excluded_packages":  excludedPkgs,
				"build_variants":     variants,
				"exhaustive":         false,
			},
			"assumptions": append([]string{"go/ssa (x/tools v0.29.0) lowers the source faithfully; CFG paths over-approximate feasible executions", "rules are necessary conditions for the property: a pass does not prove the behaviour"}, prop.Assumptions...),
			"wall_s":      time.Since(start).Seconds(),
			"violations":  nviol,
		}
		data, _ := json.MarshalIndent(ev, "", " ")
		os.MkdirAll(filepath.Join(vdir, "evidence"), 0o755)
		if err := os.WriteFile(filepath.Join(vdir, "evidence", prop.ID+".json"), data, 0o644); err != nil {
			return 2, err
		}
	}
	fmt.Printf("%s tier=%s packages=%d functions=%d rules=%d obligations=%d discharged=%d known-findings=%d violations=%d wall=%.1fs\n",
		prop.ID, tier, len(p.Pkgs), len(p.AllFuncs()), len(rules), len(c.Obls), discharged, nknown, nviol, time.Since(start).Seconds())
	if nviol > 0 {
		return 1, nil
	}
	return 0, nil
}

// evalOnce loads one build configuration and evaluates the property's rules on it.
func evalOnce(prop *Property, repo, tier string, roots []string, tags, arch string) (*Ctx, *Prog, error) {
	p, err := Load(repo, tier, roots, tags, arch)
	if err != nil {
		return nil, nil, err
	}
	c := &Ctx{P: p, Prop: prop, Rules: map[string]*RuleInfo{}}
	func() {
		defer func() {
			if r := recover(); r != nil {
				if ae, ok := r.(AnchorError); ok {
					c.Rule("anchor", "loader", "every object named by a rule resolves in the loaded program", 0)
					c.Undecided("anchor#"+ae.Name, token.NoPos, ae.Error())
					return
				}
				panic(r)
			}
		}()
		prop.Run(c)
	}()
	// floors
	for _, id := range c.order {
		r := c.Rules[id]
		if r.Instances < r.Floor {
			c.cur = r
			c.Undecided(id+"#floor", token.NoPos, fmt.Sprintf("rule matched %d instances, fewer than the %d confirmed by hand: the rule would pass vacuously", r.Instances, r.Floor))
		}
	}
	return c, p, nil
}

func ruleLess(a, b string) bool {
	// C10-R2 < C10-R10
	na, nb := ruleNum(a), ruleNum(b)
	if na != nb {
		return na < nb
	}
	return a < b
}

func ruleNum(s string) int {
	i := strings.LastIndex(s, "R")
	if i < 0 {
		return 1 << 20
	}
	j := i + 1
	for j < len(s) && s[j] >= '0' && s[j] <= '9' {
		j++
	}
	n, err := strconv.Atoi(s[i+1 : j])
	if err != nil {
		return 1 << 20
	}
	return n
}

// Try evaluates the guarded-sink question without recording an obligation.
func (c *Ctx) Try(fn *ssa.Function, sink ssa.Instruction, clauses []Clause, opt *GOpt) bool {
	if opt == nil {
		opt = &GOpt{}
	}
	for _, cl := range clauses {
		n := 0
		for _, a := range cl {
			n += CountAtomEdges(fn, a)
		}
		if n == 0 {
			return false
		}
		q := ReachQ{Fn: fn, From: opt.From, Sink: SinkIs(sink), CutEdge: OrCutEdges(AtomEdges(cl...), opt.CutEdge), CutInstr: opt.CutInstr, Descend: opt.CutEdge == nil || opt.Descend}
		if q.Run().Found {
			return false
		}
	}
	return true
}
