package main

import (
	"fmt"
	"go/token"
	"go/types"
	"strings"

	"golang.org/x/tools/go/ssa"
)

func init() {
	register(&Property{
		ID:          "C19",
		Roots:       []string{"asserts"},
		Technique:   "guarded-sink reachability on the SSA CFG of every Backstore.Put implementation (sibling cross-check) and of Database.Add; loop-latch gating of the primary-key loop",
		Explanation: "Structural necessary conditions for 'stored assertions only move forward in revision': (R1) every implementation of Backstore.Put / memBSNode.put reaches its storage write (map store, atomicWriteEntry) only when there is no current assertion or curRev < rev, with curRev/rev taken from the current and the new assertion, and every implementation is one of the reviewed ones; (R2) the stacked-database case of Database.Add applies the same comparison before Put; (R3) Database.Add reaches Put only when the lookups in the trusted and the predefined stores both reported NotFound and no primary-key value is empty; (R4) the 'current assertion' selectors of both stores replace their candidate only by a strictly higher revision within the format limit; (R5) the backstores' index maintenance never appends onto a truncated view of a stored slice while a tail of that slice is kept (an in-place insert that silently overwrites an existing member).",
		NotDecided:  "agreement of the two stores over arbitrary histories; sequence-number searches; the on-disk path encoding.",
		Run:         func(c *Ctx) { runC19(c); runC19x(c); runC19z(c) },
	})
}

func runC19(c *Ctx) {
	P := c.P
	revision := P.FuncObj("asserts.Assertion.Revision")
	revOf := func(x func(ssa.Value) bool) func(ssa.Value) bool {
		return VRes(0, RecvWhere(ToFn(revision), x))
	}

	c.Rule("C19-R1", "G", "every Backstore.Put / memBSNode.put implementation: storage write <= no current | curRev < rev", 6)
	// memBSLeaf.put
	leafPut := P.Func("asserts.memBSLeaf.put")
	leafCur := P.FuncObj("asserts.memBSLeaf.cur")
	maxFmt := P.FuncObj("asserts.(*AssertionType).MaxSupportedFormat")
	curM := ToFn(leafCur)
	curNil := Cmp("cur==nil", VRes(0, curM), token.EQL, isNilVal)
	revLess := Cmp("cur.Revision() < assert.Revision()", revOf(VRes(0, curM)), token.LSS, revOf(VParam(leafPut, 3)))
	n := 0
	for _, b := range leafPut.Blocks {
		for _, in := range b.Instrs {
			mu, ok := in.(*ssa.MapUpdate)
			if !ok || !IsParam(mu.Value, leafPut, 3) {
				continue
			}
			n++
			c.Guarded(fmt.Sprintf("asserts.memBSLeaf.put#store#%d", n), leafPut, mu, []Clause{{curNil, revLess}}, nil)
		}
	}
	if n == 0 {
		c.Undecided("asserts.memBSLeaf.put#store", leafPut.Pos(), "no map store of the new assertion found")
	}
	for _, cc := range CallSites(leafPut, leafCur) {
		a := CallArgs(cc)
		c.Check(len(a) == 2 && VRes(0, RecvWhere(ToFn(maxFmt), VParam(leafPut, 1)))(a[1]), "asserts.memBSLeaf.put#current-format", cc.Pos(), "the current assertion is picked among all supported formats", "the current assertion is not looked up with the type's maximum supported format (a higher-format current revision would be invisible)")
	}
	for i, lf := range nilLeaves(leafPut, 0) {
		c.GuardedFlow(fmt.Sprintf("asserts.memBSLeaf.put#nil-return#%d", i+1), leafPut, lf, []Clause{{curNil, revLess}}, nil)
	}
	// memBSSeqLeaf.put: sequence index updated only after the embedded put succeeded
	seqPut := P.Func("asserts.(*memBSSeqLeaf).put")
	fSeq := P.Field("asserts.memBSSeqLeaf.sequence")
	okInner := NilRes("leaf.memBSLeaf.put(...)==nil", 0, ToFn(P.FuncObj("asserts.memBSLeaf.put")))
	for i, st := range StoresToField(seqPut, fSeq) {
		c.Guarded(fmt.Sprintf("asserts.(*memBSSeqLeaf).put#sequence-store#%d", i+1), seqPut, st, []Clause{{okInner}}, nil)
	}
	for i, lf := range nilLeaves(seqPut, 0) {
		c.GuardedFlow(fmt.Sprintf("asserts.(*memBSSeqLeaf).put#nil-return#%d", i+1), seqPut, lf, []Clause{{okInner}}, nil)
	}
	// memBSBranch.put and memoryBackstore.Put only delegate
	for _, d := range []struct{ fn, callee string }{
		{"asserts.memBSBranch.put", "asserts.memBSNode.put"},
		{"asserts.(*memoryBackstore).Put", "asserts.memBSBranch.put"},
	} {
		fn := P.Func(d.fn)
		ok := true
		for _, lf := range ReturnLeaves(fn, 0) {
			if !VRes(0, ToFn(P.FuncObj(d.callee)))(lf.Val) {
				ok = false
			}
		}
		c.Check(ok, d.fn+"#delegates", fn.Pos(), "returns exactly the verdict of "+d.callee, d.fn+" no longer returns the verdict of "+d.callee+" (a refused revision could be reported as stored, or stored without the comparison)")
	}
	// filesystemBackstore.Put
	fsPut := P.Func("asserts.(*filesystemBackstore).Put")
	curAs := P.FuncObj("asserts.(*filesystemBackstore).currentAssertion")
	write := P.FuncObj("asserts.atomicWriteEntry")
	gErrNotFound := P.Global("asserts.errNotFound")
	fsRevLess := Cmp("curAssert.Revision() < assert.Revision()", revOf(VRes(0, ToFn(curAs))), token.LSS, revOf(VParam(fsPut, 2)))
	fsNotFound := Cmp("err==errNotFound", VRes(1, ToFn(curAs)), token.EQL, VGlobal(gErrNotFound))
	ws := CallSites(fsPut, write)
	for i, w := range ws {
		c.Guarded(fmt.Sprintf("asserts.(*filesystemBackstore).Put#write#%d", i+1), fsPut, w, []Clause{{fsRevLess, fsNotFound}}, nil)
		a := CallArgs(w)
		c.Check(len(a) > 0 && VRes(0, CallWhere(ToFn(P.FuncObj("asserts.Encode")), 0, VParam(fsPut, 2)))(a[0]), fmt.Sprintf("asserts.(*filesystemBackstore).Put#written-content#%d", i+1), w.Pos(), "the bytes written are Encode(assert) of the assertion compared", "the entry written is not the encoding of the assertion whose revision was compared")
	}
	if len(ws) == 0 {
		c.Undecided("asserts.(*filesystemBackstore).Put#write", fsPut.Pos(), "no atomicWriteEntry call found")
	}
	for _, cc := range CallSites(fsPut, curAs) {
		a := CallArgs(cc)
		c.Check(len(a) == 3 && VRes(0, RecvWhere(ToFn(maxFmt), VParam(fsPut, 1)))(a[2]), "asserts.(*filesystemBackstore).Put#current-format", cc.Pos(), "the current assertion is picked among all supported formats", "the current assertion is not looked up with the type's maximum supported format")
	}
	for i, lf := range nilLeaves(fsPut, 0) {
		c.GuardedFlow(fmt.Sprintf("asserts.(*filesystemBackstore).Put#nil-return#%d", i+1), fsPut, lf, []Clause{{fsRevLess, fsNotFound}, {NilRes("atomicWriteEntry==nil", 0, ToFn(write))}}, nil)
	}
	// sibling enumeration: every implementation is reviewed
	known := map[string]bool{"nullBackstore": true, "memoryBackstore": true, "filesystemBackstore": true}
	for _, tn := range implementers(P.Pkgs["asserts"].Types, P.NamedType("asserts.Backstore").Underlying().(*types.Interface)) {
		c.Check(known[tn.Name()], "asserts."+tn.Name()+"#backstore-impl", tn.Pos(), "implementation covered by R1", "new Backstore implementation "+tn.Name()+" has no forward-only rule")
	}
	knownNodes := map[string]bool{"memBSBranch": true, "memBSLeaf": true, "memBSSeqLeaf": true}
	for _, tn := range implementers(P.Pkgs["asserts"].Types, P.NamedType("asserts.memBSNode").Underlying().(*types.Interface)) {
		c.Check(knownNodes[tn.Name()], "asserts."+tn.Name()+"#memnode-impl", tn.Pos(), "implementation covered by R1", "new memBSNode implementation "+tn.Name()+" has no forward-only rule")
	}

	c.Rule("C19-R2", "G", "Database.Add, stacked case: Put <= len(stackedOn)==0 | find err!=nil | curRev < rev", 1)
	add := P.Func("asserts.(*Database).Add")
	putObj := P.FuncObj("asserts.Backstore.Put")
	fBS := P.Field("asserts.Database.bs")
	fStacked := P.Field("asserts.Database.stackedOn")
	findFn := P.FuncObj("asserts.find")
	findStacked := CallWhere(ToFn(findFn), 0, VField(fStacked))
	puts := CallsMatching(add, RecvWhere(ToFn(putObj), VField(fBS)))
	notStacked := Cmp("len(db.stackedOn)==0", VLen(VField(fStacked)), token.EQL, VConstInt(0))
	findFailed := Not(NilRes("find(stackedOn) err==nil", 1, findStacked))
	addRevLess := Cmp("cur.Revision() < assert.Revision()", revOf(VRes(0, findStacked)), token.LSS, revOf(VParam(add, 1)))
	for i, pc := range puts {
		c.Guarded(fmt.Sprintf("asserts.(*Database).Add#stacked-revision#%d", i+1), add, pc, []Clause{{notStacked, findFailed, addRevLess}}, nil)
	}

	c.Rule("C19-R3", "G+L", "Database.Add: Put <= errors.Is(trusted.Get err, NotFound) ∧ errors.Is(predefined.Get err, NotFound) ∧ no empty primary-key value", 3)
	fTrusted, fPredef := P.Field("asserts.Database.trusted"), P.Field("asserts.Database.predefined")
	getObj := P.FuncObj("asserts.Backstore.Get")
	errorsIs := P.FuncObj("errors.Is")
	isNotFoundOf := func(name string, f *types.Var) Atom {
		return TrueRes(name, true, 0, CallWhere(ToFn(errorsIs), 0, VRes(1, RecvWhere(ToFn(getObj), VField(f)))))
	}
	fPK := P.Field("asserts.Ref.PrimaryKey")
	for i, pc := range puts {
		c.Guarded(fmt.Sprintf("asserts.(*Database).Add#no-trusted-clash#%d", i+1), add, pc, []Clause{{isNotFoundOf("errors.Is(trusted.Get err, NotFound)", fTrusted)}}, nil)
		c.Guarded(fmt.Sprintf("asserts.(*Database).Add#no-predefined-clash#%d", i+1), add, pc, []Clause{{isNotFoundOf("errors.Is(predefined.Get err, NotFound)", fPredef)}}, nil)
	}
	// the NotFound target is really a *NotFoundError
	nf := P.NamedType("asserts.NotFoundError")
	for _, ec := range CallSites(add, errorsIs) {
		a := ec.Common().Args
		al, ok := stripNoCell(a[1]).(*ssa.Alloc)
		c.Check(ok && types.Identical(al.Type().(*types.Pointer).Elem(), nf), "asserts.(*Database).Add#notfound-target", ec.Pos(), "compared against &NotFoundError{}", "errors.Is target in Add is not &NotFoundError{}")
	}
	pkLoops := LoopsOver(add, VField(fPK))
	if len(pkLoops) != 1 {
		c.Undecided("asserts.(*Database).Add#primary-key-loop", add.Pos(), fmt.Sprintf("expected one loop over ref.PrimaryKey, found %d", len(pkLoops)))
	} else {
		rl := pkLoops[0]
		c.LatchGated("asserts.(*Database).Add#primary-key-loop", rl, []Clause{{Cmp(`keyVal!=""`, VIs(rl.Elem), token.NEQ, VConstStr(""))}})
		for i, pc := range puts {
			c.ThroughLoop(fmt.Sprintf("asserts.(*Database).Add#put-after-primary-key-loop#%d", i+1), rl, FlowPoint{Instr: pc})
		}
	}

	c.Rule("C19-R5", "G", "index maintenance in the backstores never appends onto a truncated view of a stored slice while a tail of the same slice is kept for later (in-place insert that overwrites existing members)", 1)
	nApp := 0
	for _, fn := range P.FuncsIn("asserts") {
		file := P.Fset.Position(fn.Pos()).Filename
		if !strings.HasSuffix(file, "backstore.go") {
			continue
		}
		for _, b := range fn.Blocks {
			for _, in := range b.Instrs {
				ci, ok := in.(*ssa.Call)
				if !ok {
					continue
				}
				bi, ok := ci.Call.Value.(*ssa.Builtin)
				if !ok || bi.Name() != "append" {
					continue
				}
				nApp++
				head, ok := ci.Call.Args[0].(*ssa.Slice)
				if !ok || head.High == nil {
					continue
				}
				// a truncated view X[:h]; is a tail X[l:] of the same stored slice captured in this function?
				baseOf := func(v ssa.Value) (ssa.Value, *types.Var) {
					bs, f, ok := FieldLoad(v)
					if !ok {
						return nil, nil
					}
					return Strip(bs), f
				}
				hb, hf := baseOf(head.X)
				if hf == nil {
					continue
				}
				// deletion idiom append(X[:i], X[i+1:]...) shifts left and is safe
				if tail, ok := ci.Call.Args[1].(*ssa.Slice); ok && tail.Low != nil {
					if tb, tf := baseOf(tail.X); tf == hf && tb == hb {
						if bo, ok := tail.Low.(*ssa.BinOp); ok && bo.Op == token.ADD && bo.X == head.High {
							continue
						}
					}
				}
				hazard := ""
				for _, b2 := range fn.Blocks {
					for _, in2 := range b2.Instrs {
						if tl, ok := in2.(*ssa.Slice); ok && tl.Low != nil && tl != head {
							if tb, tf := baseOf(tl.X); tf == hf && tb == hb {
								hazard = P.Pos(tl.Pos())
							}
						}
					}
				}
				c.touch(fn)
				c.Check(hazard == "", fmt.Sprintf("%s#append-onto-truncated-view#%d", SSAFuncName(fn), nApp), ci.Pos(), "no tail of the same slice is kept", fmt.Sprintf("append(%s[:i], ...) writes into the backing array of the stored slice while its tail (taken at %s) is still to be used: the first kept element is overwritten, an existing member drops out of the index", hf.Name(), hazard))
			}
		}
	}
	c.Holds("asserts#backstore-appends", token.NoPos, fmt.Sprintf("%d append calls examined in the backstore files", nApp))

	c.Rule("C19-R4", "G", "current-assertion selectors replace their candidate only by a strictly higher revision within maxFormat", 2)
	// memBSLeaf.cur: the value returned is nil or a loop element admitted by the gates
	curFn := P.Func("asserts.memBSLeaf.cur")
	selRule := func(fn *ssa.Function, name string, cand func(ssa.Value) bool, maxFormatParam int) {
		k := 0
		for _, lf := range ReturnLeaves(fn, 0) {
			if IsNilConst(lf.Val) {
				continue
			}
			k++
			// "a == nil" where a is the running candidate (any phi of the result web) or a1.Rev > a.Rev
			isWeb := func(v ssa.Value) bool { _, ok := stripNoCell(v).(*ssa.Phi); return ok }
			c.GuardedFlow(fmt.Sprintf("%s#candidate-accepted#%d", name, k), fn, lf, []Clause{
				{Cmp("a==nil", isWeb, token.EQL, isNilVal), Cmp("a1.Revision() > a.Revision()", revOf(cand), token.GTR, revOf(isWeb))},
				{Cmp("formatnum<=maxFormat", anyVal, token.LEQ, VParam(fn, maxFormatParam))},
			}, nil)
		}
		if k == 0 {
			c.Undecided(name+"#candidate-accepted", fn.Pos(), "no non-nil result leaf found")
		}
	}
	selRule(curFn, "asserts.memBSLeaf.cur", func(v ssa.Value) bool { _, ok := Strip(v).(*ssa.Extract); return ok }, 2)
	pick := P.Func("asserts.(*filesystemBackstore).pickLatestAssertion")
	readAs := P.FuncObj("asserts.(*filesystemBackstore).readAssertion")
	selRule(pick, "asserts.(*filesystemBackstore).pickLatestAssertion", VRes(0, ToFn(readAs)), 3)
}
