package main

import (
	"fmt"
	"go/ast"
	"go/constant"
	"go/token"
	"strings"

	"golang.org/x/tools/go/ssa"
)

func init() {
	register(&Property{
		ID:          "C27",
		Roots:       []string{"wrappers"},
		Technique:   "guarded-sink and must-pass-through rules on the SSA CFG of wrappers.sanitizeDesktopFile, rewriteExecLine and rewriteIconLine; constant-table rule on the line allow-list (every alternative anchored at the line start, matched on the raw line)",
		Explanation: "Structural necessary conditions for 'generated desktop files only contain allowed lines, run the snap's own wrappers and reference icons inside the snap': (R1) sanitizeDesktopFile writes a source line only across isValidDesktopFileLine(rawLine)==true, where the allow-list is regexp.MustCompile(join of constants).Match applied to the raw scanner line and every alternative is anchored with ^ (keys are not matched after leading whitespace); a line with the Exec= / Icon= prefix is written only after rewriteExecLine / rewriteIconLine succeeded, and what is written is the rewritten line; (R2) every [Desktop Entry] header written is followed by the X-SnapInstanceName tag, on every path, with no further condition; (R3) rewriteExecLine returns, without error, only lines of the form Exec= + env + wrapper path of an app of this snap; rewriteIconLine lets a path through only across HasPrefix(icon, \"${SNAP}/\") (with the trailing slash) and filepath.Clean(icon)==icon, and rewrites or refuses snap.-prefixed names.",
		NotDecided:  "the language of the allow-list regexp as a whole (localised keys, control characters inside values); the desktop-entry parsers of the desktop environments.",
		Run:         func(c *Ctx) { runC27(c); runC27x(c) },
	})
}

func runC27(c *Ctx) {
	P := c.P
	pkg := "wrappers"
	san := P.Func(pkg + ".sanitizeDesktopFile")
	gValid := P.Global(pkg + ".isValidDesktopFileLine")
	bufWrite := P.FuncObj("bytes.(*Buffer).Write")
	scanBytes := P.FuncObj("bufio.(*Scanner).Bytes")
	hasPrefix := P.FuncObj("bytes.HasPrefix")
	rwExec := P.FuncObj(pkg + ".rewriteExecLine")
	rwIcon := P.FuncObj(pkg + ".rewriteIconLine")

	c.Rule("C27-R1", "G+K", "sanitizeDesktopFile: line written <= allow-list(raw line); Exec=/Icon= lines only after a successful rewrite; allow-list alternatives all anchored", 8)
	rawLine := VRes(0, ToFn(scanBytes))
	allowed := TrueRes("isValidDesktopFileLine(rawLine)", true, 0, CallWhere(ViaGlobal(gValid), 0, rawLine))
	isBytesOf := func(s string) func(ssa.Value) bool {
		return func(v ssa.Value) bool {
			v = Strip(v)
			if cv, ok := v.(*ssa.Convert); ok {
				x, ok := ConstString(cv.X)
				return ok && x == s
			}
			x, ok := ConstString(v)
			return ok && x == s
		}
	}
	isExec := TrueRes(`bytes.HasPrefix(line,"Exec=")`, true, 0, CallWhere(ToFn(hasPrefix), 1, isBytesOf("Exec=")))
	isIcon := TrueRes(`bytes.HasPrefix(line,"Icon=")`, true, 0, CallWhere(ToFn(hasPrefix), 1, isBytesOf("Icon=")))
	// the line writes: Write whose argument is not a constant-derived tag
	var lineWrites, tagWrites []ssa.CallInstruction
	for _, wc := range CallSites(san, bufWrite) {
		a := wc.Common().Args[1]
		if DependsOnConstPrefix(a, "X-SnapInstanceName=") {
			tagWrites = append(tagWrites, wc)
		} else {
			lineWrites = append(lineWrites, wc)
		}
	}
	if len(lineWrites) != 1 {
		c.Undecided(pkg+".sanitizeDesktopFile#line-write", san.Pos(), fmt.Sprintf("expected one newContent.Write(bline), found %d", len(lineWrites)))
	} else {
		w := lineWrites[0]
		c.Guarded(pkg+".sanitizeDesktopFile#written<=allowed", san, w, []Clause{{allowed}}, nil)
		c.Guarded(pkg+".sanitizeDesktopFile#exec-line<=rewritten", san, w, []Clause{{Not(isExec), OkCall("ok(rewriteExecLine)", rwExec)}}, nil)
		c.Guarded(pkg+".sanitizeDesktopFile#icon-line<=rewritten", san, w, []Clause{{Not(isIcon), OkCall("ok(rewriteIconLine)", rwIcon)}}, nil)
		// the prefix tests look at the raw line (Exec) / the possibly rewritten line (Icon): both derive from scanner.Bytes()
		for _, hc := range CallSites(san, hasPrefix) {
			a := hc.Common().Args[0]
			okSrc := false
			var leaves []FlowPoint
			phiLeaves(a, hc, &leaves, map[*ssa.Phi]bool{})
			for _, lf := range leaves {
				if rawLine(lf.Val) {
					okSrc = true
				}
			}
			c.Check(okSrc, fmt.Sprintf("%s.sanitizeDesktopFile#prefix-test-on-line@%s", pkg, P.Pos(hc.Pos())), hc.Pos(), "the key test looks at the scanned line", "a key prefix test in sanitizeDesktopFile does not look at the scanned line")
		}
		// what is written on the Exec path is the rewritten line: the written phi has an edge converted from rewriteExecLine's result
		var leaves []FlowPoint
		phiLeaves(w.Common().Args[1], w, &leaves, map[*ssa.Phi]bool{})
		fromExec, fromIcon := false, false
		for _, lf := range leaves {
			if DependsOnCall(lf.Val, rwExec, func([]ssa.Value) bool { return true }) {
				fromExec = true
			}
			if DependsOnCall(lf.Val, rwIcon, func([]ssa.Value) bool { return true }) {
				fromIcon = true
			}
		}
		c.Check(fromExec && fromIcon, pkg+".sanitizeDesktopFile#rewritten-line-is-written", w.Pos(), "the rewritten Exec/Icon line replaces the source line", "the result of rewriteExecLine/rewriteIconLine is not what gets written")
	}
	// the allow-list: MustCompile(strings.Join([]string{consts...}, "|")).Match, every alternative anchored
	init := P.AstVarInit(pkg, "isValidDesktopFileLine")
	okShape := false
	var alts []string
	if sel, ok := init.(*ast.SelectorExpr); ok && sel.Sel.Name == "Match" {
		if mc, ok := sel.X.(*ast.CallExpr); ok && len(mc.Args) == 1 {
			if jc, ok := mc.Args[0].(*ast.CallExpr); ok && len(jc.Args) == 2 {
				if cl, ok := jc.Args[0].(*ast.CompositeLit); ok {
					okShape = true
					for _, e := range cl.Elts {
						tv, ok := P.Pkgs[pkg].TypesInfo.Types[e]
						if !ok || tv.Value == nil || tv.Value.Kind() != constant.String {
							okShape = false
							continue
						}
						alts = append(alts, constant.StringVal(tv.Value))
					}
				}
			}
		}
	}
	c.Check(okShape && len(alts) > 10, pkg+".isValidDesktopFileLine#shape", gValid.Pos(), fmt.Sprintf("regexp.MustCompile(strings.Join(%d constants, \"|\")).Match", len(alts)), "the allow-list is no longer regexp.MustCompile(strings.Join(<constant alternatives>, \"|\")).Match on the raw line (e.g. wrapped in a function that trims or normalises the line first): keys the sanitizer does not recognise at the line start would be let through")
	var unanchored, loose []string
	hasExec, hasIcon := false, false
	for _, a := range alts {
		if !strings.HasPrefix(a, "^") {
			unanchored = append(unanchored, a)
		}
		if strings.HasPrefix(a, `^\s`) && a != `^\s*$` && a != `^\s*#` {
			loose = append(loose, a)
		}
		hasExec = hasExec || a == "^Exec="
		hasIcon = hasIcon || a == "^Icon="
	}
	c.Check(len(unanchored) == 0 && len(loose) == 0, pkg+".isValidDesktopFileLine#anchored", gValid.Pos(), "every alternative starts at the line start", fmt.Sprintf("allow-list alternatives not anchored at the line start: %v; allowing leading whitespace before a key: %v", unanchored, loose))
	c.Check(hasExec && hasIcon, pkg+".isValidDesktopFileLine#exec-icon-keys", gValid.Pos(), "^Exec= and ^Icon= are the alternatives the rewriting keys on", "the allow-list no longer contains exactly ^Exec= and ^Icon=, the prefixes sanitizeDesktopFile rewrites")

	c.Rule("C27-R2", "O", "every [Desktop Entry] header written is followed by X-SnapInstanceName=<instance name>, unconditionally", 2)
	bytesEqual := P.FuncObj("bytes.Equal")
	isHeader := TrueRes(`bytes.Equal(line,"[Desktop Entry]")`, true, 0, CallWhere(ToFn(bytesEqual), 1, isBytesOf("[Desktop Entry]")))
	if len(tagWrites) != 1 {
		c.Violated(pkg+".sanitizeDesktopFile#tag-write", san.Pos(), fmt.Sprintf("expected one write of the X-SnapInstanceName tag, found %d", len(tagWrites)))
	} else {
		tw := tagWrites[0]
		n := 0
		for _, b := range san.Blocks {
			for si := range b.Succs {
				if !AtomEdges(isHeader)(b, si) {
					continue
				}
				n++
				q := ReachQ{Fn: san, From: &Loc{b.Succs[si], -1}, CutInstr: SinkIs(tw), Sink: func(in ssa.Instruction) bool {
					_, isRet := in.(*ssa.Return)
					ci, isCall := in.(ssa.CallInstruction)
					return isRet || (isCall && ToFn(P.FuncObj("bufio.(*Scanner).Scan"))(ci))
				}}
				r := q.Run()
				c.Check(!r.Found, fmt.Sprintf("%s.sanitizeDesktopFile#header-tagged#%d", pkg, n), tw.Pos(), "the tag follows the header on every path", "a [Desktop Entry] header can be written without the X-SnapInstanceName tag (extra condition on the tagging): "+P.PathString(r.Path))
			}
		}
		c.Check(n > 0, pkg+".sanitizeDesktopFile#header-test", san.Pos(), "the header is recognised with bytes.Equal(line, \"[Desktop Entry]\")", "the [Desktop Entry] header test was not found")
		c.Check(DependsOnCall(tw.Common().Args[1], P.FuncObj("snap.(*Info).InstanceName"), func([]ssa.Value) bool { return true }), pkg+".sanitizeDesktopFile#tag-value", tw.Pos(), "the tag carries s.InstanceName()", "the X-SnapInstanceName tag does not carry s.InstanceName()")
	}

	c.Rule("C27-R3", "G", "rewriteExecLine returns only Exec=+env+wrapper lines; rewriteIconLine lets a path through only under ${SNAP}/ and canonical", 5)
	rx := P.Func(pkg + ".rewriteExecLine")
	wrapperObj := P.FuncObj("snap.(*AppInfo).WrapperPath")
	nOK := 0
	for i, lf := range ReturnLeaves(rx, 0) {
		if s, ok := ConstString(lf.Val); ok && s == "" {
			continue
		}
		nOK++
		okForm := execLineForm(lf.Val, wrapperObj)
		c.Check(okForm, fmt.Sprintf("%s.rewriteExecLine#result-form#%d", pkg, i+1), lf.Pos(), "Exec= + env + app.WrapperPath() ...", "rewriteExecLine returns a line that is not built as \"Exec=\" + env + the wrapper path of one of the snap's apps")
	}
	if nOK == 0 {
		c.Undecided(pkg+".rewriteExecLine#results", rx.Pos(), "no non-empty result found")
	}
	ri := P.Func(pkg + ".rewriteIconLine")
	strHasPrefix := P.FuncObj("strings.HasPrefix")
	inSnap := TrueRes(`strings.HasPrefix(icon,"${SNAP}/")`, true, 0, CallWhere(ToFn(strHasPrefix), 1, VConstStr("${SNAP}/")))
	clean := Not(Cmp("filepath.Clean(icon)!=icon", VRes(0, ToFn(P.FuncObj("path/filepath.Clean"))), token.NEQ, anyVal))
	isPath := TrueRes("strings.ContainsRune(icon, '/')", true, 0, ToFn(P.FuncObj("strings.ContainsRune")))
	snapDot := TrueRes(`strings.HasPrefix(icon,"snap.")`, true, 0, CallWhere(ToFn(strHasPrefix), 1, VConstStr("snap.")))
	for i, lf := range ReturnLeaves(ri, 0) {
		if s, ok := ConstString(lf.Val); ok && s == "" {
			continue
		}
		if IsParam(lf.Val, ri, 1) {
			// the line passed through unchanged: either a path inside the snap, or a plain name without the snap. prefix
			c.GuardedFlow(fmt.Sprintf("%s.rewriteIconLine#unchanged<=in-snap-or-name#%d", pkg, i+1), ri, lf, []Clause{{inSnap, Not(isPath)}, {clean, Not(isPath)}, {isPath, Not(snapDot)}}, nil)
		}
	}
	c.Check(CountAtomEdges(ri, inSnap) > 0, pkg+".rewriteIconLine#prefix-constant", ri.Pos(), "paths must start with ${SNAP}/", "rewriteIconLine no longer requires icon paths to start with \"${SNAP}/\" (with the trailing slash): ${SNAP}x/... resolves to a sibling of the snap's directory")
}

// DependsOnConstPrefix: v is a string/[]byte built by concatenation whose leftmost operand is the constant prefix.
func DependsOnConstPrefix(v ssa.Value, prefix string) bool {
	for i := 0; i < 8 && v != nil; i++ {
		switch x := v.(type) {
		case *ssa.Convert:
			v = x.X
		case *ssa.BinOp:
			if x.Op != token.ADD {
				return false
			}
			v = x.X
		case *ssa.Const:
			s, ok := ConstString(x)
			return ok && strings.HasPrefix(s, prefix)
		default:
			return false
		}
	}
	return false
}

// execLineForm: "Exec=" + env + wrapper [+ rest], or Sprintf("Exec=%s%s...", env, wrapper, ...).
func execLineForm(v ssa.Value, wrapperObj interface{ Name() string }) bool {
	isWrapper := func(x ssa.Value) bool {
		return DependsOnCall(x, wrapperObj, func([]ssa.Value) bool { return true })
	}
	switch x := Strip(v).(type) {
	case *ssa.BinOp:
		// ("Exec=" + env) + wrapper
		if x.Op != token.ADD || !isWrapper(x.Y) {
			return false
		}
		return DependsOnConstPrefix(x.X, "Exec=")
	case *ssa.Call:
		co := CalleeOf(x)
		if co == nil || co.Name() != "Sprintf" {
			return false
		}
		f, ok := ConstString(x.Call.Args[0])
		if !ok || !strings.HasPrefix(f, "Exec=%s%s") {
			return false
		}
		els := VarargElems(x.Call.Args[1])
		return len(els) >= 2 && isWrapper(els[1])
	}
	return false
}
