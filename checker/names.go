package main

import (
	"fmt"
	"go/types"
	"strings"

	"golang.org/x/tools/go/ssa"
)

// AnchorError is raised (as a panic caught per property) when a named object the
// rules depend on cannot be resolved: a rule that silently matches nothing would
// pass vacuously forever.
type AnchorError struct{ Name, Why string }

func (e AnchorError) Error() string { return fmt.Sprintf("anchor-unresolved %s: %s", e.Name, e.Why) }

func anchorFail(name, why string) { panic(AnchorError{name, why}) }

// splitName splits "overlord/state.(*Task).SetStatus" into package path and member.
func splitName(full string) (pkg, member string) {
	i := strings.LastIndex(full, "/")
	j := strings.Index(full[i+1:], ".")
	if j < 0 {
		anchorFail(full, "malformed name")
	}
	return full[:i+1+j], full[i+1+j+1:]
}

func (p *Prog) typesPkg(path string) *types.Package {
	if pk, ok := p.Pkgs[path]; ok {
		return pk.Types
	}
	for _, cand := range []string{modPath + "/" + path, path} {
		if sp := p.SSA.ImportedPackage(cand); sp != nil {
			return sp.Pkg
		}
	}
	return nil
}

// Obj resolves "pkg.Name", "pkg.(*T).M", "pkg.T.M" or "pkg.T.field" to a types.Object.
func (p *Prog) Obj(full string) types.Object {
	o := p.TryObj(full)
	if o == nil {
		anchorFail(full, "no such object in the loaded program")
	}
	return o
}

func (p *Prog) TryObj(full string) types.Object {
	pkgPath, member := splitName(full)
	tp := p.typesPkg(pkgPath)
	if tp == nil {
		// package paths with a dot in their last element (gopkg.in/tomb.v2)
		i := strings.LastIndex(full, "/")
		rest := full[i+1:]
		for j := strings.Index(rest, "."); j >= 0 && tp == nil; {
			k := strings.Index(rest[j+1:], ".")
			if k < 0 {
				break
			}
			j += 1 + k
			pkgPath, member = full[:i+1+j], full[i+1+j+1:]
			tp = p.typesPkg(pkgPath)
		}
	}
	if tp == nil {
		return nil
	}
	ptr := false
	if strings.HasPrefix(member, "(*") {
		ptr = true
		member = strings.Replace(member[2:], ")", "", 1)
	}
	parts := strings.Split(member, ".")
	o := tp.Scope().Lookup(parts[0])
	if o == nil {
		return nil
	}
	if len(parts) == 1 {
		return o
	}
	tn, ok := o.(*types.TypeName)
	if !ok {
		return nil
	}
	var T types.Type = tn.Type()
	if ptr {
		T = types.NewPointer(T)
	}
	obj, _, _ := types.LookupFieldOrMethod(T, true, tp, parts[1])
	if obj == nil && !ptr {
		obj, _, _ = types.LookupFieldOrMethod(types.NewPointer(T), true, tp, parts[1])
	}
	for _, more := range parts[2:] {
		// nested field path T.a.b
		if obj == nil {
			return nil
		}
		obj, _, _ = types.LookupFieldOrMethod(obj.Type(), true, tp, more)
	}
	return obj
}

// Func resolves a name to the SSA function with a body.
func (p *Prog) Func(full string) *ssa.Function {
	o := p.Obj(full)
	fo, ok := o.(*types.Func)
	if !ok {
		anchorFail(full, "not a function")
	}
	fn := p.SSA.FuncValue(fo)
	if fn == nil || fn.Blocks == nil {
		anchorFail(full, "function has no body in the loaded program (package not among the roots?)")
	}
	return fn
}

func (p *Prog) TryFunc(full string) *ssa.Function {
	o := p.TryObj(full)
	fo, ok := o.(*types.Func)
	if !ok {
		return nil
	}
	fn := p.SSA.FuncValue(fo)
	if fn == nil || fn.Blocks == nil {
		return nil
	}
	return fn
}

func (p *Prog) FuncObj(full string) *types.Func {
	fo, ok := p.Obj(full).(*types.Func)
	if !ok {
		anchorFail(full, "not a function")
	}
	return fo
}

func (p *Prog) Field(full string) *types.Var {
	v, ok := p.Obj(full).(*types.Var)
	if !ok || !v.IsField() {
		anchorFail(full, "not a struct field")
	}
	return v
}

func (p *Prog) Global(full string) *ssa.Global {
	v, ok := p.Obj(full).(*types.Var)
	if !ok || v.IsField() {
		anchorFail(full, "not a package-level variable")
	}
	pkgPath, _ := splitName(full)
	tp := p.typesPkg(pkgPath)
	sp := p.SSA.Package(tp)
	if sp == nil {
		anchorFail(full, "package not in SSA program")
	}
	g, ok := sp.Members[v.Name()].(*ssa.Global)
	if !ok {
		anchorFail(full, "no SSA global")
	}
	return g
}

func (p *Prog) Const(full string) *types.Const {
	c, ok := p.Obj(full).(*types.Const)
	if !ok {
		anchorFail(full, "not a constant")
	}
	return c
}

func (p *Prog) NamedType(full string) *types.Named {
	tn, ok := p.Obj(full).(*types.TypeName)
	if !ok {
		anchorFail(full, "not a type")
	}
	n, ok := tn.Type().(*types.Named)
	if !ok {
		anchorFail(full, "not a named type")
	}
	return n
}

// FuncName is the stable short name of a function object:
// "overlord/state.(*Task).SetStatus", "os.Rename", "asserts.Backstore.Put".
func FuncName(f *types.Func) string {
	if f == nil {
		return "<nil>"
	}
	f = f.Origin()
	pkg := ""
	if f.Pkg() != nil {
		pkg = short(f.Pkg().Path())
	}
	sig := f.Type().(*types.Signature)
	if r := sig.Recv(); r != nil {
		t := r.Type()
		star := ""
		if pt, ok := t.(*types.Pointer); ok {
			t = pt.Elem()
			star = "*"
		}
		tname := "?"
		switch tt := t.(type) {
		case *types.Named:
			tname = tt.Obj().Name()
			if tt.Obj().Pkg() != nil {
				pkg = short(tt.Obj().Pkg().Path())
			}
		case *types.Interface:
			tname = "interface"
		}
		if star != "" {
			return fmt.Sprintf("%s.(*%s).%s", pkg, tname, f.Name())
		}
		return fmt.Sprintf("%s.%s.%s", pkg, tname, f.Name())
	}
	return pkg + "." + f.Name()
}

// SSAFuncName names an SSA function (anon funcs as parent$n).
func SSAFuncName(fn *ssa.Function) string {
	if fn == nil {
		return "<nil>"
	}
	if fn.Parent() != nil {
		return SSAFuncName(fn.Parent()) + "$" + strings.TrimPrefix(fn.Name(), fn.Parent().Name()+"$")
	}
	if o, ok := fn.Object().(*types.Func); ok {
		return FuncName(o)
	}
	if fn.Pkg != nil {
		return short(fn.Pkg.Pkg.Path()) + "." + fn.Name()
	}
	return fn.String()
}
