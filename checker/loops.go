package main

import (
	"fmt"
	"go/token"

	"golang.org/x/tools/go/ssa"
)

// RangeLoop describes a `for ... range coll` loop as lowered by go/ssa.
type RangeLoop struct {
	Fn     *ssa.Function
	Header *ssa.BasicBlock // rangeindex.loop / rangeiter.loop
	Body   *ssa.BasicBlock
	Done   *ssa.BasicBlock
	Coll   ssa.Value // ranged collection (nil if it could not be identified)
	Index  ssa.Value // index / key value inside the body (may be nil)
	Elem   ssa.Value // element value inside the body (may be nil when unused)
	Kind   string    // "index" | "iter"
}

// RangeLoops finds every range loop of fn, and every walk over a slice written with an explicit
// ascending index (IndexForLoops), which is the same loop in another form.
func RangeLoops(fn *ssa.Function) []*RangeLoop {
	return append(rangeLoopsOnly(fn), IndexForLoops(fn)...)
}

func rangeLoopsOnly(fn *ssa.Function) []*RangeLoop {
	var out []*RangeLoop
	for _, b := range fn.Blocks {
		if len(b.Instrs) == 0 {
			continue
		}
		iff, ok := b.Instrs[len(b.Instrs)-1].(*ssa.If)
		if !ok {
			continue
		}
		switch b.Comment {
		case "rangeindex.loop":
			rl := &RangeLoop{Fn: fn, Header: b, Body: b.Succs[0], Done: b.Succs[1], Kind: "index"}
			// cond: inc < len(coll)
			if cmp, ok := iff.Cond.(*ssa.BinOp); ok && cmp.Op == token.LSS {
				rl.Index = cmp.X
				if lc, ok := cmp.Y.(*ssa.Call); ok {
					if bi, ok := lc.Call.Value.(*ssa.Builtin); ok && bi.Name() == "len" {
						rl.Coll = lc.Call.Args[0]
					}
				}
			}
			// element: load of &coll[index] anywhere in the loop (usually first body block)
			if rl.Index != nil {
				for _, r := range *rl.Index.Referrers() {
					if ia, ok := r.(*ssa.IndexAddr); ok && ia.Index == rl.Index && (rl.Coll == nil || ia.X == rl.Coll) {
						if rl.Coll == nil {
							rl.Coll = ia.X
						}
						for _, r2 := range *ia.Referrers() {
							if ld, ok := r2.(*ssa.UnOp); ok && ld.Op == token.MUL {
								rl.Elem = ld
							}
						}
					}
					if ix, ok := r.(*ssa.Index); ok && ix.Index == rl.Index && (rl.Coll == nil || ix.X == rl.Coll) {
						rl.Elem = ix
					}
				}
			}
			out = append(out, rl)
		case "rangeiter.loop":
			rl := &RangeLoop{Fn: fn, Header: b, Body: b.Succs[0], Done: b.Succs[1], Kind: "iter"}
			for _, in := range b.Instrs {
				if nx, ok := in.(*ssa.Next); ok {
					if rg, ok := nx.Iter.(*ssa.Range); ok {
						rl.Coll = rg.X
					}
					for _, r := range *nx.Referrers() {
						if ex, ok := r.(*ssa.Extract); ok {
							if ex.Index == 1 {
								rl.Index = ex
							}
							if ex.Index == 2 {
								rl.Elem = ex
							}
						}
					}
				}
			}
			out = append(out, rl)
		}
	}
	return out
}

// LoopOver returns the range loops of fn whose collection satisfies coll; when there is none,
// the `for i := k; i < len(coll); i++ { … coll[i] … }` loops over it (the same walk written with
// an index).
func LoopsOver(fn *ssa.Function, coll func(ssa.Value) bool) []*RangeLoop {
	var out []*RangeLoop
	for _, rl := range RangeLoops(fn) {
		if rl.Coll != nil && coll(rl.Coll) {
			out = append(out, rl)
		}
	}
	return out
}

// IndexForLoops finds the explicit ascending index walks `for i := k; i < len(x); i++` of fn in
// which x[i] is read: Coll is x, Index the loop variable, Elem the element read.
func IndexForLoops(fn *ssa.Function) []*RangeLoop {
	var out []*RangeLoop
	for _, rl := range ForLoops(fn) {
		iff := rl.Header.Instrs[len(rl.Header.Instrs)-1].(*ssa.If)
		cmp, ok := iff.Cond.(*ssa.BinOp)
		if !ok || cmp.Op != token.LSS || rl.Index == nil {
			continue
		}
		lc, ok := cmp.Y.(*ssa.Call)
		if !ok {
			continue
		}
		bi, ok := lc.Call.Value.(*ssa.Builtin)
		if !ok || bi.Name() != "len" {
			continue
		}
		x := lc.Call.Args[0]
		same := func(v ssa.Value) bool {
			if v == x || Strip(v) == Strip(x) {
				return true
			}
			// the slice re-read from the same place (no CSE in go/ssa): same field of the same base, or same local
			b1, f1, ok1 := FieldLoad(v)
			b2, f2, ok2 := FieldLoad(x)
			return ok1 && ok2 && f1 == f2 && Strip(b1) == Strip(b2)
		}
		// the step is +1
		phi, _ := rl.Index.(*ssa.Phi)
		stepOK := false
		if phi != nil {
			for _, e := range phi.Edges {
				if bo, ok := e.(*ssa.BinOp); ok && bo.Op == token.ADD && bo.X == ssa.Value(phi) && VConstInt(1)(bo.Y) {
					stepOK = true
				}
			}
		}
		if !stepOK || rl.Index.Referrers() == nil {
			continue
		}
		for _, r := range *rl.Index.Referrers() {
			if ia, ok := r.(*ssa.IndexAddr); ok && ia.Index == rl.Index && same(ia.X) && rl.Body.Dominates(ia.Block()) {
				rl.Coll = x
				if ia.Referrers() != nil {
					for _, r2 := range *ia.Referrers() {
						if ld, ok := r2.(*ssa.UnOp); ok && ld.Op == token.MUL {
							rl.Elem = ld
						}
					}
				}
			}
			if ix, ok := r.(*ssa.Index); ok && ix.Index == rl.Index && same(ix.X) {
				rl.Coll = x
				rl.Elem = ix
			}
		}
		if rl.Coll != nil {
			rl.Kind = "for-index"
			out = append(out, rl)
		}
	}
	return out
}

// LatchGated is engine L, obligation 1: starting at the loop body, the next
// iteration (an edge into the header) can only be reached across an edge
// establishing one of the gate atoms of every clause.
func (c *Ctx) LatchGated(construct string, rl *RangeLoop, clauses []Clause) bool {
	c.touch(rl.Fn)
	pos := rl.Header.Instrs[len(rl.Header.Instrs)-1].Pos()
	if !pos.IsValid() && len(rl.Body.Instrs) > 0 {
		pos = rl.Body.Instrs[0].Pos()
	}
	var gates []string
	for _, cl := range clauses {
		n := 0
		for _, a := range cl {
			n += CountAtomEdges(rl.Fn, a)
		}
		if n == 0 {
			c.Undecided(construct, pos, fmt.Sprintf("loop gate [%s] not recognised in %s", cl, SSAFuncName(rl.Fn)))
			return false
		}
		gate := AtomEdges(cl...)
		q := ReachQ{Fn: rl.Fn, From: &Loc{rl.Body, -1},
			CutEdge: func(b *ssa.BasicBlock, s int) bool {
				// leaving the loop (done block, or any block the header does not dominate:
				// `continue outer`, return) is not an advance of this loop
				return gate(b, s) || b.Succs[s] == rl.Done || !rl.Header.Dominates(b.Succs[s])
			},
			SinkEdge: func(b *ssa.BasicBlock, s int) bool { return b.Succs[s] == rl.Header },
		}
		r := q.Run()
		c.cur.Blocks += r.Blocks
		c.cur.Edges += r.Edges
		if r.Found {
			c.Violated(construct, pos, fmt.Sprintf("in %s the loop can advance to the next element without passing [%s]; path: %s", SSAFuncName(rl.Fn), cl, c.P.PathString(r.Path)))
			return false
		}
		gates = append(gates, cl.String())
	}
	c.Holds(construct, pos, "the loop only advances across: "+joinStr(gates, " ; "))
	return true
}

// ThroughLoop is engine L, obligation 2: the sink is reachable from the entry
// only by passing through the loop's normal exit (header -> done), i.e. the
// verdict after the loop cannot be reached by skipping or breaking out of it.
func (c *Ctx) ThroughLoop(construct string, rl *RangeLoop, sink FlowPoint) bool {
	c.touch(rl.Fn)
	cut := func(b *ssa.BasicBlock, s int) bool { return b == rl.Header && b.Succs[s] == rl.Done }
	q := ReachQ{Fn: rl.Fn, CutEdge: cut, Descend: true}
	if sink.Instr != nil {
		q.Sink = SinkIs(sink.Instr)
	} else {
		q.SinkEdge = func(b *ssa.BasicBlock, s int) bool { return b == sink.EdgeFrom && s == sink.EdgeSucc }
	}
	r := q.Run()
	c.cur.Blocks += r.Blocks
	c.cur.Edges += r.Edges
	if r.Found {
		c.Violated(construct, sink.Pos(), fmt.Sprintf("in %s the verdict at %s is reachable without exhausting the loop; path: %s", SSAFuncName(rl.Fn), c.P.Pos(sink.Pos()), c.P.PathString(r.Path)))
		return false
	}
	c.Holds(construct, sink.Pos(), "the verdict is only reachable through the loop's exhaustion exit")
	return true
}

// ForLoops finds the explicit `for init; cond; post {}` loops of fn as lowered by go/ssa
// (blocks commented for.loop / for.body / for.done); Index is the loop-carried value compared
// in the condition when it has that shape.
func ForLoops(fn *ssa.Function) []*RangeLoop {
	var out []*RangeLoop
	for _, b := range fn.Blocks {
		if b.Comment != "for.loop" || len(b.Instrs) == 0 || len(b.Succs) != 2 {
			continue
		}
		iff, ok := b.Instrs[len(b.Instrs)-1].(*ssa.If)
		if !ok {
			continue
		}
		rl := &RangeLoop{Fn: fn, Header: b, Body: b.Succs[0], Done: b.Succs[1], Kind: "for"}
		if cmp, ok := iff.Cond.(*ssa.BinOp); ok {
			if _, isPhi := cmp.X.(*ssa.Phi); isPhi {
				rl.Index = cmp.X
			}
		}
		out = append(out, rl)
	}
	return out
}

// LoopContaining returns the innermost loop (range or for) whose body dominates the block of in.
func LoopContaining(fn *ssa.Function, in ssa.Instruction) *RangeLoop {
	var best *RangeLoop
	for _, rl := range append(RangeLoops(fn), ForLoops(fn)...) {
		if rl.Body.Dominates(in.Block()) && (best == nil || best.Body.Dominates(rl.Header)) {
			best = rl
		}
	}
	return best
}

// SkipsOnlyAcross: within one iteration of rl, the next iteration can be reached without
// executing an instruction satisfying act only across an edge establishing one of the atoms;
// and the loop is never left early (break) except by returning.
func (c *Ctx) SkipsOnlyAcross(construct string, rl *RangeLoop, act func(ssa.Instruction) bool, actName string, skip Clause, allowBreak bool) bool {
	c.touch(rl.Fn)
	pos := rl.Body.Instrs[0].Pos()
	gate := AtomEdges(skip...)
	q := ReachQ{Fn: rl.Fn, From: &Loc{rl.Body, -1}, CutInstr: act,
		CutEdge:  func(b *ssa.BasicBlock, s int) bool { return gate(b, s) || b.Succs[s] == rl.Done },
		SinkEdge: func(b *ssa.BasicBlock, s int) bool { return b.Succs[s] == rl.Header }}
	r := q.Run()
	c.cur.Blocks += r.Blocks
	c.cur.Edges += r.Edges
	if r.Found {
		c.Violated(construct, pos, fmt.Sprintf("in %s an element can be passed over without %s and without [%s]; path: %s", SSAFuncName(rl.Fn), actName, skip, c.P.PathString(r.Path)))
		return false
	}
	if !allowBreak {
		q2 := ReachQ{Fn: rl.Fn, From: &Loc{rl.Body, -1},
			CutEdge:  func(b *ssa.BasicBlock, s int) bool { return b == rl.Header },
			SinkEdge: func(b *ssa.BasicBlock, s int) bool { return b != rl.Header && b.Succs[s] == rl.Done }}
		r2 := q2.Run()
		if r2.Found {
			c.Violated(construct, pos, fmt.Sprintf("in %s the loop can be left early (break) before every element was considered; path: %s", SSAFuncName(rl.Fn), c.P.PathString(r2.Path)))
			return false
		}
	}
	c.Holds(construct, pos, "every element either gets "+actName+" or is skipped across ["+skip.String()+"]; no early exit")
	return true
}
