package main

import (
	"fmt"
	"go/token"

	"golang.org/x/tools/go/ssa"
)

func init() {
	register(&Property{
		ID:          "C23",
		Roots:       []string{"osutil"},
		Technique:   "guarded-sink, ordering and loop rules on the SSA CFG of osutil.EnsureDirStateGlobs, EnsureTreeState, EnsureFileState and the file-state comparators; who-may-call of the write primitives",
		Explanation: "Structural necessary conditions for 'managed files are synchronised exactly and the directory fails closed': (R1) EnsureDirStateGlobs: when a write fails, the desired content and the changed list are cleared before the clean-up, the directory is globbed AFTER the write phase (so files written earlier in the same call are seen), and the clean-up then removes every matching file; (R2) a file is removed only if it came out of filepath.Glob(dir/glob) and is passed over only when it is desired content; removed/changed report only operations that succeeded; (R3) nothing is written before every desired name was validated (no path component, matches a glob); (R4) regular files are written through AtomicWrite and symlinks through AtomicSymlink, only when the comparator did not report equality, and the regular-file comparator reports equality only after comparing permissions, size and content; (R5) EnsureTreeState: on failure every known sub-directory (not only the desired ones) is cleaned with empty content, and nothing is written before validation.",
		NotDecided:  "what the security backends do with the changed/removed lists; races with other writers of the directory; the file system's own atomicity (C06).",
		Run:         func(c *Ctx) { runC23(c); runC23x(c); runC23z(c) },
	})
}

func runC23(c *Ctx) {
	P := c.P
	eds := P.Func("osutil.EnsureDirStateGlobs")
	efs := P.FuncObj("osutil.EnsureFileState")
	globObj := P.FuncObj("path/filepath.Glob")
	rmObj := P.FuncObj("os.Remove")
	gSame := P.Global("osutil.ErrSameState")

	isAppendTo := func(paramIdx int, fn *ssa.Function) func(ssa.Instruction) bool {
		// append whose first argument is (a phi web of) the named result at index paramIdx... results are
		// named (changed, removed): recognise by the value eventually returned
		return func(in ssa.Instruction) bool { return false }
	}
	_ = isAppendTo

	c.Rule("C23-R1", "G+O", "EnsureDirStateGlobs: a failed write clears content and changed; globbing follows the write phase; the clean-up then removes every match", 5)
	writes := CallSites(eds, efs)
	globs := P.CallsMatchingDeep(eds, ToFn(globObj)) // the listing may sit in a helper: its call site stands for it
	removes := CallSites(eds, rmObj)
	if len(writes) != 1 || len(globs) != 1 || len(removes) != 1 {
		c.Undecided("osutil.EnsureDirStateGlobs#shape", eds.Pos(), fmt.Sprintf("expected one EnsureFileState, one filepath.Glob and one os.Remove call, found %d/%d/%d", len(writes), len(globs), len(removes)))
		return
	}
	w, g, rm := writes[0], globs[0], removes[0]
	// write failure edge: err != nil && err != ErrSameState
	wErr := VRes(0, func(ci ssa.CallInstruction) bool { return ci == w })
	failed := []Atom{Not(ErrNil("EnsureFileState==nil", wErr)), Not(Cmp("err==ErrSameState", wErr, token.EQL, VGlobal(gSame)))}
	// the glob runs after the write loop: the write call is not reachable from the glob call
	r := ReachQ{Fn: eds, From: LocOf(g), Sink: SinkIs(w)}.Run()
	c.Check(!r.Found, "osutil.EnsureDirStateGlobs#glob-after-writes", g.Pos(), "the directory is listed after the write phase", "the managed files are listed before the write phase: files newly written in this call are invisible to the fail-closed clean-up and are left behind after a later write fails")
	// content cleared on failure: the `content[baseName] != nil` skip test in the removal loop reads a phi/cell that is nil on the failure path.
	// Checked structurally: from the failure edge, a store/phi assignment of nil to the content parameter's variable precedes the glob.
	contentParam := eds.Params[2]
	// content variable is either a cell (Alloc) or SSA phi; find the Lookup in the removal loop
	var skipLookup *ssa.Lookup
	for _, b := range eds.Blocks {
		for _, in := range b.Instrs {
			if lk, ok := in.(*ssa.Lookup); ok && !lk.CommaOk {
				if (ReachQ{Fn: eds, From: LocOf(g), Sink: SinkIs(lk)}).Run().Found {
					skipLookup = lk
				}
			}
		}
	}
	if skipLookup == nil {
		c.Undecided("osutil.EnsureDirStateGlobs#skip-test", eds.Pos(), "the content[baseName] test of the removal loop was not found")
	} else {
		// the map looked up: must be a phi with a nil edge coming from the failure branch, other edges the parameter
		okClear := false
		detail := "the map consulted by the removal loop is not cleared on the failure path"
		if phi, ok := stripNoCell(skipLookup.X).(*ssa.Phi); ok {
			hasNil, hasParam := false, false
			var leaves []FlowPoint
			phiLeaves(phi, skipLookup, &leaves, map[*ssa.Phi]bool{})
			for _, lf := range leaves {
				if IsNilConst(lf.Val) {
					hasNil = true
					// the nil edge is taken only after a failed write
					okBoth := true
					for _, a := range failed {
						if !c.tryFlow(eds, lf, Clause{a}) {
							okBoth = false
						}
					}
					if !okBoth {
						detail = "content is cleared on a path that is not a failed write"
						hasNil = false
					}
				} else if lf.Val == ssa.Value(contentParam) {
					hasParam = true
				}
			}
			okClear = hasNil && hasParam
		}
		c.Check(okClear, "osutil.EnsureDirStateGlobs#content-cleared-on-failure", skipLookup.Pos(), "after a failed write the removal loop consults an empty content map", detail+": files of a half-applied update would survive the clean-up")
		// and from the failure edge the removal loop cannot see the original content: no path failure-edge -> lookup with X resolving to the param
		// the skip: os.Remove skipped only across content[base] != nil
		desired := Not(Cmp("content[base]==nil", VIs(skipLookup), token.EQL, isNilVal))
		if rl := LoopContaining(eds, rm); rl == nil {
			c.Undecided("osutil.EnsureDirStateGlobs#removal-loop", rm.Pos(), "removal loop not found")
		} else {
			c.SkipsOnlyAcross("osutil.EnsureDirStateGlobs#removal-loop", rl, SinkIs(rm), "os.Remove(path)", Clause{desired}, false)
		}
	}
	// changed cleared on failure: the value returned as `changed` on a failure path is nil - checked via the first result's leaves:
	// every leaf that is an append(...) result flows only on non-failure paths
	nCh := 0
	for _, lf := range ReturnLeaves(eds, 0) {
		if ci, ok := lf.Val.(*ssa.Call); ok {
			if bi, ok := ci.Call.Value.(*ssa.Builtin); ok && bi.Name() == "append" {
				nCh++
				// appended only after a successful write (err == nil)
				c.Guarded(fmt.Sprintf("osutil.EnsureDirStateGlobs#changed-only-on-success#%d", nCh), eds, ci, []Clause{{ErrNil("EnsureFileState==nil", wErr)}}, nil)
			}
		}
	}
	// after a failure edge, the changed variable is reset: the return's first result must not be reachable carrying an append
	// from the failure edge without passing a nil assignment: approximated by requiring a nil leaf exists that is only taken on failure
	nilOnFail := false
	for _, lf := range ReturnLeaves(eds, 0) {
		if IsNilConst(lf.Val) && c.tryFlow(eds, lf, Clause{failed[0]}) {
			nilOnFail = true
		}
	}
	c.Check(nilOnFail, "osutil.EnsureDirStateGlobs#changed-cleared-on-failure", eds.Pos(), "changed is reset to nil on the failed-write path", "the changed list is not reset when a write fails: callers would reload profiles that were then removed")

	c.Rule("C23-R2", "G", "os.Remove only of paths returned by filepath.Glob(Join(dir, glob)); removed appended only after a successful removal", 3)
	// removed path = key of the matches map filled from Glob results
	okSrc := false
	// (when the listing was moved into a helper, g is the helper's call site, gReal the Glob call in gFn)
	gReal, gFn := g, eds
	if rcs, in := P.CallSitesDeep(eds, globObj); len(rcs) == 1 && in != eds {
		gReal, gFn = rcs[0], in
		c.touch(gFn)
		liftCtx = append(liftCtx, liftFrame{gFn, g})
		defer func() { liftCtx = liftCtx[:len(liftCtx)-1] }()
	}
	if rl := LoopContaining(eds, rm); rl != nil && rl.Coll != nil {
		// the ranged map is filled (MapUpdate) with elements of the Glob result
		filled := rl.Coll
		if gFn != eds && VRes(0, func(ci ssa.CallInstruction) bool { return ci == g })(rl.Coll) {
			// the map the helper returns
			for _, lf := range ReturnLeaves(gFn, 0) {
				if !IsNilConst(lf.Val) {
					filled = lf.Val
				}
			}
		}
		for _, b := range gFn.Blocks {
			for _, in := range b.Instrs {
				if mu, ok := in.(*ssa.MapUpdate); ok && Strip(mu.Map) == Strip(filled) {
					if l2 := LoopContaining(gFn, mu); l2 != nil && l2.Coll != nil && VRes(0, func(ci ssa.CallInstruction) bool { return ci == gReal })(l2.Coll) && VIs(l2.Elem)(mu.Key) {
						okSrc = true
					}
				}
			}
		}
		a := rm.Common().Args[0]
		okSrc = okSrc && (VIs(rl.Index)(a) || VIs(rl.Elem)(a))
	}
	c.Check(okSrc, "osutil.EnsureDirStateGlobs#removed-paths-from-glob", rm.Pos(), "only glob matches inside dir are removed", "os.Remove is applied to a path that does not come from filepath.Glob(filepath.Join(dir, glob))")
	// Glob argument is Join(dir, glob)
	joinObj := P.FuncObj("path/filepath.Join")
	okGlobArg := false
	if jc, _, ok := CallResult(gReal.Common().Args[0]); ok && ToFn(joinObj)(jc) {
		els := VarargElems(jc.Common().Args[0])
		okGlobArg = len(els) == 2 && IsParam(els[0], eds, 0)
	}
	c.Check(okGlobArg, "osutil.EnsureDirStateGlobs#glob-inside-dir", g.Pos(), "filepath.Glob(filepath.Join(dir, glob))", "the glob pattern is not anchored inside dir")
	nRm := 0
	for _, lf := range ReturnLeaves(eds, 1) {
		if ci, ok := lf.Val.(*ssa.Call); ok {
			if bi, ok := ci.Call.Value.(*ssa.Builtin); ok && bi.Name() == "append" {
				nRm++
				c.Guarded(fmt.Sprintf("osutil.EnsureDirStateGlobs#removed-only-on-success#%d", nRm), eds, ci, []Clause{{NilRes("os.Remove ok", 0, ToFn(rmObj))}}, nil)
			}
		}
	}
	if nRm == 0 {
		c.Undecided("osutil.EnsureDirStateGlobs#removed-appends", eds.Pos(), "append to removed not found")
	}

	c.Rule("C23-R3", "L", "nothing is written before every desired name was validated", 2)
	matchAny := P.FuncObj("osutil.matchAny")
	var valLoop *RangeLoop
	for _, rl := range RangeLoops(eds) {
		if rl.Coll != nil && IsParam(rl.Coll, eds, 2) && !rl.Body.Dominates(w.Block()) {
			valLoop = rl
		}
	}
	if valLoop == nil {
		c.Violated("osutil.EnsureDirStateGlobs#validation-loop", eds.Pos(), "the validation loop over the desired names is gone")
	} else {
		c.ThroughLoop("osutil.EnsureDirStateGlobs#write-after-validation", valLoop, FlowPoint{Instr: w})
		baseObj := P.FuncObj("path/filepath.Base")
		c.LatchGated("osutil.EnsureDirStateGlobs#validation", valLoop, []Clause{
			{Not(Cmp("filepath.Base(name)!=name", VRes(0, ToFn(baseObj)), token.NEQ, anyVal))},
			{TrueRes("matchAny(globs, name)", true, 0, ToFn(matchAny))},
		})
	}

	c.Rule("C23-R4", "W+G", "regular files via AtomicWrite, symlinks via AtomicSymlink, only when not already equal; the regular comparator compares mode, size and content", 5)
	erf := P.Func("osutil.ensureRegularFileState")
	esl := P.Func("osutil.ensureSymlinkFileState")
	aw := P.FuncObj("osutil.AtomicWrite")
	as := P.FuncObj("osutil.AtomicSymlink")
	eqR := P.FuncObj("osutil.regularFileStateEqualTo")
	eqS := P.FuncObj("osutil.symlinkFileStateEqualTo")
	for _, x := range []struct {
		fn  *ssa.Function
		wr  interface{ Name() string }
		cmp interface{ Name() string }
	}{{erf, aw, eqR}, {esl, as, eqS}} {
		wrObj := P.FuncObj("osutil." + x.wr.Name())
		cmpObj := P.FuncObj("osutil." + x.cmp.Name())
		ws := CallSites(x.fn, wrObj)
		c.Check(len(ws) == 1, SSAFuncName(x.fn)+"#writes-via-"+x.wr.Name(), x.fn.Pos(), "one atomic write", fmt.Sprintf("expected one %s call, found %d", x.wr.Name(), len(ws)))
		for i, wc := range ws {
			c.Guarded(fmt.Sprintf("%s#write<=not-equal#%d", SSAFuncName(x.fn), i+1), x.fn, wc, []Clause{{TrueRes("!equal", false, 0, ToFn(cmpObj))}, {NilRes("comparator ok", 1, ToFn(cmpObj))}}, nil)
		}
		// ErrSameState only when equal
		for i, lf := range ReturnLeaves(x.fn, 0) {
			if VGlobal(gSame)(lf.Val) {
				c.GuardedFlow(fmt.Sprintf("%s#same-state<=equal#%d", SSAFuncName(x.fn), i+1), x.fn, lf, []Clause{{TrueRes("equal", true, 0, ToFn(cmpObj))}}, nil)
			}
		}
	}
	// the regular comparator: `true` only from streamsEqualChunked after mode and size agreed
	rq := P.Func("osutil.regularFileStateEqualTo")
	permObj := P.FuncObj("io/fs.FileMode.Perm")
	streams := P.FuncObj("osutil.streamsEqualChunked")
	samePerm := Not(Cmp("modeA.Perm()!=modeB.Perm()", VRes(0, ToFn(permObj)), token.NEQ, VRes(0, ToFn(permObj))))
	stateObj := P.FuncObj("osutil.FileState.State")
	fileRefState := P.FuncObj("osutil.(*FileReference).State")
	isSize := VRes(1, AnyCall(ToFn(stateObj), ToFn(fileRefState)))
	sameSize := Not(Cmp("sizeA!=sizeB", isSize, token.NEQ, isSize))
	nTrue := 0
	for i, lf := range ReturnLeaves(rq, 0) {
		if v, ok := ConstBool(lf.Val); ok && !v {
			continue
		}
		nTrue++
		c.Check(VRes(0, ToFn(streams))(lf.Val), fmt.Sprintf("osutil.regularFileStateEqualTo#equal-verdict-source#%d", i+1), lf.Pos(), "equality is the verdict of the content comparison", "regularFileStateEqualTo reports equality without comparing the content")
		c.GuardedFlow(fmt.Sprintf("osutil.regularFileStateEqualTo#equal<=same-perm#%d", i+1), rq, lf, []Clause{{samePerm}}, nil)
		c.GuardedFlow(fmt.Sprintf("osutil.regularFileStateEqualTo#equal<=same-size#%d", i+1), rq, lf, []Clause{{sameSize}}, nil)
	}
	if nTrue == 0 {
		c.Undecided("osutil.regularFileStateEqualTo#equal-verdict", rq.Pos(), "no non-false result found")
	}

	c.Rule("C23-R5", "L", "EnsureTreeState: on failure every known sub-directory is cleaned with empty content", 2)
	ets := P.Func("osutil.EnsureTreeState")
	edsObj := P.FuncObj("osutil.EnsureDirStateGlobs")
	var cleanCalls []ssa.CallInstruction
	for _, cc := range CallSites(ets, edsObj) {
		if IsNilConst(cc.Common().Args[2]) {
			cleanCalls = append(cleanCalls, cc)
		}
	}
	// the erase phase as a private helper of EnsureTreeState (eraseTreeGlobs(baseDir, globs, subdirs, …)):
	// decided inside the helper, whose subdirs parameter must be handed the map the write loop walks
	if len(cleanCalls) == 0 {
		for _, hc := range localCalls(ets) {
			var hclean []ssa.CallInstruction
			for _, cc := range CallSites(hc.h, edsObj) {
				if IsNilConst(cc.Common().Args[2]) {
					hclean = append(hclean, cc)
				}
			}
			if len(hclean) != 1 || hc.cc.Parent() != ets {
				continue
			}
			c.touch(hc.h)
			c.Holds("osutil.EnsureTreeState#cleanup-call", hclean[0].Pos(), "the clean-up call EnsureDirStateGlobs(path, globs, nil) sits in "+hc.h.Name())
			hrl := LoopContaining(hc.h, hclean[0])
			okAll := false
			if hrl != nil && hrl.Coll != nil {
				for j, hp := range hc.h.Params {
					if Strip(hrl.Coll) != ssa.Value(hp) && hrl.Coll != ssa.Value(hp) {
						continue
					}
					arg := hc.cc.Common().Args[j]
					for _, wc := range CallSites(ets, edsObj) {
						if wl := LoopContaining(ets, wc); wl != nil && wl.Coll != nil && Strip(wl.Coll) == Strip(arg) {
							okAll = true
						}
					}
					if IsParam(arg, ets, 2) {
						okAll = false
					}
				}
			}
			c.Check(okAll, "osutil.EnsureTreeState#cleanup-covers-all-subdirs", hclean[0].Pos(), "the clean-up walks every known sub-directory", "after a failure EnsureTreeState cleans only the desired directories (or a different set than the one it wrote): stale managed files in other existing sub-directories survive")
			goto treeDone
		}
	}
	if len(cleanCalls) != 1 {
		c.Undecided("osutil.EnsureTreeState#cleanup-call", ets.Pos(), fmt.Sprintf("expected one EnsureDirStateGlobs(path, globs, nil) clean-up call, found %d", len(cleanCalls)))
	} else {
		cc := cleanCalls[0]
		rl := LoopContaining(ets, cc)
		// the map walked by the clean-up loop is the same one the write loop walks (all known sub-directories), not the desired content
		okAll := false
		if rl != nil && rl.Coll != nil {
			writeSites := CallSites(ets, edsObj)
			// the per-directory write may sit in a local closure or private helper called from the write loop
			for _, h := range P.HelpersOf(ets) {
				if len(CallSites(h, edsObj)) == 0 {
					continue
				}
				for _, b := range ets.Blocks {
					for _, in := range b.Instrs {
						if wcall, ok := in.(ssa.CallInstruction); ok && wcall.Common().StaticCallee() == h {
							writeSites = append(writeSites, wcall)
						}
					}
				}
			}
			for _, wc := range writeSites {
				if wc == cc {
					continue
				}
				if wl := LoopContaining(ets, wc); wl != nil && wl.Coll != nil && Strip(wl.Coll) == Strip(rl.Coll) {
					okAll = true
				}
			}
			if IsParam(rl.Coll, ets, 2) {
				okAll = false
			}
		}
		c.Check(okAll, "osutil.EnsureTreeState#cleanup-covers-all-subdirs", cc.Pos(), "the clean-up walks every known sub-directory", "after a failure EnsureTreeState cleans only the desired directories (or a different set than the one it wrote): stale managed files in other existing sub-directories survive")
		if rl != nil {
			isDir := TrueRes("!IsDirectory(path)", false, 0, ToFn(P.FuncObj("osutil.IsDirectory")))
			c.SkipsOnlyAcross("osutil.EnsureTreeState#cleanup-loop", rl, SinkIs(cc), "EnsureDirStateGlobs(path, globs, nil)", Clause{isDir}, false)
		}
	}
treeDone:
}
