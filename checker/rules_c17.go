package main

import (
	"fmt"
	"go/token"
	"go/types"

	"golang.org/x/tools/go/ssa"
)

func init() {
	register(&Property{
		ID:          "C17",
		Roots:       []string{"boot", "bootloader"},
		Technique:   "ordering (must-pass-through) on bootStateUpdate20.commit; closure-context who-may-call for the bootloader-side kernel operations (which commit phase a closure is registered for); guarded-sink reachability on the try-status selection of the UC20 kernel/base and UC16 boot states and on selectSuccessfulBootSnap",
		Explanation: "Structural necessary conditions for 'kernel/base updates can always fall back' (the boot protocol itself - bootloader, initramfs, crash between two variable writes - is a model-checking question and is not decided): (R1) bootStateUpdate20.commit runs, under the modeenv lock, the pre-modeenv tasks, then writes the modeenv, then reseals, then runs the post-modeenv tasks; a failing step stops the sequence; (R2) the bootloader-side 'set next kernel' operations run only in closures registered as post-modeenv tasks (the modeenv must trust the new kernel first) and 'mark kernel successful' only in a pre-modeenv task (the bootloader must stop falling back before the old kernel leaves the modeenv); (R3) UC20 kernel setNext selects the try status only when a reboot is required and this is not an undo, keeps the old kernel in CurrentKernels (append) unless undoing; kernel markSuccessful reduces CurrentKernels to the booted kernel only together with the pre-modeenv mark-successful task; base setNext always writes BaseStatus (also when the base is already current, so a stale try is cleared) and sets TryBase only on the try path; (R4) selectSuccessfulBootSnap picks the try snap only in status trying with a try snap present, otherwise the current snap; (R5) UC16: the good variable (snap_kernel/snap_core) is committed only by markSuccessful in status trying with a try snap, or by setNext when booting without try; setNext otherwise only writes snap_mode and the try variable; (R6) MarkBootSuccessful commits once, after every participating markSuccessful succeeded.",
		NotDecided:  "the boot protocol end to end (firmware/initramfs transitions, grub.cfg, a crash between two bootloader variable writes); resealing; gadget assets.",
		Run:         func(c *Ctx) { runC17(c); runC17x(c); runC17z(c); runC17y(c) },
	})
}

func runC17(c *Ctx) {
	P := c.P

	c.Rule("C17-R1", "O", "bootStateUpdate20.commit: lock check, pre-modeenv tasks, modeenv write, reseal, post-modeenv tasks, each step stopping on error", 5)
	commit := P.Func("boot.(*bootStateUpdate20).commit")
	fPre := P.Field("boot.bootStateUpdate20.preModeenvTasks")
	fPost := P.Field("boot.bootStateUpdate20.postModeenvTasks")
	writeObj := P.FuncObj("boot.(*Modeenv).Write")
	var preLoop, postLoop *RangeLoop
	for _, rl := range RangeLoops(commit) {
		if rl.Coll != nil && IsFieldLoad(rl.Coll, fPre) {
			preLoop = rl
		}
		if rl.Coll != nil && IsFieldLoad(rl.Coll, fPost) {
			postLoop = rl
		}
	}
	writes := CallSites(commit, writeObj)
	reseal := CallsMatching(commit, AnyCall(ViaGlobal(P.Global("boot.resealKeyToModeenv")), func(ci ssa.CallInstruction) bool {
		co := CalleeOf(ci)
		return co != nil && co.Name() == "resealKeyToModeenv"
	}))
	// the two task loops written once, as a private helper called with the pre and the post list
	var preCall, postCall ssa.CallInstruction
	if preLoop == nil && postLoop == nil && len(writes) == 1 && len(reseal) == 1 {
		for _, hc := range localCalls(commit) {
			_ = hc
		}
		for _, b := range commit.Blocks {
			for _, in := range b.Instrs {
				cc, ok := in.(ssa.CallInstruction)
				if !ok {
					continue
				}
				h := cc.Common().StaticCallee()
				if h == nil || h.Pkg != commit.Pkg || len(h.Blocks) == 0 || len(cc.Common().Args) != 1 || len(h.Params) != 1 {
					continue
				}
				if IsFieldLoad(cc.Common().Args[0], fPre) {
					preCall = cc
				}
				if IsFieldLoad(cc.Common().Args[0], fPost) {
					postCall = cc
				}
			}
		}
	}
	if preCall != nil && postCall != nil && preCall.Common().StaticCallee() == postCall.Common().StaticCallee() {
		h := preCall.Common().StaticCallee()
		c.touch(h)
		w, rs := writes[0], reseal[0]
		hl := LoopsOver(h, VParam(h, 0))
		if len(hl) != 1 {
			c.Undecided("boot.(*bootStateUpdate20).commit#shape", h.Pos(), fmt.Sprintf("the task helper %s does not walk its argument in one loop", h.Name()))
		} else {
			taskOK := NilRes("t()==nil", 0, DynCallOf(VIs(hl[0].Elem)))
			c.LatchGated("boot.(*bootStateUpdate20).commit#pre-task-failure-stops", hl[0], []Clause{{taskOK}})
			c.LatchGated("boot.(*bootStateUpdate20).commit#post-task-failure-stops", hl[0], []Clause{{taskOK}})
			nn := 0
			for _, lf := range ReturnLeaves(h, -1) {
				if IsNilConst(lf.Val) {
					nn++
					c.ThroughLoop(fmt.Sprintf("boot.(*bootStateUpdate20).commit#tasks-all-run-before-success#%d", nn), hl[0], lf)
				}
			}
			only := func(x ssa.CallInstruction) CallM { return func(ci ssa.CallInstruction) bool { return ci == x } }
			c.Guarded("boot.(*bootStateUpdate20).commit#pre-tasks-before-write", commit, w, []Clause{{NilRes(h.Name()+"(pre) ok", 0, only(preCall))}}, nil)
			c.Guarded("boot.(*bootStateUpdate20).commit#post-tasks<=reseal-ok", commit, postCall, []Clause{{NilRes("resealKeyToModeenv ok", 0, only(rs))}}, nil)
			deepEq := P.FuncObj("boot.(*Modeenv).deepEqual")
			c.Guarded("boot.(*bootStateUpdate20).commit#post-tasks<=write-ok-or-unchanged", commit, postCall, []Clause{{NilRes("writeModeenv.Write ok", 0, ToFn(writeObj)), TrueRes("writeModeenv.deepEqual(modeenv)", true, 0, ToFn(deepEq))}}, nil)
			rq := ReachQ{Fn: commit, From: LocOf(rs), Sink: SinkIs(w)}
			c.Check(!rq.Run().Found, "boot.(*bootStateUpdate20).commit#write-before-reseal", rs.Pos(), "the modeenv is written before resealing", "resealing can precede the modeenv write")
			c.CheckErrPropagated("boot.(*bootStateUpdate20).commit#post-task-error-returned", commit, postCall, 0, h.Name()+"(post)")
		}
		fWM := P.Field("boot.bootStateUpdate20.writeModeenv")
		c.Check(IsFieldLoad(CallRecv(w), fWM), "boot.(*bootStateUpdate20).commit#writes-writeModeenv", w.Pos(), "u20.writeModeenv.Write()", "commit writes something other than u20.writeModeenv")
		locked := TrueRes("isModeeenvLocked()", true, 0, ToFn(P.FuncObj("boot.isModeeenvLocked")))
		c.Guarded("boot.(*bootStateUpdate20).commit#under-lock", commit, w, []Clause{{locked}}, nil)
	} else if preLoop == nil || postLoop == nil || len(writes) != 1 || len(reseal) != 1 {
		c.Undecided("boot.(*bootStateUpdate20).commit#shape", commit.Pos(), fmt.Sprintf("expected loops over pre/post tasks, one modeenv write and one reseal (found pre=%v post=%v writes=%d reseals=%d)", preLoop != nil, postLoop != nil, len(writes), len(reseal)))
	} else {
		w, rs := writes[0], reseal[0]
		taskCall := func(rl *RangeLoop) ssa.CallInstruction {
			for _, ci := range CallsMatching(commit, DynCallOf(VIs(rl.Elem))) {
				return ci
			}
			return nil
		}
		pc, qc := taskCall(preLoop), taskCall(postLoop)
		if pc == nil || qc == nil {
			c.Undecided("boot.(*bootStateUpdate20).commit#task-calls", commit.Pos(), "the task invocations t() were not found in the loops")
		} else {
			// modeenv write only after the pre loop is exhausted, with every task ok
			c.ThroughLoop("boot.(*bootStateUpdate20).commit#pre-tasks-before-write", preLoop, FlowPoint{Instr: w})
			c.LatchGated("boot.(*bootStateUpdate20).commit#pre-task-failure-stops", preLoop, []Clause{{NilRes("t()==nil", 0, DynCallOf(VIs(preLoop.Elem)))}})
			// post tasks only after write (when needed) and reseal succeeded
			c.Guarded("boot.(*bootStateUpdate20).commit#post-tasks<=reseal-ok", commit, qc, []Clause{{NilRes("resealKeyToModeenv ok", 0, func(ci ssa.CallInstruction) bool { return ci == rs })}}, nil)
			deepEq := P.FuncObj("boot.(*Modeenv).deepEqual")
			c.Guarded("boot.(*bootStateUpdate20).commit#post-tasks<=write-ok-or-unchanged", commit, qc, []Clause{{NilRes("writeModeenv.Write ok", 0, ToFn(writeObj)), TrueRes("writeModeenv.deepEqual(modeenv)", true, 0, ToFn(deepEq))}}, nil)
			// reseal after the write
			rq := ReachQ{Fn: commit, From: LocOf(rs), Sink: SinkIs(w)}
			c.Check(!rq.Run().Found, "boot.(*bootStateUpdate20).commit#write-before-reseal", rs.Pos(), "the modeenv is written before resealing", "resealing can precede the modeenv write")
			c.LatchGated("boot.(*bootStateUpdate20).commit#post-task-failure-stops", postLoop, []Clause{{NilRes("t()==nil", 0, DynCallOf(VIs(postLoop.Elem)))}})
		}
		// what is written is writeModeenv
		fWM := P.Field("boot.bootStateUpdate20.writeModeenv")
		c.Check(IsFieldLoad(CallRecv(w), fWM), "boot.(*bootStateUpdate20).commit#writes-writeModeenv", w.Pos(), "u20.writeModeenv.Write()", "commit writes something other than u20.writeModeenv")
		locked := TrueRes("isModeeenvLocked()", true, 0, ToFn(P.FuncObj("boot.isModeeenvLocked")))
		c.Guarded("boot.(*bootStateUpdate20).commit#under-lock", commit, w, []Clause{{locked}}, nil)
	}

	c.Rule("C17-R2", "W-context", "bootloader kernel operations by commit phase: setNextKernel/setNextKernelNoTry only in post-modeenv closures, markSuccessfulKernel only in a pre-modeenv closure", 3)
	preObj := P.FuncObj("boot.(*bootStateUpdate20).preModeenv")
	postObj := P.FuncObj("boot.(*bootStateUpdate20).postModeenv")
	iface := "boot.bootloaderKernelState20."
	phaseOf := func(cl *ssa.Function) string {
		// the closure value flows (directly or through a phi/local) into preModeenv/postModeenv
		par := cl.Parent()
		if par == nil {
			return "none(not a closure)"
		}
		phases := map[string]bool{}
		for _, b := range par.Blocks {
			for _, in := range b.Instrs {
				for _, reg := range []struct {
					o *types.Func
					n string
				}{{preObj, "pre"}, {postObj, "post"}} {
					ci, ok := IsCallTo(in, reg.o)
					if !ok {
						continue
					}
					arg := CallArgs(ci)[0]
					if closureFlowsTo(arg, cl) {
						phases[reg.n] = true
					}
				}
			}
		}
		switch {
		case phases["pre"] && phases["post"]:
			return "both"
		case phases["pre"]:
			return "pre"
		case phases["post"]:
			return "post"
		}
		return "none"
	}
	want := map[string]string{"setNextKernel": "post", "setNextKernelNoTry": "post", "markSuccessfulKernel": "pre"}
	nSites := 0
	for _, fn := range P.FuncsIn("boot") {
		for m, phase := range want {
			for _, cs := range CallSites(fn, P.FuncObj(iface+m)) {
				// implementations forwarding to each other (envRef/extract kernel states) are not sites of the protocol
				if fn.Signature.Recv() != nil && fn.Parent() == nil {
					if _, isImpl := map[string]bool{"setNextKernel": true, "setNextKernelNoTry": true, "markSuccessfulKernel": true}[fn.Name()]; isImpl {
						continue
					}
				}
				nSites++
				got := phaseOf(fn)
				c.touch(fn)
				c.Check(got == phase, fmt.Sprintf("%s#%s-phase", SSAFuncName(fn), m), cs.Pos(), m+" runs as a "+phase+"-modeenv task", fmt.Sprintf("bks.%s is called in %s, which is registered as %q-modeenv task; it must be a %s-modeenv task (otherwise a crash between the two leaves the bootloader and the modeenv disagreeing with no fallback the initramfs trusts)", m, SSAFuncName(fn), got, phase))
			}
		}
	}
	if nSites < 3 {
		c.Undecided("boot#kernel-op-sites", token.NoPos, fmt.Sprintf("expected call sites of setNextKernel, setNextKernelNoTry and markSuccessfulKernel, found %d", nSites))
	}

	c.Rule("C17-R3", "G", "UC20 setNext/markSuccessful: try status only when rebooting and not undoing; old kernel kept unless undoing; CurrentKernels reduced only with the pre-modeenv task; base status always written", 6)
	kSetNext := P.Func("boot.(*bootState20Kernel).setNext")
	fRebootReq := P.Field("boot.RebootInfo.RebootRequired")
	fNoTry := P.Field("boot.NextBootContext.BootWithoutTry")
	fCurK := P.Field("boot.Modeenv.CurrentKernels")
	kTry := P.Const("boot.TryStatus")
	noTry := Atom{Name: "bootCtx.BootWithoutTry", Match: func(cd Cond) Pol { return cd.BoolIs(VField(fNoTry)) }}
	reboot := Atom{Name: "rbi.RebootRequired", Match: func(cd Cond) Pol {
		return cd.BoolIs(VOr(VField(fRebootReq), VRes(1, ToFn(P.FuncObj("boot.genericSetNext")))))
	}}
	// the status handed to setNextKernel: phi with TryStatus edge only under reboot && !noTry
	for _, cl := range kSetNext.AnonFuncs {
		for _, cs := range CallSites(cl, P.FuncObj(iface+"setNextKernel")) {
			st := CallArgs(cs)[1]
			// the status is a variable of setNext captured by the closure: look at what setNext stores into it
			n := 0
			if cell := freeVarCell(st, cl, kSetNext); cell != nil {
				for _, r := range *cell.Referrers() {
					s2, ok := r.(*ssa.Store)
					if !ok || s2.Addr != ssa.Value(cell) || !VConstObj(kTry)(s2.Val) {
						continue
					}
					n++
					c.Guarded(fmt.Sprintf("boot.(*bootState20Kernel).setNext#try-status#%d", n), kSetNext, s2, []Clause{{reboot}, {Not(noTry)}}, nil)
				}
			} else if bound := resolveFreeVar(st, cl, kSetNext); bound != nil {
				leaves := []FlowPoint{}
				phiLeaves(bound, cs, &leaves, map[*ssa.Phi]bool{})
				for _, lf := range leaves {
					if VConstObj(kTry)(lf.Val) {
						n++
						c.GuardedFlow(fmt.Sprintf("boot.(*bootState20Kernel).setNext#try-status#%d", n), kSetNext, lf, []Clause{{reboot}, {Not(noTry)}}, nil)
					}
				}
			}
			if n == 0 {
				c.Violated("boot.(*bootState20Kernel).setNext#try-status", cs.Pos(), "the status given to setNextKernel is never TryStatus: a new kernel would be booted without a fallback")
			}
		}
	}
	// CurrentKernels: append (old kept) unless BootWithoutTry
	nCK := 0
	for _, st := range kSetNextStores(kSetNext, fCurK) {
		nCK++
		if isAppendOf(st.Val, fCurK) {
			c.Holds(fmt.Sprintf("boot.(*bootState20Kernel).setNext#current-kernels#%d", nCK), st.Pos(), "appends the new kernel to the trusted ones")
			continue
		}
		c.Guarded(fmt.Sprintf("boot.(*bootState20Kernel).setNext#current-kernels#%d", nCK), kSetNext, st, []Clause{{noTry}}, nil)
	}
	if nCK == 0 {
		c.Undecided("boot.(*bootState20Kernel).setNext#current-kernels", kSetNext.Pos(), "no store to writeModeenv.CurrentKernels found")
	}
	// kernel markSuccessful: the reduction comes with the pre-modeenv registration
	kMark := P.Func("boot.(*bootState20Kernel).markSuccessful")
	for i, st := range kSetNextStores(kMark, fCurK) {
		c.Before(fmt.Sprintf("boot.(*bootState20Kernel).markSuccessful#reduce-with-pre-task#%d", i+1), kMark, SinkCall(preObj), "u20.preModeenv(markSuccessfulKernel)", st, nil)
	}
	// base setNext: BaseStatus written on every success path; TryBase=next only on the try path
	bSetNext := P.Func("boot.(*bootState20Base).setNext")
	fBaseStatus := P.Field("boot.Modeenv.BaseStatus")
	fTryBase := P.Field("boot.Modeenv.TryBase")
	isStatusStore := func(in ssa.Instruction) bool {
		st, ok := in.(*ssa.Store)
		if !ok {
			return false
		}
		fa, ok := st.Addr.(*ssa.FieldAddr)
		return ok && fieldOfAddr(fa) == fBaseStatus
	}
	rq := ReachQ{Fn: bSetNext, CutInstr: isStatusStore, Sink: IsSuccessReturn}
	r := rq.Run()
	c.Check(!r.Found, "boot.(*bootState20Base).setNext#status-always-written", bSetNext.Pos(), "every successful return wrote BaseStatus", "bootState20Base.setNext can succeed without writing BaseStatus (e.g. when the base is already current): a stale base_status=try from an earlier, undone request survives and the next boot tries - and then commits - the undone base: "+P.PathString(r.Path))
	for i, st := range StoresToField(bSetNext, fBaseStatus) {
		var leaves []FlowPoint
		phiLeaves(st.Val, st, &leaves, map[*ssa.Phi]bool{})
		for j, lf := range leaves {
			if VConstObj(kTry)(lf.Val) {
				c.GuardedFlow(fmt.Sprintf("boot.(*bootState20Base).setNext#try-status#%d.%d", i+1, j+1), bSetNext, lf, []Clause{{reboot}, {Not(noTry)}}, nil)
			}
		}
	}
	for i, st := range StoresToField(bSetNext, fTryBase) {
		if s, ok := ConstString(st.Val); ok && s == "" {
			continue
		}
		c.Guarded(fmt.Sprintf("boot.(*bootState20Base).setNext#try-base#%d", i+1), bSetNext, st, []Clause{{reboot}, {Not(noTry)}}, nil)
	}

	c.Rule("C17-R4", "G", "selectSuccessfulBootSnap: the try snap only in status trying with a try snap present; otherwise the current snap", 2)
	sel := P.Func("boot.selectSuccessfulBootSnap")
	revs := P.FuncObj("boot.bootState20.revisionsFromModeenv")
	kTrying := P.Const("boot.TryingStatus")
	trying := Cmp("status==TryingStatus", VRes(2, ToFn(revs)), token.EQL, VConstObj(kTrying))
	hasTry := Cmp("trySnap!=nil", VRes(1, ToFn(revs)), token.NEQ, isNilVal)
	nSel := 0
	for i, lf := range ReturnLeaves(sel, 1) {
		switch {
		case VRes(1, ToFn(revs))(lf.Val):
			nSel++
			c.GuardedFlow(fmt.Sprintf("boot.selectSuccessfulBootSnap#try-snap#%d", i+1), sel, lf, []Clause{{trying}, {hasTry}}, nil)
		case VRes(0, ToFn(revs))(lf.Val):
			nSel++
			c.Holds(fmt.Sprintf("boot.selectSuccessfulBootSnap#current-snap#%d", i+1), lf.Pos(), "the current snap")
		case IsNilConst(lf.Val):
		default:
			c.Violated(fmt.Sprintf("boot.selectSuccessfulBootSnap#result#%d", i+1), lf.Pos(), "selectSuccessfulBootSnap returns a snap that is neither the current nor the try snap reported by the boot state")
		}
	}
	if nSel < 2 {
		c.Undecided("boot.selectSuccessfulBootSnap#results", sel.Pos(), "expected the try-snap and the current-snap results")
	}

	c.Rule("C17-R5", "G", "UC16: the good variable is committed only by markSuccessful (status trying, try snap set) or setNext without try", 2)
	m16 := P.Func("boot.(*bootState16).markSuccessful")
	s16 := P.Func("boot.(*bootState16).setNext")
	// stores into the toCommit map keyed by the good variable: Sprintf("snap_%s", suffix) or a non-try, non-mode key
	goodKeyStores := func(fn *ssa.Function) []*ssa.MapUpdate {
		var out []*ssa.MapUpdate
		for _, b := range fn.Blocks {
			for _, in := range b.Instrs {
				mu, ok := in.(*ssa.MapUpdate)
				if !ok {
					continue
				}
				if s, isC := ConstString(mu.Key); isC && (s == "snap_mode" || s == "snap_try_core" || s == "snap_try_kernel") {
					continue
				}
				if cc, _, ok := CallResult(mu.Key); ok {
					if co := CalleeOf(cc); co != nil && co.Name() == "Sprintf" {
						if f, isC := ConstString(cc.Common().Args[0]); isC {
							if f == "snap_try_%s" {
								continue
							}
							if f == "snap_%s" {
								out = append(out, mu)
								continue
							}
						}
					}
				}
			}
		}
		return out
	}
	gm := goodKeyStores(m16)
	if len(gm) == 0 {
		c.Undecided("boot.(*bootState16).markSuccessful#good-var", m16.Pos(), "the commit of snap_<type> was not recognised")
	}
	for i, mu := range gm {
		c.Guarded(fmt.Sprintf("boot.(*bootState16).markSuccessful#good-var<=trying#%d", i+1), m16, mu, []Clause{{Cmp(`env["snap_mode"]==TryingStatus`, anyVal, token.EQL, VConstObj(kTrying))}}, nil)
		c.Guarded(fmt.Sprintf("boot.(*bootState16).markSuccessful#good-var<=try-set#%d", i+1), m16, mu, []Clause{{Not(Cmp(`env[tryVar]==""`, anyVal, token.EQL, VConstStr("")))}}, nil)
	}
	for i, mu := range goodKeyStores(s16) {
		c.Guarded(fmt.Sprintf("boot.(*bootState16).setNext#good-var<=no-try#%d", i+1), s16, mu, []Clause{{noTry}}, nil)
	}

	c.Rule("C17-R6", "G", "MarkBootSuccessful: one commit, after every participating markSuccessful succeeded", 1)
	mbs := P.Func("boot.MarkBootSuccessful")
	commitI := P.FuncObj("boot.bootStateUpdate.commit")
	markI := P.FuncObj("boot.successfulBootState.markSuccessful")
	cs := CallSites(mbs, commitI)
	if len(cs) != 1 {
		c.Undecided("boot.MarkBootSuccessful#commit", mbs.Pos(), fmt.Sprintf("expected one commit call, found %d", len(cs)))
	} else {
		// no path from a failed markSuccessful to commit
		okAll := true
		path := ""
		for _, mc := range CallSites(mbs, markI) {
			failed := Not(NilRes("markSuccessful ok", 1, func(ci ssa.CallInstruction) bool { return ci == mc }))
			for _, b := range mbs.Blocks {
				for si := range b.Succs {
					if AtomEdges(failed)(b, si) {
						if r := (ReachQ{Fn: mbs, From: &Loc{b.Succs[si], -1}, Sink: SinkIs(cs[0])}).Run(); r.Found {
							okAll = false
							path = P.PathString(r.Path)
						}
					}
				}
			}
		}
		c.Check(okAll && len(CallSites(mbs, markI)) > 0, "boot.MarkBootSuccessful#commit-after-all-ok", cs[0].Pos(), "commit only after every markSuccessful returned nil", "MarkBootSuccessful can commit after a markSuccessful failed: "+path)
	}
}

// closureFlowsTo: v is (a phi / local cell holding) a closure made from fn.
func closureFlowsTo(v ssa.Value, fn *ssa.Function) bool {
	seen := map[ssa.Value]bool{}
	var rec func(v ssa.Value, d int) bool
	rec = func(v ssa.Value, d int) bool {
		if v == nil || d > 8 || seen[v] {
			return false
		}
		seen[v] = true
		switch x := v.(type) {
		case *ssa.MakeClosure:
			return x.Fn == ssa.Value(fn)
		case *ssa.ChangeType:
			return rec(x.X, d+1)
		case *ssa.Phi:
			for _, e := range x.Edges {
				if rec(e, d+1) {
					return true
				}
			}
		case *ssa.UnOp:
			if al, ok := x.X.(*ssa.Alloc); ok && al.Referrers() != nil {
				for _, r := range *al.Referrers() {
					if st, ok := r.(*ssa.Store); ok && st.Addr == ssa.Value(al) && rec(st.Val, d+1) {
						return true
					}
				}
			}
		}
		return false
	}
	return rec(v, 0)
}

// resolveFreeVar: the value bound (in parent) to the free variable that v loads in closure cl.
func resolveFreeVar(v ssa.Value, cl, parent *ssa.Function) ssa.Value {
	var fv *ssa.FreeVar
	switch x := v.(type) {
	case *ssa.FreeVar:
		fv = x
	case *ssa.UnOp:
		fv, _ = x.X.(*ssa.FreeVar)
	}
	if fv == nil {
		return nil
	}
	idx := -1
	for i, f := range cl.FreeVars {
		if f == fv {
			idx = i
		}
	}
	if idx < 0 {
		return nil
	}
	for _, b := range parent.Blocks {
		for _, in := range b.Instrs {
			if mc, ok := in.(*ssa.MakeClosure); ok && mc.Fn == ssa.Value(cl) {
				bnd := mc.Bindings[idx]
				if al, ok := bnd.(*ssa.Alloc); ok {
					// captured by reference: the values stored into the cell
					var last ssa.Value
					n := 0
					for _, r := range *al.Referrers() {
						if st, ok := r.(*ssa.Store); ok && st.Addr == ssa.Value(al) {
							last = st.Val
							n++
						}
					}
					if n == 1 {
						return last
					}
					// several stores: build nothing, let the caller see the cell's stores through a pseudo phi
					return cellAsPhi(al)
				}
				return bnd
			}
		}
	}
	return nil
}

// freeVarCell: the local cell of parent that closure cl captures by reference and v loads.
func freeVarCell(v ssa.Value, cl, parent *ssa.Function) *ssa.Alloc {
	u, ok := v.(*ssa.UnOp)
	if !ok {
		return nil
	}
	fv, ok := u.X.(*ssa.FreeVar)
	if !ok {
		return nil
	}
	for i, f := range cl.FreeVars {
		if f != fv {
			continue
		}
		for _, b := range parent.Blocks {
			for _, in := range b.Instrs {
				if mc, ok := in.(*ssa.MakeClosure); ok && mc.Fn == ssa.Value(cl) {
					al, _ := mc.Bindings[i].(*ssa.Alloc)
					return al
				}
			}
		}
	}
	return nil
}

// cellAsPhi returns the single stored value or nil; multi-store cells are handled by callers via StoresToCell.
func cellAsPhi(al *ssa.Alloc) ssa.Value {
	return nil
}

func kSetNextStores(fn *ssa.Function, f *types.Var) []*ssa.Store { return StoresToField(fn, f) }

// isAppendOf: v is append(<load of field f>, ...).
func isAppendOf(v ssa.Value, f *types.Var) bool {
	ci, ok := v.(*ssa.Call)
	if !ok {
		return false
	}
	bi, ok := ci.Call.Value.(*ssa.Builtin)
	return ok && bi.Name() == "append" && IsFieldLoad(ci.Call.Args[0], f)
}
