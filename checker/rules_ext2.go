package main

// Rules added after the second round of seeded changes (DESIGN.md section 12.3): each
// was written because a change that breaks the property was not reported, and each states
// a structural fact that holds on every path of today's tree.

import (
	"fmt"
	"go/constant"
	"go/token"
	"go/types"
	"strings"

	"golang.org/x/tools/go/ssa"
)

// runClosure returns the completion closure of TaskRunner.run (the function passed to tomb.Go).
func runClosure(P *Prog) *ssa.Function {
	run := P.Func("overlord/state.(*TaskRunner).run")
	var best *ssa.Function
	setStatus := P.FuncObj("overlord/state.(*Task).SetStatus")
	for _, af := range run.AnonFuncs {
		if len(CallSites(af, setStatus)) > 0 {
			best = af
		}
	}
	return best
}

func runC02x(c *Ctx) {
	P := c.P
	c.Rule("C02-R7", "G", "run's completion closure: a handler's Retry{After: d}, d != 0, always reschedules the task with t.At (whatever the direction), unless the task was aborted meanwhile", 1)
	cl := runClosure(P)
	if cl == nil {
		c.Undecided("overlord/state.(*TaskRunner).run#completion-closure", token.NoPos, "completion closure not found")
		return
	}
	atObj := P.FuncObj("overlord/state.(*Task).At")
	statusObj := P.FuncObj("overlord/state.(*Task).Status")
	retryT := types.NewPointer(P.NamedType("overlord/state.Retry"))
	fAfter := P.Field("overlord/state.Retry.After")
	isRetry := TypeIs("err.(*Retry)", anyVal, retryT)
	noDelay := Cmp("x.After==0", VField(fAfter), token.EQL, VConstInt(0))
	aborted := Cmp("t.Status()==AbortStatus", VRes(0, ToFn(statusObj)), token.EQL, VConstObj(P.Const("overlord/state.AbortStatus")))
	found := 0
	for _, b := range cl.Blocks {
		for si := range b.Succs {
			if !AtomEdges(isRetry)(b, si) {
				continue
			}
			// only the second type switch (the one that acts on the value) leads to t.At
			if !(ReachQ{Fn: cl, From: &Loc{b.Succs[si], -1}, Sink: SinkCall(atObj)}).Run().Found {
				continue
			}
			found++
			r := ReachQ{Fn: cl, From: &Loc{b.Succs[si], -1}, CutInstr: func(in ssa.Instruction) bool { _, ok := IsCallTo(in, atObj); return ok },
				CutEdge: OrCutEdges(AtomEdges(noDelay, aborted), AtomEdges(Not(isRetry))),
				Sink:    func(in ssa.Instruction) bool { _, ok := in.(*ssa.Return); return ok }}.Run()
			c.Check(!r.Found, fmt.Sprintf("overlord/state.(*TaskRunner).run#retry-delay-honoured#%d", found), b.Instrs[len(b.Instrs)-1].Pos(), "Retry{After!=0} => t.At(now+After) unless aborted", "a handler's request to be retried after a delay can be dropped (the task is re-run at the next ensure pass instead): "+P.PathString(r.Path))
		}
	}
	if found == 0 {
		c.Undecided("overlord/state.(*TaskRunner).run#retry-delay-honoured", cl.Pos(), "the *Retry branch leading to t.At was not found")
	}
}

func runC03x(c *Ctx) {
	P := c.P
	c.Rule("C03-R8", "O+W", "a task set to Error always gets an ERROR log entry (Change.Err is built from those); taskEffectiveStatus looks through Wait unconditionally; only the task-status path decides that a change became ready", 5)
	cl := runClosure(P)
	setStatus := P.FuncObj("overlord/state.(*Task).SetStatus")
	errorf := P.FuncObj("overlord/state.(*Task).Errorf")
	errConst := P.Const("overlord/state.ErrorStatus")
	if cl == nil {
		c.Undecided("overlord/state.(*TaskRunner).run#completion-closure", token.NoPos, "completion closure not found")
	} else {
		n := 0
		for _, cc := range CallSites(cl, setStatus) {
			if !VConstObj(errConst)(cc.Common().Args[1]) {
				continue
			}
			n++
			r := ReachQ{Fn: cl, From: LocOf(cc), CutInstr: func(in ssa.Instruction) bool { _, ok := IsCallTo(in, errorf); return ok },
				Sink: func(in ssa.Instruction) bool { _, ok := in.(*ssa.Return); return ok }}.Run()
			c.Check(!r.Found, fmt.Sprintf("overlord/state.(*TaskRunner).run#error-status-has-error-log#%d", n), cc.Pos(), "SetStatus(ErrorStatus) is followed by t.Errorf on every path", "a task can end in Error without an ERROR log entry: Change.Err() then omits it (or reports an internal inconsistency): "+P.PathString(r.Path))
		}
		if n == 0 {
			c.Undecided("overlord/state.(*TaskRunner).run#error-status-has-error-log", cl.Pos(), "SetStatus(ErrorStatus) not found in the completion closure")
		}
	}
	// taskEffectiveStatus
	tes := P.Func("overlord/state.taskEffectiveStatus")
	statusObj := P.FuncObj("overlord/state.(*Task).Status")
	waited := P.FuncObj("overlord/state.(*Task).WaitedStatus")
	isWait := Cmp("status==WaitStatus", VRes(0, ToFn(statusObj)), token.EQL, VConstObj(P.Const("overlord/state.WaitStatus")))
	sawWaited := false
	for i, lf := range ReturnLeaves(tes, 0) {
		key := fmt.Sprintf("overlord/state.taskEffectiveStatus#result#%d", i+1)
		switch {
		case VRes(0, ToFn(waited))(lf.Val):
			sawWaited = true
			c.GuardedFlow(key+"-waited", tes, lf, []Clause{{isWait}}, nil)
		case VRes(0, ToFn(statusObj))(lf.Val):
			c.GuardedFlow(key+"-own<=not-waiting", tes, lf, []Clause{{Not(isWait)}}, nil)
		default:
			c.Violated(key, lf.Pos(), "taskEffectiveStatus yields something other than the task's status or its waited status")
		}
	}
	c.Check(sawWaited, "overlord/state.taskEffectiveStatus#looks-through-wait", tes.Pos(), "Wait => WaitedStatus()", "taskEffectiveStatus no longer looks through WaitStatus")
	// who decides readiness
	allowed := map[string]map[string]string{
		"detectChangeReady": {"overlord/state.(*Change).taskStatusChanged": "a task went from unready to ready or back"},
		"markReady": {"overlord/state.(*Change).detectChangeReady": "every task is ready",
			"overlord/state.(*Change).SetStatus": "explicit ready status set on the change"},
	}
	for name, who := range allowed {
		obj := P.FuncObj("overlord/state.(*Change)." + name)
		for _, u := range P.UsesOf(obj) {
			caller := "?"
			if u.Fn != nil {
				caller = SSAFuncName(u.Fn)
			}
			_, ok := who[caller]
			c.Check(ok && u.AsCall, "overlord/state.(*Change)."+name+"#caller:"+caller, u.Instr.Pos(), "called from "+caller+" ("+who[caller]+")", name+" is called from "+caller+": readiness (and with it the ready time that pruning uses) must only follow from task status changes")
		}
	}
}

func runC05x(c *Ctx) {
	P := c.P
	c.Rule("C05-R6", "S", "what the reader validates the writer validates: Warning.validate (run on every warning at load) reads only fields that AddWarning has set when it validates a new warning", 3)
	val := P.Func("overlord/state.(*Warning).validate")
	valObj := P.FuncObj("overlord/state.(*Warning).validate")
	aw := P.Func("overlord/state.(*State).AddWarning")
	calls := CallSites(aw, valObj)
	if len(calls) != 1 {
		c.Undecided("overlord/state.(*State).AddWarning#validates", aw.Pos(), fmt.Sprintf("expected one validate() call, found %d", len(calls)))
		return
	}
	// fields set before the validate call
	set := map[*types.Var]bool{}
	for _, b := range aw.Blocks {
		for _, in := range b.Instrs {
			st, ok := in.(*ssa.Store)
			if !ok {
				continue
			}
			fa, ok := st.Addr.(*ssa.FieldAddr)
			if !ok {
				continue
			}
			if !(ReachQ{Fn: aw, From: LocOf(st), Sink: SinkIs(calls[0])}).Run().Found {
				continue
			}
			set[fieldOfAddr(fa)] = true
		}
	}
	n := 0
	seen := map[*types.Var]bool{}
	for _, b := range val.Blocks {
		for _, in := range b.Instrs {
			fa, ok := in.(*ssa.FieldAddr)
			if !ok || !VParam(val, 0)(fa.X) {
				continue
			}
			f := fieldOfAddr(fa)
			if seen[f] {
				continue
			}
			seen[f] = true
			n++
			c.Check(set[f], "overlord/state.(*Warning).validate#field:"+f.Name(), fa.Pos(), "set by AddWarning before it validates", "Warning.validate constrains field "+f.Name()+", which AddWarning has not set when it validates a new warning (and may overwrite later without validating): a state that was written can be refused when it is read back")
		}
	}
	if n == 0 {
		c.Undecided("overlord/state.(*Warning).validate#fields", val.Pos(), "validate reads no field")
	}
}

func runC06x(c *Ctx) {
	P := c.P
	c.Rule("C06-R7", "W+S", "every state.Backend implementation checkpoints through osutil.AtomicWriteFile (temporary name, fsync, rename, directory fsync) and never opens the destination itself", 2)
	atomicWrite := P.FuncObj("osutil.AtomicWriteFile")
	bad := map[string]bool{"os.OpenFile": true, "os.Create": true, "os.WriteFile": true, "io/ioutil.WriteFile": true, "os.Rename": true, "os.Remove": true, "os.RemoveAll": true}
	n := 0
	for _, fn := range P.AllFuncs() {
		if fn.Name() != "Checkpoint" || fn.Signature.Recv() == nil || fn.Signature.Params().Len() != 1 || fn.Signature.Results().Len() != 1 {
			continue
		}
		if fn.Pkg == nil || strings.HasSuffix(fn.Pkg.Pkg.Path(), "/overlord/state") && fn.Signature.Recv().Type().String() == "" {
			continue
		}
		if sl, ok := fn.Signature.Params().At(0).Type().(*types.Slice); !ok || !types.Identical(sl.Elem(), types.Typ[types.Byte]) {
			continue
		}
		name := SSAFuncName(fn)
		c.touch(fn)
		touchesFiles := false
		for _, b := range fn.Blocks {
			for _, in := range b.Instrs {
				if cc, ok := in.(ssa.CallInstruction); ok {
					if co := CalleeOf(cc); co != nil && co.Pkg() != nil {
						switch pp := co.Pkg().Path(); {
						case pp == "os", pp == "io/ioutil", strings.HasSuffix(pp, "/osutil"):
							touchesFiles = true
						}
					}
				}
			}
		}
		if !touchesFiles {
			c.Holds(name+"#keeps-nothing-on-disk", fn.Pos(), "in-memory backend (no call into os, io/ioutil or osutil)")
			continue
		}
		n++
		viaAF := len(CallSites(fn, P.FuncObj("osutil.NewAtomicFile"))) > 0 && len(CallSites(fn, P.FuncObj("osutil.(*AtomicFile).Commit"))) > 0
		c.Check(len(CallSites(fn, atomicWrite)) > 0 || viaAF, name+"#atomic-write", fn.Pos(), "writes through osutil.AtomicWriteFile (or an AtomicFile it commits)", name+" does not write the checkpoint through osutil.AtomicWriteFile")
		var direct []string
		for _, b := range fn.Blocks {
			for _, in := range b.Instrs {
				if cc, ok := in.(ssa.CallInstruction); ok {
					if co := CalleeOf(cc); co != nil && bad[co.FullName()] {
						direct = append(direct, co.FullName())
					}
				}
			}
		}
		c.Check(len(direct) == 0, name+"#no-direct-open", fn.Pos(), "the destination is never opened, moved or removed", fmt.Sprintf("%s opens, moves or removes the destination itself (%v): between that and the atomic write there is no complete checkpoint under the final name", name, direct))
	}
	if n < 2 {
		c.Undecided("state.Backend#implementations", token.NoPos, fmt.Sprintf("expected the overlord backend and the CopyState backend, found %d Checkpoint implementations", n))
	}
}

func runC09x(c *Ctx) {
	P := c.P
	c.Rule("C09-R5", "W", "a change's ready time is stamped only by markReady, and markReady is reached only from task status changes or an explicit Change.SetStatus (C03-R8): adding tasks never makes a change ready", 2)
	fReady := P.Field("overlord/state.Change.readyTime")
	allowed := map[string]string{
		"overlord/state.(*Change).markReady":     "the only stamp",
		"overlord/state.(*Change).UnmarshalJSON": "reads the persisted value",
	}
	n := 0
	for _, st := range P.FieldStores(fReady) {
		name := SSAFuncName(st.Parent())
		n++
		c.touch(st.Parent())
		_, ok := allowed[name]
		c.Check(ok, "field:Change.readyTime#writer:"+name, st.Pos(), allowed[name], "the ready time is stored by "+name)
	}
	if n == 0 {
		c.Undecided("field:Change.readyTime#writers", token.NoPos, "no store to Change.readyTime found")
	}
	addTask := P.Func("overlord/state.(*Change).AddTask")
	c.touch(addTask)
	reaches := len(callsDeep(addTask, P.FuncObj("overlord/state.(*Change).markReady"))) > 0
	c.Check(!reaches, "overlord/state.(*Change).AddTask#does-not-mark-ready", addTask.Pos(), "AddTask never reaches markReady", "Change.AddTask can mark the change ready: a change built from an already finished task first and unfinished tasks afterwards carries a stale ready time and is pruned while unfinished")
}

func runC11x(c *Ctx) {
	P := c.P
	pkg := "overlord/snapstate"
	c.Rule("C11-R5", "O+W", "a handler that has changed snapst.Active but not yet written the state does not hand that snapst to a helper that writes it (the recorded state would say inactive/active while the system still is the other); new local revisions are numbered from LocalRevision(), the minimum over the whole sequence", 4)
	fActive := P.Field(pkg + ".SnapState.Active")
	setObj := P.FuncObj(pkg + ".Set")
	n := 0
	for _, st := range P.FieldStores(fActive) {
		fn := st.Parent()
		if fn.Pkg == nil || !strings.HasSuffix(fn.Pkg.Pkg.Path(), "/"+pkg) || len(CallSites(fn, setObj)) == 0 {
			continue
		}
		fa, ok := st.Addr.(*ssa.FieldAddr)
		if !ok {
			continue
		}
		snapst := Strip(fa.X)
		n++
		name := SSAFuncName(fn)
		c.touch(fn)
		bad := ""
		for _, b := range fn.Blocks {
			for _, in := range b.Instrs {
				cc, ok := in.(ssa.CallInstruction)
				if !ok {
					continue
				}
				if _, isSet := IsCallTo(cc, setObj); isSet {
					continue
				}
				passes := false
				for _, a := range cc.Common().Args {
					if Strip(a) == snapst {
						passes = true
					}
				}
				if !passes {
					continue
				}
				callee := StaticFn(cc)
				if callee == nil || len(callsDeep(callee, setObj)) == 0 {
					continue
				}
				// between the store and the handler's own Set?
				if (ReachQ{Fn: fn, From: LocOf(st), CutInstr: func(x ssa.Instruction) bool { _, is := IsCallTo(x, setObj); return is }, Sink: SinkIs(cc)}).Run().Found {
					bad = SSAFuncName(callee) + " at " + P.Pos(cc.Pos())
				}
			}
		}
		c.Check(bad == "", fmt.Sprintf("%s#uncommitted-active-not-persisted-by-helper#%d", name, n), st.Pos(), "no state-writing helper sees the snapst between the Active change and the handler's own Set", name+" changes snapst.Active and then passes that snapst to "+bad+", which can write it to the state before the backend effect happened: on its error path the snap is recorded with the new Active value while the system still has the old one")
	}
	if n == 0 {
		c.Undecided(pkg+"#active-stores", token.NoPos, "no handler storing SnapState.Active found")
	}
	// local revision numbering
	dp := P.Func(pkg + ".(*SnapManager).doPrepareSnap")
	localRev := P.FuncObj(pkg + ".(*SnapState).LocalRevision")
	fRev := P.Field("snap.SideInfo.Revision")
	sts := StoresToField(dp, fRev)
	if len(sts) == 0 {
		c.Undecided(pkg+".(*SnapManager).doPrepareSnap#local-revision", dp.Pos(), "no store of the new local revision found")
	}
	for i, st := range sts {
		c.Check(c.revisionFrom(st.Val, localRev), fmt.Sprintf("%s.(*SnapManager).doPrepareSnap#local-revision-from-LocalRevision#%d", pkg, i+1), st.Pos(), "numbered below snapst.LocalRevision()", "the revision given to a locally installed snap is not derived from snapst.LocalRevision() (the lowest local revision in the whole sequence): after a revert a kept local revision number is handed out again")
	}
}

// revisionFrom: the stored revision value is (a cell that was initialised from) a call of obj.
func (c *Ctx) revisionFrom(v ssa.Value, obj *types.Func) bool {
	if DependsOnCall(v, obj, func([]ssa.Value) bool { return true }) {
		return true
	}
	// revision := snapst.LocalRevision(); revision.N-- ; ... = revision  (a struct cell)
	if u, ok := Strip(v).(*ssa.UnOp); ok && u.Op == token.MUL {
		if al, ok := u.X.(*ssa.Alloc); ok && al.Referrers() != nil {
			for _, r := range *al.Referrers() {
				if st, ok := r.(*ssa.Store); ok && st.Addr == ssa.Value(al) {
					if DependsOnCall(st.Val, obj, func([]ssa.Value) bool { return true }) {
						return true
					}
				}
			}
		}
	}
	return false
}

func runC12x(c *Ctx) {
	P := c.P
	pkg := "overlord/snapstate"
	c.Rule("C12-R6", "G+W", "inUseFor hands doInstall the verdict of boot.InUse unchanged: its error is returned, and the checker returned is boot.InUse's own (never a stand-in that answers false)", 2)
	iuf := P.Func(pkg + ".inUseFor")
	inUse := P.FuncObj("boot.InUse")
	n := 0
	for _, af := range iuf.AnonFuncs {
		for _, cc := range CallSites(af, inUse) {
			n++
			c.CheckErrPropagated(fmt.Sprintf("%s.inUseFor#boot.InUse-error-returned#%d", pkg, n), af, cc, 1, "boot.InUse")
			okRes := true
			for _, lf := range ReturnLeaves(af, 0) {
				if IsNilConst(lf.Val) || VRes(0, ToFn(inUse))(lf.Val) {
					continue
				}
				okRes = false
			}
			c.Check(okRes, fmt.Sprintf("%s.inUseFor#checker-is-boot.InUse's#%d", pkg, n), cc.Pos(), "the in-use checker is the one boot.InUse returned", "inUseFor can return an in-use checker that is not boot.InUse's: revisions needed for booting would be garbage collected")
		}
	}
	if n == 0 {
		c.Undecided(pkg+".inUseFor#boot.InUse", iuf.Pos(), "boot.InUse call not found")
	}
}

func runC13x(c *Ctx) {
	P := c.P
	pkg := "overlord/snapstate"
	c.Rule("C13-R6", "G", "collectCurrentSnapsAndActions: when everything is refreshed, the revisions blocked by a revert are sent for every snap an action is created for - the Block assignment depends on nothing but the refresh-all flag", 1)
	fn := P.Func(pkg + ".collectCurrentSnapsAndActions")
	fBlock := P.Field("store.CurrentSnap.Block")
	blockObj := P.FuncObj(pkg + ".(*SnapState).Block")
	n := 0
	for _, af := range append([]*ssa.Function{fn}, fn.AnonFuncs...) {
		for _, st := range StoresToField(af, fBlock) {
			n++
			c.touch(af)
			key := fmt.Sprintf("%s.collectCurrentSnapsAndActions#block-sent#%d", pkg, n)
			c.Check(VRes(0, ToFn(blockObj))(st.Val), key+"-value", st.Pos(), "installed.Block = snapst.Block()", "the blocked revisions sent to the store are not snapst.Block()")
			// the action being recorded: the map update of actionsByUserID in the same function
			var rec ssa.Instruction
			for _, b := range af.Blocks {
				for _, in := range b.Instrs {
					if mu, ok := in.(*ssa.MapUpdate); ok {
						if _, isSl := mu.Value.Type().Underlying().(*types.Slice); isSl {
							rec = mu
						}
					}
				}
			}
			if rec == nil {
				c.Undecided(key+"-action-recorded", af.Pos(), "the place where the action is recorded was not found")
				continue
			}
			// conditions that decide whether the Block store runs but not whether the action is recorded
			var own []string
			recCtl := map[*ssa.BasicBlock]bool{}
			for _, b := range controllingIfs(af, rec.Block()) {
				recCtl[b] = true
			}
			for _, b := range controllingIfs(af, st.Block()) {
				if recCtl[b] {
					continue
				}
				cd := Decompose(b.Instrs[len(b.Instrs)-1].(*ssa.If).Cond)
				isFlag := false
				if cd.Val != nil {
					if u, ok := cd.Val.(*ssa.UnOp); ok {
						_, isFlag = u.X.(*ssa.FreeVar)
					}
					if _, ok := cd.Val.(*ssa.FreeVar); ok {
						isFlag = true
					}
					if _, ok := cd.Val.(*ssa.Parameter); ok {
						isFlag = true
					}
				}
				if !isFlag {
					own = append(own, P.Pos(b.Instrs[len(b.Instrs)-1].Pos()))
				}
			}
			c.Check(len(own) == 0, key+"-only-under-refresh-all", st.Pos(), "guarded by the refresh-all flag alone", fmt.Sprintf("whether the blocked revisions are sent also depends on the condition(s) at %v: a snap can get a refresh action in a refresh-all run without its reverted-from revisions being blocked", own))
		}
	}
	if n == 0 {
		c.Undecided(pkg+".collectCurrentSnapsAndActions#block-sent", fn.Pos(), "the assignment of CurrentSnap.Block was not found")
	}
}

// runC03y: the rule behind known finding F10.
func runC03y(c *Ctx) {
	P := c.P
	c.Rule("C03-R9", "O", "Change.abortTasks: once a pending task has been put on Hold (a ready status) no other task of the same pass goes from a ready status back to an unready one (Done->Undo): in between the change can be seen - and irrevocably marked - ready", 1)
	at := P.Func("overlord/state.(*Change).abortTasks")
	setStatus := P.FuncObj("overlord/state.(*Task).SetStatus")
	var holds, unreadies []ssa.CallInstruction
	for _, cc := range CallSites(at, setStatus) {
		switch {
		case VConstObj(P.Const("overlord/state.HoldStatus"))(cc.Common().Args[1]):
			holds = append(holds, cc)
		case VConstObj(P.Const("overlord/state.UndoStatus"))(cc.Common().Args[1]):
			unreadies = append(unreadies, cc)
		}
	}
	if len(holds) == 0 || len(unreadies) == 0 {
		c.Undecided("overlord/state.(*Change).abortTasks#ready-then-unready-in-one-pass", at.Pos(), "the Do->Hold and Done->Undo transitions were not found")
		return
	}
	bad := ""
	for _, h := range holds {
		for _, u := range unreadies {
			if r := (ReachQ{Fn: at, From: LocOf(h), Sink: SinkIs(u)}).Run(); r.Found {
				bad = P.Pos(h.Pos()) + " -> " + P.Pos(u.Pos())
			}
		}
	}
	c.Check(bad == "", "overlord/state.(*Change).abortTasks#ready-then-unready-in-one-pass", holds[0].Pos(), "every Done->Undo of a pass precedes its Do->Hold transitions", "abortTasks can put a pending task on Hold and afterwards move another task from Done back to Undo ("+bad+"): if those are the only unready tasks the change is marked ready at the first step and detectChangeReady panics ('unexpectedly became unready') at the second")
}

// runC10y: the rule behind finding F9.
func runC10y(c *Ctx) {
	P := c.P
	pkg := "overlord/snapstate"
	c.Rule("C10-R9", "G", "finishTaskWithMaybeRestart: when no restart is requested the final status is still recorded before returning, so that it is committed together with the handler's state write (outside preseeding, which never resumes a half-run change)", 1)
	fn := P.Func(pkg + ".(*SnapManager).finishTaskWithMaybeRestart")
	setStatus := P.FuncObj("overlord/state.(*Task).SetStatus")
	fPreseed := P.Field(pkg + ".SnapManager.preseed")
	preseed := Atom{Name: "m.preseed", Match: func(cd Cond) Pol { return cd.BoolIs(VField(fPreseed)) }}
	n := 0
	for _, lf := range ReturnLeaves(fn, 0) {
		if !IsNilConst(lf.Val) {
			continue
		}
		n++
		key := fmt.Sprintf("%s.(*SnapManager).finishTaskWithMaybeRestart#plain-success-records-status#%d", pkg, n)
		var r ReachResult
		q := ReachQ{Fn: fn, CutEdge: AtomEdges(preseed), CutInstr: func(in ssa.Instruction) bool { _, ok := IsCallTo(in, setStatus); return ok }}
		if lf.Instr != nil {
			q.Sink = SinkIs(lf.Instr)
		} else {
			from, succ := lf.EdgeFrom, lf.EdgeSucc
			q.SinkEdge = func(b *ssa.BasicBlock, s int) bool { return b == from && s == succ }
		}
		r = q.Run()
		c.Check(!r.Found, key, lf.Pos(), "SetStatus(status) precedes the plain `return nil`", "finishTaskWithMaybeRestart can return success without a restart and without recording the final status: link-snap then commits the new snap state while still Doing, and a snapd stopped before the task runner marks it Done runs doLinkSnap again on the already-updated state (old-current and friends are overwritten, a later undo 'restores' the new revision): "+P.PathString(r.Path))
	}
	if n == 0 {
		c.Undecided(pkg+".(*SnapManager).finishTaskWithMaybeRestart#plain-success", fn.Pos(), "no plain `return nil` found")
	}
}

func runC21x(c *Ctx) {
	P := c.P
	c.Rule("C21-R6", "G", "snap-type constraints: only the os and snapd types are spelled \"core\"; $SLOT()/$PLUG() attribute constraints hold only for deeply equal values", 3)
	cst := P.Func("interfaces/policy.checkSnapType")
	typeObj := P.FuncObj("snap.(*Info).Type")
	isType := VRes(0, ToFn(typeObj))
	isOS := Cmp("type==os", isType, token.EQL, VConstObj(P.Const("snap.TypeOS")))
	isSnapd := Cmp("type==snapd", isType, token.EQL, VConstObj(P.Const("snap.TypeSnapd")))
	// the value compared with the listed types
	var cmpVal ssa.Value
	for _, rl := range LoopsOver(cst, VParam(cst, 1)) {
		for _, b := range cst.Blocks {
			if rl.Body == nil || !rl.Body.Dominates(b) {
				continue
			}
			for _, in := range b.Instrs {
				if bo, ok := in.(*ssa.BinOp); ok && bo.Op == token.EQL {
					if Strip(bo.X) == Strip(rl.Elem) {
						cmpVal = bo.Y
					} else if Strip(bo.Y) == Strip(rl.Elem) {
						cmpVal = bo.X
					}
				}
			}
		}
	}
	if cmpVal == nil {
		c.Undecided("interfaces/policy.checkSnapType#compared-value", cst.Pos(), "the comparison of the snap's type with the listed types was not found")
	} else {
		var leaves []FlowPoint
		phiLeaves(cmpVal, nil, &leaves, map[*ssa.Phi]bool{})
		for i, lf := range leaves {
			key := fmt.Sprintf("interfaces/policy.checkSnapType#type-name#%d", i+1)
			if s, ok := ConstString(lf.Val); ok {
				c.Check(s == "core", key+"-literal", lf.Pos(), "\"core\"", fmt.Sprintf("unexpected literal %q", s))
				if lf.EdgeFrom != nil {
					c.GuardedFlow(key+"-core<=os|snapd", cst, lf, []Clause{{isOS, isSnapd}}, nil)
				} else {
					c.Violated(key+"-core<=os|snapd", lf.Pos(), "every snap type is spelled \"core\"")
				}
				continue
			}
			c.Check(DependsOn(lf.Val, isType) || isType(Strip(lf.Val)) || func() bool {
				cv, ok := Strip(lf.Val).(*ssa.Convert)
				return ok && isType(cv.X)
			}(), key+"-own-name", lf.Pos(), "the snap's own type name", "the name compared with the listed snap types is neither the snap's type nor \"core\"")
		}
	}
	m := P.Func("asserts.evalAttrMatcher.match")
	deepEqual := P.FuncObj("reflect.DeepEqual")
	eq := TrueRes("reflect.DeepEqual(v, v1)", true, 0, CallWhere(ToFn(deepEqual), 0, func(v ssa.Value) bool { return ResolvesToParam(v, m, 2) || VParam(m, 2)(v) }))
	n := 0
	for _, r := range ReturnsOf(m) {
		if IsSuccessReturn(r) {
			n++
			c.Guarded(fmt.Sprintf("asserts.evalAttrMatcher.match#accepts<=deep-equal#%d", n), m, r, []Clause{{eq}}, nil)
		}
	}
	if n == 0 {
		c.Undecided("asserts.evalAttrMatcher.match#accepts", m.Pos(), "no accepting return found")
	}
}

func runC17x(c *Ctx) {
	P := c.P
	pkg := "boot"
	c.Rule("C17-R7", "G", "the try kernel is (re)pointed whenever the kernel asked for differs from the current one, whatever the boot status already says; a failed modeenv write always fails its caller", 5)
	snk := P.Func(pkg + ".(*extractedRunKernelImageBootloaderKernelState).setNextKernel")
	enable := P.TryObj("bootloader.ExtractedRunKernelImageBootloader.EnableTryKernel")
	filename := P.TryObj("snap.PlaceInfo.Filename")
	isEnable := func(in ssa.Instruction) bool {
		cc, ok := in.(ssa.CallInstruction)
		if !ok {
			return false
		}
		if cc.Common().IsInvoke() {
			return cc.Common().Method.Name() == "EnableTryKernel" && (enable == nil || cc.Common().Method == enable)
		}
		co := CalleeOf(cc)
		return co != nil && co.Name() == "EnableTryKernel"
	}
	isFilename := func(v ssa.Value) bool {
		cc, _, ok := CallResult(v)
		if !ok {
			return false
		}
		if cc.Common().IsInvoke() {
			return cc.Common().Method.Name() == "Filename" && (filename == nil || cc.Common().Method == filename)
		}
		co := CalleeOf(cc)
		return co != nil && co.Name() == "Filename"
	}
	same := Cmp("sn.Filename()==currentKernel.Filename()", isFilename, token.EQL, isFilename)
	found := false
	for _, b := range snk.Blocks {
		for _, in := range b.Instrs {
			if isEnable(in) {
				found = true
			}
		}
	}
	if !found {
		c.Violated(pkg+".setNextKernel#try-kernel-enabled", snk.Pos(), "setNextKernel no longer calls EnableTryKernel")
	} else {
		r := ReachQ{Fn: snk, CutInstr: isEnable, CutEdge: AtomEdges(same), Sink: IsSuccessReturn}.Run()
		c.Check(!r.Found, pkg+".setNextKernel#try-kernel-enabled-unless-same", snk.Pos(), "EnableTryKernel(sn) unless sn is the current kernel", "setNextKernel can succeed for a kernel other than the current one without pointing try-kernel.efi at it (e.g. when kernel_status already is \"try\"): the next boot tries a stale revision: "+P.PathString(r.Path))
	}
	// modeenv writes
	write := P.FuncObj(pkg + ".(*Modeenv).Write")
	n := 0
	for _, u := range P.UsesOf(write) {
		if u.Fn == nil || u.Fn.Pkg == nil || !strings.HasSuffix(u.Fn.Pkg.Pkg.Path(), "/"+pkg) {
			continue
		}
		cc, ok := u.Instr.(ssa.CallInstruction)
		if !ok {
			c.Undecided(pkg+".(*Modeenv).Write#used-as-value", write.Pos(), "Modeenv.Write is used other than by a direct call")
			continue
		}
		n++
		c.CheckErrPropagated(fmt.Sprintf("%s#modeenv-write-failure-propagated@%s", SSAFuncName(u.Fn), calleeOrd(u.Fn, cc, write)), u.Fn, cc, 0, "modeenv.Write")
	}
	if n == 0 {
		c.Undecided(pkg+".(*Modeenv).Write#callers", write.Pos(), "no caller found")
	}
}

func runC19x(c *Ctx) {
	P := c.P
	pkg := "asserts"
	c.Rule("C19-R6", "W+S", "a stacked database looks at its nearest layer first (the revision check and Find stop at the first store that has the assertion); every place of the filesystem store that turns a key value into a path component escapes it the same way", 2)
	ws := P.Func(pkg + ".(*Database).WithStackedBackstore")
	fBS := P.Field(pkg + ".Database.bs")
	fStacked := P.Field(pkg + ".Database.stackedOn")
	sts := StoresToField(ws, fStacked)
	if len(sts) != 1 {
		c.Undecided(pkg+".(*Database).WithStackedBackstore#stacked-on", ws.Pos(), fmt.Sprintf("expected one store of stackedOn, found %d", len(sts)))
	} else {
		// the slice value: append(<literal starting with db.bs>, db.stackedOn...)
		first := func(v ssa.Value) ssa.Value {
			for i := 0; i < 8; i++ {
				cc, _, ok := CallResult(v)
				if !ok {
					break
				}
				b, isB := cc.Common().Value.(*ssa.Builtin)
				if !isB || b.Name() != "append" {
					break
				}
				v = cc.Common().Args[0]
			}
			return v
		}(sts[0].Val)
		el := VarargElems(first)
		okFirst := len(el) >= 1 && el[0] != nil && VFieldOf(fBS, VParam(ws, 0))(el[0])
		c.Check(okFirst, pkg+".(*Database).WithStackedBackstore#nearest-layer-first", sts[0].Pos(), "stackedOn = [db.bs, db.stackedOn...]", "the layers a stacked database falls back to do not start with the database it was stacked on: an older layer shadows a newer one, so Find returns an older revision and Add accepts a revision that does not move forward")
	}
	// one escaping function
	used := map[string]token.Pos{}
	for _, fn := range P.FuncsIn(pkg) {
		pos := P.Fset.Position(fn.Pos())
		if !strings.HasSuffix(pos.Filename, "fsbackstore.go") {
			continue
		}
		for _, b := range fn.Blocks {
			for _, in := range b.Instrs {
				if cc, ok := in.(ssa.CallInstruction); ok {
					if co := CalleeOf(cc); co != nil && co.Pkg() != nil && co.Pkg().Path() == "net/url" && strings.HasSuffix(co.Name(), "Escape") && !strings.Contains(co.Name(), "Unescape") {
						if _, seen := used[co.Name()]; !seen {
							used[co.Name()] = cc.Pos()
						}
						c.touch(fn)
					}
				}
			}
		}
	}
	var names []string
	for n := range used {
		names = append(names, n)
	}
	sortStrings(names)
	c.Check(len(names) == 1, pkg+".filesystemBackstore#one-path-escaping", P.Func(pkg+".(*filesystemBackstore).Search").Pos(), fmt.Sprintf("every key value is escaped with url.%v", names), fmt.Sprintf("key values are turned into path components with different escaping functions %v: Put/Get and Search then disagree on where an assertion with such a key lives", names))
}

func sortStrings(s []string) {
	for i := 1; i < len(s); i++ {
		for j := i; j > 0 && s[j] < s[j-1]; j-- {
			s[j], s[j-1] = s[j-1], s[j]
		}
	}
}

func runC20x(c *Ctx) {
	P := c.P
	pkg := "asserts"
	c.Rule("C20-R6", "G+W", "assemble accepts only when the declared body-length equals the length of the body found, body or no body; the stream decoder's replacement buffer is never smaller than what was asked for (the size is rounded up)", 2)
	as := P.Func(pkg + ".assemble")
	checkInt := P.FuncObj(pkg + ".checkIntWithDefault")
	lenMatches := Cmp("length==len(body)", VRes(0, ToFn(checkInt)), token.EQL, VLen(VParam(as, 1)))
	n := 0
	for _, r := range ReturnsOf(as) {
		if IsSuccessReturn(r) {
			n++
			c.Guarded(fmt.Sprintf("%s.assemble#accepts<=declared-length-matches#%d", pkg, n), as, r, []Clause{{lenMatches}}, nil)
		}
	}
	if n == 0 {
		c.Undecided(pkg+".assemble#accepts", as.Pos(), "no accepting return found")
	}
	pk := P.Func(pkg + ".(*Decoder).peek")
	newReader := P.FuncObj("bufio.NewReaderSize")
	calls := CallSites(pk, newReader)
	if len(calls) == 0 {
		c.Undecided(pkg+".(*Decoder).peek#buffer-grown", pk.Pos(), "bufio.NewReaderSize not found")
	}
	for i, cc := range calls {
		sz := cc.Common().Args[1]
		// a quotient of the requested size must be bumped by one before it is multiplied back
		bad := ""
		var walk func(v ssa.Value, bumped bool, d int)
		walk = func(v ssa.Value, bumped bool, d int) {
			if d > 10 {
				return
			}
			bo, ok := Strip(v).(*ssa.BinOp)
			if !ok {
				return
			}
			switch bo.Op {
			case token.QUO:
				if DependsOn(bo.X, VParam(pk, 1)) && !bumped {
					bad = "size is divided and multiplied back without adding one: the new buffer can be smaller than the request"
				}
			case token.ADD:
				k, isC := ConstInt(bo.Y)
				k2, isC2 := ConstInt(bo.X)
				walk(bo.X, bumped || (isC && k >= 1), d+1)
				walk(bo.Y, bumped || (isC2 && k2 >= 1), d+1)
			default:
				walk(bo.X, bumped, d+1)
				walk(bo.Y, bumped, d+1)
			}
		}
		walk(sz, false, 0)
		c.Check(bad == "" && DependsOn(sz, VParam(pk, 1)), fmt.Sprintf("%s.(*Decoder).peek#buffer-not-smaller-than-request#%d", pkg, i+1), cc.Pos(), "rounded up from the requested size", "the replacement buffer of the stream decoder: "+bad)
	}
}

func runC14x(c *Ctx) {
	P := c.P
	pkg := "overlord/snapstate"
	c.Rule("C14-R8", "O", "InstallComponents reads the snap's state before the store round trip (which unlocks the state), so that the conflict check can notice that the snap changed meanwhile", 1)
	ic := P.Func(pkg + ".InstallComponents")
	get := P.FuncObj(pkg + ".Get")
	setups := P.FuncObj(pkg + ".componentSetupsForInstall")
	calls := CallSites(ic, setups)
	if len(calls) != 1 || len(CallSites(ic, get)) == 0 {
		c.Undecided(pkg+".InstallComponents#state-read-before-store", ic.Pos(), "expected Get(st, ...) and one componentSetupsForInstall call")
		return
	}
	c.Before(pkg+".InstallComponents#state-read-before-store", ic, SinkCall(get), "Get(st, name, &snapst)", calls[0], nil)
}

func runC16x(c *Ctx) {
	P := c.P
	pkg := "timeutil"
	c.Rule("C16-R6", "S", "Schedule.Includes and Schedule.Next look at the same windows: both take the clock spans from flattenedClockSpans() (implicit whole-day span for weekday-only timers, repeated spans split into sub-spans), never from the raw ClockSpans field", 2)
	flat := P.FuncObj(pkg + ".(*Schedule).flattenedClockSpans")
	fSpans := P.Field(pkg + ".Schedule.ClockSpans")
	for _, name := range []string{"Includes", "Next"} {
		fn := P.Func(pkg + ".(*Schedule)." + name)
		c.touch(fn)
		uses := len(CallSites(fn, flat)) > 0
		raw := false
		for _, b := range fn.Blocks {
			for _, in := range b.Instrs {
				if fa, ok := in.(*ssa.FieldAddr); ok && fieldOfAddr(fa) == fSpans {
					raw = true
				}
			}
		}
		c.Check(uses && !raw, fmt.Sprintf("%s.(*Schedule).%s#windows-from-flattened-spans", pkg, name), fn.Pos(), "ranges over flattenedClockSpans()", "Schedule."+name+" does not take its windows from flattenedClockSpans() (or also reads the raw ClockSpans field): the window search and the inclusion test then disagree for weekday-only timers and for repeated spans that cross midnight")
	}
}

func runC23x(c *Ctx) {
	P := c.P
	pkg := "osutil"
	c.Rule("C23-R6", "W", "managed files are only ever changed by replacing them (AtomicWrite: temporary file + rename) or removing them, never in place; the tree walk of EnsureTreeState visits every directory", 2)
	inPlace := map[string]bool{"os.Chmod": true, "os.Chown": true, "os.WriteFile": true, "os.Truncate": true, "os.Lchown": true, "io/ioutil.WriteFile": true}
	n := 0
	for _, fn := range P.FuncsIn(pkg) {
		f := P.Fset.Position(fn.Pos()).Filename
		if !strings.HasSuffix(f, "/syncdir.go") && !strings.HasSuffix(f, "/synctree.go") {
			continue
		}
		n++
		var bad []string
		for _, b := range fn.Blocks {
			for _, in := range b.Instrs {
				if cc, ok := in.(ssa.CallInstruction); ok {
					if co := CalleeOf(cc); co != nil && inPlace[co.FullName()] {
						bad = append(bad, co.FullName())
					}
				}
			}
		}
		if len(bad) > 0 {
			c.touch(fn)
			c.Violated(SSAFuncName(fn)+"#no-in-place-change", fn.Pos(), fmt.Sprintf("%s changes a managed file in place (%v): the call follows symlinks and hard links, so a file outside the managed set can be modified while the managed entry stays what it was", SSAFuncName(fn), bad))
		}
	}
	c.Check(n > 0, pkg+"#sync-functions", token.NoPos, fmt.Sprintf("%d functions of syncdir.go/synctree.go use no in-place file modification", n), "no function of syncdir.go/synctree.go found")
	ets := P.Func(pkg + ".EnsureTreeState")
	skipDir := P.Global("path/filepath.SkipDir")
	walk := P.FuncObj("path/filepath.Walk")
	okWalk := false
	for _, cc := range CallSites(ets, walk) {
		mc, ok := Strip(cc.Common().Args[1]).(*ssa.MakeClosure)
		if !ok {
			continue
		}
		cb, _ := mc.Fn.(*ssa.Function)
		if cb == nil {
			continue
		}
		okWalk = true
		skips := false
		for _, lf := range ReturnLeaves(cb, 0) {
			if VGlobal(skipDir)(lf.Val) {
				skips = true
			}
		}
		c.touch(cb)
		c.Check(!skips, pkg+".EnsureTreeState#walk-visits-every-directory", cb.Pos(), "the walk callback never skips a directory", "the tree walk of EnsureTreeState skips some directories: files matching the globs below them are neither synchronised nor removed when synchronisation fails")
	}
	if !okWalk {
		c.Undecided(pkg+".EnsureTreeState#walk", ets.Pos(), "filepath.Walk with a closure was not found")
	}
}

func runC18x(c *Ctx) {
	P := c.P
	pkg := "asserts"
	c.Rule("C18-R7", "W+G", "an account key may sign only what matchAgainstConstraints admits (no shortcut in canSign; \"anything goes\" only for a key without constraints); an encoded key or signature is exactly one packet: decodeV1 refuses trailing data and all three decoders go through it", 6)
	cs := P.Func(pkg + ".(*AccountKey).canSign")
	mac := P.FuncObj(pkg + ".(*AccountKey).matchAgainstConstraints")
	for i, lf := range ReturnLeaves(cs, 0) {
		c.Check(VRes(0, ToFn(mac))(lf.Val), fmt.Sprintf("%s.(*AccountKey).canSign#verdict-of-constraints#%d", pkg, i+1), lf.Pos(), "the verdict of matchAgainstConstraints", "canSign answers without consulting the key's signing constraints")
	}
	macf := P.Func(pkg + ".(*AccountKey).matchAgainstConstraints")
	fMatchers := P.Field(pkg + ".AccountKey.constraintMatchers")
	noConstraints := Cmp("len(matchers)==0", VLen(func(v ssa.Value) bool { return VField(fMatchers)(v) || DependsOn(v, VField(fMatchers)) }), token.EQL, VConstInt(0))
	matched := Atom{Name: "m.match(...)==nil", Match: func(cd Cond) Pol {
		return cd.CmpIs(token.EQL, func(v ssa.Value) bool {
			cc, _, ok := CallResult(v)
			if !ok {
				return false
			}
			co := CalleeOf(cc)
			return co != nil && co.Name() == "match"
		}, isNilVal)
	}}
	n := 0
	for _, lf := range ReturnLeaves(macf, 0) {
		if b, ok := ConstBool(lf.Val); ok && b {
			n++
			c.GuardedFlow(fmt.Sprintf("%s.(*AccountKey).matchAgainstConstraints#true<=unconstrained|matched#%d", pkg, n), macf, lf, []Clause{{noConstraints, matched}}, nil)
		}
	}
	if n == 0 {
		c.Undecided(pkg+".(*AccountKey).matchAgainstConstraints#true", macf.Pos(), "no accepting result found")
	}
	// exactly one packet
	dv := P.Func(pkg + ".decodeV1")
	dvObj := P.FuncObj(pkg + ".decodeV1")
	rdLen := P.FuncObj("bytes.(*Reader).Len")
	nothingLeft := Cmp("rd.Len()==0", VRes(0, ToFn(rdLen)), token.EQL, VConstInt(0))
	n = 0
	for _, r := range ReturnsOf(dv) {
		if IsSuccessReturn(r) {
			n++
			c.Guarded(fmt.Sprintf("%s.decodeV1#accepts<=nothing-left#%d", pkg, n), dv, r, []Clause{{nothingLeft}}, nil)
		}
	}
	if n == 0 {
		c.Undecided(pkg+".decodeV1#accepts", dv.Pos(), "no accepting return found")
	}
	for _, name := range []string{"decodeSignature", "DecodePublicKey", "decodePrivateKey"} {
		fn := P.Func(pkg + "." + name)
		c.touch(fn)
		c.Check(len(CallSites(fn, dvObj)) == 1, pkg+"."+name+"#through-decodeV1", fn.Pos(), "decodes through decodeV1", name+" does not decode through decodeV1 (which refuses anything but exactly one packet)")
	}
}

func runC22x(c *Ctx) {
	P := c.P
	pkg := "interfaces"
	c.Rule("C22-R6", "G", "Repository.disconnect: an entry of a connection index is dropped only when that very entry has become empty (delete(m, k) <= len(m[k]) == 0 for the same m and k)", 2)
	dis := P.Func(pkg + ".(*Repository).disconnect")
	n := 0
	for _, b := range dis.Blocks {
		for _, in := range b.Instrs {
			cc, ok := in.(*ssa.Call)
			if !ok {
				continue
			}
			bi, ok := cc.Call.Value.(*ssa.Builtin)
			if !ok || bi.Name() != "delete" {
				continue
			}
			m, k := cc.Call.Args[0], cc.Call.Args[1]
			_, f, isField := FieldLoad(Strip(m))
			if !isField {
				continue // delete(r.slotPlugs[slot], plug): removes one connection, not an index entry
			}
			n++
			emptied := Cmp(fmt.Sprintf("len(r.%s[k])==0", f.Name()), VLen(func(v ssa.Value) bool {
				lk, ok := Strip(v).(*ssa.Lookup)
				return ok && IsFieldLoad(Strip(lk.X), f) && Strip(lk.Index) == Strip(k)
			}), token.EQL, VConstInt(0))
			c.Guarded(fmt.Sprintf("%s.(*Repository).disconnect#index-entry-dropped<=empty:%s", pkg, f.Name()), dis, cc, []Clause{{emptied}}, nil)
		}
	}
	if n < 2 {
		c.Undecided(pkg+".(*Repository).disconnect#index-entries", dis.Pos(), fmt.Sprintf("expected the two index clean-ups, found %d", n))
	}
}

func runC15x(c *Ctx) {
	P := c.P
	pkg := "overlord/snapstate"
	c.Rule("C15-R6", "O", "doInstall forgets the snap-initiated holds on a snap (resetGatingForRefreshed) only after the checks that can still refuse the refresh (running applications) have passed: a refused refresh must not start a new hold episode", 1)
	di := P.Func(pkg + ".doInstall")
	reset := P.FuncObj(pkg + ".resetGatingForRefreshed")
	soft := P.FuncObj(pkg + ".softCheckNothingRunningForRefresh")
	rs, ss := CallSites(di, reset), CallSites(di, soft)
	if len(rs) == 0 || len(ss) == 0 {
		c.Undecided(pkg+".doInstall#holds-reset-after-busy-check", di.Pos(), "resetGatingForRefreshed or softCheckNothingRunningForRefresh not found in doInstall")
		return
	}
	bad := ""
	for _, r := range rs {
		for _, s := range ss {
			if (ReachQ{Fn: di, From: LocOf(r), Sink: SinkIs(s)}).Run().Found {
				bad = P.Pos(r.Pos()) + " -> " + P.Pos(s.Pos())
			}
		}
	}
	c.Check(bad == "", pkg+".doInstall#holds-reset-after-busy-check", rs[0].Pos(), "no refusal by the running-applications check can follow the reset", "doInstall drops the holds on the snap and can afterwards still refuse the refresh because the snap is busy ("+bad+"): the holding snap's episode is forgotten although nothing was refreshed, and it gets a fresh maximum hold time")
}

func runC25x(c *Ctx) {
	P := c.P
	pkg := "overlord/hookstate/ctlcmd"
	c.Rule("C25-R5", "K+W", "the non-root gate lets any argument vector with -h/--help through, so the parser must treat help as terminal (flags.HelpFlag: parsing aborts before a command's Execute) and must refuse an option-looking word as the value of an option (no option type of a command implements flags.ValueValidator, which switches that refusal off)", 2)
	run := P.Func(pkg + ".Run")
	newParser := P.FuncObj("github.com/jessevdk/go-flags.NewNamedParser")
	helpFlag := P.Const("github.com/jessevdk/go-flags.HelpFlag")
	calls, _ := P.CallSitesDeep(run, newParser)
	if len(calls) != 1 {
		c.Undecided(pkg+".Run#parser-options", run.Pos(), fmt.Sprintf("expected one flags.NewNamedParser call, found %d", len(calls)))
	} else {
		opts, isC := ConstInt(calls[0].Common().Args[1])
		hv, _ := constantInt(helpFlag)
		c.Check(isC && opts&hv != 0, pkg+".Run#help-aborts-parsing", calls[0].Pos(), "flags.HelpFlag is set", "the snapctl parser is created without flags.HelpFlag: -h/--help no longer aborts parsing, so a complete root-only command line with --help appended passes the non-root gate and is executed")
	}
	// option types of the command structs
	n := 0
	var bad []string
	for _, pk := range []string{pkg} {
		tp := P.typesPkg(pk)
		if tp == nil {
			continue
		}
		for _, name := range tp.Scope().Names() {
			tn, ok := tp.Scope().Lookup(name).(*types.TypeName)
			if !ok {
				continue
			}
			st, ok := tn.Type().Underlying().(*types.Struct)
			if !ok {
				continue
			}
			for i := 0; i < st.NumFields(); i++ {
				tag := st.Tag(i)
				if !strings.Contains(tag, `long:"`) && !strings.Contains(tag, `short:"`) {
					continue
				}
				n++
				ft := st.Field(i).Type()
				for _, t := range []types.Type{ft, types.NewPointer(ft)} {
					ms := types.NewMethodSet(t)
					for j := 0; j < ms.Len(); j++ {
						if ms.At(j).Obj().Name() == "IsValidValue" {
							bad = append(bad, tn.Name()+"."+st.Field(i).Name())
						}
					}
				}
			}
		}
	}
	c.Check(len(bad) == 0 && n > 0, pkg+"#no-option-value-validators", run.Pos(), fmt.Sprintf("%d option fields, none with a ValueValidator", n), fmt.Sprintf("option field(s) %v implement go-flags' ValueValidator: go-flags then no longer refuses `-h` as the value of that option, while the non-root gate still reads it as a help request", bad))
}

func constantInt(c *types.Const) (int64, bool) {
	if c == nil {
		return 0, false
	}
	v, ok := constantInt64(c)
	return v, ok
}

func runC26x(c *Ctx) {
	P := c.P
	c.Rule("C26-R6", "G+W", "interface-gated API access is decided on the connection's recorded interface only; the token-style credential check accepts exactly the stored set of discharges", 3)
	fn := P.Func("daemon.requireInterfaceApiAccessImpl")
	listContains := P.FuncObj("strutil.ListContains")
	fIface := P.Field("overlord/ifacestate.ConnectionState.Interface")
	n := 0
	for _, cc := range CallSites(fn, listContains) {
		if !ResolvesToParam(cc.Common().Args[0], fn, 3) && !VParam(fn, 3)(cc.Common().Args[0]) {
			continue
		}
		n++
		c.Check(VField(fIface)(cc.Common().Args[1]), fmt.Sprintf("daemon.requireInterfaceApiAccessImpl#matched-on-connection-interface#%d", n), cc.Pos(), "ListContains(interfaceNames, connState.Interface)", "the gating interface names are matched against something other than the interface recorded for the connection (a plug name is chosen by the snap's author)")
	}
	if n == 0 {
		c.Undecided("daemon.requireInterfaceApiAccessImpl#matched-on-connection-interface", fn.Pos(), "the interface-name match was not found")
	}
	attach := P.FuncObj("daemon.ucrednetAttachInterface")
	for i, cc := range CallSites(fn, attach) {
		c.Check(VField(fIface)(cc.Common().Args[1]), fmt.Sprintf("daemon.requireInterfaceApiAccessImpl#attached-interface#%d", i+1), cc.Pos(), "the connection's interface is attached", "the interface attached to the request is not the connection's recorded interface")
	}
	cm := P.Func("overlord/auth.CheckMacaroon")
	fDis := P.Field("overlord/auth.UserState.Discharges")
	sameCount := Cmp("len(user.Discharges)==len(discharges)", VLen(VField(fDis)), token.EQL, VLen(func(v ssa.Value) bool { return VParam(cm, 2)(v) || ResolvesToParam(v, cm, 2) }))
	fUsers := P.Field("overlord/auth.AuthState.Users")
	n = 0
	for _, r := range ReturnsOf(cm) {
		if !IsSuccessReturn(r) {
			continue
		}
		// only the token-style fallback (inside the loop over the stored users)
		inLoop := false
		for _, rl := range LoopsOver(cm, VField(fUsers)) {
			if rl.Body != nil && rl.Body.Dominates(r.Block()) {
				inLoop = true
			}
		}
		if !inLoop {
			continue
		}
		n++
		c.Guarded(fmt.Sprintf("overlord/auth.CheckMacaroon#token-style<=same-number-of-discharges#%d", n), cm, r, []Clause{{sameCount}}, nil)
	}
	if n == 0 {
		c.Undecided("overlord/auth.CheckMacaroon#token-style", cm.Pos(), "the token-style fallback was not found")
	}
}

func runC27x(c *Ctx) {
	P := c.P
	pkg := "wrappers"
	c.Rule("C27-R4", "W", "locations are computed from the instance (never from the bare snap name); a line taken from the scanner is copied before it is kept", 2)
	// snap.MountDir & co. are never fed s.SnapName()
	snapName := P.FuncObj("snap.(*Info).SnapName")
	n := 0
	var bad []string
	for _, fn := range P.FuncsIn(pkg) {
		for _, b := range fn.Blocks {
			for _, in := range b.Instrs {
				cc, ok := in.(ssa.CallInstruction)
				if !ok {
					continue
				}
				co := CalleeOf(cc)
				if co == nil || co.Pkg() == nil || !strings.HasSuffix(co.Pkg().Path(), "/snap") {
					continue
				}
				switch co.Name() {
				case "MountDir", "MountFile", "BaseDir", "DataDir", "CommonDataDir", "UserDataDir", "HooksDir":
				default:
					continue
				}
				if co.Type().(*types.Signature).Recv() != nil {
					continue
				}
				n++
				for _, a := range cc.Common().Args {
					if VRes(0, ToFn(snapName))(a) {
						bad = append(bad, fmt.Sprintf("%s(%s) at %s", co.Name(), "s.SnapName()", P.Pos(cc.Pos())))
					}
				}
			}
		}
	}
	c.Check(len(bad) == 0, pkg+"#instance-aware-locations", token.NoPos, fmt.Sprintf("%d location computations, none from the bare snap name", n), fmt.Sprintf("a location is computed from the snap name instead of the instance name (%v): for a parallel install it points into another snap's directory", bad))
	// scanner aliasing
	sdf := P.Func(pkg + ".sanitizeDesktopFile")
	scanBytes := P.FuncObj("bufio.(*Scanner).Bytes")
	kept := ""
	for _, b := range sdf.Blocks {
		for _, in := range b.Instrs {
			cc, ok := in.(*ssa.Call)
			if !ok {
				continue
			}
			bi, ok := cc.Call.Value.(*ssa.Builtin)
			if !ok || bi.Name() != "append" {
				continue
			}
			sl, ok := cc.Type().Underlying().(*types.Slice)
			if !ok {
				continue
			}
			if _, nested := sl.Elem().Underlying().(*types.Slice); !nested {
				continue
			}
			for _, e := range VarargElems(cc.Call.Args[1]) {
				if e != nil && aliasesCall(e, scanBytes) {
					kept = P.Pos(cc.Pos())
				}
			}
		}
	}
	c.Check(kept == "", pkg+".sanitizeDesktopFile#scanner-line-not-retained", sdf.Pos(), "no slice of scanner.Bytes() is kept across Scan calls", "a slice of scanner.Bytes() is stored for later ("+kept+"): the scanner reuses its buffer, so for files larger than the buffer already validated lines turn into later, unvalidated bytes of the file")
}

// aliasesCall: v is the result of obj or a sub-slice / conversion of it (shares its backing array).
func aliasesCall(v ssa.Value, obj *types.Func) bool {
	for i := 0; i < 8 && v != nil; i++ {
		switch x := v.(type) {
		case *ssa.Slice:
			v = x.X
		case *ssa.ChangeType:
			v = x.X
		case *ssa.Phi:
			for _, e := range x.Edges {
				if aliasesCall(e, obj) {
					return true
				}
			}
			return false
		case *ssa.Call:
			_, ok := IsCallTo(x, obj)
			return ok
		default:
			return false
		}
	}
	return false
}

func runC31x(c *Ctx) {
	P := c.P
	pkg := "store"
	c.Rule("C31-R4", "G+K", "downloadImpl: the outcome of copying the body is what the attempt ends with (it reaches the error the loop leaves with, on every path); the partial file is opened for plain read/write, since the no-resume fallback rewrites it from offset 0", 2)
	di := P.Func(pkg + ".downloadImpl")
	ioCopy := P.FuncObj("io.Copy")
	var bodyCopy ssa.CallInstruction
	for _, cc := range CallSites(di, ioCopy) {
		if LoopContaining(di, cc) != nil {
			// the copy of the response body into the file+hash writer: the one whose error is kept
			if ex := resultExtract(cc, 1); ex != nil {
				bodyCopy = cc
			}
		}
	}
	if bodyCopy == nil {
		c.Undecided(pkg+".downloadImpl#body-copy", di.Pos(), "the io.Copy of the response body was not found")
	} else {
		ex := resultExtract(bodyCopy, 1)
		_ = ex
		cb := bodyCopy.Block()
		// every value the function can return on a path that went through the body copy must have been
		// produced after the copy (its error, the digest mismatch, ...), never be a left-over from before it
		stale := ""
		var check func(v ssa.Value, seen map[*ssa.Phi]bool)
		check = func(v ssa.Value, seen map[*ssa.Phi]bool) {
			v = stripNoCell(v)
			switch x := v.(type) {
			case *ssa.Const:
				// a literal nil on a path after the copy is judged by C31-R2 (digest comparison)
			case *ssa.Phi:
				if seen[x] {
					return
				}
				seen[x] = true
				for i, e := range x.Edges {
					pred := x.Block().Preds[i]
					// only edges taken after the copy
					if pred == cb || (cb.Dominates(pred) && pred != cb) {
						check(e, seen)
					}
				}
			default:
				if in, ok := v.(ssa.Instruction); ok {
					if in.Block() != cb && !cb.Dominates(in.Block()) {
						stale = P.Pos(v.Pos())
					}
				}
			}
		}
		nPhi := 0
		for _, rt := range ReturnsOf(di) {
			res := stripNoCell(rt.Results[0])
			if ph, ok := res.(*ssa.Phi); ok {
				nPhi++
				check(ph, map[*ssa.Phi]bool{})
				continue
			}
			// defer-spilled result: the return loads a cell, look at what was stored into it
			if ld, ok := res.(*ssa.UnOp); ok && ld.Op == token.MUL {
				if al, ok := ld.X.(*ssa.Alloc); ok {
					if stores, ok := cellStores(al); ok {
						for _, st := range stores {
							if ph, ok := stripNoCell(st.Val).(*ssa.Phi); ok {
								nPhi++
								check(ph, map[*ssa.Phi]bool{})
							}
						}
					}
				}
			}
		}
		if nPhi == 0 {
			c.Undecided(pkg+".downloadImpl#body-copy-error-kept", bodyCopy.Pos(), "the error value the retry loop leaves with was not found")
		}
		c.Check(stale == "", pkg+".downloadImpl#body-copy-error-kept", bodyCopy.Pos(), "what is returned after a body copy was produced after it", "after copying the response body downloadImpl can leave the retry loop with an error value computed before the copy ("+stale+", e.g. the nil of the successful request): a transfer that fails without being retried then ends with success, the digest check is skipped and a truncated file is accepted")
	}
	dl := P.Func(pkg + ".(*Store).Download")
	openFile := P.FuncObj("os.OpenFile")
	oAppend, _ := constantInt64(P.Const("os.O_APPEND"))
	n := 0
	for _, cc := range CallSites(dl, openFile) {
		fl, isC := ConstInt(cc.Common().Args[1])
		if !isC {
			continue
		}
		n++
		c.Check(fl&oAppend == 0, fmt.Sprintf("%s.(*Store).Download#partial-file-not-append#%d", pkg, n), cc.Pos(), "opened without O_APPEND", "the partial download file is opened with O_APPEND: the rewind (Seek to 0) of the no-resume fallback then has no effect on writes, the full body lands after the stale bytes while the fresh hash covers only the body")
	}
	if n == 0 {
		c.Undecided(pkg+".(*Store).Download#partial-file", dl.Pos(), "os.OpenFile of the partial file not found")
	}
}

func runC32x(c *Ctx) {
	P := c.P
	pkg := "overlord/snapshotstate/backend"
	c.Rule("C32-R7", "L", "RestoreState.Revert removes every directory the restore created (unconditionally) before it moves the previous ones back", 2)
	rv := P.Func(pkg + ".(*RestoreState).Revert")
	fCreated := P.Field(pkg + ".RestoreState.Created")
	removeAll := P.FuncObj("os.RemoveAll")
	loops := LoopsOver(rv, VField(fCreated))
	if len(loops) != 1 {
		c.Undecided(pkg+".(*RestoreState).Revert#created-removed", rv.Pos(), fmt.Sprintf("expected one loop over rs.Created, found %d", len(loops)))
		return
	}
	rl := loops[0]
	var rm ssa.CallInstruction
	for _, cc := range CallSites(rv, removeAll) {
		if rl.Body != nil && rl.Body.Dominates(cc.Block()) {
			rm = cc
		}
	}
	if rm == nil {
		c.Violated(pkg+".(*RestoreState).Revert#created-removed", rv.Pos(), "Revert no longer removes the directories the restore created")
		return
	}
	c.SkipsOnlyAcross(pkg+".(*RestoreState).Revert#every-created-dir-removed", rl, SinkIs(rm), "os.RemoveAll(dir)", Clause{}, false)
	c.Check(Strip(rm.Common().Args[0]) == Strip(rl.Elem), pkg+".(*RestoreState).Revert#removes-the-created-dir", rm.Pos(), "RemoveAll(dir)", "RemoveAll is not applied to the created directory")
}

func constantInt64(c *types.Const) (int64, bool) {
	if c == nil {
		return 0, false
	}
	return constant.Int64Val(constant.ToInt(c.Val()))
}

func runC28x(c *Ctx) {
	P := c.P
	pkg := "cmd/snap-update-ns"
	c.Rule("C28-R4", "S", "neededChanges: the reuse analysis (skip everything under a changed directory) walks the current entries in pure mount-point order after the overname entries (byOvernameAndMountPoint), the only order in which a parent is immediately followed by everything beneath it", 1)
	nc := P.Func(pkg + ".neededChanges")
	sortSort := P.FuncObj("sort.Sort")
	want := P.NamedType(pkg + ".byOvernameAndMountPoint")
	// the copy of the current profile's entries
	fEntries := P.Field("osutil.MountProfile.Entries")
	var current ssa.Value
	for _, b := range nc.Blocks {
		for _, in := range b.Instrs {
			cc, ok := in.(*ssa.Call)
			if !ok {
				continue
			}
			if bi, ok := cc.Call.Value.(*ssa.Builtin); ok && bi.Name() == "copy" && VFieldOf(fEntries, func(v ssa.Value) bool { return VParam(nc, 0)(v) || ResolvesToParam(v, nc, 0) })(cc.Call.Args[1]) {
				current = Strip(cc.Call.Args[0])
			}
		}
	}
	if current == nil {
		c.Undecided(pkg+".neededChanges#current-sorted-by-mount-point", nc.Pos(), "the copy of the current profile's entries was not found")
		return
	}
	var got types.Type
	for _, cc := range CallSites(nc, sortSort) {
		mi, ok := cc.Common().Args[0].(*ssa.MakeInterface)
		if !ok {
			continue
		}
		if Strip(mi.X) == current {
			got = mi.X.Type()
		}
	}
	if got == nil {
		c.Violated(pkg+".neededChanges#current-sorted-by-mount-point", nc.Pos(), "the current entries are not sorted before the reuse analysis")
		return
	}
	c.Check(types.Identical(got, want), pkg+".neededChanges#current-sorted-by-mount-point", nc.Pos(), "sort.Sort(byOvernameAndMountPoint(current))", fmt.Sprintf("the current entries are sorted with %s before the reuse analysis: entries of different origins under one directory are then not adjacent, so an unchanged child can be kept while its changed parent is unmounted and mounted again", got))
}

func runC24x(c *Ctx) {
	P := c.P
	pkg := "snap/naming"
	c.Rule("C24-R5", "W", "ComponentRef.Validate puts both the snap name and the component name through ValidateSnap (same characters, same 2..40 length limit as snap-confine's sc_snap_component_validate)", 2)
	val := P.Func(pkg + ".ComponentRef.Validate")
	validateSnap := P.FuncObj(pkg + ".ValidateSnap")
	fSnap := P.Field(pkg + ".ComponentRef.SnapName")
	fComp := P.Field(pkg + ".ComponentRef.ComponentName")
	covered := map[*types.Var]bool{}
	note := func(v ssa.Value) {
		for _, f := range []*types.Var{fSnap, fComp} {
			if VField(f)(v) {
				covered[f] = true
			}
			// spilled value receiver: load of a field address of the receiver copy
			if fl, ok := Strip(v).(*ssa.Field); ok && fl.X.Type() != nil {
				if st, ok := fl.X.Type().Underlying().(*types.Struct); ok && fl.Field < st.NumFields() && st.Field(fl.Field) == f {
					covered[f] = true
				}
			}
		}
	}
	for _, cc := range CallSites(val, validateSnap) {
		arg := cc.Common().Args[0]
		note(arg)
		// ranged element of a slice literal
		for _, rl := range RangeLoops(val) {
			if rl.Elem != nil && Strip(arg) == Strip(rl.Elem) && rl.Coll != nil {
				for _, e := range VarargElems(rl.Coll) {
					if e != nil {
						note(e)
					}
				}
			}
		}
	}
	for _, f := range []*types.Var{fSnap, fComp} {
		c.Check(covered[f], pkg+".ComponentRef.Validate#ValidateSnap("+f.Name()+")", val.Pos(), f.Name()+" is validated as a snap name", "ComponentRef.Validate does not put "+f.Name()+" through ValidateSnap: names that snap-confine refuses (one character, more than 40) are accepted by the daemon")
	}
}

func runC30x(c *Ctx) {
	P := c.P
	pkg := "registry"
	c.Rule("C30-R6", "O+W", "View.Set writes to the databag only after the whole request has been expanded and checked (a refused request writes nothing); replaceIn substitutes a placeholder wherever it occurs in the storage path", 2)
	set := P.Func(pkg + ".(*View).Set")
	unused := P.FuncObj(pkg + ".checkForUnusedBranches")
	expandM := ViaGlobal(P.Global(pkg + ".getValuesThroughPaths"))
	// databag writes: invoke DataBag.Set, in Set itself or in same-package helpers it calls
	isBagSet := func(in ssa.Instruction) bool {
		cc, ok := in.(ssa.CallInstruction)
		if !ok {
			return false
		}
		if cc.Common().IsInvoke() && cc.Common().Method.Name() == "Set" {
			return true
		}
		if callee := StaticFn(cc); callee != nil && callee != set && callee.Pkg != nil && strings.HasSuffix(callee.Pkg.Pkg.Path(), "/"+pkg) {
			for _, b := range callee.Blocks {
				for _, in2 := range b.Instrs {
					if c2, ok := in2.(ssa.CallInstruction); ok && c2.Common().IsInvoke() && c2.Common().Method.Name() == "Set" && c2.Common().Method.Pkg() != nil && strings.HasSuffix(c2.Common().Method.Pkg().Path(), "/"+pkg) {
						return true
					}
				}
			}
		}
		return false
	}
	var writes []ssa.Instruction
	for _, b := range set.Blocks {
		for _, in := range b.Instrs {
			if isBagSet(in) {
				writes = append(writes, in)
			}
		}
	}
	if len(writes) == 0 || len(CallSites(set, unused)) != 1 || len(CallsMatching(set, expandM)) == 0 {
		c.Undecided(pkg+".(*View).Set#writes-after-checks", set.Pos(), "expected databag writes, one checkForUnusedBranches call and the expansion calls in View.Set")
	} else {
		okUnused := OkCall("checkForUnusedBranches ok", unused)
		for i, w := range writes {
			c.Guarded(fmt.Sprintf("%s.(*View).Set#write<=whole-request-checked#%d", pkg, i+1), set, w, []Clause{{okUnused}}, nil)
			// no expansion (which can still refuse the request) after a write
			bad := false
			for _, e := range CallsMatching(set, expandM) {
				if (ReachQ{Fn: set, From: LocOf(w), Sink: SinkIs(e)}).Run().Found {
					bad = true
				}
			}
			c.Check(!bad, fmt.Sprintf("%s.(*View).Set#no-expansion-after-write#%d", pkg, i+1), w.Pos(), "every rule is expanded before the first write", "View.Set can write one rule's values and afterwards still expand (and refuse) another rule of the same request: a refused request leaves part of itself in the databag")
		}
	}
	ri := P.Func(pkg + ".replaceIn")
	c.touch(ri)
	okAll := false
	why := "replaceIn neither walks all parts of the path nor calls strings.ReplaceAll"
	for _, b := range ri.Blocks {
		for _, in := range b.Instrs {
			cc, ok := in.(ssa.CallInstruction)
			if !ok {
				continue
			}
			co := CalleeOf(cc)
			if co == nil {
				continue
			}
			switch co.FullName() {
			case "strings.ReplaceAll":
				okAll = true
			case "strings.Replace":
				n, isC := ConstInt(cc.Common().Args[3])
				if isC && n < 0 {
					okAll = true
				} else {
					why = "replaceIn calls strings.Replace with a bounded count"
				}
			}
		}
	}
	if !okAll {
		// the hand-written form: a loop over the parts that has no early exit
		for _, rl := range RangeLoops(ri) {
			early := false
			for _, b := range ri.Blocks {
				if rl.Body != nil && rl.Body.Dominates(b) {
					for _, s := range b.Succs {
						if s != rl.Header && !rl.Body.Dominates(s) && s != rl.Body {
							early = true
						}
					}
				}
			}
			if !early {
				okAll = true
			}
		}
	}
	c.Check(okAll, pkg+".replaceIn#every-occurrence", ri.Pos(), "every occurrence of the placeholder is substituted", why+": a storage path that repeats a placeholder keeps a literal {placeholder} key, data is written where no rule maps it")
}

func runC29x(c *Ctx) {
	P := c.P
	pkg := "overlord/configstate/config"
	c.Rule("C29-R4", "O+W", "Transaction.Set patches the cached changes (in place) only after every check that can refuse the request; configuration documents are always decoded number-preserving (jsonutil.DecodeWithNumber), never with encoding/json.Unmarshal", 2)
	set := P.Func(pkg + ".(*Transaction).Set")
	patch := P.FuncObj(pkg + ".PatchConfig")
	calls := CallSites(set, patch)
	if len(calls) != 1 {
		c.Undecided(pkg+".(*Transaction).Set#patch-last", set.Pos(), fmt.Sprintf("expected one PatchConfig call, found %d", len(calls)))
	} else {
		// after a successful patch nothing can fail any more
		okPatch := OkCall("PatchConfig ok", patch)
		bad := ""
		for _, b := range set.Blocks {
			for si := range b.Succs {
				if AtomEdges(okPatch)(b, si) {
					r := ReachQ{Fn: set, From: &Loc{b.Succs[si], -1}, Sink: func(in ssa.Instruction) bool {
						rt, ok := in.(*ssa.Return)
						return ok && !IsSuccessReturn(rt)
					}}.Run()
					if r.Found {
						bad = P.PathString(r.Path)
					}
				}
			}
		}
		c.Check(bad == "" && CountAtomEdges(set, okPatch) > 0, pkg+".(*Transaction).Set#patch-last", calls[0].Pos(), "no refusal is possible once the cached changes were patched", "Transaction.Set can still refuse the request after PatchConfig has edited the transaction's cached changes in place: the refused value stays in the cache, is returned by Get and written by Commit: "+bad)
	}
	n := 0
	var bad []string
	for _, fn := range P.FuncsIn(pkg) {
		for _, b := range fn.Blocks {
			for _, in := range b.Instrs {
				if cc, ok := in.(ssa.CallInstruction); ok {
					if co := CalleeOf(cc); co != nil {
						switch co.FullName() {
						case "encoding/json.Unmarshal":
							bad = append(bad, SSAFuncName(fn)+" at "+P.Pos(cc.Pos()))
						case modPath + "/jsonutil.DecodeWithNumber":
							n++
						}
					}
				}
			}
		}
	}
	c.Check(len(bad) == 0 && n > 0, pkg+"#number-preserving-decoding", token.NoPos, fmt.Sprintf("%d decodes, all through jsonutil.DecodeWithNumber", n), fmt.Sprintf("configuration is decoded with encoding/json.Unmarshal (%v): numbers become float64 and are written back altered (9007199254740993 -> 9007199254740992)", bad))
}

// runC30y: the rule behind finding F13.
func runC30y(c *Ctx) {
	P := c.P
	pkg := "overlord/registrystate"
	c.Rule("C30-R7", "W+G", "updateDatabags writes back the map it read from the state, with the one databag added: the stored map is replaced by a fresh one only when there was none", 1)
	ud := P.Func(pkg + ".updateDatabags")
	stGet := P.FuncObj("overlord/state.(*State).Get")
	var cell *ssa.Alloc
	for _, cc := range CallSites(ud, stGet) {
		if k, ok := ConstString(CallArgs(cc)[0]); ok && k == "registry-databags" {
			if mi, ok := CallArgs(cc)[1].(*ssa.MakeInterface); ok {
				cell, _ = mi.X.(*ssa.Alloc)
			}
		}
	}
	if cell == nil {
		c.Undecided(pkg+".updateDatabags#map-read", ud.Pos(), "st.Get(\"registry-databags\", &databags) not found")
		return
	}
	errIs := P.FuncObj("errors.Is")
	noState := TrueRes("errors.Is(err, NoState)", true, 0, ToFn(errIs))
	wasNil := Cmp("databags==nil", func(v ssa.Value) bool {
		u, ok := v.(*ssa.UnOp)
		return ok && u.Op == token.MUL && u.X == ssa.Value(cell)
	}, token.EQL, isNilVal)
	n := 0
	if cell.Referrers() != nil {
		for _, r := range *cell.Referrers() {
			st, ok := r.(*ssa.Store)
			if !ok || st.Addr != ssa.Value(cell) {
				continue
			}
			if _, fresh := Strip(st.Val).(*ssa.MakeMap); !fresh {
				continue
			}
			n++
			c.Guarded(fmt.Sprintf("%s.updateDatabags#fresh-map-only-when-none#%d", pkg, n), ud, st, []Clause{{noState, wasNil}}, &GOpt{NoVacuity: true})
		}
	}
	// the same one level down: the account's map is replaced by a fresh one only when the account had none
	isLoaded := func(v ssa.Value) bool {
		u, ok := Strip(v).(*ssa.UnOp)
		return ok && u.Op == token.MUL && u.X == ssa.Value(cell)
	}
	acctNil := Cmp("databags[account]==nil", lookupOf(isLoaded), token.EQL, isNilVal)
	acctAbsent := Atom{Name: "account not in databags", Match: func(cd Cond) Pol { return cd.BoolIs(lookupOkOf(isLoaded)).Flip() }}
	for _, b := range ud.Blocks {
		for _, in := range b.Instrs {
			mu, ok := in.(*ssa.MapUpdate)
			if !ok || !isLoaded(mu.Map) {
				continue
			}
			if _, fresh := Strip(mu.Value).(*ssa.MakeMap); !fresh {
				continue
			}
			n++
			c.Guarded(fmt.Sprintf("%s.updateDatabags#fresh-account-map-only-when-none#%d", pkg, n), ud, mu, []Clause{{acctNil, acctAbsent}}, &GOpt{NoVacuity: true})
		}
	}
	// what is stored is that map
	stSet := P.FuncObj("overlord/state.(*State).Set")
	okSet := false
	for _, cc := range CallSites(ud, stSet) {
		if k, ok := ConstString(CallArgs(cc)[0]); ok && k == "registry-databags" {
			if u, ok := Strip(CallArgs(cc)[1]).(*ssa.UnOp); ok && u.X == ssa.Value(cell) {
				okSet = true
			}
			if DependsOnLoad(CallArgs(cc)[1], cell) {
				okSet = true
			}
		}
	}
	c.Check(okSet, pkg+".updateDatabags#writes-back-what-it-read", ud.Pos(), "st.Set(\"registry-databags\", databags) with the map that was read", "updateDatabags does not write back the map it read from the state")
}

// runC14y: the rule behind finding F12.
func runC14y(c *Ctx) {
	P := c.P
	pkg := "overlord/snapstate"
	c.Rule("C14-R9", "L", "checkChangeConflictExclusiveKinds passes over an unready change without a verdict only if it is the change to ignore, or no exclusive change is being started: every other unready change either is exclusive itself or blocks the new exclusive change", 1)
	fn := P.Func(pkg + ".checkChangeConflictExclusiveKinds")
	changes := P.FuncObj("overlord/state.(*State).Changes")
	loops := LoopsOver(fn, VRes(0, ToFn(changes)))
	if len(loops) != 1 {
		c.Undecided(pkg+".checkChangeConflictExclusiveKinds#loop", fn.Pos(), fmt.Sprintf("expected one loop over st.Changes(), found %d", len(loops)))
		return
	}
	ready := P.FuncObj("overlord/state.Status.Ready")
	chgID := P.FuncObj("overlord/state.(*Change).ID")
	isReady := TrueRes("chg.Status().Ready()", true, 0, ToFn(ready))
	ignored := Cmp("chg.ID()==ignoreChangeID", VRes(0, ToFn(chgID)), token.EQL, VParam(fn, 2))
	notExclusive := Cmp("newExclusiveChangeKind==\"\"", VParam(fn, 1), token.EQL, VConstStr(""))
	c.LatchGated(pkg+".checkChangeConflictExclusiveKinds#unready-change-skipped-only-when-ignored", loops[0], []Clause{{isReady, ignored, notExclusive}})
}

// runC15y: the rule behind known finding F14.
func runC15y(c *Ctx) {
	P := c.P
	pkg := "overlord/snapstate"
	c.Rule("C15-R7", "G", "doLinkSnap moves a snap's last-refresh time (the origin of the 90-day bound on holds) only when it links a revision other than the one that was current: linking the current revision again (snap enable) is not a refresh", 1)
	dl := P.Func(pkg + ".(*SnapManager).doLinkSnap")
	fLRT := P.Field(pkg + ".SnapState.LastRefreshTime")
	fCurrent := P.Field(pkg + ".SnapState.Current")
	fRevert := P.Field(pkg + ".SnapSetup.Revert")
	timeNow := P.Global(pkg + ".timeNow")
	n := 0
	for _, st := range StoresToField(dl, fLRT) {
		// only the store of a fresh "now"
		isNow := false
		if al, ok := Strip(st.Val).(*ssa.Alloc); ok && al.Referrers() != nil {
			for _, r := range *al.Referrers() {
				if s2, ok := r.(*ssa.Store); ok && s2.Addr == ssa.Value(al) {
					if cc, _, ok := CallResult(s2.Val); ok && ViaGlobal(timeNow)(cc) {
						isNow = true
					}
				}
			}
		}
		if !isNow {
			continue
		}
		n++
		revisionChanged := Atom{Name: "linked revision != previously current revision", Match: func(cd Cond) Pol {
			if cd.Bin == nil {
				return PolNone
			}
			isCur := func(v ssa.Value) bool {
				return VField(fCurrent)(v) || DependsOn(v, VField(fCurrent)) || VCellAll(VField(fCurrent))(v)
			}
			p := cd.CmpIs(token.NEQ, isCur, anyVal)
			if p == PolNone {
				p = cd.CmpIs(token.NEQ, anyVal, isCur)
			}
			return p
		}}
		_ = fRevert
		c.Guarded(fmt.Sprintf("%s.(*SnapManager).doLinkSnap#last-refresh-time-moves-only-on-revision-change#%d", pkg, n), dl, st, []Clause{{revisionChanged}}, &GOpt{NoVacuity: true})
	}
	if n == 0 {
		c.Undecided(pkg+".(*SnapManager).doLinkSnap#last-refresh-time", dl.Pos(), "the store of LastRefreshTime = now was not found")
	}
}
