package main

// Rules added after the second round of seeded changes (DESIGN.md section 12.3): each
// was written because a change that breaks the property was not reported, and each states
// a structural fact that holds on every path of today's tree.

import (
	"fmt"
	"go/token"
	"go/types"
	"strings"

	"golang.org/x/tools/go/ssa"
)

// runClosure returns the completion closure of TaskRunner.run (the function passed to tomb.Go).
func runClosure(P *Prog) *ssa.Function {
	run := P.Func("overlord/state.(*TaskRunner).run")
	var best *ssa.Function
	setStatus := P.FuncObj("overlord/state.(*Task).SetStatus")
	for _, af := range run.AnonFuncs {
		if len(CallSites(af, setStatus)) > 0 {
			best = af
		}
	}
	return best
}

func runC02x(c *Ctx) {
	P := c.P
	c.Rule("C02-R7", "G", "run's completion closure: a handler's Retry{After: d}, d != 0, always reschedules the task with t.At (whatever the direction), unless the task was aborted meanwhile", 1)
	cl := runClosure(P)
	if cl == nil {
		c.Undecided("overlord/state.(*TaskRunner).run#completion-closure", token.NoPos, "completion closure not found")
		return
	}
	atObj := P.FuncObj("overlord/state.(*Task).At")
	statusObj := P.FuncObj("overlord/state.(*Task).Status")
	retryT := types.NewPointer(P.NamedType("overlord/state.Retry"))
	fAfter := P.Field("overlord/state.Retry.After")
	isRetry := TypeIs("err.(*Retry)", anyVal, retryT)
	noDelay := Cmp("x.After==0", VField(fAfter), token.EQL, VConstInt(0))
	aborted := Cmp("t.Status()==AbortStatus", VRes(0, ToFn(statusObj)), token.EQL, VConstObj(P.Const("overlord/state.AbortStatus")))
	found := 0
	for _, b := range cl.Blocks {
		for si := range b.Succs {
			if !AtomEdges(isRetry)(b, si) {
				continue
			}
			// only the second type switch (the one that acts on the value) leads to t.At
			if !(ReachQ{Fn: cl, From: &Loc{b.Succs[si], -1}, Sink: SinkCall(atObj)}).Run().Found {
				continue
			}
			found++
			r := ReachQ{Fn: cl, From: &Loc{b.Succs[si], -1}, CutInstr: func(in ssa.Instruction) bool { _, ok := IsCallTo(in, atObj); return ok },
				CutEdge: OrCutEdges(AtomEdges(noDelay, aborted), AtomEdges(Not(isRetry))),
				Sink:    func(in ssa.Instruction) bool { _, ok := in.(*ssa.Return); return ok }}.Run()
			c.Check(!r.Found, fmt.Sprintf("overlord/state.(*TaskRunner).run#retry-delay-honoured#%d", found), b.Instrs[len(b.Instrs)-1].Pos(), "Retry{After!=0} => t.At(now+After) unless aborted", "a handler's request to be retried after a delay can be dropped (the task is re-run at the next ensure pass instead): "+P.PathString(r.Path))
		}
	}
	if found == 0 {
		c.Undecided("overlord/state.(*TaskRunner).run#retry-delay-honoured", cl.Pos(), "the *Retry branch leading to t.At was not found")
	}
}

func runC03x(c *Ctx) {
	P := c.P
	c.Rule("C03-R8", "O+W", "a task set to Error always gets an ERROR log entry (Change.Err is built from those); taskEffectiveStatus looks through Wait unconditionally; only the task-status path decides that a change became ready", 5)
	cl := runClosure(P)
	setStatus := P.FuncObj("overlord/state.(*Task).SetStatus")
	errorf := P.FuncObj("overlord/state.(*Task).Errorf")
	errConst := P.Const("overlord/state.ErrorStatus")
	if cl == nil {
		c.Undecided("overlord/state.(*TaskRunner).run#completion-closure", token.NoPos, "completion closure not found")
	} else {
		n := 0
		for _, cc := range CallSites(cl, setStatus) {
			if !VConstObj(errConst)(cc.Common().Args[1]) {
				continue
			}
			n++
			r := ReachQ{Fn: cl, From: LocOf(cc), CutInstr: func(in ssa.Instruction) bool { _, ok := IsCallTo(in, errorf); return ok },
				Sink: func(in ssa.Instruction) bool { _, ok := in.(*ssa.Return); return ok }}.Run()
			c.Check(!r.Found, fmt.Sprintf("overlord/state.(*TaskRunner).run#error-status-has-error-log#%d", n), cc.Pos(), "SetStatus(ErrorStatus) is followed by t.Errorf on every path", "a task can end in Error without an ERROR log entry: Change.Err() then omits it (or reports an internal inconsistency): "+P.PathString(r.Path))
		}
		if n == 0 {
			c.Undecided("overlord/state.(*TaskRunner).run#error-status-has-error-log", cl.Pos(), "SetStatus(ErrorStatus) not found in the completion closure")
		}
	}
	// taskEffectiveStatus
	tes := P.Func("overlord/state.taskEffectiveStatus")
	statusObj := P.FuncObj("overlord/state.(*Task).Status")
	waited := P.FuncObj("overlord/state.(*Task).WaitedStatus")
	isWait := Cmp("status==WaitStatus", VRes(0, ToFn(statusObj)), token.EQL, VConstObj(P.Const("overlord/state.WaitStatus")))
	sawWaited := false
	for i, lf := range ReturnLeaves(tes, 0) {
		key := fmt.Sprintf("overlord/state.taskEffectiveStatus#result#%d", i+1)
		switch {
		case VRes(0, ToFn(waited))(lf.Val):
			sawWaited = true
			c.GuardedFlow(key+"-waited", tes, lf, []Clause{{isWait}}, nil)
		case VRes(0, ToFn(statusObj))(lf.Val):
			c.GuardedFlow(key+"-own<=not-waiting", tes, lf, []Clause{{Not(isWait)}}, nil)
		default:
			c.Violated(key, lf.Pos(), "taskEffectiveStatus yields something other than the task's status or its waited status")
		}
	}
	c.Check(sawWaited, "overlord/state.taskEffectiveStatus#looks-through-wait", tes.Pos(), "Wait => WaitedStatus()", "taskEffectiveStatus no longer looks through WaitStatus")
	// who decides readiness
	allowed := map[string]map[string]string{
		"detectChangeReady": {"overlord/state.(*Change).taskStatusChanged": "a task went from unready to ready or back"},
		"markReady": {"overlord/state.(*Change).detectChangeReady": "every task is ready",
			"overlord/state.(*Change).SetStatus": "explicit ready status set on the change"},
	}
	for name, who := range allowed {
		obj := P.FuncObj("overlord/state.(*Change)." + name)
		for _, u := range P.UsesOf(obj) {
			caller := "?"
			if u.Fn != nil {
				caller = SSAFuncName(u.Fn)
			}
			_, ok := who[caller]
			c.Check(ok && u.AsCall, "overlord/state.(*Change)."+name+"#caller:"+caller, u.Instr.Pos(), "called from "+caller+" ("+who[caller]+")", name+" is called from "+caller+": readiness (and with it the ready time that pruning uses) must only follow from task status changes")
		}
	}
}

func runC05x(c *Ctx) {
	P := c.P
	c.Rule("C05-R6", "S", "what the reader validates the writer validates: Warning.validate (run on every warning at load) reads only fields that AddWarning has set when it validates a new warning", 3)
	val := P.Func("overlord/state.(*Warning).validate")
	valObj := P.FuncObj("overlord/state.(*Warning).validate")
	aw := P.Func("overlord/state.(*State).AddWarning")
	calls := CallSites(aw, valObj)
	if len(calls) != 1 {
		c.Undecided("overlord/state.(*State).AddWarning#validates", aw.Pos(), fmt.Sprintf("expected one validate() call, found %d", len(calls)))
		return
	}
	// fields set before the validate call
	set := map[*types.Var]bool{}
	for _, b := range aw.Blocks {
		for _, in := range b.Instrs {
			st, ok := in.(*ssa.Store)
			if !ok {
				continue
			}
			fa, ok := st.Addr.(*ssa.FieldAddr)
			if !ok {
				continue
			}
			if !(ReachQ{Fn: aw, From: LocOf(st), Sink: SinkIs(calls[0])}).Run().Found {
				continue
			}
			set[fieldOfAddr(fa)] = true
		}
	}
	n := 0
	seen := map[*types.Var]bool{}
	for _, b := range val.Blocks {
		for _, in := range b.Instrs {
			fa, ok := in.(*ssa.FieldAddr)
			if !ok || !VParam(val, 0)(fa.X) {
				continue
			}
			f := fieldOfAddr(fa)
			if seen[f] {
				continue
			}
			seen[f] = true
			n++
			c.Check(set[f], "overlord/state.(*Warning).validate#field:"+f.Name(), fa.Pos(), "set by AddWarning before it validates", "Warning.validate constrains field "+f.Name()+", which AddWarning has not set when it validates a new warning (and may overwrite later without validating): a state that was written can be refused when it is read back")
		}
	}
	if n == 0 {
		c.Undecided("overlord/state.(*Warning).validate#fields", val.Pos(), "validate reads no field")
	}
}

func runC06x(c *Ctx) {
	P := c.P
	c.Rule("C06-R7", "W+S", "every state.Backend implementation checkpoints through osutil.AtomicWriteFile (temporary name, fsync, rename, directory fsync) and never opens the destination itself", 2)
	atomicWrite := P.FuncObj("osutil.AtomicWriteFile")
	bad := map[string]bool{"os.OpenFile": true, "os.Create": true, "os.WriteFile": true, "io/ioutil.WriteFile": true}
	n := 0
	for _, fn := range P.AllFuncs() {
		if fn.Name() != "Checkpoint" || fn.Signature.Recv() == nil || fn.Signature.Params().Len() != 1 || fn.Signature.Results().Len() != 1 {
			continue
		}
		if fn.Pkg == nil || strings.HasSuffix(fn.Pkg.Pkg.Path(), "/overlord/state") && fn.Signature.Recv().Type().String() == "" {
			continue
		}
		if sl, ok := fn.Signature.Params().At(0).Type().(*types.Slice); !ok || !types.Identical(sl.Elem(), types.Typ[types.Byte]) {
			continue
		}
		name := SSAFuncName(fn)
		c.touch(fn)
		touchesFiles := false
		for _, b := range fn.Blocks {
			for _, in := range b.Instrs {
				if cc, ok := in.(ssa.CallInstruction); ok {
					if co := CalleeOf(cc); co != nil && co.Pkg() != nil {
						switch pp := co.Pkg().Path(); {
						case pp == "os", pp == "io/ioutil", strings.HasSuffix(pp, "/osutil"):
							touchesFiles = true
						}
					}
				}
			}
		}
		if !touchesFiles {
			c.Holds(name+"#keeps-nothing-on-disk", fn.Pos(), "in-memory backend (no call into os, io/ioutil or osutil)")
			continue
		}
		n++
		c.Check(len(CallSites(fn, atomicWrite)) > 0, name+"#atomic-write", fn.Pos(), "writes through osutil.AtomicWriteFile", name+" does not write the checkpoint through osutil.AtomicWriteFile")
		var direct []string
		for _, b := range fn.Blocks {
			for _, in := range b.Instrs {
				if cc, ok := in.(ssa.CallInstruction); ok {
					if co := CalleeOf(cc); co != nil && bad[co.FullName()] {
						direct = append(direct, co.FullName())
					}
				}
			}
		}
		c.Check(len(direct) == 0, name+"#no-direct-open", fn.Pos(), "the destination is never opened under its final name", fmt.Sprintf("%s opens or writes the destination itself (%v): the file exists under its final name before its content is durable", name, direct))
	}
	if n < 2 {
		c.Undecided("state.Backend#implementations", token.NoPos, fmt.Sprintf("expected the overlord backend and the CopyState backend, found %d Checkpoint implementations", n))
	}
}

func runC09x(c *Ctx) {
	P := c.P
	c.Rule("C09-R5", "W", "a change's ready time is stamped only by markReady, and markReady is reached only from task status changes or an explicit Change.SetStatus (C03-R8): adding tasks never makes a change ready", 2)
	fReady := P.Field("overlord/state.Change.readyTime")
	allowed := map[string]string{
		"overlord/state.(*Change).markReady":     "the only stamp",
		"overlord/state.(*Change).UnmarshalJSON": "reads the persisted value",
	}
	n := 0
	for _, st := range P.FieldStores(fReady) {
		name := SSAFuncName(st.Parent())
		n++
		c.touch(st.Parent())
		_, ok := allowed[name]
		c.Check(ok, "field:Change.readyTime#writer:"+name, st.Pos(), allowed[name], "the ready time is stored by "+name)
	}
	if n == 0 {
		c.Undecided("field:Change.readyTime#writers", token.NoPos, "no store to Change.readyTime found")
	}
	addTask := P.Func("overlord/state.(*Change).AddTask")
	c.touch(addTask)
	reaches := len(callsDeep(addTask, P.FuncObj("overlord/state.(*Change).markReady"))) > 0
	c.Check(!reaches, "overlord/state.(*Change).AddTask#does-not-mark-ready", addTask.Pos(), "AddTask never reaches markReady", "Change.AddTask can mark the change ready: a change built from an already finished task first and unfinished tasks afterwards carries a stale ready time and is pruned while unfinished")
}

func runC11x(c *Ctx) {
	P := c.P
	pkg := "overlord/snapstate"
	c.Rule("C11-R5", "O+W", "a handler that has changed snapst.Active but not yet written the state does not hand that snapst to a helper that writes it (the recorded state would say inactive/active while the system still is the other); new local revisions are numbered from LocalRevision(), the minimum over the whole sequence", 4)
	fActive := P.Field(pkg + ".SnapState.Active")
	setObj := P.FuncObj(pkg + ".Set")
	n := 0
	for _, st := range P.FieldStores(fActive) {
		fn := st.Parent()
		if fn.Pkg == nil || !strings.HasSuffix(fn.Pkg.Pkg.Path(), "/"+pkg) || len(CallSites(fn, setObj)) == 0 {
			continue
		}
		fa, ok := st.Addr.(*ssa.FieldAddr)
		if !ok {
			continue
		}
		snapst := Strip(fa.X)
		n++
		name := SSAFuncName(fn)
		c.touch(fn)
		bad := ""
		for _, b := range fn.Blocks {
			for _, in := range b.Instrs {
				cc, ok := in.(ssa.CallInstruction)
				if !ok {
					continue
				}
				if _, isSet := IsCallTo(cc, setObj); isSet {
					continue
				}
				passes := false
				for _, a := range cc.Common().Args {
					if Strip(a) == snapst {
						passes = true
					}
				}
				if !passes {
					continue
				}
				callee := StaticFn(cc)
				if callee == nil || len(callsDeep(callee, setObj)) == 0 {
					continue
				}
				// between the store and the handler's own Set?
				if (ReachQ{Fn: fn, From: LocOf(st), CutInstr: func(x ssa.Instruction) bool { _, is := IsCallTo(x, setObj); return is }, Sink: SinkIs(cc)}).Run().Found {
					bad = SSAFuncName(callee) + " at " + P.Pos(cc.Pos())
				}
			}
		}
		c.Check(bad == "", fmt.Sprintf("%s#uncommitted-active-not-persisted-by-helper#%d", name, n), st.Pos(), "no state-writing helper sees the snapst between the Active change and the handler's own Set", name+" changes snapst.Active and then passes that snapst to "+bad+", which can write it to the state before the backend effect happened: on its error path the snap is recorded with the new Active value while the system still has the old one")
	}
	if n == 0 {
		c.Undecided(pkg+"#active-stores", token.NoPos, "no handler storing SnapState.Active found")
	}
	// local revision numbering
	dp := P.Func(pkg + ".(*SnapManager).doPrepareSnap")
	localRev := P.FuncObj(pkg + ".(*SnapState).LocalRevision")
	fRev := P.Field("snap.SideInfo.Revision")
	sts := StoresToField(dp, fRev)
	if len(sts) == 0 {
		c.Undecided(pkg+".(*SnapManager).doPrepareSnap#local-revision", dp.Pos(), "no store of the new local revision found")
	}
	for i, st := range sts {
		c.Check(c.revisionFrom(st.Val, localRev), fmt.Sprintf("%s.(*SnapManager).doPrepareSnap#local-revision-from-LocalRevision#%d", pkg, i+1), st.Pos(), "numbered below snapst.LocalRevision()", "the revision given to a locally installed snap is not derived from snapst.LocalRevision() (the lowest local revision in the whole sequence): after a revert a kept local revision number is handed out again")
	}
}

// revisionFrom: the stored revision value is (a cell that was initialised from) a call of obj.
func (c *Ctx) revisionFrom(v ssa.Value, obj *types.Func) bool {
	if DependsOnCall(v, obj, func([]ssa.Value) bool { return true }) {
		return true
	}
	// revision := snapst.LocalRevision(); revision.N-- ; ... = revision  (a struct cell)
	if u, ok := Strip(v).(*ssa.UnOp); ok && u.Op == token.MUL {
		if al, ok := u.X.(*ssa.Alloc); ok && al.Referrers() != nil {
			for _, r := range *al.Referrers() {
				if st, ok := r.(*ssa.Store); ok && st.Addr == ssa.Value(al) {
					if DependsOnCall(st.Val, obj, func([]ssa.Value) bool { return true }) {
						return true
					}
				}
			}
		}
	}
	return false
}

func runC12x(c *Ctx) {
	P := c.P
	pkg := "overlord/snapstate"
	c.Rule("C12-R6", "G+W", "inUseFor hands doInstall the verdict of boot.InUse unchanged: its error is returned, and the checker returned is boot.InUse's own (never a stand-in that answers false)", 2)
	iuf := P.Func(pkg + ".inUseFor")
	inUse := P.FuncObj("boot.InUse")
	n := 0
	for _, af := range iuf.AnonFuncs {
		for _, cc := range CallSites(af, inUse) {
			n++
			c.CheckErrPropagated(fmt.Sprintf("%s.inUseFor#boot.InUse-error-returned#%d", pkg, n), af, cc, 1, "boot.InUse")
			okRes := true
			for _, lf := range ReturnLeaves(af, 0) {
				if IsNilConst(lf.Val) || VRes(0, ToFn(inUse))(lf.Val) {
					continue
				}
				okRes = false
			}
			c.Check(okRes, fmt.Sprintf("%s.inUseFor#checker-is-boot.InUse's#%d", pkg, n), cc.Pos(), "the in-use checker is the one boot.InUse returned", "inUseFor can return an in-use checker that is not boot.InUse's: revisions needed for booting would be garbage collected")
		}
	}
	if n == 0 {
		c.Undecided(pkg+".inUseFor#boot.InUse", iuf.Pos(), "boot.InUse call not found")
	}
}

func runC13x(c *Ctx) {
	P := c.P
	pkg := "overlord/snapstate"
	c.Rule("C13-R6", "G", "collectCurrentSnapsAndActions: when everything is refreshed, the revisions blocked by a revert are sent for every snap an action is created for - the Block assignment depends on nothing but the refresh-all flag", 1)
	fn := P.Func(pkg + ".collectCurrentSnapsAndActions")
	fBlock := P.Field("store.CurrentSnap.Block")
	blockObj := P.FuncObj(pkg + ".(*SnapState).Block")
	n := 0
	for _, af := range append([]*ssa.Function{fn}, fn.AnonFuncs...) {
		for _, st := range StoresToField(af, fBlock) {
			n++
			c.touch(af)
			key := fmt.Sprintf("%s.collectCurrentSnapsAndActions#block-sent#%d", pkg, n)
			c.Check(VRes(0, ToFn(blockObj))(st.Val), key+"-value", st.Pos(), "installed.Block = snapst.Block()", "the blocked revisions sent to the store are not snapst.Block()")
			// the action being recorded: the map update of actionsByUserID in the same function
			var rec ssa.Instruction
			for _, b := range af.Blocks {
				for _, in := range b.Instrs {
					if mu, ok := in.(*ssa.MapUpdate); ok {
						if _, isSl := mu.Value.Type().Underlying().(*types.Slice); isSl {
							rec = mu
						}
					}
				}
			}
			if rec == nil {
				c.Undecided(key+"-action-recorded", af.Pos(), "the place where the action is recorded was not found")
				continue
			}
			// conditions that decide whether the Block store runs but not whether the action is recorded
			var own []string
			recCtl := map[*ssa.BasicBlock]bool{}
			for _, b := range controllingIfs(af, rec.Block()) {
				recCtl[b] = true
			}
			for _, b := range controllingIfs(af, st.Block()) {
				if recCtl[b] {
					continue
				}
				cd := Decompose(b.Instrs[len(b.Instrs)-1].(*ssa.If).Cond)
				isFlag := false
				if cd.Val != nil {
					if u, ok := cd.Val.(*ssa.UnOp); ok {
						_, isFlag = u.X.(*ssa.FreeVar)
					}
					if _, ok := cd.Val.(*ssa.FreeVar); ok {
						isFlag = true
					}
					if _, ok := cd.Val.(*ssa.Parameter); ok {
						isFlag = true
					}
				}
				if !isFlag {
					own = append(own, P.Pos(b.Instrs[len(b.Instrs)-1].Pos()))
				}
			}
			c.Check(len(own) == 0, key+"-only-under-refresh-all", st.Pos(), "guarded by the refresh-all flag alone", fmt.Sprintf("whether the blocked revisions are sent also depends on the condition(s) at %v: a snap can get a refresh action in a refresh-all run without its reverted-from revisions being blocked", own))
		}
	}
	if n == 0 {
		c.Undecided(pkg+".collectCurrentSnapsAndActions#block-sent", fn.Pos(), "the assignment of CurrentSnap.Block was not found")
	}
}
