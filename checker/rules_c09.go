package main

import (
	"fmt"
	"go/token"
	"go/types"

	"golang.org/x/tools/go/ssa"
)

func init() {
	register(&Property{
		ID:          "C09",
		Roots:       []string{"overlord/state"},
		Technique:   "guarded-sink, loop-latch and ordering reachability on the SSA CFG of State.Prune (alternative gate sets per deletion site)",
		Explanation: "Structural necessary conditions for 'pruning removes only finished changes, together with all their tasks': (R1) each deletion from the change table in State.Prune is either the empty-unready case (ready time zero ∧ spawned before the prune limit ∧ no tasks) or the ready case (ready time non-zero ∧ (ready before the prune limit | more ready changes than the maximum)), with the limits computed as now-pruneWait / now-abortWait; (R2) in the ready case the change is deleted only after the loop that deletes every one of its tasks from the task table was exhausted, every iteration deleting, and the ready counter is decremented; (R3) AbortUnreadyLanes is reached only for a change with zero ready time, spawned before the abort limit (spawn time clamped to the start of operation), after the loop over the pending-change predicates advanced only across predicates that do not claim it; (R4) warnings, notices and orphan tasks are deleted only across their expiry tests.",
		NotDecided:  "oldest-first ordering among ready changes (sort correctness); clock arithmetic; that the predicates answer correctly.",
		Run:         func(c *Ctx) { runC09(c); runC09x(c) },
	})
}

func runC09(c *Ctx) {
	P := c.P
	pr := P.Func("overlord/state.(*State).Prune")
	fChanges := P.Field("overlord/state.State.changes")
	fTasks := P.Field("overlord/state.State.tasks")
	readyTime := P.FuncObj("overlord/state.(*Change).ReadyTime")
	spawnTime := P.FuncObj("overlord/state.(*Change).SpawnTime")
	chTasks := P.FuncObj("overlord/state.(*Change).Tasks")
	isZero := P.FuncObj("time.Time.IsZero")
	before := P.FuncObj("time.Time.Before")
	timeAdd := P.FuncObj("time.Time.Add")
	limitOf := func(param int) func(ssa.Value) bool {
		return VRes(0, CallWhere(ToFn(timeAdd), 1, func(v ssa.Value) bool {
			u, ok := Strip(v).(*ssa.UnOp)
			return ok && u.Op == token.SUB && IsParam(u.X, pr, param)
		}))
	}
	pruneLimit, abortLimit := limitOf(2), limitOf(3)
	zeroReady := TrueRes("chg.ReadyTime().IsZero()", true, 0, CallWhere(ToFn(isZero), 0, VRes(0, ToFn(readyTime))))
	spawnOrStart := func(v ssa.Value) bool {
		for _, l := range phiLeavesOf(v) {
			if !VRes(0, ToFn(spawnTime))(l) && !IsParam(l, pr, 1) {
				return false
			}
		}
		return true
	}
	spawnOld := TrueRes("spawnTime.Before(pruneLimit)", true, 0, CallWhere(CallWhere(ToFn(before), 0, spawnOrStart), 1, pruneLimit))
	noTasks := Cmp("len(chg.Tasks())==0", VLen(VRes(0, ToFn(chTasks))), token.EQL, VConstInt(0))
	readyOld := TrueRes("readyTime.Before(pruneLimit)", true, 0, CallWhere(CallWhere(ToFn(before), 0, VRes(0, ToFn(readyTime))), 1, pruneLimit))
	tooMany := Cmp("readyChangesCount>maxReadyChanges", anyVal, token.GTR, VParam(pr, 4))

	isDeleteOf := func(f func(ssa.Value) bool) func(ssa.Instruction) bool {
		return func(in ssa.Instruction) bool {
			ci, ok := in.(*ssa.Call)
			if !ok {
				return false
			}
			bi, ok := ci.Call.Value.(*ssa.Builtin)
			return ok && bi.Name() == "delete" && f(ci.Call.Args[0])
		}
	}
	var chDeletes, taskDeletes []ssa.Instruction
	for _, b := range pr.Blocks {
		for _, in := range b.Instrs {
			if isDeleteOf(VField(fChanges))(in) {
				chDeletes = append(chDeletes, in)
			}
			if isDeleteOf(VField(fTasks))(in) {
				taskDeletes = append(taskDeletes, in)
			}
		}
	}

	c.Rule("C09-R1", "G", "Prune: delete(s.changes, id) <= (zero ready time ∧ spawnTime.Before(pruneLimit) ∧ no tasks) | (non-zero ready time ∧ (readyTime.Before(pruneLimit) | count > max))", 2)
	specEmpty := []Clause{{zeroReady}, {spawnOld}, {noTasks}}
	specReady := []Clause{{Not(zeroReady)}, {readyOld, tooMany}}
	var readyDeletes []ssa.Instruction
	for i, d := range chDeletes {
		construct := fmt.Sprintf("overlord/state.(*State).Prune#delete-change#%d", i+1)
		switch {
		case c.Try(pr, d, specEmpty, nil):
			c.Guarded(construct, pr, d, specEmpty, nil)
		case c.Try(pr, d, specReady, nil):
			c.Guarded(construct, pr, d, specReady, nil)
			readyDeletes = append(readyDeletes, d)
		default:
			// report against the closer specification
			if c.Try(pr, d, []Clause{{zeroReady}}, nil) {
				c.Guarded(construct, pr, d, specEmpty, nil)
			} else {
				c.Guarded(construct, pr, d, specReady, nil)
			}
		}
		// the key deleted is the change's own id
		ci := d.(*ssa.Call)
		c.Check(VRes(0, ToFn(P.FuncObj("overlord/state.(*Change).ID")))(ci.Call.Args[1]), construct+"-key", d.Pos(), "the entry removed is chg.ID()", "the change-table entry removed is not the inspected change's own id")
	}
	if len(chDeletes) != 2 {
		c.Undecided("overlord/state.(*State).Prune#delete-change-count", pr.Pos(), fmt.Sprintf("expected two change deletions (empty-unready and ready), found %d", len(chDeletes)))
	}
	// limits are anchored at one clock reading
	c.Check(CountAtomEdges(pr, spawnOld) > 0 && CountAtomEdges(pr, readyOld) > 0, "overlord/state.(*State).Prune#limits", pr.Pos(), "both age tests compare against now.Add(-pruneWait)", "the prune limit is no longer now-pruneWait in both age tests")

	c.Rule("C09-R2", "L+O", "ready case: every task of the change is deleted from s.tasks before the change is; the ready counter is decremented", 3)
	tl := LoopsOver(pr, VRes(0, ToFn(chTasks)))
	if len(tl) != 1 || len(readyDeletes) != 1 {
		c.Undecided("overlord/state.(*State).Prune#tasks-loop", pr.Pos(), fmt.Sprintf("expected one loop over chg.Tasks() and one ready-case deletion, found %d / %d", len(tl), len(readyDeletes)))
	} else {
		rl := tl[0]
		q := ReachQ{Fn: pr, From: &Loc{rl.Body, -1},
			CutInstr: func(in ssa.Instruction) bool {
				if !isDeleteOf(VField(fTasks))(in) {
					return false
				}
				return VRes(0, RecvWhere(ToFn(P.FuncObj("overlord/state.(*Task).ID")), VIs(rl.Elem)))(in.(*ssa.Call).Call.Args[1])
			},
			CutEdge:  func(b *ssa.BasicBlock, s int) bool { return b.Succs[s] == rl.Done },
			SinkEdge: func(b *ssa.BasicBlock, s int) bool { return b.Succs[s] == rl.Header }}
		r := q.Run()
		c.Check(!r.Found, "overlord/state.(*State).Prune#every-task-deleted", rl.Body.Instrs[0].Pos(), "each iteration deletes the task's own id from s.tasks", "a task of a pruned change can be left in the task table: "+P.PathString(r.Path))
		c.ThroughLoop("overlord/state.(*State).Prune#tasks-before-change", rl, FlowPoint{Instr: readyDeletes[0]})
		// counter decrement after the deletion, before the next change
		dec := func(in ssa.Instruction) bool {
			bo, ok := in.(*ssa.BinOp)
			return ok && bo.Op == token.SUB && VConstInt(1)(bo.Y)
		}
		var outer *RangeLoop
		for _, x := range RangeLoops(pr) {
			if x.Header != rl.Header && x.Body.Dominates(rl.Header) && (outer == nil || outer.Body.Dominates(x.Header)) {
				outer = x
			}
		}
		if outer == nil {
			c.Undecided("overlord/state.(*State).Prune#changes-loop", pr.Pos(), "outer loop over changes not found")
		} else {
			q := ReachQ{Fn: pr, From: LocOf(readyDeletes[0]), CutInstr: dec, SinkEdge: func(b *ssa.BasicBlock, s int) bool { return b.Succs[s] == outer.Header }}
			r := q.Run()
			c.Check(!r.Found, "overlord/state.(*State).Prune#counter-decremented", readyDeletes[0].Pos(), "readyChangesCount is decremented after each ready deletion", "the ready-change counter is not decremented after a deletion: more changes than necessary would be pruned")
		}
	}

	c.Rule("C09-R3", "G+L", "AbortUnreadyLanes <= zero ready time ∧ spawnTime(clamped).Before(abortLimit) ∧ no pending predicate claims the change", 4)
	abortUnready := P.FuncObj("overlord/state.(*Change).AbortUnreadyLanes")
	fPending := P.Field("overlord/state.State.pendingChangeByAttr")
	spawnAbort := TrueRes("spawnTime.Before(abortLimit)", true, 0, CallWhere(CallWhere(ToFn(before), 0, spawnOrStart), 1, abortLimit))
	aus := CallSites(pr, abortUnready)
	pl := LoopsOver(pr, VField(fPending))
	for i, ac := range aus {
		c.Guarded(fmt.Sprintf("overlord/state.(*State).Prune#abort-unready#%d", i+1), pr, ac, []Clause{{zeroReady}, {spawnAbort}}, nil)
		for _, rl := range pl {
			// within one iteration of the changes loop
			c.ThroughLoop(fmt.Sprintf("overlord/state.(*State).Prune#abort-after-pending-loop#%d", i+1), rl, FlowPoint{Instr: ac})
		}
	}
	if len(aus) > 0 && len(pl) == 0 {
		// the predicate loop behind a boolean helper: if !s.pendingByAttr(chg) { chg.AbortUnreadyLanes() }
		for _, h := range P.LocalCallees(pr) {
			hl := LoopsOver(h, VField(fPending))
			obj, isF := h.Object().(*types.Func)
			if len(hl) != 1 || !isF || h.Signature.Results().Len() != 1 {
				continue
			}
			c.touch(h)
			notPending := TrueRes("!"+h.Name()+"(chg)", false, 0, ToFn(obj))
			for i, ac := range aus {
				c.Guarded(fmt.Sprintf("overlord/state.(*State).Prune#abort-after-pending-loop#%d", i+1), pr, ac, []Clause{{notPending}}, nil)
			}
			nf := 0
			for _, lf := range ReturnLeaves(h, 0) {
				if bv, isC := ConstBool(lf.Val); isC && !bv {
					nf++
					c.ThroughLoop(fmt.Sprintf("overlord/state.(*State).Prune#not-pending-only-after-all-predicates#%d", nf), hl[0], lf)
				} else if !isC {
					c.Undecided("overlord/state.(*State).Prune#pending-helper-verdict", lf.Pos(), "the pending helper returns a computed value")
				}
			}
			if nf > 0 {
				pl = hl
			}
		}
	}
	if len(aus) == 0 || len(pl) != 1 {
		c.Undecided("overlord/state.(*State).Prune#abort-unready", pr.Pos(), "AbortUnreadyLanes call or pending-predicate loop not found")
	} else {
		rl := pl[0]
		has := P.FuncObj("overlord/state.(*Change).Has")
		c.LatchGated("overlord/state.(*State).Prune#pending-loop", rl, []Clause{{
			TrueRes("!chg.Has(attr)", false, 0, CallWhere(ToFn(has), 1, VIs(rl.Index))),
			TrueRes("!pending(chg)", false, 0, DynCallOf(VIs(rl.Elem))),
		}})
	}
	// clamp: the spawn time compared is max(spawn, startOfOperation)
	okClamp := false
	for _, b := range pr.Blocks {
		for _, in := range b.Instrs {
			phi, ok := in.(*ssa.Phi)
			if !ok {
				break
			}
			hasSpawn, hasStart := false, false
			var startFP FlowPoint
			var fps []FlowPoint
			phiLeaves(phi, nil, &fps, map[*ssa.Phi]bool{})
			for _, fp := range fps {
				if VRes(0, ToFn(spawnTime))(fp.Val) {
					hasSpawn = true
				}
				if IsParam(fp.Val, pr, 1) {
					hasStart = true
					startFP = fp
				}
			}
			if hasSpawn && hasStart {
				// the start-of-operation value enters only when spawnTime.Before(startOfOperation)
				q := ReachQ{Fn: pr, CutEdge: AtomEdges(TrueRes("spawnTime.Before(startOfOperation)", true, 0, CallWhere(CallWhere(ToFn(before), 0, VRes(0, ToFn(spawnTime))), 1, VParam(pr, 1)))),
					SinkEdge: func(bb *ssa.BasicBlock, s int) bool { return bb == startFP.EdgeFrom && s == startFP.EdgeSucc }}
				okClamp = !q.Run().Found
			}
		}
	}
	c.Check(okClamp, "overlord/state.(*State).Prune#spawn-clamp", pr.Pos(), "the spawn time used is clamped up to the start of operation", "the spawn time is no longer clamped to the start of operation: changes created while snapd was stopped would be aborted immediately")

	c.Rule("C09-R4", "G", "warnings / notices / orphan tasks are deleted only across their expiry tests", 3)
	fWarn, fNot := P.Field("overlord/state.State.warnings"), P.Field("overlord/state.State.notices")
	expW := P.FuncObj("overlord/state.(*Warning).ExpiredBefore")
	expN := P.FuncObj("overlord/state.(*Notice).expired")
	taskChange := P.FuncObj("overlord/state.(*Task).Change")
	taskSpawn := P.FuncObj("overlord/state.(*Task).SpawnTime")
	n := 0
	for _, b := range pr.Blocks {
		for _, in := range b.Instrs {
			switch {
			case isDeleteOf(VField(fWarn))(in):
				n++
				c.Guarded(fmt.Sprintf("overlord/state.(*State).Prune#delete-warning#%d", n), pr, in, []Clause{{TrueRes("w.ExpiredBefore(now)", true, 0, ToFn(expW))}}, nil)
			case isDeleteOf(VField(fNot))(in):
				n++
				c.Guarded(fmt.Sprintf("overlord/state.(*State).Prune#delete-notice#%d", n), pr, in, []Clause{{TrueRes("n.expired(now)", true, 0, ToFn(expN))}}, nil)
			}
		}
	}
	for i, d := range taskDeletes {
		// the one not inside the chg.Tasks() loop is the orphan sweep
		inChangeLoop := false
		for _, rl := range tl {
			if rl.Header.Dominates(d.Block()) {
				inChangeLoop = true
			}
		}
		if inChangeLoop {
			continue
		}
		c.Guarded(fmt.Sprintf("overlord/state.(*State).Prune#delete-orphan-task#%d", i+1), pr, d, []Clause{
			{Cmp("t.Change()==nil", VRes(0, ToFn(taskChange)), token.EQL, isNilVal)},
			{TrueRes("t.SpawnTime().Before(pruneLimit)", true, 0, CallWhere(CallWhere(ToFn(before), 0, VRes(0, ToFn(taskSpawn))), 1, pruneLimit))},
		}, nil)
	}
}
