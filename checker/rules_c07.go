package main

import (
	"fmt"
	"go/token"
	"go/types"
	"sort"
	"strings"

	"golang.org/x/tools/go/ssa"
)

func init() {
	register(&Property{
		ID:          "C07",
		Roots:       []string{"overlord/state", "overlord", "overlord/hookstate", "overlord/snapstate", "overlord/ifacestate", "overlord/devicestate"},
		Technique:   "loop-latch gating of the runner's blocked-predicate loop and of each of the four exclusion predicates; who-may-call of AddBlocked/SetBlocked and of the tomb map; registration-table check of the interface task kinds",
		Explanation: "Structural necessary conditions for 'serialized task kinds never run concurrently': (R1) Ensure's `running` list starts from every tomb, is the list handed to each predicate and is extended with every task it starts; tombs are registered before the goroutine starts (C02-R5) and deleted only in the completion closures after r.mu is taken; (R2) each of the four exclusion predicates (prerequisites, run-hook per snap, interface tasks, update-gadget-assets), under its precondition on the candidate, answers non-true only after its loop over the running tasks advanced solely across tasks outside the exclusion class; (R3) every interface task kind except hotplug-seq-wait is registered through the closure that also records it in the exclusion set; (R4) the overlord creates one TaskRunner, hands it to the hook, snap, interface and device managers, and each registers its predicate with AddBlocked exactly once; (R5) nothing calls SetBlocked (which would replace all predicates).",
		NotDecided:  "that hook-setup's snap name is the right exclusion key for every hook; exclusion across different runner instances (there is one).",
		Assumptions: []string{"blocked predicates are pure (they do not start tasks themselves)"},
		Run:         runC07,
	})
}

func runC07(c *Ctx) {
	P := c.P
	ens := P.Func("overlord/state.(*TaskRunner).Ensure")
	fTombs := P.Field("overlord/state.TaskRunner.tombs")
	fBlocked := P.Field("overlord/state.TaskRunner.blocked")
	runObj := P.FuncObj("overlord/state.(*TaskRunner).run")
	kindObj := P.FuncObj("overlord/state.(*Task).Kind")

	c.Rule("C07-R1", "L+G", "Ensure: `running` = all tombs + every task started in this pass, and is what the predicates see; tombs deleted only in completion closures under r.mu", 5)
	// loop over r.tombs appends state.Task(tid)
	tl := LoopsOver(ens, VField(fTombs))
	isAppend := func(in ssa.Instruction) (*ssa.Call, bool) {
		ci, ok := in.(*ssa.Call)
		if !ok {
			return nil, false
		}
		bi, ok := ci.Call.Value.(*ssa.Builtin)
		return ci, ok && bi.Name() == "append"
	}
	stTask := P.FuncObj("overlord/state.(*State).Task")
	if len(tl) != 1 {
		c.Undecided("overlord/state.(*TaskRunner).Ensure#tombs-loop", ens.Pos(), fmt.Sprintf("expected one loop over r.tombs, found %d", len(tl)))
	} else {
		rl := tl[0]
		taskOf := VRes(0, CallWhere(ToFn(stTask), 1, VIs(rl.Index)))
		q := ReachQ{Fn: ens, From: &Loc{rl.Body, -1},
			CutInstr: func(in ssa.Instruction) bool {
				ci, ok := isAppend(in)
				if !ok {
					return false
				}
				for _, e := range VarargElems(ci.Call.Args[1]) {
					if e != nil && taskOf(e) {
						return true
					}
				}
				return false
			},
			CutEdge: func(b *ssa.BasicBlock, s int) bool {
				return AtomEdges(Cmp("t==nil", taskOf, token.EQL, isNilVal))(b, s) || b.Succs[s] == rl.Done
			},
			SinkEdge: func(b *ssa.BasicBlock, s int) bool { return b.Succs[s] == rl.Header }}
		r := q.Run()
		c.Check(!r.Found, "overlord/state.(*TaskRunner).Ensure#running-from-tombs", rl.Body.Instrs[0].Pos(), "every tomb whose task exists is put on the running list", "a running task (tomb) can be left out of the list the predicates see: "+P.PathString(r.Path))
	}
	runs := CallSites(ens, runObj)
	bl := LoopsOver(ens, VField(fBlocked))
	// the predicate loop may be a boolean helper of Ensure (isBlocked(t, running)): then the call of the
	// helper is where the predicates are consulted, and its list argument is what they see
	var blockedHelperCall ssa.CallInstruction
	blockedListArg := -1
	if len(bl) == 0 {
		for _, hc := range localCalls(ens) {
			hl := LoopsOver(hc.h, VField(fBlocked))
			if len(hl) != 1 || hc.cc.Parent() != ens {
				continue
			}
			// which parameter is handed on to the predicates as the running list
			for _, pc := range CallsMatching(hc.h, DynCallOf(VIs(hl[0].Elem))) {
				a := pc.Common().Args
				if len(a) == 2 {
					for j, hp := range hc.h.Params {
						if Strip(a[1]) == ssa.Value(hp) || a[1] == ssa.Value(hp) {
							blockedListArg = j
						}
					}
				}
			}
			if blockedListArg >= 0 {
				blockedHelperCall = hc.cc
				c.touch(hc.h)
			}
		}
	}
	if len(runs) == 1 && blockedHelperCall != nil {
		rc := runs[0]
		tval := CallArgs(rc)[0]
		q := ReachQ{Fn: ens, From: LocOf(rc),
			CutInstr: func(in ssa.Instruction) bool {
				ci, ok := isAppend(in)
				if !ok {
					return false
				}
				for _, e := range VarargElems(ci.Call.Args[1]) {
					if e != nil && TaskKey(e) == TaskKey(tval) {
						return true
					}
				}
				return false
			},
			Sink: func(in ssa.Instruction) bool { return in == blockedHelperCall.(ssa.Instruction) }}
		r := q.Run()
		c.Check(!r.Found, "overlord/state.(*TaskRunner).Ensure#started-task-joins-running", rc.Pos(), "a task started in this pass is appended to `running` before any predicate is consulted again", "after r.run(t) a predicate can be consulted without t on the running list: two tasks of an exclusive class could start in the same pass; path: "+P.PathString(r.Path))
		okList := false
		for _, l := range phiLeavesOf(blockedHelperCall.Common().Args[blockedListArg]) {
			if ci, ok := l.(*ssa.Call); ok {
				if bi, ok := ci.Call.Value.(*ssa.Builtin); ok && bi.Name() == "append" {
					okList = true
				}
			}
		}
		c.Check(okList, "overlord/state.(*TaskRunner).Ensure#predicates-see-running", blockedHelperCall.Pos(), "predicates receive the accumulated running list", "predicates are not given the accumulated running list")
	} else if len(runs) == 1 && len(bl) == 1 {
		rc := runs[0]
		tval := CallArgs(rc)[0]
		// after run(t): running = append(running, t) before the next iteration
		q := ReachQ{Fn: ens, From: LocOf(rc),
			CutInstr: func(in ssa.Instruction) bool {
				ci, ok := isAppend(in)
				if !ok {
					return false
				}
				for _, e := range VarargElems(ci.Call.Args[1]) {
					if e != nil && TaskKey(e) == TaskKey(tval) {
						return true
					}
				}
				return false
			},
			Sink: func(in ssa.Instruction) bool {
				if _, ok := in.(*ssa.Return); ok {
					return false
				}
				ci, ok := in.(ssa.CallInstruction)
				return ok && DynCallOf(VIs(bl[0].Elem))(ci)
			}}
		r := q.Run()
		c.Check(!r.Found, "overlord/state.(*TaskRunner).Ensure#started-task-joins-running", rc.Pos(), "a task started in this pass is appended to `running` before any predicate is consulted again", "after r.run(t) a predicate can be consulted without t on the running list: two tasks of an exclusive class could start in the same pass; path: "+P.PathString(r.Path))
		// the list handed to the predicates is the running web
		for _, pc := range CallsMatching(ens, DynCallOf(VIs(bl[0].Elem))) {
			okList := false
			for _, l := range phiLeavesOf(pc.Common().Args[1]) {
				if ci, ok := l.(*ssa.Call); ok {
					if bi, ok := ci.Call.Value.(*ssa.Builtin); ok && bi.Name() == "append" {
						okList = true
					}
				}
			}
			c.Check(okList, "overlord/state.(*TaskRunner).Ensure#predicates-see-running", pc.Pos(), "predicates receive the accumulated running list", "predicates are not given the accumulated running list")
		}
	} else {
		c.Undecided("overlord/state.(*TaskRunner).Ensure#shape", ens.Pos(), "run call / blocked loop not found (see C02-R2)")
	}
	// deletes of tombs
	fMu := P.Field("overlord/state.TaskRunner.mu")
	nDel := 0
	for _, fn := range P.FuncsIn("overlord/state") {
		for _, b := range fn.Blocks {
			for _, in := range b.Instrs {
				ci, ok := in.(*ssa.Call)
				if !ok {
					continue
				}
				bi, ok := ci.Call.Value.(*ssa.Builtin)
				if !ok || bi.Name() != "delete" || !IsFieldLoad(ci.Call.Args[0], fTombs) {
					continue
				}
				nDel++
				nm := SSAFuncName(fn)
				okWhere := fn.Parent() != nil && (strings.HasSuffix(SSAFuncName(fn.Parent()), ".run") || strings.HasSuffix(SSAFuncName(fn.Parent()), ".clean"))
				if !okWhere {
					c.Violated("tombs-delete:"+nm, ci.Pos(), "r.tombs entry deleted outside the completion closures of run/clean: a still-running task would disappear from the running list")
					continue
				}
				c.Before(fmt.Sprintf("tombs-delete:%s#%d", nm, nDel), fn, func(in ssa.Instruction) bool {
					cc, ok := in.(ssa.CallInstruction)
					if !ok {
						return false
					}
					if _, isDefer := in.(*ssa.Defer); isDefer {
						return false
					}
					co := CalleeOf(cc)
					if co == nil || co.Name() != "Lock" {
						return false
					}
					fa, ok := CallRecv(cc).(*ssa.FieldAddr)
					return ok && fieldOfAddr(fa) == fMu
				}, "r.mu.Lock()", ci, nil)
			}
		}
	}
	if nDel < 2 {
		c.Undecided("tombs-delete#count", ens.Pos(), fmt.Sprintf("expected deletes in both completion closures, found %d", nDel))
	}

	// ---- R2
	c.Rule("C07-R2", "L", "the four exclusion predicates: under the precondition on the candidate, a non-true answer only after the loop over running advanced solely across tasks outside the class", 11)
	kindIs := func(recv func(ssa.Value) bool, k string) Atom {
		return Cmp(fmt.Sprintf("Kind()==%q", k), VRes(0, RecvWhere(ToFn(kindObj), recv)), token.EQL, VConstStr(k))
	}
	// snapstate
	bt := P.Func("overlord/snapstate.(*SnapManager).blockedTask")
	if ls := LoopsOver(bt, VParam(bt, 2)); len(ls) != 1 {
		c.Undecided("snapstate.blockedTask#loop", bt.Pos(), "loop over running not found")
	} else {
		rl := ls[0]
		c.LatchGated("snapstate.blockedTask#loop", rl, []Clause{{Not(kindIs(VIs(rl.Elem), "prerequisites"))}})
		c01FalseOnlyAfterLoop(c, bt, rl, kindIs(VParam(bt, 1), "prerequisites"), "snapstate.blockedTask#false-after-loop", "a prerequisites task can be declared runnable without inspecting every running task")
	}
	// hookstate closure: find the closure passed to AddBlocked in hookstate.Manager
	addBlocked := P.FuncObj("overlord/state.(*TaskRunner).AddBlocked")
	closureArg := func(fn *ssa.Function) *ssa.Function {
		for _, ci := range CallSites(fn, addBlocked) {
			if mc, ok := CallArgs(ci)[0].(*ssa.MakeClosure); ok {
				return mc.Fn.(*ssa.Function)
			}
			if f, ok := CallArgs(ci)[0].(*ssa.Function); ok {
				return f
			}
		}
		return nil
	}
	hm := P.Func("overlord/hookstate.Manager")
	if hp := closureArg(hm); hp == nil {
		c.Undecided("hookstate.Manager#predicate", hm.Pos(), "closure passed to AddBlocked not found")
	} else {
		getObj := P.FuncObj("overlord/state.(*Task).Get")
		fSnap := P.Field("overlord/hookstate.HookSetup.Snap")
		ls := LoopsOver(hp, VParam(hp, 1))
		if len(ls) != 1 {
			c.Undecided("hookstate.Manager$1#loop", hp.Pos(), "loop over running not found")
		} else {
			rl := ls[0]
			getOf := func(recv func(ssa.Value) bool) CallM {
				return CallWhere(RecvWhere(ToFn(getObj), recv), 1, VConstStr("hook-setup"))
			}
			c.LatchGated("hookstate.Manager$1#loop", rl, []Clause{{
				Not(kindIs(VIs(rl.Elem), "run-hook")),
				Not(NilRes(`t.Get("hook-setup")==nil`, 0, getOf(VIs(rl.Elem)))),
				Cmp("hooksup.Snap!=thisSnapName", VField(fSnap), token.NEQ, VField(fSnap)),
			}})
			arm := NilRes(`thisTask.Get("hook-setup")==nil`, 0, getOf(VParam(hp, 0)))
			c01FalseOnlyAfterLoop(c, hp, rl, arm, "hookstate.Manager$1#false-after-loop", "a run-hook task can be declared runnable without inspecting every running task")
			// the arm is only reached for run-hook candidates
			for _, gc := range CallsMatching(hp, getOf(VParam(hp, 0))) {
				c.Guarded("hookstate.Manager$1#candidate-is-hook", hp, gc, []Clause{{kindIs(VParam(hp, 0), "run-hook")}}, nil)
			}
			// the snap compared is the candidate's: thisSnapName is read before the loop overwrites hooksup
			okCopy := false
			for _, b := range hp.Blocks {
				for _, in := range b.Instrs {
					if bo, ok := in.(*ssa.BinOp); ok && (bo.Op == token.EQL || bo.Op == token.NEQ) {
						xs, ys := IsFieldLoad(bo.X, fSnap), IsFieldLoad(bo.Y, fSnap)
						if xs && ys {
							// one side must be loaded outside the loop (before it), the other inside
							lx, _ := Strip(bo.X).(*ssa.UnOp)
							ly, _ := Strip(bo.Y).(*ssa.UnOp)
							if lx != nil && ly != nil {
								inLoop := func(u *ssa.UnOp) bool { return rl.Header.Dominates(u.Block()) }
								okCopy = inLoop(lx) != inLoop(ly)
							}
						}
					}
				}
			}
			c.Check(okCopy, "hookstate.Manager$1#compares-candidate-snap", hp.Pos(), "the running hook's snap is compared with the candidate's snap name captured before the loop", "the comparison no longer pits the running hook's snap against the candidate's snap")
		}
	}
	// ifacestate closure
	im := P.Func("overlord/ifacestate.Manager")
	var taskKindsCell ssa.Value
	if ip := closureArg(im); ip == nil {
		c.Undecided("ifacestate.Manager#predicate", im.Pos(), "closure passed to AddBlocked not found")
	} else {
		inKinds := func(recv func(ssa.Value) bool) Atom {
			return Atom{Name: "taskKinds[t.Kind()]", Match: func(cd Cond) Pol {
				return cd.BoolIs(func(v ssa.Value) bool {
					lk, ok := Strip(v).(*ssa.Lookup)
					if !ok {
						return false
					}
					if _, isMap := lk.X.Type().Underlying().(*types.Map); !isMap {
						return false
					}
					return VRes(0, RecvWhere(ToFn(kindObj), recv))(lk.Index)
				})
			}}
		}
		ls := LoopsOver(ip, VParam(ip, 1))
		if len(ls) != 1 {
			c.Undecided("ifacestate.Manager$2#loop", ip.Pos(), "loop over running not found")
		} else {
			rl := ls[0]
			c.LatchGated("ifacestate.Manager$2#loop", rl, []Clause{{Not(inKinds(VIs(rl.Elem)))}})
			c01FalseOnlyAfterLoop(c, ip, rl, inKinds(VParam(ip, 0)), "ifacestate.Manager$2#false-after-loop", "an interface task can be declared runnable without inspecting every running task")
		}
		// which map does the predicate consult?
		for _, b := range ip.Blocks {
			for _, in := range b.Instrs {
				if lk, ok := in.(*ssa.Lookup); ok {
					if u, ok := lk.X.(*ssa.UnOp); ok {
						if fv, ok := u.X.(*ssa.FreeVar); ok {
							for i, f := range ip.FreeVars {
								if f == fv {
									for _, ci := range CallSites(im, addBlocked) {
										if mc, ok := CallArgs(ci)[0].(*ssa.MakeClosure); ok {
											taskKindsCell = mc.Bindings[i]
										}
									}
								}
							}
						}
					}
				}
			}
		}
	}
	// devicestate
	gb := P.Func("overlord/devicestate.gadgetUpdateBlocked")
	if ls := LoopsOver(gb, VParam(gb, 1)); len(ls) != 1 {
		c.Undecided("devicestate.gadgetUpdateBlocked#loop", gb.Pos(), "loop over running not found")
	} else {
		rl := ls[0]
		uga := "update-gadget-assets"
		c.LatchGated("devicestate.gadgetUpdateBlocked#loop", rl, []Clause{{Not(kindIs(VIs(rl.Elem), uga))}})
		for i, lf := range ReturnLeaves(gb, 0) {
			if bv, ok := ConstBool(lf.Val); ok && bv {
				continue
			}
			c.ThroughLoop(fmt.Sprintf("devicestate.gadgetUpdateBlocked#false-after-loop#%d", i+1), rl, lf)
		}
		// candidate is update-gadget-assets: non-true only when nothing is running
		n := 0
		for _, b := range gb.Blocks {
			for si := range b.Succs {
				if !AtomEdges(kindIs(VParam(gb, 0), uga))(b, si) {
					continue
				}
				n++
				q := ReachQ{Fn: gb, From: &Loc{b.Succs[si], -1},
					CutEdge: AtomEdges(Cmp("len(running)==0", VLen(VParam(gb, 1)), token.EQL, VConstInt(0))),
					Sink: func(in ssa.Instruction) bool {
						r, ok := in.(*ssa.Return)
						if !ok {
							return false
						}
						for _, l := range phiLeavesOf(r.Results[0]) {
							if v, isC := ConstBool(l); !isC || !v {
								return true
							}
						}
						return false
					}}
				r := q.Run()
				c.Check(!r.Found, fmt.Sprintf("devicestate.gadgetUpdateBlocked#candidate-alone#%d", n), b.Instrs[len(b.Instrs)-1].Pos(), "an update-gadget-assets candidate is admitted only when nothing is running", "an update-gadget-assets task can be admitted while other tasks run: "+P.PathString(r.Path))
			}
		}
		if n == 0 {
			c.Undecided("devicestate.gadgetUpdateBlocked#candidate-arm", gb.Pos(), "candidate kind test not found")
		}
	}

	// ---- R3
	c.Rule("C07-R3", "W", "ifacestate.Manager: every task kind except hotplug-seq-wait is registered through the closure that records it in the exclusion set consulted by the predicate", 13)
	addHandler := P.FuncObj("overlord/state.(*TaskRunner).AddHandler")
	direct := []string{}
	for _, ci := range CallSites(im, addHandler) {
		k, _ := ConstString(CallArgs(ci)[0])
		direct = append(direct, k)
	}
	sort.Strings(direct)
	c.Check(len(direct) == 1 && direct[0] == "hotplug-seq-wait", "ifacestate.Manager#direct-registrations", im.Pos(), "only hotplug-seq-wait (which must not block: it waits for other hotplug changes) bypasses the exclusion set", "task kinds registered without joining the interface exclusion set: "+strings.Join(direct, ", "))
	var reg *ssa.Function
	for _, cl := range im.AnonFuncs {
		if len(CallSites(cl, addHandler)) > 0 {
			reg = cl
		}
	}
	if reg == nil {
		c.Undecided("ifacestate.Manager$1#registrar", im.Pos(), "registration closure not found")
	} else {
		okRec, sameMap := false, false
		for _, b := range reg.Blocks {
			for _, in := range b.Instrs {
				if mu, ok := in.(*ssa.MapUpdate); ok && IsParam(mu.Key, reg, 0) {
					if bv, ok := ConstBool(mu.Value); ok && bv {
						okRec = true
						if u, ok := mu.Map.(*ssa.UnOp); ok {
							if fv, ok := u.X.(*ssa.FreeVar); ok {
								for i, f := range reg.FreeVars {
									if f == fv {
										// binding at the MakeClosure site
										for _, bb := range im.Blocks {
											for _, ii := range bb.Instrs {
												if mc, ok := ii.(*ssa.MakeClosure); ok && mc.Fn == ssa.Value(reg) {
													sameMap = taskKindsCell != nil && mc.Bindings[i] == taskKindsCell
												}
											}
										}
									}
								}
							}
						}
					}
				}
			}
		}
		okKind := false
		for _, ci := range CallSites(reg, addHandler) {
			okKind = IsParam(CallArgs(ci)[0], reg, 0)
		}
		c.Check(okRec && okKind && sameMap, "ifacestate.Manager$1#records-kind", reg.Pos(), "the registrar stores kind in the very map the predicate consults and registers the same kind", "the registration closure no longer records the kind in the map consulted by the blocking predicate")
		// count registrations through the closure
		n := 0
		for _, b := range im.Blocks {
			for _, in := range b.Instrs {
				ci, ok := in.(ssa.CallInstruction)
				if !ok {
					continue
				}
				if sf := StaticFn(ci); sf == reg {
					n++
					k, _ := ConstString(ci.Common().Args[0])
					c.Holds("ifacestate-kind:"+k, ci.Pos(), "registered through the recording closure")
				} else if !ci.Common().IsInvoke() && ci.Common().StaticCallee() == nil {
					// call through the local variable holding the closure
					if mcv, ok := Strip(ci.Common().Value).(*ssa.MakeClosure); ok && mcv.Fn == ssa.Value(reg) {
						n++
						k, _ := ConstString(ci.Common().Args[0])
						c.Holds("ifacestate-kind:"+k, ci.Pos(), "registered through the recording closure")
					}
				}
			}
		}
	}

	// ---- R4
	c.Rule("C07-R4", "W", "overlord.New: one NewTaskRunner, handed to hookstate/snapstate/ifacestate/devicestate Manager; each calls AddBlocked once on it", 9)
	onew := P.Func("overlord.New")
	ntr := CallSites(onew, P.FuncObj("overlord/state.NewTaskRunner"))
	fRunner := P.Field("overlord.Overlord.runner")
	okStore := false
	if len(ntr) == 1 {
		for _, st := range StoresToField(onew, fRunner) {
			if cr, _, ok := CallResult(st.Val); ok && cr == ntr[0] {
				okStore = true
			}
		}
	}
	otherStores := 0
	for _, st := range P.FieldStores(fRunner) {
		if nm := SSAFuncName(st.Parent()); nm != "overlord.New" && nm != "overlord.MockWithState" { // MockWithState: documented test constructor, builds a separate Overlord
			otherStores++
		}
	}
	c.Check(len(ntr) == 1 && okStore && otherStores == 0, "overlord.New#single-runner", onew.Pos(), "exactly one TaskRunner is created and kept as o.runner", "the overlord does not create exactly one TaskRunner shared by all managers")
	for _, m := range []struct {
		fn   string
		pidx int
	}{{"overlord/hookstate.Manager", 1}, {"overlord/snapstate.Manager", 1}, {"overlord/ifacestate.Manager", 2}, {"overlord/devicestate.Manager", 2}} {
		mf := P.Func(m.fn)
		cs := CallSites(onew, P.FuncObj(m.fn))
		ok := len(cs) == 1
		if ok {
			ok = IsFieldLoad(cs[0].Common().Args[m.pidx], fRunner)
		}
		c.Check(ok, "overlord.New#passes-runner-to:"+m.fn, onew.Pos(), "receives o.runner", m.fn+" is not given the overlord's single runner")
		abs := CallSites(mf, addBlocked)
		ok = len(abs) == 1 && IsParam(CallRecv(abs[0]), mf, m.pidx)
		c.Check(ok, m.fn+"#registers-predicate", mf.Pos(), "calls runner.AddBlocked exactly once on the runner it was given", m.fn+" does not register its exclusion predicate exactly once on the shared runner")
	}
	// snapstate registers blockedTask; devicestate gadgetUpdateBlocked
	for _, m := range []struct{ fn, pred string }{{"overlord/snapstate.Manager", "overlord/snapstate.(*SnapManager).blockedTask"}, {"overlord/devicestate.Manager", "overlord/devicestate.gadgetUpdateBlocked"}} {
		mf := P.Func(m.fn)
		ok := false
		target := P.Func(m.pred)
		for _, ci := range CallSites(mf, addBlocked) {
			switch v := CallArgs(ci)[0].(type) {
			case *ssa.Function:
				ok = v == target
			case *ssa.MakeClosure:
				ok = boundTarget(v.Fn.(*ssa.Function)) == target
			}
		}
		c.Check(ok, m.fn+"#predicate-is:"+m.pred, mf.Pos(), "the registered predicate is the one checked by R2", "the predicate registered is not "+m.pred)
	}

	// ---- R5
	c.Rule("C07-R5", "W", "nothing calls TaskRunner.SetBlocked (expected 0; positive control: AddBlocked has >= 4 callers)", 2)
	setBlocked := P.FuncObj("overlord/state.(*TaskRunner).SetBlocked")
	uses := P.UsesOf(setBlocked)
	var where []string
	for _, u := range uses {
		where = append(where, SSAFuncName(u.Fn)+"@"+P.Pos(u.Instr.Pos()))
	}
	c.Check(len(uses) == 0, "overlord/state.(*TaskRunner).SetBlocked#callers", token.NoPos, "no caller in the loaded non-test code", "SetBlocked (which replaces every exclusion predicate) is used at: "+strings.Join(where, ", "))
	ab := P.UsesOf(addBlocked)
	c.Check(len(ab) >= 4, "overlord/state.(*TaskRunner).AddBlocked#positive-control", token.NoPos, fmt.Sprintf("the same matcher finds %d uses of AddBlocked", len(ab)), "positive control failed: the use matcher does not even find the AddBlocked callers")
}
