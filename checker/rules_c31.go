package main

import (
	"fmt"
	"go/token"
	"go/types"

	"golang.org/x/tools/go/ssa"
)

func init() {
	register(&Property{
		ID:          "C31",
		Roots:       []string{"store"},
		Technique:   "guarded-sink reachability plus reaching-definitions of the `err` result cell in Store.Download; must-pass-through of the digest comparison in downloadImpl and applyDeltaImpl",
		Explanation: "Structural necessary conditions for 'a downloaded snap is only kept if its digest matches': (R1) Store.Download reaches os.Rename(w.Name(), targetPath) only across `err == nil` on the result cell, and every definition of that cell reaching the test is the verdict of download(…, downloadInfo.Sha3_384, …, w, …), a constructed non-nil error, or a value that can only survive to the test through the `downloadInfo.Sha3_384 == actualSha3` edge of the local re-hash; every literal success return is the cache hit or a successful delta; the local re-hash reads the whole temp file from offset 0 with io.Copy(h, w); the single retry after a digest mismatch truncates and rewinds the file and restarts at offset 0; (R2) in downloadImpl every path from a successful body copy to the return passes the comparison of the expected digest with the digest of the hash object that was fed by the same MultiWriter as the file, the mismatch edge yields HashError, and the no-resume fallback rewinds the file and replaces the hash; (R3) applyDeltaImpl moves the partial file onto the target only when no digest was requested or the file digest equals it, and removes the partial on mismatch.",
		NotDecided:  "retry-exhaustion interplay (that a `continue` is only taken when another attempt follows: attempt.More()); server behaviour; the hash function.",
		Run:         func(c *Ctx) { runC31(c); runC31x(c) },
	})
}

func isProvablyNonNilIface(v ssa.Value) bool {
	mi, ok := v.(*ssa.MakeInterface)
	if !ok {
		return false
	}
	if _, isNamedStruct := mi.X.Type().Underlying().(*types.Struct); isNamedStruct {
		return true
	}
	switch mi.X.Type().Underlying().(type) {
	case *types.Struct:
		return true
	}
	if _, ok := mi.X.(*ssa.Alloc); ok {
		return true
	}
	return false
}

func runC31(c *Ctx) {
	P := c.P
	dl := P.Func("store.(*Store).Download")
	rename := P.FuncObj("os.Rename")
	openFile := P.FuncObj("os.OpenFile")
	gDownload := P.Global("store.download")
	fSha := P.Field("snap.DownloadInfo.Sha3_384")
	sprintf := P.FuncObj("fmt.Sprintf")
	dlInfoSha := func(fn *ssa.Function, param int) func(ssa.Value) bool { return VFieldOf(fSha, VParam(fn, param)) }

	c.Rule("C31-R1", "G+reaching-defs", "Store.Download: os.Rename(w.Name(), targetPath) <= err==nil with every reaching definition of err being download(…Sha3_384…, w…)'s verdict, a constructed error, or cut by the Sha3_384==actualSha3 edge; literal success returns are the cache hit or a successful delta", 5)
	tgt := c.FuncVarTarget(gDownload)
	if tgt != nil {
		c.Check(tgt == P.Func("store.downloadImpl"), "global:store.download#target", tgt.Pos(), "bound to downloadImpl", "download is not bound to downloadImpl")
	}
	resCell := ResultCell(dl, 0)
	if resCell == nil {
		c.Undecided("store.(*Store).Download#result-cell", dl.Pos(), "the error result is not spilled to a cell (no defer?); the rule was written for the deferred-cleanup shape")
		return
	}
	resDefs := NewCellDefs(dl, resCell)
	isErrCell := func(al *ssa.Alloc) bool {
		return al != resCell && isErrorType(al.Type().(*types.Pointer).Elem())
	}
	isCellLoad := func(v ssa.Value) bool {
		u, ok := v.(*ssa.UnOp)
		if !ok || u.Op != token.MUL {
			return false
		}
		al, ok := u.X.(*ssa.Alloc)
		return ok && isErrCell(al)
	}
	errNil := Cmp("err==nil", isCellLoad, token.EQL, isNilVal)
	cellDefs := map[*ssa.Alloc]*CellDefs{}
	wVal := VRes(0, ToFn(openFile))
	renames := CallSites(dl, rename)
	for i, rc := range renames {
		c.Guarded(fmt.Sprintf("store.(*Store).Download#rename#%d", i+1), dl, rc, []Clause{{errNil}}, nil)
		a := CallArgs(rc)
		okArgs := len(a) == 2 && IsParam(a[1], dl, 3) && VRes(0, RecvWhere(ToFn(P.FuncObj("os.(*File).Name")), wVal))(a[0])
		c.Check(okArgs, fmt.Sprintf("store.(*Store).Download#rename-args#%d", i+1), rc.Pos(), "the file renamed is the downloaded temp file, the destination the requested target", "rename source/destination are not (w.Name(), targetPath)")
	}
	if len(renames) != 1 {
		c.Undecided("store.(*Store).Download#rename-count", dl.Pos(), fmt.Sprintf("expected one os.Rename, found %d", len(renames)))
		return
	}
	rc := renames[0]
	// D calls and their arguments
	dM := ViaGlobal(gDownload)
	dcalls := CallsMatching(dl, dM)
	// the calls may be made through one local closure (fetch := func(offset, opts) error { err := download(...); ...; return err })
	isVerdict := VRes(0, dM)
	if len(dcalls) == 0 {
		for _, hc := range localCalls(dl) {
			if hcs := CallsMatching(hc.h, dM); len(hcs) > 0 && hc.h.Parent() == dl {
				dcalls = append(dcalls, hcs...)
				h := hc.h
				allVerdicts := true
				for _, lf := range ReturnLeaves(h, -1) {
					if !VRes(0, dM)(lf.Val) {
						allVerdicts = false
					}
				}
				if allVerdicts {
					isVerdict = func(v ssa.Value) bool {
						if VRes(0, dM)(v) {
							return true
						}
						cc, _, ok := CallResult(v)
						return ok && cc.Common().StaticCallee() == h
					}
				}
			}
		}
	}
	for i, dc := range dcalls {
		a := dc.Common().Args
		ok := len(a) == 10 && dlInfoSha(dl, 4)(a[2]) && wVal(a[6])
		c.Check(ok, fmt.Sprintf("store.(*Store).Download#download-args#%d", i+1), dc.Pos(), "download() is given downloadInfo.Sha3_384 as the expected digest and the temp file as the sink", "download() is not given the expected digest / the temp file that is later renamed")
	}
	if len(dcalls) == 0 {
		c.Undecided("store.(*Store).Download#download-calls", dl.Pos(), "no call through the download variable found")
	}
	// E edge: expected == actual of the local re-hash
	// the digest of the local re-hash: fmt.Sprintf("%x", h.Sum(nil)), computed in Download or handed back by a private helper
	isActual := func(v ssa.Value) bool {
		if VRes(0, ToFn(sprintf))(v) {
			return true
		}
		hc, hi, ok := CallResult(v)
		if !ok {
			return false
		}
		h := hc.Common().StaticCallee()
		if h == nil || h.Pkg != dl.Pkg || len(h.Blocks) == 0 {
			return false
		}
		n := 0
		for _, lf := range ReturnLeaves(h, hi) {
			if s, isC := ConstString(lf.Val); isC && s == "" {
				continue
			}
			n++
			if !VRes(0, ToFn(sprintf))(lf.Val) {
				return false
			}
		}
		return n > 0
	}
	hashEq := Cmp("downloadInfo.Sha3_384==actualSha3", dlInfoSha(dl, 4), token.EQL, isActual)
	// final gates: err==nil tests from which the rename is reachable without another such test
	gateCut := AtomEdges(errNil)
	nGate := 0
	for _, b := range dl.Blocks {
		for si := range b.Succs {
			if !gateCut(b, si) {
				continue
			}
			q := ReachQ{Fn: dl, From: &Loc{b.Succs[si], -1}, Sink: SinkIs(rc), CutEdge: gateCut}
			if b.Succs[si] == rc.Block() {
				q = ReachQ{Fn: dl, From: &Loc{b.Succs[si], -1}, Sink: SinkIs(rc)}
			}
			if !q.Run().Found {
				continue
			}
			iff := b.Instrs[len(b.Instrs)-1].(*ssa.If)
			cond := Decompose(iff.Cond)
			var ld *ssa.UnOp
			for _, x := range []ssa.Value{cond.Bin.X, cond.Bin.Y} {
				if u, ok := x.(*ssa.UnOp); ok && isCellLoad(u) {
					ld = u
				}
			}
			if ld == nil {
				continue
			}
			nGate++
			cell := ld.X.(*ssa.Alloc)
			cd := cellDefs[cell]
			if cd == nil {
				cd = NewCellDefs(dl, cell)
				cellDefs[cell] = cd
			}
			stores, zero := cd.At(ld)
			if zero {
				c.Violated(fmt.Sprintf("store.(*Store).Download#final-gate#%d-zero", nGate), ld.Pos(), "the initial (nil) value of err may reach the test that admits the rename: a path exists on which nothing was verified")
			}
			for k, st := range stores {
				construct := fmt.Sprintf("store.(*Store).Download#final-gate#%d-def#%d", nGate, k+1)
				switch {
				case isVerdict(st.Val):
					c.Holds(construct, st.Pos(), "definition is the verdict of download(…)")
				case isProvablyNonNilIface(st.Val):
					c.Holds(construct, st.Pos(), "definition is a constructed (non-nil) error: cannot pass the nil test")
				default:
					q := ReachQ{Fn: dl, From: LocOf(st), Sink: SinkIs(ld), CutEdge: AtomEdges(hashEq),
						CutInstr: func(in ssa.Instruction) bool {
							s2, ok := in.(*ssa.Store)
							return ok && s2.Addr == ssa.Value(cell)
						}}
					r := q.Run()
					c.cur.Blocks += r.Blocks
					c.cur.Edges += r.Edges
					c.Check(!r.Found, construct, st.Pos(), "this definition only survives to the test through the digest-equal edge of the local re-hash", fmt.Sprintf("the value stored at %s (not a download verdict) can reach the test that admits the rename without the digest having been compared; path: %s", P.Pos(st.Pos()), P.PathString(r.Path)))
				}
			}
		}
	}
	if nGate == 0 {
		c.Undecided("store.(*Store).Download#final-gate", rc.Pos(), "no err==nil test on the result cell admits the rename")
	}
	// literal successes
	cacheGet := P.FuncObj("store.downloadCache.Get")
	deltaFn := P.FuncObj("store.(*Store).downloadAndApplyDelta")
	cacheHit := TrueRes("cacher.Get(Sha3_384, targetPath)", true, 0, CallWhere(CallWhere(ToFn(cacheGet), 0, dlInfoSha(dl, 4)), 1, VParam(dl, 3)))
	deltaOK := NilRes("downloadAndApplyDelta==nil", 0, ToFn(deltaFn))
	k := 0
	for _, st := range resDefs.Stores {
		if !IsNilConst(st.Val) {
			continue
		}
		k++
		c.Guarded(fmt.Sprintf("store.(*Store).Download#literal-success#%d", k), dl, st, []Clause{{cacheHit, deltaOK}}, nil)
	}
	// delta path passes the expected digest on
	dad := P.Func("store.(*Store).downloadAndApplyDelta")
	gApply := P.Global("store.applyDelta")
	for i, ac := range CallsMatching(dad, ViaGlobal(gApply)) {
		a := ac.Common().Args
		c.Check(len(a) == 6 && IsParam(a[4], dad, 2) && dlInfoSha(dad, 3)(a[5]), fmt.Sprintf("store.(*Store).downloadAndApplyDelta#applyDelta-args#%d", i+1), ac.Pos(), "applyDelta receives targetPath and downloadInfo.Sha3_384", "applyDelta is not given the snap's expected digest")
	}

	// the local re-hash covers the whole file: Seek(0) then io.Copy(h, w) (not a bounded copy), and the digest compared is h.Sum
	ioCopyObj := P.FuncObj("io.Copy")
	seekObj := P.FuncObj("os.(*File).Seek")
	truncObj := P.FuncObj("os.(*File).Truncate")
	hashSum := P.FuncObj("hash.Hash.Sum")
	nRehash := 0
	scanRehash := func(rehashFn *ssa.Function) {
		for _, sc := range CallSites(rehashFn, sprintf) {
			// actualSha3 := fmt.Sprintf("%x", h.Sum(nil))
			els := VarargElems(sc.Common().Args[1])
			if len(els) != 1 {
				continue
			}
			sumCall, _, ok := CallResult(stripIfaceVal(els[0]))
			if !ok || !ToFn(hashSum)(sumCall) {
				continue
			}
			nRehash++
			h := CallRecv(sumCall)
			fed := false
			for _, cc := range CallSites(rehashFn, ioCopyObj) {
				a := cc.Common().Args
				if stripIfaceVal(a[0]) == stripIfaceVal(h) || Strip(stripIfaceVal(a[0])) == Strip(stripIfaceVal(h)) {
					if wVal(stripIfaceVal(a[1])) || wVal(Strip(stripIfaceVal(a[1]))) {
						fed = true
						c.Before(fmt.Sprintf("store.(*Store).Download#rehash-from-start#%d", nRehash), rehashFn, SinkCallM(func(ci ssa.CallInstruction) bool {
							if CallWhere(RecvWhere(ToFn(seekObj), wVal), 1, VConstInt(0))(ci) {
								return true
							}
							// through an io.Seeker the temp file was handed over as
							k := ci.Common()
							return k.IsInvoke() && k.Method.Name() == "Seek" && len(k.Args) == 2 && VConstInt(0)(k.Args[0]) && (wVal(stripIfaceVal(k.Value)) || wVal(Strip(stripIfaceVal(k.Value))))
						}), "w.Seek(0, SEEK_SET)", cc, nil)
					}
				}
			}
			c.Check(fed, fmt.Sprintf("store.(*Store).Download#rehash-whole-file#%d", nRehash), sc.Pos(), "the digest compared is that of io.Copy(h, w) over the whole temp file", "the digest of the already complete partial file is not computed with io.Copy(h, w) over the whole file (a bounded copy hashes only a prefix: trailing bytes are never checked and the over-long file is renamed to the target)")
		}
	}
	scanRehash(dl)
	if nRehash == 0 {
		// the re-hash may live in a helper, analysed with its parameters standing for the arguments Download passes
		for _, hc := range localCalls(dl) {
			liftCtx = append(liftCtx, liftFrame{hc.h, hc.cc})
			before := nRehash
			scanRehash(hc.h)
			if nRehash > before {
				c.touch(hc.h)
			}
			liftCtx = liftCtx[:len(liftCtx)-1]
		}
	}
	if nRehash == 0 {
		c.Undecided("store.(*Store).Download#rehash", dl.Pos(), "the local re-hash (fmt.Sprintf(\"%x\", h.Sum(nil))) was not found")
	}
	// the retry after a digest mismatch starts from an empty file: Truncate(0) and Seek(0) precede the second download on every path
	hashErrT0 := P.NamedType("store.HashError")
	isHashErr := TypeIs("err.(HashError)", anyVal, hashErrT0)
	nRetry := 0
	for _, b := range dl.Blocks {
		for si := range b.Succs {
			if !AtomEdges(isHashErr)(b, si) {
				continue
			}
			for _, dc := range dcalls {
				if !(ReachQ{Fn: dl, From: &Loc{b.Succs[si], -1}, Sink: SinkIs(dc), Descend: true}).Run().Found {
					continue
				}
				nRetry++
				for _, step := range []struct {
					name string
					m    CallM
				}{
					{"w.Truncate(0)", CallWhere(RecvWhere(ToFn(truncObj), wVal), 1, VConstInt(0))},
					{"w.Seek(0, ...)", CallWhere(RecvWhere(ToFn(seekObj), wVal), 1, VConstInt(0))},
				} {
					q := ReachQ{Fn: dl, From: &Loc{b.Succs[si], -1}, CutInstr: SinkCallM(step.m), Sink: SinkIs(dc), Descend: true}
					r := q.Run()
					c.Check(!r.Found, fmt.Sprintf("store.(*Store).Download#retry-from-empty-file:%s#%d", step.name, nRetry), dc.Pos(), step.name+" precedes the retry", "after a digest mismatch the download is retried without "+step.name+" on some path: bytes of the rejected body beyond the new one stay in the file, which then passes the (new-bytes-only) digest check and is renamed to the target: "+P.PathString(r.Path))
				}
				// the retry restarts at offset 0
				a := dc.Common().Args
				offZero := len(a) == 10 && VConstInt(0)(a[7])
				if prm, isP := a[7].(*ssa.Parameter); len(a) == 10 && isP && dc.Parent() != dl {
					// download() is called inside a local closure with the closure's offset parameter:
					// the call of the closure that is reached after the mismatch passes 0
					h := dc.Parent()
					pi := -1
					for j, hp := range h.Params {
						if hp == prm {
							pi = j
						}
					}
					offZero = pi >= 0
					nw := 0
					for _, wb := range dl.Blocks {
						for _, win := range wb.Instrs {
							wc, ok := win.(ssa.CallInstruction)
							if !ok || wc.Common().StaticCallee() != h {
								continue
							}
							if !(ReachQ{Fn: dl, From: &Loc{b.Succs[si], -1}, Sink: SinkIs(wc)}).Run().Found {
								continue
							}
							nw++
							if pi < 0 || pi >= len(wc.Common().Args) || !VConstInt(0)(wc.Common().Args[pi]) {
								offZero = false
							}
						}
					}
					offZero = offZero && nw > 0
				}
				c.Check(offZero, fmt.Sprintf("store.(*Store).Download#retry-offset-0#%d", nRetry), dc.Pos(), "the retry downloads from offset 0", "the retry after a digest mismatch does not restart at offset 0")
			}
		}
	}
	if nRetry == 0 {
		c.Undecided("store.(*Store).Download#hash-retry", dl.Pos(), "the retry-once-on-HashError block was not recognised")
	}

	// ---- R2
	c.Rule("C31-R2", "G", "downloadImpl: from a successful body copy every path to the return passes the expected-vs-actual digest comparison; mismatch => HashError; the hash object summed is the one written by the MultiWriter together with the file; no-resume fallback rewinds file and hash", 4)
	di := P.Func("store.downloadImpl")
	ioCopy := P.FuncObj("io.Copy")
	multi := P.FuncObj("io.MultiWriter")
	bodyCopy := CallWhere(ToFn(ioCopy), 0, VRes(0, ToFn(multi)))
	copyOK := NilRes("io.Copy(mw, body) err==nil", 1, bodyCopy)
	sumObj := P.FuncObj("hash.Hash.Sum")
	actual := VRes(0, ToFn(sprintf))
	shaEmpty := Cmp(`sha3_384==""`, VParam(di, 2), token.EQL, VConstStr(""))
	shaEq := Cmp("sha3_384==actualSha3", VParam(di, 2), token.EQL, actual)
	cuts := AtomEdges(shaEmpty, shaEq, Not(shaEq))
	nc := 0
	okEdge := AtomEdges(copyOK)
	for _, b := range di.Blocks {
		for si := range b.Succs {
			if !okEdge(b, si) {
				continue
			}
			nc++
			q := ReachQ{Fn: di, From: &Loc{b.Succs[si], -1}, CutEdge: cuts, Sink: func(in ssa.Instruction) bool { _, ok := in.(*ssa.Return); return ok }}
			r := q.Run()
			c.cur.Blocks += r.Blocks
			c.cur.Edges += r.Edges
			c.Check(!r.Found, fmt.Sprintf("store.downloadImpl#digest-compared#%d", nc), b.Instrs[len(b.Instrs)-1].Pos(), "after a successful copy the return is only reachable across the digest comparison", "after a successful body copy downloadImpl can return without comparing the digest; path: "+P.PathString(r.Path))
		}
	}
	if nc == 0 {
		c.Undecided("store.downloadImpl#copy-ok-edge", di.Pos(), "no `io.Copy(MultiWriter(...), …) err == nil` test found")
	}
	// mismatch edge yields HashError
	hashErrT := P.NamedType("store.HashError")
	neq := AtomEdges(Not(shaEq))
	leaves := ReturnLeaves(di, 0)
	nm := 0
	for _, b := range di.Blocks {
		for si := range b.Succs {
			if !neq(b, si) {
				continue
			}
			nm++
			succ := b.Succs[si]
			found := false
			for _, lf := range leaves {
				if types.Identical(lf.Val.Type(), hashErrT) && (lf.EdgeFrom == succ || (lf.Instr != nil && lf.Instr.Block() == succ)) {
					found = true
				}
			}
			c.Check(found, fmt.Sprintf("store.downloadImpl#mismatch-is-HashError#%d", nm), b.Instrs[len(b.Instrs)-1].Pos(), "the digest-mismatch edge makes the result a HashError", "the digest-mismatch edge does not make the returned error a HashError (Download's retry and callers key on it)")
		}
	}
	if nm == 0 {
		c.Undecided("store.downloadImpl#mismatch-edge", di.Pos(), "no sha3_384 != actualSha3 edge found")
	}
	// the hash that is summed is fed by the same MultiWriter as the file
	var hv ssa.Value
	for _, sc := range CallSites(di, sumObj) {
		hv = CallRecv(sc)
	}
	okMW := false
	for _, mc := range CallSites(di, multi) {
		elems := VarargElems(mc.Common().Args[0])
		hasW, hasH := false, false
		for _, e := range elems {
			if e == nil {
				continue
			}
			if IsParam(e, di, 6) {
				hasW = true
			}
			if hv != nil && stripNoCell(e) == stripNoCell(hv) {
				hasH = true
			}
		}
		okMW = hasW && hasH
	}
	c.Check(okMW, "store.downloadImpl#tee", di.Pos(), "MultiWriter feeds both the file w and the hash object whose Sum is compared", "the bytes written to the file and the bytes hashed are no longer the same stream")
	// hash leaves are fresh hash objects; the not-206 branch both rewinds and replaces
	newHash := P.FuncObj("crypto.Hash.New")
	okFresh := hv != nil
	var fresh []ssa.Value
	if hv != nil {
		fresh = phiLeavesOf(hv)
		for _, l := range fresh {
			if !VRes(0, ToFn(newHash))(l) {
				okFresh = false
			}
		}
	}
	c.Check(okFresh && len(fresh) >= 2, "store.downloadImpl#hash-reset", di.Pos(), fmt.Sprintf("the summed hash is one of %d fresh hash objects (per attempt, and after the no-resume fallback)", len(fresh)), "the hash object is not re-created for the no-resume fallback: bytes of a stale partial file would be counted")
	// not-206 fallback: Seek(0, SeekStart) before the body copy
	fStatus := P.Field("net/http.Response.StatusCode")
	not206 := Cmp("resp.StatusCode!=206", VField(fStatus), token.NEQ, VConstInt(206))
	seekM := CallWhere(CallWhere(ToFn(P.FuncObj("io.Seeker.Seek")), 0, VConstInt(0)), 1, VConstInt(0))
	nf := 0
	for _, b := range di.Blocks {
		for si := range b.Succs {
			if !AtomEdges(not206)(b, si) {
				continue
			}
			nf++
			q := ReachQ{Fn: di, From: &Loc{b.Succs[si], -1}, CutInstr: func(in ssa.Instruction) bool {
				ci, ok := in.(ssa.CallInstruction)
				return ok && seekM(ci) && IsParam(CallRecv(ci), di, 6)
			}, Sink: SinkCallM(bodyCopy),
				CutEdge: func(bb *ssa.BasicBlock, s int) bool {
					return bb.Succs[s].Comment == "for.loop" || bb.Succs[s].Comment == "for.post"
				}}
			r := q.Run()
			c.Check(!r.Found, fmt.Sprintf("store.downloadImpl#fallback-rewinds#%d", nf), b.Instrs[len(b.Instrs)-1].Pos(), "when the server ignores the range request the file is rewound before the body is copied", "no-resume fallback reaches the body copy without w.Seek(0, SeekStart): the full body would be appended to the stale partial file; path: "+P.PathString(r.Path))
		}
	}
	if nf == 0 {
		c.Undecided("store.downloadImpl#fallback", di.Pos(), "no StatusCode != 206 test found")
	}

	// ---- R3
	c.Rule("C31-R3", "G", "applyDeltaImpl: partial file moved onto the target <= targetSha3_384==\"\" | digest equal; mismatch removes the partial", 3)
	ad := P.Func("store.(*Store).applyDeltaImpl")
	fileDigest := P.FuncObj("osutil.FileDigest")
	tEmpty := Cmp(`targetSha3_384==""`, VParam(ad, 5), token.EQL, VConstStr(""))
	tEq := Cmp("sha3_384==targetSha3_384", VRes(0, ToFn(sprintf)), token.EQL, VParam(ad, 5))
	digestOK := NilRes("FileDigest err==nil", 2, ToFn(fileDigest))
	movers := append(CallSites(ad, rename), CallSites(ad, P.FuncObj("osutil.CopyFile"))...)
	for i, mc := range movers {
		c.Guarded(fmt.Sprintf("store.(*Store).applyDeltaImpl#move#%d", i+1), ad, mc, []Clause{{tEmpty, tEq}, {digestOK}}, nil)
	}
	if len(movers) == 0 {
		c.Undecided("store.(*Store).applyDeltaImpl#move", ad.Pos(), "no rename/copy onto the target found")
	}
	for i, lf := range nilLeaves(ad, 0) {
		c.GuardedFlow(fmt.Sprintf("store.(*Store).applyDeltaImpl#nil-return#%d", i+1), ad, lf, []Clause{{tEmpty, tEq}, {digestOK}}, nil)
	}
	// the digest is of the partial file that is moved
	okSame := false
	for _, fc := range CallSites(ad, fileDigest) {
		for _, mc := range CallSites(ad, rename) {
			if Strip(CallArgs(fc)[0]) == Strip(CallArgs(mc)[0]) {
				okSame = true
			}
		}
	}
	c.Check(okSame, "store.(*Store).applyDeltaImpl#digest-of-moved-file", ad.Pos(), "the file whose digest is compared is the file that is renamed", "the digest is not computed over the file that is moved onto the target")
	// mismatch edge removes the partial file
	osRemove := P.FuncObj("os.Remove")
	nr := 0
	for _, b := range ad.Blocks {
		for si := range b.Succs {
			if !AtomEdges(Not(tEq))(b, si) {
				continue
			}
			nr++
			q := ReachQ{Fn: ad, From: &Loc{b.Succs[si], -1}, CutInstr: SinkCall(osRemove), Sink: func(in ssa.Instruction) bool { _, ok := in.(*ssa.Return); return ok }}
			r := q.Run()
			c.Check(!r.Found, fmt.Sprintf("store.(*Store).applyDeltaImpl#mismatch-removes#%d", nr), b.Instrs[len(b.Instrs)-1].Pos(), "on digest mismatch the partial file is removed before returning", "on digest mismatch the partial delta target is left behind")
		}
	}
}

func stripIfaceVal(v ssa.Value) ssa.Value {
	for {
		switch x := v.(type) {
		case *ssa.MakeInterface:
			v = x.X
		case *ssa.ChangeInterface:
			v = x.X
		default:
			return v
		}
	}
}
