package main

import (
	"fmt"
	"go/token"
	"go/types"

	"golang.org/x/tools/go/ssa"
)

func init() {
	register(&Property{
		ID:          "C30",
		Roots:       []string{"registry", "overlord/registrystate"},
		Technique:   "guarded-sink and ordering rules (SSA) on the registry view matching, on Transaction.Set/Unset/Get/Commit and on registrystate.SetViaView; constant sets of the access predicates; loop-carried aliasing rule on rule parsing",
		Explanation: "Structural necessary conditions for 'registry views enforce their access rules and transactions commit atomically' (path matching and placeholder expansion are not decided): (R1) a rule contributes to a write request only across rule.match ∧ rule.isWriteable(), to a read request only across rule.match ∧ rule.isReadable(); (R2) isReadable is access in {read-write, read} and isWriteable is access in {read-write, write}; (R3) Transaction.Set/Unset only append one delta (in call order) and touch nothing else; Get applies exactly the not-yet-applied deltas to a copy; Commit re-reads the databag, works on a copy, writes only after applyDeltas and Schema.Validate succeeded, writes the bag it validated, and replaces the transaction's own view only after the write succeeded; applyDeltas applies the deltas in order without early success; (R4) registrystate.SetViaView commits only after every request was applied without error; SetViaViewInTx stops at the first failing request; (R5) writeDatabag is invoked only by Commit; nested rule parsing never builds a child's request/storage with append onto the parent's slice (sibling rules would share a backing array).",
		NotDecided:  "path and placeholder matching, value pruning and merging of nested results, schema validation itself; cross-registry isolation in registrystate.",
		Run:         func(c *Ctx) { runC30(c); runC30x(c); runC30y(c) },
	})
}

func runC30(c *Ctx) {
	P := c.P
	pkg := "registry"

	c.Rule("C30-R1", "G", "matchWriteRequest: append <= rule.match ∧ rule.isWriteable(); matchGetRequest: append <= rule.match ∧ rule.isReadable()", 2)
	matchObj := P.FuncObj(pkg + ".(*viewRule).match")
	isAppend := func(in ssa.Instruction) bool {
		ci, ok := in.(*ssa.Call)
		if !ok {
			return false
		}
		bi, ok := ci.Call.Value.(*ssa.Builtin)
		return ok && bi.Name() == "append"
	}
	for _, m := range []struct{ fn, pred string }{{"matchWriteRequest", "isWriteable"}, {"matchGetRequest", "isReadable"}} {
		fn := P.Func(pkg + ".(*View)." + m.fn)
		predObj := P.FuncObj(pkg + ".viewRule." + m.pred)
		matched := TrueRes("rule.match(subkeys) ok", true, 2, ToFn(matchObj))
		allowed := TrueRes("rule."+m.pred+"()", true, 0, ToFn(predObj))
		n := 0
		for _, in := range instrsMatching(fn, isAppend) {
			n++
			c.Guarded(fmt.Sprintf("%s.(*View).%s#contributes#%d", pkg, m.fn, n), fn, in, []Clause{{matched}, {allowed}}, nil)
		}
		if n == 0 {
			c.Undecided(pkg+".(*View)."+m.fn+"#append", fn.Pos(), "append to matches not found")
		}
		// the rule asked is the loop's rule
		for _, rl := range RangeLoops(fn) {
			for _, pc := range CallSites(fn, predObj) {
				if rl.Body.Dominates(pc.Block()) && rl.Elem != nil {
					okR := DependsOnLoad(CallRecv(pc), rl.Elem)
					c.Check(okR, fmt.Sprintf("%s.(*View).%s#same-rule", pkg, m.fn), pc.Pos(), "the access predicate is asked of the rule that matched", "the access predicate is not evaluated on the rule being matched")
				}
			}
		}
	}

	c.Rule("C30-R2", "K", "isReadable == access in {readWrite, read}; isWriteable == access in {readWrite, write}", 2)
	fAccess := P.Field(pkg + ".viewRule.access")
	constName := func(v ssa.Value) string {
		for _, n := range []string{"readWrite", "read", "write"} {
			if VConstObj(P.Const(pkg + "." + n))(v) {
				return n
			}
		}
		return "?"
	}
	for _, m := range []struct {
		pred string
		want map[string]bool
	}{{"isReadable", map[string]bool{"readWrite": true, "read": true}}, {"isWriteable", map[string]bool{"readWrite": true, "write": true}}} {
		fn := P.Func(pkg + ".viewRule." + m.pred)
		got := map[string]bool{}
		okShape := true
		for _, b := range fn.Blocks {
			for _, in := range b.Instrs {
				if bo, ok := in.(*ssa.BinOp); ok {
					if bo.Op != token.EQL {
						okShape = false
						continue
					}
					if IsFieldLoad(bo.X, fAccess) || isFieldOfValue(bo.X, fAccess) {
						got[constName(bo.Y)] = true
					} else if IsFieldLoad(bo.Y, fAccess) || isFieldOfValue(bo.Y, fAccess) {
						got[constName(bo.X)] = true
					} else {
						okShape = false
					}
				}
			}
		}
		same := okShape && len(got) == len(m.want)
		for k := range m.want {
			if !got[k] {
				same = false
			}
		}
		c.touch(fn)
		c.Check(same, pkg+".viewRule."+m.pred+"#access-set", fn.Pos(), fmt.Sprintf("access in %v", sortedKeys(m.want)), fmt.Sprintf("%s accepts access in %v; it must be exactly %v", m.pred, sortedKeys(got), sortedKeys(m.want)))
	}

	c.Rule("C30-R3", "O+G", "Transaction: Set/Unset append one delta; Commit: re-read, copy, applyDeltas, validate, write the validated bag, then replace own fields; applyDeltas in order", 12)
	fDeltas := P.Field(pkg + ".Transaction.deltas")
	fPristine := P.Field(pkg + ".Transaction.pristine")
	fModified := P.Field(pkg + ".Transaction.modified")
	fApplied := P.Field(pkg + ".Transaction.appliedDeltas")
	for _, m := range []string{"Set", "Unset"} {
		fn := P.Func(pkg + ".(*Transaction)." + m)
		c.touch(fn)
		// Set/Unset may hand the append to one shared private method (t.appendDelta(path, value))
		if len(fn.Blocks) <= 2 {
			var deleg *ssa.Function
			nc, nst := 0, 0
			for _, b := range fn.Blocks {
				for _, in := range b.Instrs {
					if _, isSt := in.(*ssa.Store); isSt {
						nst++
					}
					if cc, ok := in.(ssa.CallInstruction); ok {
						nc++
						if h := cc.Common().StaticCallee(); h != nil && h.Pkg == fn.Pkg && len(cc.Common().Args) > 0 && cc.Common().Args[0] == ssa.Value(fn.Params[0]) &&
							P.PrivateHelperOf(h, map[string]bool{pkg + ".(*Transaction).Set": true, pkg + ".(*Transaction).Unset": true}) {
							deleg = h
						}
					}
				}
			}
			if deleg != nil && nc == 1 && nst == 0 {
				fn = deleg
				c.touch(fn)
			}
		}
		okA := false
		nStores := 0
		for _, b := range fn.Blocks {
			for _, in := range b.Instrs {
				st, ok := in.(*ssa.Store)
				if !ok {
					continue
				}
				fa, ok := st.Addr.(*ssa.FieldAddr)
				if !ok || fa.X != ssa.Value(fn.Params[0]) {
					continue
				}
				nStores++
				if fieldOfAddr(fa) == fDeltas {
					if ci, ok := st.Val.(*ssa.Call); ok {
						if bi, ok := ci.Call.Value.(*ssa.Builtin); ok && bi.Name() == "append" && IsFieldLoad(ci.Call.Args[0], fDeltas) {
							okA = len(VarargElems(ci.Call.Args[1])) == 1
						}
					}
				}
			}
		}
		c.Check(okA && nStores == 1 && len(fn.Blocks) <= 3, pkg+".(*Transaction)."+m+"#appends-one-delta", fn.Pos(), "t.deltas = append(t.deltas, {path: value}) and nothing else", fmt.Sprintf("Transaction.%s does something other than appending one delta to t.deltas (stores to the transaction: %d): the order of writes within a transaction, or read-after-write, changes", m, nStores))
	}
	commit := P.Func(pkg + ".(*Transaction).Commit")
	fRead := P.Field(pkg + ".Transaction.readDatabag")
	fWrite := P.Field(pkg + ".Transaction.writeDatabag")
	readM := DynCallOf(VField(fRead))
	writeM := DynCallOf(VField(fWrite))
	applyObj := P.FuncObj(pkg + ".applyDeltas")
	copyObj := P.FuncObj(pkg + ".JSONDataBag.Copy")
	validate := func(ci ssa.CallInstruction) bool {
		co := CalleeOf(ci)
		return co != nil && co.Name() == "Validate"
	}
	ws := CallsMatching(commit, writeM)
	rs := CallsMatching(commit, readM)
	if len(ws) != 1 || len(rs) != 1 {
		c.Undecided(pkg+".(*Transaction).Commit#shape", commit.Pos(), fmt.Sprintf("expected one readDatabag and one writeDatabag call, found %d/%d", len(rs), len(ws)))
	} else {
		w, r := ws[0], rs[0]
		c.Guarded(pkg+".(*Transaction).Commit#write<=read-ok", commit, w, []Clause{{NilRes("readDatabag ok", 1, readM)}}, nil)
		c.Guarded(pkg+".(*Transaction).Commit#write<=deltas-applied", commit, w, []Clause{{OkCall("ok(applyDeltas)", applyObj)}}, nil)
		c.Guarded(pkg+".(*Transaction).Commit#write<=schema-valid", commit, w, []Clause{{NilRes("Schema.Validate ok", 0, validate)}}, nil)
		// the bag the deltas are applied to is a copy of the freshly read bag, with all the deltas
		for _, ac := range CallSites(commit, applyObj) {
			a := ac.Common().Args
			work := a[0]
			okCopy := VRes(0, RecvWhere(ToFn(copyObj), VRes(0, func(ci ssa.CallInstruction) bool { return ci == r })))(work)
			c.Check(okCopy, pkg+".(*Transaction).Commit#works-on-copy-of-fresh-read", ac.Pos(), "applyDeltas(readDatabag().Copy(), ...)", "Commit does not apply the deltas to a copy of the databag it just read (a cached bag from the transaction's creation would overwrite what others committed in the meantime)")
			c.Check(IsFieldLoad(a[1], fDeltas), pkg+".(*Transaction).Commit#applies-all-deltas", ac.Pos(), "all of t.deltas", "Commit does not apply all of t.deltas")
			// validated and written bag derive from the same working bag
			okW := DependsOnValue(w.Common().Args[0], work)
			c.Check(okW, pkg+".(*Transaction).Commit#writes-validated-bag", w.Pos(), "the bag written is (a copy of) the bag the deltas were applied to", "Commit writes a bag other than the one it applied the deltas to and validated")
			for _, vc := range CallsMatching(commit, validate) {
				okV := DependsOnValue(vc.Common().Args[0], work)
				c.Check(okV, pkg+".(*Transaction).Commit#validates-working-bag", vc.Pos(), "the data validated comes from the working bag", "Schema.Validate is not given the data of the bag about to be written")
			}
		}
		// own fields replaced only after a successful write
		for _, f := range []*types.Var{fPristine, fModified, fDeltas, fApplied} {
			for i, st := range StoresToField(commit, f) {
				c.Guarded(fmt.Sprintf("%s.(*Transaction).Commit#%s-replaced-after-write#%d", pkg, f.Name(), i+1), commit, st, []Clause{{NilRes("writeDatabag ok", 0, writeM)}}, nil)
			}
		}
	}
	// Get: applies t.deltas[t.appliedDeltas:] to the cached copy
	get := P.Func(pkg + ".(*Transaction).Get")
	okGet := false
	for _, ac := range CallSites(get, applyObj) {
		a := ac.Common().Args
		if sl, ok := Strip(a[1]).(*ssa.Slice); ok && IsFieldLoad(sl.X, fDeltas) && sl.Low != nil && IsFieldLoad(sl.Low, fApplied) && sl.High == nil && IsFieldLoad(a[0], fModified) {
			okGet = true
		}
	}
	c.Check(okGet, pkg+".(*Transaction).Get#applies-pending-deltas", get.Pos(), "applyDeltas(t.modified, t.deltas[t.appliedDeltas:])", "Transaction.Get no longer applies exactly the not-yet-applied deltas to its cached copy: a read does not see the transaction's own earlier writes")
	// applyDeltas: in order over the slice, no success before the end
	ad := P.Func(pkg + ".applyDeltas")
	for _, rl := range RangeLoops(ad) {
		if rl.Coll != nil && IsParam(rl.Coll, ad, 1) {
			for i, lf := range nilLeaves(ad, 0) {
				c.ThroughLoop(fmt.Sprintf("%s.applyDeltas#nil-after-all-deltas#%d", pkg, i+1), rl, lf)
			}
		}
	}

	c.Rule("C30-R4", "G", "SetViaView commits only after SetViaViewInTx succeeded; SetViaViewInTx stops at the first failing request", 2)
	rs2 := "overlord/registrystate"
	svv := P.Func(rs2 + ".SetViaView")
	inTx := P.FuncObj(rs2 + ".SetViaViewInTx")
	commitObj := P.FuncObj(pkg + ".(*Transaction).Commit")
	for i, cc := range CallSites(svv, commitObj) {
		c.Guarded(fmt.Sprintf("%s.SetViaView#commit<=requests-applied#%d", rs2, i+1), svv, cc, []Clause{{OkCall("ok(SetViaViewInTx)", inTx)}}, nil)
	}
	itx := P.Func(rs2 + ".SetViaViewInTx")
	viewSet := P.FuncObj(pkg + ".(*View).Set")
	viewUnset := P.FuncObj(pkg + ".(*View).Unset")
	for _, rl := range RangeLoops(itx) {
		okOp := ErrNil("view.Set/Unset ok", VPhiAll(VRes(0, AnyCall(ToFn(viewSet), ToFn(viewUnset)))))
		c.LatchGated(rs2+".SetViaViewInTx#stops-at-first-error", rl, []Clause{{okOp}})
	}

	c.Rule("C30-R5", "W", "writeDatabag is called only by Commit; nested rule parsing does not append onto the parent's request/storage slices", 2)
	n := 0
	for _, fn := range P.FuncsIn(pkg) {
		for _, cc := range CallsMatching(fn, writeM) {
			n++
			c.Check(fn == commit, fmt.Sprintf("%s#writeDatabag-caller#%d", SSAFuncName(fn), n), cc.Pos(), "called from Commit", "writeDatabag is invoked from "+SSAFuncName(fn)+", outside Commit: data reaches the databag without validation")
		}
	}
	fReq := P.Field(pkg + ".viewRule.request")
	fSto := P.Field(pkg + ".viewRule.storage")
	k := 0
	for _, fn := range P.FuncsIn(pkg) {
		for _, in := range instrsMatching(fn, isAppend) {
			ci := in.(*ssa.Call)
			base := ci.Call.Args[0]
			if _, f, ok := FieldLoad(base); ok && (f == fReq || f == fSto) {
				// append(parent.request, ...) whose result is stored into another rule's field
				stored := false
				for _, r := range *ci.Referrers() {
					if st, ok := r.(*ssa.Store); ok {
						if fa, ok := st.Addr.(*ssa.FieldAddr); ok && (fieldOfAddr(fa) == fReq || fieldOfAddr(fa) == fSto) {
							b1, _, _ := FieldLoad(base)
							if Strip(fa.X) != Strip(b1) {
								stored = true
							}
						}
					}
				}
				k++
				c.Check(!stored, fmt.Sprintf("%s#append-onto-parent-slice#%d", SSAFuncName(fn), k), in.Pos(), "", "a rule's "+f.Name()+" is built with append(parent."+f.Name()+", ...): sibling rules share the parent's backing array and the last sibling's matchers overwrite the others' (a write-only rule then answers for a read-only path)")
			}
		}
	}
	c.Holds(pkg+"#rule-slices", token.NoPos, fmt.Sprintf("%d appends onto rule request/storage slices examined", k))
}

// DependsOnLoad: v is (a load of a field chain off) the value base, or base itself.
func DependsOnLoad(v, base ssa.Value) bool {
	for i := 0; i < 6 && v != nil; i++ {
		if Strip(v) == Strip(base) {
			return true
		}
		switch x := Strip(v).(type) {
		case *ssa.UnOp:
			v = x.X
		case *ssa.FieldAddr:
			v = x.X
		case *ssa.Field:
			v = x.X
		default:
			return false
		}
	}
	return false
}

func isFieldOfValue(v ssa.Value, f *types.Var) bool {
	fl, ok := Strip(v).(*ssa.Field)
	if !ok {
		return false
	}
	st, ok := fl.X.Type().Underlying().(*types.Struct)
	return ok && st.Field(fl.Field) == f
}

// DependsOnValue: v is computed from base through calls (as receiver or argument), extracts and conversions.
func DependsOnValue(v, base ssa.Value) bool {
	seen := map[ssa.Value]bool{}
	var rec func(v ssa.Value, d int) bool
	rec = func(v ssa.Value, d int) bool {
		if v == nil || d > 10 || seen[v] {
			return false
		}
		seen[v] = true
		if Strip(v) == Strip(base) {
			return true
		}
		switch x := Strip(v).(type) {
		case *ssa.Call:
			if x.Call.IsInvoke() && rec(x.Call.Value, d+1) {
				return true
			}
			for _, a := range x.Call.Args {
				if rec(a, d+1) {
					return true
				}
			}
		case *ssa.Extract:
			return rec(x.Tuple, d+1)
		case *ssa.Phi:
			for _, e := range x.Edges {
				if rec(e, d+1) {
					return true
				}
			}
		case *ssa.MakeInterface:
			return rec(x.X, d+1)
		case *ssa.ChangeInterface:
			return rec(x.X, d+1)
		case *ssa.TypeAssert:
			return rec(x.X, d+1)
		}
		return false
	}
	return rec(v, 0)
}
