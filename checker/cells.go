package main

import (
	"go/token"

	"golang.org/x/tools/go/ssa"
)

// CellDefs is a reaching-definitions analysis for one local memory cell (an
// Alloc that go/ssa could not lift to registers, e.g. a named result captured by
// a deferred closure).  A nil *ssa.Store stands for the cell's zero value at entry.
type CellDefs struct {
	Fn     *ssa.Function
	Cell   *ssa.Alloc
	in     map[*ssa.BasicBlock]map[*ssa.Store]bool
	zero   map[*ssa.BasicBlock]bool // the zero value reaches the block's entry
	Stores []*ssa.Store
}

func NewCellDefs(fn *ssa.Function, cell *ssa.Alloc) *CellDefs {
	cd := &CellDefs{Fn: fn, Cell: cell, in: map[*ssa.BasicBlock]map[*ssa.Store]bool{}, zero: map[*ssa.BasicBlock]bool{}}
	lastStore := map[*ssa.BasicBlock]*ssa.Store{}
	for _, b := range fn.Blocks {
		for _, in := range b.Instrs {
			if st, ok := in.(*ssa.Store); ok && st.Addr == ssa.Value(cell) {
				lastStore[b] = st
				cd.Stores = append(cd.Stores, st)
			}
		}
		cd.in[b] = map[*ssa.Store]bool{}
	}
	if len(fn.Blocks) == 0 {
		return cd
	}
	cd.zero[fn.Blocks[0]] = true
	changed := true
	for changed {
		changed = false
		for _, b := range fn.Blocks {
			for _, p := range b.Preds {
				if ls := lastStore[p]; ls != nil {
					if !cd.in[b][ls] {
						cd.in[b][ls] = true
						changed = true
					}
					continue
				}
				for s := range cd.in[p] {
					if !cd.in[b][s] {
						cd.in[b][s] = true
						changed = true
					}
				}
				if cd.zero[p] && !cd.zero[b] {
					cd.zero[b] = true
					changed = true
				}
			}
		}
	}
	return cd
}

// At returns the stores reaching the given load (zero=true when the initial value may reach it).
func (cd *CellDefs) At(ld ssa.Instruction) (stores []*ssa.Store, zero bool) {
	b := ld.Block()
	for i := len(b.Instrs) - 1; i >= 0; i-- {
		if b.Instrs[i] == ld {
			for j := i - 1; j >= 0; j-- {
				if st, ok := b.Instrs[j].(*ssa.Store); ok && st.Addr == ssa.Value(cd.Cell) {
					return []*ssa.Store{st}, false
				}
			}
			break
		}
	}
	for s := range cd.in[b] {
		stores = append(stores, s)
	}
	// deterministic order
	for i := 0; i < len(stores); i++ {
		for j := i + 1; j < len(stores); j++ {
			if stores[j].Pos() < stores[i].Pos() {
				stores[i], stores[j] = stores[j], stores[i]
			}
		}
	}
	return stores, cd.zero[b]
}

// LoadsOf lists the loads of the cell in its function.
func (cd *CellDefs) Loads() []*ssa.UnOp {
	var out []*ssa.UnOp
	for _, b := range cd.Fn.Blocks {
		for _, in := range b.Instrs {
			if u, ok := in.(*ssa.UnOp); ok && u.Op == token.MUL && u.X == ssa.Value(cd.Cell) {
				out = append(out, u)
			}
		}
	}
	return out
}

// ResultCell returns the memory cell of result idx when the function's returns
// load it (named result or defer spill); nil otherwise.
func ResultCell(fn *ssa.Function, idx int) *ssa.Alloc {
	for _, r := range ReturnsOf(fn) {
		i := idx
		if i < 0 {
			i = len(r.Results) - 1
		}
		if i < 0 || i >= len(r.Results) {
			continue
		}
		if ld, ok := stripNoCell(r.Results[i]).(*ssa.UnOp); ok && ld.Op == token.MUL {
			if al, ok := ld.X.(*ssa.Alloc); ok {
				return al
			}
		}
	}
	return nil
}

var cellDefsCache = map[*ssa.Alloc]*CellDefs{}

// VCellAll: v satisfies pred, or is a load of a local cell every reaching definition of
// which (by CellDefs; the zero value excluded) satisfies pred.
func VCellAll(pred func(ssa.Value) bool) func(ssa.Value) bool {
	return func(v ssa.Value) bool {
		if pred(v) {
			return true
		}
		ld, ok := v.(*ssa.UnOp)
		if !ok || ld.Op != token.MUL {
			return false
		}
		al, ok := ld.X.(*ssa.Alloc)
		if !ok {
			return false
		}
		cd := cellDefsCache[al]
		if cd == nil {
			cd = NewCellDefs(al.Parent(), al)
			cellDefsCache[al] = cd
		}
		stores, zero := cd.At(ld)
		if zero || len(stores) == 0 {
			return false
		}
		for _, st := range stores {
			if !pred(st.Val) {
				return false
			}
		}
		return true
	}
}
