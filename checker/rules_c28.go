package main

import (
	"fmt"
	"go/ast"
	"go/constant"
	"go/token"
	"go/types"
	"strings"

	"golang.org/x/tools/go/ssa"
)

func init() {
	register(&Property{
		ID:          "C28",
		Roots:       []string{"osutil", "cmd/snap-update-ns"},
		Technique:   "constant-table agreement of the escape/unescape replacers; codec agreement (value provenance over SSA) between MountEntry.String and ParseMountEntry; loop discipline of the reuse analysis in snap-update-ns neededChanges (package type-checked with a stand-in <sys/capability.h>)",
		Explanation: "Structural necessary conditions for 'mount profiles round-trip and namespace updates keep/re-create the right entries' (the order of the computed change list is not decided): (R1) escape and unescape are single-pass strings.NewReplacer(...).Replace tables that are mutual inverses pair by pair, escape covers the separators the parser splits on (space, tab), the line separator and the escape character itself, and each escape is backslash plus the three octal digits of the character; (R2) MountEntry.String passes Name, Dir, Type and the joined Options through escape and prints them with the two integers in the order the parser reads them, and ParseMountEntry passes fields 0-3 through unescape into the same struct fields and fields 4/5 into DumpFrequency/CheckPassNumber; (R3) in neededChanges, each current entry that is not skipped as lying under a changed directory either is marked reusable or makes its directory (with a trailing slash, i.e. as a path component) the prefix under which later entries are skipped and re-created; the unmount pass walks every current entry and emits Keep exactly for the reusable ones.",
		NotDecided:  "the order of the resulting change list (sorting by origin/overname/mount point); what the kernel does with detached mounts; the profile of a parallel instance.",
		Run:         func(c *Ctx) { runC28(c); runC28x(c); runC28z(c) },
		VariantSkip: map[string]string{"GOARCH=arm64": "cmd/snap-update-ns needs cgo and there is no arm64 C cross-compiler in the sandbox; with cgo off its bootstrap symbols are undefined"},
	})
}

func runC28(c *Ctx) {
	P := c.P

	c.Rule("C28-R1", "K", "escape/unescape: single-pass replacers, mutual inverses, covering space, tab, newline and backslash with \\NNN octal escapes", 4)
	table := func(name string) ([]string, bool) {
		e := P.AstVarInit("osutil", name)
		sel, ok := e.(*ast.SelectorExpr)
		if !ok || sel.Sel.Name != "Replace" {
			return nil, false
		}
		call, ok := sel.X.(*ast.CallExpr)
		if !ok {
			return nil, false
		}
		if fs, ok := call.Fun.(*ast.SelectorExpr); !ok || fs.Sel.Name != "NewReplacer" {
			return nil, false
		}
		var out []string
		for _, a := range call.Args {
			tv, ok := P.Pkgs["osutil"].TypesInfo.Types[a]
			if !ok || tv.Value == nil || tv.Value.Kind() != constant.String {
				return nil, false
			}
			out = append(out, constant.StringVal(tv.Value))
		}
		return out, len(out)%2 == 0
	}
	esc, ok1 := table("escape")
	unesc, ok2 := table("unescape")
	gEsc := P.Global("osutil.escape")
	c.Check(ok1 && ok2, "osutil.escape/unescape#single-pass-replacers", gEsc.Pos(), "both are strings.NewReplacer(<constant pairs>).Replace", "escape/unescape are no longer single-pass strings.NewReplacer(<constant pairs>).Replace tables (sequential replacements re-scan their own output: a literal backslash followed by digits is then misread)")
	if ok1 && ok2 {
		em, um := map[string]string{}, map[string]string{}
		for i := 0; i < len(esc); i += 2 {
			em[esc[i]] = esc[i+1]
		}
		for i := 0; i < len(unesc); i += 2 {
			um[unesc[i]] = unesc[i+1]
		}
		inv := len(em) == len(um)
		for k, v := range em {
			if um[v] != k {
				inv = false
			}
		}
		c.Check(inv, "osutil.escape/unescape#inverse", gEsc.Pos(), fmt.Sprintf("%d pairs, mutual inverses", len(em)), fmt.Sprintf("the escape table %v and the unescape table %v are not mutual inverses", esc, unesc))
		var missing []string
		for _, ch := range []string{" ", "\t", "\n", "\\"} {
			if _, ok := em[ch]; !ok {
				missing = append(missing, fmt.Sprintf("%q", ch))
			}
		}
		c.Check(len(missing) == 0, "osutil.escape#covers-separators", gEsc.Pos(), "space, tab, newline and backslash are escaped", "escape does not cover "+strings.Join(missing, ", ")+": a field containing it is split or misread when the profile is parsed")
		okForm := true
		for k, v := range em {
			if len(k) != 1 || v != fmt.Sprintf("\\%03o", k[0]) {
				okForm = false
			}
		}
		c.Check(okForm, "osutil.escape#octal-form", gEsc.Pos(), "each escape is backslash + 3 octal digits of the character", "an escape sequence is not \\NNN with the octal code of its character (what getmntent and the kernel use)")
	}

	c.Rule("C28-R2", "C", "MountEntry.String and ParseMountEntry map the same fields to the same positions through escape/unescape", 10)
	str := P.Func("osutil.MountEntry.String")
	parse := P.Func("osutil.ParseMountEntry")
	gUn := P.Global("osutil.unescape")
	sprintf := P.FuncObj("fmt.Sprintf")
	fld := func(n string) *types.Var { return P.Field("osutil.MountEntry." + n) }
	// writer: the Sprintf arguments
	var sp ssa.CallInstruction
	for _, cc := range CallSites(str, sprintf) {
		sp = cc
	}
	if sp == nil {
		c.Undecided("osutil.MountEntry.String#sprintf", str.Pos(), "fmt.Sprintf not found")
	} else {
		f, _ := ConstString(sp.Common().Args[0])
		c.Check(f == "%s %s %s %s %d %d", "osutil.MountEntry.String#format", sp.Pos(), "six space-separated fields", fmt.Sprintf("the entry format is %q, the parser expects \"name dir type options dump pass\"", f))
		els := VarargElems(sp.Common().Args[1])
		wantW := []string{"Name", "Dir", "Type", "Options", "DumpFrequency", "CheckPassNumber"}
		for i, w := range wantW {
			construct := fmt.Sprintf("osutil.MountEntry.String#field-%d:%s", i, w)
			if i >= len(els) {
				c.Violated(construct, sp.Pos(), "missing argument")
				continue
			}
			v := els[i]
			if i < 4 {
				// phi("none"/"defaults", escape(<field>))
				okE := false
				var leaves []FlowPoint
				phiLeaves(stripIface(v), sp, &leaves, map[*ssa.Phi]bool{})
				// (a field may be formatted by a private helper: escapeOrNone(e.Name))
				var expanded []FlowPoint
				for _, lf := range leaves {
					hc, hi, ok := CallResult(lf.Val)
					var h *ssa.Function
					if ok && !ViaGlobal(gEsc)(hc) {
						h = hc.Common().StaticCallee()
					}
					if h != nil && h.Pkg == str.Pkg && len(h.Blocks) > 0 && len(h.Params) == 1 && len(hc.Common().Args) == 1 {
						for _, hl := range ReturnLeaves(h, hi) {
							if ec, _, isE := CallResult(hl.Val); isE && ViaGlobal(gEsc)(ec) && (Strip(ec.Common().Args[0]) == ssa.Value(h.Params[0]) || ec.Common().Args[0] == ssa.Value(h.Params[0])) {
								if w != "Options" && IsFieldLoad(hc.Common().Args[0], fld(w)) {
									okE = true
								}
							}
						}
						continue
					}
					expanded = append(expanded, lf)
				}
				for _, lf := range expanded {
					if cc, _, ok := CallResult(lf.Val); ok && ViaGlobal(gEsc)(cc) {
						a := cc.Common().Args[0]
						if w == "Options" {
							okE = DependsOnCall(a, P.FuncObj("strings.Join"), func(as []ssa.Value) bool { return len(as) == 2 && IsFieldLoad(as[0], fld("Options")) })
						} else {
							okE = IsFieldLoad(a, fld(w))
						}
					}
				}
				c.Check(okE, construct, sp.Pos(), "escape(e."+w+")", fmt.Sprintf("position %d of the printed entry is not escape(e.%s)", i, w))
			} else {
				c.Check(IsFieldLoad(stripIface(v), fld(w)), construct, sp.Pos(), "e."+w, fmt.Sprintf("position %d of the printed entry is not e.%s", i, w))
			}
		}
	}
	// reader
	atoi := P.FuncObj("strconv.Atoi")
	fieldsFunc := P.FuncObj("strings.FieldsFunc")
	isFieldN := func(n int64) func(ssa.Value) bool {
		return func(v ssa.Value) bool {
			v = Strip(v)
			u, ok := v.(*ssa.UnOp)
			if !ok {
				return false
			}
			ia, ok := u.X.(*ssa.IndexAddr)
			if !ok {
				return false
			}
			k, isC := ConstInt(ia.Index)
			return isC && k == n && DependsOnCall(ia.X, fieldsFunc, func([]ssa.Value) bool { return true })
		}
	}
	for i, w := range []string{"Name", "Dir", "Type", "Options", "DumpFrequency", "CheckPassNumber"} {
		construct := fmt.Sprintf("osutil.ParseMountEntry#field-%d:%s", i, w)
		okR := false
		for _, st := range StoresToField(parse, fld(w)) {
			var leaves []FlowPoint
			phiLeaves(st.Val, st, &leaves, map[*ssa.Phi]bool{})
			for _, lf := range leaves {
				switch {
				case i < 3:
					if cc, _, ok := CallResult(lf.Val); ok && ViaGlobal(gUn)(cc) && isFieldN(int64(i))(cc.Common().Args[0]) {
						okR = true
					}
				case i == 3:
					okR = okR || DependsOnCall(lf.Val, P.FuncObj("strings.Split"), func(as []ssa.Value) bool {
						cc, _, ok := CallResult(as[0])
						return ok && ViaGlobal(gUn)(cc) && isFieldN(3)(cc.Common().Args[0])
					})
				default:
					if cc, idx, ok := CallResult(lf.Val); ok && idx == 0 && ToFn(atoi)(cc) && isFieldN(int64(i))(cc.Common().Args[0]) {
						okR = true
					}
				}
			}
		}
		c.Check(okR, construct, parse.Pos(), fmt.Sprintf("e.%s is read from field %d", w, i), fmt.Sprintf("ParseMountEntry does not fill e.%s from field %d (through unescape for the textual fields): the profile written by String() is read back differently", w, i))
	}
	// the parser splits exactly on the separators escape covers
	okSplit := false
	for _, cc := range CallSites(parse, fieldsFunc) {
		if fnv := funcValue(cc.Common().Args[1]); fnv != nil {
			seps := map[int64]bool{}
			for _, b := range fnv.Blocks {
				for _, in := range b.Instrs {
					if bo, ok := in.(*ssa.BinOp); ok && bo.Op == token.EQL {
						if k, ok := ConstInt(bo.Y); ok {
							seps[k] = true
						}
					}
				}
			}
			okSplit = len(seps) == 2 && seps[' '] && seps['\t']
		}
	}
	c.Check(okSplit, "osutil.ParseMountEntry#separators", parse.Pos(), "fields are split on space and tab", "ParseMountEntry no longer splits exactly on space and tab, the separators escape() protects")

	c.Rule("C28-R3", "L", "neededChanges: every current entry is skipped (under a changed dir), marked reusable, or makes dir+\"/\" the skip prefix; Keep exactly for reusable entries", 4)
	sun := "cmd/snap-update-ns"
	if _, ok := P.Pkgs[sun]; !ok {
		c.Undecided(sun+"#loaded", token.NoPos, "package cmd/snap-update-ns could not be loaded (cgo stand-in header missing?)")
		return
	}
	nc := P.Func(sun + ".neededChanges")
	c.touch(nc)
	// the reuse map: map[mountEntryId]bool updated with true
	var reuseMap ssa.Value
	var reuseUpd []ssa.Instruction
	idT := P.NamedType(sun + ".mountEntryId")
	// (several maps may be keyed by mountEntryId: the reuse map is the one the Keep decision of the
	// unmount pass looks at)
	{
		keepK0 := P.Const(sun + ".Keep")
		var keepLoops []*RangeLoop
		for _, st := range StoresToField(nc, P.Field(sun+".Change.Action")) {
			if VConstObj(keepK0)(st.Val) {
				if l := LoopContaining(nc, st); l != nil {
					keepLoops = append(keepLoops, l)
				}
			}
		}
		for _, b := range nc.Blocks {
			for _, in := range b.Instrs {
				lk, ok := in.(*ssa.Lookup)
				if !ok {
					continue
				}
				if mt, ok := lk.X.Type().Underlying().(*types.Map); !ok || !types.Identical(mt.Key(), idT) {
					continue
				}
				l := LoopContaining(nc, lk)
				for _, kl := range keepLoops {
					if l != nil && l.Header == kl.Header {
						reuseMap = Strip(lk.X)
					}
				}
			}
		}
	}
	for _, b := range nc.Blocks {
		for _, in := range b.Instrs {
			if mu, ok := in.(*ssa.MapUpdate); ok && reuseMap != nil && Strip(mu.Map) == reuseMap {
				reuseUpd = append(reuseUpd, mu)
			}
		}
	}
	if reuseMap == nil || len(reuseUpd) == 0 {
		c.Undecided(sun+".neededChanges#reuse-map", nc.Pos(), "the reuse map was not found")
		return
	}
	rl := LoopContaining(nc, reuseUpd[0])
	if rl == nil {
		c.Undecided(sun+".neededChanges#reuse-loop", nc.Pos(), "the reuse analysis loop was not found")
		return
	}
	// skipDir: the loop-carried string phi of the header
	var skip *ssa.Phi
	for _, in := range rl.Header.Instrs {
		if phi, ok := in.(*ssa.Phi); ok {
			if b, ok := phi.Type().Underlying().(*types.Basic); ok && b.Kind() == types.String {
				skip = phi
			}
		}
	}
	if skip == nil {
		c.Undecided(sun+".neededChanges#skip-prefix", nc.Pos(), "the loop-carried skip prefix was not found")
		return
	}
	isReuse := func(in ssa.Instruction) bool {
		for _, u := range reuseUpd {
			if u == in {
				return true
			}
		}
		return false
	}
	hasPrefix := P.FuncObj("strings.HasPrefix")
	underChanged := TrueRes("strings.HasPrefix(dir, skipDir)", true, 0, CallWhere(ToFn(hasPrefix), 1, VIs(skip)))
	var leaves []FlowPoint
	phiLeaves(skip, nil, &leaves, map[*ssa.Phi]bool{skip: false})
	n := 0
	for _, lf := range leaves {
		if lf.EdgeFrom == nil && lf.Instr == nil {
			continue
		}
		n++
		name := fmt.Sprintf("%s.neededChanges#skip-prefix-source#%d", sun, n)
		switch {
		case lf.Val == ssa.Value(skip):
			// carried over unchanged: only when this entry was skipped as lying under the prefix
			q := ReachQ{Fn: nc, From: &Loc{rl.Body, -1}, CutEdge: func(b *ssa.BasicBlock, s int) bool { return AtomEdges(underChanged)(b, s) || b.Succs[s] == rl.Done },
				SinkEdge: func(b *ssa.BasicBlock, s int) bool { return lf.EdgeFrom != nil && b == lf.EdgeFrom && s == lf.EdgeSucc }}
			r := q.Run()
			c.Check(!r.Found, name, lf.Pos(), "the prefix is kept only for entries skipped under it", "the skip prefix can be carried to the next entry without this entry having been skipped under it: "+P.PathString(r.Path))
		case func() bool { s, ok := ConstString(lf.Val); return ok && s == "" }():
			// reset: this entry must have been marked reusable (or we are before the loop)
			if lf.EdgeFrom != nil && !rl.Header.Dominates(lf.EdgeFrom) {
				c.Holds(name, lf.Pos(), "initial value")
				continue
			}
			q := ReachQ{Fn: nc, From: &Loc{rl.Body, -1}, CutInstr: isReuse, CutEdge: func(b *ssa.BasicBlock, s int) bool { return b.Succs[s] == rl.Done },
				SinkEdge: func(b *ssa.BasicBlock, s int) bool { return lf.EdgeFrom != nil && b == lf.EdgeFrom && s == lf.EdgeSucc }}
			r := q.Run()
			c.Check(!r.Found, name, lf.Pos(), "an entry that clears the prefix was marked reusable", "a current entry can be passed over with an empty skip prefix without being marked reusable (a changed or dropped parent no longer forces what is mounted beneath it to be re-created; the parent is detached from under a kept child): "+P.PathString(r.Path))
		default:
			bo, ok := lf.Val.(*ssa.BinOp)
			okForm := false
			if ok && bo.Op == token.ADD {
				s, isC := ConstString(bo.Y)
				okForm = isC && s == "/"
			}
			c.Check(okForm, name, lf.Pos(), "dir + \"/\"", "the skip prefix is not the entry's directory followed by \"/\": a sibling whose name merely starts with the changed entry's name is treated as lying beneath it (and needlessly unmounted), or a child is missed")
		}
	}
	if n < 3 {
		c.Undecided(sun+".neededChanges#skip-prefix-sources", nc.Pos(), fmt.Sprintf("expected the carried, reset and new-prefix sources of the skip prefix, found %d", n))
	}
	// the unmount pass: Keep <=> reuse[...]
	keepK := P.Const(sun + ".Keep")
	fAction := P.Field(sun + ".Change.Action")
	nK := 0
	for _, st := range StoresToField(nc, fAction) {
		if !VConstObj(keepK)(st.Val) {
			continue
		}
		nK++
		isReused := Atom{Name: "reuse[id]", Match: func(cd Cond) Pol {
			return cd.BoolIs(func(v ssa.Value) bool {
				lk, ok := Strip(v).(*ssa.Lookup)
				return ok && Strip(lk.X) == reuseMap
			})
		}}
		c.Guarded(fmt.Sprintf("%s.neededChanges#keep<=reusable#%d", sun, nK), nc, st, []Clause{{isReused}}, nil)
	}
	if nK == 0 {
		c.Undecided(sun+".neededChanges#keep", nc.Pos(), "no Change{Action: Keep} found")
	}
}

func stripIface(v ssa.Value) ssa.Value {
	if mi, ok := v.(*ssa.MakeInterface); ok {
		return mi.X
	}
	return v
}
