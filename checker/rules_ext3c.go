package main

// Rules added after the third round of seeded changes, batch C (DESIGN.md section 12.3).

import (
	"fmt"
	"go/token"
	"go/types"

	"golang.org/x/tools/go/ssa"
)

// isBuiltinCall reports whether in is a call of the named builtin.
func isBuiltinCall(in ssa.Instruction, name string) (*ssa.Call, bool) {
	cl, ok := in.(*ssa.Call)
	if !ok {
		return nil, false
	}
	b, ok := cl.Call.Value.(*ssa.Builtin)
	return cl, ok && b.Name() == name
}

// lookupOf: v is m[k] (plain or comma-ok, value part) for a map m satisfying M.
func lookupOf(M func(ssa.Value) bool) func(ssa.Value) bool {
	return func(v ssa.Value) bool {
		v = Strip(v)
		if ex, ok := v.(*ssa.Extract); ok && ex.Index == 0 {
			v = ex.Tuple
		}
		lk, ok := v.(*ssa.Lookup)
		return ok && M(lk.X)
	}
}

// lookupOkOf: v is the ok part of `_, ok := m[k]` for a map m satisfying M.
func lookupOkOf(M func(ssa.Value) bool) func(ssa.Value) bool {
	return func(v ssa.Value) bool {
		ex, ok := Strip(v).(*ssa.Extract)
		if !ok || ex.Index != 1 {
			return false
		}
		lk, ok := ex.Tuple.(*ssa.Lookup)
		return ok && lk.CommaOk && M(lk.X)
	}
}

func runC15z(c *Ctx) {
	P := c.P
	pkg := "overlord/snapstate"
	c.Rule("C15-R8", "G", "pruneGating forgets hold records (and with them the time a hold was first placed, from which the 48h bound is counted) only for snaps that have no refresh candidate any more", 1)
	fn := P.Func(pkg + ".pruneGating")
	prune := P.FuncObj(pkg + ".pruneHoldStatesForSnap")
	cands := VParam(fn, 1)
	noCand := Cmp("candidates[snap]==nil", lookupOf(cands), token.EQL, isNilVal)
	absent := Atom{Name: "snap not in candidates", Match: func(cd Cond) Pol { return cd.BoolIs(lookupOkOf(cands)).Flip() }}
	n := 0
	for _, b := range fn.Blocks {
		for _, in := range b.Instrs {
			_, del := isBuiltinCall(in, "delete")
			_, pr := IsCallTo(in, prune)
			if !del && !pr {
				continue
			}
			n++
			c.Guarded(fmt.Sprintf("%s.pruneGating#forgets-only-without-candidate#%d", pkg, n), fn, in, []Clause{{noCand, absent}}, &GOpt{NoVacuity: true})
		}
	}
	if n == 0 {
		c.Undecided(pkg+".pruneGating#forgets-only-without-candidate", fn.Pos(), "no pruning of hold records found in pruneGating")
	}
}

func runC19z(c *Ctx) {
	P := c.P
	pkg := "asserts"
	c.Rule("C19-R7", "O+L", "sequence lookups walk the sequence numbers in numeric order (the directory names are sorted as integers before they are indexed) and pass over members whose format is too new instead of stopping at them", 2)
	// (a) filesystem backstore: names -> []int, sorted numerically before any element is read
	fw := P.Func(pkg + ".findWildcardSequence")
	sortInts := P.FuncObj("sort.Ints")
	isNumericSort := func(in ssa.Instruction) bool {
		cc, ok := in.(ssa.CallInstruction)
		if !ok {
			return false
		}
		if _, ok := IsCallTo(in, sortInts); ok {
			return true
		}
		if sc := cc.Common().StaticCallee(); sc != nil && sc.Pkg != nil {
			name := sc.Pkg.Pkg.Path() + "." + sc.Name()
			if name == "slices.Sort" && len(cc.Common().Args) == 1 {
				if sl, ok := cc.Common().Args[0].Type().Underlying().(*types.Slice); ok {
					if bt, ok := sl.Elem().Underlying().(*types.Basic); ok && bt.Kind() == types.Int {
						return true
					}
				}
			}
			if name == "sort.Sort" && len(cc.Common().Args) == 1 {
				a := cc.Common().Args[0]
				if mi, ok := a.(*ssa.MakeInterface); ok {
					a = mi.X
				}
				if nt, ok := a.Type().(*types.Named); ok && nt.Obj().Name() == "IntSlice" && nt.Obj().Pkg() != nil && nt.Obj().Pkg().Path() == "sort" {
					return true
				}
			}
		}
		return false
	}
	n := 0
	for _, b := range fw.Blocks {
		for _, in := range b.Instrs {
			ia, ok := in.(*ssa.IndexAddr)
			if !ok {
				continue
			}
			sl, ok := ia.X.Type().Underlying().(*types.Slice)
			if !ok {
				continue
			}
			if bt, ok := sl.Elem().Underlying().(*types.Basic); !ok || bt.Kind() != types.Int {
				continue
			}
			n++
			c.Before(fmt.Sprintf("%s.findWildcardSequence#numeric-order#%d", pkg, n), fw, isNumericSort, "sort.Ints(seq)", in, nil)
		}
	}
	if n == 0 {
		c.Undecided(pkg+".findWildcardSequence#numeric-order", fw.Pos(), "no indexed read of the sequence numbers found")
	}
	// (b) memory backstore: every lookup of the current revision of a member is made from inside the walk
	sm := P.Func(pkg + ".(*memBSSeqLeaf).sequenceMemberAfter")
	cur := P.FuncObj(pkg + ".(*memBSSeqLeaf).cur")
	calls := CallSites(sm, cur)
	if len(calls) == 0 {
		c.Undecided(pkg+".(*memBSSeqLeaf).sequenceMemberAfter#walks-past-too-new", sm.Pos(), "no call of cur() found")
	}
	for i, cc := range calls {
		c.touch(sm)
		c.Check(LoopContaining(sm, cc) != nil, fmt.Sprintf("%s.(*memBSSeqLeaf).sequenceMemberAfter#walks-past-too-new#%d", pkg, i+1), cc.Pos(),
			"cur(seqkey, maxFormat) is tried for one member after the other", "the member is looked up once, outside any loop over the sequence: a member whose only revisions have a too new format ends the search instead of being passed over")
	}
}

func runC21z(c *Ctx) {
	P := c.P
	c.Rule("C21-R7", "O", "device-scope and policy membership tests are linear searches, or binary searches over a list sorted in the same function (store and model lists come from assertions in the order their author wrote them)", 2)
	sorted := P.FuncObj("strutil.SortedListContains")
	linear := P.FuncObj("strutil.ListContains")
	sortStr := P.FuncObj("sort.Strings")
	search := P.FuncObj("sort.SearchStrings")
	isSort := func(in ssa.Instruction) bool { _, ok := IsCallTo(in, sortStr); return ok }
	nLin := 0
	var fns []*ssa.Function
	fns = append(fns, P.FuncsIn("asserts")...)
	fns = append(fns, P.FuncsIn("interfaces/policy")...)
	n := 0
	for _, fn := range fns {
		nLin += len(CallSites(fn, linear))
		for _, cc := range CallSites(fn, sorted, search) {
			n++
			key := fmt.Sprintf("%s#binary-search-over-sorted#%d", SSAFuncName(fn), n)
			list := cc.Common().Args[0]
			okSorted := false
			for _, sc := range CallSites(fn, sortStr) {
				if Strip(sc.Common().Args[0]) == Strip(list) {
					okSorted = true
				}
			}
			if !okSorted {
				c.touch(fn)
				c.Violated(key, cc.Pos(), "binary search over a list that is not sorted in this function: membership of a store/model/name in a list taken from an assertion depends on the order the list was written in")
				continue
			}
			c.Before(key, fn, isSort, "sort.Strings(list)", cc.(ssa.Instruction), nil)
		}
	}
	chk := P.Func("asserts.(*DeviceScopeConstraint).Check")
	c.touch(chk)
	nChk := len(CallSites(chk, linear))
	c.Check(nChk >= 3, "asserts.(*DeviceScopeConstraint).Check#linear-membership", chk.Pos(), fmt.Sprintf("%d linear membership tests (%d in asserts and interfaces/policy)", nChk, nLin), "the membership tests of DeviceScopeConstraint.Check (brand, model, store, friendly stores) were not found")
	c.Holds("asserts+interfaces/policy#binary-searches", chk.Pos(), fmt.Sprintf("%d binary searches, each over a list sorted in place", n))
}

func runC23z(c *Ctx) {
	P := c.P
	pkg := "osutil"
	c.Rule("C23-R7", "W+F", "a managed name is replaced, never written through (AtomicWrite without AtomicWriteFollow); an error that stems from the desired files leaves EnsureDirStateGlobs only after the delete phase (fail closed)", 3)
	// (a)
	fn := P.Func(pkg + ".ensureRegularFileState")
	aw := P.FuncObj(pkg + ".AtomicWrite")
	follow, _ := constantInt64(P.Const(pkg + ".AtomicWriteFollow"))
	calls := CallSites(fn, aw)
	if len(calls) == 0 {
		c.Undecided(pkg+".ensureRegularFileState#no-follow", fn.Pos(), "AtomicWrite call not found")
	}
	for i, cc := range calls {
		key := fmt.Sprintf("%s.ensureRegularFileState#no-follow#%d", pkg, i+1)
		c.touch(fn)
		a := CallArgs(cc)
		k, ok := ConstInt(a[len(a)-1])
		if !ok {
			c.Undecided(key, cc.Pos(), "the AtomicWrite flags are not a constant")
			continue
		}
		c.Check(k&follow == 0, key, cc.Pos(), "flags without AtomicWriteFollow", "AtomicWrite follows a symbolic link found at the managed name: the file the link points to (outside the managed set) is overwritten and the managed name stays a link")
	}
	// (b)
	eg := P.Func(pkg + ".EnsureDirStateGlobs")
	c.touch(eg)
	errorf := P.FuncObj("fmt.Errorf")
	glob := P.FuncObj("path/filepath.Glob")
	n := 0
	for _, r := range ReturnsOf(eg) {
		if len(r.Results) != 3 || !IsNilConst(Strip(r.Results[1])) {
			continue // the return after the delete phase hands out what was removed
		}
		var leaves []FlowPoint
		phiLeaves(r.Results[2], r, &leaves, map[*ssa.Phi]bool{})
		// (an error handed up by a private helper is that helper's: a failed Glob wrapped in globMatches)
		leaves = ThroughHelpers(leaves, eg.Pkg)
		for _, lf := range leaves {
			if IsNilConst(Strip(lf.Val)) {
				continue
			}
			n++
			key := fmt.Sprintf("%s.EnsureDirStateGlobs#early-error#%d", pkg, n)
			cc, _, isCall := CallResult(lf.Val)
			okSrc := isCall && (ToFn(errorf)(cc) || ToFn(glob)(cc))
			c.Check(okSrc, key, r.Pos(), "argument rejection (fmt.Errorf) or a failed Glob", "an error other than an argument rejection leaves EnsureDirStateGlobs before the delete phase: the files written earlier for the same patterns stay behind instead of being removed")
		}
	}
	if n == 0 {
		c.Undecided(pkg+".EnsureDirStateGlobs#early-error", eg.Pos(), "no early error return found")
	}
}

func runC28z(c *Ctx) {
	P := c.P
	c.Rule("C28-R5", "G+F", "neededChanges marks a current entry reusable only if it is the rootfs, a synthetic entry whose needed-by entry is desired, or equal to the desired entry at the same place; ReadMountProfile reads whole lines or fails", 4)
	fn := P.Func("cmd/snap-update-ns.neededChanges")
	me := "osutil.(*MountEntry)."
	rootfs := Cmp("origin==\"rootfs\"", VRes(0, ToFn(P.FuncObj(me+"XSnapdOrigin"))), token.EQL, VConstStr("rootfs"))
	synth := TrueRes("entry.XSnapdSynthetic()", true, 0, ToFn(P.FuncObj(me+"XSnapdSynthetic")))
	equal := TrueRes("current.Equal(desired)", true, 0, ToFn(P.FuncObj(me+"Equal")))
	n := 0
	for _, b := range fn.Blocks {
		for _, in := range b.Instrs {
			mu, ok := in.(*ssa.MapUpdate)
			if !ok {
				continue
			}
			mt, ok := mu.Map.Type().Underlying().(*types.Map)
			if !ok {
				continue
			}
			if nt, ok := mt.Key().(*types.Named); !ok || nt.Obj().Name() != "mountEntryId" {
				continue
			}
			if bt, ok := mt.Elem().Underlying().(*types.Basic); !ok || bt.Kind() != types.Bool {
				continue
			}
			n++
			c.Guarded(fmt.Sprintf("cmd/snap-update-ns.neededChanges#reusable-only-if#%d", n), fn, in, []Clause{{rootfs, synth, equal}}, &GOpt{NoVacuity: true})
		}
	}
	if n == 0 {
		c.Undecided("cmd/snap-update-ns.neededChanges#reusable-only-if", fn.Pos(), "no update of the reuse map found")
	}
	// the reader of the profile
	rd := P.Func("osutil.ReadMountProfile")
	c.touch(rd)
	scan := P.FuncObj("bufio.(*Scanner).Scan")
	serr := P.FuncObj("bufio.(*Scanner).Err")
	readLine := P.FuncObj("bufio.(*Reader).ReadLine")
	readStr := P.FuncObj("bufio.(*Reader).ReadString")
	readBytes := P.FuncObj("bufio.(*Reader).ReadBytes")
	key := "osutil.ReadMountProfile#whole-lines"
	switch {
	case len(CallSites(rd, readLine)) > 0:
		for i, cc := range CallSites(rd, readLine) {
			used := false
			if v, ok := cc.(ssa.Value); ok && v.Referrers() != nil {
				for _, r := range *v.Referrers() {
					if ex, ok := r.(*ssa.Extract); ok && ex.Index == 1 && ex.Referrers() != nil && len(*ex.Referrers()) > 0 {
						used = true
					}
				}
			}
			c.Check(used, fmt.Sprintf("%s#%d", key, i+1), cc.Pos(), "isPrefix is looked at", "ReadLine's isPrefix result is dropped: a line longer than the buffer is parsed as several entries")
		}
	case len(CallSites(rd, scan)) > 0:
		errs := CallSites(rd, serr)
		if len(errs) == 0 {
			c.Violated(key, rd.Pos(), "the scanner's error is never looked at: a line longer than the scanner's limit silently ends the profile")
			break
		}
		okAll := true
		for _, r := range ReturnsOf(rd) {
			if !IsSuccessReturn(r) {
				continue
			}
			cut := AtomEdges(OkCall("scanner.Err()==nil", serr))
			if (ReachQ{Fn: rd, CutEdge: cut, Sink: func(in ssa.Instruction) bool { return in == ssa.Instruction(r) }}).Run().Found {
				okAll = false
			}
		}
		c.Check(okAll, key, errs[0].Pos(), "success only after scanner.Err()==nil", "ReadMountProfile can succeed without the scanner's error having been found nil: a line longer than the scanner's limit silently ends the profile")
	case len(CallSites(rd, readStr, readBytes)) > 0:
		c.Holds(key, rd.Pos(), "reads with ReadString/ReadBytes (unbounded lines)")
	default:
		c.Undecided(key, rd.Pos(), "the way ReadMountProfile splits its input into lines was not recognised")
	}
	// the desired side (the rule behind finding F19)
	c.Rule("C28-R6", "G", "neededChanges leaves a desired entry out of the mount plan only when the current profile holds an identical entry that is reused (a kept rootfs or synthetic entry at the same place does not stand for it)", 1)
	var desiredSl ssa.Value
	fEntries := P.Field("osutil.MountProfile.Entries")
	for _, b := range fn.Blocks {
		for _, in := range b.Instrs {
			if cp, ok := isBuiltinCall(in, "copy"); ok && VFieldOf(fEntries, VParam(fn, 1))(cp.Call.Args[1]) {
				desiredSl = Strip(cp.Call.Args[0])
			}
		}
	}
	isIDMap := func(v ssa.Value) bool {
		mt, ok := v.Type().Underlying().(*types.Map)
		if !ok {
			return false
		}
		nt, ok := mt.Key().(*types.Named)
		if !ok || nt.Obj().Name() != "mountEntryId" {
			return false
		}
		bt, ok := mt.Elem().Underlying().(*types.Basic)
		return ok && bt.Kind() == types.Bool
	}
	var filters []ssa.Value
	if desiredSl != nil {
		for _, b := range fn.Blocks {
			for _, in := range b.Instrs {
				lk, ok := in.(*ssa.Lookup)
				if !ok || !isIDMap(lk.X) {
					continue
				}
				if rl := LoopContaining(fn, lk); rl != nil && rl.Coll != nil && Strip(rl.Coll) == desiredSl {
					filters = append(filters, Strip(lk.X))
				}
			}
		}
	}
	if len(filters) == 0 {
		c.Undecided("cmd/snap-update-ns.neededChanges#desired-left-out-only-if-identical", fn.Pos(), "the test that leaves already mounted desired entries out of the plan was not found")
	}
	m := 0
	for _, fm := range filters {
		for _, b := range fn.Blocks {
			for _, in := range b.Instrs {
				mu, ok := in.(*ssa.MapUpdate)
				if !ok || Strip(mu.Map) != fm {
					continue
				}
				m++
				c.Guarded(fmt.Sprintf("cmd/snap-update-ns.neededChanges#desired-left-out-only-if-identical#%d", m), fn, in, []Clause{{equal}}, &GOpt{NoVacuity: true})
			}
		}
	}
}

func runC29z(c *Ctx) {
	P := c.P
	pkg := "overlord/configstate/config"
	c.Rule("C29-R5", "W", "RestoreRevisionConfig replaces the snap's configuration by the saved document itself; purgeNulls descends into maps only (lists are values)", 2)
	fn := P.Func(pkg + ".RestoreRevisionConfig")
	stGet := P.FuncObj("overlord/state.(*State).Get")
	cell := map[string]*ssa.Alloc{}
	for _, cc := range CallSites(fn, stGet) {
		if k, ok := ConstString(CallArgs(cc)[0]); ok {
			if mi, ok := CallArgs(cc)[1].(*ssa.MakeInterface); ok {
				if al, ok := mi.X.(*ssa.Alloc); ok {
					cell[k] = al
				}
			}
		}
	}
	if cell["config"] == nil || cell["revision-config"] == nil {
		c.Undecided(pkg+".RestoreRevisionConfig#restores-saved-document", fn.Pos(), "st.Get(\"config\", &config) / st.Get(\"revision-config\", &revisionConfig) not found")
	} else {
		n := 0
		for _, b := range fn.Blocks {
			for _, in := range b.Instrs {
				mu, ok := in.(*ssa.MapUpdate)
				if !ok {
					continue
				}
				ld, ok := Strip(mu.Map).(*ssa.UnOp)
				if !ok || ld.X != ssa.Value(cell["config"]) {
					continue
				}
				n++
				v := Strip(mu.Value)
				if ex, ok := v.(*ssa.Extract); ok && ex.Index == 0 {
					v = ex.Tuple
				}
				lk, isLk := v.(*ssa.Lookup)
				okV := false
				if isLk {
					// revisionConfig[snap][rev]: walk the lookups back to the map read from the state
					x := lk.X
					for i := 0; i < 6 && x != nil; i++ {
						if ex, ok := x.(*ssa.Extract); ok {
							x = ex.Tuple
							continue
						}
						if l2, ok := x.(*ssa.Lookup); ok {
							x = l2.X
							continue
						}
						if u, ok := x.(*ssa.UnOp); ok && u.Op == token.MUL && u.X == ssa.Value(cell["revision-config"]) {
							okV = true
						}
						break
					}
				}
				c.touch(fn)
				c.Check(okV, fmt.Sprintf("%s.RestoreRevisionConfig#restores-saved-document#%d", pkg, n), mu.Pos(), "config[snap] = revisionConfig[snap][rev]", "what RestoreRevisionConfig stores for the snap is not the saved document itself (merged or rebuilt): options set after the snapshot survive the revert")
			}
		}
		if n == 0 {
			c.Undecided(pkg+".RestoreRevisionConfig#restores-saved-document", fn.Pos(), "no update of the configuration map found")
		}
	}
	pn := P.Func(pkg + ".purgeNulls")
	c.touch(pn)
	bad := token.NoPos
	for _, b := range pn.Blocks {
		for _, in := range b.Instrs {
			if ta, ok := in.(*ssa.TypeAssert); ok {
				if _, isSl := ta.AssertedType.Underlying().(*types.Slice); isSl {
					bad = ta.Pos()
					if !bad.IsValid() {
						bad = pn.Pos()
					}
				}
			}
			if st, ok := in.(*ssa.Store); ok {
				if ia, ok := st.Addr.(*ssa.IndexAddr); ok {
					if _, isSl := ia.X.Type().Underlying().(*types.Slice); isSl {
						bad = st.Pos()
					}
				}
			}
		}
	}
	c.Check(bad == token.NoPos, pkg+".purgeNulls#maps-only", func() token.Pos {
		if bad != token.NoPos {
			return bad
		}
		return pn.Pos()
	}(), "no case for lists", "purgeNulls descends into lists: a written list of documents with null fields is read back (and re-committed) different from what was written")
}

func runC32z(c *Ctx) {
	P := c.P
	pkg := "overlord/snapshotstate/backend"
	c.Rule("C32-R8", "W", "Reader.Restore registers every move in the RestoreState it returns (so the deferred Revert can undo a restore that fails half-way); tar extracts with --preserve-permissions also when it runs as the user", 2)
	fn := P.Func(pkg + ".(*Reader).Restore")
	c.touch(fn)
	mv := P.FuncObj(pkg + ".moveFile")
	rc := ResultCell(fn, 0)
	calls := CallSites(fn, mv)
	if len(calls) == 0 {
		c.Undecided(pkg+".(*Reader).Restore#moves-registered", fn.Pos(), "no moveFile call found")
	}
	for i, cc := range calls {
		key := fmt.Sprintf("%s.(*Reader).Restore#moves-registered#%d", pkg, i+1)
		a0 := Strip(cc.Common().Args[0])
		ok := false
		if rc != nil {
			if ld, isLd := a0.(*ssa.UnOp); isLd && ld.Op == token.MUL && ld.X == ssa.Value(rc) {
				ok = true
			}
		} else {
			ok = true
			for _, r := range ReturnsOf(fn) {
				if Strip(r.Results[0]) != a0 && !IsNilConst(Strip(r.Results[0])) {
					ok = false
				}
			}
		}
		c.Check(ok, key, cc.Pos(), "moveFile(rs, …) with the returned restore state", "moveFile registers what it moved in a restore state other than the one Restore returns: when a later move fails, Revert does not know about the directories already swapped in")
	}
	gTar := P.Global(pkg + ".tarAsUser")
	tcs := CallsMatching(fn, ViaGlobal(gTar))
	if len(tcs) == 0 {
		c.Undecided(pkg+".(*Reader).Restore#tar-preserves-permissions", fn.Pos(), "tarAsUser call not found")
	}
	for i, tc := range tcs {
		has := false
		for _, e := range VarargElems(tc.Common().Args[1]) {
			if e == nil {
				continue
			}
			if s, ok := ConstString(e); ok && (s == "--preserve-permissions" || s == "--same-permissions" || s == "-p") {
				has = true
			}
		}
		c.Check(has, fmt.Sprintf("%s.(*Reader).Restore#tar-preserves-permissions#%d", pkg, i+1), tc.Pos(), "--preserve-permissions", "tar extracts without --preserve-permissions: run as the (non-root) user it applies the umask, and the restored files do not have the saved modes")
	}
}

// runC38z: the installer side of C38.
func runC38z(c *Ctx) {
	P := c.P
	pkg := "gadget/install"
	c.Rule("C38-R6", "G", "buildPartitionList grows the system-data partition to the end of the disk only if it is the last structure of the volume (anything placed after it would be overlapped)", 1)
	fn := P.TryFunc(pkg + ".buildPartitionList")
	if fn == nil {
		c.Undecided(pkg+".buildPartitionList#expands-only-last", token.NoPos, "gadget/install is not loaded")
		return
	}
	c.touch(fn)
	fRole := P.Field("gadget.VolumeStructure.Role")
	fStruct := P.Field("gadget.Volume.Structure")
	fEnd := P.Field("gadget.OnDiskVolume.UsableSectorsEnd")
	sysData := P.Const("gadget.SystemData")
	isLastElem := func(v ssa.Value) bool {
		// vol.Structure[len(vol.Structure)-1] (element or its address)
		if al, ok := v.(*ssa.Alloc); ok {
			// last := vol.Structure[n-1] (a local copy)
			if sv := singleStore(al); sv != nil {
				v = sv
			}
		}
		if u, ok := v.(*ssa.UnOp); ok && u.Op == token.MUL {
			v = u.X
		}
		ia, ok := v.(*ssa.IndexAddr)
		if !ok || !VField(fStruct)(ia.X) {
			return false
		}
		bo, ok := Strip(ia.Index).(*ssa.BinOp)
		if !ok || bo.Op != token.SUB || !VConstInt(1)(bo.Y) {
			return false
		}
		return VLen(VField(fStruct))(bo.X)
	}
	lastIsData := Cmp("last structure has the system-data role", func(v ssa.Value) bool {
		base, f, ok := FieldLoad(v)
		return ok && f == fRole && isLastElem(base)
	}, token.EQL, VConstObj(sysData))
	// the enlargement
	var grow []*ssa.BinOp
	for _, b := range fn.Blocks {
		for _, in := range b.Instrs {
			if bo, ok := in.(*ssa.BinOp); ok && bo.Op == token.SUB && VField(fEnd)(bo.X) {
				grow = append(grow, bo)
			}
		}
	}
	if len(grow) == 0 {
		c.Undecided(pkg+".buildPartitionList#expands-only-last", fn.Pos(), "the enlargement to UsableSectorsEnd was not found")
		return
	}
	for i, g := range grow {
		key := fmt.Sprintf("%s.buildPartitionList#expands-only-last#%d", pkg, i+1)
		// directly guarded, or guarded by a flag that is true only under the comparison
		direct := CountAtomEdges(fn, lastIsData) > 0 && !(ReachQ{Fn: fn, CutEdge: AtomEdges(lastIsData), Sink: func(in ssa.Instruction) bool { return in == ssa.Instruction(g) }}).Run().Found
		if direct {
			c.Holds(key, g.Pos(), "under "+lastIsData.Name)
			continue
		}
		okFlag := false
		var flag *ssa.Phi
		for _, b := range fn.Blocks {
			for _, in := range b.Instrs {
				ph, ok := in.(*ssa.Phi)
				if !ok {
					continue
				}
				if bt, ok := ph.Type().Underlying().(*types.Basic); !ok || bt.Kind() != types.Bool {
					continue
				}
				isTrue := Atom{Name: "flag", Match: func(cd Cond) Pol { return cd.BoolIs(VIs(ph)) }}
				if CountAtomEdges(fn, isTrue) == 0 {
					continue
				}
				if (ReachQ{Fn: fn, CutEdge: AtomEdges(isTrue), Sink: func(in ssa.Instruction) bool { return in == ssa.Instruction(g) }}).Run().Found {
					continue
				}
				flag = ph
			}
		}
		if flag != nil {
			okFlag = true
			var leaves []FlowPoint
			phiLeaves(flag, nil, &leaves, map[*ssa.Phi]bool{})
			for _, lf := range leaves {
				if bv, isC := ConstBool(lf.Val); isC {
					if bv && !tryFlowGate(fn, lf, lastIsData) {
						okFlag = false
					}
					continue
				}
				// the comparison itself assigned to the flag
				if cd := Decompose(lf.Val); lastIsData.Match(cd) == PolTrue {
					continue
				}
				okFlag = false
			}
		}
		c.Check(okFlag, key, g.Pos(), "under a flag that is set only when "+lastIsData.Name, "the partition is grown to the end of the disk although the system-data structure is not known to be the last structure of the volume: a structure the gadget places after it is overlapped")
	}
}
