package main

import (
	"fmt"
	"go/token"
	"go/types"

	"golang.org/x/tools/go/ssa"
)

func init() {
	register(&Property{
		ID:          "C02",
		Roots:       []string{"overlord/state"},
		Technique:   "guarded-sink + loop-latch reachability on the SSA CFG of TaskRunner.Ensure, mustWait and run; who-may-call of run and of handler function values",
		Explanation: "Structural necessary conditions for 'tasks never start before their prerequisites finished': (R1) TaskRunner.run is called only from Ensure and task handler function values are invoked only inside the goroutine closures of run/clean; (R2) in Ensure, r.run(t) is cut from the loop body entry by: handler registered, no tomb for the task, status not ready, status != Wait, mustWait(t)==false, (no schedule | not before the scheduled time), and the loop over blocked predicates exhausted with every predicate false; (R3) mustWait for a Do task advances over t.WaitTasks() only across Status()==Done and answers false only after the whole loop (so Wait, Doing, Error, Hold prerequisites block); for Undo tasks see C01-R2; (R4) run picks the do handler exactly under Do/Doing and the undo handler under Undo/Undoing; (R5) a Retry re-schedules only with After != 0 and the schedule is cleared before the handler goroutine starts; (R6) Ensure hands an aborted task to tryUndo only when no handler goroutine of that task is alive.",
		NotDecided:  "that AtTime/clock comparisons are right for every clock value; fairness of Ensure passes.",
		Run:         func(c *Ctx) { runC02(c); runC02x(c); runC02z(c) },
	})
}

func runC02(c *Ctx) {
	P := c.P
	ens := P.Func("overlord/state.(*TaskRunner).Ensure")
	run := P.Func("overlord/state.(*TaskRunner).run")
	runObj := P.FuncObj("overlord/state.(*TaskRunner).run")
	handlerT := P.NamedType("overlord/state.HandlerFunc")

	c.Rule("C02-R1", "W", "TaskRunner.run is called only from Ensure; HandlerFunc values are invoked only in run's and clean's goroutine closures", 3)
	for _, u := range P.UsesOf(runObj) {
		name := SSAFuncName(u.Fn)
		c.Check(u.Fn == ens && u.AsCall, "run-caller:"+name, u.Instr.Pos(), "called from Ensure", "TaskRunner.run is used outside Ensure (in "+name+"): a task could be started without the dependency checks")
	}
	nDyn := 0
	for _, fn := range P.AllFuncs() {
		for _, b := range fn.Blocks {
			for _, in := range b.Instrs {
				ci, ok := in.(ssa.CallInstruction)
				if !ok || ci.Common().IsInvoke() || ci.Common().StaticCallee() != nil {
					continue
				}
				if _, isB := ci.Common().Value.(*ssa.Builtin); isB {
					continue
				}
				if !types.Identical(ci.Common().Value.Type(), handlerT) {
					continue
				}
				nDyn++
				name := SSAFuncName(fn)
				ok = fn.Parent() != nil && (fn.Parent() == run || SSAFuncName(fn.Parent()) == "overlord/state.(*TaskRunner).clean")
				c.Check(ok, "handler-invocation:"+name, ci.Pos(), "handler invoked inside the runner's goroutine closure", "a task handler is invoked outside TaskRunner.run/clean (in "+name+")")
			}
		}
	}
	if nDyn < 2 {
		c.Undecided("handler-invocation#count", run.Pos(), fmt.Sprintf("expected the do/undo and the cleanup handler invocations, found %d dynamic HandlerFunc calls", nDyn))
	}

	// ---- R2
	c.Rule("C02-R2", "G+L", "Ensure: r.run(t) <= handlers.do!=nil ∧ tombs[id]==nil ∧ !status.Ready() ∧ status!=Wait ∧ !mustWait(t) ∧ (AtTime zero | !ensureTime.Before(tWhen)) ∧ blocked-predicate loop exhausted with all false", 9)
	fDo := P.Field("overlord/state.handlerPair.do")
	fTombs := P.Field("overlord/state.TaskRunner.tombs")
	fBlocked := P.Field("overlord/state.TaskRunner.blocked")
	statusObj := P.FuncObj("overlord/state.(*Task).Status")
	readyObj := P.FuncObj("overlord/state.Status.Ready")
	mustWaitObj := P.FuncObj("overlord/state.mustWait")
	atTime := P.FuncObj("overlord/state.(*Task).AtTime")
	isZero := P.FuncObj("time.Time.IsZero")
	before := P.FuncObj("time.Time.Before")
	runs := CallSites(ens, runObj)
	if len(runs) != 1 {
		c.Undecided("overlord/state.(*TaskRunner).Ensure#run-count", ens.Pos(), fmt.Sprintf("expected one r.run call, found %d", len(runs)))
		return
	}
	rc := runs[0]
	tval := CallArgs(rc)[0]
	isT := func(v ssa.Value) bool { return TaskKey(v) == TaskKey(tval) }
	stOfT := VRes(0, RecvWhere(ToFn(statusObj), isT))
	// the task loop
	var taskLoop *RangeLoop
	for _, rl := range RangeLoops(ens) {
		if rl.Elem != nil && isT(rl.Elem) {
			taskLoop = rl
		}
	}
	if taskLoop == nil {
		c.Undecided("overlord/state.(*TaskRunner).Ensure#task-loop", ens.Pos(), "the task passed to run is not the element of a range loop")
		return
	}
	from := &Loc{taskLoop.Body, -1}
	gates := []struct {
		name string
		cl   Clause
	}{
		{"handler-registered", Clause{Cmp("handlers.do!=nil", VField(fDo), token.NEQ, isNilVal)}},
		{"not-running", Clause{Cmp("r.tombs[t.ID()]==nil", VElemOf(VField(fTombs)), token.EQL, isNilVal)}},
		{"not-ready", Clause{TrueRes("!status.Ready()", false, 0, CallWhere(ToFn(readyObj), 0, stOfT))}},
		{"not-waiting", Clause{Cmp("status!=WaitStatus", stOfT, token.NEQ, VConstObj(P.Const("overlord/state.WaitStatus")))}},
		{"dependencies-done", Clause{TrueRes("!mustWait(t)", false, 0, CallWhere(ToFn(mustWaitObj), 0, isT))}},
		{"schedule-reached", Clause{
			TrueRes("tWhen.IsZero()", true, 0, CallWhere(ToFn(isZero), 0, VRes(0, RecvWhere(ToFn(atTime), isT)))),
			TrueRes("!ensureTime.Before(tWhen)", false, 0, CallWhere(ToFn(before), 1, VRes(0, RecvWhere(ToFn(atTime), isT)))),
		}},
	}
	for _, g := range gates {
		c.Guarded("overlord/state.(*TaskRunner).Ensure#run<="+g.name, ens, rc, []Clause{g.cl}, &GOpt{From: from})
	}
	// the clock compared is the ensure time (one timeNow() reading before the loop)
	okClock := false
	beforeCalls := CallSites(ens, before)
	if len(beforeCalls) == 0 {
		// the comparison may sit in a local closure or helper of Ensure (captured variables are looked through)
		for _, hc := range localCalls(ens) {
			beforeCalls = append(beforeCalls, CallSites(hc.h, before)...)
		}
	}
	for _, bc := range beforeCalls {
		if VRes(0, ViaGlobal(P.Global("overlord/state.timeNow")))(bc.Common().Args[0]) {
			okClock = true
		}
	}
	if len(beforeCalls) == 0 {
		c.Undecided("overlord/state.(*TaskRunner).Ensure#clock", ens.Pos(), "no comparison of a task's scheduled time found in Ensure itself (moved behind a call or closure? the rule cannot see it)")
	} else {
		c.Check(okClock, "overlord/state.(*TaskRunner).Ensure#clock", ens.Pos(), "the schedule is compared with the timeNow() reading of this Ensure pass", "the schedule comparison no longer uses the pass's timeNow() reading")
	}
	// blocked loop
	bl := LoopsOver(ens, VField(fBlocked))
	blockedViaHelper := false
	if len(bl) == 0 {
		// the predicate loop as a boolean helper: if r.isBlocked(t, running) { continue }
		for _, hc := range localCalls(ens) {
			hl := LoopsOver(hc.h, VField(fBlocked))
			obj, isF := hc.h.Object().(*types.Func)
			if len(hl) != 1 || hc.cc.Parent() != ens || !isF || hc.h.Signature.Results().Len() != 1 {
				continue
			}
			blockedViaHelper = true
			c.touch(hc.h)
			rl := hl[0]
			pred := DynCallOf(VIs(rl.Elem))
			c.LatchGated("overlord/state.(*TaskRunner).Ensure#blocked-loop", rl, []Clause{{TrueRes("!blocked(t, running)", false, 0, pred)}})
			nf := 0
			for _, lf := range ReturnLeaves(hc.h, 0) {
				if bv, isC := ConstBool(lf.Val); isC && !bv {
					nf++
					c.ThroughLoop(fmt.Sprintf("overlord/state.(*TaskRunner).Ensure#not-blocked-only-after-all-predicates#%d", nf), rl, lf)
				} else if !isC {
					c.Undecided("overlord/state.(*TaskRunner).Ensure#blocked-helper-verdict", lf.Pos(), "the helper returns a computed value")
				}
			}
			c.Guarded("overlord/state.(*TaskRunner).Ensure#run-after-blocked-loop", ens, rc, []Clause{{TrueRes("!"+hc.h.Name()+"(t, running)", false, 0, ToFn(obj))}}, &GOpt{From: from})
			liftCtx = append(liftCtx, liftFrame{hc.h, hc.cc})
			for _, pc := range CallsMatching(hc.h, pred) {
				a := pc.Common().Args
				c.Check(len(a) == 2 && isT(a[0]), "overlord/state.(*TaskRunner).Ensure#blocked-args", pc.Pos(), "each predicate is asked about the candidate task", "blocked predicates are not asked about the task that is about to run")
			}
			liftCtx = liftCtx[:len(liftCtx)-1]
		}
	}
	if blockedViaHelper {
		// decided above
	} else if len(bl) != 1 {
		c.Undecided("overlord/state.(*TaskRunner).Ensure#blocked-loop", ens.Pos(), fmt.Sprintf("expected one loop over r.blocked, found %d", len(bl)))
	} else {
		rl := bl[0]
		pred := DynCallOf(VIs(rl.Elem))
		c.LatchGated("overlord/state.(*TaskRunner).Ensure#blocked-loop", rl, []Clause{{TrueRes("!blocked(t, running)", false, 0, pred)}})
		// run only through exhaustion of that loop (within one iteration of the task loop)
		q := ReachQ{Fn: ens, From: from, Sink: SinkIs(rc), CutEdge: func(b *ssa.BasicBlock, s int) bool { return b == rl.Header && b.Succs[s] == rl.Done }}
		r := q.Run()
		c.Check(!r.Found, "overlord/state.(*TaskRunner).Ensure#run-after-blocked-loop", rc.Pos(), "r.run(t) is only reachable by exhausting the blocked-predicate loop", "r.run(t) is reachable without consulting every blocked predicate: "+P.PathString(r.Path))
		for _, pc := range CallsMatching(ens, pred) {
			a := pc.Common().Args
			c.Check(len(a) == 2 && isT(a[0]), "overlord/state.(*TaskRunner).Ensure#blocked-args", pc.Pos(), "each predicate is asked about the candidate task", "blocked predicates are not asked about the task that is about to run")
		}
	}

	// ---- R6
	c.Rule("C02-R6", "G", "Ensure: an aborted task is handed to tryUndo only when no handler goroutine of it is alive (r.tombs[t.ID()]==nil): undo never starts while the task's own do handler is still running", 1)
	tryUndoObj := P.FuncObj("overlord/state.(*TaskRunner).tryUndo")
	tus := CallSites(ens, tryUndoObj)
	for i, tc := range tus {
		c.Guarded(fmt.Sprintf("overlord/state.(*TaskRunner).Ensure#tryUndo<=not-running#%d", i+1), ens, tc, []Clause{{Cmp("r.tombs[t.ID()]==nil", VElemOf(VField(fTombs)), token.EQL, isNilVal)}}, &GOpt{From: from})
	}
	if len(tus) == 0 {
		c.Undecided("overlord/state.(*TaskRunner).Ensure#tryUndo", ens.Pos(), "no tryUndo call found in Ensure")
	}

	// ---- R3
	c.Rule("C02-R3", "L", "mustWait, Do status: loop over t.WaitTasks() advances only across Status()==Done; false only after the loop", 3)
	mw := P.Func("overlord/state.mustWait")
	waitTasks := P.FuncObj("overlord/state.(*Task).WaitTasks")
	loops := LoopsOver(mw, VRes(0, RecvWhere(ToFn(waitTasks), VParam(mw, 0))))
	viaHelper := false
	if len(loops) == 0 {
		// the scan as a predicate of its own: case DoStatus: return !allDone(t.WaitTasks())
		for _, b := range mw.Blocks {
			for _, in := range b.Instrs {
				cc, ok := in.(ssa.CallInstruction)
				if !ok {
					continue
				}
				h := cc.Common().StaticCallee()
				if h == nil || h.Pkg != mw.Pkg || len(h.Blocks) == 0 || len(cc.Common().Args) != 1 || !VRes(0, RecvWhere(ToFn(waitTasks), VParam(mw, 0)))(cc.Common().Args[0]) {
					continue
				}
				hl := LoopsOver(h, VParam(h, 0))
				if len(hl) != 1 {
					continue
				}
				viaHelper = true
				c.touch(h)
				rl := hl[0]
				done := Cmp("wt.Status()==Done", VRes(0, RecvWhere(ToFn(statusObj), VIs(rl.Elem))), token.EQL, VConstObj(P.Const("overlord/state.DoneStatus")))
				c.LatchGated("overlord/state.mustWait#wait-loop", rl, []Clause{{done}})
				nt := 0
				for _, lf := range ReturnLeaves(h, 0) {
					if bv, isC := ConstBool(lf.Val); isC && bv {
						nt++
						c.ThroughLoop(fmt.Sprintf("overlord/state.mustWait#all-done-only-after-wait-loop#%d", nt), rl, lf)
					} else if !isC {
						c.Undecided("overlord/state.mustWait#helper-verdict", lf.Pos(), "the helper returns a computed value")
					}
				}
				// mustWait's answer for a Do task is the negation of that predicate
				doArm := Cmp("t.Status()==Do", VRes(0, RecvWhere(ToFn(statusObj), VParam(mw, 0))), token.EQL, VConstObj(P.Const("overlord/state.DoStatus")))
				c.Guarded("overlord/state.mustWait#wait-loop-arm", mw, cc.(ssa.Instruction), []Clause{{doArm}}, nil)
				okNeg := false
				for _, lf := range ReturnLeaves(mw, 0) {
					if u, ok := lf.Val.(*ssa.UnOp); ok && u.Op == token.NOT {
						if c2, _, isCall := CallResult(u.X); isCall && c2 == cc {
							okNeg = true
						}
					}
				}
				c.Check(okNeg, "overlord/state.mustWait#false-after-wait-loop", cc.Pos(), "for a Do task mustWait answers !"+h.Name()+"(t.WaitTasks())", "for a Do task mustWait can answer false without having inspected all prerequisites")
			}
		}
	}
	if viaHelper {
		// decided above
	} else if len(loops) != 1 {
		c.Undecided("overlord/state.mustWait#wait-loop", mw.Pos(), fmt.Sprintf("expected one loop over t.WaitTasks(), found %d", len(loops)))
	} else {
		rl := loops[0]
		done := Cmp("wt.Status()==Done", VRes(0, RecvWhere(ToFn(statusObj), VIs(rl.Elem))), token.EQL, VConstObj(P.Const("overlord/state.DoneStatus")))
		c.LatchGated("overlord/state.mustWait#wait-loop", rl, []Clause{{done}})
		doArm := Cmp("t.Status()==Do", VRes(0, RecvWhere(ToFn(statusObj), VParam(mw, 0))), token.EQL, VConstObj(P.Const("overlord/state.DoStatus")))
		c.Guarded("overlord/state.mustWait#wait-loop-arm", mw, rl.Header.Instrs[len(rl.Header.Instrs)-1], []Clause{{doArm}}, nil)
		c01FalseOnlyAfterLoop(c, mw, rl, doArm, "overlord/state.mustWait#false-after-wait-loop", "for a Do task mustWait can answer false without having inspected all prerequisites")
	}

	// ---- R4
	c.Rule("C02-R4", "G", "run: the do handler is selected exactly under Do/Doing, the undo handler under Undo/Undoing", 2)
	fUndo := P.Field("overlord/state.handlerPair.undo")
	// find the phi selecting the handler: a phi of HandlerFunc type in run
	stOfRunT := VRes(0, RecvWhere(ToFn(statusObj), VParam(run, 1)))
	k := func(n string) func(ssa.Value) bool { return VConstObj(P.Const("overlord/state." + n + "Status")) }
	found := 0
	for _, b := range run.Blocks {
		for _, in := range b.Instrs {
			st, ok := in.(*ssa.Store)
			if !ok {
				continue
			}
			al, ok := st.Addr.(*ssa.Alloc)
			if !ok || !types.Identical(al.Type().(*types.Pointer).Elem(), handlerT) {
				continue
			}
			_, f, isField := FieldLoad(st.Val)
			if !isField {
				if !IsNilConst(st.Val) {
					c.Undecided("overlord/state.(*TaskRunner).run#handler-source", st.Pos(), "handler value is not a field of the handler pair")
				}
				continue
			}
			found++
			switch f {
			case fDo:
				c.Guarded("overlord/state.(*TaskRunner).run#do-handler", run, st, []Clause{{Cmp("Status()==Do", stOfRunT, token.EQL, k("Do")), Cmp("Status()==Doing", stOfRunT, token.EQL, k("Doing"))}}, nil)
			case fUndo:
				c.Guarded("overlord/state.(*TaskRunner).run#undo-handler", run, st, []Clause{{Cmp("Status()==Undo", stOfRunT, token.EQL, k("Undo")), Cmp("Status()==Undoing", stOfRunT, token.EQL, k("Undoing"))}}, nil)
			}
		}
	}
	if found != 2 {
		c.Undecided("overlord/state.(*TaskRunner).run#handler-phi", run.Pos(), fmt.Sprintf("expected the handler to be selected from .do and .undo, found %d sources", found))
	}

	// ---- R5
	c.Rule("C02-R5", "G+O", "Retry re-schedules only when After != 0; run clears the schedule before starting the goroutine", 2)
	at := P.FuncObj("overlord/state.(*Task).At")
	fAfter := P.Field("overlord/state.Retry.After")
	n := 0
	for _, cl := range run.AnonFuncs {
		for _, ac := range CallSites(cl, at) {
			n++
			c.Guarded(fmt.Sprintf("overlord/state.(*TaskRunner).run$1#reschedule#%d", n), cl, ac, []Clause{{Cmp("x.After!=0", VField(fAfter), token.NEQ, VConstInt(0))}}, nil)
		}
	}
	if n == 0 {
		c.Undecided("overlord/state.(*TaskRunner).run$1#reschedule", run.Pos(), "no t.At(...) in the completion closure")
	}
	var goCall ssa.CallInstruction
	for _, b := range run.Blocks {
		for _, in := range b.Instrs {
			if ci, ok := in.(ssa.CallInstruction); ok {
				if co := CalleeOf(ci); co != nil && co.Name() == "Go" && co.Pkg() != nil && co.Pkg().Name() == "tomb" {
					goCall = ci
				}
			}
		}
	}
	if goCall == nil {
		c.Undecided("overlord/state.(*TaskRunner).run#go", run.Pos(), "tomb.Go call not found")
	} else {
		c.Before("overlord/state.(*TaskRunner).run#schedule-cleared", run, SinkCallM(RecvWhere(ToFn(at), VParam(run, 1))), "t.At(time.Time{})", goCall, nil)
		// tomb registered before the goroutine starts
		c.Before("overlord/state.(*TaskRunner).run#tomb-registered", run, func(in ssa.Instruction) bool {
			mu, ok := in.(*ssa.MapUpdate)
			return ok && IsFieldLoad(mu.Map, fTombs)
		}, "r.tombs[t.ID()] = tomb", goCall, nil)
	}
}
