package main

import (
	"fmt"
	"go/token"
	"go/types"

	"golang.org/x/tools/go/ssa"
)

func init() {
	register(&Property{
		ID:          "C35",
		Roots:       []string{"snap"},
		Technique:   "writer/reader agreement between Revision.String and ParseRevision and between Epoch.simplify and Epoch.fromString (SSA value provenance + CFG must-pass gates); return-value provenance of Epoch.CanRead/intersect; validation gates of Epoch.fromStructured/Validate",
		Explanation: "Structural necessary conditions of 'revisions and epochs round-trip; epoch compatibility is set intersection' (equality of the round trip for every value is not decided): (R1) Epoch.CanRead returns nothing but intersect(rs, ws) with rs drawn from the receiver's Read or {0} and ws from the other's Write or {0}; intersect returns true exactly on an element comparison r == w of its two operands; (R2) the short printed forms agree with the parser: simplify prints N only for read=[N],write=[N] and N* only for write=[N],read=[N-1,N] (adjacency tested), and fromString builds exactly those lists and refuses 0*; (R3) fromStructured publishes the epoch only after Validate accepted it, and Validate accepts a non-zero epoch only with both lists increasing, at most 10 long and intersect(Read, Write) - which with R1 gives 'every valid epoch reads its own data'; (R4) ParseRevision accepts only \"unset\" or a positive number converted at full int width (strconv.Atoi or bit size 0/64), negated exactly under the 'x' prefix that String prints for negative N; String prints \"unset\" only for N == 0; the JSON/YAML forms go through String and ParseRevision.",
		NotDecided:  "value equality of the round trip (e.g. that Sprintf(\"x%d\") and Atoi are inverse), uint32 list (un)marshalling inside encoding/json, the YAML decoder.",
		Run:         runC35,
	})
}

func runC35(c *Ctx) {
	P := c.P
	pkg := "snap"
	fRead := P.Field(pkg + ".Epoch.Read")
	fWrite := P.Field(pkg + ".Epoch.Write")
	intersect := P.FuncObj(pkg + ".intersect")
	isZero := P.FuncObj(pkg + ".(*Epoch).IsZero")

	// leaves of a slice value through phis; each classified
	var sliceLeaves func(v ssa.Value, at ssa.Instruction) []FlowPoint
	sliceLeaves = func(v ssa.Value, at ssa.Instruction) []FlowPoint {
		var out []FlowPoint
		phiLeaves(v, at, &out, map[*ssa.Phi]bool{})
		return out
	}
	isZeroLit := func(v ssa.Value) bool {
		el := VarargElems(v)
		if len(el) != 1 {
			return false
		}
		k, ok := ConstInt(el[0])
		return ok && k == 0
	}
	// a private normalising helper (`func listOrZero(l []uint32) []uint32`: {0} exactly when l is
	// empty, l otherwise) is looked through: its {0} leaf was checked inside it, its other leaf is
	// the argument
	helperChecked := map[ssa.Value]bool{}
	plainLeaves := sliceLeaves
	sliceLeaves = func(v ssa.Value, at ssa.Instruction) []FlowPoint {
		var out []FlowPoint
		for _, fp := range plainLeaves(v, at) {
			cc, idx, ok := CallResult(fp.Val)
			var h *ssa.Function
			if ok && idx == 0 {
				h = cc.Common().StaticCallee()
			}
			if h == nil || h.Pkg == nil || at.Parent() == nil || h.Pkg != at.Parent().Pkg || len(h.Blocks) == 0 || len(h.Params) != 1 || len(cc.Common().Args) != 1 {
				out = append(out, fp)
				continue
			}
			okShape := true
			var exp []FlowPoint
			empty := Cmp("len(l)==0", VLen(VParam(h, 0)), token.EQL, VConstInt(0))
			for _, hl := range ReturnLeaves(h, 0) {
				hv := Strip(hl.Val)
				switch {
				case isZeroLit(hv):
					q := ReachQ{Fn: h, CutEdge: AtomEdges(empty)}
					if hl.Instr != nil {
						at2 := hl.Instr
						q.Sink = func(in ssa.Instruction) bool { return in == at2 }
					} else if hl.EdgeFrom != nil {
						from, succ := hl.EdgeFrom, hl.EdgeSucc
						if AtomEdges(empty)(from, succ) {
							helperChecked[hv] = true
							exp = append(exp, FlowPoint{Val: hv, Instr: at})
							continue
						}
						q.SinkEdge = func(b *ssa.BasicBlock, s int) bool { return b == from && s == succ }
					}
					if q.Run().Found {
						okShape = false
					}
					helperChecked[hv] = true
					exp = append(exp, FlowPoint{Val: hv, Instr: at})
				case hv == ssa.Value(h.Params[0]):
					exp = append(exp, sliceLeaves(cc.Common().Args[0], at)...)
				default:
					okShape = false
				}
			}
			if okShape && len(exp) > 0 {
				out = append(out, exp...)
			} else {
				out = append(out, fp)
			}
		}
		return out
	}

	// ---- R1
	c.Rule("C35-R1", "W+G", "CanRead == intersect(Read|{0}, other.Write|{0}); intersect true <=> some r == w", 5)
	cr := P.Func(pkg + ".(*Epoch).CanRead")
	n := 0
	for _, lf := range ReturnLeaves(cr, 0) {
		n++
		key := fmt.Sprintf("%s.Epoch.CanRead#result#%d", pkg, n)
		cc, _, ok := CallResult(lf.Val)
		if !ok || !ToFn(intersect)(cc) {
			c.Violated(key, lf.Pos(), "CanRead returns something other than intersect(read set, other's write set): compatibility is no longer decided by set intersection alone")
			continue
		}
		c.Holds(key, lf.Pos(), "intersect(rs, ws)")
		for ai, spec := range []struct {
			f    *types.Var
			what string
			base func(ssa.Value) bool
		}{{fRead, "read set of the receiver", func(b ssa.Value) bool { return VParam(cr, 0)(b) }}, {fWrite, "write set of the other epoch", func(b ssa.Value) bool { return ResolvesToParam(b, cr, 1) }}} {
			for li, sl := range sliceLeaves(cc.Common().Args[ai], cc) {
				k2 := fmt.Sprintf("%s-arg%d-leaf%d", key, ai, li+1)
				v := Strip(sl.Val)
				switch {
				case IsNilConst(v):
					c.Holds(k2, sl.Pos(), "nil (replaced by {0} before use)")
				case isZeroLit(v):
					c.Holds(k2, sl.Pos(), "{0}")
				case VField(spec.f)(v):
					c.Holds(k2, sl.Pos(), spec.what)
				default:
					c.Violated(k2, sl.Pos(), fmt.Sprintf("argument %d of intersect is not the %s (or the {0} that stands for an empty list)", ai, spec.what))
				}
			}
		}
		// the {0} default replaces only an empty list
		for ai := 0; ai < 2; ai++ {
			for li, sl := range sliceLeaves(cc.Common().Args[ai], cc) {
				if isZeroLit(Strip(sl.Val)) && !helperChecked[Strip(sl.Val)] {
					c.GuardedFlow(fmt.Sprintf("%s-arg%d-default-only-when-empty#%d", key, ai, li+1), cr, sl,
						[]Clause{{Cmp("len(list)==0", VLen(anyVal), token.EQL, VConstInt(0))}}, nil)
				}
			}
		}
	}
	isf := P.Func(pkg + ".intersect")
	n = 0
	for _, lf := range ReturnLeaves(isf, 0) {
		b, ok := ConstBool(lf.Val)
		if !ok {
			c.Violated(pkg+".intersect#result-shape", lf.Pos(), "intersect returns a non-constant")
			continue
		}
		if !b {
			continue
		}
		n++
		c.GuardedFlow(fmt.Sprintf("%s.intersect#true<=r==w#%d", pkg, n), isf, lf,
			[]Clause{{Cmp("r==w", VElemOf(VParam(isf, 0)), token.EQL, VElemOf(VParam(isf, 1)))}}, nil)
	}
	// false only after both loops ran out: no `return false` inside a loop
	for _, r := range ReturnsOf(isf) {
		if b, ok := ConstBool(r.Results[0]); ok && !b {
			c.Check(LoopContaining(isf, r) == nil, pkg+".intersect#false-after-loops", r.Pos(), "false only once every pair was compared", "intersect returns false from inside a loop, before every pair was compared")
		}
	}

	// ---- R2
	c.Rule("C35-R2", "S+G", "short forms: simplify's N / N* conditions agree with what fromString builds", 7)
	sim := P.Func(pkg + ".(*Epoch).simplify")
	elemK := func(f *types.Var, k int64) func(ssa.Value) bool {
		return func(v ssa.Value) bool {
			u, ok := Strip(v).(*ssa.UnOp)
			if !ok || u.Op != token.MUL {
				return false
			}
			ia, ok := u.X.(*ssa.IndexAddr)
			if !ok {
				return false
			}
			idx, isC := ConstInt(ia.Index)
			return isC && idx == k && VField(f)(ia.X)
		}
	}
	plus1 := func(M func(ssa.Value) bool) func(ssa.Value) bool {
		return func(v ssa.Value) bool {
			b, ok := Strip(v).(*ssa.BinOp)
			if !ok || b.Op != token.ADD {
				return false
			}
			k, isC := ConstInt(b.Y)
			return isC && k == 1 && M(b.X)
		}
	}
	lenEq := func(f *types.Var, k int64) Atom {
		return Cmp(fmt.Sprintf("len(%s)==%d", f.Name(), k), VLen(VField(f)), token.EQL, VConstInt(k))
	}
	adjacent := Atom{Name: "Read[0]+1==Read[1]", Match: func(cd Cond) Pol {
		if p := cd.CmpIs(token.EQL, plus1(elemK(fRead, 0)), VOr(elemK(fRead, 1), elemK(fWrite, 0))); p != PolNone {
			return p
		}
		// Read[1]-Read[0] == 1
		return cd.CmpIs(token.EQL, func(v ssa.Value) bool {
			b, ok := Strip(v).(*ssa.BinOp)
			return ok && b.Op == token.SUB && VOr(elemK(fRead, 1), elemK(fWrite, 0))(b.X) && elemK(fRead, 0)(b.Y)
		}, VConstInt(1))
	}}
	lastIsWrite := Cmp("Read[last]==Write[0]", VOr(elemK(fRead, 1), elemK(fRead, 0)), token.EQL, elemK(fWrite, 0))
	n = 0
	for _, lf := range ReturnLeaves(sim, 0) {
		v := Strip(lf.Val)
		n++
		key := fmt.Sprintf("%s.Epoch.simplify#form#%d", pkg, n)
		if s, ok := ConstString(v); ok {
			c.Check(s == "0", key+"-zero-literal", lf.Pos(), "\"0\"", fmt.Sprintf("unexpected literal %q", s))
			c.GuardedFlow(key+"-zero", sim, lf, []Clause{{TrueRes("IsZero()", true, 0, ToFn(isZero))}}, nil)
			continue
		}
		if b, ok := v.(*ssa.BinOp); ok && b.Op == token.ADD {
			if s, isC := ConstString(b.Y); isC && s == "*" {
				c.GuardedFlow(key+"-star", sim, lf, []Clause{{lenEq(fWrite, 1)}, {lenEq(fRead, 2)}, {adjacent}, {Cmp("Read[1]==Write[0]", elemK(fRead, 1), token.EQL, elemK(fWrite, 0))}}, nil)
				continue
			}
		}
		if cc, _, ok := CallResult(v); ok && CalleeOf(cc) != nil && CalleeOf(cc).FullName() == "strconv.FormatUint" {
			c.GuardedFlow(key+"-plain", sim, lf, []Clause{{lenEq(fWrite, 1)}, {lenEq(fRead, 1)}, {lastIsWrite}}, nil)
			continue
		}
		if al, ok := v.(*ssa.Alloc); ok && types.Identical(al.Type().(*types.Pointer).Elem(), P.NamedType(pkg+".structuredEpoch")) {
			c.Holds(key+"-structured", lf.Pos(), "the full structured form")
			continue
		}
		c.Violated(key+"-other", lf.Pos(), "simplify yields a form that is neither \"0\", N, N* nor the structured form")
	}
	// fromString builds exactly [n-1,n]/[n] and [n]
	fs := P.Func(pkg + ".(*Epoch).fromString")
	parseInt := P.FuncObj(pkg + ".parseInt")
	isN := VRes(0, ToFn(parseInt))
	isNm1 := func(v ssa.Value) bool {
		b, ok := Strip(v).(*ssa.BinOp)
		if !ok || b.Op != token.SUB {
			return false
		}
		k, isC := ConstInt(b.Y)
		return isC && k == 1 && isN(b.X)
	}
	describe := func(v ssa.Value) string {
		el := VarargElems(v)
		s := ""
		for _, e := range el {
			switch {
			case e == nil:
				s += "?"
			case isN(e):
				s += "n"
			case isNm1(e):
				s += "p"
			default:
				if k, ok := ConstInt(e); ok && k == 0 {
					s += "0"
				} else {
					s += "?"
				}
			}
		}
		return s
	}
	starPhi := func() ssa.Value { // the `star` flag
		for _, b := range fs.Blocks {
			for _, in := range b.Instrs {
				if ph, ok := in.(*ssa.Phi); ok {
					if bt, isB := ph.Type().Underlying().(*types.Basic); isB && bt.Kind() == types.Bool {
						return ph
					}
				}
			}
		}
		return nil
	}()
	if starPhi == nil {
		c.Undecided(pkg+".Epoch.fromString#star-flag", fs.Pos(), "the star flag was not found")
	} else {
		star := Atom{Name: "star", Match: func(cd Cond) Pol { return cd.BoolIs(VIs(starPhi)) }}
		for i, st := range StoresToField(fs, fRead) {
			d := describe(st.Val)
			key := fmt.Sprintf("%s.Epoch.fromString#read-list#%d", pkg, i+1)
			switch d {
			case "0":
				c.Holds(key, st.Pos(), "[0] for the empty/0 form")
			case "pn":
				c.Guarded(key+"-star", fs, st, []Clause{{star}, {Not(Cmp("n==0", isN, token.EQL, VConstInt(0)))}}, nil)
			case "n":
				c.Guarded(key+"-plain", fs, st, []Clause{{Not(star)}}, nil)
			default:
				c.Violated(key, st.Pos(), fmt.Sprintf("fromString builds a read list of shape %q; the printed forms N and N* stand for [n] and [n-1,n]", d))
			}
		}
		for i, st := range StoresToField(fs, fWrite) {
			d := describe(st.Val)
			c.Check(d == "n" || d == "0", fmt.Sprintf("%s.Epoch.fromString#write-list#%d", pkg, i+1), st.Pos(), "[n]", fmt.Sprintf("fromString builds a write list of shape %q instead of [n]", d))
		}
	}

	// ---- R3
	c.Rule("C35-R3", "G", "fromStructured publishes only validated epochs; Validate demands increasing lists, <= 10 entries and a read/write intersection", 6)
	fst := P.Func(pkg + ".(*Epoch).fromStructured")
	validate := P.FuncObj(pkg + ".(*Epoch).Validate")
	for i, b := range fst.Blocks {
		for _, in := range b.Instrs {
			if st, ok := in.(*ssa.Store); ok && VParam(fst, 0)(st.Addr) {
				c.Guarded(fmt.Sprintf("%s.Epoch.fromStructured#publish<=Validate#%d", pkg, i), fst, st, []Clause{{OkCall("Validate()==nil", validate)}}, nil)
			}
		}
	}
	val := P.Func(pkg + ".(*Epoch).Validate")
	isInc := P.FuncObj(pkg + ".isIncreasing")
	zeroOr := func(a Atom) Clause { return Clause{TrueRes("IsZero()", true, 0, ToFn(isZero)), a} }
	lenLE := func(f *types.Var) Atom {
		return Atom{Name: "len(" + f.Name() + ")<=10", Match: func(cd Cond) Pol {
			return cd.CmpIs(token.LEQ, VLen(VField(f)), VConstInt(10))
		}}
	}
	n = 0
	for _, r := range ReturnsOf(val) {
		if !IsSuccessReturn(r) {
			continue
		}
		n++
		c.Guarded(fmt.Sprintf("%s.Epoch.Validate#accepts#%d", pkg, n), val, r, []Clause{
			zeroOr(TrueRes("isIncreasing(Read)", true, 0, CallWhere(ToFn(isInc), 0, VField(fRead)))),
			zeroOr(TrueRes("isIncreasing(Write)", true, 0, CallWhere(ToFn(isInc), 0, VField(fWrite)))),
			zeroOr(TrueRes("intersect(Read, Write)", true, 0, CallWhere(CallWhere(ToFn(intersect), 0, VField(fRead)), 1, VField(fWrite)))),
			zeroOr(lenLE(fRead)), zeroOr(lenLE(fWrite)),
		}, nil)
	}
	if n == 0 {
		c.Undecided(pkg+".Epoch.Validate#accepts", val.Pos(), "no success return found")
	}
	// every place that refuses a list as too long uses the same bound: len > 10
	tooLong := P.Const(pkg + ".epochListJustRidiculouslyLong")
	nLim := 0
	for _, fn := range P.FuncsIn(pkg) {
		for _, b := range fn.Blocks {
			uses := false
			for _, in := range b.Instrs {
				if st, ok := in.(*ssa.Store); ok && VConstObj(tooLong)(st.Val) {
					uses = true
				}
			}
			if !uses {
				continue
			}
			// the edges entering this block
			for _, pred := range b.Preds {
				ifi, ok := pred.Instrs[len(pred.Instrs)-1].(*ssa.If)
				if !ok {
					continue
				}
				cd := Decompose(ifi.Cond)
				nLim++
				key := fmt.Sprintf("%s#too-long-bound#%d", SSAFuncName(fn), nLim)
				c.touch(fn)
				okB := false
				if cd.Bin != nil && VLen(anyVal)(cd.Bin.X) {
					k, isC := ConstInt(cd.Bin.Y)
					onTrue := pred.Succs[0] == b
					op := cd.Bin.Op
					if cd.Neg {
						onTrue = !onTrue
					}
					if !onTrue {
						op = negOp[op]
					}
					okB = isC && ((op == token.GTR && k == 10) || (op == token.GEQ && k == 11))
				}
				c.Check(okB, key, ifi.Pos(), "refused iff len > 10", "a list is refused as too long under a different bound than `len > 10`: readers and Validate must agree, or a valid 10-entry epoch does not read back")
			}
		}
	}
	if nLim < 2 {
		c.Undecided(pkg+"#too-long-bound", val.Pos(), "expected the two length tests of Validate")
	}
	// isIncreasing is strict
	inc := P.Func(pkg + ".isIncreasing")
	strict := 0
	for _, b := range inc.Blocks {
		for _, in := range b.Instrs {
			if bo, ok := in.(*ssa.BinOp); ok && VElemOf(VParam(inc, 0))(bo.X) && VElemOf(VParam(inc, 0))(bo.Y) {
				strict++
				c.Check(bo.Op == token.GEQ || bo.Op == token.LSS || bo.Op == token.LEQ || bo.Op == token.GTR, pkg+".isIncreasing#compares-neighbours", bo.Pos(), "ordered comparison of neighbours", "isIncreasing no longer compares neighbours by order")
			}
		}
	}
	if strict == 0 {
		c.Undecided(pkg+".isIncreasing#compares-neighbours", inc.Pos(), "no comparison of two elements found")
	}

	// ---- R4
	c.Rule("C35-R4", "S+G", "Revision: ParseRevision accepts only \"unset\" or positive full-width numbers, negated exactly under the prefix String prints", 8)
	pr := P.Func(pkg + ".ParseRevision")
	fN := P.Field(pkg + ".Revision.N")
	// conversions at full width
	var convs []ssa.CallInstruction
	for _, b := range pr.Blocks {
		for _, in := range b.Instrs {
			cc, ok := in.(ssa.CallInstruction)
			if !ok || CalleeOf(cc) == nil || CalleeOf(cc).Pkg() == nil || CalleeOf(cc).Pkg().Path() != "strconv" {
				continue
			}
			convs = append(convs, cc)
			name := CalleeOf(cc).Name()
			okW := name == "Atoi"
			if name == "ParseInt" {
				bits, isC := ConstInt(cc.Common().Args[2])
				okW = isC && (bits == 0 || bits == 64)
			}
			c.Check(okW, fmt.Sprintf("%s.ParseRevision#full-width-conversion#%d", pkg, len(convs)), cc.Pos(), "strconv.Atoi / ParseInt at int width", fmt.Sprintf("ParseRevision converts with strconv.%s at a width narrower than (or of different signedness from) the int that Revision.String prints: large revisions print but no longer read back", name))
		}
	}
	isConv := func(ci ssa.CallInstruction) bool {
		for _, x := range convs {
			if x == ci {
				return true
			}
		}
		return false
	}
	okConv := ErrNil("conversion ok", func(v ssa.Value) bool { cc, i, ok := CallResult(v); return ok && i == 1 && isConv(cc) })
	positive := Cmp("i>0", VRes(0, isConv), token.GTR, VConstInt(0))
	isUnset := Cmp("s==\"unset\"", VParam(pr, 0), token.EQL, VConstStr("unset"))
	n = 0
	for _, r := range ReturnsOf(pr) {
		if !IsSuccessReturn(r) {
			continue
		}
		n++
		c.Guarded(fmt.Sprintf("%s.ParseRevision#accepts#%d", pkg, n), pr, r, []Clause{{isUnset, okConv}, {isUnset, positive}}, nil)
	}
	xPrefix := Cmp("s[0]=='x'", func(v ssa.Value) bool {
		switch x := Strip(v).(type) {
		case *ssa.Index:
			k, ok := ConstInt(x.Index)
			return ok && k == 0 && VParam(pr, 0)(x.X)
		case *ssa.Lookup:
			k, ok := ConstInt(x.Index)
			return ok && k == 0 && VParam(pr, 0)(x.X)
		}
		return false
	}, token.EQL, VConstInt('x'))
	for i, st := range StoresToField(pr, fN) {
		key := fmt.Sprintf("%s.ParseRevision#value#%d", pkg, i+1)
		v := Strip(st.Val)
		if u, ok := v.(*ssa.UnOp); ok && u.Op == token.SUB {
			cc, _, isCall := CallResult(u.X)
			okArg := false
			if isCall && isConv(cc) {
				if sl, isSl := Strip(cc.Common().Args[0]).(*ssa.Slice); isSl && VParam(pr, 0)(sl.X) && sl.High == nil {
					k, isC := ConstInt(sl.Low)
					okArg = isC && k == 1
				}
			}
			c.Check(okArg, key+"-local-digits", st.Pos(), "-Atoi(s[1:])", "the local revision is not the negated number after the 'x'")
			c.Guarded(key+"-local<=x-prefix", pr, st, []Clause{{xPrefix}}, nil)
			continue
		}
		cc, idx, isCall := CallResult(v)
		c.Check(isCall && idx == 0 && isConv(cc) && VParam(pr, 0)(cc.Common().Args[0]), key+"-store-digits", st.Pos(), "Atoi(s)", "the store revision is not the number parsed from the whole string")
	}
	// String: "unset" only for N==0; the local prefix is the one ParseRevision tests
	str := P.Func(pkg + ".Revision.String")
	sawX := false
	for i, lf := range ReturnLeaves(str, 0) {
		key := fmt.Sprintf("%s.Revision.String#form#%d", pkg, i+1)
		if s, ok := ConstString(lf.Val); ok {
			c.Check(s == "unset", key+"-literal", lf.Pos(), "\"unset\"", fmt.Sprintf("unexpected literal %q", s))
			c.GuardedFlow(key+"-unset<=N==0", str, lf, []Clause{{Cmp("N==0", VField(fN), token.EQL, VConstInt(0))}}, nil)
			continue
		}
		cc, _, ok := CallResult(lf.Val)
		if !ok || CalleeOf(cc) == nil {
			c.Violated(key, lf.Pos(), "unexpected printed form")
			continue
		}
		switch CalleeOf(cc).FullName() {
		case "fmt.Sprintf":
			f, _ := ConstString(cc.Common().Args[0])
			sawX = true
			c.Check(f == "x%d", key+"-local-format", cc.Pos(), "x%d", fmt.Sprintf("local revisions are printed with %q, ParseRevision expects 'x' followed by the digits", f))
			c.GuardedFlow(key+"-local<=N<0", str, lf, []Clause{{Cmp("N<0", VField(fN), token.LSS, VConstInt(0))}}, nil)
		case "strconv.Itoa":
			c.Check(VField(fN)(cc.Common().Args[0]), key+"-store", cc.Pos(), "Itoa(N)", "the store revision is not printed from N")
		default:
			c.Violated(key, lf.Pos(), "unexpected printed form via "+CalleeOf(cc).FullName())
		}
	}
	c.Check(sawX, pkg+".Revision.String#local-form", str.Pos(), "x<digits>", "no printed form for local revisions")
	// JSON / YAML go through String and ParseRevision
	strObj := P.FuncObj(pkg + ".Revision.String")
	prObj := P.FuncObj(pkg + ".ParseRevision")
	for _, m := range []string{"Revision.MarshalJSON", "Revision.MarshalYAML"} {
		fn := P.Func(pkg + "." + m)
		okS := false
		for _, lf := range ReturnLeaves(fn, 0) {
			if DependsOnCall(lf.Val, strObj, func([]ssa.Value) bool { return true }) {
				okS = true
			}
		}
		c.touch(fn)
		c.Check(okS, pkg+"."+m+"#via-String", fn.Pos(), "uses String()", m+" no longer derives its output from Revision.String")
	}
	uj := P.Func(pkg + ".(*Revision).UnmarshalJSON")
	parseIntObj := P.FuncObj("strconv.ParseInt")
	n = 0
	for _, r := range ReturnsOf(uj) {
		if !IsSuccessReturn(r) {
			continue
		}
		n++
		c.Guarded(fmt.Sprintf("%s.Revision.UnmarshalJSON#accepts#%d", pkg, n), uj, r, []Clause{{OkCall("ParseRevision ok", prObj), OkCall("ParseInt ok", parseIntObj)}}, nil)
	}
	// the bare-number form is tried only for input that is not a quoted string: a quoted string that
	// ParseRevision refused must not get a second chance as a number ("0", "-1" are not revisions)
	isQuote := func(v ssa.Value) bool { k, ok := ConstInt(v); return ok && k == '"' }
	quoted := Atom{Name: "input is quoted", Match: func(cd Cond) Pol {
		if cd.Bin == nil {
			return PolNone
		}
		return cd.CmpIs(token.EQL, func(v ssa.Value) bool {
			switch x := Strip(v).(type) {
			case *ssa.UnOp:
				_, ok := x.X.(*ssa.IndexAddr)
				return ok && x.Op == token.MUL
			case *ssa.Index, *ssa.Lookup:
				return true
			}
			return false
		}, isQuote)
	}}
	for i, cc := range CallSites(uj, parseIntObj) {
		c.Guarded(fmt.Sprintf("%s.Revision.UnmarshalJSON#number-form-only-when-unquoted#%d", pkg, i+1), uj, cc, []Clause{{Not(quoted), Not(Cmp("len(data)>0", VLen(anyVal), token.GTR, VConstInt(0)))}}, nil)
	}
	for i, cc := range CallSites(uj, prObj) {
		c.Guarded(fmt.Sprintf("%s.Revision.UnmarshalJSON#string-form-only-when-quoted#%d", pkg, i+1), uj, cc, []Clause{{quoted}}, nil)
	}
	uy := P.Func(pkg + ".(*Revision).UnmarshalYAML")
	c.touch(uy)
	c.Check(len(CallSites(uy, P.FuncObj(pkg+".(*Revision).UnmarshalJSON"))) == 1, pkg+".Revision.UnmarshalYAML#via-UnmarshalJSON", uy.Pos(), "delegates to UnmarshalJSON", "UnmarshalYAML no longer shares the JSON reader")
	ujObj := P.FuncObj(pkg + ".(*Revision).UnmarshalJSON")
	for i, lf := range ReturnLeaves(uy, 0) {
		okL := VRes(0, ToFn(ujObj))(lf.Val) || (!IsNilConst(lf.Val) && func() bool { _, _, isCall := CallResult(lf.Val); return isCall }())
		c.Check(okL, fmt.Sprintf("%s.Revision.UnmarshalYAML#verdict#%d", pkg, i+1), lf.Pos(), "the reader's verdict is returned", "UnmarshalYAML returns nil without the verdict of UnmarshalJSON: invalid revision strings are accepted")
	}
}
