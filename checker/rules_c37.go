package main

import (
	"fmt"
	"go/token"
	"go/types"

	"golang.org/x/tools/go/ssa"
)

func init() {
	register(&Property{
		ID:          "C37",
		Roots:       []string{"interfaces/prompting/patterns"},
		Technique:   "guarded-sink reachability on PathPattern.parse and parseAlt; loop accumulation-must-be-bounded rule (SSA) on every renderNode.NumVariants implementation; who-may-write of PathPattern.renderTree",
		Explanation: "Structural necessary conditions for 'the number of expansions never exceeds the limit; invalid patterns are rejected' (matching/precedence are not decided): (R1) PathPattern.parse accepts (stores original/renderTree) only across ok(scan), ok(parse) and NumVariants(tree) <= maxExpandedPatterns for the very tree it stores, and parseAlt descends only below the nesting limit; (R2) the number compared with the limit cannot wrap: in every renderNode.NumVariants implementation an integer accumulation of children's NumVariants() results inside a loop is bounded by a comparison on the accumulator, the factor or the result on every path that performs it and then continues; every renderNode implementation is one of the reviewed ones; (R3) NumVariants and RenderAllVariants read the same renderTree, which is written only by parse; (R4) a render node is equal only to a node of its own kind (so alt.optimize never drops an alternative as a duplicate of a differently shaped one), and HighestPrecedencePattern compares every candidate with no early exit.",
		NotDecided:  "that matching a path equals matching one of the expansions; that precedence is order-independent; the doublestar library; exactness of the count below the limit.",
		Run:         runC37,
	})
}

func runC37(c *Ctx) {
	P := c.P
	pkg := "interfaces/prompting/patterns"
	parseM := P.Func(pkg + ".(*PathPattern).parse")
	scanObj := P.FuncObj(pkg + ".scan")
	parseObj := P.FuncObj(pkg + ".parse")
	numVarObj := P.FuncObj(pkg + ".renderNode.NumVariants")
	kMax := P.Const(pkg + ".maxExpandedPatterns")
	fOrig := P.Field(pkg + ".PathPattern.original")
	fTree := P.Field(pkg + ".PathPattern.renderTree")

	c.Rule("C37-R1", "G", "PathPattern.parse: acceptance <= ok(scan) ∧ ok(parse) ∧ tree.NumVariants() <= maxExpandedPatterns; parseAlt bounded nesting", 5)
	treeVal := VRes(0, ToFn(parseObj))
	countOK := Cmp("tree.NumVariants()<=maxExpandedPatterns", VRes(0, RecvWhere(ToFn(numVarObj), treeVal)), token.LEQ, VConstObj(kMax))
	clauses := []Clause{{OkCall("ok(scan)", scanObj)}, {OkCall("ok(parse)", parseObj)}, {countOK}}
	n := 0
	for _, f := range []*types.Var{fOrig, fTree} {
		for i, st := range StoresToField(parseM, f) {
			n++
			c.Guarded(fmt.Sprintf("%s.(*PathPattern).parse#store-%s#%d", pkg, f.Name(), i+1), parseM, st, clauses, nil)
			if f == fTree {
				c.Check(treeVal(st.Val), fmt.Sprintf("%s.(*PathPattern).parse#stored-tree#%d", pkg, i+1), st.Pos(), "the tree stored is the one whose variants were counted", "the render tree stored is not the result of parse(tokens) that was counted against the limit")
			}
		}
	}
	if n < 2 {
		c.Undecided(pkg+".(*PathPattern).parse#acceptance", parseM.Pos(), "stores of original/renderTree not found")
	}
	for i, lf := range nilLeaves(parseM, 0) {
		c.GuardedFlow(fmt.Sprintf("%s.(*PathPattern).parse#nil-return#%d", pkg, i+1), parseM, lf, clauses, nil)
	}
	// parse's argument is scan's result
	for i, pc := range CallSites(parseM, parseObj) {
		c.Check(VRes(0, ToFn(scanObj))(pc.Common().Args[0]), fmt.Sprintf("%s.(*PathPattern).parse#tokens#%d", pkg, i+1), pc.Pos(), "parse consumes scan's tokens", "parse() is not given the tokens scan() produced")
	}
	parseAlt := P.Func(pkg + ".parseAlt")
	parseSeqObj := P.FuncObj(pkg + ".parseSeq")
	fDepth := P.Field(pkg + ".tokenReader.depth")
	depthOK := Cmp("tr.depth<maxExpandedPatterns", VField(fDepth), token.LSS, VConstObj(kMax))
	for i, sc := range CallSites(parseAlt, parseSeqObj) {
		c.Guarded(fmt.Sprintf("%s.parseAlt#descend#%d", pkg, i+1), parseAlt, sc, []Clause{{depthOK}}, nil)
	}
	// depth is incremented before the test
	incSeen := false
	for _, st := range StoresToField(parseAlt, fDepth) {
		if bo, ok := st.Val.(*ssa.BinOp); ok && bo.Op == token.ADD && IsFieldLoad(bo.X, fDepth) {
			incSeen = true
			for _, b := range parseAlt.Blocks {
				if len(b.Instrs) == 0 {
					continue
				}
				if iff, ok := b.Instrs[len(b.Instrs)-1].(*ssa.If); ok && depthOK.Match(Decompose(iff.Cond)) != PolNone {
					c.Before(pkg+".parseAlt#depth-incremented-before-test", parseAlt, SinkIs(st), "tr.depth++", iff, nil)
				}
			}
		}
	}
	c.Check(incSeen, pkg+".parseAlt#depth-increment", parseAlt.Pos(), "depth is incremented on entry", "parseAlt no longer increments tr.depth: the nesting limit can never trigger")

	c.Rule("C37-R2", "L", "every NumVariants implementation: a looped integer accumulation of children's NumVariants() results is bounded on every path that performs it and continues", 3)
	iface := P.NamedType(pkg + ".renderNode").Underlying().(*types.Interface)
	reviewed := map[string]bool{"literal": true, "seq": true, "alt": true}
	isChildCount := VRes(0, ToFn(numVarObj))
	for _, tn := range implementers(P.Pkgs[pkg].Types, iface) {
		c.Check(reviewed[tn.Name()], pkg+"."+tn.Name()+"#rendernode-impl", tn.Pos(), "reviewed renderNode implementation", "new renderNode implementation "+tn.Name()+": its NumVariants has not been reviewed against wrap-around")
		fn := P.TryFunc(pkg + "." + tn.Name() + ".NumVariants")
		if fn == nil {
			fn = P.TryFunc(pkg + ".(*" + tn.Name() + ").NumVariants")
		}
		if fn == nil {
			c.Undecided(pkg+"."+tn.Name()+".NumVariants", tn.Pos(), "NumVariants method body not found")
			continue
		}
		c.touch(fn)
		k := 0
		for _, b := range fn.Blocks {
			for _, in := range b.Instrs {
				bo, ok := in.(*ssa.BinOp)
				if !ok || !isIntType(bo.Type()) {
					continue
				}
				switch bo.Op {
				case token.MUL, token.ADD, token.SHL:
				default:
					continue
				}
				if !DependsOn(bo.X, isChildCount) && !DependsOn(bo.Y, isChildCount) {
					continue
				}
				k++
				name := fmt.Sprintf("%s.%s.NumVariants#accumulate#%d", pkg, tn.Name(), k)
				X := VOr(VIs(bo), VIs(bo.X), VIs(bo.Y))
				// any comparison on the accumulator, the factor or the result counts (pre-checks
				// against MaxInt/factor, post-checks for a wrapped sign, clamps against the limit)
				gate := func(in ssa.Instruction) bool {
					iff, ok := in.(*ssa.If)
					if !ok {
						return false
					}
					cd := Decompose(iff.Cond)
					return cd.Bin != nil && (X(cd.Bin.X) || X(cd.Bin.Y))
				}
				// (a) the operation is reachable from the entry without a bound test, and
				// (b) from the operation the function can continue (next iteration or return) without one
				qa := ReachQ{Fn: fn, Sink: SinkIs(bo), CutInstr: gate}
				ra := qa.Run()
				qb := ReachQ{Fn: fn, From: LocOf(bo), CutInstr: gate, Sink: func(in ssa.Instruction) bool {
					_, isRet := in.(*ssa.Return)
					return isRet
				}}
				rb := qb.Run()
				c.cur.Blocks += ra.Blocks + rb.Blocks
				c.cur.Edges += ra.Edges + rb.Edges
				if ra.Found && rb.Found {
					c.Violated(name, bo.Pos(), fmt.Sprintf("%s accumulates children's NumVariants() with %s and no comparison bounds the accumulator, the factor or the result on the way: the count compared with maxExpandedPatterns can wrap around (e.g. 63 groups of two give MinInt64, 64 give 0) and an over-limit pattern is accepted; path in: %s; path out: %s", SSAFuncName(fn), bo.Op, c.P.PathString(ra.Path), c.P.PathString(rb.Path)))
				} else {
					c.Holds(name, bo.Pos(), "the accumulation is bounded by a comparison before or after it on every path")
				}
			}
		}
		if k == 0 {
			c.Holds(fmt.Sprintf("%s.%s.NumVariants#no-accumulation", pkg, tn.Name()), fn.Pos(), "no arithmetic on children's counts")
		}
	}

	c.Rule("C37-R4", "G+L", "render nodes are equal only to nodes of their own kind (alt.optimize drops duplicates by nodeEqual); HighestPrecedencePattern compares every candidate (no early exit)", 3)
	for _, tn := range implementers(P.Pkgs[pkg].Types, iface) {
		fn := P.TryFunc(pkg + "." + tn.Name() + ".nodeEqual")
		if fn == nil {
			fn = P.TryFunc(pkg + ".(*" + tn.Name() + ").nodeEqual")
		}
		if fn == nil {
			c.Undecided(pkg+"."+tn.Name()+".nodeEqual", tn.Pos(), "nodeEqual method body not found")
			continue
		}
		c.touch(fn)
		sameKind := TypeIs("other.("+tn.Name()+")", VParam(fn, 1), tn.Type())
		k := 0
		for _, lf := range ReturnLeaves(fn, 0) {
			if v, ok := ConstBool(lf.Val); ok && !v {
				continue
			}
			k++
			c.GuardedFlow(fmt.Sprintf("%s.%s.nodeEqual#equal<=same-kind#%d", pkg, tn.Name(), k), fn, lf, []Clause{{sameKind}}, nil)
		}
		if k == 0 {
			c.Undecided(pkg+"."+tn.Name()+".nodeEqual#equal-result", fn.Pos(), "no non-false result found")
		}
	}
	hpp := P.Func(pkg + ".HighestPrecedencePattern")
	c.touch(hpp)
	nl := 0
	for _, rl := range RangeLoops(hpp) {
		nl++
		q := ReachQ{Fn: hpp, From: &Loc{rl.Body, -1}, CutEdge: func(b *ssa.BasicBlock, s int) bool { return b == rl.Header },
			SinkEdge: func(b *ssa.BasicBlock, s int) bool { return b != rl.Header && b.Succs[s] == rl.Done }}
		r := q.Run()
		c.Check(!r.Found, fmt.Sprintf("%s.HighestPrecedencePattern#compares-every-candidate#%d", pkg, nl), rl.Body.Instrs[0].Pos(), "the scan over the candidates is never cut short", "HighestPrecedencePattern can stop before comparing every candidate: the winner then depends on the order of the patterns: "+P.PathString(r.Path))
		// a success return inside the loop would also be an early exit
		for _, rt := range ReturnsOf(hpp) {
			if rl.Body.Dominates(rt.Block()) && IsNilConst(rt.Results[len(rt.Results)-1]) {
				c.Violated(fmt.Sprintf("%s.HighestPrecedencePattern#early-success#%d", pkg, nl), rt.Pos(), "HighestPrecedencePattern returns a winner from inside the loop, before the remaining candidates were compared")
			}
		}
	}
	if nl == 0 {
		c.Undecided(pkg+".HighestPrecedencePattern#loop", hpp.Pos(), "the loop over the candidates was not found")
	}

	c.Rule("C37-R3", "W", "NumVariants and RenderAllVariants read the renderTree that parse stored; nobody else writes it", 3)
	for i, st := range P.FieldStores(fTree) {
		c.Check(st.Parent() == parseM, fmt.Sprintf("%s.PathPattern.renderTree#store#%d", pkg, i+1), st.Pos(), "written by parse", "PathPattern.renderTree is written outside parse (in "+SSAFuncName(st.Parent())+"): the stored tree bypasses the expansion limit")
	}
	nv := P.Func(pkg + ".(*PathPattern).NumVariants")
	okNV := false
	for _, lf := range ReturnLeaves(nv, 0) {
		if VRes(0, RecvWhere(ToFn(numVarObj), VFieldOf(fTree, VParam(nv, 0))))(lf.Val) {
			okNV = true
		} else {
			okNV = false
			break
		}
	}
	c.Check(okNV, pkg+".(*PathPattern).NumVariants#source", nv.Pos(), "p.renderTree.NumVariants()", "PathPattern.NumVariants no longer reports p.renderTree.NumVariants()")
	rav := P.Func(pkg + ".(*PathPattern).RenderAllVariants")
	okR := false
	for _, cc := range CallSites(rav, P.FuncObj(pkg+".renderAllVariants")) {
		if VFieldOf(fTree, VParam(rav, 0))(cc.Common().Args[0]) {
			okR = true
		}
	}
	c.Check(okR, pkg+".(*PathPattern).RenderAllVariants#source", rav.Pos(), "renders p.renderTree", "RenderAllVariants does not render p.renderTree")
}
