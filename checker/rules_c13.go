package main

import (
	"fmt"
	"go/token"

	"golang.org/x/tools/go/ssa"
)

func init() {
	register(&Property{
		ID:          "C13",
		Roots:       []string{"overlord/snapstate"},
		Technique:   "guarded-sink reachability on RevertToRevision, doInstall and doLinkSnap; must-pass-through of the revert-status update on the revert branch; loop skip-discipline on SnapState.Block",
		Explanation: "Structural necessary conditions for 'revert switches in place and blocks the reverted-from revisions': (R1) RevertToRevision reaches doInstall only across current != requested, snap active and the requested revision being in the sequence, with Flags.Revert set on the way; Revert without a previous revision fails; (R2) doLinkSnap changes the order of the kept revisions (element stores / copy into Sequence.Revisions) only when the task is not a revert, and appends only when the candidate is not yet kept; (R3) doInstall creates the copy-snap-data task only when not reverting; (R4) on the revert branch of doLinkSnap every path to the state write updates RevertStatus for the revision reverted from - NotBlocked exactly under snapsup.RevertStatus==NotBlocked, otherwise the entry is deleted; (R5) SnapState.Block lists every revision after the current one in sequence order, skipping one only across RevertStatus[rev]==NotBlocked, with no early exit; (R6) undoLinkSnap puts the revert status back for a revert (shared with C10-R2).",
		NotDecided:  "how Block() is consumed by the refresh-candidate filtering; the choice of the previous revision; data of the reverted-to revision.",
		Run:         func(c *Ctx) { runC13(c); runC13x(c) },
	})
}

func runC13(c *Ctx) {
	P := c.P
	pkg := "overlord/snapstate"
	fRevert := P.Field(pkg + ".Flags.Revert")
	fRevertSup := P.Field(pkg + ".Flags.Revert")
	_ = fRevertSup

	c.Rule("C13-R1", "G", "RevertToRevision: doInstall <= Current != rev ∧ Active ∧ LastIndex(rev) >= 0 ∧ flags.Revert=true; Revert: no previous revision => error", 3)
	rtr := P.Func(pkg + ".RevertToRevision")
	doInstall := P.FuncObj(pkg + ".doInstall")
	fCurrent := P.Field(pkg + ".SnapState.Current")
	fActive := P.Field(pkg + ".SnapState.Active")
	lastIndex := P.FuncObj(pkg + ".(*SnapState).LastIndex")
	notSame := Not(Cmp("snapst.Current==rev", VField(fCurrent), token.EQL, VParam(rtr, 2)))
	active := Atom{Name: "snapst.Active", Match: func(cd Cond) Pol { return cd.BoolIs(VField(fActive)) }}
	found := Cmp("snapst.LastIndex(rev)>=0", VRes(0, CallWhere(ToFn(lastIndex), 1, VParam(rtr, 2))), token.GEQ, VConstInt(0))
	dis := CallSites(rtr, doInstall)
	for i, dc := range dis {
		c.Guarded(fmt.Sprintf("%s.RevertToRevision#doInstall#%d", pkg, i+1), rtr, dc, []Clause{{notSame}, {active}, {found}}, nil)
		// flags.Revert = true on the way
		isRevertStore := func(in ssa.Instruction) bool {
			st, ok := in.(*ssa.Store)
			if !ok {
				return false
			}
			fa, ok := st.Addr.(*ssa.FieldAddr)
			if !ok || fieldOfAddr(fa) != fRevert {
				return false
			}
			v, isC := ConstBool(st.Val)
			return isC && v
		}
		c.Before(fmt.Sprintf("%s.RevertToRevision#revert-flag-set#%d", pkg, i+1), rtr, isRevertStore, "flags.Revert = true", dc, nil)
		// the side info handed over is the one at the index found
		a := CallArgs(dc)
		_ = a
	}
	if len(dis) == 0 {
		c.Undecided(pkg+".RevertToRevision#doInstall", rtr.Pos(), "no doInstall call found")
	}
	rv := P.Func(pkg + ".Revert")
	prev := P.FuncObj(pkg + ".(*SnapState).previousSideInfo")
	for i, rc := range CallSites(rv, P.FuncObj(pkg+".RevertToRevision")) {
		c.Guarded(fmt.Sprintf("%s.Revert#has-previous#%d", pkg, i+1), rv, rc, []Clause{{Cmp("previousSideInfo()!=nil", VRes(0, ToFn(prev)), token.NEQ, isNilVal)}}, nil)
	}

	c.Rule("C13-R2", "G", "doLinkSnap: the order of kept revisions changes only when not reverting; append only when the candidate is not kept", 2)
	do := P.Func(pkg + ".(*SnapManager).doLinkSnap")
	fSeq := P.Field(pkg + ".SnapState.Sequence")
	fRevisions := P.Field(pkg + "/sequence.SnapSequence.Revisions")
	notRevert := Atom{Name: "!snapsup.Revert", Match: func(cd Cond) Pol { return cd.BoolIs(VField(fRevert)).Flip() }}
	notKept := Cmp("oldCandidateIndex<0", VRes(0, ToFn(lastIndex)), token.LSS, VConstInt(0))
	n := 0
	for _, b := range do.Blocks {
		for _, in := range b.Instrs {
			switch x := in.(type) {
			case *ssa.Store:
				if !addrUnderField(x.Addr, fSeq) {
					continue
				}
				n++
				if fa, ok := x.Addr.(*ssa.FieldAddr); ok && fieldOfAddr(fa) == fRevisions {
					// whole-slice store: the append of a new candidate
					c.Guarded(fmt.Sprintf("%s.doLinkSnap#sequence-append#%d", pkg, n), do, x, []Clause{{notKept}}, nil)
				} else {
					c.Guarded(fmt.Sprintf("%s.doLinkSnap#sequence-reorder#%d", pkg, n), do, x, []Clause{{notRevert}}, nil)
				}
			case *ssa.Call:
				if bi, ok := x.Call.Value.(*ssa.Builtin); ok && bi.Name() == "copy" {
					if isRevisionsSlice(x.Call.Args[0], fRevisions) {
						n++
						c.Guarded(fmt.Sprintf("%s.doLinkSnap#sequence-copy#%d", pkg, n), do, x, []Clause{{notRevert}}, nil)
					}
				}
			}
		}
	}
	if n < 2 {
		c.Undecided(pkg+".doLinkSnap#sequence-writes", do.Pos(), fmt.Sprintf("expected the append and the move-to-end of the candidate, found %d sequence writes", n))
	}

	c.Rule("C13-R3", "G", "doInstall: NewTask(copy-snap-data) <= !snapsup.Flags.Revert", 1)
	di := P.Func(pkg + ".doInstall")
	newTask := P.FuncObj("overlord/state.(*State).NewTask")
	k := 0
	for _, nt := range CallSites(di, newTask) {
		if kind, _ := ConstString(CallArgs(nt)[0]); kind == "copy-snap-data" {
			k++
			c.Guarded(fmt.Sprintf("%s.doInstall#copy-snap-data#%d", pkg, k), di, nt, []Clause{{notRevert}}, nil)
		}
	}
	if k == 0 {
		c.Undecided(pkg+".doInstall#copy-snap-data", di.Pos(), "no NewTask(copy-snap-data) found")
	}

	c.Rule("C13-R4", "G+O", "doLinkSnap revert branch: RevertStatus[revertedFrom] = NotBlocked <= snapsup.RevertStatus==NotBlocked, otherwise deleted; one of the two on every path to the state write", 3)
	fRS := P.Field(pkg + ".SnapState.RevertStatus")
	fSupRS := P.Field(pkg + ".SnapSetup.RevertStatus")
	kNotBlocked := P.Const(pkg + ".NotBlocked")
	supNotBlocked := Cmp("snapsup.RevertStatus==NotBlocked", VField(fSupRS), token.EQL, VConstObj(kNotBlocked))
	isRevert := Not(notRevert)
	var setNB, del []ssa.Instruction
	for _, m := range FieldMutations(do, fRS, nil) {
		switch x := m.(type) {
		case *ssa.MapUpdate:
			if VConstObj(kNotBlocked)(x.Value) {
				setNB = append(setNB, m)
			}
		case *ssa.Call:
			del = append(del, m)
		}
	}
	for i, m := range setNB {
		c.Guarded(fmt.Sprintf("%s.doLinkSnap#mark-not-blocked#%d", pkg, i+1), do, m, []Clause{{isRevert}, {supNotBlocked}}, nil)
	}
	if len(setNB) == 0 {
		c.Violated(pkg+".doLinkSnap#mark-not-blocked", do.Pos(), "doLinkSnap no longer records RevertStatus[revertedFrom] = NotBlocked for a non-blocking revert")
	}
	// from the revert edge, every path to snapstate.Set passes a set-NotBlocked or a delete of the entry
	setObj := P.FuncObj(pkg + ".Set")
	isUpd := func(in ssa.Instruction) bool {
		for _, m := range append(append([]ssa.Instruction{}, setNB...), del...) {
			if m == in {
				return true
			}
		}
		return false
	}
	nEdge := 0
	for _, b := range do.Blocks {
		for si := range b.Succs {
			if !AtomEdges(isRevert)(b, si) {
				continue
			}
			// only the test that selects the revert-status handling: the one from which a RevertStatus mutation is reachable before any other
			if !(ReachQ{Fn: do, From: &Loc{b.Succs[si], -1}, Sink: isUpd, CutEdge: AtomEdges(isRevert, notRevert)}).Run().Found {
				continue
			}
			nEdge++
			q := ReachQ{Fn: do, From: &Loc{b.Succs[si], -1}, CutInstr: isUpd, Sink: SinkCall(setObj)}
			r := q.Run()
			c.Check(!r.Found, fmt.Sprintf("%s.doLinkSnap#revert-status-updated#%d", pkg, nEdge), b.Instrs[len(b.Instrs)-1].Pos(), "on a revert the entry of the revision reverted from is always set or dropped", "on a revert doLinkSnap can write the snap state without touching RevertStatus of the revision reverted from (a stale NotBlocked mark survives an ordinary, blocking revert): "+P.PathString(r.Path))
		}
	}
	if nEdge == 0 {
		c.Undecided(pkg+".doLinkSnap#revert-status-updated", do.Pos(), "the revert branch handling RevertStatus was not recognised")
	}
	// delete on the non-NotBlocked arm
	okDel := false
	for _, d := range del {
		if c.Try(do, d, []Clause{{isRevert}, {Not(supNotBlocked)}}, nil) {
			okDel = true
		}
	}
	c.Check(okDel, pkg+".doLinkSnap#blocking-revert-drops-mark", do.Pos(), "a blocking revert deletes the entry", "no delete(snapst.RevertStatus, revertedFrom) under a blocking revert: a stale NotBlocked mark keeps the reverted-from revision refreshable")

	c.Rule("C13-R5", "L", "SnapState.Block: every revision after the current one is listed unless RevertStatus[rev]==NotBlocked; no early exit", 2)
	blk := P.Func(pkg + ".(*SnapState).Block")
	isAppend := func(in ssa.Instruction) bool {
		ci, ok := in.(*ssa.Call)
		if !ok {
			return false
		}
		bi, ok := ci.Call.Value.(*ssa.Builtin)
		return ok && bi.Name() == "append"
	}
	loops := RangeLoops(blk)
	if len(loops) != 1 {
		c.Undecided(pkg+".(*SnapState).Block#loop", blk.Pos(), fmt.Sprintf("expected one loop, found %d", len(loops)))
	} else {
		rl := loops[0]
		statusNB := Cmp("status==NotBlocked", func(v ssa.Value) bool {
			// status, ok := RevertStatus[n] or plainly RevertStatus[n] (a missing entry reads as the zero status, which is not NotBlocked)
			if lk, ok := Strip(v).(*ssa.Lookup); ok && !lk.CommaOk {
				return IsFieldLoad(lk.X, fRS)
			}
			ex, ok := Strip(v).(*ssa.Extract)
			if !ok || ex.Index != 0 {
				return false
			}
			lk, ok := ex.Tuple.(*ssa.Lookup)
			return ok && IsFieldLoad(lk.X, fRS)
		}, token.EQL, VConstObj(kNotBlocked))
		c.SkipsOnlyAcross(pkg+".(*SnapState).Block#loop", rl, isAppend, "append(out, rev)", Clause{statusNB}, false)
		// the slice walked starts right after the current revision
		okRange := false
		if sl, ok := Strip(rl.Coll).(*ssa.Slice); ok && sl.High == nil {
			if bo, ok := sl.Low.(*ssa.BinOp); ok && bo.Op == token.ADD && VConstInt(1)(bo.Y) && VRes(0, CallWhere(ToFn(lastIndex), 1, VField(fCurrent)))(bo.X) {
				okRange = isRevisionsSlice(sl.X, fRevisions)
			}
		}
		if phi, ok := rl.Index.(*ssa.Phi); ok && rl.Kind == "for-index" && isRevisionsSlice(rl.Coll, fRevisions) {
			// the same walk with an index: for i := LastIndex(Current)+1; i < len(Revisions); i++
			okRange = true
			for i, e := range phi.Edges {
				if rl.Header.Dominates(rl.Header.Preds[i]) {
					continue
				}
				bo, ok := Strip(e).(*ssa.BinOp)
				if !ok || bo.Op != token.ADD || !VConstInt(1)(bo.Y) || !VRes(0, CallWhere(ToFn(lastIndex), 1, VField(fCurrent)))(bo.X) {
					okRange = false
				}
			}
		}
		c.Check(okRange, pkg+".(*SnapState).Block#range", blk.Pos(), "walks Sequence.Revisions[LastIndex(Current)+1:]", "Block no longer walks exactly the revisions after the current one (Sequence.Revisions[LastIndex(Current)+1:])")
	}
}

// isRevisionsSlice: v is (a slice of) a load of the Revisions field.
func isRevisionsSlice(v ssa.Value, fRevisions interface{ Name() string }) bool {
	for i := 0; i < 4; i++ {
		switch x := Strip(v).(type) {
		case *ssa.Slice:
			v = x.X
			continue
		case *ssa.UnOp:
			if fa, ok := x.X.(*ssa.FieldAddr); ok && x.Op == token.MUL {
				return fieldOfAddr(fa).Name() == fRevisions.Name()
			}
		}
		break
	}
	return false
}
