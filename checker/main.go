// snapverif decides structural necessary conditions of the snapd properties in
// /verif/properties.jsonl by static analysis of the source under /repo.
package main

import (
	"encoding/json"
	"flag"
	"fmt"
	"os"
	"sort"
)

type overlayList []string

func (o *overlayList) String() string     { return fmt.Sprint(*o) }
func (o *overlayList) Set(v string) error { *o = append(*o, v); return nil }

var overlayFlag overlayList
var noEvidence bool

func usage() {
	fmt.Fprintln(os.Stderr, "usage: snapverif check -p <id> [-tier quick|thorough] [-repo /repo] | list | replay <file>")
	os.Exit(2)
}

var variantTags, variantArch string

func main() {
	if len(os.Args) < 2 {
		usage()
	}
	switch os.Args[1] {
	case "list":
		var ids []string
		for id := range properties {
			ids = append(ids, id)
		}
		sort.Strings(ids)
		for _, id := range ids {
			fmt.Println(id)
		}
	case "manifest":
		writeManifest()
	case "check":
		fs := flag.NewFlagSet("check", flag.ExitOnError)
		pid := fs.String("p", "", "property id")
		tier := fs.String("tier", "", "quick|thorough")
		repo := fs.String("repo", "/repo", "repository to analyse")
		fs.Var(&overlayFlag, "overlay", "repo-relative-path=replacement-file (repeatable; used by the mutant self-test, never by registered checks)")
		fs.BoolVar(&noEvidence, "noevidence", false, "do not write the evidence file (self-test runs)")
		fs.StringVar(&variantTags, "tags", "", "extra build tags (experiments; the thorough tier iterates over its variants itself)")
		fs.StringVar(&variantArch, "goarch", "", "GOARCH (experiments)")
		fs.Parse(os.Args[2:])
		if *tier == "" {
			*tier = os.Getenv("VERIF_TIER")
		}
		if *tier == "" {
			*tier = "quick"
		}
		if *tier != "quick" && *tier != "thorough" {
			usage()
		}
		prop, ok := properties[*pid]
		if !ok {
			fmt.Fprintf(os.Stderr, "unknown property %q\n", *pid)
			os.Exit(2)
		}
		code, err := runProperty(prop, *repo, *tier, "")
		if err != nil {
			// a load/type-check failure is a failure of the check, reported as such
			fmt.Printf("%s: check could not be decided: %v\n", prop.ID, err)
			fmt.Printf("VIOLATION property=%s replay=%s\n", prop.ID, "none(load-failure)")
			os.Exit(1)
		}
		os.Exit(code)
	case "replay":
		if len(os.Args) < 3 {
			usage()
		}
		data, err := os.ReadFile(os.Args[2])
		if err != nil {
			fmt.Fprintln(os.Stderr, err)
			os.Exit(2)
		}
		var v struct {
			PropertyID string `json:"property_id"`
			Tier       string `json:"tier"`
			Repo       string `json:"repo"`
			Obligation Obligation
		}
		if err := json.Unmarshal(data, &v); err != nil {
			fmt.Fprintln(os.Stderr, err)
			os.Exit(2)
		}
		prop, ok := properties[v.PropertyID]
		if !ok {
			fmt.Fprintf(os.Stderr, "unknown property %q\n", v.PropertyID)
			os.Exit(2)
		}
		repo := v.Repo
		if repo == "" {
			repo = "/repo"
		}
		code, err := runProperty(prop, repo, v.Tier, v.Obligation.Rule+"|"+v.Obligation.Construct)
		if err != nil {
			fmt.Println(err)
			os.Exit(1)
		}
		os.Exit(code)
	default:
		usage()
	}
}
