package main

import (
	"bytes"
	"encoding/json"
	"fmt"
	"go/constant"
	"go/token"
	"go/types"
	"os/exec"
	"path/filepath"
	"strings"
)

// The C side of snapd is only mined for constants, string literals and the shape of a few
// named functions, through clang's own parser (-ast-dump=json restricted to one function
// with -ast-dump-filter, and -E -dM for macros). Nothing is compiled or run.

type CNode struct {
	Kind   string          `json:"kind"`
	Name   string          `json:"name"`
	Opcode string          `json:"opcode"`
	Value  json.RawMessage `json:"value"`
	Inner  []*CNode        `json:"inner"`
	Ref    *struct {
		Name string `json:"name"`
		Kind string `json:"kind"`
	} `json:"referencedDecl"`
	Type *struct {
		QualType string `json:"qualType"`
	} `json:"type"`
	Loc *struct {
		Line int `json:"line"`
	} `json:"loc"`
	Range *struct {
		Begin struct {
			Line         int `json:"line"`
			ExpansionLoc *struct {
				Line int `json:"line"`
			} `json:"expansionLoc"`
		} `json:"begin"`
	} `json:"range"`
}

func (n *CNode) ValueString() string {
	if n == nil || n.Value == nil {
		return ""
	}
	var s string
	if json.Unmarshal(n.Value, &s) == nil {
		return s
	}
	return string(n.Value)
}

func cstubDir() string { return filepath.Join(verifDir(), "checker", "cstub") }

func clangArgs(repo string) []string {
	return []string{"-fsyntax-only", "-w", "-I" + cstubDir(), "-I" + filepath.Join(repo, "cmd"), "-I" + filepath.Join(repo, "cmd", "libsnap-confine-private")}
}

// CFunc returns clang's AST of one function definition of a C file (path relative to the repo).
func CFunc(repo, file, fn string) (*CNode, error) {
	args := append(clangArgs(repo), "-Xclang", "-ast-dump=json", "-Xclang", "-ast-dump-filter="+fn, filepath.Join(repo, file))
	cmd := exec.Command("clang", args...)
	var out, errb bytes.Buffer
	cmd.Stdout, cmd.Stderr = &out, &errb
	cmd.Run() // other functions of the file may not parse without the real headers; the filtered dump is still produced
	data := out.Bytes()
	dec := json.NewDecoder(bytes.NewReader(data))
	// the dump is a sequence of "Dumping <name>:" lines and JSON objects
	for {
		i := bytes.IndexByte(data, '{')
		if i < 0 {
			break
		}
		data = data[i:]
		dec = json.NewDecoder(bytes.NewReader(data))
		var n CNode
		if err := dec.Decode(&n); err != nil {
			return nil, fmt.Errorf("clang AST of %s in %s: %v", fn, file, err)
		}
		if n.Kind == "FunctionDecl" && n.Name == fn && n.hasBody() {
			return &n, nil
		}
		data = data[dec.InputOffset():]
	}
	return nil, fmt.Errorf("clang produced no definition of %s in %s (stderr: %s)", fn, file, strings.TrimSpace(errb.String()))
}

func (n *CNode) hasBody() bool {
	for _, c := range n.Inner {
		if c.Kind == "CompoundStmt" {
			return true
		}
	}
	return false
}

func (n *CNode) Walk(f func(*CNode) bool) {
	if n == nil || !f(n) {
		return
	}
	for _, c := range n.Inner {
		c.Walk(f)
	}
}

// strip implicit casts / parens
func (n *CNode) Core() *CNode {
	for n != nil && (n.Kind == "ImplicitCastExpr" || n.Kind == "ParenExpr" || n.Kind == "ConstantExpr") && len(n.Inner) == 1 {
		n = n.Inner[0]
	}
	return n
}

// IntValue folds an integer constant expression node (literal, or literal arithmetic from a macro).
func (n *CNode) IntValue() (int64, bool) {
	n = n.Core()
	if n == nil {
		return 0, false
	}
	switch n.Kind {
	case "IntegerLiteral":
		var v int64
		_, err := fmt.Sscan(n.ValueString(), &v)
		return v, err == nil
	case "BinaryOperator":
		if len(n.Inner) != 2 {
			return 0, false
		}
		a, ok1 := n.Inner[0].IntValue()
		b, ok2 := n.Inner[1].IntValue()
		if !ok1 || !ok2 {
			return 0, false
		}
		switch n.Opcode {
		case "+":
			return a + b, true
		case "-":
			return a - b, true
		case "*":
			return a * b, true
		}
	}
	return 0, false
}

func (n *CNode) RefName() string {
	n = n.Core()
	if n != nil && n.Kind == "DeclRefExpr" && n.Ref != nil {
		return n.Ref.Name
	}
	return ""
}

// CMacros returns the object-like macros defined by a header, with integer values folded.
func CMacros(repo, header string) (map[string]int64, error) {
	args := append(clangArgs(repo), "-E", "-dM", filepath.Join(repo, header))
	out, err := exec.Command("clang", args...).Output()
	if err != nil {
		return nil, fmt.Errorf("clang -E -dM %s: %v", header, err)
	}
	raw := map[string]string{}
	for _, line := range strings.Split(string(out), "\n") {
		f := strings.SplitN(strings.TrimSpace(line), " ", 3)
		if len(f) == 3 && f[0] == "#define" && !strings.Contains(f[1], "(") {
			raw[f[1]] = f[2]
		}
	}
	res := map[string]int64{}
	var eval func(name string, depth int) (int64, bool)
	eval = func(name string, depth int) (int64, bool) {
		body, ok := raw[name]
		if !ok || depth > 8 {
			return 0, false
		}
		// substitute macro names
		expr := body
		for k := range raw {
			if strings.Contains(expr, k) && k != name {
				if v, ok := eval(k, depth+1); ok {
					expr = replaceWord(expr, k, fmt.Sprint(v))
				}
			}
		}
		tv, err := types.Eval(token.NewFileSet(), nil, token.NoPos, expr)
		if err != nil || tv.Value == nil || tv.Value.Kind() != constant.Int {
			return 0, false
		}
		v, ok := constant.Int64Val(tv.Value)
		return v, ok
	}
	for k := range raw {
		if strings.HasPrefix(k, "SNAP_") || strings.HasPrefix(k, "SC_") {
			if v, ok := eval(k, 0); ok {
				res[k] = v
			}
		}
	}
	return res, nil
}

func replaceWord(s, word, by string) string {
	var b strings.Builder
	i := 0
	isW := func(c byte) bool {
		return c == '_' || (c >= 'a' && c <= 'z') || (c >= 'A' && c <= 'Z') || (c >= '0' && c <= '9')
	}
	for i < len(s) {
		j := strings.Index(s[i:], word)
		if j < 0 {
			b.WriteString(s[i:])
			break
		}
		j += i
		before := j == 0 || !isW(s[j-1])
		after := j+len(word) >= len(s) || !isW(s[j+len(word)])
		b.WriteString(s[i:j])
		if before && after {
			b.WriteString(by)
		} else {
			b.WriteString(word)
		}
		i = j + len(word)
	}
	return b.String()
}

// CStringLiterals returns the string literals (C-unescaped) found in the function.
func (n *CNode) StringLiterals() []string {
	var out []string
	n.Walk(func(x *CNode) bool {
		if x.Kind == "StringLiteral" {
			s := x.ValueString() // includes the quotes and C escapes, JSON-decoded once
			if len(s) >= 2 && s[0] == '"' {
				s = s[1 : len(s)-1]
			}
			out = append(out, cUnescape(s))
		}
		return true
	})
	return out
}

func cUnescape(s string) string {
	var b strings.Builder
	for i := 0; i < len(s); i++ {
		if s[i] == '\\' && i+1 < len(s) {
			i++
			switch s[i] {
			case 'n':
				b.WriteByte('\n')
			case 't':
				b.WriteByte('\t')
			case '0':
				b.WriteByte(0)
			default:
				b.WriteByte(s[i])
			}
			continue
		}
		b.WriteByte(s[i])
	}
	return b.String()
}

// Comparisons lists `lhsVar <op> <int>` comparisons of the function.
type CCmp struct {
	Var string
	Op  string
	Val int64
}

func (n *CNode) Comparisons() []CCmp {
	var out []CCmp
	n.Walk(func(x *CNode) bool {
		if x.Kind == "BinaryOperator" && len(x.Inner) == 2 {
			switch x.Opcode {
			case "<", ">", "<=", ">=", "==", "!=":
				if v, ok := x.Inner[1].IntValue(); ok {
					l := x.Inner[0].Core()
					name := l.RefName()
					if name == "" && l != nil && l.Kind == "CallExpr" && len(l.Inner) > 0 {
						name = l.Inner[0].RefName() + "()"
					}
					if name != "" {
						out = append(out, CCmp{name, x.Opcode, v})
					}
				}
			}
		}
		return true
	})
	return out
}
