package main

import (
	"fmt"
	"go/constant"
	"go/token"
	"go/types"
	"time"

	"golang.org/x/tools/go/ssa"
)

func init() {
	register(&Property{
		ID:          "C15",
		Roots:       []string{"overlord/snapstate"},
		Technique:   "constant evaluation of the hold limits (go/constant); guarded-sink reachability and value provenance (SSA) on HoldRefresh, holdDurationLeft, maxAllowedPostponement, HeldSnaps and the prune helpers; who-may-write of the \"snaps-hold\" state key and of the first-held time",
		Explanation: "Structural necessary conditions for 'snap-initiated refresh holds are bounded': (R1) the limits are the documented constants: 48h for holding another snap, 95d-5d=90d overall; (R2) in HoldRefresh, for a holder other than the system, the hold is stored only across holdDurationLeft(...) > 0 and (no explicit duration | duration <= the allowed maximum), with the remaining time computed from the time the hold was first placed, the last refresh, maxAllowedPostponement(gating, held, 90d) and 90d; FirstHeld is written only when no hold of that pair exists yet; maxAllowedPostponement grants the long limit only when the very same instance holds itself; holdDurationLeft returns the smaller of the two remaining times; (R3) the stored HoldUntil is either the cut-off lastRefresh+90d or a value proven earlier than it; (R4) HeldSnaps reports a hold only if it has not run out, is at the requested level, and - unless placed by the system - the snap was refreshed within maxPostponement; (R5) pruning removes only non-system holds and only of snaps without a pending update / just refreshed, a refused hold removes only the refused holder's own records, and the \"snaps-hold\" key is written only by the gating code.",
		NotDecided:  "cumulative behaviour over repeated holds (time arithmetic); holds with explicit durations beyond the per-request checks; the auto-refresh code that consumes HeldSnaps.",
		Run:         func(c *Ctx) { runC15(c); runC15x(c); runC15y(c); runC15z(c) },
	})
}

func runC15(c *Ctx) {
	P := c.P
	pkg := "overlord/snapstate"

	c.Rule("C15-R1", "K", "maxOtherHoldDuration == 48h; maxPostponement - maxPostponementBuffer == 90*24h; maxPostponement == 95*24h", 3)
	dur := func(name string) int64 {
		k := P.Const(pkg + "." + name)
		v, _ := constant.Int64Val(k.Val())
		return v
	}
	c.Check(dur("maxOtherHoldDuration") == int64(48*time.Hour), pkg+".maxOtherHoldDuration", P.Const(pkg+".maxOtherHoldDuration").Pos(), "48h", fmt.Sprintf("maxOtherHoldDuration is %v, the documented bound for holding other snaps is 48h", time.Duration(dur("maxOtherHoldDuration"))))
	c.Check(dur("maxPostponement") == int64(95*24*time.Hour), pkg+".maxPostponement", P.Const(pkg+".maxPostponement").Pos(), "95 days", fmt.Sprintf("maxPostponement is %v, expected 95 days", time.Duration(dur("maxPostponement"))))
	c.Check(dur("maxPostponement")-dur("maxPostponementBuffer") == int64(90*24*time.Hour), pkg+".maxPostponement-buffer", P.Const(pkg+".maxPostponementBuffer").Pos(), "90 days", fmt.Sprintf("maxPostponement - maxPostponementBuffer is %v, the documented bound for gating holds is 90 days", time.Duration(dur("maxPostponement")-dur("maxPostponementBuffer"))))

	c.Rule("C15-R2", "G", "HoldRefresh (holder != system): gating[held][holder] = hold <= holdDurationLeft(...) > 0 ∧ (dur==0 | dur <= maxDur); arguments and helpers as documented; FirstHeld set only for a new hold", 9)
	hr := P.Func(pkg + ".HoldRefresh")
	hdl := P.FuncObj(pkg + ".holdDurationLeft")
	map_ := P.FuncObj(pkg + ".maxAllowedPostponement")
	lastRefreshed := P.FuncObj(pkg + ".lastRefreshed")
	fFirstHeld := P.Field(pkg + ".holdState.FirstHeld")
	fHoldUntil := P.Field(pkg + ".holdState.HoldUntil")
	isSystem := Cmp(`gatingSnap=="system"`, VParam(hr, 2), token.EQL, VConstStr("system"))
	leftPos := Cmp("left>0", VRes(0, ToFn(hdl)), token.GTR, VConstInt(0))
	durZero := Cmp("dur==0", func(v ssa.Value) bool { return DependsOn(v, VParam(hr, 3)) }, token.EQL, VConstInt(0))
	durLE := Cmp("dur<=maxDur", anyVal, token.LEQ, VRes(0, ToFn(map_)))
	var storeHold []*ssa.MapUpdate
	for _, b := range hr.Blocks {
		for _, in := range b.Instrs {
			if mu, ok := in.(*ssa.MapUpdate); ok && IsParam(mu.Key, hr, 2) {
				storeHold = append(storeHold, mu)
			}
		}
	}
	if len(storeHold) == 0 {
		c.Undecided(pkg+".HoldRefresh#store", hr.Pos(), "gating[heldSnap][gatingSnap] = hold not found")
	}
	for i, mu := range storeHold {
		c.Guarded(fmt.Sprintf("%s.HoldRefresh#store<=time-left#%d", pkg, i+1), hr, mu, []Clause{{isSystem, leftPos}}, nil)
		c.Guarded(fmt.Sprintf("%s.HoldRefresh#store<=duration-allowed#%d", pkg, i+1), hr, mu, []Clause{{isSystem, durZero, durLE}}, nil)
	}
	// arguments of holdDurationLeft / maxAllowedPostponement
	mpVal := func(v ssa.Value) bool {
		k, ok := ConstInt(v)
		return ok && k == int64(90*24*time.Hour)
	}
	for i, cc := range CallSites(hr, hdl) {
		a := cc.Common().Args
		ok := len(a) == 5 &&
			VRes(0, ViaGlobal(P.Global(pkg+".timeNow")))(a[0]) &&
			VRes(0, ToFn(lastRefreshed))(a[1]) &&
			IsFieldLoad(a[2], fFirstHeld) &&
			VRes(0, ToFn(map_))(a[3]) && mpVal(a[4])
		c.Check(ok, fmt.Sprintf("%s.HoldRefresh#holdDurationLeft-args#%d", pkg, i+1), cc.Pos(), "holdDurationLeft(now, lastRefreshed(held), hold.FirstHeld, maxAllowedPostponement(...), 90d)", "holdDurationLeft is not given (now, last refresh of the held snap, the time the hold was first placed, the allowed maximum, 90 days)")
	}
	for i, cc := range CallSites(hr, map_) {
		a := cc.Common().Args
		// held snap = element of the affectingSnaps loop
		var heldElem ssa.Value
		for _, rl := range RangeLoops(hr) {
			if rl.Coll != nil && IsParam(rl.Coll, hr, 4) && rl.Elem != nil && rl.Body.Dominates(cc.Block()) {
				heldElem = rl.Elem
			}
		}
		ok := len(a) == 3 && IsParam(a[0], hr, 2) && heldElem != nil && VIs(heldElem)(a[1]) && mpVal(a[2])
		c.Check(ok, fmt.Sprintf("%s.HoldRefresh#maxAllowedPostponement-args#%d", pkg, i+1), cc.Pos(), "maxAllowedPostponement(gatingSnap, heldSnap, 90d)", "maxAllowedPostponement is not given (gating snap, held snap, 90 days)")
		// lastRefreshed of the held snap
		for _, lc := range CallSites(hr, lastRefreshed) {
			c.Check(VIs(heldElem)(lc.Common().Args[1]), fmt.Sprintf("%s.HoldRefresh#lastRefreshed-of-held#%d", pkg, i+1), lc.Pos(), "last refresh of the held snap", "the last refresh time used is not that of the held snap")
		}
	}
	// FirstHeld written only in the literal of a new hold, reached only when no hold exists
	for i, st := range P.FieldStores(fFirstHeld) {
		fa := st.Addr.(*ssa.FieldAddr)
		_, fresh := fa.X.(*ssa.Alloc)
		okFn := st.Parent() == hr && fresh
		c.Check(okFn, fmt.Sprintf("%s.holdState.FirstHeld#store#%d", pkg, i+1), st.Pos(), "set in the literal of a new hold in HoldRefresh", "holdState.FirstHeld is written outside the creation of a new hold (in "+SSAFuncName(st.Parent())+"): the 48h/90d window can be restarted")
		if okFn {
			noHold := Atom{Name: "!ok (no hold yet)", Match: func(cd Cond) Pol {
				return cd.BoolIs(func(v ssa.Value) bool {
					ex, ok := v.(*ssa.Extract)
					if !ok || ex.Index != 1 {
						return false
					}
					lk, ok := ex.Tuple.(*ssa.Lookup)
					return ok && lk.CommaOk && IsParam(lk.Index, hr, 2)
				}).Flip()
			}}
			c.Guarded(fmt.Sprintf("%s.HoldRefresh#first-held-only-when-new#%d", pkg, i+1), hr, st, []Clause{{noHold}}, nil)
		}
	}
	// maxAllowedPostponement: the long limit only for affectedSnap == gatingSnap (plain string equality of the parameters)
	mapFn := P.Func(pkg + ".maxAllowedPostponement")
	self := Cmp("affectedSnap==gatingSnap", VParam(mapFn, 1), token.EQL, VParam(mapFn, 0))
	for i, lf := range ReturnLeaves(mapFn, 0) {
		switch {
		case IsParam(lf.Val, mapFn, 2):
			c.GuardedFlow(fmt.Sprintf("%s.maxAllowedPostponement#long-limit-only-for-self#%d", pkg, i+1), mapFn, lf, []Clause{{self}}, nil)
		case VConstObj(P.Const(pkg + ".maxOtherHoldDuration"))(lf.Val):
			c.Holds(fmt.Sprintf("%s.maxAllowedPostponement#other#%d", pkg, i+1), lf.Pos(), "48h for other snaps")
		default:
			c.Violated(fmt.Sprintf("%s.maxAllowedPostponement#result#%d", pkg, i+1), lf.Pos(), "maxAllowedPostponement returns something other than the overall limit (self) or maxOtherHoldDuration")
		}
	}
	// holdDurationLeft returns min(firstHeld+maxDuration-now, lastRefresh+maxPostponement-now)
	hdlFn := P.Func(pkg + ".holdDurationLeft")
	sub := P.FuncObj("time.Time.Sub")
	add := P.FuncObj("time.Time.Add")
	d := func(base, by int) func(ssa.Value) bool {
		return VRes(0, CallWhere(CallWhere(ToFn(sub), 0, VRes(0, CallWhere(CallWhere(ToFn(add), 0, VParam(hdlFn, base)), 1, VParam(hdlFn, by)))), 1, VParam(hdlFn, 0)))
	}
	d1, d2 := d(2, 3), d(1, 4)
	nLeaves := 0
	okMin := true
	for _, lf := range ReturnLeaves(hdlFn, 0) {
		nLeaves++
		switch {
		case d1(lf.Val):
			if !c.tryFlow(hdlFn, lf, Clause{Cmp("d1<d2", d1, token.LSS, d2), Cmp("d1<=d2", d1, token.LEQ, d2)}) {
				okMin = false
			}
		case d2(lf.Val):
			if !c.tryFlow(hdlFn, lf, Clause{Cmp("d2<=d1", d2, token.LEQ, d1), Cmp("d2<d1", d2, token.LSS, d1)}) {
				okMin = false
			}
		default:
			okMin = false
		}
	}
	c.Check(okMin && nLeaves == 2, pkg+".holdDurationLeft#min", hdlFn.Pos(), "returns the smaller of firstHeld+maxDuration-now and lastRefresh+maxPostponement-now", "holdDurationLeft no longer returns the smaller of (firstHeld+maxDuration-now) and (lastRefresh+maxPostponement-now)")

	c.Rule("C15-R3", "G", "HoldRefresh (holder != system): HoldUntil = cutOff, or a value v stored on the v.Before(cutOff) edge, cutOff = lastRefreshed.Add(90d)", 2)
	before := P.FuncObj("time.Time.Before")
	cutOff := VRes(0, CallWhere(CallWhere(ToFn(add), 0, VRes(0, ToFn(lastRefreshed))), 1, mpVal))
	nHU := 0
	for _, st := range StoresToField(hr, fHoldUntil) {
		if c.Try(hr, st, []Clause{{isSystem}}, nil) {
			continue // the system branch: unbounded by design
		}
		nHU++
		name := fmt.Sprintf("%s.HoldRefresh#hold-until#%d", pkg, nHU)
		if cutOff(st.Val) {
			c.Holds(name, st.Pos(), "the cut-off itself")
			continue
		}
		c.Guarded(name, hr, st, []Clause{{TrueRes("v.Before(cutOff)", true, 0, CallWhere(CallWhere(ToFn(before), 0, VIs(st.Val)), 1, cutOff))}}, nil)
	}
	if nHU < 2 {
		c.Undecided(pkg+".HoldRefresh#hold-until", hr.Pos(), fmt.Sprintf("expected the clamped pair of HoldUntil stores on the non-system branch, found %d", nHU))
	}

	c.Rule("C15-R4", "G", "HeldSnaps: a hold is reported only if not run out, at the requested level, and (system | refreshed within maxPostponement)", 3)
	hs := P.Func(pkg + ".HeldSnaps")
	fLevel := P.Field(pkg + ".holdState.Level")
	var rep []ssa.Instruction
	for _, b := range hs.Blocks {
		for _, in := range b.Instrs {
			if mu, ok := in.(*ssa.MapUpdate); ok {
				rep = append(rep, mu)
			}
		}
	}
	now := VRes(0, ViaGlobal(P.Global(pkg+".timeNow")))
	notRunOut := TrueRes("!hold.HoldUntil.Before(now)", false, 0, CallWhere(CallWhere(ToFn(before), 0, VField(fHoldUntil)), 1, now))
	levelOK := Not(Cmp("hold.Level<level", VField(fLevel), token.LSS, VParam(hs, 1)))
	mpConst := func(v ssa.Value) bool { k, ok := ConstInt(v); return ok && k == int64(95*24*time.Hour) }
	recent := TrueRes("!lastRefresh.Add(maxPostponement).Before(now)", false, 0, CallWhere(CallWhere(ToFn(before), 0, VRes(0, CallWhere(CallWhere(ToFn(add), 0, VRes(0, ToFn(lastRefreshed))), 1, mpConst))), 1, now))
	bySystem := Cmp(`holdingSnap=="system"`, anyVal, token.EQL, VConstStr("system"))
	for i, mu := range rep {
		c.Guarded(fmt.Sprintf("%s.HeldSnaps#report<=not-run-out#%d", pkg, i+1), hs, mu, []Clause{{notRunOut}}, nil)
		c.Guarded(fmt.Sprintf("%s.HeldSnaps#report<=level#%d", pkg, i+1), hs, mu, []Clause{{levelOK}}, nil)
		c.Guarded(fmt.Sprintf("%s.HeldSnaps#report<=system-or-recent#%d", pkg, i+1), hs, mu, []Clause{{bySystem, recent}}, nil)
	}
	if len(rep) == 0 {
		c.Undecided(pkg+".HeldSnaps#report", hs.Pos(), "held[heldSnap] = append(...) not found")
	}

	c.Rule("C15-R5", "G+W", "pruning: only non-system holds, only for snaps without candidate / refreshed; a refused hold deletes only the holder's own record; \"snaps-hold\" written only by the gating code", 6)
	ph := P.Func(pkg + ".pruneHoldStatesForSnap")
	isDelete := func(in ssa.Instruction) bool {
		ci, ok := in.(*ssa.Call)
		if !ok {
			return false
		}
		bi, ok := ci.Call.Value.(*ssa.Builtin)
		return ok && bi.Name() == "delete"
	}
	for _, b := range ph.Blocks {
		for _, in := range b.Instrs {
			if !isDelete(in) {
				continue
			}
			ci := in.(*ssa.Call)
			if IsParam(ci.Call.Args[1], ph, 1) {
				// delete(gating, snapName): only when nothing is left
				c.Guarded(pkg+".pruneHoldStatesForSnap#drop-snap<=empty", ph, in, []Clause{{Cmp("len(holdingSnaps)==0", VLen(anyVal), token.EQL, VConstInt(0))}}, nil)
			} else {
				c.Guarded(pkg+".pruneHoldStatesForSnap#delete<=not-system", ph, in, []Clause{{Not(Cmp(`holdingSnap=="system"`, anyVal, token.EQL, VConstStr("system")))}}, nil)
			}
		}
	}
	// callers of pruneHoldStatesForSnap and their gates
	phObj := P.FuncObj(pkg + ".pruneHoldStatesForSnap")
	allowed := map[string]string{
		pkg + ".pruneGating":             "snaps without a refresh candidate",
		pkg + ".resetGatingForRefreshed": "snaps about to be refreshed",
	}
	for _, u := range P.UsesOf(phObj) {
		nm := SSAFuncName(u.Fn)
		_, ok := allowed[nm]
		c.Check(ok && u.AsCall, "caller:pruneHoldStatesForSnap#"+nm, u.Instr.Pos(), "reviewed caller ("+allowed[nm]+")", "pruneHoldStatesForSnap (which wipes every snap-placed hold on a snap, first-held times included) is called from "+nm+": the holders' 48h/90d windows restart")
	}
	pg := P.Func(pkg + ".pruneGating")
	for i, pc := range CallSites(pg, phObj) {
		// gated by candidates[affectingSnap] == nil where candidates is the parameter and the snap is the loop key
		noCand := Cmp("candidates[snap]==nil", func(v ssa.Value) bool {
			lk, ok := Strip(v).(*ssa.Lookup)
			return ok && IsParam(lk.X, pg, 1)
		}, token.EQL, isNilVal)
		c.Guarded(fmt.Sprintf("%s.pruneGating#prune<=no-candidate#%d", pkg, i+1), pg, pc, []Clause{{noCand}}, nil)
	}
	// callers of pruneGating pass the full candidate set (the refresh hints), not a filtered subset
	pgObj := P.FuncObj(pkg + ".pruneGating")
	for i, u := range P.UsesOf(pgObj) {
		if !u.AsCall {
			continue
		}
		ci := u.Instr.(ssa.CallInstruction)
		arg := ci.Common().Args[1]
		// the map handed over must be the result of refreshHintsFromCandidates / the `hints` of refreshCandidates, unmodified: no delete on it before
		okArg := true
		why := ""
		for _, b := range u.Fn.Blocks {
			for _, in := range b.Instrs {
				if isDelete(in) && Strip(in.(*ssa.Call).Call.Args[0]) == Strip(arg) {
					if (ReachQ{Fn: u.Fn, From: LocOf(in), Sink: SinkIs(u.Instr)}).Run().Found {
						okArg = false
						why = "entries are deleted from it first at " + P.Pos(in.Pos())
					}
				}
			}
		}
		if _, isMake := Strip(arg).(*ssa.MakeMap); isMake {
			okArg = false
			why = "it is a map built locally (a filtered copy)"
		}
		c.Check(okArg, fmt.Sprintf("%s#pruneGating-arg#%d", SSAFuncName(u.Fn), i+1), u.Instr.Pos(), "pruneGating sees every snap that still has an update", "pruneGating is not given the complete set of snaps with a pending update ("+why+"): holds of snaps that merely could not be refreshed this time are forgotten and their window restarts")
	}
	// refused hold: the clean-up deletes gating[heldSnap][gatingSnap] only
	nClean := 0
	for _, b := range hr.Blocks {
		for _, in := range b.Instrs {
			if isDelete(in) {
				nClean++
				ci := in.(*ssa.Call)
				c.Check(IsParam(ci.Call.Args[1], hr, 2), fmt.Sprintf("%s.HoldRefresh#cleanup-own-record#%d", pkg, nClean), in.Pos(), "only the refused holder's record is removed", "the clean-up after a refused hold deletes something other than gating[heldSnap][gatingSnap]")
			}
		}
	}
	for _, cc := range CallSites(hr, phObj) {
		c.Violated(pkg+".HoldRefresh#cleanup-prunes-others", cc.Pos(), "HoldRefresh wipes the records of other holders (pruneHoldStatesForSnap) when one holder is refused")
	}
	// writers of "snaps-hold"
	stSet := P.FuncObj("overlord/state.(*State).Set")
	okWriters := map[string]bool{"HoldRefreshesBySystem": true, "HoldRefresh": true, "ProceedWithRefresh": true, "pruneGating": true, "resetGatingForRefreshed": true, "pruneSnapsHold": true}
	nW := 0
	for _, fn := range P.AllFuncs() {
		for _, sc := range CallSites(fn, stSet) {
			if k, ok := ConstString(CallArgs(sc)[0]); ok && k == "snaps-hold" {
				nW++
				o, _ := fn.Object().(*types.Func)
				c.Check(o != nil && short(fn.Pkg.Pkg.Path()) == pkg && okWriters[o.Name()], "state-key:snaps-hold#writer:"+SSAFuncName(fn), sc.Pos(), "reviewed writer", "\"snaps-hold\" is written by "+SSAFuncName(fn)+", outside the reviewed gating functions")
			}
		}
	}
	if nW == 0 {
		c.Undecided("state-key:snaps-hold#writers", token.NoPos, "no writer found")
	}
}

// tryFlow is GuardedFlow without recording an obligation.
func (c *Ctx) tryFlow(fn *ssa.Function, fp FlowPoint, cl Clause) bool {
	q := ReachQ{Fn: fn, CutEdge: AtomEdges(cl...)}
	if fp.Instr != nil {
		q.Sink = SinkIs(fp.Instr)
	} else {
		q.SinkEdge = func(b *ssa.BasicBlock, s int) bool { return b == fp.EdgeFrom && s == fp.EdgeSucc }
	}
	return !q.Run().Found
}
