package main

import (
	"fmt"
	"go/token"
	"go/types"
	"sort"
	"strings"

	"golang.org/x/tools/go/ssa"
)

func init() {
	register(&Property{
		ID:          "C04",
		Roots:       []string{"overlord/state", "overlord"},
		Technique:   "dirty-bit discipline as an interprocedural must-precede analysis (every store to a field that MarshalJSON persists is preceded by State.writing() in the function or at every call site of the helper), guarded-sink on State.Unlock, ordering in the task completion closure, who-may-clear of the modified flag",
		Explanation: "Structural necessary conditions for 'a restart resumes without redoing finished work': (R1) the persisted fields are derived from the five MarshalJSON writers (C05); every mutation of one of them in package overlord/state (field store, map insert/delete, element store, customData.set) is preceded on every path by State.writing() in the same function or, for unexported helpers, at every call site (recursively), with a short reasoned exception table; (R2) State.Unlock clears `modified` only across backend.Checkpoint(data)==nil with data serialised before, and nothing else clears it; (R3) in the task completion closure the handler call precedes taking the state lock and every status store lies after Lock (the deferred Unlock checkpoints it); (R4) Ensure lets Doing/Undoing tasks without a tomb reach run (they are run again after a restart) while Ready tasks never do (C02-R2); (R6) while the runner is stopping, a plain handler error of a do or undo handler never reaches SetStatus(Error)/abortLanes (it is turned into a Retry, so the interrupted work is resumed after the restart); (R5) the overlord wires the atomic-write backend into the state it loads.",
		NotDecided:  "idempotence of the handlers that are re-run; equality of outcomes with and without the restart.",
		Run:         runC04,
	})
}

// c04Exempt lists functions whose mutations of persisted fields need no writing(), with the reason.
var c04Exempt = map[string]string{
	"overlord/state.(*State).UnmarshalJSON":        "reload from disk: the in-memory state becomes the persisted state",
	"overlord/state.(*Task).UnmarshalJSON":         "reload from disk (calls writing() when attached to a state)",
	"overlord/state.(*Change).UnmarshalJSON":       "reload from disk (calls writing() when attached to a state)",
	"overlord/state.(*Notice).UnmarshalJSON":       "reload from disk",
	"overlord/state.(*Warning).UnmarshalJSON":      "reload from disk",
	"overlord/state.(*State).unflattenWarnings":    "reload from disk (called by State.UnmarshalJSON, which calls writing())",
	"overlord/state.(*State).unflattenNotices":     "reload from disk (called by State.UnmarshalJSON, which calls writing())",
	"overlord/state.(*Task).SetProgress":           "documented: progress is not worth a checkpoint of its own; only the final status change is persisted",
	"overlord/state.(*Task).accumulateDoingTime":   "statistics only, persisted with the status change that follows in the same locked section",
	"overlord/state.(*Task).accumulateUndoingTime": "statistics only, persisted with the status change that follows in the same locked section",
}

type c04Event struct {
	in    ssa.Instruction
	field *types.Var
	kind  string
}

func runC04(c *Ctx) {
	P := c.P
	writing := P.FuncObj("overlord/state.(*State).writing")
	persisted := fieldSet{}
	for _, spec := range stateCodecs {
		for f := range c.persistedFields(spec) {
			persisted[f] = true
		}
	}
	c.Rule("C04-R1", "W+O", "every mutation of a persisted field in overlord/state is preceded by State.writing() (in the function, or at every call site of an unexported helper)", 50)
	c.Check(len(persisted) >= 45, "persisted-fields#derived", token.NoPos, fmt.Sprintf("%d persisted fields derived from the MarshalJSON writers", len(persisted)), fmt.Sprintf("only %d persisted fields could be derived from the MarshalJSON writers", len(persisted)))
	custSet := P.FuncObj("overlord/state.customData.set")
	isFreshBase := func(v ssa.Value) bool {
		// stores into an object allocated in this very function (constructor literal)
		switch x := v.(type) {
		case *ssa.Alloc:
			return true
		case *ssa.UnOp:
			_, ok := x.X.(*ssa.Alloc)
			return ok && singleStore(x.X) != nil && isAllocVal(singleStore(x.X))
		}
		return false
	}
	events := func(fn *ssa.Function) []c04Event {
		var out []c04Event
		for _, b := range fn.Blocks {
			for _, in := range b.Instrs {
				switch x := in.(type) {
				case *ssa.Store:
					switch a := x.Addr.(type) {
					case *ssa.FieldAddr:
						if f := fieldOfAddr(a); persisted[f] && !isFreshBase(a.X) {
							out = append(out, c04Event{in, f, "store"})
						}
					case *ssa.IndexAddr:
						if _, f, ok := FieldLoad(a.X); ok && persisted[f] {
							out = append(out, c04Event{in, f, "element store"})
						}
					}
				case *ssa.MapUpdate:
					if _, f, ok := FieldLoad(x.Map); ok && persisted[f] {
						out = append(out, c04Event{in, f, "map insert"})
					}
				case *ssa.Call:
					if bi, ok := x.Call.Value.(*ssa.Builtin); ok && bi.Name() == "delete" {
						if _, f, ok := FieldLoad(x.Call.Args[0]); ok && persisted[f] {
							out = append(out, c04Event{in, f, "map delete"})
						}
					}
					if ToFn(custSet)(x) {
						if _, f, ok := FieldLoad(x.Call.Args[0]); ok && persisted[f] {
							out = append(out, c04Event{in, f, "customData.set"})
						}
					}
				}
			}
		}
		return out
	}
	// must-writers: functions of the package on whose every entry->return path writing() is called
	mustWriter := map[*ssa.Function]bool{}
	isWriting := func(in ssa.Instruction) bool {
		ci, ok := in.(ssa.CallInstruction)
		if !ok {
			return false
		}
		if _, isDefer := in.(*ssa.Defer); isDefer {
			return false
		}
		if _, isGo := in.(*ssa.Go); isGo {
			return false
		}
		if ToFn(writing)(ci) {
			return true
		}
		sf := StaticFn(ci)
		return sf != nil && mustWriter[sf]
	}
	for changed := true; changed; {
		changed = false
		for _, fn := range P.FuncsIn("overlord/state") {
			if mustWriter[fn] || fn.Parent() != nil || len(fn.Blocks) == 0 {
				continue
			}
			q := ReachQ{Fn: fn, CutInstr: isWriting, Sink: func(in ssa.Instruction) bool { _, ok := in.(*ssa.Return); return ok }}
			if !q.Run().Found {
				mustWriter[fn] = true
				changed = true
			}
		}
	}
	// static callers within the package
	callers := map[*ssa.Function][]ssa.CallInstruction{}
	fns := P.FuncsIn("overlord/state")
	for _, fn := range fns {
		for _, b := range fn.Blocks {
			for _, in := range b.Instrs {
				if ci, ok := in.(ssa.CallInstruction); ok {
					if sf := StaticFn(ci); sf != nil {
						callers[sf] = append(callers[sf], ci)
					}
				}
			}
		}
	}
	// underWriting(fn): every call site of the unexported fn is preceded by writing() in its caller (recursively)
	var underWriting func(fn *ssa.Function, depth int, seen map[*ssa.Function]bool) (bool, string)
	underWriting = func(fn *ssa.Function, depth int, seen map[*ssa.Function]bool) (bool, string) {
		if depth > 4 || seen[fn] {
			return false, "call chain too deep"
		}
		seen[fn] = true
		defer delete(seen, fn)
		if fn.Parent() != nil {
			return false, "closure"
		}
		if o := fn.Object(); o == nil || o.Exported() {
			return false, "exported: callable from other packages without writing()"
		}
		cs := callers[fn]
		if len(cs) == 0 {
			return false, "no static caller found"
		}
		for _, ci := range cs {
			caller := ci.Parent()
			if _, ex := c04Exempt[SSAFuncName(caller)]; ex {
				continue
			}
			q := ReachQ{Fn: caller, Sink: SinkIs(ci), CutInstr: isWriting}
			if !q.Run().Found {
				continue
			}
			if ok, _ := underWriting(caller, depth+1, seen); ok {
				continue
			}
			return false, "call site in " + SSAFuncName(caller) + " at " + P.Pos(ci.Pos()) + " is not preceded by writing()"
		}
		return true, ""
	}
	usedExempt := map[string]bool{}
	for _, fn := range fns {
		name := SSAFuncName(fn)
		evs := events(fn)
		if len(evs) == 0 {
			continue
		}
		c.touch(fn)
		if why, ok := c04Exempt[name]; ok {
			usedExempt[name] = true
			c.Holds(name+"#exempt", fn.Pos(), fmt.Sprintf("%d mutation(s) exempt: %s", len(evs), why))
			continue
		}
		perField := map[string]int{}
		for _, ev := range evs {
			perField[ev.field.Name()]++
			construct := fmt.Sprintf("%s#%s-%s#%d", name, strings.ReplaceAll(ev.kind, " ", "-"), ev.field.Name(), perField[ev.field.Name()])
			// special case documented in Prune: deleting entries that are already expired does not change the persisted form
			if name == "overlord/state.(*State).Prune" && (ev.field.Name() == "warnings" || ev.field.Name() == "notices") && ev.kind == "map delete" {
				expW := P.FuncObj("overlord/state.(*Warning).ExpiredBefore")
				expN := P.FuncObj("overlord/state.(*Notice).expired")
				c.Guarded(construct, fn, ev.in, []Clause{{TrueRes("w.ExpiredBefore(now)", true, 0, ToFn(expW)), TrueRes("n.expired(now)", true, 0, ToFn(expN))}}, nil)
				continue
			}
			q := ReachQ{Fn: fn, Sink: SinkIs(ev.in), CutInstr: isWriting}
			r := q.Run()
			c.cur.Blocks += r.Blocks
			c.cur.Edges += r.Edges
			if !r.Found {
				c.Holds(construct, ev.in.Pos(), "writing() precedes the "+ev.kind+" on every path")
				continue
			}
			if ok, why := underWriting(fn, 0, map[*ssa.Function]bool{}); ok {
				c.Holds(construct, ev.in.Pos(), "helper: every call site is preceded by writing()")
			} else {
				c.Violated(construct, ev.in.Pos(), fmt.Sprintf("%s of persisted field %s in %s is reachable without State.writing() (%s): the change may never be checkpointed and is lost on restart; path: %s", ev.kind, ev.field.Name(), name, why, P.PathString(r.Path)))
			}
		}
	}
	var stale []string
	for k := range c04Exempt {
		if !usedExempt[k] {
			stale = append(stale, k)
		}
	}
	sort.Strings(stale)
	c.Check(len(stale) == 0, "exemptions#stale", token.NoPos, "every exemption still matches a function that mutates persisted fields", "stale exemption(s): "+strings.Join(stale, ", "))

	// ---- R2
	c.Rule("C04-R2", "G+W", "State.Unlock: s.modified=false <= backend.Checkpoint(checkpointData())==nil; `modified` is cleared nowhere else except ReadState", 3)
	unlock := P.Func("overlord/state.(*State).Unlock")
	fModified := P.Field("overlord/state.State.modified")
	checkpoint := P.FuncObj("overlord/state.Backend.Checkpoint")
	cpData := P.FuncObj("overlord/state.(*State).checkpointData")
	okCP := NilRes("backend.Checkpoint(data)==nil", 0, CallWhere(ToFn(checkpoint), 0, VRes(0, RecvWhere(ToFn(cpData), VParam(unlock, 0)))))
	nClear := 0
	for _, st := range StoresToField(unlock, fModified) {
		if b, ok := ConstBool(st.Val); ok && !b {
			nClear++
			c.Guarded(fmt.Sprintf("overlord/state.(*State).Unlock#clear-modified#%d", nClear), unlock, st, []Clause{{okCP}}, nil)
		}
	}
	// the checkpoint-and-clear part may live in a private helper that Unlock hands the checkpoint data to
	var cpHelper *ssa.Function
	var cpHelperCall ssa.CallInstruction
	if nClear == 0 {
		for _, b := range unlock.Blocks {
			for _, in := range b.Instrs {
				cc, ok := in.(ssa.CallInstruction)
				if !ok {
					continue
				}
				h := cc.Common().StaticCallee()
				if h == nil || h.Pkg != unlock.Pkg || len(StoresToField(h, fModified)) == 0 || !P.PrivateHelperOf(h, map[string]bool{"overlord/state.(*State).Unlock": true}) {
					continue
				}
				di := -1
				for i, a := range cc.Common().Args {
					if VRes(0, RecvWhere(ToFn(cpData), VParam(unlock, 0)))(a) {
						di = i
					}
				}
				if di < 0 || !VParam(unlock, 0)(cc.Common().Args[0]) {
					continue
				}
				cpHelper, cpHelperCall = h, cc
				okH := NilRes("backend.Checkpoint(data)==nil", 0, CallWhere(ToFn(checkpoint), 0, VParam(h, di)))
				for _, st := range StoresToField(h, fModified) {
					if bv, ok := ConstBool(st.Val); ok && !bv {
						nClear++
						c.Guarded(fmt.Sprintf("overlord/state.(*State).Unlock#clear-modified#%d", nClear), h, st, []Clause{{okH}}, nil)
					}
				}
				// the helper comes back only after a successful checkpoint (or panics)
				hr := 0
				for _, ret := range ReturnsOf(h) {
					hr++
					r := (ReachQ{Fn: h, Sink: SinkIs(ret), CutEdge: AtomEdges(okH), CutInstr: SinkCall(P.FuncObj("logger.Panicf"))}).Run()
					c.Check(!r.Found, fmt.Sprintf("overlord/state.(*State).Unlock#helper-return#%d", hr), ret.Pos(), "the checkpoint helper returns only after a successful checkpoint", "the checkpoint helper of Unlock can return without a successful checkpoint: "+P.PathString(r.Path))
				}
			}
		}
	}
	if nClear == 0 {
		c.Undecided("overlord/state.(*State).Unlock#clear-modified", unlock.Pos(), "Unlock no longer clears the modified flag itself")
	}
	bad := ""
	for _, st := range P.FieldStores(fModified) {
		if b, ok := ConstBool(st.Val); ok && b {
			continue
		}
		nm := SSAFuncName(st.Parent())
		if nm != "overlord/state.(*State).Unlock" && nm != "overlord/state.ReadState" && !P.PrivateHelperOf(st.Parent(), map[string]bool{"overlord/state.(*State).Unlock": true}) {
			bad += " " + nm + "@" + P.Pos(st.Pos())
		}
	}
	c.Check(bad == "", "overlord/state.State.modified#clearers", fModified.Pos(), "cleared only by Unlock (after a successful checkpoint) and ReadState (fresh load)", "modified flag cleared in"+bad+": pending changes would never be checkpointed")
	// Unlock checkpoints whenever modified (no other early return)
	for i, lf := range ReturnsOf(unlock) {
		_ = lf
		_ = i
	}
	fBackend := P.Field("overlord/state.State.backend")
	notDirty := Atom{Name: "!s.modified", Match: func(cd Cond) Pol { return cd.BoolIs(VField(fModified)).Flip() }}
	noBackend := Cmp("s.backend==nil", VField(fBackend), token.EQL, isNilVal)
	nret := 0
	for _, ret := range ReturnsOf(unlock) {
		nret++
		cutI := SinkCall(P.FuncObj("logger.Panicf"))
		if cpHelper != nil {
			panicf := cutI
			cutI = func(in ssa.Instruction) bool {
				return panicf(in) || in == ssa.Instruction(cpHelperCall.(ssa.Instruction))
			}
		}
		q := ReachQ{Fn: unlock, Sink: SinkIs(ret), CutEdge: AtomEdges(notDirty, noBackend, okCP), CutInstr: cutI}
		r := q.Run()
		c.Check(!r.Found, fmt.Sprintf("overlord/state.(*State).Unlock#return#%d", nret), ret.Pos(), "Unlock returns only when nothing was modified, there is no backend, or the checkpoint succeeded", "Unlock can return with modifications pending and no successful checkpoint: "+P.PathString(r.Path))
	}

	// ---- R3
	c.Rule("C04-R3", "O", "task completion closure: handler call precedes state.Lock; every status store follows Lock; Unlock is deferred", 4)
	run := P.Func("overlord/state.(*TaskRunner).run")
	stateLock := P.FuncObj("overlord/state.(*State).Lock")
	stateUnlock := P.FuncObj("overlord/state.(*State).Unlock")
	handlerT := P.NamedType("overlord/state.HandlerFunc")
	isHandlerCall := func(in ssa.Instruction) bool {
		ci, ok := in.(ssa.CallInstruction)
		if !ok || ci.Common().IsInvoke() || ci.Common().StaticCallee() != nil {
			return false
		}
		return types.Identical(ci.Common().Value.Type(), handlerT)
	}
	for _, cl := range run.AnonFuncs {
		locks := CallSites(cl, stateLock)
		if len(locks) == 0 {
			continue
		}
		for i, lk := range locks {
			if _, isDefer := lk.(*ssa.Defer); isDefer {
				continue
			}
			c.Before(fmt.Sprintf("overlord/state.(*TaskRunner).run$1#handler-before-lock#%d", i+1), cl, isHandlerCall, "handler(t, tomb)", lk, nil)
		}
		isLock := func(in ssa.Instruction) bool {
			if _, isDefer := in.(*ssa.Defer); isDefer {
				return false
			}
			_, ok := IsCallTo(in, stateLock)
			return ok
		}
		k := 0
		for _, sc := range append(CallSites(cl, P.FuncObj("overlord/state.(*Task).SetStatus")), CallSites(cl, P.FuncObj("overlord/state.(*Task).SetToWait"))...) {
			k++
			c.Before(fmt.Sprintf("overlord/state.(*TaskRunner).run$1#status-under-lock#%d", k), cl, isLock, "r.state.Lock()", sc, nil)
		}
		hasDeferUnlock := false
		for _, b := range cl.Blocks {
			for _, in := range b.Instrs {
				if d, ok := in.(*ssa.Defer); ok && ToFn(stateUnlock)(d) {
					hasDeferUnlock = true
				}
			}
		}
		c.Check(hasDeferUnlock, "overlord/state.(*TaskRunner).run$1#deferred-unlock", cl.Pos(), "the state Unlock (and with it the checkpoint) is deferred", "the completion closure does not defer state.Unlock: the new status may never be checkpointed")
	}

	// ---- R6
	c.Rule("C04-R6", "G", "task completion closure: while the runner is stopping, a plain handler error never becomes Error status (SetStatus(Error) / abortLanes <= !r.stopped): the interrupted do or undo is retried after the restart", 2)
	fStopped := P.Field("overlord/state.TaskRunner.stopped")
	notStopped := Atom{Name: "!r.stopped", Match: func(cd Cond) Pol { return cd.BoolIs(VField(fStopped)).Flip() }}
	cErrSt := P.Const("overlord/state.ErrorStatus")
	// paths on which the first switch on tomb.Err() preserved the value (nil, *Retry, *Wait) cannot
	// reach the error branch of the second switch (same value): they count as gated
	tombErr := VRes(0, ToFn(P.FuncObj("gopkg.in/tomb.v2.(*Tomb).Err")))
	preserved := Clause{notStopped,
		Cmp("tomb.Err()==nil", tombErr, token.EQL, isNilVal),
		TypeIs("tomb.Err().(*Retry)", tombErr, types.NewPointer(P.NamedType("overlord/state.Retry"))),
		TypeIs("tomb.Err().(*Wait)", tombErr, types.NewPointer(P.NamedType("overlord/state.Wait"))),
	}
	// ... and a path that replaced the error by a freshly made &Retry{} takes the *Retry arm
	retryPtr := types.NewPointer(P.NamedType("overlord/state.Retry"))
	madeRetry := &GOpt{CutInstr: func(in ssa.Instruction) bool {
		mi, ok := in.(*ssa.MakeInterface)
		return ok && types.Identical(mi.X.Type(), retryPtr)
	}}
	nErr := 0
	for _, cl := range run.AnonFuncs {
		for _, sc := range CallSites(cl, P.FuncObj("overlord/state.(*Task).SetStatus")) {
			if !VConstObj(cErrSt)(CallArgs(sc)[0]) {
				continue
			}
			nErr++
			c.Guarded(fmt.Sprintf("overlord/state.(*TaskRunner).run$1#error-status<=not-stopping#%d", nErr), cl, sc, []Clause{preserved}, madeRetry)
		}
		for i, ac := range CallSites(cl, P.FuncObj("overlord/state.(*TaskRunner).abortLanes")) {
			nErr++
			c.Guarded(fmt.Sprintf("overlord/state.(*TaskRunner).run$1#abort-lanes<=not-stopping#%d", i+1), cl, ac, []Clause{preserved}, madeRetry)
		}
	}
	if nErr == 0 {
		c.Undecided("overlord/state.(*TaskRunner).run$1#error-branch", run.Pos(), "no SetStatus(ErrorStatus)/abortLanes found in run's closures")
	}

	// ---- R4
	c.Rule("C04-R4", "T", "Ensure: the statuses that can reach r.run(t) include Doing and Undoing (interrupted tasks are run again) and exclude every ready status and Wait (finished tasks are not)", 1)
	ts := NewTS(P)
	ens := P.Func("overlord/state.(*TaskRunner).Ensure")
	runObj := P.FuncObj("overlord/state.(*TaskRunner).run")
	fBlockedPreds := P.Field("overlord/state.TaskRunner.blocked")
	ts.PureDyn = func(ci ssa.CallInstruction) bool {
		// the blocked predicates (elements of r.blocked) are assumed not to change statuses
		for _, rl := range LoopsOver(ens, VField(fBlockedPreds)) {
			if rl.Elem != nil && Strip(ci.Common().Value) == Strip(rl.Elem) {
				return true
			}
		}
		return false
	}
	for _, rc := range CallSites(ens, runObj) {
		key := TaskKey(CallArgs(rc)[0])
		_, at := ts.Analyze(ens, key, ts.All)
		cur := at[rc]
		need := ts.Bit("Do") | ts.Bit("Doing") | ts.Bit("Undo") | ts.Bit("Undoing")
		forbid := ts.Ready | ts.Bit("Wait")
		c.Check(cur&need == need && cur&forbid == 0, "overlord/state.(*TaskRunner).Ensure#statuses-reaching-run", rc.Pos(), "statuses that can reach run: "+ts.SetString(cur), fmt.Sprintf("statuses that can reach r.run(t) are %s; they must include %s and exclude %s", ts.SetString(cur), ts.SetString(need), ts.SetString(forbid)))
	}

	// ---- R5
	c.Rule("C04-R5", "W", "overlord.New builds the state on overlordStateBackend{path: dirs.SnapStateFile}; loadState hands that backend to state.New / state.ReadState", 3)
	onew := P.Func("overlord.New")
	loadState := P.FuncObj("overlord.(*Overlord).loadState")
	fPath := P.Field("overlord.overlordStateBackend.path")
	okBackend := false
	for _, lc := range CallSites(onew, loadState) {
		a := CallArgs(lc)
		if al, ok := stripNoCell(a[0]).(*ssa.Alloc); ok {
			for _, r := range *al.Referrers() {
				if fa, ok := r.(*ssa.FieldAddr); ok && fieldOfAddr(fa) == fPath {
					for _, r2 := range *fa.Referrers() {
						if st, ok := r2.(*ssa.Store); ok && VGlobal(P.Global("dirs.SnapStateFile"))(st.Val) {
							okBackend = true
						}
					}
				}
			}
		}
	}
	c.Check(okBackend, "overlord.New#backend", onew.Pos(), "the state backend is overlordStateBackend{path: dirs.SnapStateFile}", "overlord.New no longer loads the state with the atomic-write backend on dirs.SnapStateFile")
	ls := P.Func("overlord.(*Overlord).loadState")
	for _, n := range []string{"overlord/state.New", "overlord/state.ReadState"} {
		var cs []ssa.CallInstruction
		for _, f := range append([]*ssa.Function{ls}, ls.AnonFuncs...) {
			cs = append(cs, CallSites(f, P.FuncObj(n))...)
		}
		ok := len(cs) >= 1
		for _, ci := range cs {
			if !ResolvesToParam(ci.Common().Args[0], ls, 1) {
				ok = false
			}
		}
		c.Check(ok, "overlord.(*Overlord).loadState#"+n, ls.Pos(), n+" receives the backend given to loadState", n+" is not given loadState's backend: the state would not be checkpointed to the state file")
	}

	// ---- R7
	c.Rule("C04-R7", "O", "Overlord.Stop: the state lock file is released only after the state engine (managers, task runner, in-flight handlers and their checkpoints) has stopped; loadState takes the lock before reading the state", 3)
	ostop := P.Func("overlord.(*Overlord).Stop")
	engStop := P.FuncObj("overlord.(*StateEngine).Stop")
	flClose := P.FuncObj("osutil.(*FileLock).Close")
	closes := CallSites(ostop, flClose)
	if len(closes) == 0 || len(CallSites(ostop, engStop)) == 0 {
		c.Undecided("overlord.(*Overlord).Stop#lock-released-last", ostop.Pos(), "expected stateEng.Stop() and stateFLock.Close() in Overlord.Stop")
	}
	for i, cl := range closes {
		c.Before(fmt.Sprintf("overlord.(*Overlord).Stop#lock-released-last#%d", i+1), ostop, SinkCall(engStop), "o.stateEng.Stop()", cl, nil)
	}
	// the successor holds the lock before it opens (or creates) the state
	lockTO := P.FuncObj("overlord.lockWithTimeout")
	locked := OkCall("lockWithTimeout ok", lockTO)
	nL := 0
	for _, obj := range []*types.Func{P.FuncObj("os.Open"), P.FuncObj("overlord/state.New")} {
		for _, ci := range CallSites(ls, obj) {
			nL++
			c.Guarded(fmt.Sprintf("overlord.(*Overlord).loadState#%s<=state-lock-held#%d", obj.Name(), nL), ls, ci, []Clause{{locked}}, nil)
		}
	}
	if nL < 2 {
		c.Undecided("overlord.(*Overlord).loadState#state-lock-held", ls.Pos(), "expected os.Open(dirs.SnapStateFile) and state.New in loadState")
	}
}

func isAllocVal(v ssa.Value) bool {
	_, ok := v.(*ssa.Alloc)
	return ok
}
