package main

import (
	"fmt"
	"go/token"
	"go/types"

	"golang.org/x/tools/go/ssa"
)

func init() {
	register(&Property{
		ID:          "C38",
		Roots:       []string{"gadget", "gadget/install"},
		Technique:   "must-call on every accepting path of validateVolume and its callers; accumulator provenance and sibling agreement between validateCrossVolumeStructure and OnDiskStructsFromGadget (SSA); per-iteration gates in layOutStructureContent (loop latch gating on the CFG); unsignedness of quantity.Offset/Size (types)",
		Explanation: "Structural necessary conditions of 'accepted gadget volumes lay out into disjoint structures' (the arithmetic over all volume definitions is not decided): (R1) validateVolume accepts only with the verdict of validateCrossVolumeStructure on the same volume, and every caller fails when it fails; (R2) validateCrossVolumeStructure tracks the end of the previous structure as offset+Size (explicit offset) or previous end+Size (implicit), refuses an explicit offset below it, and OnDiskStructsFromGadget - which places the structures - advances by the same field (Size) and starts each structure at the explicit offset or the running end; (R3) layOutStructureContent checks on every iteration that the content placed ends inside the structure (the check gates the loop's back edge and exit), places content at structure start + offset, and after sorting refuses content starting before the end of the preceding one; (R4) offsets and sizes are unsigned quantities, so 'non-negative offset' holds by type.",
		NotDecided:  "absence of overflow in offset+size; min-size/partial-size volumes after installer finalisation (ApplyInstallerVolumesToGadget) beyond the validateVolume call; filesystem content.",
		Run:         func(c *Ctx) { runC38(c); runC38z(c) },
	})
}

func runC38(c *Ctx) {
	P := c.P
	pkg := "gadget"
	vs := func(f string) *types.Var { return P.Field(pkg + ".VolumeStructure." + f) }
	fSize, fMinSize, fOffset := vs("Size"), vs("MinSize"), vs("Offset")

	// ---- R1
	c.Rule("C38-R1", "W+G", "validateVolume accepts only through validateCrossVolumeStructure(vol); callers propagate its error", 3)
	vv := P.Func(pkg + ".validateVolume")
	vvObj := P.FuncObj(pkg + ".validateVolume")
	crossObj := P.FuncObj(pkg + ".validateCrossVolumeStructure")
	n := 0
	for _, lf := range ReturnLeaves(vv, 0) {
		if IsNilConst(lf.Val) {
			n++
			c.GuardedFlow(fmt.Sprintf("%s.validateVolume#accepts-without-cross-check#%d", pkg, n), vv, lf,
				[]Clause{{OkCall("validateCrossVolumeStructure(vol)==nil", crossObj)}}, &GOpt{NoVacuity: true})
			continue
		}
		if cc, _, ok := CallResult(lf.Val); ok && ToFn(crossObj)(cc) {
			n++
			c.Check(VParam(vv, 0)(cc.Common().Args[0]), fmt.Sprintf("%s.validateVolume#cross-check-verdict#%d", pkg, n), cc.Pos(), "validateCrossVolumeStructure(vol)", "the cross-structure check is run on another volume")
		}
	}
	if n == 0 {
		c.Undecided(pkg+".validateVolume#cross-check-verdict", vv.Pos(), "validateCrossVolumeStructure's verdict is not returned")
	}
	for _, u := range P.UsesOf(vvObj) {
		fn := u.Fn
		cc, ok := u.Instr.(ssa.CallInstruction)
		if !ok || fn == nil {
			c.Undecided(pkg+".validateVolume#used-as-value", vv.Pos(), "validateVolume is used other than by a direct call")
			continue
		}
		failed := Not(NilRes("validateVolume ok", 0, func(ci ssa.CallInstruction) bool { return ci == cc }))
		okProp, found := true, 0
		for _, b := range fn.Blocks {
			for si := range b.Succs {
				if AtomEdges(failed)(b, si) {
					found++
					if (ReachQ{Fn: fn, From: &Loc{b.Succs[si], -1}, Sink: IsSuccessReturn}).Run().Found {
						okProp = false
					}
				}
			}
		}
		c.touch(fn)
		c.Check(okProp && found > 0, fmt.Sprintf("%s#validateVolume-error-propagated", SSAFuncName(fn)), cc.Pos(), "a refused volume fails the caller", "the caller can succeed although validateVolume refused the volume")
	}

	// ---- R2
	c.Rule("C38-R2", "W+S", "previous end = offset+Size | previous end+Size; explicit offset below it refused; OnDiskStructsFromGadget advances by the same field", 7)
	cross := P.Func(pkg + ".validateCrossVolumeStructure")
	isOffsetVal := func(v ssa.Value) bool { // *(ps.Offset)
		u, ok := Strip(v).(*ssa.UnOp)
		return ok && u.Op == token.MUL && VField(fOffset)(u.X)
	}
	var cmp *ssa.BinOp
	for _, b := range cross.Blocks {
		for _, in := range b.Instrs {
			if bo, ok := in.(*ssa.BinOp); ok && (bo.Op == token.LSS || bo.Op == token.GTR) {
				if _, isPhi := Strip(bo.Y).(*ssa.Phi); isPhi && isOffsetVal(bo.X) && bo.Op == token.LSS {
					cmp = bo
				}
				if _, isPhi := Strip(bo.X).(*ssa.Phi); isPhi && isOffsetVal(bo.Y) && bo.Op == token.GTR {
					cmp = bo
				}
			}
		}
	}
	checkAdvance := func(fnName string, fn *ssa.Function, acc *ssa.Phi) {
		var leaves []FlowPoint
		phiLeaves(acc, nil, &leaves, map[*ssa.Phi]bool{})
		adv := 0
		for i, lf := range leaves {
			key := fmt.Sprintf("%s.%s#running-end#%d", pkg, fnName, i+1)
			if k, ok := ConstInt(lf.Val); ok && k == 0 {
				continue
			}
			if isOffsetVal(lf.Val) {
				// the explicit offset replaces the running offset (OnDiskStructsFromGadget)
				c.Holds(key+"-explicit", lf.Pos(), "explicit offset")
				continue
			}
			bo, ok := Strip(lf.Val).(*ssa.BinOp)
			if !ok || bo.Op != token.ADD {
				c.Violated(key, lf.Pos(), "the running end of the previous structure is not advanced by an addition")
				continue
			}
			adv++
			direct := func(f *types.Var) func(ssa.Value) bool {
				return func(v ssa.Value) bool {
					v = Strip(v)
					if cv, ok := v.(*ssa.Convert); ok {
						v = Strip(cv.X)
					}
					return VField(f)(v)
				}
			}
			bySize := direct(fSize)(bo.Y) || direct(fSize)(bo.X)
			c.Check(bySize, key+"-advances-by-Size", bo.Pos(), "end = start + Size", "the running end is advanced by something other than the structure's Size (validation and placement must agree, or accepted volumes lay out overlapping)")
			base := bo.X
			if direct(fSize)(bo.X) || direct(fMinSize)(bo.X) {
				base = bo.Y
			}
			okBase := isOffsetVal(base) || DependsOn(base, VIs(acc)) || DependsOn(base, isOffsetVal)
			c.Check(okBase, key+"-from-offset-or-previous-end", bo.Pos(), "start is the explicit offset or the previous end", "the running end is not computed from the explicit offset or the previous end")
		}
		if adv == 0 {
			c.Undecided(fmt.Sprintf("%s.%s#running-end", pkg, fnName), fn.Pos(), "no advance of the running end found")
		}
		// every iteration advances: what flows back into the loop header is a sum on every path
		hb := acc.Block()
		for i, e := range acc.Edges {
			if !hb.Dominates(hb.Preds[i]) {
				continue // loop entry
			}
			var back []FlowPoint
			seen := map[*ssa.Phi]bool{acc: true}
			stale := false
			var walk func(v ssa.Value)
			walk = func(v ssa.Value) {
				v = Strip(v)
				if v == ssa.Value(acc) {
					stale = true
					return
				}
				if ph, ok := v.(*ssa.Phi); ok {
					if seen[ph] {
						return
					}
					seen[ph] = true
					for _, e2 := range ph.Edges {
						walk(e2)
					}
					return
				}
				back = append(back, FlowPoint{Val: v})
			}
			walk(e)
			for _, lf := range back {
				if bo, ok := lf.Val.(*ssa.BinOp); !ok || bo.Op != token.ADD {
					stale = true
				}
			}
			hpos := hb.Instrs[len(hb.Instrs)-1].Pos()
			if !hpos.IsValid() {
				hpos = fn.Pos()
			}
			c.Check(!stale, fmt.Sprintf("%s.%s#running-end-advanced-every-iteration", pkg, fnName), hpos, "the next iteration always sees start+Size of this one", "an iteration can hand the running end on without adding the structure's Size (conditional advance): the next structure without an explicit offset is placed over this one")
		}
	}
	if cmp == nil {
		c.Undecided(pkg+".validateCrossVolumeStructure#overlap-check", cross.Pos(), "the comparison of an explicit offset with the previous end was not found")
	} else {
		var acc *ssa.Phi
		if ph, ok := Strip(cmp.Y).(*ssa.Phi); ok {
			acc = ph
		} else {
			acc = Strip(cmp.X).(*ssa.Phi)
		}
		below := Atom{Name: "offset < previous end", Match: func(cd Cond) Pol {
			if cd.Bin != cmp {
				return PolNone
			}
			if cd.Neg {
				return PolFalse
			}
			return PolTrue
		}}
		okR, found := true, 0
		for _, b := range cross.Blocks {
			for si := range b.Succs {
				if AtomEdges(below)(b, si) {
					found++
					if (ReachQ{Fn: cross, From: &Loc{b.Succs[si], -1}, Sink: IsSuccessReturn}).Run().Found {
						okR = false
					}
				}
			}
		}
		c.Check(okR && found > 0, pkg+".validateCrossVolumeStructure#overlap-refused", cmp.Pos(), "offset < previous end => error", "a structure starting before the end of the preceding one is not refused")
		// the comparison is made for every structure with an explicit offset
		for _, rl := range LoopsOver(cross, VField(P.Field(pkg+".Volume.Structure"))) {
			if rl.Body != nil && rl.Body.Dominates(cmp.Block()) {
				hasOffset := Atom{Name: "ps.Offset==nil", Match: func(cd Cond) Pol { return cd.CmpIs(token.EQL, VField(fOffset), isNilVal) }}
				c.LatchGated(pkg+".validateCrossVolumeStructure#every-explicit-offset-compared", rl, []Clause{{hasOffset, below, Not(below)}})
			}
		}
		checkAdvance("validateCrossVolumeStructure", cross, acc)
	}
	// the placing side
	ods := P.Func(pkg + ".OnDiskStructsFromGadget")
	fStart := P.Field(pkg + ".OnDiskStructure.StartOffset")
	sts := StoresToField(ods, fStart)
	if len(sts) != 1 {
		c.Undecided(pkg+".OnDiskStructsFromGadget#start-offset", ods.Pos(), fmt.Sprintf("expected one StartOffset store, found %d", len(sts)))
	} else {
		ph, ok := Strip(sts[0].Val).(*ssa.Phi)
		if !ok {
			c.Undecided(pkg+".OnDiskStructsFromGadget#start-offset", sts[0].Pos(), "the start offset is not the running offset")
		} else {
			// the running offset at the loop header
			var leaves []FlowPoint
			phiLeaves(ph, nil, &leaves, map[*ssa.Phi]bool{})
			var hdr *ssa.Phi
			for _, lf := range leaves {
				_ = lf
			}
			for _, e := range ph.Edges {
				if p2, ok := Strip(e).(*ssa.Phi); ok {
					hdr = p2
				}
			}
			if hdr == nil {
				hdr = ph
			}
			checkAdvance("OnDiskStructsFromGadget", ods, hdr)
			okExp := false
			for _, e := range ph.Edges {
				if isOffsetVal(e) {
					okExp = true
				}
			}
			c.Check(okExp, pkg+".OnDiskStructsFromGadget#explicit-offset-honoured", sts[0].Pos(), "explicit offset used when present", "the explicit offset of a structure is not used for its placement")
		}
	}

	// ---- R3
	c.Rule("C38-R3", "G", "layOutStructureContent: per-content fit check gates the loop; content start = structure start + offset; sorted content overlap refused", 4)
	lo := P.Func(pkg + ".layOutStructureContent")
	fLoStruct := P.Field(pkg + ".LaidOutStructure.VolumeStructure")
	_ = fLoStruct
	fContent := vs("Content")
	isStructSize := func(v ssa.Value) bool { return VField(fSize)(v) }
	var fitCmp *ssa.BinOp
	for _, b := range lo.Blocks {
		for _, in := range b.Instrs {
			if bo, ok := in.(*ssa.BinOp); ok && bo.Op == token.GTR && isStructSize(bo.Y) {
				fitCmp = bo
			}
			if bo, ok := in.(*ssa.BinOp); ok && bo.Op == token.LSS && isStructSize(bo.X) {
				fitCmp = bo
			}
		}
	}
	loops := LoopsOver(lo, VField(fContent))
	if fitCmp == nil || len(loops) == 0 {
		c.Undecided(pkg+".layOutStructureContent#fit-check", lo.Pos(), "the comparison of the content end with the structure size, or the loop over the content, was not found")
	} else {
		over := Atom{Name: "content end > structure size", Match: func(cd Cond) Pol {
			if cd.Bin != fitCmp {
				return PolNone
			}
			if cd.Neg {
				return PolFalse
			}
			return PolTrue
		}}
		c.LatchGated(pkg+".layOutStructureContent#fit-checked-every-iteration", loops[0], []Clause{{Not(over)}})
		okR, found := true, 0
		for _, b := range lo.Blocks {
			for si := range b.Succs {
				if AtomEdges(over)(b, si) {
					found++
					if (ReachQ{Fn: lo, From: &Loc{b.Succs[si], -1}, Sink: IsSuccessReturn}).Run().Found {
						okR = false
					}
				}
			}
		}
		c.Check(okR && found > 0, pkg+".layOutStructureContent#oversized-content-refused", fitCmp.Pos(), "content past the structure end => error", "content that does not fit in its structure is not refused")
		// the compared end is start + size of this content
		end := fitCmp.X
		if isStructSize(fitCmp.X) {
			end = fitCmp.Y
		}
		bo, ok := Strip(end).(*ssa.BinOp)
		c.Check(ok && bo.Op == token.ADD, pkg+".layOutStructureContent#end-is-start-plus-size", fitCmp.Pos(), "end = start + size", "the end compared with the structure size is not start + size of the content")
	}
	// content start offset = ps.StartOffset + start
	fCStart := P.Field(pkg + ".LaidOutContent.StartOffset")
	fSStart := P.Field(pkg + ".OnDiskStructure.StartOffset")
	cs := StoresToField(lo, fCStart)
	if len(cs) != 1 {
		c.Undecided(pkg+".layOutStructureContent#content-start", lo.Pos(), fmt.Sprintf("expected one store of the content start offset, found %d", len(cs)))
	} else {
		bo, ok := Strip(cs[0].Val).(*ssa.BinOp)
		c.Check(ok && bo.Op == token.ADD && (VField(fSStart)(bo.X) || VField(fSStart)(bo.Y)), pkg+".layOutStructureContent#content-start", cs[0].Pos(), "structure start + offset within the structure", "the content start is not the structure start plus the offset inside the structure")
	}
	// second loop: overlap among sorted content
	var ovl *ssa.BinOp
	ovlFn := lo
	for _, sf := range append([]*ssa.Function{lo}, P.LocalCallees(lo)...) {
		for _, b := range sf.Blocks {
			for _, in := range b.Instrs {
				if bo, ok := in.(*ssa.BinOp); ok && bo.Op == token.LSS && VField(fCStart)(bo.X) && ovl == nil {
					if _, isPhi := Strip(bo.Y).(*ssa.Phi); isPhi {
						ovl, ovlFn = bo, sf
					}
				}
			}
		}
	}
	if ovl != nil && ovlFn != lo {
		// the check over the sorted content sits in a helper: overlap is refused there, the helper's
		// refusal fails layOutStructureContent, and the content is sorted before the helper runs
		c.touch(ovlFn)
		at := Atom{Name: "content start < previous end", Match: func(cd Cond) Pol {
			if cd.Bin != ovl {
				return PolNone
			}
			if cd.Neg {
				return PolFalse
			}
			return PolTrue
		}}
		okR, found := true, 0
		for _, b := range ovlFn.Blocks {
			for si := range b.Succs {
				if AtomEdges(at)(b, si) {
					found++
					if (ReachQ{Fn: ovlFn, From: &Loc{b.Succs[si], -1}, Sink: IsSuccessReturn}).Run().Found {
						okR = false
					}
				}
			}
		}
		c.Check(okR && found > 0, pkg+".layOutStructureContent#content-overlap-refused", ovl.Pos(), "overlapping content => error", "overlapping content images are not refused")
		var hcalls []ssa.CallInstruction
		for _, b := range lo.Blocks {
			for _, in := range b.Instrs {
				if cc, ok := in.(ssa.CallInstruction); ok && cc.Common().StaticCallee() == ovlFn {
					hcalls = append(hcalls, cc)
				}
			}
		}
		sortCalls := CallSites(lo, P.FuncObj("sort.Sort"))
		if len(hcalls) == 1 && len(sortCalls) == 1 {
			c.CheckErrPropagated(pkg+".layOutStructureContent#content-overlap-helper-error", lo, hcalls[0], ovlFn.Signature.Results().Len()-1, ovlFn.Name())
			c.Before(pkg+".layOutStructureContent#sorted-before-overlap-check", lo, SinkIs(sortCalls[0]), "sort.Sort(byContentStartOffset)", hcalls[0], nil)
		} else {
			c.Undecided(pkg+".layOutStructureContent#sorted-before-overlap-check", lo.Pos(), "expected one sort.Sort call and one call of the overlap helper")
		}
	} else if ovl == nil {
		c.Undecided(pkg+".layOutStructureContent#content-overlap", lo.Pos(), "the overlap comparison among the sorted content was not found")
	} else {
		at := Atom{Name: "content start < previous end", Match: func(cd Cond) Pol {
			if cd.Bin != ovl {
				return PolNone
			}
			if cd.Neg {
				return PolFalse
			}
			return PolTrue
		}}
		okR, found := true, 0
		for _, b := range lo.Blocks {
			for si := range b.Succs {
				if AtomEdges(at)(b, si) {
					found++
					if (ReachQ{Fn: lo, From: &Loc{b.Succs[si], -1}, Sink: IsSuccessReturn}).Run().Found {
						okR = false
					}
				}
			}
		}
		c.Check(okR && found > 0, pkg+".layOutStructureContent#content-overlap-refused", ovl.Pos(), "overlapping content => error", "overlapping content images are not refused")
		sortCalls := CallSites(lo, P.FuncObj("sort.Sort"))
		if len(sortCalls) == 1 {
			c.Before(pkg+".layOutStructureContent#sorted-before-overlap-check", lo, SinkIs(sortCalls[0]), "sort.Sort(byContentStartOffset)", ovl, nil)
		} else {
			c.Undecided(pkg+".layOutStructureContent#sorted-before-overlap-check", lo.Pos(), "expected one sort.Sort call")
		}
	}

	// ---- R5
	c.Rule("C38-R5", "W", "EnsureVolumeCompatibility: every iteration that records where a structure is advances the 'previous structure' tracker used to place offset-less bare structures", 2)
	evc := P.Func(pkg + ".EnsureVolumeCompatibility")
	var hdrLoops []*RangeLoop
	for _, rl := range LoopsOver(evc, VField(P.Field(pkg+".Volume.Structure"))) {
		hdrLoops = append(hdrLoops, rl)
	}
	nRec := 0
	for _, rl := range hdrLoops {
		// placements recorded in this loop
		var recs []*ssa.MapUpdate
		for _, b := range evc.Blocks {
			if rl.Body == nil || !rl.Body.Dominates(b) {
				continue
			}
			for _, in := range b.Instrs {
				if mu, ok := in.(*ssa.MapUpdate); ok {
					if pt, isP := mu.Value.Type().(*types.Pointer); isP && types.Identical(pt.Elem(), P.NamedType(pkg+".OnDiskStructure")) {
						recs = append(recs, mu)
					}
				}
			}
		}
		if len(recs) == 0 {
			continue
		}
		// the loop-carried trackers: header phis other than the range index
		var trackers []*ssa.Phi
		for _, in := range rl.Header.Instrs {
			if ph, ok := in.(*ssa.Phi); ok && ph != rl.Index && ssa.Value(ph) != rl.Index {
				if bt, isB := ph.Type().Underlying().(*types.Basic); isB && bt.Kind() == types.Int {
					continue // the range index
				}
				trackers = append(trackers, ph)
			}
		}
		if len(trackers) == 0 {
			c.Undecided(pkg+".EnsureVolumeCompatibility#tracker", evc.Pos(), "no loop-carried 'previous structure' value found although offset-less structures are placed after it")
			continue
		}
		for _, mu := range recs {
			nRec++
			okAdv := true
			where := ""
			for _, ph := range trackers {
				for i, pred := range rl.Header.Preds {
					if !rl.Body.Dominates(pred) {
						continue // loop entry
					}
					// is this back edge reachable from the recording without passing the header?
					r := ReachQ{Fn: evc, From: LocOf(mu), CutInstr: func(in ssa.Instruction) bool { return in.Block() == rl.Header }, SinkEdge: func(b *ssa.BasicBlock, s int) bool { return b == pred && b.Succs[s] == rl.Header }}.Run()
					if !r.Found {
						continue
					}
					if Strip(ph.Edges[i]) == ssa.Value(ph) {
						okAdv = false
						where = c.P.Pos(mu.Pos())
					}
				}
			}
			c.Check(okAdv, fmt.Sprintf("%s.EnsureVolumeCompatibility#placement-advances-tracker#%d", pkg, nRec), mu.Pos(), "the tracker is updated in the iteration that records a placement", "a structure is recorded in the gadget-to-disk map ("+where+") but the 'previous structure' value carried to the next iteration is left unchanged: the next offset-less bare structure is placed on top of it")
		}
	}
	if nRec == 0 {
		c.Undecided(pkg+".EnsureVolumeCompatibility#placements", evc.Pos(), "no placement recorded in a loop over the gadget structures")
	}

	// ---- R4
	c.Rule("C38-R4", "K", "quantity.Offset and quantity.Size are unsigned", 2)
	for _, tn := range []string{"gadget/quantity.Offset", "gadget/quantity.Size"} {
		nt := P.NamedType(tn)
		bt, ok := nt.Underlying().(*types.Basic)
		c.Check(ok && bt.Info()&types.IsUnsigned != 0, tn+"#unsigned", nt.Obj().Pos(), "unsigned integer", tn+" is no longer an unsigned integer: negative offsets become representable")
	}
}
