package main

import (
	"fmt"
	"go/ast"
	"go/constant"
	"go/token"
	"go/types"

	"golang.org/x/tools/go/ssa"
)

// FlowPoint is a place where a leaf value enters a returned (or otherwise
// observed) value: either directly at an instruction or on the CFG edge through
// which it enters a phi.
type FlowPoint struct {
	Val      ssa.Value
	Instr    ssa.Instruction
	EdgeFrom *ssa.BasicBlock
	EdgeSucc int
}

func (fp FlowPoint) Pos() token.Pos {
	if fp.Instr != nil {
		if fp.Instr.Pos().IsValid() {
			return fp.Instr.Pos()
		}
	}
	if fp.EdgeFrom != nil {
		for i := len(fp.EdgeFrom.Instrs) - 1; i >= 0; i-- {
			if p := fp.EdgeFrom.Instrs[i].Pos(); p.IsValid() {
				return p
			}
		}
	}
	if fp.Val != nil {
		return fp.Val.Pos()
	}
	return token.NoPos
}

func succIndex(from, to *ssa.BasicBlock, nth int) int {
	k := 0
	for i, s := range from.Succs {
		if s == to {
			if k == nth {
				return i
			}
			k++
		}
	}
	return -1
}

// phiLeaves expands v through phis into leaf values with the edge at which each enters.
func phiLeaves(v ssa.Value, at ssa.Instruction, out *[]FlowPoint, seen map[*ssa.Phi]bool) {
	v = stripNoCell(v)
	phi, ok := v.(*ssa.Phi)
	if !ok {
		*out = append(*out, FlowPoint{Val: v, Instr: at})
		return
	}
	if seen[phi] {
		return
	}
	seen[phi] = true
	blk := phi.Block()
	dup := map[*ssa.BasicBlock]int{}
	for i, e := range phi.Edges {
		pred := blk.Preds[i]
		nth := dup[pred]
		dup[pred]++
		ev := stripNoCell(e)
		if p2, ok := ev.(*ssa.Phi); ok {
			phiLeaves(p2, nil, out, seen)
			continue
		}
		*out = append(*out, FlowPoint{Val: ev, EdgeFrom: pred, EdgeSucc: succIndex(pred, blk, nth)})
	}
}

func stripNoCell(v ssa.Value) ssa.Value {
	for {
		switch x := v.(type) {
		case *ssa.ChangeType:
			v = x.X
		case *ssa.MakeInterface:
			v = x.X
		case *ssa.ChangeInterface:
			v = x.X
		default:
			return v
		}
	}
}

// ReturnLeaves lists, for result index idx (negative: last), every leaf value a Return may yield.
func ReturnLeaves(fn *ssa.Function, idx int) []FlowPoint {
	var out []FlowPoint
	cellSeen := map[*ssa.Store]bool{}
	for _, r := range ReturnsOf(fn) {
		i := idx
		if i < 0 {
			i = len(r.Results) - 1
		}
		if i < 0 || i >= len(r.Results) {
			continue
		}
		res := stripNoCell(r.Results[i])
		// defer-spilled / named results: the Return loads a result cell; every
		// store into the cell is a place where a value may be returned from.
		if ld, ok := res.(*ssa.UnOp); ok && ld.Op == token.MUL {
			if al, ok := ld.X.(*ssa.Alloc); ok {
				if stores, ok := cellStores(al); ok {
					for _, st := range stores {
						if cellSeen[st] {
							continue
						}
						cellSeen[st] = true
						phiLeaves(st.Val, st, &out, map[*ssa.Phi]bool{})
					}
					continue
				}
			}
		}
		phiLeaves(r.Results[i], r, &out, map[*ssa.Phi]bool{})
	}
	return out
}

// cellStores returns the stores into a local cell; ok=false when the cell's
// address escapes or a closure writes it (then its contents cannot be enumerated).
func cellStores(al *ssa.Alloc) ([]*ssa.Store, bool) {
	var out []*ssa.Store
	if al.Referrers() == nil {
		return nil, false
	}
	for _, r := range *al.Referrers() {
		switch s := r.(type) {
		case *ssa.Store:
			if s.Addr != ssa.Value(al) {
				return nil, false
			}
			out = append(out, s)
		case *ssa.UnOp, *ssa.DebugRef:
		case *ssa.MakeClosure:
			if closureWrites(s, al) {
				return nil, false
			}
		default:
			return nil, false
		}
	}
	return out, len(out) > 0
}

// GuardedFlow is Guarded for a flow point (instruction or edge sink).
func (c *Ctx) GuardedFlow(construct string, fn *ssa.Function, fp FlowPoint, clauses []Clause, opt *GOpt) bool {
	if fp.Instr != nil {
		return c.Guarded(construct, fn, fp.Instr, clauses, opt)
	}
	if opt == nil {
		opt = &GOpt{}
	}
	c.touch(fn)
	var gates []string
	for _, cl := range clauses {
		if !opt.NoVacuity {
			n := 0
			for _, a := range cl {
				n += CountAtomEdges(fn, a)
			}
			if n == 0 {
				c.Undecided(construct, fp.Pos(), fmt.Sprintf("gate [%s] not recognised anywhere in %s", cl, SSAFuncName(fn)))
				return false
			}
		}
		cut := OrCutEdges(AtomEdges(cl...), opt.CutEdge)
		if cut(fp.EdgeFrom, fp.EdgeSucc) {
			gates = append(gates, cl.String())
			continue // the edge itself establishes the gate
		}
		q := ReachQ{Fn: fn, From: opt.From, CutEdge: cut, CutInstr: opt.CutInstr, Descend: opt.CutEdge == nil || opt.Descend,
			SinkEdge: func(b *ssa.BasicBlock, s int) bool { return b == fp.EdgeFrom && s == fp.EdgeSucc }}
		r := q.Run()
		c.cur.Blocks += r.Blocks
		c.cur.Edges += r.Edges
		if r.Found {
			c.Violated(construct, fp.Pos(), fmt.Sprintf("in %s the value entering at %s is reachable without passing gate [%s]; path: %s", SSAFuncName(fn), c.P.Pos(fp.Pos()), cl, c.P.PathString(r.Path)))
			return false
		}
		gates = append(gates, cl.String())
	}
	c.Holds(construct, fp.Pos(), "every path to the flow point passes: "+joinStr(gates, " ; "))
	return true
}

func joinStr(s []string, sep string) string {
	out := ""
	for i, x := range s {
		if i > 0 {
			out += sep
		}
		out += x
	}
	return out
}

// ---------- who-may-write helpers ----------

// GlobalStores lists every store to package-level variable g in the loaded source functions.
func (p *Prog) GlobalStores(g *ssa.Global) []*ssa.Store {
	var out []*ssa.Store
	for _, fn := range p.AllFuncs() {
		for _, b := range fn.Blocks {
			for _, in := range b.Instrs {
				if s, ok := in.(*ssa.Store); ok && s.Addr == ssa.Value(g) {
					out = append(out, s)
				}
			}
		}
	}
	return out
}

// FuncVarTarget checks that the package-level function variable g is assigned
// exactly once (its initialiser) and returns the function it is bound to.
func (c *Ctx) FuncVarTarget(g *ssa.Global) *ssa.Function {
	stores := c.P.GlobalStores(g)
	construct := "global:" + short(g.Pkg.Pkg.Path()) + "." + g.Name()
	if len(stores) != 1 {
		var where string
		for _, s := range stores {
			where += " " + c.P.Pos(s.Pos()) + "(" + SSAFuncName(s.Parent()) + ")"
		}
		c.Violated(construct, g.Pos(), fmt.Sprintf("function variable must be assigned only by its initialiser in non-test code; found %d stores:%s", len(stores), where))
		return nil
	}
	s := stores[0]
	if s.Parent().Name() != "init" {
		c.Violated(construct, s.Pos(), "function variable is assigned outside package initialisation, in "+SSAFuncName(s.Parent()))
		return nil
	}
	switch v := stripNoCell(s.Val).(type) {
	case *ssa.Function:
		c.Holds(construct, s.Pos(), "bound once, at initialisation, to "+SSAFuncName(v))
		return v
	case *ssa.MakeClosure:
		c.Holds(construct, s.Pos(), "bound once, at initialisation, to a closure")
		return v.Fn.(*ssa.Function)
	}
	c.Undecided(construct, s.Pos(), "initial value of the function variable is not a function")
	return nil
}

// FieldAddrsOf lists every FieldAddr of field f in the loaded source functions.
func (p *Prog) FieldAddrsOf(f *types.Var) []*ssa.FieldAddr {
	var out []*ssa.FieldAddr
	for _, fn := range p.AllFuncs() {
		for _, b := range fn.Blocks {
			for _, in := range b.Instrs {
				if fa, ok := in.(*ssa.FieldAddr); ok && fieldOfAddr(fa) == f {
					out = append(out, fa)
				}
			}
		}
	}
	return out
}

// FieldStores lists every store whose address is field f (any base) in the loaded source functions.
func (p *Prog) FieldStores(f *types.Var) []*ssa.Store {
	var out []*ssa.Store
	for _, fn := range p.AllFuncs() {
		out = append(out, StoresToField(fn, f)...)
	}
	return out
}

// CallersOf lists every call instruction (call/go/defer) to obj in the loaded source functions,
// plus every place the function is used as a value (method value / function value).
type UseSite struct {
	Fn     *ssa.Function
	Instr  ssa.Instruction
	AsCall bool
}

func (p *Prog) UsesOf(obj *types.Func) []UseSite {
	var out []UseSite
	target := p.SSA.FuncValue(obj)
	for _, fn := range p.AllFuncs() {
		for _, b := range fn.Blocks {
			for _, in := range b.Instrs {
				if ci, ok := IsCallTo(in, obj); ok {
					out = append(out, UseSite{fn, ci, true})
					continue
				}
				// function used as a value
				if target == nil {
					continue
				}
				for _, op := range in.Operands(nil) {
					if *op == nil {
						continue
					}
					switch v := (*op).(type) {
					case *ssa.Function:
						if v == target || (v.Synthetic != "" && boundTarget(v) == target) {
							if _, isCall := in.(ssa.CallInstruction); isCall && in.(ssa.CallInstruction).Common().Value == v {
								continue
							}
							out = append(out, UseSite{fn, in, false})
						}
					}
				}
				if mc, ok := in.(*ssa.MakeClosure); ok {
					if f, ok := mc.Fn.(*ssa.Function); ok && f.Synthetic != "" && boundTarget(f) == target {
						out = append(out, UseSite{fn, in, false})
					}
				}
			}
		}
	}
	return out
}

// boundTarget returns the method a $bound/$thunk wrapper calls.
func boundTarget(w *ssa.Function) *ssa.Function {
	for _, b := range w.Blocks {
		for _, in := range b.Instrs {
			if c, ok := in.(ssa.CallInstruction); ok {
				if sc := c.Common().StaticCallee(); sc != nil {
					return sc
				}
			}
		}
	}
	return nil
}

// GlobalUses lists every instruction in the loaded source functions that has g as an operand.
func (p *Prog) GlobalUses(g *ssa.Global) []ssa.Instruction {
	var out []ssa.Instruction
	for _, fn := range p.AllFuncs() {
		for _, b := range fn.Blocks {
			for _, in := range b.Instrs {
				for _, op := range in.Operands(nil) {
					if *op == ssa.Value(g) {
						out = append(out, in)
						break
					}
				}
			}
		}
	}
	return out
}

// VElemOf: value is an element load of a slice/array/string satisfying S (x[i] or range element).
func VElemOf(S func(ssa.Value) bool) func(ssa.Value) bool {
	return func(v ssa.Value) bool {
		v = Strip(v)
		switch x := v.(type) {
		case *ssa.UnOp:
			if x.Op == token.MUL {
				if ia, ok := x.X.(*ssa.IndexAddr); ok {
					return S(ia.X)
				}
			}
		case *ssa.Index:
			return S(x.X)
		case *ssa.Lookup:
			return S(x.X)
		}
		return false
	}
}

// AstVarInit returns the initialiser expression of a package-level variable.
func (p *Prog) AstVarInit(pkg, name string) ast.Expr {
	pk := p.Pkgs[pkg]
	if pk == nil {
		anchorFail(pkg+"."+name, "package not loaded from source")
	}
	obj := pk.Types.Scope().Lookup(name)
	for _, file := range pk.Syntax {
		for _, d := range file.Decls {
			gd, ok := d.(*ast.GenDecl)
			if !ok {
				continue
			}
			for _, sp := range gd.Specs {
				vs, ok := sp.(*ast.ValueSpec)
				if !ok {
					continue
				}
				for i, n := range vs.Names {
					if pk.TypesInfo.Defs[n] == obj && obj != nil {
						if i < len(vs.Values) {
							return vs.Values[i]
						}
						return nil
					}
				}
			}
		}
	}
	anchorFail(pkg+"."+name, "no declaration found")
	return nil
}

// ConstStringsOf returns the constant string elements of a composite literal expression.
func (p *Prog) ConstStringsOf(pkg string, e ast.Expr) ([]string, bool) {
	cl, ok := e.(*ast.CompositeLit)
	if !ok {
		return nil, false
	}
	pk := p.Pkgs[pkg]
	var out []string
	for _, el := range cl.Elts {
		tv := pk.TypesInfo.Types[el]
		if tv.Value == nil || tv.Value.Kind() != constant.String {
			return nil, false
		}
		out = append(out, constant.StringVal(tv.Value))
	}
	return out, true
}

// liveLeaves expands v through phis, ignoring incoming edges cut by `dead`.
func liveLeaves(v ssa.Value, dead func(b *ssa.BasicBlock, s int) bool) []ssa.Value {
	var out []ssa.Value
	seen := map[*ssa.Phi]bool{}
	var walk func(v ssa.Value)
	walk = func(v ssa.Value) {
		v = stripNoCell(v)
		phi, ok := v.(*ssa.Phi)
		if !ok {
			out = append(out, v)
			return
		}
		if seen[phi] {
			return
		}
		seen[phi] = true
		blk := phi.Block()
		dup := map[*ssa.BasicBlock]int{}
		for i, e := range phi.Edges {
			pred := blk.Preds[i]
			nth := dup[pred]
			dup[pred]++
			if dead != nil && dead(pred, succIndex(pred, blk, nth)) {
				continue
			}
			walk(e)
		}
	}
	walk(v)
	return out
}

// VLive: every live leaf of the value satisfies pred.
func VLive(dead func(b *ssa.BasicBlock, s int) bool, pred func(ssa.Value) bool) func(ssa.Value) bool {
	return func(v ssa.Value) bool {
		ls := liveLeaves(v, dead)
		if len(ls) == 0 {
			return false
		}
		for _, l := range ls {
			if !pred(l) {
				return false
			}
		}
		return true
	}
}

// InfeasibleNilEdges cuts the "is nil" outcome of nil tests on values whose live
// leaves (under the pruning `dead`) are all call results / allocations tested
// non-nil by construction is NOT assumed: only leaves that are the nil constant
// make the nil outcome feasible.
func InfeasibleNilEdges(dead func(b *ssa.BasicBlock, s int) bool) func(b *ssa.BasicBlock, s int) bool {
	return func(b *ssa.BasicBlock, s int) bool {
		if len(b.Instrs) == 0 {
			return false
		}
		iff, ok := b.Instrs[len(b.Instrs)-1].(*ssa.If)
		if !ok {
			return false
		}
		c := Decompose(iff.Cond)
		isPhi := func(v ssa.Value) bool { _, ok := stripNoCell(v).(*ssa.Phi); return ok }
		p := c.CmpIs(token.EQL, isPhi, isNilVal)
		if p == PolNone {
			return false
		}
		if !((p == PolTrue && s == 0) || (p == PolFalse && s == 1)) {
			return false
		}
		var x ssa.Value = c.Bin.X
		if IsNilConst(x) {
			x = c.Bin.Y
		}
		for _, l := range liveLeaves(x, dead) {
			if IsNilConst(l) {
				return false
			}
			if _, _, isCall := CallResult(l); !isCall {
				return false
			}
		}
		return true
	}
}

// VarargElems returns the values stored into the backing array of a varargs
// slice (`new [n]T; &t[i] = v; slice t[:]`), indexed by position.
func VarargElems(v ssa.Value) []ssa.Value {
	sl, ok := stripNoCell(v).(*ssa.Slice)
	if !ok {
		return nil
	}
	al, ok := sl.X.(*ssa.Alloc)
	if !ok || al.Referrers() == nil {
		return nil
	}
	out := map[int64]ssa.Value{}
	max := int64(-1)
	for _, r := range *al.Referrers() {
		ia, ok := r.(*ssa.IndexAddr)
		if !ok {
			continue
		}
		idx, ok := ConstInt(ia.Index)
		if !ok || ia.Referrers() == nil {
			continue
		}
		for _, r2 := range *ia.Referrers() {
			if st, ok := r2.(*ssa.Store); ok && st.Addr == ssa.Value(ia) {
				out[idx] = st.Val
				if idx > max {
					max = idx
				}
			}
		}
	}
	res := make([]ssa.Value, max+1)
	for i, v := range out {
		res[i] = v
	}
	return res
}

// CheckErrPropagated: the error result (index idx) of call cc in fn is tested, and on
// its non-nil edge no success return of fn is reachable. A discarded error is a violation.
func (c *Ctx) CheckErrPropagated(construct string, fn *ssa.Function, cc ssa.CallInstruction, idx int, what string) bool {
	c.touch(fn)
	only := func(ci ssa.CallInstruction) bool { return ci == cc }
	failed := Not(NilRes(what+" ok", idx, only))
	okProp, found := true, 0
	var path []*ssa.BasicBlock
	for _, b := range fn.Blocks {
		for si := range b.Succs {
			if AtomEdges(failed)(b, si) {
				found++
				r := ReachQ{Fn: fn, From: &Loc{b.Succs[si], -1}, Sink: IsSuccessReturn}.Run()
				if r.Found {
					okProp = false
					path = r.Path
				}
			}
		}
	}
	if found == 0 {
		// `return f(...)`: the error is the caller's own result
		if v := cc.Value(); v != nil {
			for _, r := range ReturnsOf(fn) {
				for _, res := range r.Results {
					if cc2, i, ok := CallResult(res); ok && cc2 == cc && i == idx {
						c.Holds(construct, cc.Pos(), "the error of "+what+" is returned as is")
						return true
					}
					if res == ssa.Value(v) {
						c.Holds(construct, cc.Pos(), "the result of "+what+" is returned as is")
						return true
					}
				}
			}
		}
		c.Violated(construct, cc.Pos(), "the error returned by "+what+" is never tested in "+SSAFuncName(fn)+": a refusal is silently dropped")
		return false
	}
	return c.Check(okProp, construct, cc.Pos(), "a refusal by "+what+" fails "+SSAFuncName(fn), SSAFuncName(fn)+" can succeed although "+what+" refused: "+c.P.PathString(path))
}

// PrivateHelperOf: fn is an unexported function or method (or a closure) of the same package that
// is only ever called directly - never used as a value - and only from functions whose name is in
// allow or that are themselves such helpers (an extracted helper acts on behalf of its only
// callers).
func (p *Prog) PrivateHelperOf(fn *ssa.Function, allow map[string]bool) bool {
	var rec func(fn *ssa.Function, depth int) bool
	rec = func(fn *ssa.Function, depth int) bool {
		if fn == nil || depth > 3 {
			return false
		}
		if allow[SSAFuncName(fn)] {
			return true
		}
		if fn.Parent() != nil {
			return rec(fn.Parent(), depth+1)
		}
		obj, ok := fn.Object().(*types.Func)
		if !ok || obj.Exported() {
			return false
		}
		uses := p.UsesOf(obj)
		if len(uses) == 0 {
			return false
		}
		for _, u := range uses {
			if !u.AsCall || u.Fn == nil || u.Fn.Pkg != fn.Pkg || !rec(u.Fn, depth+1) {
				return false
			}
		}
		return true
	}
	return rec(fn, 0)
}

// LiftPred: pred, also seen through the parameters of helper h at its call cc (a value of h that
// is h's i-th parameter satisfies pred when the i-th argument of cc does).
func LiftPred(pred func(ssa.Value) bool, h *ssa.Function, cc ssa.CallInstruction) func(ssa.Value) bool {
	return func(v ssa.Value) bool {
		if pred(v) {
			return true
		}
		if p, ok := Strip(v).(*ssa.Parameter); ok && p.Parent() == h {
			for i, hp := range h.Params {
				if hp == p && i < len(cc.Common().Args) {
					return pred(cc.Common().Args[i])
				}
			}
		}
		return false
	}
}

// OkHelper: "the error returned by a same-package helper called from fn is nil", where the helper
// returns nil only across an edge establishing one of mk(h, cc) - the check was moved into a
// function of its own (if err := d.checkSize(n); err != nil { return err }).
func OkHelper(name string, fn *ssa.Function, mk func(h *ssa.Function, cc ssa.CallInstruction) []Atom) Atom {
	cache := map[ssa.CallInstruction]bool{}
	return Atom{Name: name + " (checked in a helper)", Match: func(c Cond) Pol {
		return c.CmpIs(token.EQL, func(v ssa.Value) bool {
			cc, idx, ok := CallResult(v)
			if !ok {
				return false
			}
			if r, done := cache[cc]; done {
				return r
			}
			res := false
			h := cc.Common().StaticCallee()
			if h != nil && h.Pkg == fn.Pkg && len(h.Blocks) > 0 && h != fn && idx == h.Signature.Results().Len()-1 {
				atoms := mk(h, cc)
				cut := AtomEdges(atoms...)
				n := 0
				res = len(atoms) > 0
				for _, lf := range ReturnLeaves(h, -1) {
					if !IsNilConst(lf.Val) {
						continue
					}
					n++
					q := ReachQ{Fn: h, CutEdge: cut}
					switch {
					case lf.EdgeFrom != nil:
						if cut(lf.EdgeFrom, lf.EdgeSucc) {
							continue
						}
						from, succ := lf.EdgeFrom, lf.EdgeSucc
						q.SinkEdge = func(b *ssa.BasicBlock, s int) bool { return b == from && s == succ }
					case lf.Instr != nil:
						at := lf.Instr
						q.Sink = func(in ssa.Instruction) bool { return in == at }
					default:
						res = false
						continue
					}
					if q.Run().Found {
						res = false
					}
				}
				if n == 0 {
					res = false
				}
			}
			cache[cc] = res
			return res
		}, isNilVal)
	}}
}

// HelpersOf lists the private helpers of fn: same-package unexported functions (or closures) that
// are only ever called, directly, from fn or from other such helpers (PrivateHelperOf).
func (p *Prog) HelpersOf(fn *ssa.Function) []*ssa.Function {
	allow := map[string]bool{SSAFuncName(fn): true}
	seen := map[*ssa.Function]bool{fn: true}
	var out []*ssa.Function
	var walk func(f *ssa.Function, depth int)
	walk = func(f *ssa.Function, depth int) {
		if depth > 2 {
			return
		}
		visit := func(h *ssa.Function) {
			if h == nil || seen[h] || len(h.Blocks) == 0 || h.Pkg != fn.Pkg {
				return
			}
			seen[h] = true
			if p.PrivateHelperOf(h, allow) {
				out = append(out, h)
				walk(h, depth+1)
			}
		}
		for _, b := range f.Blocks {
			for _, in := range b.Instrs {
				if cc, ok := in.(ssa.CallInstruction); ok {
					visit(cc.Common().StaticCallee())
				}
			}
		}
		for _, cl := range f.AnonFuncs {
			visit(cl)
		}
	}
	walk(fn, 0)
	return out
}

// CallSitesDeep: the call sites of objs in fn; when fn has none, those in its private helpers
// (the call moved into an extracted function or a local closure).
func (p *Prog) CallSitesDeep(fn *ssa.Function, objs ...*types.Func) (calls []ssa.CallInstruction, in *ssa.Function) {
	if cs := CallSites(fn, objs...); len(cs) > 0 {
		return cs, fn
	}
	for _, h := range p.LocalCallees(fn) {
		if cs := CallSites(h, objs...); len(cs) > 0 {
			return cs, h
		}
	}
	return nil, fn
}

// ThroughHelpers replaces every leaf that is a result of a same-package helper (with a body) by
// the leaves of what that helper returns for that result (one level): `a, b := pick(kind, rule)`
// is looked through to the values pick returns.
func ThroughHelpers(leaves []FlowPoint, pkg *ssa.Package) []FlowPoint {
	var out []FlowPoint
	for _, lf := range leaves {
		cc, idx, ok := CallResult(lf.Val)
		if ok {
			if h := cc.Common().StaticCallee(); h != nil && h.Pkg == pkg && len(h.Blocks) > 0 {
				if hl := ReturnLeaves(h, idx); len(hl) > 0 {
					out = append(out, hl...)
					continue
				}
			}
		}
		out = append(out, lf)
	}
	return out
}

// CallsMatchingDeep: the calls of fn matched by m; when fn has none, the calls in fn of a private
// helper or local closure whose body makes such a call (the call site of the wrapper stands for
// the wrapped call: same position in fn's control flow, and - by convention checked by the caller
// where it matters - the wrapper returns the wrapped call's verdict).
func (p *Prog) CallsMatchingDeep(fn *ssa.Function, m CallM) []ssa.CallInstruction {
	if cs := CallsMatching(fn, m); len(cs) > 0 {
		return cs
	}
	wraps := map[*ssa.Function]bool{}
	for _, h := range p.LocalCallees(fn) {
		if len(CallsMatching(h, m)) > 0 {
			wraps[h] = true
		}
	}
	var out []ssa.CallInstruction
	if len(wraps) == 0 {
		return nil
	}
	for _, b := range fn.Blocks {
		for _, in := range b.Instrs {
			if cc, ok := in.(ssa.CallInstruction); ok {
				if h := cc.Common().StaticCallee(); h != nil && wraps[h] {
					out = append(out, cc)
				}
			}
		}
	}
	return out
}

// LocalCallees lists the unexported same-package functions and local closures that fn calls
// directly (transitively, two levels): code that runs as part of fn whoever else may call it.
func (p *Prog) LocalCallees(fn *ssa.Function) []*ssa.Function {
	seen := map[*ssa.Function]bool{fn: true}
	var out []*ssa.Function
	var walk func(f *ssa.Function, depth int)
	walk = func(f *ssa.Function, depth int) {
		if depth > 1 {
			return
		}
		for _, b := range f.Blocks {
			for _, in := range b.Instrs {
				cc, ok := in.(ssa.CallInstruction)
				if !ok {
					continue
				}
				h := cc.Common().StaticCallee()
				if h == nil || seen[h] || len(h.Blocks) == 0 || h.Pkg != fn.Pkg {
					continue
				}
				if obj, isF := h.Object().(*types.Func); isF && obj.Exported() {
					continue
				}
				seen[h] = true
				out = append(out, h)
				walk(h, depth+1)
			}
		}
	}
	walk(fn, 0)
	return out
}
