package main

import (
	"fmt"
	"go/constant"
	"go/token"

	"golang.org/x/tools/go/ssa"
)

func init() {
	register(&Property{
		ID:          "C06",
		Roots:       []string{"osutil", "overlord", "overlord/state"},
		Technique:   "guarded-sink and ordering reachability on the SSA CFG of AtomicFile.commit / AtomicWriteChown / AtomicRename with the test-only unsafe-IO switch pruned to false; who-may-write of that switch; constant check of the temp-file open flags",
		Explanation: "Structural necessary conditions for 'the file on disk is a complete old or new checkpoint': with snapdUnsafeIO pruned to false, (R1) AtomicFile.commit reaches os.Rename(tmpname,target) only across Sync()==nil and Close()==nil of the temp file; (R2) the parent directory is opened before the rename and every return after a successful rename is the directory's Sync(); (R3) snapdUnsafeIO is assigned only by its initialiser and only true under IsTestBinary(); (R4) AtomicWriteChown commits only after io.Copy into the temp file succeeded, and NewAtomicFile opens a fresh random-named temp (O_CREATE|O_EXCL, name ends in '~', never the target); (R5) the overlord state backend checkpoints only through AtomicWriteFile on its own path; (R6) AtomicRename syncs the old and (when distinct) the new directory on every successful path.",
		NotDecided:  "the file-system persistence model itself (that fsync + rename + directory fsync is sufficient is the standard assumption); what the kernel does on power loss.",
		Assumptions: []string{"fsync(file); rename; fsync(dir) makes the rename durable and atomic on the target file system"},
		Run:         func(c *Ctx) { runC06(c); runC06x(c); runC06z(c) },
	})
}

func runC06(c *Ctx) {
	P := c.P
	commit := P.Func("osutil.(*AtomicFile).commit")
	gUnsafe := P.Global("osutil.snapdUnsafeIO")
	prune := PruneGlobalBool(gUnsafe, false)
	rename := P.FuncObj("os.Rename")
	fileSync := P.FuncObj("os.(*File).Sync")
	awClose := P.FuncObj("osutil.(*AtomicFile).Close")
	osOpen := P.FuncObj("os.Open")
	fpDir := P.FuncObj("path/filepath.Dir")
	fTmp, fTarget, fFile := P.Field("osutil.AtomicFile.tmpname"), P.Field("osutil.AtomicFile.target"), P.Field("osutil.AtomicFile.File")

	c.Rule("C06-R1", "G", "AtomicFile.commit (snapdUnsafeIO=false): os.Rename(aw.tmpname, aw.target) <= aw.File.Sync()==nil ∧ aw.Close()==nil", 2)
	syncM := RecvWhere(ToFn(fileSync), VFieldOf(fFile, VParam(commit, 0)))
	closeM := RecvWhere(ToFn(awClose), VParam(commit, 0))
	renames := CallSites(commit, rename)
	renameM := ToFn(rename)
	var realRename ssa.CallInstruction
	var liftWrapper *liftFrame
	if len(renames) == 0 {
		// the rename step as a private method of its own (aw.renameIntoPlace()): its call site stands
		// for the rename in commit's control flow, provided it fails exactly when os.Rename fails
		for _, hc := range localCalls(commit) {
			rs := CallSites(hc.h, rename)
			if len(rs) != 1 || hc.cc.Parent() != commit {
				continue
			}
			same := true
			for _, lf := range ReturnLeaves(hc.h, -1) {
				if IsNilConst(lf.Val) {
					// nil only after the rename succeeded
					q := ReachQ{Fn: hc.h, CutEdge: AtomEdges(NilRes("os.Rename==nil", 0, ToFn(rename)))}
					if lf.Instr != nil {
						at := lf.Instr
						q.Sink = func(in ssa.Instruction) bool { return in == at }
					} else {
						from, succ := lf.EdgeFrom, lf.EdgeSucc
						q.SinkEdge = func(b *ssa.BasicBlock, s int) bool { return b == from && s == succ }
					}
					if q.Run().Found {
						same = false
					}
				} else if !VRes(0, ToFn(rename))(lf.Val) {
					same = false
				}
			}
			if !same {
				continue
			}
			wrapper := hc.cc
			renames = []ssa.CallInstruction{wrapper}
			realRename = rs[0]
			renameM = func(ci ssa.CallInstruction) bool { return ci == wrapper }
			c.touch(hc.h)
			liftWrapper = &liftFrame{hc.h, hc.cc}
		}
	}
	for i, rc := range renames {
		c.Guarded(fmt.Sprintf("osutil.(*AtomicFile).commit#rename#%d", i+1), commit, rc, []Clause{
			{NilRes("aw.Sync()==nil", 0, syncM)},
			{NilRes("aw.Close()==nil", 0, closeM)},
		}, &GOpt{CutEdge: prune})
		a := CallArgs(rc)
		if realRename != nil {
			a = CallArgs(realRename)
			liftCtx = append(liftCtx, *liftWrapper)
		}
		c.Check(len(a) == 2 && VFieldOf(fTmp, VParam(commit, 0))(a[0]) && VFieldOf(fTarget, VParam(commit, 0))(a[1]), fmt.Sprintf("osutil.(*AtomicFile).commit#rename-args#%d", i+1), rc.Pos(), "renames aw.tmpname onto aw.target", "the rename is not tmpname -> target")
		if realRename != nil {
			liftCtx = liftCtx[:len(liftCtx)-1]
		}
	}
	if len(renames) != 1 {
		c.Undecided("osutil.(*AtomicFile).commit#rename-count", commit.Pos(), fmt.Sprintf("expected one os.Rename, found %d", len(renames)))
		return
	}
	rc := renames[0]
	// no write to the file after Sync: Sync precedes Close (close after sync) — ordering
	for i, cc := range CallsMatching(commit, closeM) {
		c.Before(fmt.Sprintf("osutil.(*AtomicFile).commit#sync-before-close#%d", i+1), commit, SinkCallM(syncM), "aw.Sync()", cc, &GOpt{CutEdge: prune})
	}

	c.Rule("C06-R2", "O", "commit: the parent directory of target is opened before the rename; every return after a successful rename is dir.Sync()", 2)
	dirOpen := CallWhere(ToFn(osOpen), 0, VRes(0, CallWhere(ToFn(fpDir), 0, VFieldOf(fTarget, VParam(commit, 0)))))
	c.Before("osutil.(*AtomicFile).commit#dir-open-before-rename", commit, SinkCallM(dirOpen), "os.Open(filepath.Dir(aw.target))", rc, &GOpt{CutEdge: prune})
	dirSync := RecvWhere(ToFn(fileSync), VLive(prune, VRes(0, dirOpen)))
	okRename := AtomEdges(Not(NilRes("os.Rename==nil", 0, renameM))) // cut the failure edge
	nAfter := 0
	for _, lf := range ReturnLeaves(commit, 0) {
		if lf.Instr == nil {
			continue
		}
		if VRes(0, dirSync)(lf.Val) {
			nAfter++
			continue
		}
		q := ReachQ{Fn: commit, From: LocOf(rc), Sink: SinkIs(lf.Instr), CutEdge: OrCutEdges(prune, okRename)}
		r := q.Run()
		if r.Found {
			c.Violated("osutil.(*AtomicFile).commit#return-after-rename", lf.Pos(), "after a successful rename commit can return a value other than the parent directory's Sync(): the rename may not be durable; path: "+P.PathString(r.Path))
			nAfter = -100
		}
	}
	c.Check(nAfter >= 1, "osutil.(*AtomicFile).commit#dir-sync-is-result", rc.Pos(), "the only return after a successful rename is dir.Sync()", "no return of dir.Sync() found after the rename")

	c.Rule("C06-R3", "W+G", "snapdUnsafeIO has one store (its initialiser) and is true only under IsTestBinary()", 2)
	stores := P.GlobalStores(gUnsafe)
	okStore := len(stores) == 1 && stores[0].Parent().Name() == "init"
	c.Check(okStore, "osutil.snapdUnsafeIO#writers", gUnsafe.Pos(), "assigned only by its initialiser", fmt.Sprintf("snapdUnsafeIO has %d stores; durability can be switched off at run time", len(stores)))
	if okStore {
		initFn := stores[0].Parent()
		var fps []FlowPoint
		phiLeaves(stores[0].Val, stores[0], &fps, map[*ssa.Phi]bool{})
		isTest := TrueRes("IsTestBinary()", true, 0, ToFn(P.FuncObj("osutil.IsTestBinary")))
		k := 0
		for _, fp := range fps {
			if b, ok := ConstBool(fp.Val); ok && !b {
				continue
			}
			k++
			c.GuardedFlow(fmt.Sprintf("osutil.snapdUnsafeIO#true-source#%d", k), initFn, fp, []Clause{{isTest}}, nil)
		}
		if k == 0 {
			c.Holds("osutil.snapdUnsafeIO#true-source", gUnsafe.Pos(), "never true")
		}
	}

	c.Rule("C06-R4", "G+K", "AtomicWriteChown: aw.Commit() <= NewAtomicFile ok ∧ io.Copy(aw, reader) ok; NewAtomicFile opens filename+'.'+random+'~' with O_CREATE|O_EXCL and records it as tmpname", 4)
	awc := P.Func("osutil.AtomicWriteChown")
	newAF := P.FuncObj("osutil.NewAtomicFile")
	ioCopy := P.FuncObj("io.Copy")
	commitObj := P.FuncObj("osutil.(*AtomicFile).Commit")
	copyM := CallWhere(CallWhere(ToFn(ioCopy), 0, VRes(0, ToFn(newAF))), 1, VParam(awc, 1))
	for i, cc := range CallSites(awc, commitObj) {
		c.Guarded(fmt.Sprintf("osutil.AtomicWriteChown#commit#%d", i+1), awc, cc, []Clause{
			{NilRes("NewAtomicFile err==nil", 1, ToFn(newAF))},
			{NilRes("io.Copy(aw, reader) err==nil", 1, copyM)},
		}, nil)
	}
	// Commit -> commit
	cm := P.Func("osutil.(*AtomicFile).Commit")
	okDel := true
	for _, lf := range ReturnLeaves(cm, 0) {
		if !VRes(0, ToFn(P.FuncObj("osutil.(*AtomicFile).commit")))(lf.Val) {
			okDel = false
		}
	}
	c.Check(okDel, "osutil.(*AtomicFile).Commit#delegates", cm.Pos(), "Commit returns commit()'s verdict", "Commit no longer returns commit()'s verdict")
	naf := P.Func("osutil.NewAtomicFile")
	openFile := P.FuncObj("os.OpenFile")
	ofs := CallSites(naf, openFile)
	if len(ofs) != 1 {
		c.Undecided("osutil.NewAtomicFile#open", naf.Pos(), fmt.Sprintf("expected one os.OpenFile, found %d", len(ofs)))
	} else {
		oc := ofs[0]
		a := CallArgs(oc)
		flag, isC := a[1].(*ssa.Const)
		want := int64(0)
		for _, n := range []string{"os.O_CREATE", "os.O_EXCL"} {
			v, _ := constant.Int64Val(P.Const(n).Val())
			want |= v
		}
		got := int64(0)
		if isC {
			got, _ = constant.Int64Val(flag.Value)
		}
		c.Check(isC && got&want == want, "osutil.NewAtomicFile#open-flags", oc.Pos(), "temp file opened with O_CREATE|O_EXCL", "temp file is not opened exclusively (O_CREATE|O_EXCL): an existing file or symlink could be written through")
		// name shape
		nameOK := false
		if add, ok := Strip(a[0]).(*ssa.BinOp); ok && add.Op == token.ADD && VConstStr("~")(add.Y) {
			// somewhere in the chain: a random string and the filename
			hasRand := false
			var walk func(v ssa.Value, d int)
			walk = func(v ssa.Value, d int) {
				if d > 6 {
					return
				}
				if b, ok := Strip(v).(*ssa.BinOp); ok && b.Op == token.ADD {
					walk(b.X, d+1)
					walk(b.Y, d+1)
					return
				}
				if VRes(0, ToFn(P.FuncObj("randutil.RandomString")))(v) {
					hasRand = true
				}
			}
			walk(add, 0)
			nameOK = hasRand
		}
		c.Check(nameOK, "osutil.NewAtomicFile#temp-name", oc.Pos(), "temp name is <filename>.<random>~", "temp name is not of the form <filename>.<random>~ (it could collide with the target or another writer)")
		// tmpname field records that name
		recOK := false
		for _, st := range StoresToField(naf, fTmp) {
			if Strip(st.Val) == Strip(a[0]) {
				recOK = true
			}
		}
		c.Check(recOK, "osutil.NewAtomicFile#tmpname-recorded", oc.Pos(), "AtomicFile.tmpname is the name that was opened", "AtomicFile.tmpname is not the opened temp name: commit would rename a different file")
	}

	c.Rule("C06-R5", "W", "overlordStateBackend.Checkpoint writes only through osutil.AtomicWriteFile(osb.path, data, …)", 1)
	cp := P.Func("overlord.(*overlordStateBackend).Checkpoint")
	awf := P.FuncObj("osutil.AtomicWriteFile")
	fPath := P.Field("overlord.overlordStateBackend.path")
	okCP := true
	for _, lf := range ReturnLeaves(cp, 0) {
		if !VRes(0, CallWhere(CallWhere(ToFn(awf), 0, VFieldOf(fPath, VParam(cp, 0))), 1, VParam(cp, 1)))(lf.Val) {
			okCP = false
		}
	}
	if !okCP {
		// the same thing written out: NewAtomicFile(osb.path, …), io.Copy(aw, bytes.NewReader(data)), aw.Commit()
		okCP = inlineAtomicWrite(P, cp, VFieldOf(fPath, VParam(cp, 0)), VParam(cp, 1))
	}
	c.Check(okCP, "overlord.(*overlordStateBackend).Checkpoint#atomic", cp.Pos(), "the checkpoint verdict is AtomicWriteFile(osb.path, data, …)", "the state checkpoint is no longer (only) an atomic write of the given data to the backend's path")
	// AtomicWriteFile -> AtomicWriteChown
	for _, name := range []string{"osutil.AtomicWriteFile", "osutil.AtomicWrite", "osutil.AtomicWriteFileChown"} {
		fn := P.Func(name)
		ok := true
		for _, lf := range ReturnLeaves(fn, 0) {
			if !VRes(0, ToFn(P.FuncObj("osutil.AtomicWriteChown")))(lf.Val) {
				ok = false
			}
		}
		c.Check(ok, name+"#delegates", fn.Pos(), "delegates to AtomicWriteChown", name+" no longer delegates to AtomicWriteChown")
	}

	c.Rule("C06-R6", "O", "AtomicRename (snapdUnsafeIO=false): after a successful rename both directory handles opened before it are synced on every path to the return", 2)
	ar := P.Func("osutil.AtomicRename")
	ars := CallSites(ar, rename)
	if len(ars) != 1 {
		c.Undecided("osutil.AtomicRename#rename-count", ar.Pos(), fmt.Sprintf("expected one os.Rename, found %d", len(ars)))
		return
	}
	arc := ars[0]
	opens := CallSites(ar, osOpen)
	if len(opens) != 2 {
		c.Undecided("osutil.AtomicRename#opens", ar.Pos(), fmt.Sprintf("expected two os.Open calls, found %d", len(opens)))
		return
	}
	for i, oc := range opens {
		c.Before(fmt.Sprintf("osutil.AtomicRename#dir-open-before-rename#%d", i+1), ar, SinkIs(oc), "os.Open(dir)", arc, &GOpt{CutEdge: prune})
		// sync of this handle on every path from the successful rename to a return
		target := oc
		isSync := func(in ssa.Instruction) bool {
			ci, ok := in.(ssa.CallInstruction)
			if !ok || !ToFn(fileSync)(ci) {
				return false
			}
			for _, lf := range phiLeavesOf(cellValue(CallRecv(ci))) {
				if cr, _, ok := CallResult(lf); ok && cr == target {
					return true
				}
			}
			return false
		}
		// the handle may be dropped (set to nil) when both names share a directory: allow the `== nil` edge for the second handle
		var allow func(b *ssa.BasicBlock, s int) bool
		if i == 1 {
			allow = AtomEdges(Cmp("newDir==nil", anyVal, token.EQL, isNilVal))
		}
		q := ReachQ{Fn: ar, From: LocOf(arc), CutInstr: isSync, CutEdge: OrCutEdges(prune, AtomEdges(Not(NilRes("os.Rename==nil", 0, ToFn(rename)))), allow, InfeasibleNilEdges(prune)),
			Sink: func(in ssa.Instruction) bool { _, ok := in.(*ssa.Return); return ok }}
		r := q.Run()
		c.Check(!r.Found, fmt.Sprintf("osutil.AtomicRename#dir-synced#%d", i+1), oc.Pos(), "the directory handle is synced on every path from the successful rename to the return", "a return is reachable after the rename without syncing this directory: "+P.PathString(r.Path))
	}
}

// cellValue looks through a load of a multi-store local cell by returning the
// load itself; for single-store cells Strip already resolves it.
func cellValue(v ssa.Value) ssa.Value {
	if v == nil {
		return nil
	}
	return v
}

// inlineAtomicWrite: fn writes data to path the way osutil.AtomicWriteFile does, written out:
// one NewAtomicFile(path, …), io.Copy(thatFile, bytes.NewReader(data)), and every verdict of fn is
// that of NewAtomicFile, io.Copy or Commit, success being Commit's.
func inlineAtomicWrite(P *Prog, fn *ssa.Function, path, data func(ssa.Value) bool) bool {
	newAF := P.FuncObj("osutil.NewAtomicFile")
	commit := P.FuncObj("osutil.(*AtomicFile).Commit")
	ioCopy := P.FuncObj("io.Copy")
	newReader := P.FuncObj("bytes.NewReader")
	nf := CallSites(fn, newAF)
	if len(nf) != 1 || !path(nf[0].Common().Args[0]) {
		return false
	}
	cps := CallSites(fn, ioCopy)
	if len(cps) != 1 || !VRes(0, ToFn(newAF))(cps[0].Common().Args[0]) {
		return false
	}
	src, _, ok := CallResult(cps[0].Common().Args[1])
	if !ok || !ToFn(newReader)(src) || !data(src.Common().Args[0]) {
		return false
	}
	sawCommit := false
	for _, lf := range ReturnLeaves(fn, 0) {
		if IsNilConst(lf.Val) {
			// success without Commit's verdict: only after Commit succeeded
			if lf.Instr == nil {
				return false
			}
			if (ReachQ{Fn: fn, CutEdge: AtomEdges(OkCall("Commit ok", commit)), Sink: func(in ssa.Instruction) bool { return in == lf.Instr }}).Run().Found {
				return false
			}
			sawCommit = sawCommit || CountAtomEdges(fn, OkCall("Commit ok", commit)) > 0
			continue
		}
		cc, _, isCall := CallResult(lf.Val)
		if !isCall {
			return false
		}
		if _, is := IsCallTo(cc, commit); is {
			sawCommit = true
			continue
		}
		if _, is := IsCallTo(cc, newAF, ioCopy); !is {
			return false
		}
	}
	return sawCommit
}
