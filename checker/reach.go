package main

import (
	"fmt"
	"go/types"
	"strings"

	"golang.org/x/tools/go/ssa"
)

// Loc is a position inside a function: instruction I of block B.
type Loc struct {
	B *ssa.BasicBlock
	I int
}

// ReachQ asks: is there a CFG path from From (entry when nil; exclusive of the
// From instruction itself) to an instruction satisfying Sink that neither
// executes a CutInstr instruction nor traverses a CutEdge?  All of the path
// rules (guarded sink, ordering, loop latch) reduce to this question.
type ReachQ struct {
	Fn       *ssa.Function
	From     *Loc
	Sink     func(ssa.Instruction) bool
	CutInstr func(ssa.Instruction) bool
	CutEdge  func(b *ssa.BasicBlock, succ int) bool
	Region   map[*ssa.BasicBlock]bool // when set, only these blocks are traversed
	SinkEdge func(b *ssa.BasicBlock, succ int) bool
}

type ReachResult struct {
	Found   bool
	At      ssa.Instruction
	Path    []*ssa.BasicBlock
	Blocks  int
	Edges   int
	EdgeHit [2]*ssa.BasicBlock
}

func (q ReachQ) Run() ReachResult {
	res := ReachResult{}
	if len(q.Fn.Blocks) == 0 {
		return res
	}
	type node struct {
		b    *ssa.BasicBlock
		pred *ssa.BasicBlock // only set for blocks branching on a phi of their own
	}
	type item struct {
		n     node
		start int
	}
	parent := map[node]node{}
	hasParent := map[node]bool{}
	visited := map[node]bool{}
	var queue []item
	if q.From != nil {
		queue = append(queue, item{node{q.From.B, nil}, q.From.I + 1})
		// the start block may be re-entered from its beginning through a loop
	} else {
		n0 := node{q.Fn.Blocks[0], nil}
		queue = append(queue, item{n0, 0})
		visited[n0] = true
	}
	pathTo := func(n node) []*ssa.BasicBlock {
		var p []*ssa.BasicBlock
		onPath := map[node]bool{}
		for x, ok := n, true; ok; x, ok = parent[x], hasParent[x] {
			if onPath[x] {
				break // the start block was re-entered through a loop
			}
			onPath[x] = true
			p = append([]*ssa.BasicBlock{x.b}, p...)
		}
		return p
	}
	for len(queue) > 0 {
		it := queue[0]
		queue = queue[1:]
		res.Blocks++
		cut := false
		for i := it.start; i < len(it.n.b.Instrs); i++ {
			in := it.n.b.Instrs[i]
			if q.Sink != nil && q.Sink(in) {
				res.Found, res.At, res.Path = true, in, pathTo(it.n)
				return res
			}
			if q.CutInstr != nil && q.CutInstr(in) {
				cut = true
				break
			}
		}
		if cut {
			continue
		}
		for si, s := range it.n.b.Succs {
			res.Edges++
			if it.n.pred != nil && !phiBranchFeasible(it.n.b, it.n.pred, si) {
				continue // the branch tests a phi whose value on this incoming edge is a constant
			}
			if q.CutEdge != nil && q.CutEdge(it.n.b, si) {
				continue
			}
			if q.SinkEdge != nil && q.SinkEdge(it.n.b, si) {
				res.Found, res.Path = true, append(pathTo(it.n), s)
				res.EdgeHit = [2]*ssa.BasicBlock{it.n.b, s}
				return res
			}
			if q.Region != nil && !q.Region[s] {
				continue
			}
			nn := node{s, nil}
			if branchesOnOwnPhi(s) {
				nn.pred = it.n.b
			}
			if visited[nn] {
				continue
			}
			visited[nn] = true
			if !hasParent[nn] && nn != it.n {
				parent[nn] = it.n
				hasParent[nn] = true
			}
			queue = append(queue, item{nn, 0})
		}
	}
	return res
}

// branchesOnOwnPhi: the block ends in an If whose condition is (the negation of) a
// boolean phi defined in the block itself.
func branchesOnOwnPhi(b *ssa.BasicBlock) bool {
	_, ok := ownPhiCond(b)
	return ok
}

func ownPhiCond(b *ssa.BasicBlock) (*ssa.Phi, bool) {
	if len(b.Instrs) == 0 {
		return nil, false
	}
	iff, ok := b.Instrs[len(b.Instrs)-1].(*ssa.If)
	if !ok {
		return nil, false
	}
	c := Decompose(iff.Cond)
	if c.Val == nil {
		return nil, false
	}
	phi, ok := c.Val.(*ssa.Phi)
	if !ok || phi.Block() != b {
		return nil, false
	}
	return phi, true
}

// phiBranchFeasible: entering b from pred, can successor si be taken?
func phiBranchFeasible(b, pred *ssa.BasicBlock, si int) bool {
	phi, ok := ownPhiCond(b)
	if !ok {
		return true
	}
	iff := b.Instrs[len(b.Instrs)-1].(*ssa.If)
	neg := Decompose(iff.Cond).Neg
	feasible := false
	known := false
	for i, p := range b.Preds {
		if p != pred {
			continue
		}
		v, isC := ConstBool(phi.Edges[i])
		if !isC {
			return true
		}
		known = true
		takeTrue := v != neg
		if (takeTrue && si == 0) || (!takeTrue && si == 1) {
			feasible = true
		}
	}
	if !known {
		return true
	}
	return feasible
}

// AtomEdges returns a CutEdge function that cuts every edge establishing any of the atoms.
func AtomEdges(atoms ...Atom) func(b *ssa.BasicBlock, succ int) bool {
	return func(b *ssa.BasicBlock, succ int) bool {
		if len(b.Instrs) == 0 {
			return false
		}
		iff, ok := b.Instrs[len(b.Instrs)-1].(*ssa.If)
		if !ok {
			return false
		}
		c := Decompose(iff.Cond)
		for _, a := range atoms {
			p := a.Match(c)
			if (p == PolTrue && succ == 0) || (p == PolFalse && succ == 1) {
				return true
			}
		}
		return false
	}
}

// CountAtomEdges counts the edges of fn that establish the atom (for vacuity checks).
func CountAtomEdges(fn *ssa.Function, a Atom) int {
	n := 0
	ce := AtomEdges(a)
	for _, b := range fn.Blocks {
		for si := range b.Succs {
			if ce(b, si) {
				n++
			}
		}
	}
	return n
}

func OrCutEdges(fs ...func(b *ssa.BasicBlock, succ int) bool) func(b *ssa.BasicBlock, succ int) bool {
	return func(b *ssa.BasicBlock, succ int) bool {
		for _, f := range fs {
			if f != nil && f(b, succ) {
				return true
			}
		}
		return false
	}
}

// PruneGlobalBool cuts the edges on which the package-level boolean g has the value !val.
func PruneGlobalBool(g *ssa.Global, val bool) func(b *ssa.BasicBlock, succ int) bool {
	a := Atom{Name: g.Name(), Match: func(c Cond) Pol { return c.BoolIs(VGlobal(g)) }}
	if val {
		a = Not(a) // cut edges where g is false
	}
	return AtomEdges(a)
}

func (p *Prog) PathString(path []*ssa.BasicBlock) string {
	var parts []string
	for _, b := range path {
		pos := "?"
		for _, in := range b.Instrs {
			if in.Pos().IsValid() {
				pos = p.Pos(in.Pos())
				break
			}
		}
		parts = append(parts, fmt.Sprintf("b%d(%s)", b.Index, pos))
	}
	if len(parts) > 14 {
		parts = append(parts[:7], append([]string{"..."}, parts[len(parts)-6:]...)...)
	}
	return strings.Join(parts, " -> ")
}

// ---------- sinks ----------

// CallSites returns every call instruction in fn (not descending into anon funcs) to one of objs.
func CallSites(fn *ssa.Function, objs ...*types.Func) []ssa.CallInstruction {
	var out []ssa.CallInstruction
	for _, b := range fn.Blocks {
		for _, in := range b.Instrs {
			if c, ok := IsCallTo(in, objs...); ok {
				out = append(out, c)
			}
		}
	}
	return out
}

func LocOf(in ssa.Instruction) *Loc {
	b := in.Block()
	for i, x := range b.Instrs {
		if x == in {
			return &Loc{b, i}
		}
	}
	return nil
}

func SinkIs(target ssa.Instruction) func(ssa.Instruction) bool {
	return func(in ssa.Instruction) bool { return in == target }
}

func SinkCall(objs ...*types.Func) func(ssa.Instruction) bool {
	return func(in ssa.Instruction) bool { _, ok := IsCallTo(in, objs...); return ok }
}

// IsSuccessReturn: a Return whose last (error-typed) result is the nil constant.
func IsSuccessReturn(in ssa.Instruction) bool {
	r, ok := in.(*ssa.Return)
	if !ok || len(r.Results) == 0 {
		return false
	}
	last := r.Results[len(r.Results)-1]
	// results spilled to cells (functions with defers) are resolved to the reaching store
	return IsNilConst(last) || IsNilConst(Strip(last))
}

// MaybeNilReturn: a Return whose last result is not syntactically a non-nil value
// constructed on the spot (used where the success value is a variable).
func ReturnsOf(fn *ssa.Function) []*ssa.Return {
	var out []*ssa.Return
	for _, b := range fn.Blocks {
		if len(b.Instrs) == 0 {
			continue
		}
		if r, ok := b.Instrs[len(b.Instrs)-1].(*ssa.Return); ok {
			out = append(out, r)
		}
	}
	return out
}

// StoresToField returns the Store instructions in fn whose address is field f of any base.
func StoresToField(fn *ssa.Function, f *types.Var) []*ssa.Store {
	var out []*ssa.Store
	for _, b := range fn.Blocks {
		for _, in := range b.Instrs {
			if s, ok := in.(*ssa.Store); ok {
				if fa, ok := s.Addr.(*ssa.FieldAddr); ok && fieldOfAddr(fa) == f {
					out = append(out, s)
				}
			}
		}
	}
	return out
}

// Dominates-like helper built on ReachQ: every path entry->sink passes one of the
// atom edges (CNF: every clause, a disjunction of atoms, must cut).
type Clause []Atom

func (cl Clause) String() string {
	var n []string
	for _, a := range cl {
		n = append(n, a.Name)
	}
	return strings.Join(n, " | ")
}
