package main

import (
	"fmt"
	"go/token"
	"go/types"
	"os"
	"strings"

	"golang.org/x/tools/go/ssa"
)

// Loc is a position inside a function: instruction I of block B.
type Loc struct {
	B *ssa.BasicBlock
	I int
}

// ReachQ asks: is there a CFG path from From (entry when nil; exclusive of the
// From instruction itself) to an instruction satisfying Sink that neither
// executes a CutInstr instruction nor traverses a CutEdge?  All of the path
// rules (guarded sink, ordering, loop latch) reduce to this question.
type ReachQ struct {
	Fn       *ssa.Function
	From     *Loc
	Sink     func(ssa.Instruction) bool
	CutInstr func(ssa.Instruction) bool
	CutEdge  func(b *ssa.BasicBlock, succ int) bool
	Region   map[*ssa.BasicBlock]bool // when set, only these blocks are traversed
	SinkEdge func(b *ssa.BasicBlock, succ int) bool
	// SinkDeep: Sink is also asked about the return instructions of helpers the traversal descended
	// into (by default a helper's return is only where the caller goes on).
	SinkDeep bool
	// Descend: follow calls of unexported same-package functions and local closures into their
	// bodies and back. Only for queries whose CutEdge/SinkEdge/CutInstr/Sink do not reason about
	// the block structure of Fn (dominance, loop headers): those would misjudge a callee's blocks.
	Descend bool
}

type ReachResult struct {
	Found   bool
	At      ssa.Instruction
	Path    []*ssa.BasicBlock
	Blocks  int
	Edges   int
	EdgeHit [2]*ssa.BasicBlock
}

// reachFrame: the traversal is inside helper h, entered from the call at instruction idx of
// block b (itself inside frame up).
type reachFrame struct {
	h     *ssa.Function
	cc    ssa.CallInstruction
	b     *ssa.BasicBlock
	idx   int
	up    *reachFrame
	depth int
}

// NoDescend switches the descent into local helpers off (VERIF_NO_DESCEND, for comparison).
var NoDescend = os.Getenv("VERIF_NO_DESCEND") != ""

// descendable: the call runs an unexported function or a local closure of fn's own package whose
// body is available: its instructions execute as part of the caller's path.
func descendable(fn *ssa.Function, in ssa.Instruction, fr *reachFrame) *ssa.Function {
	if NoDescend {
		return nil
	}
	cl, ok := in.(*ssa.Call)
	if !ok {
		return nil
	}
	h := cl.Call.StaticCallee()
	if h == nil || len(h.Blocks) == 0 || h.Pkg == nil || h.Pkg != fn.Pkg || h == fn {
		return nil
	}
	if obj, isF := h.Object().(*types.Func); isF && obj.Exported() {
		return nil
	}
	if fr != nil && fr.depth >= 2 {
		return nil
	}
	for f := fr; f != nil; f = f.up {
		if f.h == h {
			return nil // recursion
		}
	}
	return h
}

func (q ReachQ) Run() ReachResult {
	res := ReachResult{}
	if len(q.Fn.Blocks) == 0 {
		return res
	}
	type node struct {
		b      *ssa.BasicBlock
		pred   *ssa.BasicBlock // only set for blocks branching on a phi of their own
		fr     *reachFrame     // nil: in q.Fn itself
		resume int             // >0: the block is re-entered after the call at resume-1
	}
	type item struct {
		n     node
		start int
	}
	parent := map[node]node{}
	hasParent := map[node]bool{}
	visited := map[node]bool{}
	frames := map[[2]interface{}]*reachFrame{}
	var queue []item
	if q.From != nil {
		queue = append(queue, item{node{b: q.From.B}, q.From.I + 1})
		// the start block may be re-entered from its beginning through a loop
	} else {
		n0 := node{b: q.Fn.Blocks[0]}
		queue = append(queue, item{n0, 0})
		visited[n0] = true
	}
	pathTo := func(n node) []*ssa.BasicBlock {
		var p []*ssa.BasicBlock
		onPath := map[node]bool{}
		for x, ok := n, true; ok; x, ok = parent[x], hasParent[x] {
			if onPath[x] {
				break // the start block was re-entered through a loop
			}
			onPath[x] = true
			p = append([]*ssa.BasicBlock{x.b}, p...)
		}
		return p
	}
	enqueue := func(from, nn node, start int) {
		if visited[nn] {
			return
		}
		visited[nn] = true
		if !hasParent[nn] && nn != from {
			parent[nn] = from
			hasParent[nn] = true
		}
		queue = append(queue, item{nn, start})
	}
	pushCtx := func(fr *reachFrame) int {
		n := 0
		var chain []*reachFrame
		for f := fr; f != nil; f = f.up {
			chain = append(chain, f)
		}
		for i := len(chain) - 1; i >= 0; i-- {
			liftCtx = append(liftCtx, liftFrame{chain[i].h, chain[i].cc})
			n++
		}
		return n
	}
	for len(queue) > 0 {
		it := queue[0]
		queue = queue[1:]
		res.Blocks++
		cut := false
		pushed := pushCtx(it.n.fr)
		popCtx := func() { liftCtx = liftCtx[:len(liftCtx)-pushed]; pushed = 0 }
		for i := it.start; i < len(it.n.b.Instrs); i++ {
			in := it.n.b.Instrs[i]
			if ret, isRet := in.(*ssa.Return); isRet && it.n.fr != nil {
				// the helper returns: the caller goes on after the call
				if q.SinkDeep && q.Sink != nil && q.Sink(ret) {
					res.Found, res.At, res.Path = true, in, pathTo(it.n)
					popCtx()
					return res
				}
				fr := it.n.fr
				enqueue(it.n, node{b: fr.b, fr: fr.up, resume: fr.idx + 1}, fr.idx+1)
				cut = true
				break
			}
			if q.Sink != nil && q.Sink(in) {
				res.Found, res.At, res.Path = true, in, pathTo(it.n)
				popCtx()
				return res
			}
			if q.CutInstr != nil && q.CutInstr(in) {
				cut = true
				break
			}
			if q.Region == nil && q.Descend {
				if h := descendable(q.Fn, in, it.n.fr); h != nil {
					key := [2]interface{}{in, it.n.fr}
					fr := frames[key]
					if fr == nil {
						d := 1
						if it.n.fr != nil {
							d = it.n.fr.depth + 1
						}
						fr = &reachFrame{h: h, cc: in.(ssa.CallInstruction), b: it.n.b, idx: i, up: it.n.fr, depth: d}
						frames[key] = fr
					}
					enqueue(it.n, node{b: h.Blocks[0], fr: fr}, 0)
					cut = true
					break
				}
			}
		}
		if cut {
			popCtx()
			continue
		}
		for si, s := range it.n.b.Succs {
			res.Edges++
			if it.n.pred != nil && !phiBranchFeasible(it.n.b, it.n.pred, si) {
				continue // the branch tests a phi whose value on this incoming edge is a constant
			}
			reachPred = it.n.pred
			cutE := q.CutEdge != nil && q.CutEdge(it.n.b, si)
			sinkE := !cutE && q.SinkEdge != nil && q.SinkEdge(it.n.b, si)
			reachPred = nil
			if cutE {
				continue
			}
			if sinkE {
				res.Found, res.Path = true, append(pathTo(it.n), s)
				res.EdgeHit = [2]*ssa.BasicBlock{it.n.b, s}
				popCtx()
				return res
			}
			if q.Region != nil && !q.Region[s] {
				continue
			}
			nn := node{b: s, fr: it.n.fr}
			if branchesOnOwnPhi(s) {
				nn.pred = it.n.b
			}
			enqueue(it.n, nn, 0)
		}
		popCtx()
	}
	return res
}

// branchesOnOwnPhi: the block ends in an If whose condition is (the negation of) a
// boolean phi defined in the block itself.
func branchesOnOwnPhi(b *ssa.BasicBlock) bool {
	_, ok := ownPhiCond(b)
	return ok
}

func ownPhiCond(b *ssa.BasicBlock) (*ssa.Phi, bool) {
	if len(b.Instrs) == 0 {
		return nil, false
	}
	iff, ok := b.Instrs[len(b.Instrs)-1].(*ssa.If)
	if !ok {
		return nil, false
	}
	c := Decompose(iff.Cond)
	if c.Val == nil {
		return nil, false
	}
	phi, ok := c.Val.(*ssa.Phi)
	if !ok || phi.Block() != b {
		return nil, false
	}
	return phi, true
}

// phiBranchFeasible: entering b from pred, can successor si be taken?
func phiBranchFeasible(b, pred *ssa.BasicBlock, si int) bool {
	phi, ok := ownPhiCond(b)
	if !ok {
		return true
	}
	iff := b.Instrs[len(b.Instrs)-1].(*ssa.If)
	neg := Decompose(iff.Cond).Neg
	feasible := false
	known := false
	for i, p := range b.Preds {
		if p != pred {
			continue
		}
		v, isC := ConstBool(phi.Edges[i])
		if !isC {
			return true
		}
		known = true
		takeTrue := v != neg
		if (takeTrue && si == 0) || (!takeTrue && si == 1) {
			feasible = true
		}
	}
	if !known {
		return true
	}
	return feasible
}

// reachPred is set by ReachQ.Run while the edge predicates of a block that branches on a phi of
// its own are evaluated: the block the path came from. (`x := a && b; if x {` is lowered to a
// boolean phi: entered from the block that computed b, the branch tests b.)
var reachPred *ssa.BasicBlock

// branchCond decomposes the condition the If ending b tests, seen from reachPred when set.
func branchCond(b *ssa.BasicBlock) (Cond, bool) {
	if len(b.Instrs) == 0 {
		return Cond{}, false
	}
	iff, ok := b.Instrs[len(b.Instrs)-1].(*ssa.If)
	if !ok {
		return Cond{}, false
	}
	c := Decompose(iff.Cond)
	if phi, ok := ownPhiCond(b); ok && reachPred != nil {
		var via ssa.Value
		n := 0
		for i, p := range b.Preds {
			if p == reachPred {
				via = phi.Edges[i]
				n++
			}
		}
		if n == 1 {
			if _, isC := ConstBool(via); !isC {
				inner := Decompose(via)
				if c.Neg {
					inner.Neg = !inner.Neg
				}
				return inner, true
			}
		}
	}
	return c, true
}

// edgeFacts lists elementary conditions known to hold (each normalised to be TRUE) when the edge
// succ of b is taken: the branch condition itself, and - when that is a boolean variable computed
// by `x := p && q` (true edge) or `x := p || q` (false edge), which go/ssa lowers to a phi of
// constants and the last operand - the operands.
func edgeFacts(b *ssa.BasicBlock, succ int) []Cond {
	c, ok := branchCond(b)
	if !ok {
		return nil
	}
	if succ == 1 {
		c.Neg = !c.Neg
	}
	out := []Cond{c}
	var expand func(c Cond, depth int)
	expand = func(c Cond, depth int) {
		phi, ok := c.Val.(*ssa.Phi)
		if !ok || depth > 3 || c.Bin != nil {
			return
		}
		if bt, ok := phi.Type().Underlying().(*types.Basic); !ok || bt.Kind() != types.Bool {
			return
		}
		wantTrue := !c.Neg // the phi is true on this edge
		var consts []int
		var vals []ssa.Value
		for i, e := range phi.Edges {
			if bv, isC := ConstBool(e); isC {
				if bv == wantTrue {
					return // the constant alone explains the value: nothing is known about the operands
				}
				consts = append(consts, i)
			} else {
				vals = append(vals, e)
			}
		}
		if len(vals) != 1 || len(consts) == 0 {
			return
		}
		// the last operand has the phi's value
		last := Decompose(vals[0])
		if !wantTrue {
			last.Neg = !last.Neg
		}
		out = append(out, last)
		expand(last, depth+1)
		// every short-circuit test that did NOT jump to the phi with the constant
		pb := phi.Block()
		for _, i := range consts {
			pred := pb.Preds[i]
			if len(pred.Instrs) == 0 {
				continue
			}
			iff, ok := pred.Instrs[len(pred.Instrs)-1].(*ssa.If)
			if !ok || len(pred.Succs) != 2 {
				continue
			}
			pc := Decompose(iff.Cond)
			// the edge into the phi block was NOT taken
			if pred.Succs[0] == pb && pred.Succs[1] != pb {
				pc.Neg = !pc.Neg
			} else if !(pred.Succs[1] == pb && pred.Succs[0] != pb) {
				continue
			}
			out = append(out, pc)
			expand(pc, depth+1)
		}
	}
	expand(c, 0)
	return out
}

// liftFrame: helper h is being analysed on behalf of its call cc.
type liftFrame struct {
	h  *ssa.Function
	cc ssa.CallInstruction
}

var liftCtx []liftFrame

func liftArg(p *ssa.Parameter) ssa.Value {
	for i := len(liftCtx) - 1; i >= 0; i-- {
		fr := liftCtx[i]
		if p.Parent() != fr.h {
			continue
		}
		for j, hp := range fr.h.Params {
			if hp == p && j < len(fr.cc.Common().Args) {
				return fr.cc.Common().Args[j]
			}
		}
	}
	return nil
}

// helperEstablishes: the fact f says that a same-package helper returned nil (its error result)
// or true/false (its boolean result); the atom holds then if, inside the helper, that outcome is
// only reachable across an edge establishing the atom (the helper's parameters standing for the
// call's arguments). This is how a check that was moved into a function of its own
// (`if err := d.checkSize(n); err != nil { return err }`, `if !holdInEffect(h, now) { continue }`)
// keeps gating what it gated before.
var NoLift = os.Getenv("VERIF_NO_LIFT") != ""

func helperEstablishes(f Cond, atoms []Atom, helperCache map[string]bool) bool {
	if NoLift || len(liftCtx) >= 2 {
		return false
	}
	var cc ssa.CallInstruction
	var idx int
	wantNil, wantBool := false, false
	var boolWant bool
	switch {
	case f.Bin != nil && (f.Bin.Op == token.EQL || f.Bin.Op == token.NEQ):
		var other ssa.Value
		if IsNilConst(f.Bin.Y) {
			other = f.Bin.X
		} else if IsNilConst(f.Bin.X) {
			other = f.Bin.Y
		} else {
			return false
		}
		isNil := (f.Bin.Op == token.EQL) != f.Neg
		if !isNil {
			return false
		}
		c2, i2, ok := CallResult(other)
		if !ok {
			return false
		}
		cc, idx, wantNil = c2, i2, true
	case f.Val != nil:
		c2, i2, ok := CallResult(f.Val)
		if !ok {
			return false
		}
		cc, idx, wantBool, boolWant = c2, i2, true, !f.Neg
	default:
		return false
	}
	h := cc.Common().StaticCallee()
	if h == nil || len(h.Blocks) == 0 || h.Pkg == nil || cc.Parent() == nil || h.Pkg != cc.Parent().Pkg || h == cc.Parent() {
		return false
	}
	if wantNil && idx != h.Signature.Results().Len()-1 {
		return false
	}
	key := fmt.Sprintf("%p|%d|%v|%v", cc, idx, wantNil, boolWant)
	if r, ok := helperCache[key]; ok {
		return r
	}
	helperCache[key] = false // recursion guard
	liftCtx = append(liftCtx, liftFrame{h, cc})
	savedPred := reachPred
	reachPred = nil
	defer func() {
		liftCtx = liftCtx[:len(liftCtx)-1]
		reachPred = savedPred
	}()
	cut := AtomEdges(atoms...)
	res := true
	n := 0
	for _, lf := range ReturnLeaves(h, idx) {
		if wantNil {
			if !IsNilConst(lf.Val) {
				// `return g(x)`: the helper returned nil because g did; that is the fact `g(x) == nil`
				if lc, _, isCall := CallResult(lf.Val); isCall {
					if co := CalleeOf(lc); co != nil && co.Pkg() != nil && (co.Pkg().Path() == "fmt" || co.Pkg().Path() == "errors") {
						continue // fmt.Errorf / errors.New: never nil
					}
					n++
					syn := Cond{Bin: &ssa.BinOp{Op: token.EQL, X: lf.Val, Y: ssa.NewConst(nil, lf.Val.Type())}}
					matched := false
					for _, a := range atoms {
						if a.Match(syn) == PolTrue {
							matched = true
						}
					}
					if !matched {
						res = false
					}
				}
				continue
			}
		}
		if wantBool {
			bv, isC := ConstBool(lf.Val)
			if isC && bv != boolWant {
				continue
			}
			if !isC {
				// `return p == q`: the returned condition itself
				lc := Decompose(lf.Val)
				if !boolWant {
					lc.Neg = !lc.Neg
				}
				n++
				matched := false
				for _, a := range atoms {
					if a.Match(lc) == PolTrue {
						matched = true
					}
				}
				if matched {
					continue
				}
				// otherwise it has to be gated like a constant
			}
		}
		n++
		q := ReachQ{Fn: h, CutEdge: cut, Descend: true}
		switch {
		case lf.EdgeFrom != nil:
			if cut(lf.EdgeFrom, lf.EdgeSucc) {
				continue
			}
			from, succ := lf.EdgeFrom, lf.EdgeSucc
			q.SinkEdge = func(b *ssa.BasicBlock, s int) bool { return b == from && s == succ }
		case lf.Instr != nil:
			at := lf.Instr
			q.Sink = func(in ssa.Instruction) bool { return in == at }
		default:
			res = false
			continue
		}
		if q.Run().Found {
			res = false
		}
	}
	if n == 0 {
		res = false
	}
	helperCache[key] = res
	return res
}

// AtomEdges returns a CutEdge function that cuts every edge establishing any of the atoms.
func AtomEdges(atoms ...Atom) func(b *ssa.BasicBlock, succ int) bool {
	cache := map[string]bool{}
	return func(b *ssa.BasicBlock, succ int) bool {
		facts := edgeFacts(b, succ)
		for _, f := range facts {
			for _, a := range atoms {
				if a.Match(f) == PolTrue {
					return true
				}
			}
		}
		for _, f := range facts {
			if helperEstablishes(f, atoms, cache) {
				return true
			}
		}
		return false
	}
}

// CountAtomEdges counts the edges of fn that establish the atom (for vacuity checks).
func CountAtomEdges(fn *ssa.Function, a Atom) int {
	n := countAtomEdgesIn(fn, a)
	if n == 0 && len(liftCtx) < 3 && !NoDescend {
		// the test may sit in a local helper or closure that fn calls (the traversal descends into those)
		for _, hc := range localCalls(fn) {
			liftCtx = append(liftCtx, liftFrame{hc.h, hc.cc})
			n += countAtomEdgesIn(hc.h, a)
			liftCtx = liftCtx[:len(liftCtx)-1]
		}
	}
	return n
}

type localCall struct {
	h  *ssa.Function
	cc ssa.CallInstruction
}

// localCalls lists the calls in fn (and one level down) of unexported same-package functions and
// local closures: the functions ReachQ descends into.
func localCalls(fn *ssa.Function) []localCall {
	var out []localCall
	seen := map[*ssa.Function]bool{fn: true}
	var walk func(f *ssa.Function, depth int)
	walk = func(f *ssa.Function, depth int) {
		for _, b := range f.Blocks {
			for _, in := range b.Instrs {
				h := descendable(fn, in, nil)
				if h == nil || seen[h] {
					continue
				}
				seen[h] = true
				out = append(out, localCall{h, in.(ssa.CallInstruction)})
				if depth < 1 {
					walk(h, depth+1)
				}
			}
		}
	}
	walk(fn, 0)
	return out
}

func countAtomEdgesIn(fn *ssa.Function, a Atom) int {
	n := 0
	ce := AtomEdges(a)
	for _, b := range fn.Blocks {
		for si := range b.Succs {
			if ce(b, si) {
				n++
				continue
			}
			if branchesOnOwnPhi(b) {
				for _, p := range b.Preds {
					reachPred = p
					hit := ce(b, si)
					reachPred = nil
					if hit {
						n++
						break
					}
				}
			}
		}
	}
	return n
}

func OrCutEdges(fs ...func(b *ssa.BasicBlock, succ int) bool) func(b *ssa.BasicBlock, succ int) bool {
	return func(b *ssa.BasicBlock, succ int) bool {
		for _, f := range fs {
			if f != nil && f(b, succ) {
				return true
			}
		}
		return false
	}
}

// PruneGlobalBool cuts the edges on which the package-level boolean g has the value !val.
func PruneGlobalBool(g *ssa.Global, val bool) func(b *ssa.BasicBlock, succ int) bool {
	a := Atom{Name: g.Name(), Match: func(c Cond) Pol { return c.BoolIs(VGlobal(g)) }}
	if val {
		a = Not(a) // cut edges where g is false
	}
	return AtomEdges(a)
}

func (p *Prog) PathString(path []*ssa.BasicBlock) string {
	var parts []string
	for _, b := range path {
		pos := "?"
		for _, in := range b.Instrs {
			if in.Pos().IsValid() {
				pos = p.Pos(in.Pos())
				break
			}
		}
		parts = append(parts, fmt.Sprintf("b%d(%s)", b.Index, pos))
	}
	if len(parts) > 14 {
		parts = append(parts[:7], append([]string{"..."}, parts[len(parts)-6:]...)...)
	}
	return strings.Join(parts, " -> ")
}

// ---------- sinks ----------

// CallSites returns every call instruction in fn (not descending into anon funcs) to one of objs.
func CallSites(fn *ssa.Function, objs ...*types.Func) []ssa.CallInstruction {
	var out []ssa.CallInstruction
	for _, b := range fn.Blocks {
		for _, in := range b.Instrs {
			if c, ok := IsCallTo(in, objs...); ok {
				out = append(out, c)
			}
		}
	}
	return out
}

func LocOf(in ssa.Instruction) *Loc {
	b := in.Block()
	for i, x := range b.Instrs {
		if x == in {
			return &Loc{b, i}
		}
	}
	return nil
}

func SinkIs(target ssa.Instruction) func(ssa.Instruction) bool {
	return func(in ssa.Instruction) bool { return in == target }
}

func SinkCall(objs ...*types.Func) func(ssa.Instruction) bool {
	return func(in ssa.Instruction) bool { _, ok := IsCallTo(in, objs...); return ok }
}

// IsSuccessReturn: a Return whose last (error-typed) result is the nil constant.
func IsSuccessReturn(in ssa.Instruction) bool {
	r, ok := in.(*ssa.Return)
	if !ok || len(r.Results) == 0 {
		return false
	}
	last := r.Results[len(r.Results)-1]
	// results spilled to cells (functions with defers) are resolved to the reaching store
	return IsNilConst(last) || IsNilConst(Strip(last))
}

// MaybeNilReturn: a Return whose last result is not syntactically a non-nil value
// constructed on the spot (used where the success value is a variable).
func ReturnsOf(fn *ssa.Function) []*ssa.Return {
	var out []*ssa.Return
	for _, b := range fn.Blocks {
		if len(b.Instrs) == 0 {
			continue
		}
		if r, ok := b.Instrs[len(b.Instrs)-1].(*ssa.Return); ok {
			out = append(out, r)
		}
	}
	return out
}

// StoresToField returns the Store instructions in fn whose address is field f of any base.
func StoresToField(fn *ssa.Function, f *types.Var) []*ssa.Store {
	var out []*ssa.Store
	for _, b := range fn.Blocks {
		for _, in := range b.Instrs {
			if s, ok := in.(*ssa.Store); ok {
				if fa, ok := s.Addr.(*ssa.FieldAddr); ok && fieldOfAddr(fa) == f {
					out = append(out, s)
				}
			}
		}
	}
	return out
}

// Dominates-like helper built on ReachQ: every path entry->sink passes one of the
// atom edges (CNF: every clause, a disjunction of atoms, must cut).
type Clause []Atom

func (cl Clause) String() string {
	var n []string
	for _, a := range cl {
		n = append(n, a.Name)
	}
	return strings.Join(n, " | ")
}

// CountClauseEdges counts the edges of fn that establish the disjunction of the clause's atoms.
func CountClauseEdges(fn *ssa.Function, cl Clause) int {
	n := 0
	ce := AtomEdges(cl...)
	for _, b := range fn.Blocks {
		for si := range b.Succs {
			if ce(b, si) {
				n++
				continue
			}
			if branchesOnOwnPhi(b) {
				for _, p := range b.Preds {
					reachPred = p
					hit := ce(b, si)
					reachPred = nil
					if hit {
						n++
						break
					}
				}
			}
		}
	}
	return n
}
