package main

import (
	"fmt"
	"go/ast"
	"go/token"
	"go/types"
	"sort"
	"strings"

	"golang.org/x/tools/go/ssa"
)

func init() {
	register(&Property{
		ID:          "C18",
		Roots:       []string{"asserts"},
		Technique:   "guarded-sink + loop-latch reachability on the SSA CFG of Database.Add/Check and the four default checkers; who-may-call Backstore.Put; constant table check of DefaultCheckers",
		Explanation: "Structural necessary conditions for 'only correctly signed, currently valid assertions are accepted': (R1) Database.Add reaches the backstore Put only across Check(assert)==nil on the same assertion; (R2) Database.Check returns nil only with a supported format, a signing key found for (authority-id, sign-key-sha3-384) unless the type has no authority (then authority-id empty), and after the loop over ALL configured checkers advanced only across nil results; (R3) DefaultCheckers contains the four checkers, OpenDatabase falls back to it, and no non-test code configures its own checker list; (R4) CheckSignature returns nil only across verify(content, decodeSignature(sig))==nil on the bytes returned by assert.Signature(), authority==key account, canSign; (R5) findAccountKey only returns a key of the requested authority; the expiry and timestamp checkers return nil for a present key only across the validity predicates; (R6) the set of callers of Backstore.Put is the reviewed one.",
		NotDecided:  "the cryptography itself; the validity-window comparisons inside isValidAt/isValidAssumingCurTimeWithin; that a one-byte mutation changes the verified content.",
		Run:         func(c *Ctx) { runC18(c); runC18x(c); runC18z(c) },
	})
}

// TypeOK: "the comma-ok type assertion of X to T succeeded".
func TypeOK(name string, T types.Type, X func(ssa.Value) bool) Atom {
	return Atom{Name: name, Match: func(c Cond) Pol {
		return c.BoolIs(func(v ssa.Value) bool {
			ex, ok := v.(*ssa.Extract)
			if !ok || ex.Index != 1 {
				return false
			}
			ta, ok := ex.Tuple.(*ssa.TypeAssert)
			return ok && ta.CommaOk && types.Identical(ta.AssertedType, T) && X(ta.X)
		})
	}}
}

// nilLeaves returns the flow points at which fn returns the nil constant as result idx.
func nilLeaves(fn *ssa.Function, idx int) []FlowPoint {
	var out []FlowPoint
	for _, lf := range ReturnLeaves(fn, idx) {
		if IsNilConst(lf.Val) {
			out = append(out, lf)
		}
	}
	return out
}

// implementers lists the named types of pkg whose (pointer) method set implements iface.
func implementers(pkg *types.Package, iface *types.Interface) []*types.TypeName {
	var out []*types.TypeName
	sc := pkg.Scope()
	for _, n := range sc.Names() {
		tn, ok := sc.Lookup(n).(*types.TypeName)
		if !ok || tn.IsAlias() {
			continue
		}
		if _, isI := tn.Type().Underlying().(*types.Interface); isI {
			continue
		}
		if types.Implements(tn.Type(), iface) || types.Implements(types.NewPointer(tn.Type()), iface) {
			out = append(out, tn)
		}
	}
	return out
}

func runC18(c *Ctx) {
	P := c.P
	add := P.Func("asserts.(*Database).Add")
	check := P.Func("asserts.(*Database).Check")
	checkObj := P.FuncObj("asserts.(*Database).Check")
	putObj := P.FuncObj("asserts.Backstore.Put")
	fBS := P.Field("asserts.Database.bs")
	fCheckers := P.Field("asserts.Database.checkers")
	revision := P.FuncObj("asserts.Assertion.Revision")
	_ = revision

	// ---- R1
	c.Rule("C18-R1", "G", "Database.Add: db.bs.Put(ref.Type, assert) <= db.Check(assert)==nil, same assertion value", 3)
	puts := CallsMatching(add, RecvWhere(ToFn(putObj), VField(fBS)))
	okCheck := NilRes("db.Check(assert)==nil", 0, CallWhere(ToFn(checkObj), 1, VParam(add, 1)))
	for i, pc := range puts {
		c.Guarded(fmt.Sprintf("asserts.(*Database).Add#bs.Put#%d", i+1), add, pc, []Clause{{okCheck}}, nil)
		a := CallArgs(pc)
		c.Check(len(a) == 2 && IsParam(a[1], add, 1), fmt.Sprintf("asserts.(*Database).Add#bs.Put-arg#%d", i+1), pc.Pos(), "the assertion stored is the assertion checked", "the assertion handed to Put is not Add's checked argument")
	}
	if len(puts) == 0 {
		c.Undecided("asserts.(*Database).Add#bs.Put", add.Pos(), "no db.bs.Put call found")
	}
	// every nil-capable return of Add is the Put result or an error
	for i, lf := range ReturnLeaves(add, 0) {
		if IsNilConst(lf.Val) {
			c.Violated(fmt.Sprintf("asserts.(*Database).Add#nil-return#%d", i), lf.Pos(), "Add returns success without going through the backstore Put")
		}
	}
	c.Holds("asserts.(*Database).Add#no-bare-success", add.Pos(), "Add has no literal nil return: success is the backstore's verdict")

	// ---- R2
	c.Rule("C18-R2", "G+L", "Database.Check: nil <= SupportedFormat ∧ (authority types: findAccountKey ok | no-authority types: AuthorityID()==\"\") ∧ loop over db.checkers advanced only across checker(...)==nil", 4)
	supported := P.FuncObj("asserts.Assertion.SupportedFormat")
	findKey := P.FuncObj("asserts.(*Database).findAccountKey")
	authorityID := P.FuncObj("asserts.Assertion.AuthorityID")
	signKeyID := P.FuncObj("asserts.Assertion.SignKeyID")
	fFlags := P.Field("asserts.AssertionType.flags")
	cNoAuth := P.Const("asserts.noAuthority")
	isFlagTest := func(v ssa.Value) bool {
		b, ok := Strip(v).(*ssa.BinOp)
		if !ok || b.Op != token.AND {
			return false
		}
		return (IsFieldLoad(b.X, fFlags) && VConstObj(cNoAuth)(b.Y)) || (IsFieldLoad(b.Y, fFlags) && VConstObj(cNoAuth)(b.X))
	}
	hasAuthority := Cmp("typ.flags&noAuthority==0", isFlagTest, token.EQL, VConstInt(0))
	okFind := NilRes("findAccountKey err==nil", 1, ToFn(findKey))
	authEmpty := Cmp(`assert.AuthorityID()==""`, VRes(0, RecvWhere(ToFn(authorityID), VParam(check, 1))), token.EQL, VConstStr(""))
	fmtOK := TrueRes("assert.SupportedFormat()", true, 0, RecvWhere(ToFn(supported), VParam(check, 1)))
	loops := LoopsOver(check, VField(fCheckers))
	nl := nilLeaves(check, 0)
	for i, lf := range nl {
		c.GuardedFlow(fmt.Sprintf("asserts.(*Database).Check#nil-return#%d", i+1), check, lf, []Clause{
			{fmtOK},
			{Not(hasAuthority), okFind},
			{hasAuthority, authEmpty},
		}, nil)
		for _, rl := range loops {
			c.ThroughLoop(fmt.Sprintf("asserts.(*Database).Check#nil-return-after-checkers#%d", i+1), rl, lf)
		}
	}
	if len(nl) == 0 {
		c.Undecided("asserts.(*Database).Check#nil-return", check.Pos(), "no literal nil return found")
	}
	if len(loops) != 1 {
		c.Undecided("asserts.(*Database).Check#checkers-loop", check.Pos(), fmt.Sprintf("expected one range loop over db.checkers, found %d", len(loops)))
	} else {
		rl := loops[0]
		dyn := DynCallOf(VIs(rl.Elem))
		c.LatchGated("asserts.(*Database).Check#checkers-loop", rl, []Clause{{NilRes("checker(...)==nil", 0, dyn)}})
		// arguments handed to each checker
		for _, dc := range CallsMatching(check, dyn) {
			a := dc.Common().Args
			okArgs := len(a) == 5 && IsParam(a[0], check, 1)
			// accKey: result 0 of findAccountKey or nil
			if okArgs {
				for _, lf := range phiLeavesOf(a[1]) {
					if !IsNilConst(lf) && !VRes(0, ToFn(findKey))(lf) {
						okArgs = false
					}
				}
			}
			c.Check(okArgs, "asserts.(*Database).Check#checker-args", dc.Pos(), "each checker receives the assertion being checked and the key found for it (nil for no-authority types)", "a checker is not given the checked assertion / the key that findAccountKey returned")
		}
	}
	// findAccountKey is asked for the assertion's own authority and key id
	for _, fc := range CallSites(check, findKey) {
		a := CallArgs(fc)
		ok := len(a) == 2 && VRes(0, RecvWhere(ToFn(authorityID), VParam(check, 1)))(a[0]) && VRes(0, RecvWhere(ToFn(signKeyID), VParam(check, 1)))(a[1])
		c.Check(ok, "asserts.(*Database).Check#key-lookup-args", fc.Pos(), "key looked up by (assert.AuthorityID(), assert.SignKeyID())", "the signing key is not looked up by the assertion's own authority-id and sign-key id")
	}

	// ---- R3
	c.Rule("C18-R3", "K+W", "DefaultCheckers ⊇ {CheckSigningKeyIsNotExpired, CheckSignature, CheckTimestampVsSigningKeyValidity, CheckCrossConsistency}; OpenDatabase falls back to it; no non-test code sets DatabaseConfig.Checkers or writes Database.checkers elsewhere", 3)
	need := map[string]bool{"CheckSigningKeyIsNotExpired": false, "CheckSignature": false, "CheckTimestampVsSigningKeyValidity": false, "CheckCrossConsistency": false}
	if cl, ok := P.AstVarInit("asserts", "DefaultCheckers").(*ast.CompositeLit); ok {
		for _, e := range cl.Elts {
			if id, ok := e.(*ast.Ident); ok {
				if _, w := need[id.Name]; w {
					need[id.Name] = true
				}
			}
		}
	}
	var missing []string
	for k, v := range need {
		if !v {
			missing = append(missing, k)
		}
	}
	sort.Strings(missing)
	gDefault := P.Global("asserts.DefaultCheckers")
	c.Check(len(missing) == 0, "asserts.DefaultCheckers#table", gDefault.Pos(), "all four default checkers are listed", "DefaultCheckers no longer lists: "+strings.Join(missing, ", "))
	bad := ""
	for _, in := range P.GlobalUses(gDefault) {
		if st, ok := in.(*ssa.Store); ok && st.Parent().Name() != "init" {
			bad += " " + P.Pos(st.Pos())
		}
	}
	c.Check(bad == "", "asserts.DefaultCheckers#writers", gDefault.Pos(), "assigned only by its initialiser", "DefaultCheckers reassigned at"+bad)
	// OpenDatabase: the slice copied into Database.checkers is cfg.Checkers, or DefaultCheckers on the len==0 edge
	open := P.Func("asserts.OpenDatabase")
	fCfgCheckers := P.Field("asserts.DatabaseConfig.Checkers")
	okOpen := false
	for _, b := range open.Blocks {
		for _, in := range b.Instrs {
			ci, ok := in.(*ssa.Call)
			if !ok {
				continue
			}
			if bi, ok := ci.Call.Value.(*ssa.Builtin); ok && bi.Name() == "copy" {
				srcs := phiLeavesOf(ci.Call.Args[1])
				hasCfg, hasDef, other := false, false, false
				for _, s := range srcs {
					switch {
					case IsFieldLoad(s, fCfgCheckers):
						hasCfg = true
					case VGlobal(gDefault)(s):
						hasDef = true
					default:
						other = true
					}
				}
				okOpen = hasCfg && hasDef && !other
			}
		}
	}
	c.Check(okOpen, "asserts.OpenDatabase#checkers-fallback", open.Pos(), "db.checkers is a copy of cfg.Checkers or, when empty, DefaultCheckers", "OpenDatabase no longer falls back to DefaultCheckers when no checkers are configured")
	// stores to Database.checkers
	bad = ""
	nst := 0
	for _, st := range P.FieldStores(fCheckers) {
		nst++
		fn := SSAFuncName(st.Parent())
		if fn != "asserts.OpenDatabase" && fn != "asserts.(*Database).WithStackedBackstore" {
			bad += " " + fn + "@" + P.Pos(st.Pos())
		}
	}
	c.Check(bad == "" && nst >= 1, "asserts.Database.checkers#writers", fCheckers.Pos(), fmt.Sprintf("%d store(s), in OpenDatabase/WithStackedBackstore only", nst), "Database.checkers written in"+bad)
	// nobody configures Checkers (expected 0; the matcher is exercised on DatabaseConfig.Backstore as positive control)
	cfgSetters := func(field string) []string {
		var out []string
		for _, pk := range P.Pkgs {
			for _, file := range pk.Syntax {
				ast.Inspect(file, func(n ast.Node) bool {
					switch x := n.(type) {
					case *ast.KeyValueExpr:
						if id, ok := x.Key.(*ast.Ident); ok && id.Name == field {
							if v, ok := pk.TypesInfo.Uses[id].(*types.Var); ok && v.IsField() && v == types.Object(P.Field("asserts.DatabaseConfig."+field)) {
								out = append(out, P.Pos(x.Pos()))
							}
						}
					case *ast.AssignStmt:
						for _, l := range x.Lhs {
							if se, ok := l.(*ast.SelectorExpr); ok {
								if v, ok := pk.TypesInfo.Uses[se.Sel].(*types.Var); ok && v == types.Object(P.Field("asserts.DatabaseConfig."+field)) {
									out = append(out, P.Pos(x.Pos()))
								}
							}
						}
					}
					return true
				})
			}
		}
		sort.Strings(out)
		return out
	}
	set := cfgSetters("Checkers")
	c.Check(len(set) == 0, "asserts.DatabaseConfig.Checkers#setters", fCfgCheckers.Pos(), "no loaded non-test code configures its own checker list", "custom checker list configured at: "+strings.Join(set, ", "))
	if c.P.Tier == "thorough" {
		ctl := cfgSetters("Backstore")
		c.Check(len(ctl) >= 3, "asserts.DatabaseConfig.Backstore#positive-control", fCfgCheckers.Pos(), fmt.Sprintf("the same matcher finds %d setters of DatabaseConfig.Backstore", len(ctl)), "positive control failed: the setter matcher finds nothing even for DatabaseConfig.Backstore")
	}

	// ---- R4
	c.Rule("C18-R4", "G", "CheckSignature: nil <= verify(content, signature)==nil with (content, encSig)=assert.Signature() and signature=decodeSignature(encSig); with a key: AuthorityID()==key.AccountID() ∧ canSign; without: customSigner only", 2)
	cs := P.Func("asserts.CheckSignature")
	verify := P.FuncObj("asserts.PublicKey.verify")
	sigM := RecvWhere(ToFn(P.FuncObj("asserts.Assertion.Signature")), VParam(cs, 0))
	decode := P.FuncObj("asserts.decodeSignature")
	canSign := P.FuncObj("asserts.(*AccountKey).canSign")
	accountID := P.FuncObj("asserts.(*AccountKey).AccountID")
	customSigner := P.NamedType("asserts.customSigner")
	keyNil := Cmp("signingKey==nil", VParam(cs, 1), token.EQL, isNilVal)
	verifyM := CallWhere(CallWhere(ToFn(verify), 0, VRes(0, sigM)), 1, VRes(0, CallWhere(ToFn(decode), 0, VRes(1, sigM))))
	for i, lf := range nilLeaves(cs, 0) {
		c.GuardedFlow(fmt.Sprintf("asserts.CheckSignature#nil-return#%d", i+1), cs, lf, []Clause{
			{NilRes("pubKey.verify(content, signature)==nil", 0, verifyM)},
			{NilRes("decodeSignature err==nil", 1, ToFn(decode))},
			{keyNil, Cmp("assert.AuthorityID()==signingKey.AccountID()", VRes(0, RecvWhere(ToFn(authorityID), VParam(cs, 0))), token.EQL, VRes(0, RecvWhere(ToFn(accountID), VParam(cs, 1))))},
			{keyNil, TrueRes("signingKey.canSign(assert)", true, 0, CallWhere(ToFn(canSign), 1, VParam(cs, 0)))},
			{Not(keyNil), TypeOK("assert.(customSigner)", customSigner, VParam(cs, 0))},
		}, nil)
	}
	// the key that verifies is the signing key's or the custom signer's
	publicKeyM := RecvWhere(ToFn(P.FuncObj("asserts.(*AccountKey).publicKey")), VParam(cs, 1))
	signKeyM := ToFn(P.FuncObj("asserts.customSigner.signKey"))
	for _, vc := range CallSites(cs, verify) {
		ok := true
		for _, lf := range phiLeavesOf(CallRecv(vc)) {
			if VRes(0, publicKeyM)(lf) || VRes(0, signKeyM)(lf) {
				continue
			}
			// the key chosen by a private helper: key, err := verificationKey(assert, signingKey)
			if hc, hi, isCall := CallResult(lf); isCall {
				if h := hc.Common().StaticCallee(); h != nil && h.Pkg == cs.Pkg && len(h.Blocks) > 0 {
					liftCtx = append(liftCtx, liftFrame{h, hc})
					okH, n := true, 0
					for _, hl := range ReturnLeaves(h, hi) {
						if IsNilConst(hl.Val) {
							continue // returned next to an error
						}
						n++
						if !VRes(0, publicKeyM)(hl.Val) && !VRes(0, signKeyM)(hl.Val) {
							okH = false
						}
					}
					liftCtx = liftCtx[:len(liftCtx)-1]
					if okH && n > 0 {
						c.touch(h)
						continue
					}
				}
			}
			ok = false
		}
		c.Check(ok, "asserts.CheckSignature#verifying-key", vc.Pos(), "the verifying key is signingKey.publicKey() or the custom signer's key", "the key used to verify does not come from the signing key / custom signer")
	}

	// ---- R5
	c.Rule("C18-R5", "G", "findAccountKey returns a hit only when hit.AccountID()==authorityID; CheckSigningKeyIsNotExpired / CheckTimestampVsSigningKeyValidity return nil for a present key only across the validity predicates", 3)
	fk := P.Func("asserts.(*Database).findAccountKey")
	n := 0
	for _, lf := range ReturnLeaves(fk, 0) {
		if IsNilConst(lf.Val) {
			continue
		}
		n++
		c.GuardedFlow(fmt.Sprintf("asserts.(*Database).findAccountKey#hit-return#%d", n), fk, lf, []Clause{
			{Cmp("hit.AccountID()==authorityID", VRes(0, ToFn(accountID)), token.EQL, VParam(fk, 1))},
		}, nil)
	}
	exp := P.Func("asserts.CheckSigningKeyIsNotExpired")
	validWithin := P.FuncObj("asserts.(*AccountKey).isValidAssumingCurTimeWithin")
	for i, lf := range nilLeaves(exp, 0) {
		c.GuardedFlow(fmt.Sprintf("asserts.CheckSigningKeyIsNotExpired#nil-return#%d", i+1), exp, lf, []Clause{
			{Cmp("signingKey==nil", VParam(exp, 1), token.EQL, isNilVal),
				TrueRes("signingKey.isValidAssumingCurTimeWithin(earliest, latest)", true, 0, CallWhere(CallWhere(RecvWhere(ToFn(validWithin), VSelfOrEmbedded(VParam(exp, 1))), 1, VParam(exp, 3)), 2, VParam(exp, 4)))},
		}, nil)
	}
	ts := P.Func("asserts.CheckTimestampVsSigningKeyValidity")
	validAt := P.FuncObj("asserts.(*AccountKey).isValidAt")
	timestamped := P.NamedType("asserts.timestamped")
	tsM := ToFn(P.FuncObj("asserts.timestamped.Timestamp"))
	for i, lf := range nilLeaves(ts, 0) {
		c.GuardedFlow(fmt.Sprintf("asserts.CheckTimestampVsSigningKeyValidity#nil-return#%d", i+1), ts, lf, []Clause{
			{Cmp("signingKey==nil", VParam(ts, 1), token.EQL, isNilVal),
				Not(TypeOK("assert.(timestamped)", timestamped, VParam(ts, 0))),
				TrueRes("signingKey.isValidAt(assert.Timestamp())", true, 0, CallWhere(RecvWhere(ToFn(validAt), VSelfOrEmbedded(VParam(ts, 1))), 1, VRes(0, tsM)))},
		}, nil)
	}

	// ---- R6
	c.Rule("C18-R6", "W", "callers of Backstore.Put (interface and concrete implementations) are the reviewed set", 4)
	allowed := map[string]string{
		"asserts.(*Database).Add":                              "the checked path (R1)",
		"asserts.OpenDatabase":                                 "built-in trusted / predefined assertions from the configuration",
		"asserts.(*Batch).Add":                                 "staging memory store, later committed through Database.Add (CommitTo)",
		"asserts.(*Pool).add":                                  "staging memory store, committed through Database.Add (CommitTo)",
		"asserts.(*memoryBackstore).Put":                       "implementation delegating to its tree",
		"cmd/snap-repair.trustedBackstore":                     "snap-repair's dedicated trust root, built from compiled-in trusted assertions",
		"cmd/snap-repair.findDevInfo16":                        "snap-repair work store for seed account/account-key assertions; the model is then verified against it by verifySignatures",
		"cmd/snap-repair.(*Runner).Verify":                     "snap-repair work/trusted stores handed to verifySignatures (its own signature walk)",
		"tests/lib/fakestore/store.(*Store).collectAssertions": "test-support fake store (not shipped in snapd)",
	}
	var putObjs []*types.Func
	putObjs = append(putObjs, putObj)
	iface := P.NamedType("asserts.Backstore").Underlying().(*types.Interface)
	for _, tn := range implementers(P.Pkgs["asserts"].Types, iface) {
		o, _, _ := types.LookupFieldOrMethod(types.NewPointer(tn.Type()), true, tn.Pkg(), "Put")
		if f, ok := o.(*types.Func); ok {
			putObjs = append(putObjs, f)
		}
	}
	seen := map[string]bool{}
	for _, po := range putObjs {
		for _, u := range P.UsesOf(po) {
			name := SSAFuncName(u.Fn)
			top := name
			if i := strings.Index(top, "$"); i > 0 {
				top = top[:i]
			}
			key := top + "->" + FuncName(po)
			if seen[key] {
				continue
			}
			seen[key] = true
			reason, ok := allowed[top]
			c.Check(ok, "put-caller:"+key, u.Instr.Pos(), "reviewed caller: "+reason, "new caller of Backstore.Put outside the reviewed set: "+name+" (assertions could enter a store without Database.Check)")
		}
	}
}

// phiLeavesOf expands a value through phis into its leaf values.
func phiLeavesOf(v ssa.Value) []ssa.Value {
	var fps []FlowPoint
	phiLeaves(v, nil, &fps, map[*ssa.Phi]bool{})
	var out []ssa.Value
	for _, f := range fps {
		out = append(out, f.Val)
	}
	return out
}
