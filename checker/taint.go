package main

import (
	"go/token"
	"go/types"

	"golang.org/x/tools/go/ssa"
)

// DependsOn reports whether v is computed from a value satisfying src through
// arithmetic, conversions and phis only (no calls, no loads from memory other
// than single-store cells).
func DependsOn(v ssa.Value, src func(ssa.Value) bool) bool {
	seen := map[ssa.Value]bool{}
	var rec func(v ssa.Value, d int) bool
	rec = func(v ssa.Value, d int) bool {
		if v == nil || d > 24 || seen[v] {
			return false
		}
		seen[v] = true
		if src(v) {
			return true
		}
		s := Strip(v)
		if s != v {
			if src(s) {
				return true
			}
			return rec(s, d+1)
		}
		switch x := v.(type) {
		case *ssa.BinOp:
			return rec(x.X, d+1) || rec(x.Y, d+1)
		case *ssa.UnOp:
			if x.Op == token.SUB || x.Op == token.XOR {
				return rec(x.X, d+1)
			}
		case *ssa.Phi:
			for _, e := range x.Edges {
				if rec(e, d+1) {
					return true
				}
			}
		}
		return false
	}
	return rec(v, 0)
}

// SizeUse is a place where an integer value is consumed as an allocation size,
// a slice bound, an index or the size argument of a named reader.
type SizeUse struct {
	Instr ssa.Instruction
	Role  string
	Val   ssa.Value
}

// SizeUses lists the size-like uses in fn; sizeCalls names functions whose
// listed argument index (receiver included) is a size.
func SizeUses(fn *ssa.Function, sizeCalls map[*types.Func]int) []SizeUse {
	var out []SizeUse
	add := func(in ssa.Instruction, role string, v ssa.Value) {
		if v != nil {
			out = append(out, SizeUse{in, role, v})
		}
	}
	for _, b := range fn.Blocks {
		for _, in := range b.Instrs {
			switch x := in.(type) {
			case *ssa.MakeSlice:
				add(in, "make-len", x.Len)
				if x.Cap != x.Len {
					add(in, "make-cap", x.Cap)
				}
			case *ssa.MakeMap:
				add(in, "makemap-reserve", x.Reserve)
			case *ssa.MakeChan:
				add(in, "makechan-size", x.Size)
			case *ssa.Slice:
				add(in, "slice-low", x.Low)
				add(in, "slice-high", x.High)
				add(in, "slice-max", x.Max)
			case *ssa.IndexAddr:
				add(in, "index", x.Index)
			case *ssa.Index:
				add(in, "index", x.Index)
			case *ssa.Lookup:
				if _, isMap := x.X.Type().Underlying().(*types.Map); !isMap {
					add(in, "index", x.Index)
				}
			case ssa.CallInstruction:
				co := CalleeOf(x)
				if co == nil {
					continue
				}
				for f, idx := range sizeCalls {
					if co == f.Origin() && idx < len(x.Common().Args) {
						add(in, "size-arg:"+FuncName(f), x.Common().Args[idx])
					}
				}
			}
		}
	}
	return out
}

func VConstAnyInt(v ssa.Value) bool { _, ok := ConstInt(v); return ok }

// LowerBoundAtoms / UpperBoundAtoms: branch outcomes that bound the value matched by X.
func LowerBoundAtoms(name string, X func(ssa.Value) bool) Clause {
	return Clause{
		Cmp(name+">=K", X, token.GEQ, VConstAnyInt),
		Cmp(name+">K", X, token.GTR, VConstAnyInt),
		Cmp(name+"==v", X, token.EQL, anyVal),
	}
}

func UpperBoundAtoms(name string, X func(ssa.Value) bool) Clause {
	return Clause{
		Cmp(name+"<=v", X, token.LEQ, anyVal),
		Cmp(name+"<v", X, token.LSS, anyVal),
		Cmp(name+"==v", X, token.EQL, anyVal),
	}
}
