package main

import (
	"fmt"
	"go/token"
	"go/types"
	"strings"

	"golang.org/x/tools/go/ssa"
)

func init() {
	register(&Property{
		ID:          "C10",
		Roots:       []string{"overlord/snapstate", "overlord/configstate/config"},
		Technique:   "do/undo pairing over the handler pairs registered with TaskRunner.AddHandler: task-data key agreement, save-before-mutate / restore-from-saved field provenance (SSA) for link-snap, guarded-sink of snapstate.Set by the backend effect in every link/unlink handler, deferred-cleanup registration after the backend effect; who-may-write of the \"snaps\" state key",
		Explanation: "Structural necessary conditions for 'a failed install/refresh/revert leaves the snap as it was': (R1) for every (do, undo) pair registered by the snap manager, every old-* task-data key saved by do is read by its undo and every old-* key read by an undo is saved by a do paired with it; (R2) link-snap: each field of the recorded snap state that the property lists and doLinkSnap changes (current revision, tracking channel, try/dev/jail/classic flags, ignore-validation, cohort key, refresh-inhibited and last-refresh times, revert status, position of the candidate in the sequence) is saved under an old-* key from a read of that same field that no change of the field can precede, the save is on every path to the state write, and undoLinkSnap writes the field back from that same key (Active back to false) before its own state write; (R3) each do handler with a backend effect has the inverse effect in its undo (link/unlink, setup/undo-setup, copy/undo-copy data); (R4) in doLinkSnap the clean-up closure that unlinks (or relinks the old snapd) is deferred right after backend.LinkSnap on every path that can still fail, and acts only when the handler's error result is set; (R5) every do and undo handler that links or unlinks a snap writes the snap state only after that backend effect succeeded (sibling agreement); (R6) the \"snaps\" state key is written only by snapstate.Set; (R7) the undo bookkeeping helpers are exhaustive: countMissingRevs leaves its loop over the recorded revisions only by exhausting it, and SaveRevisionConfig, once the snap has a configuration, overwrites the saved copy of that revision and stores the map on every successful return.",
		NotDecided:  "the index arithmetic of re-inserting the candidate beyond countMissingRevs being exhaustive; contents of the saved revision configuration; aliases; that every task of the change has such a pair (the other kinds are covered by R1/R3 only).",
		Run:         func(c *Ctx) { runC10(c); runC10y(c); runC10z(c) },
	})
}

// VPhiAll: the value, or every incoming edge of the phi it is, satisfies pred.
func VPhiAll(pred func(ssa.Value) bool) func(ssa.Value) bool {
	return func(v ssa.Value) bool {
		seen := map[*ssa.Phi]bool{}
		n := 0
		var rec func(v ssa.Value) bool
		rec = func(v ssa.Value) bool {
			if pred(v) {
				n++
				return true
			}
			phi, ok := stripNoCell(v).(*ssa.Phi)
			if !ok {
				return false
			}
			if seen[phi] {
				return true
			}
			seen[phi] = true
			for _, e := range phi.Edges {
				if IsNilConst(e) {
					continue
				}
				if !rec(e) {
					return false
				}
			}
			return true
		}
		return rec(v) && n > 0
	}
}

type c10Field struct {
	field string // SnapState field
	key   string // task-data key
	mapTy bool   // map-typed: the save must precede every in-place mutation
	cond  bool   // the restore in undo may be conditional (back-compat with tasks lacking the key)
}

var c10LinkFields = []c10Field{
	{"Current", "old-current", false, false},
	{"TrackingChannel", "old-channel", false, false},
	{"TryMode", "old-trymode", false, false},
	{"DevMode", "old-devmode", false, false},
	{"JailMode", "old-jailmode", false, false},
	{"Classic", "old-classic", false, false},
	{"IgnoreValidation", "old-ignore-validation", false, false},
	{"CohortKey", "old-cohort-key", false, false},
	{"RefreshInhibitedTime", "old-refresh-inhibited-time", false, false},
	{"LastRefreshTime", "old-last-refresh-time", false, false},
	{"RevertStatus", "old-revert-status", true, true},
}

func runC10(c *Ctx) {
	P := c.P
	pkg := "overlord/snapstate"
	mgr := P.Func(pkg + ".Manager")
	pairs := P.HandlerPairs(mgr)

	// ---------------- R1
	c.Rule("C10-R1", "P-a", "task-data key agreement of every (do, undo) pair registered by snapstate.Manager", 20)
	undoDos := map[*ssa.Function][]*ssa.Function{}
	for _, hp := range pairs {
		if hp.Undo != nil && hp.Do != nil {
			undoDos[hp.Undo] = append(undoDos[hp.Undo], hp.Do)
		}
	}
	onParam := func(fn *ssa.Function) func(ssa.Value) bool {
		return func(v ssa.Value) bool {
			// the handler's own task: parameter 1 of the method (receiver is 0)
			for i := range fn.Params {
				if ResolvesToParam(v, fn, i) && isTaskPtr(fn.Params[i].Type()) {
					return true
				}
			}
			return false
		}
	}
	nPairs := 0
	for _, hp := range pairs {
		if hp.Undo == nil || hp.Do == nil {
			continue
		}
		nPairs++
		c.touch(hp.Do)
		c.touch(hp.Undo)
		doSets := keySet(P.TaskKeyUses(hp.Do, "Set", onParam(hp.Do)))
		undoGets := keySet(P.TaskKeyUses(hp.Undo, "Get", onParam(hp.Undo)))
		var orphanSaves, orphanReads []string
		for k := range doSets {
			if strings.HasPrefix(k, "old-") && !undoGets[k] {
				orphanSaves = append(orphanSaves, k)
			}
		}
		for k := range undoGets {
			if !strings.HasPrefix(k, "old-") {
				continue
			}
			saved := false
			for _, d := range undoDos[hp.Undo] {
				if keySet(P.TaskKeyUses(d, "Set", onParam(d)))[k] {
					saved = true
				}
			}
			if !saved {
				orphanReads = append(orphanReads, k)
			}
		}
		construct := fmt.Sprintf("%s#keys:%s", hp.Kind, SSAFuncName(hp.Do)[strings.LastIndex(SSAFuncName(hp.Do), ".")+1:])
		c.Check(len(orphanSaves) == 0 && len(orphanReads) == 0, construct, hp.Site.Pos(),
			fmt.Sprintf("do saves %v; undo reads %v", onlyOld(doSets), onlyOld(undoGets)),
			fmt.Sprintf("task kind %q: keys saved by %s but never read by %s: %v; keys read by the undo but saved by no paired do: %v (the undo restores a zero value, or the saved state is lost)", hp.Kind, SSAFuncName(hp.Do), SSAFuncName(hp.Undo), orphanSaves, orphanReads))
	}
	if nPairs == 0 {
		c.Undecided(pkg+".Manager#pairs", mgr.Pos(), "no AddHandler registrations with an undo found")
	}

	// ---------------- R2
	c.Rule("C10-R2", "P-b", "link-snap: every listed SnapState field changed by doLinkSnap is saved from a read preceding the change, on every path to the state write, and restored from the same key by undoLinkSnap", 40)
	do := P.Func(pkg + ".(*SnapManager).doLinkSnap")
	undo := P.Func(pkg + ".(*SnapManager).undoLinkSnap")
	susObj := P.FuncObj(pkg + ".snapSetupAndState")
	setObj := P.FuncObj(pkg + ".Set")
	snapstOf := VRes(1, ToFn(susObj))
	taskSet := P.FuncObj("overlord/state.(*Task).Set")
	taskGet := P.FuncObj("overlord/state.(*Task).Get")
	stT := P.NamedType(pkg + ".SnapState")
	fieldByName := func(n string) *types.Var {
		obj, _, _ := types.LookupFieldOrMethod(stT, true, P.Pkgs[pkg].Types, n)
		v, ok := obj.(*types.Var)
		if !ok || !v.IsField() {
			anchorFail(pkg+".SnapState."+n, "field not found")
		}
		return v
	}
	snapstBase := VSelfOrEmbedded(snapstOf)
	doStateSets := CallSites(do, setObj)
	undoStateSets := CallSites(undo, setObj)
	if len(doStateSets) == 0 || len(undoStateSets) == 0 {
		c.Undecided("link-snap#state-write", do.Pos(), "snapstate.Set call not found in doLinkSnap/undoLinkSnap")
		return
	}
	for _, lf := range c10LinkFields {
		f := fieldByName(lf.field)
		muts := FieldMutations(do, f, snapstBase)
		// the save
		var save ssa.CallInstruction
		var savedLoad ssa.Value
		for _, sc := range CallSites(do, taskSet) {
			a := CallArgs(sc)
			if k, ok := ConstString(a[0]); ok && k == lf.key {
				save = sc
				v := a[1]
				if mi, ok := v.(*ssa.MakeInterface); ok {
					v = mi.X
				}
				savedLoad = v
			}
		}
		name := "link-snap#" + lf.field
		if save == nil {
			c.Violated(name+"#saved", do.Pos(), fmt.Sprintf("doLinkSnap does not save SnapState.%s under %q: undoLinkSnap cannot put it back", lf.field, lf.key))
			continue
		}
		base, g, isLoad := FieldLoad(savedLoad)
		okSrc := isLoad && g == f && snapstBase(base)
		c.Check(okSrc, name+"#saved-from-field", save.Pos(), fmt.Sprintf("%q is saved from a read of snapst.%s", lf.key, lf.field), fmt.Sprintf("the value saved under %q is not a read of snapst.%s", lf.key, lf.field))
		if okSrc {
			// no change of the field can precede the read that is saved
			ld := Strip(savedLoad).(ssa.Instruction)
			bad := ""
			for _, m := range muts {
				q := ReachQ{Fn: do, From: LocOf(m), Sink: SinkIs(ld)}
				if r := q.Run(); r.Found {
					bad = P.Pos(m.Pos())
				}
				c.cur.Blocks++
			}
			c.Check(bad == "", name+"#read-before-change", ld.Pos(), "the saved value is read before doLinkSnap changes the field", fmt.Sprintf("snapst.%s is changed (at %s) before the value saved under %q is read: the undo restores the new value", lf.field, bad, lf.key))
		}
		if lf.mapTy {
			// saved by serialisation at Set time: every in-place mutation must come after the save on every path
			for i, m := range muts {
				c.Before(fmt.Sprintf("%s#saved-before-mutation#%d", name, i+1), do, SinkIs(save), fmt.Sprintf("t.Set(%q, snapst.%s)", lf.key, lf.field), m, nil)
			}
		}
		// the save is on every path to the state write
		for i, ss := range doStateSets {
			c.Before(fmt.Sprintf("%s#saved-on-every-path#%d", name, i+1), do, SinkIs(save), fmt.Sprintf("t.Set(%q, ...)", lf.key), ss, nil)
		}
		// undo: restored from the same key
		var cell *ssa.Alloc
		for _, gc := range CallSites(undo, taskGet) {
			if k, ok := ConstString(CallArgs(gc)[0]); ok && k == lf.key {
				cell = GetCell(gc)
			}
		}
		if cell == nil {
			c.Violated(name+"#restored", undo.Pos(), fmt.Sprintf("undoLinkSnap does not read %q", lf.key))
			continue
		}
		var restore *ssa.Store
		for _, m := range FieldMutations(undo, f, snapstBase) {
			if st, ok := m.(*ssa.Store); ok && IsLoadOfCell(st.Val, cell) {
				restore = st
			}
		}
		if restore == nil {
			c.Violated(name+"#restored", undo.Pos(), fmt.Sprintf("undoLinkSnap reads %q but does not write it back to snapst.%s", lf.key, lf.field))
			continue
		}
		for i, ss := range undoStateSets {
			if lf.cond {
				q := ReachQ{Fn: undo, From: LocOf(restore), Sink: SinkIs(ss)}
				c.Check(q.Run().Found, fmt.Sprintf("%s#restored-before-write#%d", name, i+1), restore.Pos(), "the restore precedes the state write", fmt.Sprintf("snapst.%s is restored after the state write", lf.field))
				// the restore may be skipped only for a non-revert task that does not carry the key
				// (written by an older snapd): !snapsup.Revert and t.Get(key) failing
				var getCall ssa.CallInstruction
				for _, gc := range CallSites(undo, taskGet) {
					if k, ok := ConstString(CallArgs(gc)[0]); ok && k == lf.key {
						getCall = gc
					}
				}
				fRev := P.Field(pkg + ".Flags.Revert")
				notRevertU := Atom{Name: "!snapsup.Revert", Match: func(cd Cond) Pol { return cd.BoolIs(VField(fRev)).Flip() }}
				getFailed := Not(ErrNil("t.Get("+lf.key+")==nil", VCellAll(func(v ssa.Value) bool {
					cc, ok := v.(*ssa.Call)
					return ok && ssa.CallInstruction(cc) == getCall
				})))
				c.Guarded(fmt.Sprintf("%s#restore-skipped-only-without-key#%d", name, i+1), undo, ss, []Clause{{notRevertU}, {getFailed}}, &GOpt{CutInstr: SinkIs(restore)})
			} else {
				c.Before(fmt.Sprintf("%s#restored-before-write#%d", name, i+1), undo, SinkIs(restore), fmt.Sprintf("snapst.%s = %s", lf.field, lf.key), ss, nil)
			}
		}
	}
	// Active: true in do, false in undo, before the state write
	fActive := fieldByName("Active")
	for _, side := range []struct {
		fn   *ssa.Function
		want bool
		sets []ssa.CallInstruction
	}{{do, true, doStateSets}, {undo, false, undoStateSets}} {
		var st *ssa.Store
		for _, m := range FieldMutations(side.fn, fActive, snapstBase) {
			if s, ok := m.(*ssa.Store); ok {
				if v, isC := ConstBool(s.Val); isC && v == side.want {
					st = s
				}
			}
		}
		nm := fmt.Sprintf("link-snap#Active=%v:%s", side.want, side.fn.Name())
		if st == nil {
			c.Violated(nm, side.fn.Pos(), fmt.Sprintf("%s does not set snapst.Active = %v", side.fn.Name(), side.want))
			continue
		}
		for i, ss := range side.sets {
			c.Before(fmt.Sprintf("%s#%d", nm, i+1), side.fn, SinkIs(st), fmt.Sprintf("snapst.Active = %v", side.want), ss, nil)
		}
	}
	// position in the sequence: the index saved is LastIndex(candidate) computed before the sequence is touched
	fSeq := fieldByName("Sequence")
	lastIndex := P.FuncObj(pkg + ".(*SnapState).LastIndex")
	for _, sc := range CallSites(do, taskSet) {
		a := CallArgs(sc)
		if k, _ := ConstString(a[0]); k != "old-candidate-index" {
			continue
		}
		v := a[1]
		if mi, ok := v.(*ssa.MakeInterface); ok {
			v = mi.X
		}
		okIdx := VRes(0, ToFn(lastIndex))(v)
		c.Check(okIdx, "link-snap#Sequence#index-saved", sc.Pos(), "old-candidate-index is the candidate's LastIndex", "old-candidate-index is not the result of snapst.LastIndex(candidate)")
		if okIdx {
			ic, _, _ := CallResult(v)
			bad := ""
			for _, b := range do.Blocks {
				for _, in := range b.Instrs {
					st, ok := in.(*ssa.Store)
					if !ok {
						continue
					}
					// stores into snapst.Sequence.Revisions (field or elements)
					if addrUnderField(st.Addr, fSeq) {
						if (ReachQ{Fn: do, From: LocOf(st), Sink: SinkIs(ic.(ssa.Instruction))}).Run().Found {
							bad = P.Pos(st.Pos())
						}
					}
				}
			}
			c.Check(bad == "", "link-snap#Sequence#index-before-change", ic.Pos(), "the index is computed before the sequence is modified", "the sequence is modified (at "+bad+") before old-candidate-index is computed")
		}
	}
	for _, k := range []string{"old-candidate-index", "old-revs-before-cand"} {
		found := false
		for _, sc := range CallSites(do, taskSet) {
			if kk, _ := ConstString(CallArgs(sc)[0]); kk == k {
				found = true
				for i, ss := range doStateSets {
					c.Before(fmt.Sprintf("link-snap#Sequence#%s-saved-on-every-path#%d", k, i+1), do, SinkIs(sc), "t.Set("+k+")", ss, nil)
				}
			}
		}
		if !found {
			c.Violated("link-snap#Sequence#"+k, do.Pos(), "doLinkSnap does not save "+k)
		}
	}

	// ---------------- R3
	c.Rule("C10-R3", "P-c", "backend effect of a do handler has its inverse in the paired undo", 5)
	inv := []struct{ kind, doEff, undoEff string }{
		{"link-snap", "LinkSnap", "UnlinkSnap"},
		{"unlink-current-snap", "UnlinkSnap", "LinkSnap"},
		{"unlink-snap", "UnlinkSnap", "LinkSnap"},
		{"mount-snap", "SetupSnap", "UndoSetupSnap"},
		{"copy-snap-data", "CopySnapData", "UndoCopySnapData"},
	}
	beMethod := func(n string) *types.Func { return P.FuncObj(pkg + ".managerBackend." + n) }
	for _, iv := range inv {
		var hp *HandlerPair
		for i := range pairs {
			if pairs[i].Kind == iv.kind {
				hp = &pairs[i]
			}
		}
		if hp == nil || hp.Do == nil || hp.Undo == nil {
			c.Violated("pair:"+iv.kind, mgr.Pos(), "task kind "+iv.kind+" is no longer registered with both a do and an undo handler")
			continue
		}
		c.touch(hp.Do)
		c.touch(hp.Undo)
		nd := len(callsDeep(hp.Do, beMethod(iv.doEff)))
		nu := len(callsDeep(hp.Undo, beMethod(iv.undoEff)))
		c.Check(nd > 0 && nu > 0, "pair:"+iv.kind+"#"+iv.doEff+"<->"+iv.undoEff, hp.Site.Pos(), fmt.Sprintf("do calls backend.%s, undo calls backend.%s", iv.doEff, iv.undoEff), fmt.Sprintf("%s: do calls backend.%s %d times but its undo calls backend.%s %d times: the effect is not reverted when the change fails", iv.kind, iv.doEff, nd, iv.undoEff, nu))
	}

	// ---------------- R4
	c.Rule("C10-R4", "P-d", "doLinkSnap: after backend.LinkSnap the clean-up closure is deferred before any return, and acts only when the error result is set", 3)
	linkM := ToFn(beMethod("LinkSnap"))
	unlinkM := ToFn(beMethod("UnlinkSnap"))
	links := CallsMatching(do, linkM)
	if len(links) != 1 {
		c.Undecided("doLinkSnap#link-call", do.Pos(), fmt.Sprintf("expected one backend.LinkSnap call in doLinkSnap, found %d", len(links)))
	} else {
		lk := links[0]
		// the cleanup closure: deferred, contains UnlinkSnap
		var cleanup *ssa.Function
		var deferIn ssa.Instruction
		for _, b := range do.Blocks {
			for _, in := range b.Instrs {
				d, ok := in.(*ssa.Defer)
				if !ok {
					continue
				}
				if fn := StaticFn(d); fn != nil && len(CallsMatching(fn, unlinkM)) > 0 {
					cleanup, deferIn = fn, in
				}
			}
		}
		if cleanup == nil {
			c.Violated("doLinkSnap#cleanup-deferred", lk.Pos(), "doLinkSnap no longer defers a closure that unlinks the snap: a failure after backend.LinkSnap leaves the new revision linked while the state keeps the old one")
		} else {
			q := ReachQ{Fn: do, From: LocOf(lk), CutInstr: SinkIs(deferIn), Sink: func(in ssa.Instruction) bool { _, ok := in.(*ssa.Return); return ok }}
			r := q.Run()
			c.Check(!r.Found, "doLinkSnap#cleanup-deferred", deferIn.Pos(), "the clean-up is registered before any return that follows backend.LinkSnap", "doLinkSnap can return after backend.LinkSnap without having deferred the clean-up: "+P.PathString(r.Path))
			// inside: effects only when IsErrAndNotWait(err)
			isErr := P.FuncObj(pkg + ".IsErrAndNotWait")
			gate := TrueRes("IsErrAndNotWait(err)", true, 0, ToFn(isErr))
			for i, ec := range append(CallsMatching(cleanup, unlinkM), CallsMatching(cleanup, linkM)...) {
				c.Guarded(fmt.Sprintf("doLinkSnap$cleanup#effect-only-on-error#%d", i+1), cleanup, ec, []Clause{{gate}}, nil)
			}
			// and the function is not left before the effect when the error is set
			for i, rt := range ReturnsOf(cleanup) {
				_ = i
				_ = rt
			}
			q2 := ReachQ{Fn: cleanup, CutEdge: AtomEdges(Not(gate)), CutInstr: func(in ssa.Instruction) bool {
				ci, ok := in.(ssa.CallInstruction)
				return ok && (unlinkM(ci) || linkM(ci))
			}, Sink: func(in ssa.Instruction) bool { _, ok := in.(*ssa.Return); return ok }}
			r2 := q2.Run()
			c.Check(!r2.Found, "doLinkSnap$cleanup#always-reverts-on-error", cleanup.Pos(), "with the error set the clean-up always unlinks or relinks", "the clean-up closure can return without unlinking/relinking although the handler failed (extra condition): "+P.PathString(r2.Path))
			// the error tested is the handler's named result
			res := ResultCell(do, 0)
			okRes := false
			for _, ic := range CallSites(cleanup, isErr) {
				a := ic.Common().Args[0]
				if u, ok := a.(*ssa.UnOp); ok {
					if fv, ok := u.X.(*ssa.FreeVar); ok {
						for bi, bnd := range deferIn.(*ssa.Defer).Call.Value.(*ssa.MakeClosure).Bindings {
							if cleanup.FreeVars[bi] == fv && bnd == ssa.Value(res) {
								okRes = true
							}
						}
					}
				}
			}
			c.Check(okRes && res != nil, "doLinkSnap$cleanup#tests-result", cleanup.Pos(), "the closure tests the handler's error result", "the clean-up closure does not test doLinkSnap's named error result")
		}
	}

	// ---------------- R5
	c.Rule("C10-R5", "G", "every do/undo handler that links or unlinks writes the snap state only after the backend effect succeeded", 6)
	for _, h := range []struct {
		fn   string
		effs []string
	}{
		{"doLinkSnap", []string{"LinkSnap"}},
		{"doUnlinkSnap", []string{"UnlinkSnap"}},
		{"doUnlinkCurrentSnap", []string{"UnlinkSnap"}},
		{"undoLinkSnap", []string{"UnlinkSnap", "LinkSnap"}},
		{"undoUnlinkCurrentSnap", []string{"LinkSnap"}},
		{"undoUnlinkSnap", []string{"LinkSnap"}},
	} {
		fn := P.Func(pkg + ".(*SnapManager)." + h.fn)
		var ms []CallM
		for _, e := range h.effs {
			ms = append(ms, ToFn(beMethod(e)))
		}
		effM := AnyCall(ms...)
		isEffErr := VPhiAll(func(v ssa.Value) bool {
			cc, idx, ok := CallResult(v)
			if !ok || !effM(cc) {
				return false
			}
			res := cc.Common().Signature().Results()
			return idx < res.Len() && isErrorType(res.At(idx).Type())
		})
		okEff := ErrNil("backend."+strings.Join(h.effs, "|")+" ok", isEffErr)
		sets := CallSites(fn, setObj)
		if len(sets) == 0 {
			c.Violated(h.fn+"#state-write", fn.Pos(), h.fn+" no longer writes the snap state")
			continue
		}
		for i, ss := range sets {
			cl := Clause{okEff}
			if h.fn == "doUnlinkCurrentSnap" {
				// documented exception: the current symlink of the snapd snap is only ever replaced,
				// never removed, on refresh; that branch has no effect to wait for
				typeObj := P.FuncObj("snap.(*Info).Type")
				cl = append(cl, Cmp("oldInfo.Type()==snap.TypeSnapd", VRes(0, ToFn(typeObj)), token.EQL, VConstObj(P.Const("snap.TypeSnapd"))))
			}
			c.Guarded(fmt.Sprintf("%s#state-write<=effect#%d", h.fn, i+1), fn, ss, []Clause{cl}, nil)
		}
	}

	// ---------------- R8
	c.Rule("C10-R8", "G+O", "link-snap: nothing fallible follows the state write (\"do at the end so we only preserve the new state if it worked\"), and the handler itself records the final task status once the state is written", 4)
	taskGet = P.FuncObj("overlord/state.(*Task).Get")
	chgGet := P.FuncObj("overlord/state.(*Change).Get")
	finishMaybe := P.FuncObj(pkg + ".(*SnapManager).finishTaskWithMaybeRestart")
	finishRestart := P.FuncObj(pkg + ".FinishTaskWithRestart")
	setStatus := P.FuncObj("overlord/state.(*Task).SetStatus")
	statusCall := func(in ssa.Instruction) bool {
		_, ok := IsCallTo(in, setStatus, finishMaybe, finishRestart)
		return ok
	}
	for _, hn := range []string{"doLinkSnap", "undoLinkSnap"} {
		fn := P.Func(pkg + ".(*SnapManager)." + hn)
		sets := CallSites(fn, setObj)
		if len(sets) != 1 {
			c.Undecided(hn+"#single-state-write", fn.Pos(), fmt.Sprintf("expected one Set(st, name, snapst), found %d", len(sets)))
			continue
		}
		set := sets[0]
		// (a) the final status is recorded by the handler on every accepting path after the write
		r := ReachQ{Fn: fn, From: LocOf(set), CutInstr: statusCall, Sink: IsSuccessReturn}.Run()
		c.Check(!r.Found, hn+"#final-status-set-with-state-write", set.Pos(), "SetStatus / FinishTaskWithRestart follows the state write on every accepting path", hn+" can return success after writing the snap state without recording the task's final status itself: a crash between the handler's checkpoint and the runner's makes the task run again on the already-updated state: "+P.PathString(r.Path))
		if hn != "doLinkSnap" {
			continue
		}
		// (b) error results produced after the write come only from decoding task/change data
		errIdx := fn.Signature.Results().Len() - 1
		cell := ResultCell(fn, errIdx)
		classify := func(v ssa.Value) string {
			v = Strip(v)
			if IsNilConst(v) {
				return ""
			}
			if cc, _, ok := CallResult(v); ok {
				if _, is := IsCallTo(cc, taskGet, chgGet, finishMaybe, finishRestart); is {
					return ""
				}
				if co := CalleeOf(cc); co != nil {
					return FuncName(co)
				}
			}
			return "a computed error"
		}
		nAfter := 0
		report := func(pos token.Pos, what string) {
			nAfter++
			c.Check(what == "", fmt.Sprintf("%s#error-after-state-write#%d", hn, nAfter), pos, "only task/change data decoding can fail after the write", hn+" can fail with the error of "+what+" after it has written the new snap state: the task ends in Error, its own undo never runs, and the earlier tasks are undone against the new state")
		}
		if cell != nil {
			stores, _ := cellStores(cell)
			for _, st := range stores {
				if !(ReachQ{Fn: fn, From: LocOf(set), Sink: SinkIs(st)}).Run().Found {
					continue
				}
				var leaves []FlowPoint
				phiLeaves(st.Val, st, &leaves, map[*ssa.Phi]bool{})
				for _, lf := range leaves {
					report(lf.Pos(), classify(lf.Val))
				}
			}
		} else {
			for _, rt := range ReturnsOf(fn) {
				if !(ReachQ{Fn: fn, From: LocOf(set), Sink: SinkIs(rt)}).Run().Found {
					continue
				}
				var leaves []FlowPoint
				phiLeaves(rt.Results[errIdx], rt, &leaves, map[*ssa.Phi]bool{})
				for _, lf := range leaves {
					report(lf.Pos(), classify(lf.Val))
				}
			}
		}
		if nAfter == 0 {
			c.Undecided(hn+"#error-after-state-write", set.Pos(), "no result after the state write was found")
		}
	}

	// ---------------- R7
	c.Rule("C10-R7", "L+O", "undo bookkeeping helpers are exhaustive: countMissingRevs examines every recorded revision; SaveRevisionConfig, once the snap has a configuration, always overwrites the saved copy of that revision and stores it", 3)
	cmr := P.Func(pkg + ".countMissingRevs")
	c.touch(cmr)
	var revLoop *RangeLoop
	for _, rl := range RangeLoops(cmr) {
		if rl.Coll != nil && IsParam(rl.Coll, cmr, 0) {
			revLoop = rl
		}
	}
	if revLoop == nil {
		c.Undecided(pkg+".countMissingRevs#loop", cmr.Pos(), "loop over the recorded revisions not found")
	} else {
		for i, rt := range ReturnsOf(cmr) {
			c.ThroughLoop(fmt.Sprintf("%s.countMissingRevs#exhaustive#%d", pkg, i+1), revLoop, FlowPoint{Instr: rt})
		}
	}
	cfgPkg := "overlord/configstate/config"
	src := P.Func(cfgPkg + ".SaveRevisionConfig")
	c.touch(src)
	stSetObj := P.FuncObj("overlord/state.(*State).Set")
	var cfgLookup *ssa.Lookup
	for _, b := range src.Blocks {
		for _, in := range b.Instrs {
			if lk, ok := in.(*ssa.Lookup); ok && lk.CommaOk && IsParam(lk.Index, src, 1) {
				cfgLookup = lk
			}
		}
	}
	if cfgLookup == nil {
		c.Undecided(cfgPkg+".SaveRevisionConfig#config-lookup", src.Pos(), "config[snapName] lookup not found")
	} else {
		isSnapcfg := func(v ssa.Value) bool {
			ex, ok := Strip(v).(*ssa.Extract)
			return ok && ex.Tuple == ssa.Value(cfgLookup) && ex.Index == 0
		}
		hasCfg := Atom{Name: "config[snapName] present", Match: func(cd Cond) Pol {
			return cd.BoolIs(func(v ssa.Value) bool {
				ex, ok := v.(*ssa.Extract)
				return ok && ex.Tuple == ssa.Value(cfgLookup) && ex.Index == 1
			})
		}}
		n := 0
		for _, b := range src.Blocks {
			for si := range b.Succs {
				if !AtomEdges(hasCfg)(b, si) {
					continue
				}
				n++
				for _, step := range []struct {
					name string
					cut  func(ssa.Instruction) bool
				}{
					{"saved-copy-overwritten", func(in ssa.Instruction) bool {
						mu, ok := in.(*ssa.MapUpdate)
						return ok && isSnapcfg(mu.Value)
					}},
					{"stored", func(in ssa.Instruction) bool {
						ci, ok := IsCallTo(in, stSetObj)
						if !ok {
							return false
						}
						k, _ := ConstString(CallArgs(ci)[0])
						return k == "revision-config"
					}},
				} {
					q := ReachQ{Fn: src, From: &Loc{b.Succs[si], -1}, CutInstr: step.cut, Sink: IsSuccessReturn}
					r := q.Run()
					c.Check(!r.Found, cfgPkg+".SaveRevisionConfig#"+step.name, cfgLookup.Pos(), "every successful return after finding the snap's configuration has "+step.name, "SaveRevisionConfig can return success for a configured snap without having "+step.name+" (a stale copy from an earlier visit of this revision is kept, and the undo of a later failed refresh restores it): "+P.PathString(r.Path))
				}
			}
		}
		if n == 0 {
			c.Undecided(cfgPkg+".SaveRevisionConfig#present-edge", src.Pos(), "test of the lookup's ok result not found")
		}
	}

	// ---------------- R6
	c.Rule("C10-R6", "W", "the \"snaps\" state key is written only by snapstate.Set", 1)
	stSet := P.FuncObj("overlord/state.(*State).Set")
	n := 0
	for _, fn := range P.AllFuncs() {
		for _, sc := range CallSites(fn, stSet) {
			if k, ok := ConstString(CallArgs(sc)[0]); ok && k == "snaps" {
				n++
				if fn.Pkg != nil && strings.HasSuffix(fn.Pkg.Pkg.Path(), "/overlord/patch") {
					// state-format migrations: patch.Apply runs them at overlord start-up, before any
					// manager or task exists, rewriting the whole map from the old format (seen only
					// by the thorough tier, which loads every package)
					c.Holds(fmt.Sprintf("state-key:snaps#writer:%s", SSAFuncName(fn)), sc.Pos(), "state-format migration run by patch.Apply before the managers start")
					continue
				}
				c.Check(SSAFuncName(fn) == pkg+".Set", fmt.Sprintf("state-key:snaps#writer:%s", SSAFuncName(fn)), sc.Pos(), "written by snapstate.Set", "the \"snaps\" state key is written by "+SSAFuncName(fn)+", bypassing snapstate.Set")
			}
		}
	}
	if n == 0 {
		c.Undecided("state-key:snaps#writer", token.NoPos, "no writer of the \"snaps\" key found")
	}
}

func isTaskPtr(t types.Type) bool {
	p, ok := t.(*types.Pointer)
	if !ok {
		return false
	}
	n, ok := p.Elem().(*types.Named)
	return ok && n.Obj().Name() == "Task" && n.Obj().Pkg() != nil && strings.HasSuffix(n.Obj().Pkg().Path(), "overlord/state")
}

func onlyOld(m map[string]bool) []string {
	var out []string
	for _, k := range sortedKeys(m) {
		if strings.HasPrefix(k, "old-") {
			out = append(out, k)
		}
	}
	return out
}

// addrUnderField: addr is (an element/field address under) the address of struct field f.
func addrUnderField(addr ssa.Value, f *types.Var) bool {
	for i := 0; i < 8 && addr != nil; i++ {
		switch x := addr.(type) {
		case *ssa.FieldAddr:
			if fieldOfAddr(x) == f {
				return true
			}
			addr = x.X
		case *ssa.IndexAddr:
			addr = x.X
		case *ssa.UnOp:
			if x.Op != token.MUL {
				return false
			}
			addr = x.X
		case *ssa.Slice:
			addr = x.X
		default:
			return false
		}
	}
	return false
}

// callsDeep lists calls to obj in fn, its closures, and same-package static callees (depth 2).
func callsDeep(fn *ssa.Function, obj *types.Func) []ssa.CallInstruction {
	var out []ssa.CallInstruction
	seen := map[*ssa.Function]bool{}
	var rec func(f *ssa.Function, d int)
	rec = func(f *ssa.Function, d int) {
		if f == nil || seen[f] || f.Blocks == nil {
			return
		}
		seen[f] = true
		out = append(out, CallSites(f, obj)...)
		for _, a := range f.AnonFuncs {
			rec(a, d)
		}
		if d >= 2 {
			return
		}
		for _, b := range f.Blocks {
			for _, in := range b.Instrs {
				if ci, ok := in.(ssa.CallInstruction); ok {
					if sf := ci.Common().StaticCallee(); sf != nil && sf.Pkg == fn.Pkg {
						rec(sf, d+1)
					}
				}
			}
		}
	}
	rec(fn, 0)
	return out
}
